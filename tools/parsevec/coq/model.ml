
(** val negb : bool -> bool **)

let negb = function
| true -> false
| false -> true

type nat =
| O
| S of nat

type ('a, 'b) sum =
| Inl of 'a
| Inr of 'b

(** val fst : ('a1 * 'a2) -> 'a1 **)

let fst = function
| (x, _) -> x

(** val snd : ('a1 * 'a2) -> 'a2 **)

let snd = function
| (_, y) -> y

(** val length : 'a1 list -> nat **)

let rec length = function
| [] -> O
| _ :: l' -> S (length l')

(** val app : 'a1 list -> 'a1 list -> 'a1 list **)

let rec app l m =
  match l with
  | [] -> m
  | a :: l1 -> a :: (app l1 m)

type comparison =
| Eq
| Lt
| Gt

(** val compOpp : comparison -> comparison **)

let compOpp = function
| Eq -> Eq
| Lt -> Gt
| Gt -> Lt

module Coq__1 = struct
 (** val add : nat -> nat -> nat **)
 let rec add n0 m =
   match n0 with
   | O -> m
   | S p -> S (add p m)
end
include Coq__1

(** val mul : nat -> nat -> nat **)

let rec mul n0 m =
  match n0 with
  | O -> O
  | S p -> add m (mul p m)

type positive =
| XI of positive
| XO of positive
| XH

type n =
| N0
| Npos of positive

type z =
| Z0
| Zpos of positive
| Zneg of positive

(** val eqb : bool -> bool -> bool **)

let eqb b1 b2 =
  if b1 then b2 else if b2 then false else true

module Nat =
 struct
  (** val pred : nat -> nat **)

  let pred n0 = match n0 with
  | O -> n0
  | S u -> u

  (** val eqb : nat -> nat -> bool **)

  let rec eqb n0 m =
    match n0 with
    | O -> (match m with
            | O -> true
            | S _ -> false)
    | S n' -> (match m with
               | O -> false
               | S m' -> eqb n' m')

  (** val leb : nat -> nat -> bool **)

  let rec leb n0 m =
    match n0 with
    | O -> true
    | S n' -> (match m with
               | O -> false
               | S m' -> leb n' m')
 end

module Pos =
 struct
  (** val succ : positive -> positive **)

  let rec succ = function
  | XI p -> XO (succ p)
  | XO p -> XI p
  | XH -> XO XH

  (** val add : positive -> positive -> positive **)

  let rec add x y =
    match x with
    | XI p ->
      (match y with
       | XI q -> XO (add_carry p q)
       | XO q -> XI (add p q)
       | XH -> XO (succ p))
    | XO p ->
      (match y with
       | XI q -> XI (add p q)
       | XO q -> XO (add p q)
       | XH -> XI p)
    | XH -> (match y with
             | XI q -> XO (succ q)
             | XO q -> XI q
             | XH -> XO XH)

  (** val add_carry : positive -> positive -> positive **)

  and add_carry x y =
    match x with
    | XI p ->
      (match y with
       | XI q -> XI (add_carry p q)
       | XO q -> XO (add_carry p q)
       | XH -> XI (succ p))
    | XO p ->
      (match y with
       | XI q -> XO (add_carry p q)
       | XO q -> XI (add p q)
       | XH -> XO (succ p))
    | XH ->
      (match y with
       | XI q -> XI (succ q)
       | XO q -> XO (succ q)
       | XH -> XI XH)

  (** val pred_double : positive -> positive **)

  let rec pred_double = function
  | XI p -> XI (XO p)
  | XO p -> XI (pred_double p)
  | XH -> XH

  (** val pred_N : positive -> n **)

  let pred_N = function
  | XI p -> Npos (XO p)
  | XO p -> Npos (pred_double p)
  | XH -> N0

  (** val mul : positive -> positive -> positive **)

  let rec mul x y =
    match x with
    | XI p -> add y (XO (mul p y))
    | XO p -> XO (mul p y)
    | XH -> y

  (** val iter : ('a1 -> 'a1) -> 'a1 -> positive -> 'a1 **)

  let rec iter f x = function
  | XI n' -> f (iter f (iter f x n') n')
  | XO n' -> iter f (iter f x n') n'
  | XH -> f x

  (** val div2 : positive -> positive **)

  let div2 = function
  | XI p0 -> p0
  | XO p0 -> p0
  | XH -> XH

  (** val div2_up : positive -> positive **)

  let div2_up = function
  | XI p0 -> succ p0
  | XO p0 -> p0
  | XH -> XH

  (** val size : positive -> positive **)

  let rec size = function
  | XI p0 -> succ (size p0)
  | XO p0 -> succ (size p0)
  | XH -> XH

  (** val compare_cont : comparison -> positive -> positive -> comparison **)

  let rec compare_cont r x y =
    match x with
    | XI p ->
      (match y with
       | XI q -> compare_cont r p q
       | XO q -> compare_cont Gt p q
       | XH -> Gt)
    | XO p ->
      (match y with
       | XI q -> compare_cont Lt p q
       | XO q -> compare_cont r p q
       | XH -> Gt)
    | XH -> (match y with
             | XH -> r
             | _ -> Lt)

  (** val compare : positive -> positive -> comparison **)

  let compare =
    compare_cont Eq

  (** val eqb : positive -> positive -> bool **)

  let rec eqb p q =
    match p with
    | XI p0 -> (match q with
                | XI q0 -> eqb p0 q0
                | _ -> false)
    | XO p0 -> (match q with
                | XO q0 -> eqb p0 q0
                | _ -> false)
    | XH -> (match q with
             | XH -> true
             | _ -> false)

  (** val coq_Nsucc_double : n -> n **)

  let coq_Nsucc_double = function
  | N0 -> Npos XH
  | Npos p -> Npos (XI p)

  (** val coq_Ndouble : n -> n **)

  let coq_Ndouble = function
  | N0 -> N0
  | Npos p -> Npos (XO p)

  (** val coq_lor : positive -> positive -> positive **)

  let rec coq_lor p q =
    match p with
    | XI p0 ->
      (match q with
       | XI q0 -> XI (coq_lor p0 q0)
       | XO q0 -> XI (coq_lor p0 q0)
       | XH -> p)
    | XO p0 ->
      (match q with
       | XI q0 -> XI (coq_lor p0 q0)
       | XO q0 -> XO (coq_lor p0 q0)
       | XH -> XI p0)
    | XH -> (match q with
             | XO q0 -> XI q0
             | _ -> q)

  (** val coq_land : positive -> positive -> n **)

  let rec coq_land p q =
    match p with
    | XI p0 ->
      (match q with
       | XI q0 -> coq_Nsucc_double (coq_land p0 q0)
       | XO q0 -> coq_Ndouble (coq_land p0 q0)
       | XH -> Npos XH)
    | XO p0 ->
      (match q with
       | XI q0 -> coq_Ndouble (coq_land p0 q0)
       | XO q0 -> coq_Ndouble (coq_land p0 q0)
       | XH -> N0)
    | XH -> (match q with
             | XO _ -> N0
             | _ -> Npos XH)

  (** val ldiff : positive -> positive -> n **)

  let rec ldiff p q =
    match p with
    | XI p0 ->
      (match q with
       | XI q0 -> coq_Ndouble (ldiff p0 q0)
       | XO q0 -> coq_Nsucc_double (ldiff p0 q0)
       | XH -> Npos (XO p0))
    | XO p0 ->
      (match q with
       | XI q0 -> coq_Ndouble (ldiff p0 q0)
       | XO q0 -> coq_Ndouble (ldiff p0 q0)
       | XH -> Npos p)
    | XH -> (match q with
             | XO _ -> Npos XH
             | _ -> N0)

  (** val testbit : positive -> n -> bool **)

  let rec testbit p n0 =
    match p with
    | XI p0 -> (match n0 with
                | N0 -> true
                | Npos n1 -> testbit p0 (pred_N n1))
    | XO p0 -> (match n0 with
                | N0 -> false
                | Npos n1 -> testbit p0 (pred_N n1))
    | XH -> (match n0 with
             | N0 -> true
             | Npos _ -> false)

  (** val iter_op : ('a1 -> 'a1 -> 'a1) -> positive -> 'a1 -> 'a1 **)

  let rec iter_op op p a =
    match p with
    | XI p0 -> op a (iter_op op p0 (op a a))
    | XO p0 -> iter_op op p0 (op a a)
    | XH -> a

  (** val to_nat : positive -> nat **)

  let to_nat x =
    iter_op Coq__1.add x (S O)

  (** val of_succ_nat : nat -> positive **)

  let rec of_succ_nat = function
  | O -> XH
  | S x -> succ (of_succ_nat x)
 end

module N =
 struct
  (** val succ_pos : n -> positive **)

  let succ_pos = function
  | N0 -> XH
  | Npos p -> Pos.succ p

  (** val add : n -> n -> n **)

  let add n0 m =
    match n0 with
    | N0 -> m
    | Npos p -> (match m with
                 | N0 -> n0
                 | Npos q -> Npos (Pos.add p q))

  (** val mul : n -> n -> n **)

  let mul n0 m =
    match n0 with
    | N0 -> N0
    | Npos p -> (match m with
                 | N0 -> N0
                 | Npos q -> Npos (Pos.mul p q))

  (** val coq_lor : n -> n -> n **)

  let coq_lor n0 m =
    match n0 with
    | N0 -> m
    | Npos p -> (match m with
                 | N0 -> n0
                 | Npos q -> Npos (Pos.coq_lor p q))

  (** val coq_land : n -> n -> n **)

  let coq_land n0 m =
    match n0 with
    | N0 -> N0
    | Npos p -> (match m with
                 | N0 -> N0
                 | Npos q -> Pos.coq_land p q)

  (** val ldiff : n -> n -> n **)

  let ldiff n0 m =
    match n0 with
    | N0 -> N0
    | Npos p -> (match m with
                 | N0 -> n0
                 | Npos q -> Pos.ldiff p q)

  (** val testbit : n -> n -> bool **)

  let testbit a n0 =
    match a with
    | N0 -> false
    | Npos p -> Pos.testbit p n0
 end

module Z =
 struct
  (** val double : z -> z **)

  let double = function
  | Z0 -> Z0
  | Zpos p -> Zpos (XO p)
  | Zneg p -> Zneg (XO p)

  (** val succ_double : z -> z **)

  let succ_double = function
  | Z0 -> Zpos XH
  | Zpos p -> Zpos (XI p)
  | Zneg p -> Zneg (Pos.pred_double p)

  (** val pred_double : z -> z **)

  let pred_double = function
  | Z0 -> Zneg XH
  | Zpos p -> Zpos (Pos.pred_double p)
  | Zneg p -> Zneg (XI p)

  (** val pos_sub : positive -> positive -> z **)

  let rec pos_sub x y =
    match x with
    | XI p ->
      (match y with
       | XI q -> double (pos_sub p q)
       | XO q -> succ_double (pos_sub p q)
       | XH -> Zpos (XO p))
    | XO p ->
      (match y with
       | XI q -> pred_double (pos_sub p q)
       | XO q -> double (pos_sub p q)
       | XH -> Zpos (Pos.pred_double p))
    | XH ->
      (match y with
       | XI q -> Zneg (XO q)
       | XO q -> Zneg (Pos.pred_double q)
       | XH -> Z0)

  (** val add : z -> z -> z **)

  let add x y =
    match x with
    | Z0 -> y
    | Zpos x' ->
      (match y with
       | Z0 -> x
       | Zpos y' -> Zpos (Pos.add x' y')
       | Zneg y' -> pos_sub x' y')
    | Zneg x' ->
      (match y with
       | Z0 -> x
       | Zpos y' -> pos_sub y' x'
       | Zneg y' -> Zneg (Pos.add x' y'))

  (** val opp : z -> z **)

  let opp = function
  | Z0 -> Z0
  | Zpos x0 -> Zneg x0
  | Zneg x0 -> Zpos x0

  (** val sub : z -> z -> z **)

  let sub m n0 =
    add m (opp n0)

  (** val mul : z -> z -> z **)

  let mul x y =
    match x with
    | Z0 -> Z0
    | Zpos x' ->
      (match y with
       | Z0 -> Z0
       | Zpos y' -> Zpos (Pos.mul x' y')
       | Zneg y' -> Zneg (Pos.mul x' y'))
    | Zneg x' ->
      (match y with
       | Z0 -> Z0
       | Zpos y' -> Zneg (Pos.mul x' y')
       | Zneg y' -> Zpos (Pos.mul x' y'))

  (** val pow_pos : z -> positive -> z **)

  let pow_pos z0 =
    Pos.iter (mul z0) (Zpos XH)

  (** val pow : z -> z -> z **)

  let pow x = function
  | Z0 -> Zpos XH
  | Zpos p -> pow_pos x p
  | Zneg _ -> Z0

  (** val compare : z -> z -> comparison **)

  let compare x y =
    match x with
    | Z0 -> (match y with
             | Z0 -> Eq
             | Zpos _ -> Lt
             | Zneg _ -> Gt)
    | Zpos x' -> (match y with
                  | Zpos y' -> Pos.compare x' y'
                  | _ -> Gt)
    | Zneg x' ->
      (match y with
       | Zneg y' -> compOpp (Pos.compare x' y')
       | _ -> Lt)

  (** val leb : z -> z -> bool **)

  let leb x y =
    match compare x y with
    | Gt -> false
    | _ -> true

  (** val ltb : z -> z -> bool **)

  let ltb x y =
    match compare x y with
    | Lt -> true
    | _ -> false

  (** val eqb : z -> z -> bool **)

  let eqb x y =
    match x with
    | Z0 -> (match y with
             | Z0 -> true
             | _ -> false)
    | Zpos p -> (match y with
                 | Zpos q -> Pos.eqb p q
                 | _ -> false)
    | Zneg p -> (match y with
                 | Zneg q -> Pos.eqb p q
                 | _ -> false)

  (** val max : z -> z -> z **)

  let max n0 m =
    match compare n0 m with
    | Lt -> m
    | _ -> n0

  (** val min : z -> z -> z **)

  let min n0 m =
    match compare n0 m with
    | Gt -> m
    | _ -> n0

  (** val abs : z -> z **)

  let abs = function
  | Zneg p -> Zpos p
  | x -> x

  (** val to_nat : z -> nat **)

  let to_nat = function
  | Zpos p -> Pos.to_nat p
  | _ -> O

  (** val to_N : z -> n **)

  let to_N = function
  | Zpos p -> Npos p
  | _ -> N0

  (** val of_nat : nat -> z **)

  let of_nat = function
  | O -> Z0
  | S n1 -> Zpos (Pos.of_succ_nat n1)

  (** val of_N : n -> z **)

  let of_N = function
  | N0 -> Z0
  | Npos p -> Zpos p

  (** val pos_div_eucl : positive -> z -> z * z **)

  let rec pos_div_eucl a b =
    match a with
    | XI a' ->
      let (q, r) = pos_div_eucl a' b in
      let r' = add (mul (Zpos (XO XH)) r) (Zpos XH) in
      if ltb r' b
      then ((mul (Zpos (XO XH)) q), r')
      else ((add (mul (Zpos (XO XH)) q) (Zpos XH)), (sub r' b))
    | XO a' ->
      let (q, r) = pos_div_eucl a' b in
      let r' = mul (Zpos (XO XH)) r in
      if ltb r' b
      then ((mul (Zpos (XO XH)) q), r')
      else ((add (mul (Zpos (XO XH)) q) (Zpos XH)), (sub r' b))
    | XH -> if leb (Zpos (XO XH)) b then (Z0, (Zpos XH)) else ((Zpos XH), Z0)

  (** val div_eucl : z -> z -> z * z **)

  let div_eucl a b =
    match a with
    | Z0 -> (Z0, Z0)
    | Zpos a' ->
      (match b with
       | Z0 -> (Z0, a)
       | Zpos _ -> pos_div_eucl a' b
       | Zneg b' ->
         let (q, r) = pos_div_eucl a' (Zpos b') in
         (match r with
          | Z0 -> ((opp q), Z0)
          | _ -> ((opp (add q (Zpos XH))), (add b r))))
    | Zneg a' ->
      (match b with
       | Z0 -> (Z0, a)
       | Zpos _ ->
         let (q, r) = pos_div_eucl a' b in
         (match r with
          | Z0 -> ((opp q), Z0)
          | _ -> ((opp (add q (Zpos XH))), (sub b r)))
       | Zneg b' -> let (q, r) = pos_div_eucl a' (Zpos b') in (q, (opp r)))

  (** val div : z -> z -> z **)

  let div a b =
    let (q, _) = div_eucl a b in q

  (** val modulo : z -> z -> z **)

  let modulo a b =
    let (_, r) = div_eucl a b in r

  (** val even : z -> bool **)

  let even = function
  | Z0 -> true
  | Zpos p -> (match p with
               | XO _ -> true
               | _ -> false)
  | Zneg p -> (match p with
               | XO _ -> true
               | _ -> false)

  (** val odd : z -> bool **)

  let odd = function
  | Z0 -> false
  | Zpos p -> (match p with
               | XO _ -> false
               | _ -> true)
  | Zneg p -> (match p with
               | XO _ -> false
               | _ -> true)

  (** val div2 : z -> z **)

  let div2 = function
  | Z0 -> Z0
  | Zpos p -> (match p with
               | XH -> Z0
               | _ -> Zpos (Pos.div2 p))
  | Zneg p -> Zneg (Pos.div2_up p)

  (** val log2 : z -> z **)

  let log2 = function
  | Zpos p0 ->
    (match p0 with
     | XI p -> Zpos (Pos.size p)
     | XO p -> Zpos (Pos.size p)
     | XH -> Z0)
  | _ -> Z0

  (** val testbit : z -> z -> bool **)

  let testbit a = function
  | Z0 -> odd a
  | Zpos p ->
    (match a with
     | Z0 -> false
     | Zpos a0 -> Pos.testbit a0 (Npos p)
     | Zneg a0 -> negb (N.testbit (Pos.pred_N a0) (Npos p)))
  | Zneg _ -> false

  (** val shiftl : z -> z -> z **)

  let shiftl a = function
  | Z0 -> a
  | Zpos p -> Pos.iter (mul (Zpos (XO XH))) a p
  | Zneg p -> Pos.iter div2 a p

  (** val shiftr : z -> z -> z **)

  let shiftr a n0 =
    shiftl a (opp n0)

  (** val coq_lor : z -> z -> z **)

  let coq_lor a b =
    match a with
    | Z0 -> b
    | Zpos a0 ->
      (match b with
       | Z0 -> a
       | Zpos b0 -> Zpos (Pos.coq_lor a0 b0)
       | Zneg b0 -> Zneg (N.succ_pos (N.ldiff (Pos.pred_N b0) (Npos a0))))
    | Zneg a0 ->
      (match b with
       | Z0 -> a
       | Zpos b0 -> Zneg (N.succ_pos (N.ldiff (Pos.pred_N a0) (Npos b0)))
       | Zneg b0 ->
         Zneg (N.succ_pos (N.coq_land (Pos.pred_N a0) (Pos.pred_N b0))))

  (** val coq_land : z -> z -> z **)

  let coq_land a b =
    match a with
    | Z0 -> Z0
    | Zpos a0 ->
      (match b with
       | Z0 -> Z0
       | Zpos b0 -> of_N (Pos.coq_land a0 b0)
       | Zneg b0 -> of_N (N.ldiff (Npos a0) (Pos.pred_N b0)))
    | Zneg a0 ->
      (match b with
       | Z0 -> Z0
       | Zpos b0 -> of_N (N.ldiff (Npos b0) (Pos.pred_N a0))
       | Zneg b0 ->
         Zneg (N.succ_pos (N.coq_lor (Pos.pred_N a0) (Pos.pred_N b0))))
 end

(** val rev : 'a1 list -> 'a1 list **)

let rec rev = function
| [] -> []
| x :: l' -> app (rev l') (x :: [])

(** val map : ('a1 -> 'a2) -> 'a1 list -> 'a2 list **)

let rec map f = function
| [] -> []
| a :: t -> (f a) :: (map f t)

(** val flat_map : ('a1 -> 'a2 list) -> 'a1 list -> 'a2 list **)

let rec flat_map f = function
| [] -> []
| x :: t -> app (f x) (flat_map f t)

(** val forallb : ('a1 -> bool) -> 'a1 list -> bool **)

let rec forallb f = function
| [] -> true
| a :: l0 -> (&&) (f a) (forallb f l0)

(** val firstn : nat -> 'a1 list -> 'a1 list **)

let rec firstn n0 l =
  match n0 with
  | O -> []
  | S n1 -> (match l with
             | [] -> []
             | a :: l0 -> a :: (firstn n1 l0))

(** val skipn : nat -> 'a1 list -> 'a1 list **)

let rec skipn n0 l =
  match n0 with
  | O -> l
  | S n1 -> (match l with
             | [] -> []
             | _ :: l0 -> skipn n1 l0)

(** val zero : char **)

let zero = '\000'

(** val one : char **)

let one = '\001'

(** val shift : bool -> char -> char **)

let shift = fun b c -> Char.chr (((Char.code c) lsl 1) land 255 + if b then 1 else 0)

(** val ascii_of_pos : positive -> char **)

let ascii_of_pos =
  let rec loop n0 p =
    match n0 with
    | O -> zero
    | S n' ->
      (match p with
       | XI p' -> shift true (loop n' p')
       | XO p' -> shift false (loop n' p')
       | XH -> one)
  in loop (S (S (S (S (S (S (S (S O))))))))

(** val ascii_of_N : n -> char **)

let ascii_of_N = function
| N0 -> zero
| Npos p -> ascii_of_pos p

(** val n_of_digits : bool list -> n **)

let rec n_of_digits = function
| [] -> N0
| b :: l' ->
  N.add (if b then Npos XH else N0) (N.mul (Npos (XO XH)) (n_of_digits l'))

(** val n_of_ascii : char -> n **)

let n_of_ascii a =
  (* If this appears, you're using Ascii internals. Please don't *)
 (fun f c ->
  let n = Char.code c in
  let h i = (n land (1 lsl i)) <> 0 in
  f (h 0) (h 1) (h 2) (h 3) (h 4) (h 5) (h 6) (h 7))
    (fun a0 a1 a2 a3 a4 a5 a6 a7 ->
    n_of_digits
      (a0 :: (a1 :: (a2 :: (a3 :: (a4 :: (a5 :: (a6 :: (a7 :: [])))))))))
    a

(** val eqb0 : char list -> char list -> bool **)

let rec eqb0 s1 s2 =
  match s1 with
  | [] -> (match s2 with
           | [] -> true
           | _::_ -> false)
  | c1::s1' ->
    (match s2 with
     | [] -> false
     | c2::s2' -> if (=) c1 c2 then eqb0 s1' s2' else false)

(** val append : char list -> char list -> char list **)

let rec append s1 s2 =
  match s1 with
  | [] -> s2
  | c::s1' -> c::(append s1' s2)

(** val shift_pos : positive -> positive -> positive **)

let shift_pos n0 z0 =
  Pos.iter (fun x -> XO x) z0 n0

type spec_float =
| S754_zero of bool
| S754_infinity of bool
| S754_nan
| S754_finite of bool * positive * z

(** val emin : z -> z -> z **)

let emin prec emax =
  Z.sub (Z.sub (Zpos (XI XH)) emax) prec

(** val fexp : z -> z -> z -> z **)

let fexp prec emax e =
  Z.max (Z.sub e prec) (emin prec emax)

(** val digits2_pos : positive -> positive **)

let rec digits2_pos = function
| XI p -> Pos.succ (digits2_pos p)
| XO p -> Pos.succ (digits2_pos p)
| XH -> XH

(** val zdigits2 : z -> z **)

let zdigits2 n0 = match n0 with
| Z0 -> n0
| Zpos p -> Zpos (digits2_pos p)
| Zneg p -> Zpos (digits2_pos p)

(** val iter_pos : ('a1 -> 'a1) -> positive -> 'a1 -> 'a1 **)

let rec iter_pos f n0 x =
  match n0 with
  | XI n' -> iter_pos f n' (iter_pos f n' (f x))
  | XO n' -> iter_pos f n' (iter_pos f n' x)
  | XH -> f x

type location =
| Loc_Exact
| Loc_Inexact of comparison

type shr_record = { shr_m : z; shr_r : bool; shr_s : bool }

(** val shr_1 : shr_record -> shr_record **)

let shr_1 mrs =
  let { shr_m = m; shr_r = r; shr_s = s } = mrs in
  let s0 = (||) r s in
  (match m with
   | Z0 -> { shr_m = Z0; shr_r = false; shr_s = s0 }
   | Zpos p0 ->
     (match p0 with
      | XI p -> { shr_m = (Zpos p); shr_r = true; shr_s = s0 }
      | XO p -> { shr_m = (Zpos p); shr_r = false; shr_s = s0 }
      | XH -> { shr_m = Z0; shr_r = true; shr_s = s0 })
   | Zneg p0 ->
     (match p0 with
      | XI p -> { shr_m = (Zneg p); shr_r = true; shr_s = s0 }
      | XO p -> { shr_m = (Zneg p); shr_r = false; shr_s = s0 }
      | XH -> { shr_m = Z0; shr_r = true; shr_s = s0 }))

(** val loc_of_shr_record : shr_record -> location **)

let loc_of_shr_record mrs =
  let { shr_m = _; shr_r = shr_r0; shr_s = shr_s0 } = mrs in
  if shr_r0
  then if shr_s0 then Loc_Inexact Gt else Loc_Inexact Eq
  else if shr_s0 then Loc_Inexact Lt else Loc_Exact

(** val shr_record_of_loc : z -> location -> shr_record **)

let shr_record_of_loc m = function
| Loc_Exact -> { shr_m = m; shr_r = false; shr_s = false }
| Loc_Inexact c ->
  (match c with
   | Eq -> { shr_m = m; shr_r = true; shr_s = false }
   | Lt -> { shr_m = m; shr_r = false; shr_s = true }
   | Gt -> { shr_m = m; shr_r = true; shr_s = true })

(** val shr : shr_record -> z -> z -> shr_record * z **)

let shr mrs e n0 = match n0 with
| Zpos p -> ((iter_pos shr_1 p mrs), (Z.add e n0))
| _ -> (mrs, e)

(** val shr_fexp : z -> z -> z -> z -> location -> shr_record * z **)

let shr_fexp prec emax m e l =
  shr (shr_record_of_loc m l) e
    (Z.sub (fexp prec emax (Z.add (zdigits2 m) e)) e)

(** val round_nearest_even : z -> location -> z **)

let round_nearest_even mx = function
| Loc_Exact -> mx
| Loc_Inexact c ->
  (match c with
   | Eq -> if Z.even mx then mx else Z.add mx (Zpos XH)
   | Lt -> mx
   | Gt -> Z.add mx (Zpos XH))

(** val binary_round_aux :
    z -> z -> bool -> z -> z -> location -> spec_float **)

let binary_round_aux prec emax sx mx ex lx =
  let (mrs', e') = shr_fexp prec emax mx ex lx in
  let (mrs'', e'') =
    shr_fexp prec emax
      (round_nearest_even mrs'.shr_m (loc_of_shr_record mrs')) e' Loc_Exact
  in
  (match mrs''.shr_m with
   | Z0 -> S754_zero sx
   | Zpos m ->
     if Z.leb e'' (Z.sub emax prec)
     then S754_finite (sx, m, e'')
     else S754_infinity sx
   | Zneg _ -> S754_nan)

(** val shl_align : positive -> z -> z -> positive * z **)

let shl_align mx ex ex' =
  match Z.sub ex' ex with
  | Zneg d -> ((shift_pos d mx), ex')
  | _ -> (mx, ex)

(** val binary_round : z -> z -> bool -> positive -> z -> spec_float **)

let binary_round prec emax sx mx ex =
  let (mz, ez) =
    shl_align mx ex (fexp prec emax (Z.add (Zpos (digits2_pos mx)) ex))
  in
  binary_round_aux prec emax sx (Zpos mz) ez Loc_Exact

(** val sFopp : spec_float -> spec_float **)

let sFopp = function
| S754_zero sx -> S754_zero (negb sx)
| S754_infinity sx -> S754_infinity (negb sx)
| S754_nan -> S754_nan
| S754_finite (sx, mx, ex) -> S754_finite ((negb sx), mx, ex)

(** val sFabs : spec_float -> spec_float **)

let sFabs = function
| S754_zero _ -> S754_zero false
| S754_infinity _ -> S754_infinity false
| S754_nan -> S754_nan
| S754_finite (_, mx, ex) -> S754_finite (false, mx, ex)

(** val sFcompare : spec_float -> spec_float -> comparison option **)

let sFcompare f1 f2 =
  match f1 with
  | S754_zero _ ->
    (match f2 with
     | S754_zero _ -> Some Eq
     | S754_infinity s -> Some (if s then Gt else Lt)
     | S754_nan -> None
     | S754_finite (s, _, _) -> Some (if s then Gt else Lt))
  | S754_infinity s ->
    (match f2 with
     | S754_infinity s0 ->
       Some (if s then if s0 then Eq else Lt else if s0 then Gt else Eq)
     | S754_nan -> None
     | _ -> Some (if s then Lt else Gt))
  | S754_nan -> None
  | S754_finite (s1, m1, e1) ->
    (match f2 with
     | S754_zero _ -> Some (if s1 then Lt else Gt)
     | S754_infinity s -> Some (if s then Gt else Lt)
     | S754_nan -> None
     | S754_finite (s2, m2, e2) ->
       Some
         (if s1
          then if s2
               then (match Z.compare e1 e2 with
                     | Eq -> compOpp (Pos.compare_cont Eq m1 m2)
                     | Lt -> Gt
                     | Gt -> Lt)
               else Lt
          else if s2
               then Gt
               else (match Z.compare e1 e2 with
                     | Eq -> Pos.compare_cont Eq m1 m2
                     | x -> x)))

(** val sFltb : spec_float -> spec_float -> bool **)

let sFltb f1 f2 =
  match sFcompare f1 f2 with
  | Some c -> (match c with
               | Lt -> true
               | _ -> false)
  | None -> false

(** val sFleb : spec_float -> spec_float -> bool **)

let sFleb f1 f2 =
  match sFcompare f1 f2 with
  | Some c -> (match c with
               | Gt -> false
               | _ -> true)
  | None -> false

type 'a outcome =
| Ret of 'a
| Panic of char list
| OutOfFuel

(** val max_int64 : z **)

let max_int64 =
  Zpos (XI (XI (XI (XI (XI (XI (XI (XI (XI (XI (XI (XI (XI (XI (XI (XI (XI
    (XI (XI (XI (XI (XI (XI (XI (XI (XI (XI (XI (XI (XI (XI (XI (XI (XI (XI
    (XI (XI (XI (XI (XI (XI (XI (XI (XI (XI (XI (XI (XI (XI (XI (XI (XI (XI
    (XI (XI (XI (XI (XI (XI (XI (XI (XI
    XH))))))))))))))))))))))))))))))))))))))))))))))))))))))))))))))

(** val max_uint32 : z **)

let max_uint32 =
  Zpos (XI (XI (XI (XI (XI (XI (XI (XI (XI (XI (XI (XI (XI (XI (XI (XI (XI
    (XI (XI (XI (XI (XI (XI (XI (XI (XI (XI (XI (XI (XI (XI
    XH)))))))))))))))))))))))))))))))

(** val str_of_list : char list -> char list **)

let rec str_of_list = function
| [] -> []
| c :: r -> c::(str_of_list r)

(** val list_of_str : char list -> char list **)

let rec list_of_str = function
| [] -> []
| c::r -> c :: (list_of_str r)

(** val ascii_of_Z : z -> char **)

let ascii_of_Z z0 =
  ascii_of_N (Z.to_N z0)

(** val z_of_ascii : char -> z **)

let z_of_ascii c =
  Z.of_N (n_of_ascii c)

(** val lower_ascii : char -> char **)

let lower_ascii c =
  let n0 = z_of_ascii c in
  if (&&) (Z.leb (Zpos (XI (XO (XO (XO (XO (XO XH))))))) n0)
       (Z.leb n0 (Zpos (XO (XI (XO (XI (XI (XO XH))))))))
  then ascii_of_Z (Z.add n0 (Zpos (XO (XO (XO (XO (XO XH)))))))
  else c

(** val str_lower : char list -> char list **)

let rec str_lower = function
| [] -> []
| c::r -> (lower_ascii c)::(str_lower r)

(** val rune_error : z **)

let rune_error =
  Zpos (XI (XO (XI (XI (XI (XI (XI (XI (XI (XI (XI (XI (XI (XI (XI
    XH)))))))))))))))

(** val max_rune : z **)

let max_rune =
  Zpos (XI (XI (XI (XI (XI (XI (XI (XI (XI (XI (XI (XI (XI (XI (XI (XI (XO
    (XO (XO (XO XH))))))))))))))))))))

(** val is_surrogate : z -> bool **)

let is_surrogate r =
  (&&)
    (Z.leb (Zpos (XO (XO (XO (XO (XO (XO (XO (XO (XO (XO (XO (XI (XI (XO (XI
      XH)))))))))))))))) r)
    (Z.leb r (Zpos (XI (XI (XI (XI (XI (XI (XI (XI (XI (XI (XI (XI (XI (XO
      (XI XH)))))))))))))))))

(** val valid_rune : z -> bool **)

let valid_rune r =
  (&&) ((&&) (Z.leb Z0 r) (Z.leb r max_rune)) (negb (is_surrogate r))

(** val bytes_of : char list -> z list **)

let bytes_of s =
  map z_of_ascii (list_of_str s)

(** val str_of_bytes : z list -> char list **)

let str_of_bytes l =
  str_of_list (map ascii_of_Z l)

(** val is_cont : z -> bool **)

let is_cont b =
  (&&) (Z.leb (Zpos (XO (XO (XO (XO (XO (XO (XO XH)))))))) b)
    (Z.leb b (Zpos (XI (XI (XI (XI (XI (XI (XO XH)))))))))

(** val decode_rune : z list -> z * nat **)

let decode_rune = function
| [] -> (rune_error, O)
| b0 :: r ->
  if Z.ltb b0 (Zpos (XO (XO (XO (XO (XO (XO (XO XH))))))))
  then (b0, (S O))
  else if Z.ltb b0 (Zpos (XO (XI (XO (XO (XO (XO (XI XH))))))))
       then (rune_error, (S O))
       else if Z.ltb b0 (Zpos (XO (XO (XO (XO (XO (XI (XI XH))))))))
            then (match r with
                  | [] -> (rune_error, (S O))
                  | b1 :: _ ->
                    if is_cont b1
                    then ((Z.add
                            (Z.mul
                              (Z.sub b0 (Zpos (XO (XO (XO (XO (XO (XO (XI
                                XH))))))))) (Zpos (XO (XO (XO (XO (XO (XO
                              XH))))))))
                            (Z.sub b1 (Zpos (XO (XO (XO (XO (XO (XO (XO
                              XH)))))))))), (S (S O)))
                    else (rune_error, (S O)))
            else if Z.ltb b0 (Zpos (XO (XO (XO (XO (XI (XI (XI XH))))))))
                 then let lo =
                        if Z.eqb b0 (Zpos (XO (XO (XO (XO (XO (XI (XI
                             XH))))))))
                        then Zpos (XO (XO (XO (XO (XO (XI (XO XH)))))))
                        else Zpos (XO (XO (XO (XO (XO (XO (XO XH)))))))
                      in
                      let hi =
                        if Z.eqb b0 (Zpos (XI (XO (XI (XI (XO (XI (XI
                             XH))))))))
                        then Zpos (XI (XI (XI (XI (XI (XO (XO XH)))))))
                        else Zpos (XI (XI (XI (XI (XI (XI (XO XH)))))))
                      in
                      (match r with
                       | [] -> (rune_error, (S O))
                       | b1 :: l ->
                         (match l with
                          | [] -> (rune_error, (S O))
                          | b2 :: _ ->
                            if (&&) ((&&) (Z.leb lo b1) (Z.leb b1 hi))
                                 (is_cont b2)
                            then ((Z.add
                                    (Z.add
                                      (Z.mul
                                        (Z.sub b0 (Zpos (XO (XO (XO (XO (XO
                                          (XI (XI XH))))))))) (Zpos (XO (XO
                                        (XO (XO (XO (XO (XO (XO (XO (XO (XO
                                        (XO XH))))))))))))))
                                      (Z.mul
                                        (Z.sub b1 (Zpos (XO (XO (XO (XO (XO
                                          (XO (XO XH))))))))) (Zpos (XO (XO
                                        (XO (XO (XO (XO XH)))))))))
                                    (Z.sub b2 (Zpos (XO (XO (XO (XO (XO (XO
                                      (XO XH)))))))))), (S (S (S O))))
                            else (rune_error, (S O))))
                 else if Z.ltb b0 (Zpos (XI (XO (XI (XO (XI (XI (XI XH))))))))
                      then let lo =
                             if Z.eqb b0 (Zpos (XO (XO (XO (XO (XI (XI (XI
                                  XH))))))))
                             then Zpos (XO (XO (XO (XO (XI (XO (XO XH)))))))
                             else Zpos (XO (XO (XO (XO (XO (XO (XO XH)))))))
                           in
                           let hi =
                             if Z.eqb b0 (Zpos (XO (XO (XI (XO (XI (XI (XI
                                  XH))))))))
                             then Zpos (XI (XI (XI (XI (XO (XO (XO XH)))))))
                             else Zpos (XI (XI (XI (XI (XI (XI (XO XH)))))))
                           in
                           (match r with
                            | [] -> (rune_error, (S O))
                            | b1 :: l ->
                              (match l with
                               | [] -> (rune_error, (S O))
                               | b2 :: l0 ->
                                 (match l0 with
                                  | [] -> (rune_error, (S O))
                                  | b3 :: _ ->
                                    if (&&)
                                         ((&&)
                                           ((&&) (Z.leb lo b1) (Z.leb b1 hi))
                                           (is_cont b2)) (is_cont b3)
                                    then ((Z.add
                                            (Z.add
                                              (Z.add
                                                (Z.mul
                                                  (Z.sub b0 (Zpos (XO (XO (XO
                                                    (XO (XI (XI (XI
                                                    XH))))))))) (Zpos (XO (XO
                                                  (XO (XO (XO (XO (XO (XO (XO
                                                  (XO (XO (XO (XO (XO (XO (XO
                                                  (XO (XO
                                                  XH))))))))))))))))))))
                                                (Z.mul
                                                  (Z.sub b1 (Zpos (XO (XO (XO
                                                    (XO (XO (XO (XO
                                                    XH))))))))) (Zpos (XO (XO
                                                  (XO (XO (XO (XO (XO (XO (XO
                                                  (XO (XO (XO XH)))))))))))))))
                                              (Z.mul
                                                (Z.sub b2 (Zpos (XO (XO (XO
                                                  (XO (XO (XO (XO XH)))))))))
                                                (Zpos (XO (XO (XO (XO (XO (XO
                                                XH)))))))))
                                            (Z.sub b3 (Zpos (XO (XO (XO (XO
                                              (XO (XO (XO XH)))))))))), (S (S
                                           (S (S O)))))
                                    else (rune_error, (S O)))))
                      else (rune_error, (S O))

(** val encode_rune : z -> z list **)

let encode_rune r =
  if (&&) (Z.leb Z0 r) (Z.leb r (Zpos (XI (XI (XI (XI (XI (XI XH))))))))
  then r :: []
  else if (&&) (Z.leb Z0 r)
            (Z.leb r (Zpos (XI (XI (XI (XI (XI (XI (XI (XI (XI (XI
              XH))))))))))))
       then (Z.add (Zpos (XO (XO (XO (XO (XO (XO (XI XH))))))))
              (Z.div r (Zpos (XO (XO (XO (XO (XO (XO XH))))))))) :: (
              (Z.add (Zpos (XO (XO (XO (XO (XO (XO (XO XH))))))))
                (Z.modulo r (Zpos (XO (XO (XO (XO (XO (XO XH))))))))) :: [])
       else if (||) ((||) (Z.ltb r Z0) (Z.ltb max_rune r)) (is_surrogate r)
            then (Zpos (XI (XI (XI (XI (XO (XI (XI XH)))))))) :: ((Zpos (XI
                   (XI (XI (XI (XI (XI (XO XH)))))))) :: ((Zpos (XI (XO (XI
                   (XI (XI (XI (XO XH)))))))) :: []))
            else if Z.leb r (Zpos (XI (XI (XI (XI (XI (XI (XI (XI (XI (XI (XI
                      (XI (XI (XI (XI XH))))))))))))))))
                 then (Z.add (Zpos (XO (XO (XO (XO (XO (XI (XI XH))))))))
                        (Z.div r (Zpos (XO (XO (XO (XO (XO (XO (XO (XO (XO
                          (XO (XO (XO XH))))))))))))))) :: ((Z.add (Zpos (XO
                                                              (XO (XO (XO (XO
                                                              (XO (XO
                                                              XH))))))))
                                                              (Z.modulo
                                                                (Z.div r
                                                                  (Zpos (XO
                                                                  (XO (XO (XO
                                                                  (XO (XO
                                                                  XH))))))))
                                                                (Zpos (XO (XO
                                                                (XO (XO (XO
                                                                (XO XH))))))))) :: (
                        (Z.add (Zpos (XO (XO (XO (XO (XO (XO (XO XH))))))))
                          (Z.modulo r (Zpos (XO (XO (XO (XO (XO (XO XH))))))))) :: []))
                 else (Z.add (Zpos (XO (XO (XO (XO (XI (XI (XI XH))))))))
                        (Z.div r (Zpos (XO (XO (XO (XO (XO (XO (XO (XO (XO
                          (XO (XO (XO (XO (XO (XO (XO (XO (XO
                          XH))))))))))))))))))))) :: ((Z.add (Zpos (XO (XO
                                                        (XO (XO (XO (XO (XO
                                                        XH))))))))
                                                        (Z.modulo
                                                          (Z.div r (Zpos (XO
                                                            (XO (XO (XO (XO
                                                            (XO (XO (XO (XO
                                                            (XO (XO (XO
                                                            XH))))))))))))))
                                                          (Zpos (XO (XO (XO
                                                          (XO (XO (XO
                                                          XH))))))))) :: (
                        (Z.add (Zpos (XO (XO (XO (XO (XO (XO (XO XH))))))))
                          (Z.modulo
                            (Z.div r (Zpos (XO (XO (XO (XO (XO (XO XH))))))))
                            (Zpos (XO (XO (XO (XO (XO (XO XH))))))))) :: (
                        (Z.add (Zpos (XO (XO (XO (XO (XO (XO (XO XH))))))))
                          (Z.modulo r (Zpos (XO (XO (XO (XO (XO (XO XH))))))))) :: [])))

(** val encode_runes : z list -> z list **)

let encode_runes l =
  flat_map encode_rune l

(** val decode_events : nat -> z list -> (z * nat) list **)

let rec decode_events skip s = match s with
| [] -> []
| _ :: r ->
  (match skip with
   | O ->
     let ev = decode_rune s in ev :: (decode_events (Nat.pred (snd ev)) r)
   | S k -> decode_events k r)

(** val runes_of_bytes : z list -> z list **)

let runes_of_bytes s =
  map fst (decode_events O s)

(** val runes_of : char list -> z list **)

let runes_of s =
  runes_of_bytes (bytes_of s)

(** val lex_event : (z * nat) -> z **)

let lex_event ev =
  if (&&) (Z.eqb (fst ev) rune_error) (Nat.eqb (snd ev) (S O))
  then Zneg (XO XH)
  else fst ev

(** val lex_runes_of_bytes : z list -> z list **)

let lex_runes_of_bytes s =
  map lex_event (decode_events O s)

(** val lex_runes_of : char list -> z list **)

let lex_runes_of s =
  lex_runes_of_bytes (bytes_of s)

(** val string_of_runes : z list -> char list **)

let string_of_runes l =
  str_of_bytes (encode_runes l)

type f64 = spec_float

type goLib = { xid_start : (z -> bool); xid_continue : (z -> bool);
               is_print : (z -> bool); to_lower : (z -> z);
               parse_int0 : (char list -> z option);
               parse_float : (char list -> (f64 * bool) option);
               format_int : (z -> char list);
               format_float_json : (f64 -> char list);
               f64_neg : (f64 -> f64); regex_ok : (char list -> z -> bool) }

(** val f64_finite : f64 -> bool **)

let f64_finite = function
| S754_zero _ -> true
| S754_finite (_, _, _) -> true
| _ -> false

(** val f64_sign : f64 -> bool **)

let f64_sign = function
| S754_zero s -> s
| S754_infinity s -> s
| S754_nan -> false
| S754_finite (s, _, _) -> s

(** val f64_integral : f64 -> bool **)

let f64_integral = function
| S754_zero _ -> true
| S754_finite (_, m, e) ->
  if Z.leb Z0 e
  then true
  else Z.eqb (Z.modulo (Zpos m) (Z.pow (Zpos (XO XH)) (Z.opp e))) Z0
| _ -> false

type f0 = spec_float

(** val f64_mk : bool -> z -> z -> f0 **)

let f64_mk s m e =
  match m with
  | Z0 -> S754_zero s
  | Zpos p ->
    binary_round (Zpos (XI (XO (XI (XO (XI XH)))))) (Zpos (XO (XO (XO (XO (XO
      (XO (XO (XO (XO (XO XH))))))))))) s p e
  | Zneg p ->
    binary_round (Zpos (XI (XO (XI (XO (XI XH)))))) (Zpos (XO (XO (XO (XO (XO
      (XO (XO (XO (XO (XO XH))))))))))) (negb s) p e

(** val f64_neg0 : f0 -> f0 **)

let f64_neg0 =
  sFopp

(** val f64_abs : f0 -> f0 **)

let f64_abs =
  sFabs

(** val f64_ltb : f0 -> f0 -> bool **)

let f64_ltb =
  sFltb

(** val f64_leb : f0 -> f0 -> bool **)

let f64_leb =
  sFleb

(** val f64_is_inf : f0 -> bool **)

let f64_is_inf = function
| S754_infinity _ -> true
| _ -> false

(** val f64_is_zero : f0 -> bool **)

let f64_is_zero = function
| S754_zero _ -> true
| _ -> false

(** val f64_signbit : f0 -> bool **)

let f64_signbit = function
| S754_zero s -> s
| S754_infinity s -> s
| S754_nan -> false
| S754_finite (s, _, _) -> s

(** val f64_nan_bits : z **)

let f64_nan_bits =
  Zpos (XI (XO (XO (XO (XO (XO (XO (XO (XO (XO (XO (XO (XO (XO (XO (XO (XO
    (XO (XO (XO (XO (XO (XO (XO (XO (XO (XO (XO (XO (XO (XO (XO (XO (XO (XO
    (XO (XO (XO (XO (XO (XO (XO (XO (XO (XO (XO (XO (XO (XO (XO (XO (XI (XI
    (XI (XI (XI (XI (XI (XI (XI (XI (XI
    XH))))))))))))))))))))))))))))))))))))))))))))))))))))))))))))))

(** val f64_to_bits : f0 -> z **)

let f64_to_bits = function
| S754_zero s ->
  if s
  then Zpos (XO (XO (XO (XO (XO (XO (XO (XO (XO (XO (XO (XO (XO (XO (XO (XO
         (XO (XO (XO (XO (XO (XO (XO (XO (XO (XO (XO (XO (XO (XO (XO (XO (XO
         (XO (XO (XO (XO (XO (XO (XO (XO (XO (XO (XO (XO (XO (XO (XO (XO (XO
         (XO (XO (XO (XO (XO (XO (XO (XO (XO (XO (XO (XO (XO
         XH)))))))))))))))))))))))))))))))))))))))))))))))))))))))))))))))
  else Z0
| S754_infinity s ->
  Z.add
    (if s
     then Zpos (XO (XO (XO (XO (XO (XO (XO (XO (XO (XO (XO (XO (XO (XO (XO
            (XO (XO (XO (XO (XO (XO (XO (XO (XO (XO (XO (XO (XO (XO (XO (XO
            (XO (XO (XO (XO (XO (XO (XO (XO (XO (XO (XO (XO (XO (XO (XO (XO
            (XO (XO (XO (XO (XO (XO (XO (XO (XO (XO (XO (XO (XO (XO (XO (XO
            XH)))))))))))))))))))))))))))))))))))))))))))))))))))))))))))))))
     else Z0) (Zpos (XO (XO (XO (XO (XO (XO (XO (XO (XO (XO (XO (XO (XO (XO
    (XO (XO (XO (XO (XO (XO (XO (XO (XO (XO (XO (XO (XO (XO (XO (XO (XO (XO
    (XO (XO (XO (XO (XO (XO (XO (XO (XO (XO (XO (XO (XO (XO (XO (XO (XO (XO
    (XO (XO (XI (XI (XI (XI (XI (XI (XI (XI (XI (XI
    XH)))))))))))))))))))))))))))))))))))))))))))))))))))))))))))))))
| S754_nan -> f64_nan_bits
| S754_finite (s, m, e) ->
  Z.add
    (if s
     then Zpos (XO (XO (XO (XO (XO (XO (XO (XO (XO (XO (XO (XO (XO (XO (XO
            (XO (XO (XO (XO (XO (XO (XO (XO (XO (XO (XO (XO (XO (XO (XO (XO
            (XO (XO (XO (XO (XO (XO (XO (XO (XO (XO (XO (XO (XO (XO (XO (XO
            (XO (XO (XO (XO (XO (XO (XO (XO (XO (XO (XO (XO (XO (XO (XO (XO
            XH)))))))))))))))))))))))))))))))))))))))))))))))))))))))))))))))
     else Z0)
    (if Z.leb (Zpos (XO (XO (XO (XO (XO (XO (XO (XO (XO (XO (XO (XO (XO (XO
          (XO (XO (XO (XO (XO (XO (XO (XO (XO (XO (XO (XO (XO (XO (XO (XO (XO
          (XO (XO (XO (XO (XO (XO (XO (XO (XO (XO (XO (XO (XO (XO (XO (XO (XO
          (XO (XO (XO (XO
          XH))))))))))))))))))))))))))))))))))))))))))))))))))))) (Zpos m)
     then Z.add
            (Z.mul
              (Z.add e (Zpos (XI (XI (XO (XO (XI (XI (XO (XO (XO (XO
                XH)))))))))))) (Zpos (XO (XO (XO (XO (XO (XO (XO (XO (XO (XO
              (XO (XO (XO (XO (XO (XO (XO (XO (XO (XO (XO (XO (XO (XO (XO (XO
              (XO (XO (XO (XO (XO (XO (XO (XO (XO (XO (XO (XO (XO (XO (XO (XO
              (XO (XO (XO (XO (XO (XO (XO (XO (XO (XO
              XH))))))))))))))))))))))))))))))))))))))))))))))))))))))
            (Z.sub (Zpos m) (Zpos (XO (XO (XO (XO (XO (XO (XO (XO (XO (XO (XO
              (XO (XO (XO (XO (XO (XO (XO (XO (XO (XO (XO (XO (XO (XO (XO (XO
              (XO (XO (XO (XO (XO (XO (XO (XO (XO (XO (XO (XO (XO (XO (XO (XO
              (XO (XO (XO (XO (XO (XO (XO (XO (XO
              XH))))))))))))))))))))))))))))))))))))))))))))))))))))))
     else Zpos m)

(** val fde_loop : nat -> z -> z -> z -> z -> z -> z * z **)

let rec fde_loop fuel i a b q r =
  match fuel with
  | O -> (q, r)
  | S f ->
    let r1 =
      Z.add (Z.mul (Zpos (XO XH)) r) (if Z.testbit a i then Zpos XH else Z0)
    in
    if Z.leb b r1
    then fde_loop f (Z.sub i (Zpos XH)) a b
           (Z.add (Z.mul (Zpos (XO XH)) q) (Zpos XH)) (Z.sub r1 b)
    else fde_loop f (Z.sub i (Zpos XH)) a b (Z.mul (Zpos (XO XH)) q) r1

(** val zfast_div_eucl : z -> z -> z * z **)

let zfast_div_eucl a b =
  if (||) (Z.leb a Z0) (Z.leb b Z0)
  then Z.div_eucl a b
  else let s = Z.add (Z.sub (Z.log2 a) (Z.log2 b)) (Zpos XH) in
       if Z.leb s Z0
       then (Z0, a)
       else if Z.ltb (Zpos (XO (XO (XO (XO (XO (XI (XO XH)))))))) s
            then Z.div_eucl a b
            else fde_loop (Z.to_nat s) (Z.sub s (Zpos XH)) a b Z0
                   (Z.shiftr a s)

(** val loc_of_rem : z -> z -> location **)

let loc_of_rem r d =
  if Z.eqb r Z0
  then Loc_Exact
  else Loc_Inexact (Z.compare (Z.mul (Zpos (XO XH)) r) d)

(** val f64_of_ratio : bool -> z -> z -> f0 **)

let f64_of_ratio s n0 d =
  if Z.leb n0 Z0
  then S754_zero s
  else let k =
         Z.max Z0
           (Z.sub (Z.add (Zpos (XO (XI (XO (XO (XO (XO XH))))))) (Z.log2 d))
             (Z.log2 n0))
       in
       let (q, r) = zfast_div_eucl (Z.mul n0 (Z.pow (Zpos (XO XH)) k)) d in
       binary_round_aux (Zpos (XI (XO (XI (XO (XI XH)))))) (Zpos (XO (XO (XO
         (XO (XO (XO (XO (XO (XO (XO XH))))))))))) s q (Z.opp k)
         (loc_of_rem r d)

(** val dd_loop : nat -> z -> z -> z **)

let rec dd_loop fuel m k =
  match fuel with
  | O -> k
  | S f ->
    if Z.leb (Z.pow (Zpos (XO (XI (XO XH)))) k) m
    then dd_loop f m (Z.add k (Zpos XH))
    else k

(** val dec_digits : z -> z **)

let dec_digits m =
  dd_loop (S (S (S (S (S (S (S (S O)))))))) m
    (Z.max Z0
      (Z.sub
        (Z.div
          (Z.mul (Z.log2 m) (Zpos (XI (XI (XI (XO (XI (XO (XO (XI (XI (XO (XI
            (XO (XI (XI XH)))))))))))))))) (Zpos (XO (XO (XO (XO (XO (XI (XO
          (XI (XO (XI (XI (XO (XO (XO (XO (XI XH)))))))))))))))))) (Zpos XH)))

(** val f64_of_dec : bool -> z -> z -> f0 **)

let f64_of_dec s m e10 =
  if Z.leb m Z0
  then S754_zero s
  else let dp = Z.add (dec_digits m) e10 in
       if Z.ltb (Zpos (XO (XI (XI (XO (XI (XI (XO (XO XH))))))))) dp
       then S754_infinity s
       else if Z.ltb dp (Zneg (XO (XI (XO (XI (XO (XO (XI (XO XH)))))))))
            then S754_zero s
            else if Z.leb Z0 e10
                 then f64_of_ratio s
                        (Z.mul m (Z.pow (Zpos (XO (XI (XO XH)))) e10)) (Zpos
                        XH)
                 else f64_of_ratio s m
                        (Z.pow (Zpos (XO (XI (XO XH)))) (Z.opp e10))

(** val cz : char -> z **)

let cz =
  z_of_ascii

(** val is_digit : char -> bool **)

let is_digit c =
  (&&) (Z.leb (Zpos (XO (XO (XO (XO (XI XH)))))) (cz c))
    (Z.leb (cz c) (Zpos (XI (XO (XO (XI (XI XH)))))))

(** val lowerz : char -> z **)

let lowerz c =
  Z.coq_lor (cz c) (Zpos (XO (XO (XO (XO (XO XH))))))

(** val is_hex_letter : char -> bool **)

let is_hex_letter c =
  (&&) (Z.leb (Zpos (XI (XO (XO (XO (XO (XI XH))))))) (lowerz c))
    (Z.leb (lowerz c) (Zpos (XO (XI (XI (XO (XO (XI XH))))))))

(** val is_sign : char -> bool **)

let is_sign c =
  (||) (Z.eqb (cz c) (Zpos (XI (XI (XO (XI (XO XH)))))))
    (Z.eqb (cz c) (Zpos (XI (XO (XI (XI (XO XH)))))))

(** val digit_char : z -> char **)

let digit_char d =
  ascii_of_Z (Z.add (Zpos (XO (XO (XO (XO (XI XH)))))) d)

type us_saw =
| SawStart
| SawDigit
| SawUnder
| SawOther

(** val us_loop : bool -> us_saw -> char list -> bool **)

let rec us_loop hex saw = function
| [] -> (match saw with
         | SawUnder -> false
         | _ -> true)
| c::r ->
  if (||) (is_digit c) ((&&) hex (is_hex_letter c))
  then us_loop hex SawDigit r
  else if Z.eqb (cz c) (Zpos (XI (XI (XI (XI (XI (XO XH)))))))
       then (match saw with
             | SawDigit -> us_loop hex SawUnder r
             | _ -> false)
       else (match saw with
             | SawUnder -> false
             | _ -> us_loop hex SawOther r)

(** val underscore_ok : char list -> bool **)

let underscore_ok s0 =
  let s = match s0 with
          | [] -> s0
          | c::r -> if is_sign c then r else s0 in
  (match s with
   | [] -> us_loop false SawStart s
   | c0::s1 ->
     (match s1 with
      | [] -> us_loop false SawStart s
      | c1::r ->
        if (&&) (Z.eqb (cz c0) (Zpos (XO (XO (XO (XO (XI XH)))))))
             ((||)
               ((||)
                 (Z.eqb (lowerz c1) (Zpos (XO (XI (XO (XO (XO (XI XH))))))))
                 (Z.eqb (lowerz c1) (Zpos (XI (XI (XI (XI (XO (XI XH)))))))))
               (Z.eqb (lowerz c1) (Zpos (XO (XO (XO (XI (XI (XI XH)))))))))
        then us_loop
               (Z.eqb (lowerz c1) (Zpos (XO (XO (XO (XI (XI (XI XH))))))))
               SawDigit r
        else us_loop false SawStart s))

(** val pu_loop : z -> bool -> char list -> z -> bool -> (z * bool) option **)

let rec pu_loop base base0 s n0 us =
  match s with
  | [] -> Some (n0, us)
  | c::r ->
    if (&&) (Z.eqb (cz c) (Zpos (XI (XI (XI (XI (XI (XO XH)))))))) base0
    then pu_loop base base0 r n0 true
    else let d =
           if is_digit c
           then Z.sub (cz c) (Zpos (XO (XO (XO (XO (XI XH))))))
           else if (&&)
                     (Z.leb (Zpos (XI (XO (XO (XO (XO (XI XH)))))))
                       (lowerz c))
                     (Z.leb (lowerz c) (Zpos (XO (XI (XO (XI (XI (XI
                       XH))))))))
                then Z.add
                       (Z.sub (lowerz c) (Zpos (XI (XO (XO (XO (XO (XI
                         XH)))))))) (Zpos (XO (XI (XO XH))))
                else Zpos (XI (XI (XI (XI (XI (XI (XI XH)))))))
         in
         if Z.ltb d base
         then pu_loop base base0 r (Z.add (Z.mul n0 base) d) us
         else None

(** val parse_uint_raw : z -> char list -> z option **)

let parse_uint_raw base s = match s with
| [] -> None
| c0::r0 ->
  let base0 = Z.eqb base Z0 in
  if base0
  then if Z.eqb (cz c0) (Zpos (XO (XO (XO (XO (XI XH))))))
       then (match r0 with
             | [] ->
               let b = Zpos (XO (XO (XO XH))) in
               if (&&) (Z.leb (Zpos (XO XH)) b)
                    (Z.leb b (Zpos (XO (XO (XI (XO (XO XH)))))))
               then (match pu_loop b base0 r0 Z0 false with
                     | Some p ->
                       let (n0, us) = p in
                       if (&&) us (negb (underscore_ok s))
                       then None
                       else Some n0
                     | None -> None)
               else None
             | c1::s0 ->
               (match s0 with
                | [] ->
                  let b = Zpos (XO (XO (XO XH))) in
                  if (&&) (Z.leb (Zpos (XO XH)) b)
                       (Z.leb b (Zpos (XO (XO (XI (XO (XO XH)))))))
                  then (match pu_loop b base0 r0 Z0 false with
                        | Some p ->
                          let (n0, us) = p in
                          if (&&) us (negb (underscore_ok s))
                          then None
                          else Some n0
                        | None -> None)
                  else None
                | c2::r2 ->
                  if Z.eqb (lowerz c1) (Zpos (XO (XI (XO (XO (XO (XI XH)))))))
                  then let b = Zpos (XO XH) in
                       let body = c2::r2 in
                       if (&&) (Z.leb (Zpos (XO XH)) b)
                            (Z.leb b (Zpos (XO (XO (XI (XO (XO XH)))))))
                       then (match pu_loop b base0 body Z0 false with
                             | Some p ->
                               let (n0, us) = p in
                               if (&&) us (negb (underscore_ok s))
                               then None
                               else Some n0
                             | None -> None)
                       else None
                  else if Z.eqb (lowerz c1) (Zpos (XI (XI (XI (XI (XO (XI
                            XH)))))))
                       then let b = Zpos (XO (XO (XO XH))) in
                            let body = c2::r2 in
                            if (&&) (Z.leb (Zpos (XO XH)) b)
                                 (Z.leb b (Zpos (XO (XO (XI (XO (XO XH)))))))
                            then (match pu_loop b base0 body Z0 false with
                                  | Some p ->
                                    let (n0, us) = p in
                                    if (&&) us (negb (underscore_ok s))
                                    then None
                                    else Some n0
                                  | None -> None)
                            else None
                       else if Z.eqb (lowerz c1) (Zpos (XO (XO (XO (XI (XI
                                 (XI XH)))))))
                            then let b = Zpos (XO (XO (XO (XO XH)))) in
                                 let body = c2::r2 in
                                 if (&&) (Z.leb (Zpos (XO XH)) b)
                                      (Z.leb b (Zpos (XO (XO (XI (XO (XO
                                        XH)))))))
                                 then (match pu_loop b base0 body Z0 false with
                                       | Some p ->
                                         let (n0, us) = p in
                                         if (&&) us (negb (underscore_ok s))
                                         then None
                                         else Some n0
                                       | None -> None)
                                 else None
                            else let b = Zpos (XO (XO (XO XH))) in
                                 if (&&) (Z.leb (Zpos (XO XH)) b)
                                      (Z.leb b (Zpos (XO (XO (XI (XO (XO
                                        XH)))))))
                                 then (match pu_loop b base0 r0 Z0 false with
                                       | Some p ->
                                         let (n0, us) = p in
                                         if (&&) us (negb (underscore_ok s))
                                         then None
                                         else Some n0
                                       | None -> None)
                                 else None))
       else let b = Zpos (XO (XI (XO XH))) in
            if (&&) (Z.leb (Zpos (XO XH)) b)
                 (Z.leb b (Zpos (XO (XO (XI (XO (XO XH)))))))
            then (match pu_loop b base0 s Z0 false with
                  | Some p ->
                    let (n0, us) = p in
                    if (&&) us (negb (underscore_ok s)) then None else Some n0
                  | None -> None)
            else None
  else if (&&) (Z.leb (Zpos (XO XH)) base)
            (Z.leb base (Zpos (XO (XO (XI (XO (XO XH)))))))
       then (match pu_loop base base0 s Z0 false with
             | Some p ->
               let (n0, us) = p in
               if (&&) us (negb (underscore_ok s)) then None else Some n0
             | None -> None)
       else None

(** val parse_int : z -> z -> char list -> z option **)

let parse_int base bitSize s = match s with
| [] -> None
| c::r ->
  let neg = Z.eqb (cz c) (Zpos (XI (XO (XI (XI (XO XH)))))) in
  let body = if is_sign c then r else s in
  (match parse_uint_raw base body with
   | Some un ->
     let cutoff = Z.pow (Zpos (XO XH)) (Z.sub bitSize (Zpos XH)) in
     if neg
     then if Z.leb un cutoff then Some (Z.opp un) else None
     else if Z.ltb un cutoff then Some un else None
   | None -> None)

(** val digits_rev : nat -> z -> z list **)

let rec digits_rev fuel z0 =
  match fuel with
  | O -> []
  | S f ->
    if Z.ltb z0 (Zpos (XO (XI (XO XH))))
    then z0 :: []
    else (Z.modulo z0 (Zpos (XO (XI (XO XH))))) :: (digits_rev f
                                                     (Z.div z0 (Zpos (XO (XI
                                                       (XO XH))))))

(** val dec_digits_list : z -> z list **)

let dec_digits_list z0 =
  rev (digits_rev (S (Z.to_nat (Z.log2 z0))) z0)

(** val str_of_digits : z list -> char list **)

let str_of_digits l =
  str_of_list (map digit_char l)

(** val format_nat : z -> char list **)

let format_nat z0 =
  str_of_digits (dec_digits_list z0)

(** val format_int0 : z -> char list **)

let format_int0 z0 =
  if Z.ltb z0 Z0 then '-'::(format_nat (Z.opp z0)) else format_nat z0

type rf_state = { rf_sawdot : bool; rf_sawdigits : bool; rf_us : bool;
                  rf_nd : z; rf_dp : z; rf_mant : z }

(** val rf_mant_loop :
    bool -> char list -> rf_state -> rf_state * char list **)

let rec rf_mant_loop hex s st =
  match s with
  | [] -> (st, s)
  | c::r ->
    let { rf_sawdot = sawdot; rf_sawdigits = sawdigits; rf_us = us; rf_nd =
      nd; rf_dp = dp; rf_mant = mant } = st
    in
    if Z.eqb (cz c) (Zpos (XI (XI (XI (XI (XI (XO XH)))))))
    then rf_mant_loop hex r { rf_sawdot = sawdot; rf_sawdigits = sawdigits;
           rf_us = true; rf_nd = nd; rf_dp = dp; rf_mant = mant }
    else if Z.eqb (cz c) (Zpos (XO (XI (XI (XI (XO XH))))))
         then if sawdot
              then (st, s)
              else rf_mant_loop hex r { rf_sawdot = true; rf_sawdigits =
                     sawdigits; rf_us = us; rf_nd = nd; rf_dp = nd; rf_mant =
                     mant }
         else if is_digit c
              then if (&&) (Z.eqb (cz c) (Zpos (XO (XO (XO (XO (XI XH)))))))
                        (Z.eqb nd Z0)
                   then rf_mant_loop hex r { rf_sawdot = sawdot;
                          rf_sawdigits = true; rf_us = us; rf_nd = nd;
                          rf_dp = (Z.sub dp (Zpos XH)); rf_mant = mant }
                   else rf_mant_loop hex r { rf_sawdot = sawdot;
                          rf_sawdigits = true; rf_us = us; rf_nd =
                          (Z.add nd (Zpos XH)); rf_dp = dp; rf_mant =
                          (Z.add
                            (Z.mul mant
                              (if hex
                               then Zpos (XO (XO (XO (XO XH))))
                               else Zpos (XO (XI (XO XH)))))
                            (Z.sub (cz c) (Zpos (XO (XO (XO (XO (XI XH)))))))) }
              else if (&&) hex (is_hex_letter c)
                   then rf_mant_loop hex r { rf_sawdot = sawdot;
                          rf_sawdigits = true; rf_us = us; rf_nd =
                          (Z.add nd (Zpos XH)); rf_dp = dp; rf_mant =
                          (Z.add (Z.mul mant (Zpos (XO (XO (XO (XO XH))))))
                            (Z.add
                              (Z.sub (lowerz c) (Zpos (XI (XO (XO (XO (XO (XI
                                XH)))))))) (Zpos (XO (XI (XO XH)))))) }
                   else (st, s)

(** val rf_exp_loop : char list -> z -> bool -> (z * bool) * char list **)

let rec rf_exp_loop s e us =
  match s with
  | [] -> ((e, us), s)
  | c::r ->
    if is_digit c
    then rf_exp_loop r
           (if Z.ltb e (Zpos (XO (XO (XO (XO (XI (XO (XO (XO (XI (XI (XI (XO
                 (XO XH))))))))))))))
            then Z.add (Z.mul e (Zpos (XO (XI (XO XH)))))
                   (Z.sub (cz c) (Zpos (XO (XO (XO (XO (XI XH)))))))
            else e) us
    else if Z.eqb (cz c) (Zpos (XI (XI (XI (XI (XI (XO XH)))))))
         then rf_exp_loop r e true
         else ((e, us), s)

(** val rf_exponent :
    z -> char list -> (((bool * z) * bool) * char list) option **)

let rf_exponent expchar s = match s with
| [] -> Some (((false, Z0), false), s)
| c::r ->
  if Z.eqb (lowerz c) expchar
  then (match r with
        | [] -> None
        | c1::r1 ->
          if Z.eqb (cz c1) (Zpos (XI (XI (XO (XI (XO XH))))))
          then let esign = Zpos XH in
               (match r1 with
                | [] -> None
                | c2::_ ->
                  if is_digit c2
                  then let (p, rest) = rf_exp_loop r1 Z0 false in
                       let (e, us) = p in
                       Some (((true, (Z.mul e esign)), us), rest)
                  else None)
          else if Z.eqb (cz c1) (Zpos (XI (XO (XI (XI (XO XH))))))
               then let esign = Zneg XH in
                    (match r1 with
                     | [] -> None
                     | c2::_ ->
                       if is_digit c2
                       then let (p, rest) = rf_exp_loop r1 Z0 false in
                            let (e, us) = p in
                            Some (((true, (Z.mul e esign)), us), rest)
                       else None)
               else let esign = Zpos XH in
                    (match r with
                     | [] -> None
                     | c2::_ ->
                       if is_digit c2
                       then let (p, rest) = rf_exp_loop r Z0 false in
                            let (e, us) = p in
                            Some (((true, (Z.mul e esign)), us), rest)
                       else None))
  else Some (((false, Z0), false), s)

(** val parse_float_num : char list -> (f0 * bool) option **)

let parse_float_num s = match s with
| [] ->
  let neg = false in
  (match s with
   | [] ->
     let hex = false in
     let (st, s3) =
       rf_mant_loop hex s { rf_sawdot = false; rf_sawdigits = false; rf_us =
         false; rf_nd = Z0; rf_dp = Z0; rf_mant = Z0 }
     in
     let { rf_sawdot = sawdot; rf_sawdigits = sawdigits; rf_us = us; rf_nd =
       nd; rf_dp = dp0; rf_mant = mant } = st
     in
     if negb sawdigits
     then None
     else let dp = if sawdot then dp0 else nd in
          (match rf_exponent
                   (if hex
                    then Zpos (XO (XO (XO (XO (XI (XI XH))))))
                    else Zpos (XI (XO (XI (XO (XO (XI XH))))))) s3 with
           | Some p ->
             let (p0, rest) = p in
             let (p1, us2) = p0 in
             let (present, e) = p1 in
             if (&&) hex (negb present)
             then None
             else (match rest with
                   | [] ->
                     if (&&) ((||) us us2) (negb (underscore_ok s))
                     then None
                     else let v =
                            if Z.eqb mant Z0
                            then S754_zero neg
                            else if hex
                                 then f64_mk neg mant
                                        (Z.sub
                                          (Z.add
                                            (Z.mul (Zpos (XO (XO XH))) dp) e)
                                          (Z.mul (Zpos (XO (XO XH))) nd))
                                 else f64_of_dec neg mant
                                        (Z.sub (Z.add dp e) nd)
                          in
                          Some (v, (f64_is_inf v))
                   | _::_ -> None)
           | None -> None)
   | c0::s0 ->
     (match s0 with
      | [] ->
        let hex = false in
        let (st, s3) =
          rf_mant_loop hex s { rf_sawdot = false; rf_sawdigits = false;
            rf_us = false; rf_nd = Z0; rf_dp = Z0; rf_mant = Z0 }
        in
        let { rf_sawdot = sawdot; rf_sawdigits = sawdigits; rf_us = us;
          rf_nd = nd; rf_dp = dp0; rf_mant = mant } = st
        in
        if negb sawdigits
        then None
        else let dp = if sawdot then dp0 else nd in
             (match rf_exponent
                      (if hex
                       then Zpos (XO (XO (XO (XO (XI (XI XH))))))
                       else Zpos (XI (XO (XI (XO (XO (XI XH))))))) s3 with
              | Some p ->
                let (p0, rest) = p in
                let (p1, us2) = p0 in
                let (present, e) = p1 in
                if (&&) hex (negb present)
                then None
                else (match rest with
                      | [] ->
                        if (&&) ((||) us us2) (negb (underscore_ok s))
                        then None
                        else let v =
                               if Z.eqb mant Z0
                               then S754_zero neg
                               else if hex
                                    then f64_mk neg mant
                                           (Z.sub
                                             (Z.add
                                               (Z.mul (Zpos (XO (XO XH))) dp)
                                               e)
                                             (Z.mul (Zpos (XO (XO XH))) nd))
                                    else f64_of_dec neg mant
                                           (Z.sub (Z.add dp e) nd)
                             in
                             Some (v, (f64_is_inf v))
                      | _::_ -> None)
              | None -> None)
      | c1::s2 ->
        (match s2 with
         | [] ->
           let hex = false in
           let (st, s3) =
             rf_mant_loop hex s { rf_sawdot = false; rf_sawdigits = false;
               rf_us = false; rf_nd = Z0; rf_dp = Z0; rf_mant = Z0 }
           in
           let { rf_sawdot = sawdot; rf_sawdigits = sawdigits; rf_us = us;
             rf_nd = nd; rf_dp = dp0; rf_mant = mant } = st
           in
           if negb sawdigits
           then None
           else let dp = if sawdot then dp0 else nd in
                (match rf_exponent
                         (if hex
                          then Zpos (XO (XO (XO (XO (XI (XI XH))))))
                          else Zpos (XI (XO (XI (XO (XO (XI XH))))))) s3 with
                 | Some p ->
                   let (p0, rest) = p in
                   let (p1, us2) = p0 in
                   let (present, e) = p1 in
                   if (&&) hex (negb present)
                   then None
                   else (match rest with
                         | [] ->
                           if (&&) ((||) us us2) (negb (underscore_ok s))
                           then None
                           else let v =
                                  if Z.eqb mant Z0
                                  then S754_zero neg
                                  else if hex
                                       then f64_mk neg mant
                                              (Z.sub
                                                (Z.add
                                                  (Z.mul (Zpos (XO (XO XH)))
                                                    dp) e)
                                                (Z.mul (Zpos (XO (XO XH))) nd))
                                       else f64_of_dec neg mant
                                              (Z.sub (Z.add dp e) nd)
                                in
                                Some (v, (f64_is_inf v))
                         | _::_ -> None)
                 | None -> None)
         | c2::r ->
           if (&&) (Z.eqb (cz c0) (Zpos (XO (XO (XO (XO (XI XH)))))))
                (Z.eqb (lowerz c1) (Zpos (XO (XO (XO (XI (XI (XI XH))))))))
           then let hex = true in
                let s3 = c2::r in
                let (st, s4) =
                  rf_mant_loop hex s3 { rf_sawdot = false; rf_sawdigits =
                    false; rf_us = false; rf_nd = Z0; rf_dp = Z0; rf_mant =
                    Z0 }
                in
                let { rf_sawdot = sawdot; rf_sawdigits = sawdigits; rf_us =
                  us; rf_nd = nd; rf_dp = dp0; rf_mant = mant } = st
                in
                if negb sawdigits
                then None
                else let dp = if sawdot then dp0 else nd in
                     (match rf_exponent
                              (if hex
                               then Zpos (XO (XO (XO (XO (XI (XI XH))))))
                               else Zpos (XI (XO (XI (XO (XO (XI XH))))))) s4 with
                      | Some p ->
                        let (p0, rest) = p in
                        let (p1, us2) = p0 in
                        let (present, e) = p1 in
                        if (&&) hex (negb present)
                        then None
                        else (match rest with
                              | [] ->
                                if (&&) ((||) us us2) (negb (underscore_ok s))
                                then None
                                else let v =
                                       if Z.eqb mant Z0
                                       then S754_zero neg
                                       else if hex
                                            then f64_mk neg mant
                                                   (Z.sub
                                                     (Z.add
                                                       (Z.mul (Zpos (XO (XO
                                                         XH))) dp) e)
                                                     (Z.mul (Zpos (XO (XO
                                                       XH))) nd))
                                            else f64_of_dec neg mant
                                                   (Z.sub (Z.add dp e) nd)
                                     in
                                     Some (v, (f64_is_inf v))
                              | _::_ -> None)
                      | None -> None)
           else let hex = false in
                let (st, s3) =
                  rf_mant_loop hex s { rf_sawdot = false; rf_sawdigits =
                    false; rf_us = false; rf_nd = Z0; rf_dp = Z0; rf_mant =
                    Z0 }
                in
                let { rf_sawdot = sawdot; rf_sawdigits = sawdigits; rf_us =
                  us; rf_nd = nd; rf_dp = dp0; rf_mant = mant } = st
                in
                if negb sawdigits
                then None
                else let dp = if sawdot then dp0 else nd in
                     (match rf_exponent
                              (if hex
                               then Zpos (XO (XO (XO (XO (XI (XI XH))))))
                               else Zpos (XI (XO (XI (XO (XO (XI XH))))))) s3 with
                      | Some p ->
                        let (p0, rest) = p in
                        let (p1, us2) = p0 in
                        let (present, e) = p1 in
                        if (&&) hex (negb present)
                        then None
                        else (match rest with
                              | [] ->
                                if (&&) ((||) us us2) (negb (underscore_ok s))
                                then None
                                else let v =
                                       if Z.eqb mant Z0
                                       then S754_zero neg
                                       else if hex
                                            then f64_mk neg mant
                                                   (Z.sub
                                                     (Z.add
                                                       (Z.mul (Zpos (XO (XO
                                                         XH))) dp) e)
                                                     (Z.mul (Zpos (XO (XO
                                                       XH))) nd))
                                            else f64_of_dec neg mant
                                                   (Z.sub (Z.add dp e) nd)
                                     in
                                     Some (v, (f64_is_inf v))
                              | _::_ -> None)
                      | None -> None))))
| c::r ->
  if Z.eqb (cz c) (Zpos (XI (XI (XO (XI (XO XH))))))
  then let neg = false in
       (match r with
        | [] ->
          let hex = false in
          let (st, s3) =
            rf_mant_loop hex r { rf_sawdot = false; rf_sawdigits = false;
              rf_us = false; rf_nd = Z0; rf_dp = Z0; rf_mant = Z0 }
          in
          let { rf_sawdot = sawdot; rf_sawdigits = sawdigits; rf_us = us;
            rf_nd = nd; rf_dp = dp0; rf_mant = mant } = st
          in
          if negb sawdigits
          then None
          else let dp = if sawdot then dp0 else nd in
               (match rf_exponent
                        (if hex
                         then Zpos (XO (XO (XO (XO (XI (XI XH))))))
                         else Zpos (XI (XO (XI (XO (XO (XI XH))))))) s3 with
                | Some p ->
                  let (p0, rest) = p in
                  let (p1, us2) = p0 in
                  let (present, e) = p1 in
                  if (&&) hex (negb present)
                  then None
                  else (match rest with
                        | [] ->
                          if (&&) ((||) us us2) (negb (underscore_ok s))
                          then None
                          else let v =
                                 if Z.eqb mant Z0
                                 then S754_zero neg
                                 else if hex
                                      then f64_mk neg mant
                                             (Z.sub
                                               (Z.add
                                                 (Z.mul (Zpos (XO (XO XH)))
                                                   dp) e)
                                               (Z.mul (Zpos (XO (XO XH))) nd))
                                      else f64_of_dec neg mant
                                             (Z.sub (Z.add dp e) nd)
                               in
                               Some (v, (f64_is_inf v))
                        | _::_ -> None)
                | None -> None)
        | c0::s0 ->
          (match s0 with
           | [] ->
             let hex = false in
             let (st, s3) =
               rf_mant_loop hex r { rf_sawdot = false; rf_sawdigits = false;
                 rf_us = false; rf_nd = Z0; rf_dp = Z0; rf_mant = Z0 }
             in
             let { rf_sawdot = sawdot; rf_sawdigits = sawdigits; rf_us = us;
               rf_nd = nd; rf_dp = dp0; rf_mant = mant } = st
             in
             if negb sawdigits
             then None
             else let dp = if sawdot then dp0 else nd in
                  (match rf_exponent
                           (if hex
                            then Zpos (XO (XO (XO (XO (XI (XI XH))))))
                            else Zpos (XI (XO (XI (XO (XO (XI XH))))))) s3 with
                   | Some p ->
                     let (p0, rest) = p in
                     let (p1, us2) = p0 in
                     let (present, e) = p1 in
                     if (&&) hex (negb present)
                     then None
                     else (match rest with
                           | [] ->
                             if (&&) ((||) us us2) (negb (underscore_ok s))
                             then None
                             else let v =
                                    if Z.eqb mant Z0
                                    then S754_zero neg
                                    else if hex
                                         then f64_mk neg mant
                                                (Z.sub
                                                  (Z.add
                                                    (Z.mul (Zpos (XO (XO
                                                      XH))) dp) e)
                                                  (Z.mul (Zpos (XO (XO XH)))
                                                    nd))
                                         else f64_of_dec neg mant
                                                (Z.sub (Z.add dp e) nd)
                                  in
                                  Some (v, (f64_is_inf v))
                           | _::_ -> None)
                   | None -> None)
           | c1::s2 ->
             (match s2 with
              | [] ->
                let hex = false in
                let (st, s3) =
                  rf_mant_loop hex r { rf_sawdot = false; rf_sawdigits =
                    false; rf_us = false; rf_nd = Z0; rf_dp = Z0; rf_mant =
                    Z0 }
                in
                let { rf_sawdot = sawdot; rf_sawdigits = sawdigits; rf_us =
                  us; rf_nd = nd; rf_dp = dp0; rf_mant = mant } = st
                in
                if negb sawdigits
                then None
                else let dp = if sawdot then dp0 else nd in
                     (match rf_exponent
                              (if hex
                               then Zpos (XO (XO (XO (XO (XI (XI XH))))))
                               else Zpos (XI (XO (XI (XO (XO (XI XH))))))) s3 with
                      | Some p ->
                        let (p0, rest) = p in
                        let (p1, us2) = p0 in
                        let (present, e) = p1 in
                        if (&&) hex (negb present)
                        then None
                        else (match rest with
                              | [] ->
                                if (&&) ((||) us us2) (negb (underscore_ok s))
                                then None
                                else let v =
                                       if Z.eqb mant Z0
                                       then S754_zero neg
                                       else if hex
                                            then f64_mk neg mant
                                                   (Z.sub
                                                     (Z.add
                                                       (Z.mul (Zpos (XO (XO
                                                         XH))) dp) e)
                                                     (Z.mul (Zpos (XO (XO
                                                       XH))) nd))
                                            else f64_of_dec neg mant
                                                   (Z.sub (Z.add dp e) nd)
                                     in
                                     Some (v, (f64_is_inf v))
                              | _::_ -> None)
                      | None -> None)
              | c2::r0 ->
                if (&&) (Z.eqb (cz c0) (Zpos (XO (XO (XO (XO (XI XH)))))))
                     (Z.eqb (lowerz c1) (Zpos (XO (XO (XO (XI (XI (XI
                       XH))))))))
                then let hex = true in
                     let s3 = c2::r0 in
                     let (st, s4) =
                       rf_mant_loop hex s3 { rf_sawdot = false;
                         rf_sawdigits = false; rf_us = false; rf_nd = Z0;
                         rf_dp = Z0; rf_mant = Z0 }
                     in
                     let { rf_sawdot = sawdot; rf_sawdigits = sawdigits;
                       rf_us = us; rf_nd = nd; rf_dp = dp0; rf_mant =
                       mant } = st
                     in
                     if negb sawdigits
                     then None
                     else let dp = if sawdot then dp0 else nd in
                          (match rf_exponent
                                   (if hex
                                    then Zpos (XO (XO (XO (XO (XI (XI XH))))))
                                    else Zpos (XI (XO (XI (XO (XO (XI XH)))))))
                                   s4 with
                           | Some p ->
                             let (p0, rest) = p in
                             let (p1, us2) = p0 in
                             let (present, e) = p1 in
                             if (&&) hex (negb present)
                             then None
                             else (match rest with
                                   | [] ->
                                     if (&&) ((||) us us2)
                                          (negb (underscore_ok s))
                                     then None
                                     else let v =
                                            if Z.eqb mant Z0
                                            then S754_zero neg
                                            else if hex
                                                 then f64_mk neg mant
                                                        (Z.sub
                                                          (Z.add
                                                            (Z.mul (Zpos (XO
                                                              (XO XH))) dp) e)
                                                          (Z.mul (Zpos (XO
                                                            (XO XH))) nd))
                                                 else f64_of_dec neg mant
                                                        (Z.sub (Z.add dp e)
                                                          nd)
                                          in
                                          Some (v, (f64_is_inf v))
                                   | _::_ -> None)
                           | None -> None)
                else let hex = false in
                     let (st, s3) =
                       rf_mant_loop hex r { rf_sawdot = false; rf_sawdigits =
                         false; rf_us = false; rf_nd = Z0; rf_dp = Z0;
                         rf_mant = Z0 }
                     in
                     let { rf_sawdot = sawdot; rf_sawdigits = sawdigits;
                       rf_us = us; rf_nd = nd; rf_dp = dp0; rf_mant =
                       mant } = st
                     in
                     if negb sawdigits
                     then None
                     else let dp = if sawdot then dp0 else nd in
                          (match rf_exponent
                                   (if hex
                                    then Zpos (XO (XO (XO (XO (XI (XI XH))))))
                                    else Zpos (XI (XO (XI (XO (XO (XI XH)))))))
                                   s3 with
                           | Some p ->
                             let (p0, rest) = p in
                             let (p1, us2) = p0 in
                             let (present, e) = p1 in
                             if (&&) hex (negb present)
                             then None
                             else (match rest with
                                   | [] ->
                                     if (&&) ((||) us us2)
                                          (negb (underscore_ok s))
                                     then None
                                     else let v =
                                            if Z.eqb mant Z0
                                            then S754_zero neg
                                            else if hex
                                                 then f64_mk neg mant
                                                        (Z.sub
                                                          (Z.add
                                                            (Z.mul (Zpos (XO
                                                              (XO XH))) dp) e)
                                                          (Z.mul (Zpos (XO
                                                            (XO XH))) nd))
                                                 else f64_of_dec neg mant
                                                        (Z.sub (Z.add dp e)
                                                          nd)
                                          in
                                          Some (v, (f64_is_inf v))
                                   | _::_ -> None)
                           | None -> None))))
  else if Z.eqb (cz c) (Zpos (XI (XO (XI (XI (XO XH))))))
       then let neg = true in
            (match r with
             | [] ->
               let hex = false in
               let (st, s3) =
                 rf_mant_loop hex r { rf_sawdot = false; rf_sawdigits =
                   false; rf_us = false; rf_nd = Z0; rf_dp = Z0; rf_mant =
                   Z0 }
               in
               let { rf_sawdot = sawdot; rf_sawdigits = sawdigits; rf_us =
                 us; rf_nd = nd; rf_dp = dp0; rf_mant = mant } = st
               in
               if negb sawdigits
               then None
               else let dp = if sawdot then dp0 else nd in
                    (match rf_exponent
                             (if hex
                              then Zpos (XO (XO (XO (XO (XI (XI XH))))))
                              else Zpos (XI (XO (XI (XO (XO (XI XH))))))) s3 with
                     | Some p ->
                       let (p0, rest) = p in
                       let (p1, us2) = p0 in
                       let (present, e) = p1 in
                       if (&&) hex (negb present)
                       then None
                       else (match rest with
                             | [] ->
                               if (&&) ((||) us us2) (negb (underscore_ok s))
                               then None
                               else let v =
                                      if Z.eqb mant Z0
                                      then S754_zero neg
                                      else if hex
                                           then f64_mk neg mant
                                                  (Z.sub
                                                    (Z.add
                                                      (Z.mul (Zpos (XO (XO
                                                        XH))) dp) e)
                                                    (Z.mul (Zpos (XO (XO
                                                      XH))) nd))
                                           else f64_of_dec neg mant
                                                  (Z.sub (Z.add dp e) nd)
                                    in
                                    Some (v, (f64_is_inf v))
                             | _::_ -> None)
                     | None -> None)
             | c0::s0 ->
               (match s0 with
                | [] ->
                  let hex = false in
                  let (st, s3) =
                    rf_mant_loop hex r { rf_sawdot = false; rf_sawdigits =
                      false; rf_us = false; rf_nd = Z0; rf_dp = Z0; rf_mant =
                      Z0 }
                  in
                  let { rf_sawdot = sawdot; rf_sawdigits = sawdigits; rf_us =
                    us; rf_nd = nd; rf_dp = dp0; rf_mant = mant } = st
                  in
                  if negb sawdigits
                  then None
                  else let dp = if sawdot then dp0 else nd in
                       (match rf_exponent
                                (if hex
                                 then Zpos (XO (XO (XO (XO (XI (XI XH))))))
                                 else Zpos (XI (XO (XI (XO (XO (XI XH)))))))
                                s3 with
                        | Some p ->
                          let (p0, rest) = p in
                          let (p1, us2) = p0 in
                          let (present, e) = p1 in
                          if (&&) hex (negb present)
                          then None
                          else (match rest with
                                | [] ->
                                  if (&&) ((||) us us2)
                                       (negb (underscore_ok s))
                                  then None
                                  else let v =
                                         if Z.eqb mant Z0
                                         then S754_zero neg
                                         else if hex
                                              then f64_mk neg mant
                                                     (Z.sub
                                                       (Z.add
                                                         (Z.mul (Zpos (XO (XO
                                                           XH))) dp) e)
                                                       (Z.mul (Zpos (XO (XO
                                                         XH))) nd))
                                              else f64_of_dec neg mant
                                                     (Z.sub (Z.add dp e) nd)
                                       in
                                       Some (v, (f64_is_inf v))
                                | _::_ -> None)
                        | None -> None)
                | c1::s2 ->
                  (match s2 with
                   | [] ->
                     let hex = false in
                     let (st, s3) =
                       rf_mant_loop hex r { rf_sawdot = false; rf_sawdigits =
                         false; rf_us = false; rf_nd = Z0; rf_dp = Z0;
                         rf_mant = Z0 }
                     in
                     let { rf_sawdot = sawdot; rf_sawdigits = sawdigits;
                       rf_us = us; rf_nd = nd; rf_dp = dp0; rf_mant =
                       mant } = st
                     in
                     if negb sawdigits
                     then None
                     else let dp = if sawdot then dp0 else nd in
                          (match rf_exponent
                                   (if hex
                                    then Zpos (XO (XO (XO (XO (XI (XI XH))))))
                                    else Zpos (XI (XO (XI (XO (XO (XI XH)))))))
                                   s3 with
                           | Some p ->
                             let (p0, rest) = p in
                             let (p1, us2) = p0 in
                             let (present, e) = p1 in
                             if (&&) hex (negb present)
                             then None
                             else (match rest with
                                   | [] ->
                                     if (&&) ((||) us us2)
                                          (negb (underscore_ok s))
                                     then None
                                     else let v =
                                            if Z.eqb mant Z0
                                            then S754_zero neg
                                            else if hex
                                                 then f64_mk neg mant
                                                        (Z.sub
                                                          (Z.add
                                                            (Z.mul (Zpos (XO
                                                              (XO XH))) dp) e)
                                                          (Z.mul (Zpos (XO
                                                            (XO XH))) nd))
                                                 else f64_of_dec neg mant
                                                        (Z.sub (Z.add dp e)
                                                          nd)
                                          in
                                          Some (v, (f64_is_inf v))
                                   | _::_ -> None)
                           | None -> None)
                   | c2::r0 ->
                     if (&&)
                          (Z.eqb (cz c0) (Zpos (XO (XO (XO (XO (XI XH)))))))
                          (Z.eqb (lowerz c1) (Zpos (XO (XO (XO (XI (XI (XI
                            XH))))))))
                     then let hex = true in
                          let s3 = c2::r0 in
                          let (st, s4) =
                            rf_mant_loop hex s3 { rf_sawdot = false;
                              rf_sawdigits = false; rf_us = false; rf_nd =
                              Z0; rf_dp = Z0; rf_mant = Z0 }
                          in
                          let { rf_sawdot = sawdot; rf_sawdigits = sawdigits;
                            rf_us = us; rf_nd = nd; rf_dp = dp0; rf_mant =
                            mant } = st
                          in
                          if negb sawdigits
                          then None
                          else let dp = if sawdot then dp0 else nd in
                               (match rf_exponent
                                        (if hex
                                         then Zpos (XO (XO (XO (XO (XI (XI
                                                XH))))))
                                         else Zpos (XI (XO (XI (XO (XO (XI
                                                XH))))))) s4 with
                                | Some p ->
                                  let (p0, rest) = p in
                                  let (p1, us2) = p0 in
                                  let (present, e) = p1 in
                                  if (&&) hex (negb present)
                                  then None
                                  else (match rest with
                                        | [] ->
                                          if (&&) ((||) us us2)
                                               (negb (underscore_ok s))
                                          then None
                                          else let v =
                                                 if Z.eqb mant Z0
                                                 then S754_zero neg
                                                 else if hex
                                                      then f64_mk neg mant
                                                             (Z.sub
                                                               (Z.add
                                                                 (Z.mul (Zpos
                                                                   (XO (XO
                                                                   XH))) dp)
                                                                 e)
                                                               (Z.mul (Zpos
                                                                 (XO (XO
                                                                 XH))) nd))
                                                      else f64_of_dec neg
                                                             mant
                                                             (Z.sub
                                                               (Z.add dp e)
                                                               nd)
                                               in
                                               Some (v, (f64_is_inf v))
                                        | _::_ -> None)
                                | None -> None)
                     else let hex = false in
                          let (st, s3) =
                            rf_mant_loop hex r { rf_sawdot = false;
                              rf_sawdigits = false; rf_us = false; rf_nd =
                              Z0; rf_dp = Z0; rf_mant = Z0 }
                          in
                          let { rf_sawdot = sawdot; rf_sawdigits = sawdigits;
                            rf_us = us; rf_nd = nd; rf_dp = dp0; rf_mant =
                            mant } = st
                          in
                          if negb sawdigits
                          then None
                          else let dp = if sawdot then dp0 else nd in
                               (match rf_exponent
                                        (if hex
                                         then Zpos (XO (XO (XO (XO (XI (XI
                                                XH))))))
                                         else Zpos (XI (XO (XI (XO (XO (XI
                                                XH))))))) s3 with
                                | Some p ->
                                  let (p0, rest) = p in
                                  let (p1, us2) = p0 in
                                  let (present, e) = p1 in
                                  if (&&) hex (negb present)
                                  then None
                                  else (match rest with
                                        | [] ->
                                          if (&&) ((||) us us2)
                                               (negb (underscore_ok s))
                                          then None
                                          else let v =
                                                 if Z.eqb mant Z0
                                                 then S754_zero neg
                                                 else if hex
                                                      then f64_mk neg mant
                                                             (Z.sub
                                                               (Z.add
                                                                 (Z.mul (Zpos
                                                                   (XO (XO
                                                                   XH))) dp)
                                                                 e)
                                                               (Z.mul (Zpos
                                                                 (XO (XO
                                                                 XH))) nd))
                                                      else f64_of_dec neg
                                                             mant
                                                             (Z.sub
                                                               (Z.add dp e)
                                                               nd)
                                               in
                                               Some (v, (f64_is_inf v))
                                        | _::_ -> None)
                                | None -> None))))
       else let neg = false in
            (match s with
             | [] ->
               let hex = false in
               let (st, s3) =
                 rf_mant_loop hex s { rf_sawdot = false; rf_sawdigits =
                   false; rf_us = false; rf_nd = Z0; rf_dp = Z0; rf_mant =
                   Z0 }
               in
               let { rf_sawdot = sawdot; rf_sawdigits = sawdigits; rf_us =
                 us; rf_nd = nd; rf_dp = dp0; rf_mant = mant } = st
               in
               if negb sawdigits
               then None
               else let dp = if sawdot then dp0 else nd in
                    (match rf_exponent
                             (if hex
                              then Zpos (XO (XO (XO (XO (XI (XI XH))))))
                              else Zpos (XI (XO (XI (XO (XO (XI XH))))))) s3 with
                     | Some p ->
                       let (p0, rest) = p in
                       let (p1, us2) = p0 in
                       let (present, e) = p1 in
                       if (&&) hex (negb present)
                       then None
                       else (match rest with
                             | [] ->
                               if (&&) ((||) us us2) (negb (underscore_ok s))
                               then None
                               else let v =
                                      if Z.eqb mant Z0
                                      then S754_zero neg
                                      else if hex
                                           then f64_mk neg mant
                                                  (Z.sub
                                                    (Z.add
                                                      (Z.mul (Zpos (XO (XO
                                                        XH))) dp) e)
                                                    (Z.mul (Zpos (XO (XO
                                                      XH))) nd))
                                           else f64_of_dec neg mant
                                                  (Z.sub (Z.add dp e) nd)
                                    in
                                    Some (v, (f64_is_inf v))
                             | _::_ -> None)
                     | None -> None)
             | c0::s0 ->
               (match s0 with
                | [] ->
                  let hex = false in
                  let (st, s3) =
                    rf_mant_loop hex s { rf_sawdot = false; rf_sawdigits =
                      false; rf_us = false; rf_nd = Z0; rf_dp = Z0; rf_mant =
                      Z0 }
                  in
                  let { rf_sawdot = sawdot; rf_sawdigits = sawdigits; rf_us =
                    us; rf_nd = nd; rf_dp = dp0; rf_mant = mant } = st
                  in
                  if negb sawdigits
                  then None
                  else let dp = if sawdot then dp0 else nd in
                       (match rf_exponent
                                (if hex
                                 then Zpos (XO (XO (XO (XO (XI (XI XH))))))
                                 else Zpos (XI (XO (XI (XO (XO (XI XH)))))))
                                s3 with
                        | Some p ->
                          let (p0, rest) = p in
                          let (p1, us2) = p0 in
                          let (present, e) = p1 in
                          if (&&) hex (negb present)
                          then None
                          else (match rest with
                                | [] ->
                                  if (&&) ((||) us us2)
                                       (negb (underscore_ok s))
                                  then None
                                  else let v =
                                         if Z.eqb mant Z0
                                         then S754_zero neg
                                         else if hex
                                              then f64_mk neg mant
                                                     (Z.sub
                                                       (Z.add
                                                         (Z.mul (Zpos (XO (XO
                                                           XH))) dp) e)
                                                       (Z.mul (Zpos (XO (XO
                                                         XH))) nd))
                                              else f64_of_dec neg mant
                                                     (Z.sub (Z.add dp e) nd)
                                       in
                                       Some (v, (f64_is_inf v))
                                | _::_ -> None)
                        | None -> None)
                | c1::s2 ->
                  (match s2 with
                   | [] ->
                     let hex = false in
                     let (st, s3) =
                       rf_mant_loop hex s { rf_sawdot = false; rf_sawdigits =
                         false; rf_us = false; rf_nd = Z0; rf_dp = Z0;
                         rf_mant = Z0 }
                     in
                     let { rf_sawdot = sawdot; rf_sawdigits = sawdigits;
                       rf_us = us; rf_nd = nd; rf_dp = dp0; rf_mant =
                       mant } = st
                     in
                     if negb sawdigits
                     then None
                     else let dp = if sawdot then dp0 else nd in
                          (match rf_exponent
                                   (if hex
                                    then Zpos (XO (XO (XO (XO (XI (XI XH))))))
                                    else Zpos (XI (XO (XI (XO (XO (XI XH)))))))
                                   s3 with
                           | Some p ->
                             let (p0, rest) = p in
                             let (p1, us2) = p0 in
                             let (present, e) = p1 in
                             if (&&) hex (negb present)
                             then None
                             else (match rest with
                                   | [] ->
                                     if (&&) ((||) us us2)
                                          (negb (underscore_ok s))
                                     then None
                                     else let v =
                                            if Z.eqb mant Z0
                                            then S754_zero neg
                                            else if hex
                                                 then f64_mk neg mant
                                                        (Z.sub
                                                          (Z.add
                                                            (Z.mul (Zpos (XO
                                                              (XO XH))) dp) e)
                                                          (Z.mul (Zpos (XO
                                                            (XO XH))) nd))
                                                 else f64_of_dec neg mant
                                                        (Z.sub (Z.add dp e)
                                                          nd)
                                          in
                                          Some (v, (f64_is_inf v))
                                   | _::_ -> None)
                           | None -> None)
                   | c2::r0 ->
                     if (&&)
                          (Z.eqb (cz c0) (Zpos (XO (XO (XO (XO (XI XH)))))))
                          (Z.eqb (lowerz c1) (Zpos (XO (XO (XO (XI (XI (XI
                            XH))))))))
                     then let hex = true in
                          let s3 = c2::r0 in
                          let (st, s4) =
                            rf_mant_loop hex s3 { rf_sawdot = false;
                              rf_sawdigits = false; rf_us = false; rf_nd =
                              Z0; rf_dp = Z0; rf_mant = Z0 }
                          in
                          let { rf_sawdot = sawdot; rf_sawdigits = sawdigits;
                            rf_us = us; rf_nd = nd; rf_dp = dp0; rf_mant =
                            mant } = st
                          in
                          if negb sawdigits
                          then None
                          else let dp = if sawdot then dp0 else nd in
                               (match rf_exponent
                                        (if hex
                                         then Zpos (XO (XO (XO (XO (XI (XI
                                                XH))))))
                                         else Zpos (XI (XO (XI (XO (XO (XI
                                                XH))))))) s4 with
                                | Some p ->
                                  let (p0, rest) = p in
                                  let (p1, us2) = p0 in
                                  let (present, e) = p1 in
                                  if (&&) hex (negb present)
                                  then None
                                  else (match rest with
                                        | [] ->
                                          if (&&) ((||) us us2)
                                               (negb (underscore_ok s))
                                          then None
                                          else let v =
                                                 if Z.eqb mant Z0
                                                 then S754_zero neg
                                                 else if hex
                                                      then f64_mk neg mant
                                                             (Z.sub
                                                               (Z.add
                                                                 (Z.mul (Zpos
                                                                   (XO (XO
                                                                   XH))) dp)
                                                                 e)
                                                               (Z.mul (Zpos
                                                                 (XO (XO
                                                                 XH))) nd))
                                                      else f64_of_dec neg
                                                             mant
                                                             (Z.sub
                                                               (Z.add dp e)
                                                               nd)
                                               in
                                               Some (v, (f64_is_inf v))
                                        | _::_ -> None)
                                | None -> None)
                     else let hex = false in
                          let (st, s3) =
                            rf_mant_loop hex s { rf_sawdot = false;
                              rf_sawdigits = false; rf_us = false; rf_nd =
                              Z0; rf_dp = Z0; rf_mant = Z0 }
                          in
                          let { rf_sawdot = sawdot; rf_sawdigits = sawdigits;
                            rf_us = us; rf_nd = nd; rf_dp = dp0; rf_mant =
                            mant } = st
                          in
                          if negb sawdigits
                          then None
                          else let dp = if sawdot then dp0 else nd in
                               (match rf_exponent
                                        (if hex
                                         then Zpos (XO (XO (XO (XO (XI (XI
                                                XH))))))
                                         else Zpos (XI (XO (XI (XO (XO (XI
                                                XH))))))) s3 with
                                | Some p ->
                                  let (p0, rest) = p in
                                  let (p1, us2) = p0 in
                                  let (present, e) = p1 in
                                  if (&&) hex (negb present)
                                  then None
                                  else (match rest with
                                        | [] ->
                                          if (&&) ((||) us us2)
                                               (negb (underscore_ok s))
                                          then None
                                          else let v =
                                                 if Z.eqb mant Z0
                                                 then S754_zero neg
                                                 else if hex
                                                      then f64_mk neg mant
                                                             (Z.sub
                                                               (Z.add
                                                                 (Z.mul (Zpos
                                                                   (XO (XO
                                                                   XH))) dp)
                                                                 e)
                                                               (Z.mul (Zpos
                                                                 (XO (XO
                                                                 XH))) nd))
                                                      else f64_of_dec neg
                                                             mant
                                                             (Z.sub
                                                               (Z.add dp e)
                                                               nd)
                                               in
                                               Some (v, (f64_is_inf v))
                                        | _::_ -> None)
                                | None -> None))))

(** val parse_float0 : char list -> (f0 * bool) option **)

let parse_float0 s =
  let ls = str_lower s in
  let body = match ls with
             | [] -> ls
             | c::r -> if is_sign c then r else ls in
  let neg =
    match ls with
    | [] -> false
    | c::_ -> Z.eqb (cz c) (Zpos (XI (XO (XI (XI (XO XH))))))
  in
  if (||) (eqb0 body ('i'::('n'::('f'::[]))))
       (eqb0 body ('i'::('n'::('f'::('i'::('n'::('i'::('t'::('y'::[])))))))))
  then Some ((S754_infinity neg), false)
  else if eqb0 ls ('n'::('a'::('n'::[])))
       then Some (S754_nan, false)
       else parse_float_num s

(** val strip_trailing_zeros_rev : z list -> z list **)

let rec strip_trailing_zeros_rev l = match l with
| [] -> []
| d :: r -> if Z.eqb d Z0 then strip_trailing_zeros_rev r else l

(** val strip_trailing_zeros : z list -> z list **)

let strip_trailing_zeros l =
  rev (strip_trailing_zeros_rev (rev l))

(** val small_fdiv : z -> z -> z **)

let small_fdiv x d =
  if Z.leb Z0 x
  then fst (zfast_div_eucl x d)
  else let (q, r) = zfast_div_eucl (Z.opp x) d in
       if Z.eqb r Z0 then Z.opp q else Z.sub (Z.opp q) (Zpos XH)

(** val sdJ_loop :
    nat -> z -> z -> z -> bool -> comparison -> z -> z -> z -> z -> bool -> z
    -> z list * z **)

let rec sdJ_loop fuel n0 j t rem_zero cmp0 lf lc hf hc incl dp =
  match fuel with
  | O -> ((strip_trailing_zeros (dec_digits_list t)), dp)
  | S fuel' ->
    let j0 = Z.sub j n0 in
    let p = Z.pow (Zpos (XO (XI (XO XH)))) j0 in
    let tn = Z.div t p in
    let down = Z.mul tn p in
    let up = Z.mul (Z.add tn (Zpos XH)) p in
    let okdown = if incl then Z.leb lc down else Z.ltb lf down in
    let okup = if incl then Z.leb up hf else Z.ltb up hc in
    let res =
      if (&&) okdown okup
      then let c =
             if Z.eqb j0 Z0
             then cmp0
             else (match Z.compare (Z.sub t down) (Z.div p (Zpos (XO XH))) with
                   | Eq -> if rem_zero then Eq else Gt
                   | x -> x)
           in
           Some
           (match c with
            | Eq -> if Z.even tn then tn else Z.add tn (Zpos XH)
            | Lt -> tn
            | Gt -> Z.add tn (Zpos XH))
      else if okdown
           then Some tn
           else if okup then Some (Z.add tn (Zpos XH)) else None
    in
    (match res with
     | Some r ->
       let ds = dec_digits_list r in
       ((strip_trailing_zeros ds),
       (Z.add dp (Z.sub (Z.of_nat (length ds)) n0)))
     | None ->
       sdJ_loop fuel' (Z.add n0 (Zpos XH)) j t rem_zero cmp0 lf lc hf hc incl
         dp)

(** val shortest_digits : f0 -> z list * z **)

let shortest_digits = function
| S754_finite (_, m, e) ->
  let mz = Zpos m in
  let border =
    (&&)
      (Z.eqb mz (Zpos (XO (XO (XO (XO (XO (XO (XO (XO (XO (XO (XO (XO (XO (XO
        (XO (XO (XO (XO (XO (XO (XO (XO (XO (XO (XO (XO (XO (XO (XO (XO (XO
        (XO (XO (XO (XO (XO (XO (XO (XO (XO (XO (XO (XO (XO (XO (XO (XO (XO
        (XO (XO (XO (XO
        XH))))))))))))))))))))))))))))))))))))))))))))))))))))))
      (negb
        (Z.eqb e (Zneg (XO (XI (XO (XO (XI (XI (XO (XO (XO (XO XH)))))))))))))
  in
  let e0 = Z.sub e (Zpos (XO XH)) in
  let sc = if Z.leb Z0 e0 then Z.pow (Zpos (XO XH)) e0 else Zpos XH in
  let den = if Z.leb Z0 e0 then Zpos XH else Z.pow (Zpos (XO XH)) (Z.opp e0)
  in
  let c = Z.mul (Z.mul (Zpos (XO (XO XH))) mz) sc in
  let dp' =
    Z.add
      (Z.div
        (Z.mul (Z.sub (Z.log2 c) (Z.log2 den)) (Zpos (XI (XI (XI (XO (XI (XO
          (XO (XI (XI (XO (XI (XO (XI (XI XH)))))))))))))))) (Zpos (XO (XO
        (XO (XO (XO (XI (XO (XI (XO (XI (XI (XO (XO (XO (XO (XI
        XH)))))))))))))))))) (Zpos XH)
  in
  let k = Z.sub dp' (Zpos (XO (XI (XO (XO XH))))) in
  let mul0 =
    if Z.leb Z0 k then Zpos XH else Z.pow (Zpos (XO (XI (XO XH)))) (Z.opp k)
  in
  let d =
    if Z.leb Z0 k then Z.mul den (Z.pow (Zpos (XO (XI (XO XH)))) k) else den
  in
  let delta = Z.mul sc mul0 in
  let (t, rem) = zfast_div_eucl (Z.mul c mul0) d in
  let j =
    if Z.ltb t (Zpos (XO (XO (XO (XO (XO (XO (XO (XO (XO (XO (XO (XO (XO (XO
         (XO (XO (XO (XI (XO (XI (XO (XO (XO (XI (XI (XO (XI (XI (XI (XO (XI
         (XO (XO (XO (XO (XI (XI (XI (XI (XO (XI (XO (XI (XO (XO (XO (XI (XO
         (XI (XI (XO (XO (XO (XI (XI (XO
         XH)))))))))))))))))))))))))))))))))))))))))))))))))))))))))
    then Zpos (XI (XO (XO (XO XH))))
    else if Z.ltb t (Zpos (XO (XO (XO (XO (XO (XO (XO (XO (XO (XO (XO (XO (XO
              (XO (XO (XO (XO (XO (XI (XO (XO (XI (XI (XO (XI (XI (XI (XO (XO
              (XI (XO (XI (XI (XI (XO (XO (XI (XI (XO (XI (XO (XI (XI (XO (XI
              (XI (XO (XI (XO (XO (XO (XO (XO (XI (XI (XI (XI (XO (XI
              XH))))))))))))))))))))))))))))))))))))))))))))))))))))))))))))
         then Zpos (XO (XI (XO (XO XH))))
         else Zpos (XI (XI (XO (XO XH))))
  in
  let dp = Z.add dp' (Z.sub j (Zpos (XO (XI (XO (XO XH)))))) in
  let xl = Z.sub rem (if border then delta else Z.mul (Zpos (XO XH)) delta) in
  let xh = Z.add rem (Z.mul (Zpos (XO XH)) delta) in
  let ql = small_fdiv xl d in
  let qh = small_fdiv xh d in
  let lf = Z.add t ql in
  let lc = if Z.eqb (Z.sub xl (Z.mul ql d)) Z0 then lf else Z.add lf (Zpos XH)
  in
  let hf = Z.add t qh in
  let hc = if Z.eqb (Z.sub xh (Z.mul qh d)) Z0 then hf else Z.add hf (Zpos XH)
  in
  sdJ_loop (S (S (S (S (S (S (S (S (S (S (S (S (S (S (S (S (S
    O))))))))))))))))) (Zpos XH) j t (Z.eqb rem Z0)
    (Z.compare (Z.mul (Zpos (XO XH)) rem) d) lf lc hf hc (Z.even mz) dp
| _ -> ([], Z0)

(** val zeros : nat -> char list **)

let rec zeros = function
| O -> []
| S k -> '0'::(zeros k)

(** val fmt_f : bool -> z list -> z -> char list **)

let fmt_f neg ds dp =
  let nd = Z.of_nat (length ds) in
  let intpart =
    if Z.ltb Z0 dp
    then let m = Z.min nd dp in
         append (str_of_digits (firstn (Z.to_nat m) ds))
           (zeros (Z.to_nat (Z.sub dp m)))
    else '0'::[]
  in
  let fracpart =
    if Z.ltb dp nd
    then append ('.'::[])
           (append (zeros (Z.to_nat (Z.opp dp)))
             (str_of_digits (skipn (Z.to_nat dp) ds)))
    else []
  in
  append (if neg then '-'::[] else []) (append intpart fracpart)

(** val fmt_e : bool -> z list -> z -> char list **)

let fmt_e neg ds dp =
  let first = match ds with
              | [] -> '0'
              | d :: _ -> digit_char d in
  let more =
    match ds with
    | [] -> []
    | _ :: r ->
      (match r with
       | [] -> []
       | _ :: _ -> append ('.'::[]) (str_of_digits r))
  in
  let exp = match ds with
            | [] -> Z0
            | _ :: _ -> Z.sub dp (Zpos XH) in
  let a = Z.abs exp in
  append (if neg then '-'::[] else [])
    (append (first::more)
      (append ('e'::[])
        (append (if Z.ltb exp Z0 then '-'::[] else '+'::[])
          (append (if Z.ltb a (Zpos (XO (XI (XO XH)))) then '0'::[] else [])
            (format_nat a)))))

(** val format_special : f0 -> char list option **)

let format_special = function
| S754_infinity s ->
  if s
  then Some ('-'::('I'::('n'::('f'::[]))))
  else Some ('+'::('I'::('n'::('f'::[]))))
| S754_nan -> Some ('N'::('a'::('N'::[])))
| _ -> None

(** val format_float_f : f0 -> char list **)

let format_float_f f =
  match format_special f with
  | Some s -> s
  | None -> let (ds, dp) = shortest_digits f in fmt_f (f64_signbit f) ds dp

(** val format_float_e : f0 -> char list **)

let format_float_e f =
  match format_special f with
  | Some s -> s
  | None -> let (ds, dp) = shortest_digits f in fmt_e (f64_signbit f) ds dp

(** val json_exp_cleanup : char list -> char list **)

let rec json_exp_cleanup = function
| [] -> []
| c::r ->
  (* If this appears, you're using Ascii internals. Please don't *)
 (fun f c ->
  let n = Char.code c in
  let h i = (n land (1 lsl i)) <> 0 in
  f (h 0) (h 1) (h 2) (h 3) (h 4) (h 5) (h 6) (h 7))
    (fun b b0 b1 b2 b3 b4 b5 b6 ->
    if b
    then if b0
         then c::(json_exp_cleanup r)
         else if b1
              then if b2
                   then c::(json_exp_cleanup r)
                   else if b3
                        then c::(json_exp_cleanup r)
                        else if b4
                             then if b5
                                  then if b6
                                       then c::(json_exp_cleanup r)
                                       else (match r with
                                             | [] -> c::(json_exp_cleanup r)
                                             | a::s0 ->
                                               (* If this appears, you're using Ascii internals. Please don't *)
 (fun f c ->
  let n = Char.code c in
  let h i = (n land (1 lsl i)) <> 0 in
  f (h 0) (h 1) (h 2) (h 3) (h 4) (h 5) (h 6) (h 7))
                                                 (fun b7 b8 b9 b10 b11 b12 b13 b14 ->
                                                 if b7
                                                 then if b8
                                                      then c::(json_exp_cleanup
                                                                r)
                                                      else if b9
                                                           then if b10
                                                                then 
                                                                  if b11
                                                                  then 
                                                                    c::
                                                                    (json_exp_cleanup
                                                                    r)
                                                                  else 
                                                                    if b12
                                                                    then 
                                                                    if b13
                                                                    then 
                                                                    c::
                                                                    (json_exp_cleanup
                                                                    r)
                                                                    else 
                                                                    if b14
                                                                    then 
                                                                    c::
                                                                    (json_exp_cleanup
                                                                    r)
                                                                    else 
                                                                    (match s0 with
                                                                    | [] ->
                                                                    c::
                                                                    (json_exp_cleanup
                                                                    r)
                                                                    | a0::s1 ->
                                                                    (* If this appears, you're using Ascii internals. Please don't *)
 (fun f c ->
  let n = Char.code c in
  let h i = (n land (1 lsl i)) <> 0 in
  f (h 0) (h 1) (h 2) (h 3) (h 4) (h 5) (h 6) (h 7))
                                                                    (fun b15 b16 b17 b18 b19 b20 b21 b22 ->
                                                                    if b15
                                                                    then 
                                                                    c::
                                                                    (json_exp_cleanup
                                                                    r)
                                                                    else 
                                                                    if b16
                                                                    then 
                                                                    c::
                                                                    (json_exp_cleanup
                                                                    r)
                                                                    else 
                                                                    if b17
                                                                    then 
                                                                    c::
                                                                    (json_exp_cleanup
                                                                    r)
                                                                    else 
                                                                    if b18
                                                                    then 
                                                                    c::
                                                                    (json_exp_cleanup
                                                                    r)
                                                                    else 
                                                                    if b19
                                                                    then 
                                                                    if b20
                                                                    then 
                                                                    if b21
                                                                    then 
                                                                    c::
                                                                    (json_exp_cleanup
                                                                    r)
                                                                    else 
                                                                    if b22
                                                                    then 
                                                                    c::
                                                                    (json_exp_cleanup
                                                                    r)
                                                                    else 
                                                                    (match s1 with
                                                                    | [] ->
                                                                    c::
                                                                    (json_exp_cleanup
                                                                    r)
                                                                    | d::s2 ->
                                                                    (match s2 with
                                                                    | [] ->
                                                                    'e'::('-'::(d::[]))
                                                                    | _::_ ->
                                                                    c::
                                                                    (json_exp_cleanup
                                                                    r)))
                                                                    else 
                                                                    c::
                                                                    (json_exp_cleanup
                                                                    r)
                                                                    else 
                                                                    c::
                                                                    (json_exp_cleanup
                                                                    r))
                                                                    a0)
                                                                    else 
                                                                    c::
                                                                    (json_exp_cleanup
                                                                    r)
                                                                else 
                                                                  c::
                                                                    (json_exp_cleanup
                                                                    r)
                                                           else c::(json_exp_cleanup
                                                                    r)
                                                 else c::(json_exp_cleanup r))
                                                 a)
                                  else c::(json_exp_cleanup r)
                             else c::(json_exp_cleanup r)
              else c::(json_exp_cleanup r)
    else c::(json_exp_cleanup r))
    c

(** val format_float_json0 : f0 -> char list **)

let format_float_json0 f =
  let a = f64_abs f in
  let use_e =
    (&&) (negb (f64_is_zero a))
      ((||) (f64_ltb a (f64_of_dec false (Zpos XH) (Zneg (XO (XI XH)))))
        (f64_leb (f64_of_dec false (Zpos XH) (Zpos (XI (XO (XI (XO XH)))))) a))
  in
  if use_e then json_exp_cleanup (format_float_e f) else format_float_f f

(** val xid_start_tab : ((z * z) * (z * z) list) list **)

let xid_start_tab =
  (((Zpos (XI (XO (XO (XO (XO (XO XH))))))), (Zpos (XO (XI (XI (XO (XI (XO
    (XI (XO (XI (XO XH)))))))))))), (((Zpos (XI (XO (XO (XO (XO (XO
    XH))))))), (Zpos (XO (XI (XO (XI (XI (XO XH)))))))) :: (((Zpos (XI (XO
    (XO (XO (XO (XI XH))))))), (Zpos (XO (XI (XO (XI (XI (XI
    XH)))))))) :: (((Zpos (XO (XI (XO (XI (XO (XI (XO XH)))))))), (Zpos (XO
    (XI (XO (XI (XO (XI (XO XH))))))))) :: (((Zpos (XI (XO (XI (XO (XI (XI
    (XO XH)))))))), (Zpos (XI (XO (XI (XO (XI (XI (XO XH))))))))) :: (((Zpos
    (XO (XI (XO (XI (XI (XI (XO XH)))))))), (Zpos (XO (XI (XO (XI (XI (XI (XO
    XH))))))))) :: (((Zpos (XO (XO (XO (XO (XO (XO (XI XH)))))))), (Zpos (XO
    (XI (XI (XO (XI (XO (XI XH))))))))) :: (((Zpos (XO (XO (XO (XI (XI (XO
    (XI XH)))))))), (Zpos (XO (XI (XI (XO (XI (XI (XI XH))))))))) :: (((Zpos
    (XO (XO (XO (XI (XI (XI (XI XH)))))))), (Zpos (XI (XO (XO (XO (XO (XO (XI
    (XI (XO XH))))))))))) :: (((Zpos (XO (XI (XI (XO (XO (XO (XI (XI (XO
    XH)))))))))), (Zpos (XI (XO (XO (XO (XI (XO (XI (XI (XO
    XH))))))))))) :: (((Zpos (XO (XO (XO (XO (XO (XI (XI (XI (XO
    XH)))))))))), (Zpos (XO (XO (XI (XO (XO (XI (XI (XI (XO
    XH))))))))))) :: (((Zpos (XO (XO (XI (XI (XO (XI (XI (XI (XO
    XH)))))))))), (Zpos (XO (XO (XI (XI (XO (XI (XI (XI (XO
    XH))))))))))) :: (((Zpos (XO (XI (XI (XI (XO (XI (XI (XI (XO
    XH)))))))))), (Zpos (XO (XI (XI (XI (XO (XI (XI (XI (XO
    XH))))))))))) :: (((Zpos (XO (XO (XO (XO (XI (XI (XI (XO (XI
    XH)))))))))), (Zpos (XO (XO (XI (XO (XI (XI (XI (XO (XI
    XH))))))))))) :: (((Zpos (XO (XI (XI (XO (XI (XI (XI (XO (XI
    XH)))))))))), (Zpos (XI (XI (XI (XO (XI (XI (XI (XO (XI
    XH))))))))))) :: (((Zpos (XI (XI (XO (XI (XI (XI (XI (XO (XI
    XH)))))))))), (Zpos (XI (XO (XI (XI (XI (XI (XI (XO (XI
    XH))))))))))) :: (((Zpos (XI (XI (XI (XI (XI (XI (XI (XO (XI
    XH)))))))))), (Zpos (XI (XI (XI (XI (XI (XI (XI (XO (XI
    XH))))))))))) :: (((Zpos (XO (XI (XI (XO (XO (XO (XO (XI (XI
    XH)))))))))), (Zpos (XO (XI (XI (XO (XO (XO (XO (XI (XI
    XH))))))))))) :: (((Zpos (XO (XO (XO (XI (XO (XO (XO (XI (XI
    XH)))))))))), (Zpos (XO (XI (XO (XI (XO (XO (XO (XI (XI
    XH))))))))))) :: (((Zpos (XO (XO (XI (XI (XO (XO (XO (XI (XI
    XH)))))))))), (Zpos (XO (XO (XI (XI (XO (XO (XO (XI (XI
    XH))))))))))) :: (((Zpos (XO (XI (XI (XI (XO (XO (XO (XI (XI
    XH)))))))))), (Zpos (XI (XO (XO (XO (XO (XI (XO (XI (XI
    XH))))))))))) :: (((Zpos (XI (XI (XO (XO (XO (XI (XO (XI (XI
    XH)))))))))), (Zpos (XI (XO (XI (XO (XI (XI (XI (XI (XI
    XH))))))))))) :: (((Zpos (XI (XI (XI (XO (XI (XI (XI (XI (XI
    XH)))))))))), (Zpos (XI (XO (XO (XO (XO (XO (XO (XI (XO (XO
    XH)))))))))))) :: (((Zpos (XO (XI (XO (XI (XO (XO (XO (XI (XO (XO
    XH))))))))))), (Zpos (XI (XI (XI (XI (XO (XI (XO (XO (XI (XO
    XH)))))))))))) :: (((Zpos (XI (XO (XO (XO (XI (XI (XO (XO (XI (XO
    XH))))))))))), (Zpos (XO (XI (XI (XO (XI (XO (XI (XO (XI (XO
    XH)))))))))))) :: []))))))))))))))))))))))))) :: ((((Zpos (XI (XO (XO (XI
    (XI (XO (XI (XO (XI (XO XH))))))))))), (Zpos (XO (XO (XO (XI (XI (XO (XI
    (XO (XO (XO (XO XH))))))))))))), (((Zpos (XI (XO (XO (XI (XI (XO (XI (XO
    (XI (XO XH))))))))))), (Zpos (XI (XO (XO (XI (XI (XO (XI (XO (XI (XO
    XH)))))))))))) :: (((Zpos (XO (XO (XO (XO (XO (XI (XI (XO (XI (XO
    XH))))))))))), (Zpos (XO (XO (XO (XI (XO (XO (XO (XI (XI (XO
    XH)))))))))))) :: (((Zpos (XO (XO (XO (XO (XI (XO (XI (XI (XI (XO
    XH))))))))))), (Zpos (XO (XI (XO (XI (XO (XI (XI (XI (XI (XO
    XH)))))))))))) :: (((Zpos (XI (XI (XI (XI (XO (XI (XI (XI (XI (XO
    XH))))))))))), (Zpos (XO (XI (XO (XO (XI (XI (XI (XI (XI (XO
    XH)))))))))))) :: (((Zpos (XO (XO (XO (XO (XO (XI (XO (XO (XO (XI
    XH))))))))))), (Zpos (XO (XI (XO (XI (XO (XO (XI (XO (XO (XI
    XH)))))))))))) :: (((Zpos (XO (XI (XI (XI (XO (XI (XI (XO (XO (XI
    XH))))))))))), (Zpos (XI (XI (XI (XI (XO (XI (XI (XO (XO (XI
    XH)))))))))))) :: (((Zpos (XI (XO (XO (XO (XI (XI (XI (XO (XO (XI
    XH))))))))))), (Zpos (XI (XI (XO (XO (XI (XO (XI (XI (XO (XI
    XH)))))))))))) :: (((Zpos (XI (XO (XI (XO (XI (XO (XI (XI (XO (XI
    XH))))))))))), (Zpos (XI (XO (XI (XO (XI (XO (XI (XI (XO (XI
    XH)))))))))))) :: (((Zpos (XI (XO (XI (XO (XO (XI (XI (XI (XO (XI
    XH))))))))))), (Zpos (XO (XI (XI (XO (XO (XI (XI (XI (XO (XI
    XH)))))))))))) :: (((Zpos (XO (XI (XI (XI (XO (XI (XI (XI (XO (XI
    XH))))))))))), (Zpos (XI (XI (XI (XI (XO (XI (XI (XI (XO (XI
    XH)))))))))))) :: (((Zpos (XO (XI (XO (XI (XI (XI (XI (XI (XO (XI
    XH))))))))))), (Zpos (XO (XO (XI (XI (XI (XI (XI (XI (XO (XI
    XH)))))))))))) :: (((Zpos (XI (XI (XI (XI (XI (XI (XI (XI (XO (XI
    XH))))))))))), (Zpos (XI (XI (XI (XI (XI (XI (XI (XI (XO (XI
    XH)))))))))))) :: (((Zpos (XO (XO (XO (XO (XI (XO (XO (XO (XI (XI
    XH))))))))))), (Zpos (XO (XO (XO (XO (XI (XO (XO (XO (XI (XI
    XH)))))))))))) :: (((Zpos (XO (XI (XO (XO (XI (XO (XO (XO (XI (XI
    XH))))))))))), (Zpos (XI (XI (XI (XI (XO (XI (XO (XO (XI (XI
    XH)))))))))))) :: (((Zpos (XI (XO (XI (XI (XO (XO (XI (XO (XI (XI
    XH))))))))))), (Zpos (XI (XO (XI (XO (XO (XI (XO (XI (XI (XI
    XH)))))))))))) :: (((Zpos (XI (XO (XO (XO (XI (XI (XO (XI (XI (XI
    XH))))))))))), (Zpos (XI (XO (XO (XO (XI (XI (XO (XI (XI (XI
    XH)))))))))))) :: (((Zpos (XO (XI (XO (XI (XO (XO (XI (XI (XI (XI
    XH))))))))))), (Zpos (XO (XI (XO (XI (XO (XI (XI (XI (XI (XI
    XH)))))))))))) :: (((Zpos (XO (XO (XI (XO (XI (XI (XI (XI (XI (XI
    XH))))))))))), (Zpos (XI (XO (XI (XO (XI (XI (XI (XI (XI (XI
    XH)))))))))))) :: (((Zpos (XO (XI (XO (XI (XI (XI (XI (XI (XI (XI
    XH))))))))))), (Zpos (XO (XI (XO (XI (XI (XI (XI (XI (XI (XI
    XH)))))))))))) :: (((Zpos (XO (XO (XO (XO (XO (XO (XO (XO (XO (XO (XO
    XH)))))))))))), (Zpos (XI (XO (XI (XO (XI (XO (XO (XO (XO (XO (XO
    XH))))))))))))) :: (((Zpos (XO (XI (XO (XI (XI (XO (XO (XO (XO (XO (XO
    XH)))))))))))), (Zpos (XO (XI (XO (XI (XI (XO (XO (XO (XO (XO (XO
    XH))))))))))))) :: (((Zpos (XO (XO (XI (XO (XO (XI (XO (XO (XO (XO (XO
    XH)))))))))))), (Zpos (XO (XO (XI (XO (XO (XI (XO (XO (XO (XO (XO
    XH))))))))))))) :: (((Zpos (XO (XO (XO (XI (XO (XI (XO (XO (XO (XO (XO
    XH)))))))))))), (Zpos (XO (XO (XO (XI (XO (XI (XO (XO (XO (XO (XO
    XH))))))))))))) :: (((Zpos (XO (XO (XO (XO (XO (XO (XI (XO (XO (XO (XO
    XH)))))))))))), (Zpos (XO (XO (XO (XI (XI (XO (XI (XO (XO (XO (XO
    XH))))))))))))) :: []))))))))))))))))))))))))) :: ((((Zpos (XO (XO (XO
    (XO (XO (XI (XI (XO (XO (XO (XO XH)))))))))))), (Zpos (XO (XO (XO (XI (XO
    (XI (XO (XO (XO (XI (XO XH))))))))))))), (((Zpos (XO (XO (XO (XO (XO (XI
    (XI (XO (XO (XO (XO XH)))))))))))), (Zpos (XO (XI (XO (XI (XO (XI (XI (XO
    (XO (XO (XO XH))))))))))))) :: (((Zpos (XO (XO (XO (XO (XI (XI (XI (XO
    (XO (XO (XO XH)))))))))))), (Zpos (XI (XI (XI (XO (XO (XO (XO (XI (XO (XO
    (XO XH))))))))))))) :: (((Zpos (XI (XO (XO (XI (XO (XO (XO (XI (XO (XO
    (XO XH)))))))))))), (Zpos (XO (XI (XI (XI (XO (XO (XO (XI (XO (XO (XO
    XH))))))))))))) :: (((Zpos (XO (XO (XO (XO (XO (XI (XO (XI (XO (XO (XO
    XH)))))))))))), (Zpos (XI (XO (XO (XI (XO (XO (XI (XI (XO (XO (XO
    XH))))))))))))) :: (((Zpos (XO (XO (XI (XO (XO (XO (XO (XO (XI (XO (XO
    XH)))))))))))), (Zpos (XI (XO (XO (XI (XI (XI (XO (XO (XI (XO (XO
    XH))))))))))))) :: (((Zpos (XI (XO (XI (XI (XI (XI (XO (XO (XI (XO (XO
    XH)))))))))))), (Zpos (XI (XO (XI (XI (XI (XI (XO (XO (XI (XO (XO
    XH))))))))))))) :: (((Zpos (XO (XO (XO (XO (XI (XO (XI (XO (XI (XO (XO
    XH)))))))))))), (Zpos (XO (XO (XO (XO (XI (XO (XI (XO (XI (XO (XO
    XH))))))))))))) :: (((Zpos (XO (XO (XO (XI (XI (XO (XI (XO (XI (XO (XO
    XH)))))))))))), (Zpos (XI (XO (XO (XO (XO (XI (XI (XO (XI (XO (XO
    XH))))))))))))) :: (((Zpos (XI (XO (XO (XO (XI (XI (XI (XO (XI (XO (XO
    XH)))))))))))), (Zpos (XO (XO (XO (XO (XO (XO (XO (XI (XI (XO (XO
    XH))))))))))))) :: (((Zpos (XI (XO (XI (XO (XO (XO (XO (XI (XI (XO (XO
    XH)))))))))))), (Zpos (XO (XO (XI (XI (XO (XO (XO (XI (XI (XO (XO
    XH))))))))))))) :: (((Zpos (XI (XI (XI (XI (XO (XO (XO (XI (XI (XO (XO
    XH)))))))))))), (Zpos (XO (XO (XO (XO (XI (XO (XO (XI (XI (XO (XO
    XH))))))))))))) :: (((Zpos (XI (XI (XO (XO (XI (XO (XO (XI (XI (XO (XO
    XH)))))))))))), (Zpos (XO (XO (XO (XI (XO (XI (XO (XI (XI (XO (XO
    XH))))))))))))) :: (((Zpos (XO (XI (XO (XI (XO (XI (XO (XI (XI (XO (XO
    XH)))))))))))), (Zpos (XO (XO (XO (XO (XI (XI (XO (XI (XI (XO (XO
    XH))))))))))))) :: (((Zpos (XO (XI (XO (XO (XI (XI (XO (XI (XI (XO (XO
    XH)))))))))))), (Zpos (XO (XI (XO (XO (XI (XI (XO (XI (XI (XO (XO
    XH))))))))))))) :: (((Zpos (XO (XI (XI (XO (XI (XI (XO (XI (XI (XO (XO
    XH)))))))))))), (Zpos (XI (XO (XO (XI (XI (XI (XO (XI (XI (XO (XO
    XH))))))))))))) :: (((Zpos (XI (XO (XI (XI (XI (XI (XO (XI (XI (XO (XO
    XH)))))))))))), (Zpos (XI (XO (XI (XI (XI (XI (XO (XI (XI (XO (XO
    XH))))))))))))) :: (((Zpos (XO (XI (XI (XI (XO (XO (XI (XI (XI (XO (XO
    XH)))))))))))), (Zpos (XO (XI (XI (XI (XO (XO (XI (XI (XI (XO (XO
    XH))))))))))))) :: (((Zpos (XO (XO (XI (XI (XI (XO (XI (XI (XI (XO (XO
    XH)))))))))))), (Zpos (XI (XO (XI (XI (XI (XO (XI (XI (XI (XO (XO
    XH))))))))))))) :: (((Zpos (XI (XI (XI (XI (XI (XO (XI (XI (XI (XO (XO
    XH)))))))))))), (Zpos (XI (XO (XO (XO (XO (XI (XI (XI (XI (XO (XO
    XH))))))))))))) :: (((Zpos (XO (XO (XO (XO (XI (XI (XI (XI (XI (XO (XO
    XH)))))))))))), (Zpos (XI (XO (XO (XO (XI (XI (XI (XI (XI (XO (XO
    XH))))))))))))) :: (((Zpos (XO (XO (XI (XI (XI (XI (XI (XI (XI (XO (XO
    XH)))))))))))), (Zpos (XO (XO (XI (XI (XI (XI (XI (XI (XI (XO (XO
    XH))))))))))))) :: (((Zpos (XI (XO (XI (XO (XO (XO (XO (XO (XO (XI (XO
    XH)))))))))))), (Zpos (XO (XI (XO (XI (XO (XO (XO (XO (XO (XI (XO
    XH))))))))))))) :: (((Zpos (XI (XI (XI (XI (XO (XO (XO (XO (XO (XI (XO
    XH)))))))))))), (Zpos (XO (XO (XO (XO (XI (XO (XO (XO (XO (XI (XO
    XH))))))))))))) :: (((Zpos (XI (XI (XO (XO (XI (XO (XO (XO (XO (XI (XO
    XH)))))))))))), (Zpos (XO (XO (XO (XI (XO (XI (XO (XO (XO (XI (XO
    XH))))))))))))) :: []))))))))))))))))))))))))) :: ((((Zpos (XO (XI (XO
    (XI (XO (XI (XO (XO (XO (XI (XO XH)))))))))))), (Zpos (XI (XO (XI (XI (XI
    (XI (XO (XO (XI (XI (XO XH))))))))))))), (((Zpos (XO (XI (XO (XI (XO (XI
    (XO (XO (XO (XI (XO XH)))))))))))), (Zpos (XO (XO (XO (XO (XI (XI (XO (XO
    (XO (XI (XO XH))))))))))))) :: (((Zpos (XO (XI (XO (XO (XI (XI (XO (XO
    (XO (XI (XO XH)))))))))))), (Zpos (XI (XI (XO (XO (XI (XI (XO (XO (XO (XI
    (XO XH))))))))))))) :: (((Zpos (XI (XO (XI (XO (XI (XI (XO (XO (XO (XI
    (XO XH)))))))))))), (Zpos (XO (XI (XI (XO (XI (XI (XO (XO (XO (XI (XO
    XH))))))))))))) :: (((Zpos (XO (XO (XO (XI (XI (XI (XO (XO (XO (XI (XO
    XH)))))))))))), (Zpos (XI (XO (XO (XI (XI (XI (XO (XO (XO (XI (XO
    XH))))))))))))) :: (((Zpos (XI (XO (XO (XI (XI (XO (XI (XO (XO (XI (XO
    XH)))))))))))), (Zpos (XO (XO (XI (XI (XI (XO (XI (XO (XO (XI (XO
    XH))))))))))))) :: (((Zpos (XO (XI (XI (XI (XI (XO (XI (XO (XO (XI (XO
    XH)))))))))))), (Zpos (XO (XI (XI (XI (XI (XO (XI (XO (XO (XI (XO
    XH))))))))))))) :: (((Zpos (XO (XI (XO (XO (XI (XI (XI (XO (XO (XI (XO
    XH)))))))))))), (Zpos (XO (XO (XI (XO (XI (XI (XI (XO (XO (XI (XO
    XH))))))))))))) :: (((Zpos (XI (XO (XI (XO (XO (XO (XO (XI (XO (XI (XO
    XH)))))))))))), (Zpos (XI (XO (XI (XI (XO (XO (XO (XI (XO (XI (XO
    XH))))))))))))) :: (((Zpos (XI (XI (XI (XI (XO (XO (XO (XI (XO (XI (XO
    XH)))))))))))), (Zpos (XI (XO (XO (XO (XI (XO (XO (XI (XO (XI (XO
    XH))))))))))))) :: (((Zpos (XI (XI (XO (XO (XI (XO (XO (XI (XO (XI (XO
    XH)))))))))))), (Zpos (XO (XO (XO (XI (XO (XI (XO (XI (XO (XI (XO
    XH))))))))))))) :: (((Zpos (XO (XI (XO (XI (XO (XI (XO (XI (XO (XI (XO
    XH)))))))))))), (Zpos (XO (XO (XO (XO (XI (XI (XO (XI (XO (XI (XO
    XH))))))))))))) :: (((Zpos (XO (XI (XO (XO (XI (XI (XO (XI (XO (XI (XO
    XH)))))))))))), (Zpos (XI (XI (XO (XO (XI (XI (XO (XI (XO (XI (XO
    XH))))))))))))) :: (((Zpos (XI (XO (XI (XO (XI (XI (XO (XI (XO (XI (XO
    XH)))))))))))), (Zpos (XI (XO (XO (XI (XI (XI (XO (XI (XO (XI (XO
    XH))))))))))))) :: (((Zpos (XI (XO (XI (XI (XI (XI (XO (XI (XO (XI (XO
    XH)))))))))))), (Zpos (XI (XO (XI (XI (XI (XI (XO (XI (XO (XI (XO
    XH))))))))))))) :: (((Zpos (XO (XO (XO (XO (XI (XO (XI (XI (XO (XI (XO
    XH)))))))))))), (Zpos (XO (XO (XO (XO (XI (XO (XI (XI (XO (XI (XO
    XH))))))))))))) :: (((Zpos (XO (XO (XO (XO (XO (XI (XI (XI (XO (XI (XO
    XH)))))))))))), (Zpos (XI (XO (XO (XO (XO (XI (XI (XI (XO (XI (XO
    XH))))))))))))) :: (((Zpos (XI (XO (XO (XI (XI (XI (XI (XI (XO (XI (XO
    XH)))))))))))), (Zpos (XI (XO (XO (XI (XI (XI (XI (XI (XO (XI (XO
    XH))))))))))))) :: (((Zpos (XI (XO (XI (XO (XO (XO (XO (XO (XI (XI (XO
    XH)))))))))))), (Zpos (XO (XO (XI (XI (XO (XO (XO (XO (XI (XI (XO
    XH))))))))))))) :: (((Zpos (XI (XI (XI (XI (XO (XO (XO (XO (XI (XI (XO
    XH)))))))))))), (Zpos (XO (XO (XO (XO (XI (XO (XO (XO (XI (XI (XO
    XH))))))))))))) :: (((Zpos (XI (XI (XO (XO (XI (XO (XO (XO (XI (XI (XO
    XH)))))))))))), (Zpos (XO (XO (XO (XI (XO (XI (XO (XO (XI (XI (XO
    XH))))))))))))) :: (((Zpos (XO (XI (XO (XI (XO (XI (XO (XO (XI (XI (XO
    XH)))))))))))), (Zpos (XO (XO (XO (XO (XI (XI (XO (XO (XI (XI (XO
    XH))))))))))))) :: (((Zpos (XO (XI (XO (XO (XI (XI (XO (XO (XI (XI (XO
    XH)))))))))))), (Zpos (XI (XI (XO (XO (XI (XI (XO (XO (XI (XI (XO
    XH))))))))))))) :: (((Zpos (XI (XO (XI (XO (XI (XI (XO (XO (XI (XI (XO
    XH)))))))))))), (Zpos (XI (XO (XO (XI (XI (XI (XO (XO (XI (XI (XO
    XH))))))))))))) :: (((Zpos (XI (XO (XI (XI (XI (XI (XO (XO (XI (XI (XO
    XH)))))))))))), (Zpos (XI (XO (XI (XI (XI (XI (XO (XO (XI (XI (XO
    XH))))))))))))) :: []))))))))))))))))))))))))) :: ((((Zpos (XO (XO (XI
    (XI (XI (XO (XI (XO (XI (XI (XO XH)))))))))))), (Zpos (XO (XO (XI (XI (XO
    (XO (XO (XI (XO (XO (XI XH))))))))))))), (((Zpos (XO (XO (XI (XI (XI (XO
    (XI (XO (XI (XI (XO XH)))))))))))), (Zpos (XI (XO (XI (XI (XI (XO (XI (XO
    (XI (XI (XO XH))))))))))))) :: (((Zpos (XI (XI (XI (XI (XI (XO (XI (XO
    (XI (XI (XO XH)))))))))))), (Zpos (XI (XO (XO (XO (XO (XI (XI (XO (XI (XI
    (XO XH))))))))))))) :: (((Zpos (XI (XO (XO (XO (XI (XI (XI (XO (XI (XI
    (XO XH)))))))))))), (Zpos (XI (XO (XO (XO (XI (XI (XI (XO (XI (XI (XO
    XH))))))))))))) :: (((Zpos (XI (XI (XO (XO (XO (XO (XO (XI (XI (XI (XO
    XH)))))))))))), (Zpos (XI (XI (XO (XO (XO (XO (XO (XI (XI (XI (XO
    XH))))))))))))) :: (((Zpos (XI (XO (XI (XO (XO (XO (XO (XI (XI (XI (XO
    XH)))))))))))), (Zpos (XO (XI (XO (XI (XO (XO (XO (XI (XI (XI (XO
    XH))))))))))))) :: (((Zpos (XO (XI (XI (XI (XO (XO (XO (XI (XI (XI (XO
    XH)))))))))))), (Zpos (XO (XO (XO (XO (XI (XO (XO (XI (XI (XI (XO
    XH))))))))))))) :: (((Zpos (XO (XI (XO (XO (XI (XO (XO (XI (XI (XI (XO
    XH)))))))))))), (Zpos (XI (XO (XI (XO (XI (XO (XO (XI (XI (XI (XO
    XH))))))))))))) :: (((Zpos (XI (XO (XO (XI (XI (XO (XO (XI (XI (XI (XO
    XH)))))))))))), (Zpos (XO (XI (XO (XI (XI (XO (XO (XI (XI (XI (XO
    XH))))))))))))) :: (((Zpos (XO (XO (XI (XI (XI (XO (XO (XI (XI (XI (XO
    XH)))))))))))), (Zpos (XO (XO (XI (XI (XI (XO (XO (XI (XI (XI (XO
    XH))))))))))))) :: (((Zpos (XO (XI (XI (XI (XI (XO (XO (XI (XI (XI (XO
    XH)))))))))))), (Zpos (XI (XI (XI (XI (XI (XO (XO (XI (XI (XI (XO
    XH))))))))))))) :: (((Zpos (XI (XI (XO (XO (XO (XI (XO (XI (XI (XI (XO
    XH)))))))))))), (Zpos (XO (XO (XI (XO (XO (XI (XO (XI (XI (XI (XO
    XH))))))))))))) :: (((Zpos (XO (XO (XO (XI (XO (XI (XO (XI (XI (XI (XO
    XH)))))))))))), (Zpos (XO (XI (XO (XI (XO (XI (XO (XI (XI (XI (XO
    XH))))))))))))) :: (((Zpos (XO (XI (XI (XI (XO (XI (XO (XI (XI (XI (XO
    XH)))))))))))), (Zpos (XI (XO (XO (XI (XI (XI (XO (XI (XI (XI (XO
    XH))))))))))))) :: (((Zpos (XO (XO (XO (XO (XI (XO (XI (XI (XI (XI (XO
    XH)))))))))))), (Zpos (XO (XO (XO (XO (XI (XO (XI (XI (XI (XI (XO
    XH))))))))))))) :: (((Zpos (XI (XO (XI (XO (XO (XO (XO (XO (XO (XO (XI
    XH)))))))))))), (Zpos (XO (XO (XI (XI (XO (XO (XO (XO (XO (XO (XI
    XH))))))))))))) :: (((Zpos (XO (XI (XI (XI (XO (XO (XO (XO (XO (XO (XI
    XH)))))))))))), (Zpos (XO (XO (XO (XO (XI (XO (XO (XO (XO (XO (XI
    XH))))))))))))) :: (((Zpos (XO (XI (XO (XO (XI (XO (XO (XO (XO (XO (XI
    XH)))))))))))), (Zpos (XO (XO (XO (XI (XO (XI (XO (XO (XO (XO (XI
    XH))))))))))))) :: (((Zpos (XO (XI (XO (XI (XO (XI (XO (XO (XO (XO (XI
    XH)))))))))))), (Zpos (XI (XO (XO (XI (XI (XI (XO (XO (XO (XO (XI
    XH))))))))))))) :: (((Zpos (XI (XO (XI (XI (XI (XI (XO (XO (XO (XO (XI
    XH)))))))))))), (Zpos (XI (XO (XI (XI (XI (XI (XO (XO (XO (XO (XI
    XH))))))))))))) :: (((Zpos (XO (XO (XO (XI (XI (XO (XI (XO (XO (XO (XI
    XH)))))))))))), (Zpos (XO (XI (XO (XI (XI (XO (XI (XO (XO (XO (XI
    XH))))))))))))) :: (((Zpos (XI (XO (XI (XI (XI (XO (XI (XO (XO (XO (XI
    XH)))))))))))), (Zpos (XI (XO (XI (XI (XI (XO (XI (XO (XO (XO (XI
    XH))))))))))))) :: (((Zpos (XO (XO (XO (XO (XO (XI (XI (XO (XO (XO (XI
    XH)))))))))))), (Zpos (XI (XO (XO (XO (XO (XI (XI (XO (XO (XO (XI
    XH))))))))))))) :: (((Zpos (XO (XO (XO (XO (XO (XO (XO (XI (XO (XO (XI
    XH)))))))))))), (Zpos (XO (XO (XO (XO (XO (XO (XO (XI (XO (XO (XI
    XH))))))))))))) :: (((Zpos (XI (XO (XI (XO (XO (XO (XO (XI (XO (XO (XI
    XH)))))))))))), (Zpos (XO (XO (XI (XI (XO (XO (XO (XI (XO (XO (XI
    XH))))))))))))) :: []))))))))))))))))))))))))) :: ((((Zpos (XO (XI (XI
    (XI (XO (XO (XO (XI (XO (XO (XI XH)))))))))))), (Zpos (XO (XI (XI (XO (XO
    (XO (XI (XO (XO (XI (XI XH))))))))))))), (((Zpos (XO (XI (XI (XI (XO (XO
    (XO (XI (XO (XO (XI XH)))))))))))), (Zpos (XO (XO (XO (XO (XI (XO (XO (XI
    (XO (XO (XI XH))))))))))))) :: (((Zpos (XO (XI (XO (XO (XI (XO (XO (XI
    (XO (XO (XI XH)))))))))))), (Zpos (XO (XO (XO (XI (XO (XI (XO (XI (XO (XO
    (XI XH))))))))))))) :: (((Zpos (XO (XI (XO (XI (XO (XI (XO (XI (XO (XO
    (XI XH)))))))))))), (Zpos (XI (XI (XO (XO (XI (XI (XO (XI (XO (XO (XI
    XH))))))))))))) :: (((Zpos (XI (XO (XI (XO (XI (XI (XO (XI (XO (XO (XI
    XH)))))))))))), (Zpos (XI (XO (XO (XI (XI (XI (XO (XI (XO (XO (XI
    XH))))))))))))) :: (((Zpos (XI (XO (XI (XI (XI (XI (XO (XI (XO (XO (XI
    XH)))))))))))), (Zpos (XI (XO (XI (XI (XI (XI (XO (XI (XO (XO (XI
    XH))))))))))))) :: (((Zpos (XI (XO (XI (XI (XI (XO (XI (XI (XO (XO (XI
    XH)))))))))))), (Zpos (XO (XI (XI (XI (XI (XO (XI (XI (XO (XO (XI
    XH))))))))))))) :: (((Zpos (XO (XO (XO (XO (XO (XI (XI (XI (XO (XO (XI
    XH)))))))))))), (Zpos (XI (XO (XO (XO (XO (XI (XI (XI (XO (XO (XI
    XH))))))))))))) :: (((Zpos (XI (XO (XO (XO (XI (XI (XI (XI (XO (XO (XI
    XH)))))))))))), (Zpos (XO (XI (XO (XO (XI (XI (XI (XI (XO (XO (XI
    XH))))))))))))) :: (((Zpos (XO (XO (XI (XO (XO (XO (XO (XO (XI (XO (XI
    XH)))))))))))), (Zpos (XO (XO (XI (XI (XO (XO (XO (XO (XI (XO (XI
    XH))))))))))))) :: (((Zpos (XO (XI (XI (XI (XO (XO (XO (XO (XI (XO (XI
    XH)))))))))))), (Zpos (XO (XO (XO (XO (XI (XO (XO (XO (XI (XO (XI
    XH))))))))))))) :: (((Zpos (XO (XI (XO (XO (XI (XO (XO (XO (XI (XO (XI
    XH)))))))))))), (Zpos (XO (XI (XO (XI (XI (XI (XO (XO (XI (XO (XI
    XH))))))))))))) :: (((Zpos (XI (XO (XI (XI (XI (XI (XO (XO (XI (XO (XI
    XH)))))))))))), (Zpos (XI (XO (XI (XI (XI (XI (XO (XO (XI (XO (XI
    XH))))))))))))) :: (((Zpos (XO (XI (XI (XI (XO (XO (XI (XO (XI (XO (XI
    XH)))))))))))), (Zpos (XO (XI (XI (XI (XO (XO (XI (XO (XI (XO (XI
    XH))))))))))))) :: (((Zpos (XO (XO (XI (XO (XI (XO (XI (XO (XI (XO (XI
    XH)))))))))))), (Zpos (XO (XI (XI (XO (XI (XO (XI (XO (XI (XO (XI
    XH))))))))))))) :: (((Zpos (XI (XI (XI (XI (XI (XO (XI (XO (XI (XO (XI
    XH)))))))))))), (Zpos (XI (XO (XO (XO (XO (XI (XI (XO (XI (XO (XI
    XH))))))))))))) :: (((Zpos (XO (XI (XO (XI (XI (XI (XI (XO (XI (XO (XI
    XH)))))))))))), (Zpos (XI (XI (XI (XI (XI (XI (XI (XO (XI (XO (XI
    XH))))))))))))) :: (((Zpos (XI (XO (XI (XO (XO (XO (XO (XI (XI (XO (XI
    XH)))))))))))), (Zpos (XO (XI (XI (XO (XI (XO (XO (XI (XI (XO (XI
    XH))))))))))))) :: (((Zpos (XO (XI (XO (XI (XI (XO (XO (XI (XI (XO (XI
    XH)))))))))))), (Zpos (XI (XO (XO (XO (XI (XI (XO (XI (XI (XO (XI
    XH))))))))))))) :: (((Zpos (XI (XI (XO (XO (XI (XI (XO (XI (XI (XO (XI
    XH)))))))))))), (Zpos (XI (XI (XO (XI (XI (XI (XO (XI (XI (XO (XI
    XH))))))))))))) :: (((Zpos (XI (XO (XI (XI (XI (XI (XO (XI (XI (XO (XI
    XH)))))))))))), (Zpos (XI (XO (XI (XI (XI (XI (XO (XI (XI (XO (XI
    XH))))))))))))) :: (((Zpos (XO (XO (XO (XO (XO (XO (XI (XI (XI (XO (XI
    XH)))))))))))), (Zpos (XO (XI (XI (XO (XO (XO (XI (XI (XI (XO (XI
    XH))))))))))))) :: (((Zpos (XI (XO (XO (XO (XO (XO (XO (XO (XO (XI (XI
    XH)))))))))))), (Zpos (XO (XO (XO (XO (XI (XI (XO (XO (XO (XI (XI
    XH))))))))))))) :: (((Zpos (XO (XI (XO (XO (XI (XI (XO (XO (XO (XI (XI
    XH)))))))))))), (Zpos (XO (XI (XO (XO (XI (XI (XO (XO (XO (XI (XI
    XH))))))))))))) :: (((Zpos (XO (XO (XO (XO (XO (XO (XI (XO (XO (XI (XI
    XH)))))))))))), (Zpos (XO (XI (XI (XO (XO (XO (XI (XO (XO (XI (XI
    XH))))))))))))) :: []))))))))))))))))))))))))) :: ((((Zpos (XI (XO (XO
    (XO (XO (XO (XO (XI (XO (XI (XI XH)))))))))))), (Zpos (XO (XI (XI (XI (XO
    (XO (XO (XI (XO (XO (XO (XO XH)))))))))))))), (((Zpos (XI (XO (XO (XO (XO
    (XO (XO (XI (XO (XI (XI XH)))))))))))), (Zpos (XO (XI (XO (XO (XO (XO (XO
    (XI (XO (XI (XI XH))))))))))))) :: (((Zpos (XO (XO (XI (XO (XO (XO (XO
    (XI (XO (XI (XI XH)))))))))))), (Zpos (XO (XO (XI (XO (XO (XO (XO (XI (XO
    (XI (XI XH))))))))))))) :: (((Zpos (XO (XI (XI (XO (XO (XO (XO (XI (XO
    (XI (XI XH)))))))))))), (Zpos (XO (XI (XO (XI (XO (XO (XO (XI (XO (XI (XI
    XH))))))))))))) :: (((Zpos (XO (XO (XI (XI (XO (XO (XO (XI (XO (XI (XI
    XH)))))))))))), (Zpos (XI (XI (XO (XO (XO (XI (XO (XI (XO (XI (XI
    XH))))))))))))) :: (((Zpos (XI (XO (XI (XO (XO (XI (XO (XI (XO (XI (XI
    XH)))))))))))), (Zpos (XI (XO (XI (XO (XO (XI (XO (XI (XO (XI (XI
    XH))))))))))))) :: (((Zpos (XI (XI (XI (XO (XO (XI (XO (XI (XO (XI (XI
    XH)))))))))))), (Zpos (XO (XO (XO (XO (XI (XI (XO (XI (XO (XI (XI
    XH))))))))))))) :: (((Zpos (XO (XI (XO (XO (XI (XI (XO (XI (XO (XI (XI
    XH)))))))))))), (Zpos (XO (XI (XO (XO (XI (XI (XO (XI (XO (XI (XI
    XH))))))))))))) :: (((Zpos (XI (XO (XI (XI (XI (XI (XO (XI (XO (XI (XI
    XH)))))))))))), (Zpos (XI (XO (XI (XI (XI (XI (XO (XI (XO (XI (XI
    XH))))))))))))) :: (((Zpos (XO (XO (XO (XO (XO (XO (XI (XI (XO (XI (XI
    XH)))))))))))), (Zpos (XO (XO (XI (XO (XO (XO (XI (XI (XO (XI (XI
    XH))))))))))))) :: (((Zpos (XO (XI (XI (XO (XO (XO (XI (XI (XO (XI (XI
    XH)))))))))))), (Zpos (XO (XI (XI (XO (XO (XO (XI (XI (XO (XI (XI
    XH))))))))))))) :: (((Zpos (XO (XO (XI (XI (XI (XO (XI (XI (XO (XI (XI
    XH)))))))))))), (Zpos (XI (XI (XI (XI (XI (XO (XI (XI (XO (XI (XI
    XH))))))))))))) :: (((Zpos (XO (XO (XO (XO (XO (XO (XO (XO (XI (XI (XI
    XH)))))))))))), (Zpos (XO (XO (XO (XO (XO (XO (XO (XO (XI (XI (XI
    XH))))))))))))) :: (((Zpos (XO (XO (XO (XO (XO (XO (XI (XO (XI (XI (XI
    XH)))))))))))), (Zpos (XI (XI (XI (XO (XO (XO (XI (XO (XI (XI (XI
    XH))))))))))))) :: (((Zpos (XI (XO (XO (XI (XO (XO (XI (XO (XI (XI (XI
    XH)))))))))))), (Zpos (XO (XO (XI (XI (XO (XI (XI (XO (XI (XI (XI
    XH))))))))))))) :: (((Zpos (XO (XO (XO (XI (XO (XO (XO (XI (XI (XI (XI
    XH)))))))))))), (Zpos (XO (XO (XI (XI (XO (XO (XO (XI (XI (XI (XI
    XH))))))))))))) :: (((Zpos (XO (XO (XO (XO (XO (XO (XO (XO (XO (XO (XO
    (XO XH))))))))))))), (Zpos (XO (XI (XO (XI (XO (XI (XO (XO (XO (XO (XO
    (XO XH)))))))))))))) :: (((Zpos (XI (XI (XI (XI (XI (XI (XO (XO (XO (XO
    (XO (XO XH))))))))))))), (Zpos (XI (XI (XI (XI (XI (XI (XO (XO (XO (XO
    (XO (XO XH)))))))))))))) :: (((Zpos (XO (XO (XO (XO (XI (XO (XI (XO (XO
    (XO (XO (XO XH))))))))))))), (Zpos (XI (XO (XI (XO (XI (XO (XI (XO (XO
    (XO (XO (XO XH)))))))))))))) :: (((Zpos (XO (XI (XO (XI (XI (XO (XI (XO
    (XO (XO (XO (XO XH))))))))))))), (Zpos (XI (XO (XI (XI (XI (XO (XI (XO
    (XO (XO (XO (XO XH)))))))))))))) :: (((Zpos (XI (XO (XO (XO (XO (XI (XI
    (XO (XO (XO (XO (XO XH))))))))))))), (Zpos (XI (XO (XO (XO (XO (XI (XI
    (XO (XO (XO (XO (XO XH)))))))))))))) :: (((Zpos (XI (XO (XI (XO (XO (XI
    (XI (XO (XO (XO (XO (XO XH))))))))))))), (Zpos (XO (XI (XI (XO (XO (XI
    (XI (XO (XO (XO (XO (XO XH)))))))))))))) :: (((Zpos (XO (XI (XI (XI (XO
    (XI (XI (XO (XO (XO (XO (XO XH))))))))))))), (Zpos (XO (XO (XO (XO (XI
    (XI (XI (XO (XO (XO (XO (XO XH)))))))))))))) :: (((Zpos (XI (XO (XI (XO
    (XI (XI (XI (XO (XO (XO (XO (XO XH))))))))))))), (Zpos (XI (XO (XO (XO
    (XO (XO (XO (XI (XO (XO (XO (XO XH)))))))))))))) :: (((Zpos (XO (XI (XI
    (XI (XO (XO (XO (XI (XO (XO (XO (XO XH))))))))))))), (Zpos (XO (XI (XI
    (XI (XO (XO (XO (XI (XO (XO (XO (XO
    XH)))))))))))))) :: []))))))))))))))))))))))))) :: ((((Zpos (XO (XO (XO
    (XO (XO (XI (XO (XI (XO (XO (XO (XO XH))))))))))))), (Zpos (XO (XO (XI
    (XI (XO (XI (XI (XO (XO (XI (XI (XO XH)))))))))))))), (((Zpos (XO (XO (XO
    (XO (XO (XI (XO (XI (XO (XO (XO (XO XH))))))))))))), (Zpos (XI (XO (XI
    (XO (XO (XO (XI (XI (XO (XO (XO (XO XH)))))))))))))) :: (((Zpos (XI (XI
    (XI (XO (XO (XO (XI (XI (XO (XO (XO (XO XH))))))))))))), (Zpos (XI (XI
    (XI (XO (XO (XO (XI (XI (XO (XO (XO (XO XH)))))))))))))) :: (((Zpos (XI
    (XO (XI (XI (XO (XO (XI (XI (XO (XO (XO (XO XH))))))))))))), (Zpos (XI
    (XO (XI (XI (XO (XO (XI (XI (XO (XO (XO (XO XH)))))))))))))) :: (((Zpos
    (XO (XO (XO (XO (XI (XO (XI (XI (XO (XO (XO (XO XH))))))))))))), (Zpos
    (XO (XI (XO (XI (XI (XI (XI (XI (XO (XO (XO (XO
    XH)))))))))))))) :: (((Zpos (XO (XO (XI (XI (XI (XI (XI (XI (XO (XO (XO
    (XO XH))))))))))))), (Zpos (XO (XO (XO (XI (XO (XO (XI (XO (XO (XI (XO
    (XO XH)))))))))))))) :: (((Zpos (XO (XI (XO (XI (XO (XO (XI (XO (XO (XI
    (XO (XO XH))))))))))))), (Zpos (XI (XO (XI (XI (XO (XO (XI (XO (XO (XI
    (XO (XO XH)))))))))))))) :: (((Zpos (XO (XO (XO (XO (XI (XO (XI (XO (XO
    (XI (XO (XO XH))))))))))))), (Zpos (XO (XI (XI (XO (XI (XO (XI (XO (XO
    (XI (XO (XO XH)))))))))))))) :: (((Zpos (XO (XO (XO (XI (XI (XO (XI (XO
    (XO (XI (XO (XO XH))))))))))))), (Zpos (XO (XO (XO (XI (XI (XO (XI (XO
    (XO (XI (XO (XO XH)))))))))))))) :: (((Zpos (XO (XI (XO (XI (XI (XO (XI
    (XO (XO (XI (XO (XO XH))))))))))))), (Zpos (XI (XO (XI (XI (XI (XO (XI
    (XO (XO (XI (XO (XO XH)))))))))))))) :: (((Zpos (XO (XO (XO (XO (XO (XI
    (XI (XO (XO (XI (XO (XO XH))))))))))))), (Zpos (XO (XO (XO (XI (XO (XO
    (XO (XI (XO (XI (XO (XO XH)))))))))))))) :: (((Zpos (XO (XI (XO (XI (XO
    (XO (XO (XI (XO (XI (XO (XO XH))))))))))))), (Zpos (XI (XO (XI (XI (XO
    (XO (XO (XI (XO (XI (XO (XO XH)))))))))))))) :: (((Zpos (XO (XO (XO (XO
    (XI (XO (XO (XI (XO (XI (XO (XO XH))))))))))))), (Zpos (XO (XO (XO (XO
    (XI (XI (XO (XI (XO (XI (XO (XO XH)))))))))))))) :: (((Zpos (XO (XI (XO
    (XO (XI (XI (XO (XI (XO (XI (XO (XO XH))))))))))))), (Zpos (XI (XO (XI
    (XO (XI (XI (XO (XI (XO (XI (XO (XO XH)))))))))))))) :: (((Zpos (XO (XO
    (XO (XI (XI (XI (XO (XI (XO (XI (XO (XO XH))))))))))))), (Zpos (XO (XI
    (XI (XI (XI (XI (XO (XI (XO (XI (XO (XO XH)))))))))))))) :: (((Zpos (XO
    (XO (XO (XO (XO (XO (XI (XI (XO (XI (XO (XO XH))))))))))))), (Zpos (XO
    (XO (XO (XO (XO (XO (XI (XI (XO (XI (XO (XO XH)))))))))))))) :: (((Zpos
    (XO (XI (XO (XO (XO (XO (XI (XI (XO (XI (XO (XO XH))))))))))))), (Zpos
    (XI (XO (XI (XO (XO (XO (XI (XI (XO (XI (XO (XO
    XH)))))))))))))) :: (((Zpos (XO (XO (XO (XI (XO (XO (XI (XI (XO (XI (XO
    (XO XH))))))))))))), (Zpos (XO (XI (XI (XO (XI (XO (XI (XI (XO (XI (XO
    (XO XH)))))))))))))) :: (((Zpos (XO (XO (XO (XI (XI (XO (XI (XI (XO (XI
    (XO (XO XH))))))))))))), (Zpos (XO (XO (XO (XO (XI (XO (XO (XO (XI (XI
    (XO (XO XH)))))))))))))) :: (((Zpos (XO (XI (XO (XO (XI (XO (XO (XO (XI
    (XI (XO (XO XH))))))))))))), (Zpos (XI (XO (XI (XO (XI (XO (XO (XO (XI
    (XI (XO (XO XH)))))))))))))) :: (((Zpos (XO (XO (XO (XI (XI (XO (XO (XO
    (XI (XI (XO (XO XH))))))))))))), (Zpos (XO (XI (XO (XI (XI (XO (XI (XO
    (XI (XI (XO (XO XH)))))))))))))) :: (((Zpos (XO (XO (XO (XO (XO (XO (XO
    (XI (XI (XI (XO (XO XH))))))))))))), (Zpos (XI (XI (XI (XI (XO (XO (XO
    (XI (XI (XI (XO (XO XH)))))))))))))) :: (((Zpos (XO (XO (XO (XO (XO (XI
    (XO (XI (XI (XI (XO (XO XH))))))))))))), (Zpos (XI (XO (XI (XO (XI (XI
    (XI (XI (XI (XI (XO (XO XH)))))))))))))) :: (((Zpos (XO (XO (XO (XI (XI
    (XI (XI (XI (XI (XI (XO (XO XH))))))))))))), (Zpos (XI (XO (XI (XI (XI
    (XI (XI (XI (XI (XI (XO (XO XH)))))))))))))) :: (((Zpos (XI (XO (XO (XO
    (XO (XO (XO (XO (XO (XO (XI (XO XH))))))))))))), (Zpos (XO (XO (XI (XI
    (XO (XI (XI (XO (XO (XI (XI (XO
    XH)))))))))))))) :: []))))))))))))))))))))))))) :: ((((Zpos (XI (XI (XI
    (XI (XO (XI (XI (XO (XO (XI (XI (XO XH))))))))))))), (Zpos (XI (XI (XI
    (XO (XO (XI (XO (XI (XO (XI (XO (XI XH)))))))))))))), (((Zpos (XI (XI (XI
    (XI (XO (XI (XI (XO (XO (XI (XI (XO XH))))))))))))), (Zpos (XI (XI (XI
    (XI (XI (XI (XI (XO (XO (XI (XI (XO XH)))))))))))))) :: (((Zpos (XI (XO
    (XO (XO (XO (XO (XO (XI (XO (XI (XI (XO XH))))))))))))), (Zpos (XO (XI
    (XO (XI (XI (XO (XO (XI (XO (XI (XI (XO XH)))))))))))))) :: (((Zpos (XO
    (XO (XO (XO (XO (XI (XO (XI (XO (XI (XI (XO XH))))))))))))), (Zpos (XO
    (XI (XO (XI (XO (XI (XI (XI (XO (XI (XI (XO XH)))))))))))))) :: (((Zpos
    (XO (XI (XI (XI (XO (XI (XI (XI (XO (XI (XI (XO XH))))))))))))), (Zpos
    (XO (XO (XO (XI (XI (XI (XI (XI (XO (XI (XI (XO
    XH)))))))))))))) :: (((Zpos (XO (XO (XO (XO (XO (XO (XO (XO (XI (XI (XI
    (XO XH))))))))))))), (Zpos (XI (XO (XO (XO (XI (XO (XO (XO (XI (XI (XI
    (XO XH)))))))))))))) :: (((Zpos (XI (XI (XI (XI (XI (XO (XO (XO (XI (XI
    (XI (XO XH))))))))))))), (Zpos (XI (XO (XO (XO (XI (XI (XO (XO (XI (XI
    (XI (XO XH)))))))))))))) :: (((Zpos (XO (XO (XO (XO (XO (XO (XI (XO (XI
    (XI (XI (XO XH))))))))))))), (Zpos (XI (XO (XO (XO (XI (XO (XI (XO (XI
    (XI (XI (XO XH)))))))))))))) :: (((Zpos (XO (XO (XO (XO (XO (XI (XI (XO
    (XI (XI (XI (XO XH))))))))))))), (Zpos (XO (XO (XI (XI (XO (XI (XI (XO
    (XI (XI (XI (XO XH)))))))))))))) :: (((Zpos (XO (XI (XI (XI (XO (XI (XI
    (XO (XI (XI (XI (XO XH))))))))))))), (Zpos (XO (XO (XO (XO (XI (XI (XI
    (XO (XI (XI (XI (XO XH)))))))))))))) :: (((Zpos (XO (XO (XO (XO (XO (XO
    (XO (XI (XI (XI (XI (XO XH))))))))))))), (Zpos (XI (XI (XO (XO (XI (XI
    (XO (XI (XI (XI (XI (XO XH)))))))))))))) :: (((Zpos (XI (XI (XI (XO (XI
    (XO (XI (XI (XI (XI (XI (XO XH))))))))))))), (Zpos (XI (XI (XI (XO (XI
    (XO (XI (XI (XI (XI (XI (XO XH)))))))))))))) :: (((Zpos (XO (XO (XI (XI
    (XI (XO (XI (XI (XI (XI (XI (XO XH))))))))))))), (Zpos (XO (XO (XI (XI
    (XI (XO (XI (XI (XI (XI (XI (XO XH)))))))))))))) :: (((Zpos (XO (XO (XO
    (XO (XO (XI (XO (XO (XO (XO (XO (XI XH))))))))))))), (Zpos (XO (XO (XO
    (XI (XI (XI (XI (XO (XO (XO (XO (XI XH)))))))))))))) :: (((Zpos (XO (XO
    (XO (XO (XO (XO (XO (XI (XO (XO (XO (XI XH))))))))))))), (Zpos (XO (XO
    (XO (XI (XO (XI (XO (XI (XO (XO (XO (XI XH)))))))))))))) :: (((Zpos (XO
    (XI (XO (XI (XO (XI (XO (XI (XO (XO (XO (XI XH))))))))))))), (Zpos (XO
    (XI (XO (XI (XO (XI (XO (XI (XO (XO (XO (XI XH)))))))))))))) :: (((Zpos
    (XO (XO (XO (XO (XI (XI (XO (XI (XO (XO (XO (XI XH))))))))))))), (Zpos
    (XI (XO (XI (XO (XI (XI (XI (XI (XO (XO (XO (XI
    XH)))))))))))))) :: (((Zpos (XO (XO (XO (XO (XO (XO (XO (XO (XI (XO (XO
    (XI XH))))))))))))), (Zpos (XO (XI (XI (XI (XI (XO (XO (XO (XI (XO (XO
    (XI XH)))))))))))))) :: (((Zpos (XO (XO (XO (XO (XI (XO (XI (XO (XI (XO
    (XO (XI XH))))))))))))), (Zpos (XI (XO (XI (XI (XO (XI (XI (XO (XI (XO
    (XO (XI XH)))))))))))))) :: (((Zpos (XO (XO (XO (XO (XI (XI (XI (XO (XI
    (XO (XO (XI XH))))))))))))), (Zpos (XO (XO (XI (XO (XI (XI (XI (XO (XI
    (XO (XO (XI XH)))))))))))))) :: (((Zpos (XO (XO (XO (XO (XO (XO (XO (XI
    (XI (XO (XO (XI XH))))))))))))), (Zpos (XI (XI (XO (XI (XO (XI (XO (XI
    (XI (XO (XO (XI XH)))))))))))))) :: (((Zpos (XO (XO (XO (XO (XI (XI (XO
    (XI (XI (XO (XO (XI XH))))))))))))), (Zpos (XI (XO (XO (XI (XO (XO (XI
    (XI (XI (XO (XO (XI XH)))))))))))))) :: (((Zpos (XO (XO (XO (XO (XO (XO
    (XO (XO (XO (XI (XO (XI XH))))))))))))), (Zpos (XO (XI (XI (XO (XI (XO
    (XO (XO (XO (XI (XO (XI XH)))))))))))))) :: (((Zpos (XO (XO (XO (XO (XO
    (XI (XO (XO (XO (XI (XO (XI XH))))))))))))), (Zpos (XO (XO (XI (XO (XI
    (XO (XI (XO (XO (XI (XO (XI XH)))))))))))))) :: (((Zpos (XI (XI (XI (XO
    (XO (XI (XO (XI (XO (XI (XO (XI XH))))))))))))), (Zpos (XI (XI (XI (XO
    (XO (XI (XO (XI (XO (XI (XO (XI
    XH)))))))))))))) :: []))))))))))))))))))))))))) :: ((((Zpos (XI (XO (XI
    (XO (XO (XO (XO (XO (XI (XI (XO (XI XH))))))))))))), (Zpos (XI (XO (XI
    (XI (XI (XO (XI (XO (XI (XI (XI (XI XH)))))))))))))), (((Zpos (XI (XO (XI
    (XO (XO (XO (XO (XO (XI (XI (XO (XI XH))))))))))))), (Zpos (XI (XI (XO
    (XO (XI (XI (XO (XO (XI (XI (XO (XI XH)))))))))))))) :: (((Zpos (XI (XO
    (XI (XO (XO (XO (XI (XO (XI (XI (XO (XI XH))))))))))))), (Zpos (XO (XO
    (XI (XI (XO (XO (XI (XO (XI (XI (XO (XI XH)))))))))))))) :: (((Zpos (XI
    (XI (XO (XO (XO (XO (XO (XI (XI (XI (XO (XI XH))))))))))))), (Zpos (XO
    (XO (XO (XO (XO (XI (XO (XI (XI (XI (XO (XI XH)))))))))))))) :: (((Zpos
    (XO (XI (XI (XI (XO (XI (XO (XI (XI (XI (XO (XI XH))))))))))))), (Zpos
    (XI (XI (XI (XI (XO (XI (XO (XI (XI (XI (XO (XI
    XH)))))))))))))) :: (((Zpos (XO (XI (XO (XI (XI (XI (XO (XI (XI (XI (XO
    (XI XH))))))))))))), (Zpos (XI (XO (XI (XO (XO (XI (XI (XI (XI (XI (XO
    (XI XH)))))))))))))) :: (((Zpos (XO (XO (XO (XO (XO (XO (XO (XO (XO (XO
    (XI (XI XH))))))))))))), (Zpos (XI (XI (XO (XO (XO (XI (XO (XO (XO (XO
    (XI (XI XH)))))))))))))) :: (((Zpos (XI (XO (XI (XI (XO (XO (XI (XO (XO
    (XO (XI (XI XH))))))))))))), (Zpos (XI (XI (XI (XI (XO (XO (XI (XO (XO
    (XO (XI (XI XH)))))))))))))) :: (((Zpos (XO (XI (XO (XI (XI (XO (XI (XO
    (XO (XO (XI (XI XH))))))))))))), (Zpos (XI (XO (XI (XI (XI (XI (XI (XO
    (XO (XO (XI (XI XH)))))))))))))) :: (((Zpos (XO (XO (XO (XO (XO (XO (XO
    (XI (XO (XO (XI (XI XH))))))))))))), (Zpos (XO (XO (XO (XI (XO (XO (XO
    (XI (XO (XO (XI (XI XH)))))))))))))) :: (((Zpos (XO (XO (XO (XO (XI (XO
    (XO (XI (XO (XO (XI (XI XH))))))))))))), (Zpos (XO (XI (XO (XI (XI (XI
    (XO (XI (XO (XO (XI (XI XH)))))))))))))) :: (((Zpos (XI (XO (XI (XI (XI
    (XI (XO (XI (XO (XO (XI (XI XH))))))))))))), (Zpos (XI (XI (XI (XI (XI
    (XI (XO (XI (XO (XO (XI (XI XH)))))))))))))) :: (((Zpos (XI (XO (XO (XI
    (XO (XI (XI (XI (XO (XO (XI (XI XH))))))))))))), (Zpos (XO (XO (XI (XI
    (XO (XI (XI (XI (XO (XO (XI (XI XH)))))))))))))) :: (((Zpos (XO (XI (XI
    (XI (XO (XI (XI (XI (XO (XO (XI (XI XH))))))))))))), (Zpos (XI (XI (XO
    (XO (XI (XI (XI (XI (XO (XO (XI (XI XH)))))))))))))) :: (((Zpos (XI (XO
    (XI (XO (XI (XI (XI (XI (XO (XO (XI (XI XH))))))))))))), (Zpos (XO (XI
    (XI (XO (XI (XI (XI (XI (XO (XO (XI (XI XH)))))))))))))) :: (((Zpos (XO
    (XI (XO (XI (XI (XI (XI (XI (XO (XO (XI (XI XH))))))))))))), (Zpos (XO
    (XI (XO (XI (XI (XI (XI (XI (XO (XO (XI (XI XH)))))))))))))) :: (((Zpos
    (XO (XO (XO (XO (XO (XO (XO (XO (XI (XO (XI (XI XH))))))))))))), (Zpos
    (XI (XI (XI (XI (XI (XI (XO (XI (XI (XO (XI (XI
    XH)))))))))))))) :: (((Zpos (XO (XO (XO (XO (XO (XO (XO (XO (XO (XI (XI
    (XI XH))))))))))))), (Zpos (XI (XO (XI (XO (XI (XO (XO (XO (XI (XI (XI
    (XI XH)))))))))))))) :: (((Zpos (XO (XO (XO (XI (XI (XO (XO (XO (XI (XI
    (XI (XI XH))))))))))))), (Zpos (XI (XO (XI (XI (XI (XO (XO (XO (XI (XI
    (XI (XI XH)))))))))))))) :: (((Zpos (XO (XO (XO (XO (XO (XI (XO (XO (XI
    (XI (XI (XI XH))))))))))))), (Zpos (XI (XO (XI (XO (XO (XO (XI (XO (XI
    (XI (XI (XI XH)))))))))))))) :: (((Zpos (XO (XO (XO (XI (XO (XO (XI (XO
    (XI (XI (XI (XI XH))))))))))))), (Zpos (XI (XO (XI (XI (XO (XO (XI (XO
    (XI (XI (XI (XI XH)))))))))))))) :: (((Zpos (XO (XO (XO (XO (XI (XO (XI
    (XO (XI (XI (XI (XI XH))))))))))))), (Zpos (XI (XI (XI (XO (XI (XO (XI
    (XO (XI (XI (XI (XI XH)))))))))))))) :: (((Zpos (XI (XO (XO (XI (XI (XO
    (XI (XO (XI (XI (XI (XI XH))))))))))))), (Zpos (XI (XO (XO (XI (XI (XO
    (XI (XO (XI (XI (XI (XI XH)))))))))))))) :: (((Zpos (XI (XI (XO (XI (XI
    (XO (XI (XO (XI (XI (XI (XI XH))))))))))))), (Zpos (XI (XI (XO (XI (XI
    (XO (XI (XO (XI (XI (XI (XI XH)))))))))))))) :: (((Zpos (XI (XO (XI (XI
    (XI (XO (XI (XO (XI (XI (XI (XI XH))))))))))))), (Zpos (XI (XO (XI (XI
    (XI (XO (XI (XO (XI (XI (XI (XI
    XH)))))))))))))) :: []))))))))))))))))))))))))) :: ((((Zpos (XI (XI (XI
    (XI (XI (XO (XI (XO (XI (XI (XI (XI XH))))))))))))), (Zpos (XI (XI (XI
    (XI (XI (XI (XO (XO (XI (XO (XO (XO (XO XH))))))))))))))), (((Zpos (XI
    (XI (XI (XI (XI (XO (XI (XO (XI (XI (XI (XI XH))))))))))))), (Zpos (XI
    (XO (XI (XI (XI (XI (XI (XO (XI (XI (XI (XI XH)))))))))))))) :: (((Zpos
    (XO (XO (XO (XO (XO (XO (XO (XI (XI (XI (XI (XI XH))))))))))))), (Zpos
    (XO (XO (XI (XO (XI (XI (XO (XI (XI (XI (XI (XI
    XH)))))))))))))) :: (((Zpos (XO (XI (XI (XO (XI (XI (XO (XI (XI (XI (XI
    (XI XH))))))))))))), (Zpos (XO (XO (XI (XI (XI (XI (XO (XI (XI (XI (XI
    (XI XH)))))))))))))) :: (((Zpos (XO (XI (XI (XI (XI (XI (XO (XI (XI (XI
    (XI (XI XH))))))))))))), (Zpos (XO (XI (XI (XI (XI (XI (XO (XI (XI (XI
    (XI (XI XH)))))))))))))) :: (((Zpos (XO (XI (XO (XO (XO (XO (XI (XI (XI
    (XI (XI (XI XH))))))))))))), (Zpos (XO (XO (XI (XO (XO (XO (XI (XI (XI
    (XI (XI (XI XH)))))))))))))) :: (((Zpos (XO (XI (XI (XO (XO (XO (XI (XI
    (XI (XI (XI (XI XH))))))))))))), (Zpos (XO (XO (XI (XI (XO (XO (XI (XI
    (XI (XI (XI (XI XH)))))))))))))) :: (((Zpos (XO (XO (XO (XO (XI (XO (XI
    (XI (XI (XI (XI (XI XH))))))))))))), (Zpos (XI (XI (XO (XO (XI (XO (XI
    (XI (XI (XI (XI (XI XH)))))))))))))) :: (((Zpos (XO (XI (XI (XO (XI (XO
    (XI (XI (XI (XI (XI (XI XH))))))))))))), (Zpos (XI (XI (XO (XI (XI (XO
    (XI (XI (XI (XI (XI (XI XH)))))))))))))) :: (((Zpos (XO (XO (XO (XO (XO
    (XI (XI (XI (XI (XI (XI (XI XH))))))))))))), (Zpos (XO (XO (XI (XI (XO
    (XI (XI (XI (XI (XI (XI (XI XH)))))))))))))) :: (((Zpos (XO (XI (XO (XO
    (XI (XI (XI (XI (XI (XI (XI (XI XH))))))))))))), (Zpos (XO (XO (XI (XO
    (XI (XI (XI (XI (XI (XI (XI (XI XH)))))))))))))) :: (((Zpos (XO (XI (XI
    (XO (XI (XI (XI (XI (XI (XI (XI (XI XH))))))))))))), (Zpos (XO (XO (XI
    (XI (XI (XI (XI (XI (XI (XI (XI (XI XH)))))))))))))) :: (((Zpos (XI (XO
    (XO (XO (XI (XI (XI (XO (XO (XO (XO (XO (XO XH)))))))))))))), (Zpos (XI
    (XO (XO (XO (XI (XI (XI (XO (XO (XO (XO (XO (XO
    XH))))))))))))))) :: (((Zpos (XI (XI (XI (XI (XI (XI (XI (XO (XO (XO (XO
    (XO (XO XH)))))))))))))), (Zpos (XI (XI (XI (XI (XI (XI (XI (XO (XO (XO
    (XO (XO (XO XH))))))))))))))) :: (((Zpos (XO (XO (XO (XO (XI (XO (XO (XI
    (XO (XO (XO (XO (XO XH)))))))))))))), (Zpos (XO (XO (XI (XI (XI (XO (XO
    (XI (XO (XO (XO (XO (XO XH))))))))))))))) :: (((Zpos (XO (XI (XO (XO (XO
    (XO (XO (XO (XI (XO (XO (XO (XO XH)))))))))))))), (Zpos (XO (XI (XO (XO
    (XO (XO (XO (XO (XI (XO (XO (XO (XO XH))))))))))))))) :: (((Zpos (XI (XI
    (XI (XO (XO (XO (XO (XO (XI (XO (XO (XO (XO XH)))))))))))))), (Zpos (XI
    (XI (XI (XO (XO (XO (XO (XO (XI (XO (XO (XO (XO
    XH))))))))))))))) :: (((Zpos (XO (XI (XO (XI (XO (XO (XO (XO (XI (XO (XO
    (XO (XO XH)))))))))))))), (Zpos (XI (XI (XO (XO (XI (XO (XO (XO (XI (XO
    (XO (XO (XO XH))))))))))))))) :: (((Zpos (XI (XO (XI (XO (XI (XO (XO (XO
    (XI (XO (XO (XO (XO XH)))))))))))))), (Zpos (XI (XO (XI (XO (XI (XO (XO
    (XO (XI (XO (XO (XO (XO XH))))))))))))))) :: (((Zpos (XO (XO (XO (XI (XI
    (XO (XO (XO (XI (XO (XO (XO (XO XH)))))))))))))), (Zpos (XI (XO (XI (XI
    (XI (XO (XO (XO (XI (XO (XO (XO (XO XH))))))))))))))) :: (((Zpos (XO (XO
    (XI (XO (XO (XI (XO (XO (XI (XO (XO (XO (XO XH)))))))))))))), (Zpos (XO
    (XO (XI (XO (XO (XI (XO (XO (XI (XO (XO (XO (XO
    XH))))))))))))))) :: (((Zpos (XO (XI (XI (XO (XO (XI (XO (XO (XI (XO (XO
    (XO (XO XH)))))))))))))), (Zpos (XO (XI (XI (XO (XO (XI (XO (XO (XI (XO
    (XO (XO (XO XH))))))))))))))) :: (((Zpos (XO (XO (XO (XI (XO (XI (XO (XO
    (XI (XO (XO (XO (XO XH)))))))))))))), (Zpos (XO (XO (XO (XI (XO (XI (XO
    (XO (XI (XO (XO (XO (XO XH))))))))))))))) :: (((Zpos (XO (XI (XO (XI (XO
    (XI (XO (XO (XI (XO (XO (XO (XO XH)))))))))))))), (Zpos (XI (XO (XO (XI
    (XI (XI (XO (XO (XI (XO (XO (XO (XO XH))))))))))))))) :: (((Zpos (XO (XO
    (XI (XI (XI (XI (XO (XO (XI (XO (XO (XO (XO XH)))))))))))))), (Zpos (XI
    (XI (XI (XI (XI (XI (XO (XO (XI (XO (XO (XO (XO
    XH))))))))))))))) :: []))))))))))))))))))))))))) :: ((((Zpos (XI (XO (XI
    (XO (XO (XO (XI (XO (XI (XO (XO (XO (XO XH)))))))))))))), (Zpos (XO (XO
    (XI (XI (XI (XI (XO (XO (XO (XO (XO (XO (XI XH))))))))))))))), (((Zpos
    (XI (XO (XI (XO (XO (XO (XI (XO (XI (XO (XO (XO (XO XH)))))))))))))),
    (Zpos (XI (XO (XO (XI (XO (XO (XI (XO (XI (XO (XO (XO (XO
    XH))))))))))))))) :: (((Zpos (XO (XI (XI (XI (XO (XO (XI (XO (XI (XO (XO
    (XO (XO XH)))))))))))))), (Zpos (XO (XI (XI (XI (XO (XO (XI (XO (XI (XO
    (XO (XO (XO XH))))))))))))))) :: (((Zpos (XO (XO (XO (XO (XO (XI (XI (XO
    (XI (XO (XO (XO (XO XH)))))))))))))), (Zpos (XO (XO (XO (XI (XO (XO (XO
    (XI (XI (XO (XO (XO (XO XH))))))))))))))) :: (((Zpos (XO (XO (XO (XO (XO
    (XO (XO (XO (XO (XO (XI (XI (XO XH)))))))))))))), (Zpos (XO (XO (XI (XO
    (XO (XI (XI (XI (XO (XO (XI (XI (XO XH))))))))))))))) :: (((Zpos (XI (XI
    (XO (XI (XO (XI (XI (XI (XO (XO (XI (XI (XO XH)))))))))))))), (Zpos (XO
    (XI (XI (XI (XO (XI (XI (XI (XO (XO (XI (XI (XO
    XH))))))))))))))) :: (((Zpos (XO (XI (XO (XO (XI (XI (XI (XI (XO (XO (XI
    (XI (XO XH)))))))))))))), (Zpos (XI (XI (XO (XO (XI (XI (XI (XI (XO (XO
    (XI (XI (XO XH))))))))))))))) :: (((Zpos (XO (XO (XO (XO (XO (XO (XO (XO
    (XI (XO (XI (XI (XO XH)))))))))))))), (Zpos (XI (XO (XI (XO (XO (XI (XO
    (XO (XI (XO (XI (XI (XO XH))))))))))))))) :: (((Zpos (XI (XI (XI (XO (XO
    (XI (XO (XO (XI (XO (XI (XI (XO XH)))))))))))))), (Zpos (XI (XI (XI (XO
    (XO (XI (XO (XO (XI (XO (XI (XI (XO XH))))))))))))))) :: (((Zpos (XI (XO
    (XI (XI (XO (XI (XO (XO (XI (XO (XI (XI (XO XH)))))))))))))), (Zpos (XI
    (XO (XI (XI (XO (XI (XO (XO (XI (XO (XI (XI (XO
    XH))))))))))))))) :: (((Zpos (XO (XO (XO (XO (XI (XI (XO (XO (XI (XO (XI
    (XI (XO XH)))))))))))))), (Zpos (XI (XI (XI (XO (XO (XI (XI (XO (XI (XO
    (XI (XI (XO XH))))))))))))))) :: (((Zpos (XI (XI (XI (XI (XO (XI (XI (XO
    (XI (XO (XI (XI (XO XH)))))))))))))), (Zpos (XI (XI (XI (XI (XO (XI (XI
    (XO (XI (XO (XI (XI (XO XH))))))))))))))) :: (((Zpos (XO (XO (XO (XO (XO
    (XO (XO (XI (XI (XO (XI (XI (XO XH)))))))))))))), (Zpos (XO (XI (XI (XO
    (XI (XO (XO (XI (XI (XO (XI (XI (XO XH))))))))))))))) :: (((Zpos (XO (XO
    (XO (XO (XO (XI (XO (XI (XI (XO (XI (XI (XO XH)))))))))))))), (Zpos (XO
    (XI (XI (XO (XO (XI (XO (XI (XI (XO (XI (XI (XO
    XH))))))))))))))) :: (((Zpos (XO (XO (XO (XI (XO (XI (XO (XI (XI (XO (XI
    (XI (XO XH)))))))))))))), (Zpos (XO (XI (XI (XI (XO (XI (XO (XI (XI (XO
    (XI (XI (XO XH))))))))))))))) :: (((Zpos (XO (XO (XO (XO (XI (XI (XO (XI
    (XI (XO (XI (XI (XO XH)))))))))))))), (Zpos (XO (XI (XI (XO (XI (XI (XO
    (XI (XI (XO (XI (XI (XO XH))))))))))))))) :: (((Zpos (XO (XO (XO (XI (XI
    (XI (XO (XI (XI (XO (XI (XI (XO XH)))))))))))))), (Zpos (XO (XI (XI (XI
    (XI (XI (XO (XI (XI (XO (XI (XI (XO XH))))))))))))))) :: (((Zpos (XO (XO
    (XO (XO (XO (XO (XI (XI (XI (XO (XI (XI (XO XH)))))))))))))), (Zpos (XO
    (XI (XI (XO (XO (XO (XI (XI (XI (XO (XI (XI (XO
    XH))))))))))))))) :: (((Zpos (XO (XO (XO (XI (XO (XO (XI (XI (XI (XO (XI
    (XI (XO XH)))))))))))))), (Zpos (XO (XI (XI (XI (XO (XO (XI (XI (XI (XO
    (XI (XI (XO XH))))))))))))))) :: (((Zpos (XO (XO (XO (XO (XI (XO (XI (XI
    (XI (XO (XI (XI (XO XH)))))))))))))), (Zpos (XO (XI (XI (XO (XI (XO (XI
    (XI (XI (XO (XI (XI (XO XH))))))))))))))) :: (((Zpos (XO (XO (XO (XI (XI
    (XO (XI (XI (XI (XO (XI (XI (XO XH)))))))))))))), (Zpos (XO (XI (XI (XI
    (XI (XO (XI (XI (XI (XO (XI (XI (XO XH))))))))))))))) :: (((Zpos (XI (XO
    (XI (XO (XO (XO (XO (XO (XO (XO (XO (XO (XI XH)))))))))))))), (Zpos (XI
    (XI (XI (XO (XO (XO (XO (XO (XO (XO (XO (XO (XI
    XH))))))))))))))) :: (((Zpos (XI (XO (XO (XO (XO (XI (XO (XO (XO (XO (XO
    (XO (XI XH)))))))))))))), (Zpos (XI (XO (XO (XI (XO (XI (XO (XO (XO (XO
    (XO (XO (XI XH))))))))))))))) :: (((Zpos (XI (XO (XO (XO (XI (XI (XO (XO
    (XO (XO (XO (XO (XI XH)))))))))))))), (Zpos (XI (XO (XI (XO (XI (XI (XO
    (XO (XO (XO (XO (XO (XI XH))))))))))))))) :: (((Zpos (XO (XO (XO (XI (XI
    (XI (XO (XO (XO (XO (XO (XO (XI XH)))))))))))))), (Zpos (XO (XO (XI (XI
    (XI (XI (XO (XO (XO (XO (XO (XO (XI
    XH))))))))))))))) :: []))))))))))))))))))))))))) :: ((((Zpos (XI (XO (XO
    (XO (XO (XO (XI (XO (XO (XO (XO (XO (XI XH)))))))))))))), (Zpos (XI (XO
    (XO (XO (XO (XO (XO (XO (XO (XO (XO (XI (XO (XI (XO XH))))))))))))))))),
    (((Zpos (XI (XO (XO (XO (XO (XO (XI (XO (XO (XO (XO (XO (XI
    XH)))))))))))))), (Zpos (XO (XI (XI (XO (XI (XO (XO (XI (XO (XO (XO (XO
    (XI XH))))))))))))))) :: (((Zpos (XI (XO (XI (XI (XI (XO (XO (XI (XO (XO
    (XO (XO (XI XH)))))))))))))), (Zpos (XI (XI (XI (XI (XI (XO (XO (XI (XO
    (XO (XO (XO (XI XH))))))))))))))) :: (((Zpos (XI (XO (XO (XO (XO (XI (XO
    (XI (XO (XO (XO (XO (XI XH)))))))))))))), (Zpos (XO (XI (XO (XI (XI (XI
    (XI (XI (XO (XO (XO (XO (XI XH))))))))))))))) :: (((Zpos (XO (XO (XI (XI
    (XI (XI (XI (XI (XO (XO (XO (XO (XI XH)))))))))))))), (Zpos (XI (XI (XI
    (XI (XI (XI (XI (XI (XO (XO (XO (XO (XI XH))))))))))))))) :: (((Zpos (XI
    (XO (XI (XO (XO (XO (XO (XO (XI (XO (XO (XO (XI XH)))))))))))))), (Zpos
    (XI (XI (XI (XI (XO (XI (XO (XO (XI (XO (XO (XO (XI
    XH))))))))))))))) :: (((Zpos (XI (XO (XO (XO (XI (XI (XO (XO (XI (XO (XO
    (XO (XI XH)))))))))))))), (Zpos (XO (XI (XI (XI (XO (XO (XO (XI (XI (XO
    (XO (XO (XI XH))))))))))))))) :: (((Zpos (XO (XO (XO (XO (XO (XI (XO (XI
    (XI (XO (XO (XO (XI XH)))))))))))))), (Zpos (XI (XI (XI (XI (XI (XI (XO
    (XI (XI (XO (XO (XO (XI XH))))))))))))))) :: (((Zpos (XO (XO (XO (XO (XI
    (XI (XI (XI (XI (XO (XO (XO (XI XH)))))))))))))), (Zpos (XI (XI (XI (XI
    (XI (XI (XI (XI (XI (XO (XO (XO (XI XH))))))))))))))) :: (((Zpos (XO (XO
    (XO (XO (XO (XO (XO (XO (XO (XO (XI (XO (XI XH)))))))))))))), (Zpos (XI
    (XI (XI (XI (XI (XI (XO (XI (XI (XO (XI (XI (XO (XO
    XH)))))))))))))))) :: (((Zpos (XO (XO (XO (XO (XO (XO (XO (XO (XO (XI (XI
    (XI (XO (XO XH))))))))))))))), (Zpos (XO (XO (XI (XI (XO (XO (XO (XI (XO
    (XO (XI (XO (XO (XI (XO XH))))))))))))))))) :: (((Zpos (XO (XO (XO (XO
    (XI (XO (XI (XI (XO (XO (XI (XO (XO (XI (XO XH)))))))))))))))), (Zpos (XI
    (XO (XI (XI (XI (XI (XI (XI (XO (XO (XI (XO (XO (XI (XO
    XH))))))))))))))))) :: (((Zpos (XO (XO (XO (XO (XO (XO (XO (XO (XI (XO
    (XI (XO (XO (XI (XO XH)))))))))))))))), (Zpos (XO (XO (XI (XI (XO (XO (XO
    (XO (XO (XI (XI (XO (XO (XI (XO XH))))))))))))))))) :: (((Zpos (XO (XO
    (XO (XO (XI (XO (XO (XO (XO (XI (XI (XO (XO (XI (XO XH)))))))))))))))),
    (Zpos (XI (XI (XI (XI (XI (XO (XO (XO (XO (XI (XI (XO (XO (XI (XO
    XH))))))))))))))))) :: (((Zpos (XO (XI (XO (XI (XO (XI (XO (XO (XO (XI
    (XI (XO (XO (XI (XO XH)))))))))))))))), (Zpos (XI (XI (XO (XI (XO (XI (XO
    (XO (XO (XI (XI (XO (XO (XI (XO XH))))))))))))))))) :: (((Zpos (XO (XO
    (XO (XO (XO (XO (XI (XO (XO (XI (XI (XO (XO (XI (XO XH)))))))))))))))),
    (Zpos (XO (XI (XI (XI (XO (XI (XI (XO (XO (XI (XI (XO (XO (XI (XO
    XH))))))))))))))))) :: (((Zpos (XI (XI (XI (XI (XI (XI (XI (XO (XO (XI
    (XI (XO (XO (XI (XO XH)))))))))))))))), (Zpos (XI (XO (XI (XI (XI (XO (XO
    (XI (XO (XI (XI (XO (XO (XI (XO XH))))))))))))))))) :: (((Zpos (XO (XO
    (XO (XO (XO (XI (XO (XI (XO (XI (XI (XO (XO (XI (XO XH)))))))))))))))),
    (Zpos (XI (XI (XI (XI (XO (XI (XI (XI (XO (XI (XI (XO (XO (XI (XO
    XH))))))))))))))))) :: (((Zpos (XI (XI (XI (XO (XI (XO (XO (XO (XI (XI
    (XI (XO (XO (XI (XO XH)))))))))))))))), (Zpos (XI (XI (XI (XI (XI (XO (XO
    (XO (XI (XI (XI (XO (XO (XI (XO XH))))))))))))))))) :: (((Zpos (XO (XI
    (XO (XO (XO (XI (XO (XO (XI (XI (XI (XO (XO (XI (XO XH)))))))))))))))),
    (Zpos (XO (XO (XO (XI (XO (XO (XO (XI (XI (XI (XI (XO (XO (XI (XO
    XH))))))))))))))))) :: (((Zpos (XI (XI (XO (XI (XO (XO (XO (XI (XI (XI
    (XI (XO (XO (XI (XO XH)))))))))))))))), (Zpos (XO (XI (XO (XI (XO (XO (XI
    (XI (XI (XI (XI (XO (XO (XI (XO XH))))))))))))))))) :: (((Zpos (XO (XO
    (XO (XO (XI (XO (XI (XI (XI (XI (XI (XO (XO (XI (XO XH)))))))))))))))),
    (Zpos (XI (XO (XO (XO (XI (XO (XI (XI (XI (XI (XI (XO (XO (XI (XO
    XH))))))))))))))))) :: (((Zpos (XI (XI (XO (XO (XI (XO (XI (XI (XI (XI
    (XI (XO (XO (XI (XO XH)))))))))))))))), (Zpos (XI (XI (XO (XO (XI (XO (XI
    (XI (XI (XI (XI (XO (XO (XI (XO XH))))))))))))))))) :: (((Zpos (XI (XO
    (XI (XO (XI (XO (XI (XI (XI (XI (XI (XO (XO (XI (XO XH)))))))))))))))),
    (Zpos (XI (XO (XO (XI (XI (XO (XI (XI (XI (XI (XI (XO (XO (XI (XO
    XH))))))))))))))))) :: (((Zpos (XO (XI (XO (XO (XI (XI (XI (XI (XI (XI
    (XI (XO (XO (XI (XO XH)))))))))))))))), (Zpos (XI (XO (XO (XO (XO (XO (XO
    (XO (XO (XO (XO (XI (XO (XI (XO
    XH))))))))))))))))) :: []))))))))))))))))))))))))) :: ((((Zpos (XI (XI
    (XO (XO (XO (XO (XO (XO (XO (XO (XO (XI (XO (XI (XO XH)))))))))))))))),
    (Zpos (XO (XI (XI (XO (XI (XI (XO (XI (XO (XI (XO (XI (XO (XI (XO
    XH))))))))))))))))), (((Zpos (XI (XI (XO (XO (XO (XO (XO (XO (XO (XO (XO
    (XI (XO (XI (XO XH)))))))))))))))), (Zpos (XI (XO (XI (XO (XO (XO (XO (XO
    (XO (XO (XO (XI (XO (XI (XO XH))))))))))))))))) :: (((Zpos (XI (XI (XI
    (XO (XO (XO (XO (XO (XO (XO (XO (XI (XO (XI (XO XH)))))))))))))))), (Zpos
    (XO (XI (XO (XI (XO (XO (XO (XO (XO (XO (XO (XI (XO (XI (XO
    XH))))))))))))))))) :: (((Zpos (XO (XO (XI (XI (XO (XO (XO (XO (XO (XO
    (XO (XI (XO (XI (XO XH)))))))))))))))), (Zpos (XO (XI (XO (XO (XO (XI (XO
    (XO (XO (XO (XO (XI (XO (XI (XO XH))))))))))))))))) :: (((Zpos (XO (XO
    (XO (XO (XO (XO (XI (XO (XO (XO (XO (XI (XO (XI (XO XH)))))))))))))))),
    (Zpos (XI (XI (XO (XO (XI (XI (XI (XO (XO (XO (XO (XI (XO (XI (XO
    XH))))))))))))))))) :: (((Zpos (XO (XI (XO (XO (XO (XO (XO (XI (XO (XO
    (XO (XI (XO (XI (XO XH)))))))))))))))), (Zpos (XI (XI (XO (XO (XI (XI (XO
    (XI (XO (XO (XO (XI (XO (XI (XO XH))))))))))))))))) :: (((Zpos (XO (XI
    (XO (XO (XI (XI (XI (XI (XO (XO (XO (XI (XO (XI (XO XH)))))))))))))))),
    (Zpos (XI (XI (XI (XO (XI (XI (XI (XI (XO (XO (XO (XI (XO (XI (XO
    XH))))))))))))))))) :: (((Zpos (XI (XI (XO (XI (XI (XI (XI (XI (XO (XO
    (XO (XI (XO (XI (XO XH)))))))))))))))), (Zpos (XI (XI (XO (XI (XI (XI (XI
    (XI (XO (XO (XO (XI (XO (XI (XO XH))))))))))))))))) :: (((Zpos (XI (XO
    (XI (XI (XI (XI (XI (XI (XO (XO (XO (XI (XO (XI (XO XH)))))))))))))))),
    (Zpos (XO (XI (XI (XI (XI (XI (XI (XI (XO (XO (XO (XI (XO (XI (XO
    XH))))))))))))))))) :: (((Zpos (XO (XI (XO (XI (XO (XO (XO (XO (XI (XO
    (XO (XI (XO (XI (XO XH)))))))))))))))), (Zpos (XI (XO (XI (XO (XO (XI (XO
    (XO (XI (XO (XO (XI (XO (XI (XO XH))))))))))))))))) :: (((Zpos (XO (XO
    (XO (XO (XI (XI (XO (XO (XI (XO (XO (XI (XO (XI (XO XH)))))))))))))))),
    (Zpos (XO (XI (XI (XO (XO (XO (XI (XO (XI (XO (XO (XI (XO (XI (XO
    XH))))))))))))))))) :: (((Zpos (XO (XO (XO (XO (XO (XI (XI (XO (XI (XO
    (XO (XI (XO (XI (XO XH)))))))))))))))), (Zpos (XO (XO (XI (XI (XI (XI (XI
    (XO (XI (XO (XO (XI (XO (XI (XO XH))))))))))))))))) :: (((Zpos (XO (XO
    (XI (XO (XO (XO (XO (XI (XI (XO (XO (XI (XO (XI (XO XH)))))))))))))))),
    (Zpos (XO (XI (XO (XO (XI (XI (XO (XI (XI (XO (XO (XI (XO (XI (XO
    XH))))))))))))))))) :: (((Zpos (XI (XI (XI (XI (XO (XO (XI (XI (XI (XO
    (XO (XI (XO (XI (XO XH)))))))))))))))), (Zpos (XI (XI (XI (XI (XO (XO (XI
    (XI (XI (XO (XO (XI (XO (XI (XO XH))))))))))))))))) :: (((Zpos (XO (XO
    (XO (XO (XO (XI (XI (XI (XI (XO (XO (XI (XO (XI (XO XH)))))))))))))))),
    (Zpos (XO (XO (XI (XO (XO (XI (XI (XI (XI (XO (XO (XI (XO (XI (XO
    XH))))))))))))))))) :: (((Zpos (XO (XI (XI (XO (XO (XI (XI (XI (XI (XO
    (XO (XI (XO (XI (XO XH)))))))))))))))), (Zpos (XI (XI (XI (XI (XO (XI (XI
    (XI (XI (XO (XO (XI (XO (XI (XO XH))))))))))))))))) :: (((Zpos (XO (XI
    (XO (XI (XI (XI (XI (XI (XI (XO (XO (XI (XO (XI (XO XH)))))))))))))))),
    (Zpos (XO (XI (XI (XI (XI (XI (XI (XI (XI (XO (XO (XI (XO (XI (XO
    XH))))))))))))))))) :: (((Zpos (XO (XO (XO (XO (XO (XO (XO (XO (XO (XI
    (XO (XI (XO (XI (XO XH)))))))))))))))), (Zpos (XO (XO (XO (XI (XO (XI (XO
    (XO (XO (XI (XO (XI (XO (XI (XO XH))))))))))))))))) :: (((Zpos (XO (XO
    (XO (XO (XO (XO (XI (XO (XO (XI (XO (XI (XO (XI (XO XH)))))))))))))))),
    (Zpos (XO (XI (XO (XO (XO (XO (XI (XO (XO (XI (XO (XI (XO (XI (XO
    XH))))))))))))))))) :: (((Zpos (XO (XO (XI (XO (XO (XO (XI (XO (XO (XI
    (XO (XI (XO (XI (XO XH)))))))))))))))), (Zpos (XI (XI (XO (XI (XO (XO (XI
    (XO (XO (XI (XO (XI (XO (XI (XO XH))))))))))))))))) :: (((Zpos (XO (XO
    (XO (XO (XO (XI (XI (XO (XO (XI (XO (XI (XO (XI (XO XH)))))))))))))))),
    (Zpos (XO (XI (XI (XO (XI (XI (XI (XO (XO (XI (XO (XI (XO (XI (XO
    XH))))))))))))))))) :: (((Zpos (XO (XI (XO (XI (XI (XI (XI (XO (XO (XI
    (XO (XI (XO (XI (XO XH)))))))))))))))), (Zpos (XO (XI (XO (XI (XI (XI (XI
    (XO (XO (XI (XO (XI (XO (XI (XO XH))))))))))))))))) :: (((Zpos (XO (XI
    (XI (XI (XI (XI (XI (XO (XO (XI (XO (XI (XO (XI (XO XH)))))))))))))))),
    (Zpos (XI (XI (XI (XI (XO (XI (XO (XI (XO (XI (XO (XI (XO (XI (XO
    XH))))))))))))))))) :: (((Zpos (XI (XO (XO (XO (XI (XI (XO (XI (XO (XI
    (XO (XI (XO (XI (XO XH)))))))))))))))), (Zpos (XI (XO (XO (XO (XI (XI (XO
    (XI (XO (XI (XO (XI (XO (XI (XO XH))))))))))))))))) :: (((Zpos (XI (XO
    (XI (XO (XI (XI (XO (XI (XO (XI (XO (XI (XO (XI (XO XH)))))))))))))))),
    (Zpos (XO (XI (XI (XO (XI (XI (XO (XI (XO (XI (XO (XI (XO (XI (XO
    XH))))))))))))))))) :: []))))))))))))))))))))))))) :: ((((Zpos (XI (XO
    (XO (XI (XI (XI (XO (XI (XO (XI (XO (XI (XO (XI (XO XH)))))))))))))))),
    (Zpos (XO (XI (XI (XO (XI (XI (XO (XO (XI (XI (XO (XI (XI (XI (XI
    XH))))))))))))))))), (((Zpos (XI (XO (XO (XI (XI (XI (XO (XI (XO (XI (XO
    (XI (XO (XI (XO XH)))))))))))))))), (Zpos (XI (XO (XI (XI (XI (XI (XO (XI
    (XO (XI (XO (XI (XO (XI (XO XH))))))))))))))))) :: (((Zpos (XO (XO (XO
    (XO (XO (XO (XI (XI (XO (XI (XO (XI (XO (XI (XO XH)))))))))))))))), (Zpos
    (XO (XO (XO (XO (XO (XO (XI (XI (XO (XI (XO (XI (XO (XI (XO
    XH))))))))))))))))) :: (((Zpos (XO (XI (XO (XO (XO (XO (XI (XI (XO (XI
    (XO (XI (XO (XI (XO XH)))))))))))))))), (Zpos (XO (XI (XO (XO (XO (XO (XI
    (XI (XO (XI (XO (XI (XO (XI (XO XH))))))))))))))))) :: (((Zpos (XI (XI
    (XO (XI (XI (XO (XI (XI (XO (XI (XO (XI (XO (XI (XO XH)))))))))))))))),
    (Zpos (XI (XO (XI (XI (XI (XO (XI (XI (XO (XI (XO (XI (XO (XI (XO
    XH))))))))))))))))) :: (((Zpos (XO (XO (XO (XO (XO (XI (XI (XI (XO (XI
    (XO (XI (XO (XI (XO XH)))))))))))))))), (Zpos (XO (XI (XO (XI (XO (XI (XI
    (XI (XO (XI (XO (XI (XO (XI (XO XH))))))))))))))))) :: (((Zpos (XO (XI
    (XO (XO (XI (XI (XI (XI (XO (XI (XO (XI (XO (XI (XO XH)))))))))))))))),
    (Zpos (XO (XO (XI (XO (XI (XI (XI (XI (XO (XI (XO (XI (XO (XI (XO
    XH))))))))))))))))) :: (((Zpos (XI (XO (XO (XO (XO (XO (XO (XO (XI (XI
    (XO (XI (XO (XI (XO XH)))))))))))))))), (Zpos (XO (XI (XI (XO (XO (XO (XO
    (XO (XI (XI (XO (XI (XO (XI (XO XH))))))))))))))))) :: (((Zpos (XI (XO
    (XO (XI (XO (XO (XO (XO (XI (XI (XO (XI (XO (XI (XO XH)))))))))))))))),
    (Zpos (XO (XI (XI (XI (XO (XO (XO (XO (XI (XI (XO (XI (XO (XI (XO
    XH))))))))))))))))) :: (((Zpos (XI (XO (XO (XO (XI (XO (XO (XO (XI (XI
    (XO (XI (XO (XI (XO XH)))))))))))))))), (Zpos (XO (XI (XI (XO (XI (XO (XO
    (XO (XI (XI (XO (XI (XO (XI (XO XH))))))))))))))))) :: (((Zpos (XO (XO
    (XO (XO (XO (XI (XO (XO (XI (XI (XO (XI (XO (XI (XO XH)))))))))))))))),
    (Zpos (XO (XI (XI (XO (XO (XI (XO (XO (XI (XI (XO (XI (XO (XI (XO
    XH))))))))))))))))) :: (((Zpos (XO (XO (XO (XI (XO (XI (XO (XO (XI (XI
    (XO (XI (XO (XI (XO XH)))))))))))))))), (Zpos (XO (XI (XI (XI (XO (XI (XO
    (XO (XI (XI (XO (XI (XO (XI (XO XH))))))))))))))))) :: (((Zpos (XO (XO
    (XO (XO (XI (XI (XO (XO (XI (XI (XO (XI (XO (XI (XO XH)))))))))))))))),
    (Zpos (XO (XI (XO (XI (XI (XO (XI (XO (XI (XI (XO (XI (XO (XI (XO
    XH))))))))))))))))) :: (((Zpos (XO (XO (XI (XI (XI (XO (XI (XO (XI (XI
    (XO (XI (XO (XI (XO XH)))))))))))))))), (Zpos (XI (XO (XO (XI (XO (XI (XI
    (XO (XI (XI (XO (XI (XO (XI (XO XH))))))))))))))))) :: (((Zpos (XO (XO
    (XO (XO (XI (XI (XI (XO (XI (XI (XO (XI (XO (XI (XO XH)))))))))))))))),
    (Zpos (XO (XI (XO (XO (XO (XI (XI (XI (XI (XI (XO (XI (XO (XI (XO
    XH))))))))))))))))) :: (((Zpos (XO (XO (XO (XO (XO (XO (XO (XO (XO (XO
    (XI (XI (XO (XI (XO XH)))))))))))))))), (Zpos (XI (XI (XO (XO (XO (XI (XO
    (XI (XI (XI (XI (XO (XI (XO (XI XH))))))))))))))))) :: (((Zpos (XO (XO
    (XO (XO (XI (XI (XO (XI (XI (XI (XI (XO (XI (XO (XI XH)))))))))))))))),
    (Zpos (XO (XI (XI (XO (XO (XO (XI (XI (XI (XI (XI (XO (XI (XO (XI
    XH))))))))))))))))) :: (((Zpos (XI (XI (XO (XI (XO (XO (XI (XI (XI (XI
    (XI (XO (XI (XO (XI XH)))))))))))))))), (Zpos (XI (XI (XO (XI (XI (XI (XI
    (XI (XI (XI (XI (XO (XI (XO (XI XH))))))))))))))))) :: (((Zpos (XO (XO
    (XO (XO (XO (XO (XO (XO (XI (XO (XO (XI (XI (XI (XI XH)))))))))))))))),
    (Zpos (XI (XO (XI (XI (XO (XI (XI (XO (XO (XI (XO (XI (XI (XI (XI
    XH))))))))))))))))) :: (((Zpos (XO (XO (XO (XO (XI (XI (XI (XO (XO (XI
    (XO (XI (XI (XI (XI XH)))))))))))))))), (Zpos (XI (XO (XO (XI (XI (XO (XI
    (XI (XO (XI (XO (XI (XI (XI (XI XH))))))))))))))))) :: (((Zpos (XO (XO
    (XO (XO (XO (XO (XO (XO (XI (XI (XO (XI (XI (XI (XI XH)))))))))))))))),
    (Zpos (XO (XI (XI (XO (XO (XO (XO (XO (XI (XI (XO (XI (XI (XI (XI
    XH))))))))))))))))) :: (((Zpos (XI (XI (XO (XO (XI (XO (XO (XO (XI (XI
    (XO (XI (XI (XI (XI XH)))))))))))))))), (Zpos (XI (XI (XI (XO (XI (XO (XO
    (XO (XI (XI (XO (XI (XI (XI (XI XH))))))))))))))))) :: (((Zpos (XI (XO
    (XI (XI (XI (XO (XO (XO (XI (XI (XO (XI (XI (XI (XI XH)))))))))))))))),
    (Zpos (XI (XO (XI (XI (XI (XO (XO (XO (XI (XI (XO (XI (XI (XI (XI
    XH))))))))))))))))) :: (((Zpos (XI (XI (XI (XI (XI (XO (XO (XO (XI (XI
    (XO (XI (XI (XI (XI XH)))))))))))))))), (Zpos (XO (XO (XO (XI (XO (XI (XO
    (XO (XI (XI (XO (XI (XI (XI (XI XH))))))))))))))))) :: (((Zpos (XO (XI
    (XO (XI (XO (XI (XO (XO (XI (XI (XO (XI (XI (XI (XI XH)))))))))))))))),
    (Zpos (XO (XI (XI (XO (XI (XI (XO (XO (XI (XI (XO (XI (XI (XI (XI
    XH))))))))))))))))) :: []))))))))))))))))))))))))) :: ((((Zpos (XO (XO
    (XO (XI (XI (XI (XO (XO (XI (XI (XO (XI (XI (XI (XI XH)))))))))))))))),
    (Zpos (XI (XI (XI (XO (XI (XO (XI (XI (XI (XI (XI (XI (XI (XI (XI
    XH))))))))))))))))), (((Zpos (XO (XO (XO (XI (XI (XI (XO (XO (XI (XI (XO
    (XI (XI (XI (XI XH)))))))))))))))), (Zpos (XO (XO (XI (XI (XI (XI (XO (XO
    (XI (XI (XO (XI (XI (XI (XI XH))))))))))))))))) :: (((Zpos (XO (XI (XI
    (XI (XI (XI (XO (XO (XI (XI (XO (XI (XI (XI (XI XH)))))))))))))))), (Zpos
    (XO (XI (XI (XI (XI (XI (XO (XO (XI (XI (XO (XI (XI (XI (XI
    XH))))))))))))))))) :: (((Zpos (XO (XO (XO (XO (XO (XO (XI (XO (XI (XI
    (XO (XI (XI (XI (XI XH)))))))))))))))), (Zpos (XI (XO (XO (XO (XO (XO (XI
    (XO (XI (XI (XO (XI (XI (XI (XI XH))))))))))))))))) :: (((Zpos (XI (XI
    (XO (XO (XO (XO (XI (XO (XI (XI (XO (XI (XI (XI (XI XH)))))))))))))))),
    (Zpos (XO (XO (XI (XO (XO (XO (XI (XO (XI (XI (XO (XI (XI (XI (XI
    XH))))))))))))))))) :: (((Zpos (XO (XI (XI (XO (XO (XO (XI (XO (XI (XI
    (XO (XI (XI (XI (XI XH)))))))))))))))), (Zpos (XI (XO (XO (XO (XI (XI (XO
    (XI (XI (XI (XO (XI (XI (XI (XI XH))))))))))))))))) :: (((Zpos (XI (XI
    (XO (XO (XI (XO (XI (XI (XI (XI (XO (XI (XI (XI (XI XH)))))))))))))))),
    (Zpos (XI (XO (XI (XI (XI (XO (XI (XO (XO (XO (XI (XI (XI (XI (XI
    XH))))))))))))))))) :: (((Zpos (XO (XO (XI (XO (XO (XI (XI (XO (XO (XO
    (XI (XI (XI (XI (XI XH)))))))))))))))), (Zpos (XI (XO (XI (XI (XI (XI (XO
    (XO (XI (XO (XI (XI (XI (XI (XI XH))))))))))))))))) :: (((Zpos (XO (XO
    (XO (XO (XI (XO (XI (XO (XI (XO (XI (XI (XI (XI (XI XH)))))))))))))))),
    (Zpos (XI (XI (XI (XI (XO (XO (XO (XI (XI (XO (XI (XI (XI (XI (XI
    XH))))))))))))))))) :: (((Zpos (XO (XI (XO (XO (XI (XO (XO (XI (XI (XO
    (XI (XI (XI (XI (XI XH)))))))))))))))), (Zpos (XI (XI (XI (XO (XO (XO (XI
    (XI (XI (XO (XI (XI (XI (XI (XI XH))))))))))))))))) :: (((Zpos (XO (XO
    (XO (XO (XI (XI (XI (XI (XI (XO (XI (XI (XI (XI (XI XH)))))))))))))))),
    (Zpos (XI (XO (XO (XI (XI (XI (XI (XI (XI (XO (XI (XI (XI (XI (XI
    XH))))))))))))))))) :: (((Zpos (XI (XO (XO (XO (XI (XI (XI (XO (XO (XI
    (XI (XI (XI (XI (XI XH)))))))))))))))), (Zpos (XI (XO (XO (XO (XI (XI (XI
    (XO (XO (XI (XI (XI (XI (XI (XI XH))))))))))))))))) :: (((Zpos (XI (XI
    (XO (XO (XI (XI (XI (XO (XO (XI (XI (XI (XI (XI (XI XH)))))))))))))))),
    (Zpos (XI (XI (XO (XO (XI (XI (XI (XO (XO (XI (XI (XI (XI (XI (XI
    XH))))))))))))))))) :: (((Zpos (XI (XI (XI (XO (XI (XI (XI (XO (XO (XI
    (XI (XI (XI (XI (XI XH)))))))))))))))), (Zpos (XI (XI (XI (XO (XI (XI (XI
    (XO (XO (XI (XI (XI (XI (XI (XI XH))))))))))))))))) :: (((Zpos (XI (XO
    (XO (XI (XI (XI (XI (XO (XO (XI (XI (XI (XI (XI (XI XH)))))))))))))))),
    (Zpos (XI (XO (XO (XI (XI (XI (XI (XO (XO (XI (XI (XI (XI (XI (XI
    XH))))))))))))))))) :: (((Zpos (XI (XI (XO (XI (XI (XI (XI (XO (XO (XI
    (XI (XI (XI (XI (XI XH)))))))))))))))), (Zpos (XI (XI (XO (XI (XI (XI (XI
    (XO (XO (XI (XI (XI (XI (XI (XI XH))))))))))))))))) :: (((Zpos (XI (XO
    (XI (XI (XI (XI (XI (XO (XO (XI (XI (XI (XI (XI (XI XH)))))))))))))))),
    (Zpos (XI (XO (XI (XI (XI (XI (XI (XO (XO (XI (XI (XI (XI (XI (XI
    XH))))))))))))))))) :: (((Zpos (XI (XI (XI (XI (XI (XI (XI (XO (XO (XI
    (XI (XI (XI (XI (XI XH)))))))))))))))), (Zpos (XO (XO (XI (XI (XI (XI (XI
    (XI (XO (XI (XI (XI (XI (XI (XI XH))))))))))))))))) :: (((Zpos (XI (XO
    (XO (XO (XO (XI (XO (XO (XI (XI (XI (XI (XI (XI (XI XH)))))))))))))))),
    (Zpos (XO (XI (XO (XI (XI (XI (XO (XO (XI (XI (XI (XI (XI (XI (XI
    XH))))))))))))))))) :: (((Zpos (XI (XO (XO (XO (XO (XO (XI (XO (XI (XI
    (XI (XI (XI (XI (XI XH)))))))))))))))), (Zpos (XO (XI (XO (XI (XI (XO (XI
    (XO (XI (XI (XI (XI (XI (XI (XI XH))))))))))))))))) :: (((Zpos (XO (XI
    (XI (XO (XO (XI (XI (XO (XI (XI (XI (XI (XI (XI (XI XH)))))))))))))))),
    (Zpos (XI (XO (XI (XI (XI (XO (XO (XI (XI (XI (XI (XI (XI (XI (XI
    XH))))))))))))))))) :: (((Zpos (XO (XO (XO (XO (XO (XI (XO (XI (XI (XI
    (XI (XI (XI (XI (XI XH)))))))))))))))), (Zpos (XO (XI (XI (XI (XI (XI (XO
    (XI (XI (XI (XI (XI (XI (XI (XI XH))))))))))))))))) :: (((Zpos (XO (XI
    (XO (XO (XO (XO (XI (XI (XI (XI (XI (XI (XI (XI (XI XH)))))))))))))))),
    (Zpos (XI (XI (XI (XO (XO (XO (XI (XI (XI (XI (XI (XI (XI (XI (XI
    XH))))))))))))))))) :: (((Zpos (XO (XI (XO (XI (XO (XO (XI (XI (XI (XI
    (XI (XI (XI (XI (XI XH)))))))))))))))), (Zpos (XI (XI (XI (XI (XO (XO (XI
    (XI (XI (XI (XI (XI (XI (XI (XI XH))))))))))))))))) :: (((Zpos (XO (XI
    (XO (XO (XI (XO (XI (XI (XI (XI (XI (XI (XI (XI (XI XH)))))))))))))))),
    (Zpos (XI (XI (XI (XO (XI (XO (XI (XI (XI (XI (XI (XI (XI (XI (XI
    XH))))))))))))))))) :: []))))))))))))))))))))))))) :: ((((Zpos (XO (XI
    (XO (XI (XI (XO (XI (XI (XI (XI (XI (XI (XI (XI (XI XH)))))))))))))))),
    (Zpos (XO (XI (XO (XI (XI (XI (XI (XO (XI (XO (XI (XO (XO (XO (XO (XO
    XH)))))))))))))))))), (((Zpos (XO (XI (XO (XI (XI (XO (XI (XI (XI (XI (XI
    (XI (XI (XI (XI XH)))))))))))))))), (Zpos (XO (XO (XI (XI (XI (XO (XI (XI
    (XI (XI (XI (XI (XI (XI (XI XH))))))))))))))))) :: (((Zpos (XO (XO (XO
    (XO (XO (XO (XO (XO (XO (XO (XO (XO (XO (XO (XO (XO XH))))))))))))))))),
    (Zpos (XI (XI (XO (XI (XO (XO (XO (XO (XO (XO (XO (XO (XO (XO (XO (XO
    XH)))))))))))))))))) :: (((Zpos (XI (XO (XI (XI (XO (XO (XO (XO (XO (XO
    (XO (XO (XO (XO (XO (XO XH))))))))))))))))), (Zpos (XO (XI (XI (XO (XO
    (XI (XO (XO (XO (XO (XO (XO (XO (XO (XO (XO
    XH)))))))))))))))))) :: (((Zpos (XO (XO (XO (XI (XO (XI (XO (XO (XO (XO
    (XO (XO (XO (XO (XO (XO XH))))))))))))))))), (Zpos (XO (XI (XO (XI (XI
    (XI (XO (XO (XO (XO (XO (XO (XO (XO (XO (XO
    XH)))))))))))))))))) :: (((Zpos (XO (XO (XI (XI (XI (XI (XO (XO (XO (XO
    (XO (XO (XO (XO (XO (XO XH))))))))))))))))), (Zpos (XI (XO (XI (XI (XI
    (XI (XO (XO (XO (XO (XO (XO (XO (XO (XO (XO
    XH)))))))))))))))))) :: (((Zpos (XI (XI (XI (XI (XI (XI (XO (XO (XO (XO
    (XO (XO (XO (XO (XO (XO XH))))))))))))))))), (Zpos (XI (XO (XI (XI (XO
    (XO (XI (XO (XO (XO (XO (XO (XO (XO (XO (XO
    XH)))))))))))))))))) :: (((Zpos (XO (XO (XO (XO (XI (XO (XI (XO (XO (XO
    (XO (XO (XO (XO (XO (XO XH))))))))))))))))), (Zpos (XI (XO (XI (XI (XI
    (XO (XI (XO (XO (XO (XO (XO (XO (XO (XO (XO
    XH)))))))))))))))))) :: (((Zpos (XO (XO (XO (XO (XO (XO (XO (XI (XO (XO
    (XO (XO (XO (XO (XO (XO XH))))))))))))))))), (Zpos (XO (XI (XO (XI (XI
    (XI (XI (XI (XO (XO (XO (XO (XO (XO (XO (XO
    XH)))))))))))))))))) :: (((Zpos (XO (XO (XO (XO (XO (XO (XI (XO (XI (XO
    (XO (XO (XO (XO (XO (XO XH))))))))))))))))), (Zpos (XO (XO (XI (XO (XI
    (XI (XI (XO (XI (XO (XO (XO (XO (XO (XO (XO
    XH)))))))))))))))))) :: (((Zpos (XO (XO (XO (XO (XO (XO (XO (XI (XO (XI
    (XO (XO (XO (XO (XO (XO XH))))))))))))))))), (Zpos (XO (XO (XI (XI (XI
    (XO (XO (XI (XO (XI (XO (XO (XO (XO (XO (XO
    XH)))))))))))))))))) :: (((Zpos (XO (XO (XO (XO (XO (XI (XO (XI (XO (XI
    (XO (XO (XO (XO (XO (XO XH))))))))))))))))), (Zpos (XO (XO (XO (XO (XI
    (XO (XI (XI (XO (XI (XO (XO (XO (XO (XO (XO
    XH)))))))))))))))))) :: (((Zpos (XO (XO (XO (XO (XO (XO (XO (XO (XI (XI
    (XO (XO (XO (XO (XO (XO XH))))))))))))))))), (Zpos (XI (XI (XI (XI (XI
    (XO (XO (XO (XI (XI (XO (XO (XO (XO (XO (XO
    XH)))))))))))))))))) :: (((Zpos (XI (XO (XI (XI (XO (XI (XO (XO (XI (XI
    (XO (XO (XO (XO (XO (XO XH))))))))))))))))), (Zpos (XO (XI (XO (XI (XO
    (XO (XI (XO (XI (XI (XO (XO (XO (XO (XO (XO
    XH)))))))))))))))))) :: (((Zpos (XO (XO (XO (XO (XI (XO (XI (XO (XI (XI
    (XO (XO (XO (XO (XO (XO XH))))))))))))))))), (Zpos (XI (XO (XI (XO (XI
    (XI (XI (XO (XI (XI (XO (XO (XO (XO (XO (XO
    XH)))))))))))))))))) :: (((Zpos (XO (XO (XO (XO (XO (XO (XO (XI (XI (XI
    (XO (XO (XO (XO (XO (XO XH))))))))))))))))), (Zpos (XI (XO (XI (XI (XI
    (XO (XO (XI (XI (XI (XO (XO (XO (XO (XO (XO
    XH)))))))))))))))))) :: (((Zpos (XO (XO (XO (XO (XO (XI (XO (XI (XI (XI
    (XO (XO (XO (XO (XO (XO XH))))))))))))))))), (Zpos (XI (XI (XO (XO (XO
    (XO (XI (XI (XI (XI (XO (XO (XO (XO (XO (XO
    XH)))))))))))))))))) :: (((Zpos (XO (XO (XO (XI (XO (XO (XI (XI (XI (XI
    (XO (XO (XO (XO (XO (XO XH))))))))))))))))), (Zpos (XI (XI (XI (XI (XO
    (XO (XI (XI (XI (XI (XO (XO (XO (XO (XO (XO
    XH)))))))))))))))))) :: (((Zpos (XI (XO (XO (XO (XI (XO (XI (XI (XI (XI
    (XO (XO (XO (XO (XO (XO XH))))))))))))))))), (Zpos (XI (XO (XI (XO (XI
    (XO (XI (XI (XI (XI (XO (XO (XO (XO (XO (XO
    XH)))))))))))))))))) :: (((Zpos (XO (XO (XO (XO (XO (XO (XO (XO (XO (XO
    (XI (XO (XO (XO (XO (XO XH))))))))))))))))), (Zpos (XI (XO (XI (XI (XI
    (XO (XO (XI (XO (XO (XI (XO (XO (XO (XO (XO
    XH)))))))))))))))))) :: (((Zpos (XO (XO (XO (XO (XI (XI (XO (XI (XO (XO
    (XI (XO (XO (XO (XO (XO XH))))))))))))))))), (Zpos (XI (XI (XO (XO (XI
    (XO (XI (XI (XO (XO (XI (XO (XO (XO (XO (XO
    XH)))))))))))))))))) :: (((Zpos (XO (XO (XO (XI (XI (XO (XI (XI (XO (XO
    (XI (XO (XO (XO (XO (XO XH))))))))))))))))), (Zpos (XI (XI (XO (XI (XI
    (XI (XI (XI (XO (XO (XI (XO (XO (XO (XO (XO
    XH)))))))))))))))))) :: (((Zpos (XO (XO (XO (XO (XO (XO (XO (XO (XI (XO
    (XI (XO (XO (XO (XO (XO XH))))))))))))))))), (Zpos (XI (XI (XI (XO (XO
    (XI (XO (XO (XI (XO (XI (XO (XO (XO (XO (XO
    XH)))))))))))))))))) :: (((Zpos (XO (XO (XO (XO (XI (XI (XO (XO (XI (XO
    (XI (XO (XO (XO (XO (XO XH))))))))))))))))), (Zpos (XI (XI (XO (XO (XO
    (XI (XI (XO (XI (XO (XI (XO (XO (XO (XO (XO
    XH)))))))))))))))))) :: (((Zpos (XO (XO (XO (XO (XI (XI (XI (XO (XI (XO
    (XI (XO (XO (XO (XO (XO XH))))))))))))))))), (Zpos (XO (XI (XO (XI (XI
    (XI (XI (XO (XI (XO (XI (XO (XO (XO (XO (XO
    XH)))))))))))))))))) :: []))))))))))))))))))))))))) :: ((((Zpos (XO (XO
    (XI (XI (XI (XI (XI (XO (XI (XO (XI (XO (XO (XO (XO (XO
    XH))))))))))))))))), (Zpos (XI (XO (XI (XO (XI (XO (XO (XO (XI (XO (XO
    (XI (XO (XO (XO (XO XH)))))))))))))))))), (((Zpos (XO (XO (XI (XI (XI (XI
    (XI (XO (XI (XO (XI (XO (XO (XO (XO (XO XH))))))))))))))))), (Zpos (XO
    (XI (XO (XI (XO (XO (XO (XI (XI (XO (XI (XO (XO (XO (XO (XO
    XH)))))))))))))))))) :: (((Zpos (XO (XO (XI (XI (XO (XO (XO (XI (XI (XO
    (XI (XO (XO (XO (XO (XO XH))))))))))))))))), (Zpos (XO (XI (XO (XO (XI
    (XO (XO (XI (XI (XO (XI (XO (XO (XO (XO (XO
    XH)))))))))))))))))) :: (((Zpos (XO (XO (XI (XO (XI (XO (XO (XI (XI (XO
    (XI (XO (XO (XO (XO (XO XH))))))))))))))))), (Zpos (XI (XO (XI (XO (XI
    (XO (XO (XI (XI (XO (XI (XO (XO (XO (XO (XO
    XH)))))))))))))))))) :: (((Zpos (XI (XI (XI (XO (XI (XO (XO (XI (XI (XO
    (XI (XO (XO (XO (XO (XO XH))))))))))))))))), (Zpos (XI (XO (XO (XO (XO
    (XI (XO (XI (XI (XO (XI (XO (XO (XO (XO (XO
    XH)))))))))))))))))) :: (((Zpos (XI (XI (XO (XO (XO (XI (XO (XI (XI (XO
    (XI (XO (XO (XO (XO (XO XH))))))))))))))))), (Zpos (XI (XO (XO (XO (XI
    (XI (XO (XI (XI (XO (XI (XO (XO (XO (XO (XO
    XH)))))))))))))))))) :: (((Zpos (XI (XI (XO (XO (XI (XI (XO (XI (XI (XO
    (XI (XO (XO (XO (XO (XO XH))))))))))))))))), (Zpos (XI (XO (XO (XI (XI
    (XI (XO (XI (XI (XO (XI (XO (XO (XO (XO (XO
    XH)))))))))))))))))) :: (((Zpos (XI (XI (XO (XI (XI (XI (XO (XI (XI (XO
    (XI (XO (XO (XO (XO (XO XH))))))))))))))))), (Zpos (XO (XO (XI (XI (XI
    (XI (XO (XI (XI (XO (XI (XO (XO (XO (XO (XO
    XH)))))))))))))))))) :: (((Zpos (XO (XO (XO (XO (XO (XO (XO (XO (XO (XI
    (XI (XO (XO (XO (XO (XO XH))))))))))))))))), (Zpos (XO (XI (XI (XO (XI
    (XI (XO (XO (XI (XI (XI (XO (XO (XO (XO (XO
    XH)))))))))))))))))) :: (((Zpos (XO (XO (XO (XO (XO (XO (XI (XO (XI (XI
    (XI (XO (XO (XO (XO (XO XH))))))))))))))))), (Zpos (XI (XO (XI (XO (XI
    (XO (XI (XO (XI (XI (XI (XO (XO (XO (XO (XO
    XH)))))))))))))))))) :: (((Zpos (XO (XO (XO (XO (XO (XI (XI (XO (XI (XI
    (XI (XO (XO (XO (XO (XO XH))))))))))))))))), (Zpos (XI (XI (XI (XO (XO
    (XI (XI (XO (XI (XI (XI (XO (XO (XO (XO (XO
    XH)))))))))))))))))) :: (((Zpos (XO (XO (XO (XO (XO (XO (XO (XI (XI (XI
    (XI (XO (XO (XO (XO (XO XH))))))))))))))))), (Zpos (XI (XO (XI (XO (XO
    (XO (XO (XI (XI (XI (XI (XO (XO (XO (XO (XO
    XH)))))))))))))))))) :: (((Zpos (XI (XI (XI (XO (XO (XO (XO (XI (XI (XI
    (XI (XO (XO (XO (XO (XO XH))))))))))))))))), (Zpos (XO (XO (XO (XO (XI
    (XI (XO (XI (XI (XI (XI (XO (XO (XO (XO (XO
    XH)))))))))))))))))) :: (((Zpos (XO (XI (XO (XO (XI (XI (XO (XI (XI (XI
    (XI (XO (XO (XO (XO (XO XH))))))))))))))))), (Zpos (XO (XI (XO (XI (XI
    (XI (XO (XI (XI (XI (XI (XO (XO (XO (XO (XO
    XH)))))))))))))))))) :: (((Zpos (XO (XO (XO (XO (XO (XO (XO (XO (XO (XO
    (XO (XI (XO (XO (XO (XO XH))))))))))))))))), (Zpos (XI (XO (XI (XO (XO
    (XO (XO (XO (XO (XO (XO (XI (XO (XO (XO (XO
    XH)))))))))))))))))) :: (((Zpos (XO (XO (XO (XI (XO (XO (XO (XO (XO (XO
    (XO (XI (XO (XO (XO (XO XH))))))))))))))))), (Zpos (XO (XO (XO (XI (XO
    (XO (XO (XO (XO (XO (XO (XI (XO (XO (XO (XO
    XH)))))))))))))))))) :: (((Zpos (XO (XI (XO (XI (XO (XO (XO (XO (XO (XO
    (XO (XI (XO (XO (XO (XO XH))))))))))))))))), (Zpos (XI (XO (XI (XO (XI
    (XI (XO (XO (XO (XO (XO (XI (XO (XO (XO (XO
    XH)))))))))))))))))) :: (((Zpos (XI (XI (XI (XO (XI (XI (XO (XO (XO (XO
    (XO (XI (XO (XO (XO (XO XH))))))))))))))))), (Zpos (XO (XO (XO (XI (XI
    (XI (XO (XO (XO (XO (XO (XI (XO (XO (XO (XO
    XH)))))))))))))))))) :: (((Zpos (XO (XO (XI (XI (XI (XI (XO (XO (XO (XO
    (XO (XI (XO (XO (XO (XO XH))))))))))))))))), (Zpos (XO (XO (XI (XI (XI
    (XI (XO (XO (XO (XO (XO (XI (XO (XO (XO (XO
    XH)))))))))))))))))) :: (((Zpos (XI (XI (XI (XI (XI (XI (XO (XO (XO (XO
    (XO (XI (XO (XO (XO (XO XH))))))))))))))))), (Zpos (XI (XO (XI (XO (XI
    (XO (XI (XO (XO (XO (XO (XI (XO (XO (XO (XO
    XH)))))))))))))))))) :: (((Zpos (XO (XO (XO (XO (XO (XI (XI (XO (XO (XO
    (XO (XI (XO (XO (XO (XO XH))))))))))))))))), (Zpos (XO (XI (XI (XO (XI
    (XI (XI (XO (XO (XO (XO (XI (XO (XO (XO (XO
    XH)))))))))))))))))) :: (((Zpos (XO (XO (XO (XO (XO (XO (XO (XI (XO (XO
    (XO (XI (XO (XO (XO (XO XH))))))))))))))))), (Zpos (XO (XI (XI (XI (XI
    (XO (XO (XI (XO (XO (XO (XI (XO (XO (XO (XO
    XH)))))))))))))))))) :: (((Zpos (XO (XO (XO (XO (XO (XI (XI (XI (XO (XO
    (XO (XI (XO (XO (XO (XO XH))))))))))))))))), (Zpos (XO (XI (XO (XO (XI
    (XI (XI (XI (XO (XO (XO (XI (XO (XO (XO (XO
    XH)))))))))))))))))) :: (((Zpos (XO (XO (XI (XO (XI (XI (XI (XI (XO (XO
    (XO (XI (XO (XO (XO (XO XH))))))))))))))))), (Zpos (XI (XO (XI (XO (XI
    (XI (XI (XI (XO (XO (XO (XI (XO (XO (XO (XO
    XH)))))))))))))))))) :: (((Zpos (XO (XO (XO (XO (XO (XO (XO (XO (XI (XO
    (XO (XI (XO (XO (XO (XO XH))))))))))))))))), (Zpos (XI (XO (XI (XO (XI
    (XO (XO (XO (XI (XO (XO (XI (XO (XO (XO (XO
    XH)))))))))))))))))) :: []))))))))))))))))))))))))) :: ((((Zpos (XO (XO
    (XO (XO (XO (XI (XO (XO (XI (XO (XO (XI (XO (XO (XO (XO
    XH))))))))))))))))), (Zpos (XI (XO (XI (XO (XO (XO (XI (XO (XI (XI (XI
    (XI (XO (XO (XO (XO XH)))))))))))))))))), (((Zpos (XO (XO (XO (XO (XO (XI
    (XO (XO (XI (XO (XO (XI (XO (XO (XO (XO XH))))))))))))))))), (Zpos (XI
    (XO (XO (XI (XI (XI (XO (XO (XI (XO (XO (XI (XO (XO (XO (XO
    XH)))))))))))))))))) :: (((Zpos (XO (XO (XO (XO (XO (XO (XO (XI (XI (XO
    (XO (XI (XO (XO (XO (XO XH))))))))))))))))), (Zpos (XI (XI (XI (XO (XI
    (XI (XO (XI (XI (XO (XO (XI (XO (XO (XO (XO
    XH)))))))))))))))))) :: (((Zpos (XO (XI (XI (XI (XI (XI (XO (XI (XI (XO
    (XO (XI (XO (XO (XO (XO XH))))))))))))))))), (Zpos (XI (XI (XI (XI (XI
    (XI (XO (XI (XI (XO (XO (XI (XO (XO (XO (XO
    XH)))))))))))))))))) :: (((Zpos (XO (XO (XO (XO (XO (XO (XO (XO (XO (XI
    (XO (XI (XO (XO (XO (XO XH))))))))))))))))), (Zpos (XO (XO (XO (XO (XO
    (XO (XO (XO (XO (XI (XO (XI (XO (XO (XO (XO
    XH)))))))))))))))))) :: (((Zpos (XO (XO (XO (XO (XI (XO (XO (XO (XO (XI
    (XO (XI (XO (XO (XO (XO XH))))))))))))))))), (Zpos (XI (XI (XO (XO (XI
    (XO (XO (XO (XO (XI (XO (XI (XO (XO (XO (XO
    XH)))))))))))))))))) :: (((Zpos (XI (XO (XI (XO (XI (XO (XO (XO (XO (XI
    (XO (XI (XO (XO (XO (XO XH))))))))))))))))), (Zpos (XI (XI (XI (XO (XI
    (XO (XO (XO (XO (XI (XO (XI (XO (XO (XO (XO
    XH)))))))))))))))))) :: (((Zpos (XI (XO (XO (XI (XI (XO (XO (XO (XO (XI
    (XO (XI (XO (XO (XO (XO XH))))))))))))))))), (Zpos (XI (XO (XI (XO (XI
    (XI (XO (XO (XO (XI (XO (XI (XO (XO (XO (XO
    XH)))))))))))))))))) :: (((Zpos (XO (XO (XO (XO (XO (XI (XI (XO (XO (XI
    (XO (XI (XO (XO (XO (XO XH))))))))))))))))), (Zpos (XO (XO (XI (XI (XI
    (XI (XI (XO (XO (XI (XO (XI (XO (XO (XO (XO
    XH)))))))))))))))))) :: (((Zpos (XO (XO (XO (XO (XO (XO (XO (XI (XO (XI
    (XO (XI (XO (XO (XO (XO XH))))))))))))))))), (Zpos (XO (XO (XI (XI (XI
    (XO (XO (XI (XO (XI (XO (XI (XO (XO (XO (XO
    XH)))))))))))))))))) :: (((Zpos (XO (XO (XO (XO (XO (XO (XI (XI (XO (XI
    (XO (XI (XO (XO (XO (XO XH))))))))))))))))), (Zpos (XI (XI (XI (XO (XO
    (XO (XI (XI (XO (XI (XO (XI (XO (XO (XO (XO
    XH)))))))))))))))))) :: (((Zpos (XI (XO (XO (XI (XO (XO (XI (XI (XO (XI
    (XO (XI (XO (XO (XO (XO XH))))))))))))))))), (Zpos (XO (XO (XI (XO (XO
    (XI (XI (XI (XO (XI (XO (XI (XO (XO (XO (XO
    XH)))))))))))))))))) :: (((Zpos (XO (XO (XO (XO (XO (XO (XO (XO (XI (XI
    (XO (XI (XO (XO (XO (XO XH))))))))))))))))), (Zpos (XI (XO (XI (XO (XI
    (XI (XO (XO (XI (XI (XO (XI (XO (XO (XO (XO
    XH)))))))))))))))))) :: (((Zpos (XO (XO (XO (XO (XO (XO (XI (XO (XI (XI
    (XO (XI (XO (XO (XO (XO XH))))))))))))))))), (Zpos (XI (XO (XI (XO (XI
    (XO (XI (XO (XI (XI (XO (XI (XO (XO (XO (XO
    XH)))))))))))))))))) :: (((Zpos (XO (XO (XO (XO (XO (XI (XI (XO (XI (XI
    (XO (XI (XO (XO (XO (XO XH))))))))))))))))), (Zpos (XO (XI (XO (XO (XI
    (XI (XI (XO (XI (XI (XO (XI (XO (XO (XO (XO
    XH)))))))))))))))))) :: (((Zpos (XO (XO (XO (XO (XO (XO (XO (XI (XI (XI
    (XO (XI (XO (XO (XO (XO XH))))))))))))))))), (Zpos (XI (XO (XO (XO (XI
    (XO (XO (XI (XI (XI (XO (XI (XO (XO (XO (XO
    XH)))))))))))))))))) :: (((Zpos (XO (XO (XO (XO (XO (XO (XO (XO (XO (XO
    (XI (XI (XO (XO (XO (XO XH))))))))))))))))), (Zpos (XO (XO (XO (XI (XO
    (XO (XI (XO (XO (XO (XI (XI (XO (XO (XO (XO
    XH)))))))))))))))))) :: (((Zpos (XO (XO (XO (XO (XO (XO (XO (XI (XO (XO
    (XI (XI (XO (XO (XO (XO XH))))))))))))))))), (Zpos (XO (XI (XO (XO (XI
    (XI (XO (XI (XO (XO (XI (XI (XO (XO (XO (XO
    XH)))))))))))))))))) :: (((Zpos (XO (XO (XO (XO (XO (XO (XI (XI (XO (XO
    (XI (XI (XO (XO (XO (XO XH))))))))))))))))), (Zpos (XO (XI (XO (XO (XI
    (XI (XI (XI (XO (XO (XI (XI (XO (XO (XO (XO
    XH)))))))))))))))))) :: (((Zpos (XO (XO (XO (XO (XO (XO (XO (XO (XI (XO
    (XI (XI (XO (XO (XO (XO XH))))))))))))))))), (Zpos (XI (XI (XO (XO (XO
    (XI (XO (XO (XI (XO (XI (XI (XO (XO (XO (XO
    XH)))))))))))))))))) :: (((Zpos (XO (XO (XO (XO (XO (XO (XO (XI (XO (XI
    (XI (XI (XO (XO (XO (XO XH))))))))))))))))), (Zpos (XI (XO (XO (XI (XO
    (XI (XO (XI (XO (XI (XI (XI (XO (XO (XO (XO
    XH)))))))))))))))))) :: (((Zpos (XO (XO (XO (XO (XI (XI (XO (XI (XO (XI
    (XI (XI (XO (XO (XO (XO XH))))))))))))))))), (Zpos (XI (XO (XO (XO (XI
    (XI (XO (XI (XO (XI (XI (XI (XO (XO (XO (XO
    XH)))))))))))))))))) :: (((Zpos (XO (XO (XO (XO (XO (XO (XO (XO (XI (XI
    (XI (XI (XO (XO (XO (XO XH))))))))))))))))), (Zpos (XO (XO (XI (XI (XI
    (XO (XO (XO (XI (XI (XI (XI (XO (XO (XO (XO
    XH)))))))))))))))))) :: (((Zpos (XI (XI (XI (XO (XO (XI (XO (XO (XI (XI
    (XI (XI (XO (XO (XO (XO XH))))))))))))))))), (Zpos (XI (XI (XI (XO (XO
    (XI (XO (XO (XI (XI (XI (XI (XO (XO (XO (XO
    XH)))))))))))))))))) :: (((Zpos (XO (XO (XO (XO (XI (XI (XO (XO (XI (XI
    (XI (XI (XO (XO (XO (XO XH))))))))))))))))), (Zpos (XI (XO (XI (XO (XO
    (XO (XI (XO (XI (XI (XI (XI (XO (XO (XO (XO
    XH)))))))))))))))))) :: []))))))))))))))))))))))))) :: ((((Zpos (XO (XO
    (XO (XO (XI (XI (XI (XO (XI (XI (XI (XI (XO (XO (XO (XO
    XH))))))))))))))))), (Zpos (XI (XO (XI (XI (XI (XO (XO (XI (XO (XI (XO
    (XO (XI (XO (XO (XO XH)))))))))))))))))), (((Zpos (XO (XO (XO (XO (XI (XI
    (XI (XO (XI (XI (XI (XI (XO (XO (XO (XO XH))))))))))))))))), (Zpos (XI
    (XO (XO (XO (XO (XO (XO (XI (XI (XI (XI (XI (XO (XO (XO (XO
    XH)))))))))))))))))) :: (((Zpos (XO (XO (XO (XO (XI (XI (XO (XI (XI (XI
    (XI (XI (XO (XO (XO (XO XH))))))))))))))))), (Zpos (XO (XO (XI (XO (XO
    (XO (XI (XI (XI (XI (XI (XI (XO (XO (XO (XO
    XH)))))))))))))))))) :: (((Zpos (XO (XO (XO (XO (XO (XI (XI (XI (XI (XI
    (XI (XI (XO (XO (XO (XO XH))))))))))))))))), (Zpos (XO (XI (XI (XO (XI
    (XI (XI (XI (XI (XI (XI (XI (XO (XO (XO (XO
    XH)))))))))))))))))) :: (((Zpos (XI (XI (XO (XO (XO (XO (XO (XO (XO (XO
    (XO (XO (XI (XO (XO (XO XH))))))))))))))))), (Zpos (XI (XI (XI (XO (XI
    (XI (XO (XO (XO (XO (XO (XO (XI (XO (XO (XO
    XH)))))))))))))))))) :: (((Zpos (XI (XO (XO (XO (XI (XI (XI (XO (XO (XO
    (XO (XO (XI (XO (XO (XO XH))))))))))))))))), (Zpos (XO (XI (XO (XO (XI
    (XI (XI (XO (XO (XO (XO (XO (XI (XO (XO (XO
    XH)))))))))))))))))) :: (((Zpos (XI (XO (XI (XO (XI (XI (XI (XO (XO (XO
    (XO (XO (XI (XO (XO (XO XH))))))))))))))))), (Zpos (XI (XO (XI (XO (XI
    (XI (XI (XO (XO (XO (XO (XO (XI (XO (XO (XO
    XH)))))))))))))))))) :: (((Zpos (XI (XI (XO (XO (XO (XO (XO (XI (XO (XO
    (XO (XO (XI (XO (XO (XO XH))))))))))))))))), (Zpos (XI (XI (XI (XI (XO
    (XI (XO (XI (XO (XO (XO (XO (XI (XO (XO (XO
    XH)))))))))))))))))) :: (((Zpos (XO (XO (XO (XO (XI (XO (XI (XI (XO (XO
    (XO (XO (XI (XO (XO (XO XH))))))))))))))))), (Zpos (XO (XO (XO (XI (XO
    (XI (XI (XI (XO (XO (XO (XO (XI (XO (XO (XO
    XH)))))))))))))))))) :: (((Zpos (XI (XI (XO (XO (XO (XO (XO (XO (XI (XO
    (XO (XO (XI (XO (XO (XO XH))))))))))))))))), (Zpos (XO (XI (XI (XO (XO
    (XI (XO (XO (XI (XO (XO (XO (XI (XO (XO (XO
    XH)))))))))))))))))) :: (((Zpos (XO (XO (XI (XO (XO (XO (XI (XO (XI (XO
    (XO (XO (XI (XO (XO (XO XH))))))))))))))))), (Zpos (XO (XO (XI (XO (XO
    (XO (XI (XO (XI (XO (XO (XO (XI (XO (XO (XO
    XH)))))))))))))))))) :: (((Zpos (XI (XI (XI (XO (XO (XO (XI (XO (XI (XO
    (XO (XO (XI (XO (XO (XO XH))))))))))))))))), (Zpos (XI (XI (XI (XO (XO
    (XO (XI (XO (XI (XO (XO (XO (XI (XO (XO (XO
    XH)))))))))))))))))) :: (((Zpos (XO (XO (XO (XO (XI (XO (XI (XO (XI (XO
    (XO (XO (XI (XO (XO (XO XH))))))))))))))))), (Zpos (XO (XI (XO (XO (XI
    (XI (XI (XO (XI (XO (XO (XO (XI (XO (XO (XO
    XH)))))))))))))))))) :: (((Zpos (XO (XI (XI (XO (XI (XI (XI (XO (XI (XO
    (XO (XO (XI (XO (XO (XO XH))))))))))))))))), (Zpos (XO (XI (XI (XO (XI
    (XI (XI (XO (XI (XO (XO (XO (XI (XO (XO (XO
    XH)))))))))))))))))) :: (((Zpos (XI (XI (XO (XO (XO (XO (XO (XI (XI (XO
    (XO (XO (XI (XO (XO (XO XH))))))))))))))))), (Zpos (XO (XI (XO (XO (XI
    (XI (XO (XI (XI (XO (XO (XO (XI (XO (XO (XO
    XH)))))))))))))))))) :: (((Zpos (XI (XO (XO (XO (XO (XO (XI (XI (XI (XO
    (XO (XO (XI (XO (XO (XO XH))))))))))))))))), (Zpos (XO (XO (XI (XO (XO
    (XO (XI (XI (XI (XO (XO (XO (XI (XO (XO (XO
    XH)))))))))))))))))) :: (((Zpos (XO (XI (XO (XI (XI (XO (XI (XI (XI (XO
    (XO (XO (XI (XO (XO (XO XH))))))))))))))))), (Zpos (XO (XI (XO (XI (XI
    (XO (XI (XI (XI (XO (XO (XO (XI (XO (XO (XO
    XH)))))))))))))))))) :: (((Zpos (XO (XO (XI (XI (XI (XO (XI (XI (XI (XO
    (XO (XO (XI (XO (XO (XO XH))))))))))))))))), (Zpos (XO (XO (XI (XI (XI
    (XO (XI (XI (XI (XO (XO (XO (XI (XO (XO (XO
    XH)))))))))))))))))) :: (((Zpos (XO (XO (XO (XO (XO (XO (XO (XO (XO (XI
    (XO (XO (XI (XO (XO (XO XH))))))))))))))))), (Zpos (XI (XO (XO (XO (XI
    (XO (XO (XO (XO (XI (XO (XO (XI (XO (XO (XO
    XH)))))))))))))))))) :: (((Zpos (XI (XI (XO (XO (XI (XO (XO (XO (XO (XI
    (XO (XO (XI (XO (XO (XO XH))))))))))))))))), (Zpos (XI (XI (XO (XI (XO
    (XI (XO (XO (XO (XI (XO (XO (XI (XO (XO (XO
    XH)))))))))))))))))) :: (((Zpos (XI (XI (XI (XI (XI (XI (XO (XO (XO (XI
    (XO (XO (XI (XO (XO (XO XH))))))))))))))))), (Zpos (XO (XO (XO (XO (XO
    (XO (XI (XO (XO (XI (XO (XO (XI (XO (XO (XO
    XH)))))))))))))))))) :: (((Zpos (XO (XO (XO (XO (XO (XO (XO (XI (XO (XI
    (XO (XO (XI (XO (XO (XO XH))))))))))))))))), (Zpos (XO (XI (XI (XO (XO
    (XO (XO (XI (XO (XI (XO (XO (XI (XO (XO (XO
    XH)))))))))))))))))) :: (((Zpos (XO (XO (XO (XI (XO (XO (XO (XI (XO (XI
    (XO (XO (XI (XO (XO (XO XH))))))))))))))))), (Zpos (XO (XO (XO (XI (XO
    (XO (XO (XI (XO (XI (XO (XO (XI (XO (XO (XO
    XH)))))))))))))))))) :: (((Zpos (XO (XI (XO (XI (XO (XO (XO (XI (XO (XI
    (XO (XO (XI (XO (XO (XO XH))))))))))))))))), (Zpos (XI (XO (XI (XI (XO
    (XO (XO (XI (XO (XI (XO (XO (XI (XO (XO (XO
    XH)))))))))))))))))) :: (((Zpos (XI (XI (XI (XI (XO (XO (XO (XI (XO (XI
    (XO (XO (XI (XO (XO (XO XH))))))))))))))))), (Zpos (XI (XO (XI (XI (XI
    (XO (XO (XI (XO (XI (XO (XO (XI (XO (XO (XO
    XH)))))))))))))))))) :: []))))))))))))))))))))))))) :: ((((Zpos (XI (XI
    (XI (XI (XI (XO (XO (XI (XO (XI (XO (XO (XI (XO (XO (XO
    XH))))))))))))))))), (Zpos (XO (XI (XO (XI (XI (XO (XO (XO (XI (XI (XI
    (XO (XI (XO (XO (XO XH)))))))))))))))))), (((Zpos (XI (XI (XI (XI (XI (XO
    (XO (XI (XO (XI (XO (XO (XI (XO (XO (XO XH))))))))))))))))), (Zpos (XO
    (XO (XO (XI (XO (XI (XO (XI (XO (XI (XO (XO (XI (XO (XO (XO
    XH)))))))))))))))))) :: (((Zpos (XO (XO (XO (XO (XI (XI (XO (XI (XO (XI
    (XO (XO (XI (XO (XO (XO XH))))))))))))))))), (Zpos (XO (XI (XI (XI (XI
    (XO (XI (XI (XO (XI (XO (XO (XI (XO (XO (XO
    XH)))))))))))))))))) :: (((Zpos (XI (XO (XI (XO (XO (XO (XO (XO (XI (XI
    (XO (XO (XI (XO (XO (XO XH))))))))))))))))), (Zpos (XO (XO (XI (XI (XO
    (XO (XO (XO (XI (XI (XO (XO (XI (XO (XO (XO
    XH)))))))))))))))))) :: (((Zpos (XI (XI (XI (XI (XO (XO (XO (XO (XI (XI
    (XO (XO (XI (XO (XO (XO XH))))))))))))))))), (Zpos (XO (XO (XO (XO (XI
    (XO (XO (XO (XI (XI (XO (XO (XI (XO (XO (XO
    XH)))))))))))))))))) :: (((Zpos (XI (XI (XO (XO (XI (XO (XO (XO (XI (XI
    (XO (XO (XI (XO (XO (XO XH))))))))))))))))), (Zpos (XO (XO (XO (XI (XO
    (XI (XO (XO (XI (XI (XO (XO (XI (XO (XO (XO
    XH)))))))))))))))))) :: (((Zpos (XO (XI (XO (XI (XO (XI (XO (XO (XI (XI
    (XO (XO (XI (XO (XO (XO XH))))))))))))))))), (Zpos (XO (XO (XO (XO (XI
    (XI (XO (XO (XI (XI (XO (XO (XI (XO (XO (XO
    XH)))))))))))))))))) :: (((Zpos (XO (XI (XO (XO (XI (XI (XO (XO (XI (XI
    (XO (XO (XI (XO (XO (XO XH))))))))))))))))), (Zpos (XI (XI (XO (XO (XI
    (XI (XO (XO (XI (XI (XO (XO (XI (XO (XO (XO
    XH)))))))))))))))))) :: (((Zpos (XI (XO (XI (XO (XI (XI (XO (XO (XI (XI
    (XO (XO (XI (XO (XO (XO XH))))))))))))))))), (Zpos (XI (XO (XO (XI (XI
    (XI (XO (XO (XI (XI (XO (XO (XI (XO (XO (XO
    XH)))))))))))))))))) :: (((Zpos (XI (XO (XI (XI (XI (XI (XO (XO (XI (XI
    (XO (XO (XI (XO (XO (XO XH))))))))))))))))), (Zpos (XI (XO (XI (XI (XI
    (XI (XO (XO (XI (XI (XO (XO (XI (XO (XO (XO
    XH)))))))))))))))))) :: (((Zpos (XO (XO (XO (XO (XI (XO (XI (XO (XI (XI
    (XO (XO (XI (XO (XO (XO XH))))))))))))))))), (Zpos (XO (XO (XO (XO (XI
    (XO (XI (XO (XI (XI (XO (XO (XI (XO (XO (XO
    XH)))))))))))))))))) :: (((Zpos (XI (XO (XI (XI (XI (XO (XI (XO (XI (XI
    (XO (XO (XI (XO (XO (XO XH))))))))))))))))), (Zpos (XI (XO (XO (XO (XO
    (XI (XI (XO (XI (XI (XO (XO (XI (XO (XO (XO
    XH)))))))))))))))))) :: (((Zpos (XO (XO (XO (XO (XO (XO (XO (XO (XO (XO
    (XI (XO (XI (XO (XO (XO XH))))))))))))))))), (Zpos (XO (XO (XI (XO (XI
    (XI (XO (XO (XO (XO (XI (XO (XI (XO (XO (XO
    XH)))))))))))))))))) :: (((Zpos (XI (XI (XI (XO (XO (XO (XI (XO (XO (XO
    (XI (XO (XI (XO (XO (XO XH))))))))))))))))), (Zpos (XO (XI (XO (XI (XO
    (XO (XI (XO (XO (XO (XI (XO (XI (XO (XO (XO
    XH)))))))))))))))))) :: (((Zpos (XI (XI (XI (XI (XI (XO (XI (XO (XO (XO
    (XI (XO (XI (XO (XO (XO XH))))))))))))))))), (Zpos (XI (XO (XO (XO (XO
    (XI (XI (XO (XO (XO (XI (XO (XI (XO (XO (XO
    XH)))))))))))))))))) :: (((Zpos (XO (XO (XO (XO (XO (XO (XO (XI (XO (XO
    (XI (XO (XI (XO (XO (XO XH))))))))))))))))), (Zpos (XI (XI (XI (XI (XO
    (XI (XO (XI (XO (XO (XI (XO (XI (XO (XO (XO
    XH)))))))))))))))))) :: (((Zpos (XO (XO (XI (XO (XO (XO (XI (XI (XO (XO
    (XI (XO (XI (XO (XO (XO XH))))))))))))))))), (Zpos (XI (XO (XI (XO (XO
    (XO (XI (XI (XO (XO (XI (XO (XI (XO (XO (XO
    XH)))))))))))))))))) :: (((Zpos (XI (XI (XI (XO (XO (XO (XI (XI (XO (XO
    (XI (XO (XI (XO (XO (XO XH))))))))))))))))), (Zpos (XI (XI (XI (XO (XO
    (XO (XI (XI (XO (XO (XI (XO (XI (XO (XO (XO
    XH)))))))))))))))))) :: (((Zpos (XO (XO (XO (XO (XO (XO (XO (XI (XI (XO
    (XI (XO (XI (XO (XO (XO XH))))))))))))))))), (Zpos (XO (XI (XI (XI (XO
    (XI (XO (XI (XI (XO (XI (XO (XI (XO (XO (XO
    XH)))))))))))))))))) :: (((Zpos (XO (XO (XO (XI (XI (XO (XI (XI (XI (XO
    (XI (XO (XI (XO (XO (XO XH))))))))))))))))), (Zpos (XI (XI (XO (XI (XI
    (XO (XI (XI (XI (XO (XI (XO (XI (XO (XO (XO
    XH)))))))))))))))))) :: (((Zpos (XO (XO (XO (XO (XO (XO (XO (XO (XO (XI
    (XI (XO (XI (XO (XO (XO XH))))))))))))))))), (Zpos (XI (XI (XI (XI (XO
    (XI (XO (XO (XO (XI (XI (XO (XI (XO (XO (XO
    XH)))))))))))))))))) :: (((Zpos (XO (XO (XI (XO (XO (XO (XI (XO (XO (XI
    (XI (XO (XI (XO (XO (XO XH))))))))))))))))), (Zpos (XO (XO (XI (XO (XO
    (XO (XI (XO (XO (XI (XI (XO (XI (XO (XO (XO
    XH)))))))))))))))))) :: (((Zpos (XO (XO (XO (XO (XO (XO (XO (XI (XO (XI
    (XI (XO (XI (XO (XO (XO XH))))))))))))))))), (Zpos (XO (XI (XO (XI (XO
    (XI (XO (XI (XO (XI (XI (XO (XI (XO (XO (XO
    XH)))))))))))))))))) :: (((Zpos (XO (XO (XO (XI (XI (XI (XO (XI (XO (XI
    (XI (XO (XI (XO (XO (XO XH))))))))))))))))), (Zpos (XO (XO (XO (XI (XI
    (XI (XO (XI (XO (XI (XI (XO (XI (XO (XO (XO
    XH)))))))))))))))))) :: (((Zpos (XO (XO (XO (XO (XO (XO (XO (XO (XI (XI
    (XI (XO (XI (XO (XO (XO XH))))))))))))))))), (Zpos (XO (XI (XO (XI (XI
    (XO (XO (XO (XI (XI (XI (XO (XI (XO (XO (XO
    XH)))))))))))))))))) :: []))))))))))))))))))))))))) :: ((((Zpos (XO (XO
    (XO (XO (XO (XO (XI (XO (XI (XI (XI (XO (XI (XO (XO (XO
    XH))))))))))))))))), (Zpos (XO (XO (XO (XO (XO (XO (XI (XO (XO (XO (XI
    (XI (XI (XO (XO (XO XH)))))))))))))))))), (((Zpos (XO (XO (XO (XO (XO (XO
    (XI (XO (XI (XI (XI (XO (XI (XO (XO (XO XH))))))))))))))))), (Zpos (XO
    (XI (XI (XO (XO (XO (XI (XO (XI (XI (XI (XO (XI (XO (XO (XO
    XH)))))))))))))))))) :: (((Zpos (XO (XO (XO (XO (XO (XO (XO (XO (XO (XO
    (XO (XI (XI (XO (XO (XO XH))))))))))))))))), (Zpos (XI (XI (XO (XI (XO
    (XI (XO (XO (XO (XO (XO (XI (XI (XO (XO (XO
    XH)))))))))))))))))) :: (((Zpos (XO (XO (XO (XO (XO (XI (XO (XI (XO (XO
    (XO (XI (XI (XO (XO (XO XH))))))))))))))))), (Zpos (XI (XI (XI (XI (XI
    (XO (XI (XI (XO (XO (XO (XI (XI (XO (XO (XO
    XH)))))))))))))))))) :: (((Zpos (XI (XI (XI (XI (XI (XI (XI (XI (XO (XO
    (XO (XI (XI (XO (XO (XO XH))))))))))))))))), (Zpos (XO (XI (XI (XO (XO
    (XO (XO (XO (XI (XO (XO (XI (XI (XO (XO (XO
    XH)))))))))))))))))) :: (((Zpos (XI (XO (XO (XI (XO (XO (XO (XO (XI (XO
    (XO (XI (XI (XO (XO (XO XH))))))))))))))))), (Zpos (XI (XO (XO (XI (XO
    (XO (XO (XO (XI (XO (XO (XI (XI (XO (XO (XO
    XH)))))))))))))))))) :: (((Zpos (XO (XO (XI (XI (XO (XO (XO (XO (XI (XO
    (XO (XI (XI (XO (XO (XO XH))))))))))))))))), (Zpos (XI (XI (XO (XO (XI
    (XO (XO (XO (XI (XO (XO (XI (XI (XO (XO (XO
    XH)))))))))))))))))) :: (((Zpos (XI (XO (XI (XO (XI (XO (XO (XO (XI (XO
    (XO (XI (XI (XO (XO (XO XH))))))))))))))))), (Zpos (XO (XI (XI (XO (XI
    (XO (XO (XO (XI (XO (XO (XI (XI (XO (XO (XO
    XH)))))))))))))))))) :: (((Zpos (XO (XO (XO (XI (XI (XO (XO (XO (XI (XO
    (XO (XI (XI (XO (XO (XO XH))))))))))))))))), (Zpos (XI (XI (XI (XI (XO
    (XI (XO (XO (XI (XO (XO (XI (XI (XO (XO (XO
    XH)))))))))))))))))) :: (((Zpos (XI (XI (XI (XI (XI (XI (XO (XO (XI (XO
    (XO (XI (XI (XO (XO (XO XH))))))))))))))))), (Zpos (XI (XI (XI (XI (XI
    (XI (XO (XO (XI (XO (XO (XI (XI (XO (XO (XO
    XH)))))))))))))))))) :: (((Zpos (XI (XO (XO (XO (XO (XO (XI (XO (XI (XO
    (XO (XI (XI (XO (XO (XO XH))))))))))))))))), (Zpos (XI (XO (XO (XO (XO
    (XO (XI (XO (XI (XO (XO (XI (XI (XO (XO (XO
    XH)))))))))))))))))) :: (((Zpos (XO (XO (XO (XO (XO (XI (XO (XI (XI (XO
    (XO (XI (XI (XO (XO (XO XH))))))))))))))))), (Zpos (XI (XI (XI (XO (XO
    (XI (XO (XI (XI (XO (XO (XI (XI (XO (XO (XO
    XH)))))))))))))))))) :: (((Zpos (XO (XI (XO (XI (XO (XI (XO (XI (XI (XO
    (XO (XI (XI (XO (XO (XO XH))))))))))))))))), (Zpos (XO (XO (XO (XO (XI
    (XO (XI (XI (XI (XO (XO (XI (XI (XO (XO (XO
    XH)))))))))))))))))) :: (((Zpos (XI (XO (XO (XO (XO (XI (XI (XI (XI (XO
    (XO (XI (XI (XO (XO (XO XH))))))))))))))))), (Zpos (XI (XO (XO (XO (XO
    (XI (XI (XI (XI (XO (XO (XI (XI (XO (XO (XO
    XH)))))))))))))))))) :: (((Zpos (XI (XI (XO (XO (XO (XI (XI (XI (XI (XO
    (XO (XI (XI (XO (XO (XO XH))))))))))))))))), (Zpos (XI (XI (XO (XO (XO
    (XI (XI (XI (XI (XO (XO (XI (XI (XO (XO (XO
    XH)))))))))))))))))) :: (((Zpos (XO (XO (XO (XO (XO (XO (XO (XO (XO (XI
    (XO (XI (XI (XO (XO (XO XH))))))))))))))))), (Zpos (XO (XO (XO (XO (XO
    (XO (XO (XO (XO (XI (XO (XI (XI (XO (XO (XO
    XH)))))))))))))))))) :: (((Zpos (XI (XI (XO (XI (XO (XO (XO (XO (XO (XI
    (XO (XI (XI (XO (XO (XO XH))))))))))))))))), (Zpos (XO (XI (XO (XO (XI
    (XI (XO (XO (XO (XI (XO (XI (XI (XO (XO (XO
    XH)))))))))))))))))) :: (((Zpos (XO (XI (XO (XI (XI (XI (XO (XO (XO (XI
    (XO (XI (XI (XO (XO (XO XH))))))))))))))))), (Zpos (XO (XI (XO (XI (XI
    (XI (XO (XO (XO (XI (XO (XI (XI (XO (XO (XO
    XH)))))))))))))))))) :: (((Zpos (XO (XO (XO (XO (XI (XO (XI (XO (XO (XI
    (XO (XI (XI (XO (XO (XO XH))))))))))))))))), (Zpos (XO (XO (XO (XO (XI
    (XO (XI (XO (XO (XI (XO (XI (XI (XO (XO (XO
    XH)))))))))))))))))) :: (((Zpos (XO (XO (XI (XI (XI (XO (XI (XO (XO (XI
    (XO (XI (XI (XO (XO (XO XH))))))))))))))))), (Zpos (XI (XO (XO (XI (XO
    (XO (XO (XI (XO (XI (XO (XI (XI (XO (XO (XO
    XH)))))))))))))))))) :: (((Zpos (XI (XO (XI (XI (XI (XO (XO (XI (XO (XI
    (XO (XI (XI (XO (XO (XO XH))))))))))))))))), (Zpos (XI (XO (XI (XI (XI
    (XO (XO (XI (XO (XI (XO (XI (XI (XO (XO (XO
    XH)))))))))))))))))) :: (((Zpos (XO (XO (XO (XO (XI (XI (XO (XI (XO (XI
    (XO (XI (XI (XO (XO (XO XH))))))))))))))))), (Zpos (XO (XO (XO (XI (XI
    (XI (XI (XI (XO (XI (XO (XI (XI (XO (XO (XO
    XH)))))))))))))))))) :: (((Zpos (XO (XO (XO (XO (XO (XO (XO (XO (XO (XO
    (XI (XI (XI (XO (XO (XO XH))))))))))))))))), (Zpos (XO (XO (XO (XI (XO
    (XO (XO (XO (XO (XO (XI (XI (XI (XO (XO (XO
    XH)))))))))))))))))) :: (((Zpos (XO (XI (XO (XI (XO (XO (XO (XO (XO (XO
    (XI (XI (XI (XO (XO (XO XH))))))))))))))))), (Zpos (XO (XI (XI (XI (XO
    (XI (XO (XO (XO (XO (XI (XI (XI (XO (XO (XO
    XH)))))))))))))))))) :: (((Zpos (XO (XO (XO (XO (XO (XO (XI (XO (XO (XO
    (XI (XI (XI (XO (XO (XO XH))))))))))))))))), (Zpos (XO (XO (XO (XO (XO
    (XO (XI (XO (XO (XO (XI (XI (XI (XO (XO (XO
    XH)))))))))))))))))) :: []))))))))))))))))))))))))) :: ((((Zpos (XO (XI
    (XO (XO (XI (XI (XI (XO (XO (XO (XI (XI (XI (XO (XO (XO
    XH))))))))))))))))), (Zpos (XO (XI (XI (XI (XI (XI (XO (XI (XO (XI (XO
    (XI (XO (XI (XI (XO XH)))))))))))))))))), (((Zpos (XO (XI (XO (XO (XI (XI
    (XI (XO (XO (XO (XI (XI (XI (XO (XO (XO XH))))))))))))))))), (Zpos (XI
    (XI (XI (XI (XO (XO (XO (XI (XO (XO (XI (XI (XI (XO (XO (XO
    XH)))))))))))))))))) :: (((Zpos (XO (XO (XO (XO (XO (XO (XO (XO (XI (XO
    (XI (XI (XI (XO (XO (XO XH))))))))))))))))), (Zpos (XO (XI (XI (XO (XO
    (XO (XO (XO (XI (XO (XI (XI (XI (XO (XO (XO
    XH)))))))))))))))))) :: (((Zpos (XO (XO (XO (XI (XO (XO (XO (XO (XI (XO
    (XI (XI (XI (XO (XO (XO XH))))))))))))))))), (Zpos (XI (XO (XO (XI (XO
    (XO (XO (XO (XI (XO (XI (XI (XI (XO (XO (XO
    XH)))))))))))))))))) :: (((Zpos (XI (XI (XO (XI (XO (XO (XO (XO (XI (XO
    (XI (XI (XI (XO (XO (XO XH))))))))))))))))), (Zpos (XO (XO (XO (XO (XI
    (XI (XO (XO (XI (XO (XI (XI (XI (XO (XO (XO
    XH)))))))))))))))))) :: (((Zpos (XO (XI (XI (XO (XO (XO (XI (XO (XI (XO
    (XI (XI (XI (XO (XO (XO XH))))))))))))))))), (Zpos (XO (XI (XI (XO (XO
    (XO (XI (XO (XI (XO (XI (XI (XI (XO (XO (XO
    XH)))))))))))))))))) :: (((Zpos (XO (XO (XO (XO (XO (XI (XI (XO (XI (XO
    (XI (XI (XI (XO (XO (XO XH))))))))))))))))), (Zpos (XI (XO (XI (XO (XO
    (XI (XI (XO (XI (XO (XI (XI (XI (XO (XO (XO
    XH)))))))))))))))))) :: (((Zpos (XI (XI (XI (XO (XO (XI (XI (XO (XI (XO
    (XI (XI (XI (XO (XO (XO XH))))))))))))))))), (Zpos (XO (XO (XO (XI (XO
    (XI (XI (XO (XI (XO (XI (XI (XI (XO (XO (XO
    XH)))))))))))))))))) :: (((Zpos (XO (XI (XO (XI (XO (XI (XI (XO (XI (XO
    (XI (XI (XI (XO (XO (XO XH))))))))))))))))), (Zpos (XI (XO (XO (XI (XO
    (XO (XO (XI (XI (XO (XI (XI (XI (XO (XO (XO
    XH)))))))))))))))))) :: (((Zpos (XO (XO (XO (XI (XI (XO (XO (XI (XI (XO
    (XI (XI (XI (XO (XO (XO XH))))))))))))))))), (Zpos (XO (XO (XO (XI (XI
    (XO (XO (XI (XI (XO (XI (XI (XI (XO (XO (XO
    XH)))))))))))))))))) :: (((Zpos (XO (XO (XO (XO (XO (XI (XI (XI (XO (XI
    (XI (XI (XI (XO (XO (XO XH))))))))))))))))), (Zpos (XO (XI (XO (XO (XI
    (XI (XI (XI (XO (XI (XI (XI (XI (XO (XO (XO
    XH)))))))))))))))))) :: (((Zpos (XO (XI (XO (XO (XO (XO (XO (XO (XI (XI
    (XI (XI (XI (XO (XO (XO XH))))))))))))))))), (Zpos (XO (XI (XO (XO (XO
    (XO (XO (XO (XI (XI (XI (XI (XI (XO (XO (XO
    XH)))))))))))))))))) :: (((Zpos (XO (XO (XI (XO (XO (XO (XO (XO (XI (XI
    (XI (XI (XI (XO (XO (XO XH))))))))))))))))), (Zpos (XO (XO (XO (XO (XI
    (XO (XO (XO (XI (XI (XI (XI (XI (XO (XO (XO
    XH)))))))))))))))))) :: (((Zpos (XO (XI (XO (XO (XI (XO (XO (XO (XI (XI
    (XI (XI (XI (XO (XO (XO XH))))))))))))))))), (Zpos (XI (XI (XO (XO (XI
    (XI (XO (XO (XI (XI (XI (XI (XI (XO (XO (XO
    XH)))))))))))))))))) :: (((Zpos (XO (XO (XO (XO (XI (XI (XO (XI (XI (XI
    (XI (XI (XI (XO (XO (XO XH))))))))))))))))), (Zpos (XO (XO (XO (XO (XI
    (XI (XO (XI (XI (XI (XI (XI (XI (XO (XO (XO
    XH)))))))))))))))))) :: (((Zpos (XO (XO (XO (XO (XO (XO (XO (XO (XO (XO
    (XO (XO (XO (XI (XO (XO XH))))))))))))))))), (Zpos (XI (XO (XO (XI (XI
    (XO (XO (XI (XI (XI (XO (XO (XO (XI (XO (XO
    XH)))))))))))))))))) :: (((Zpos (XO (XO (XO (XO (XO (XO (XO (XO (XO (XO
    (XI (XO (XO (XI (XO (XO XH))))))))))))))))), (Zpos (XO (XI (XI (XI (XO
    (XI (XI (XO (XO (XO (XI (XO (XO (XI (XO (XO
    XH)))))))))))))))))) :: (((Zpos (XO (XO (XO (XO (XO (XO (XO (XI (XO (XO
    (XI (XO (XO (XI (XO (XO XH))))))))))))))))), (Zpos (XI (XI (XO (XO (XO
    (XO (XI (XO (XI (XO (XI (XO (XO (XI (XO (XO
    XH)))))))))))))))))) :: (((Zpos (XO (XO (XO (XO (XI (XO (XO (XI (XI (XI
    (XI (XI (XO (XI (XO (XO XH))))))))))))))))), (Zpos (XO (XO (XO (XO (XI
    (XI (XI (XI (XI (XI (XI (XI (XO (XI (XO (XO
    XH)))))))))))))))))) :: (((Zpos (XO (XO (XO (XO (XO (XO (XO (XO (XO (XO
    (XO (XO (XI (XI (XO (XO XH))))))))))))))))), (Zpos (XI (XI (XI (XI (XO
    (XI (XO (XO (XO (XO (XI (XO (XI (XI (XO (XO
    XH)))))))))))))))))) :: (((Zpos (XI (XO (XO (XO (XO (XO (XI (XO (XO (XO
    (XI (XO (XI (XI (XO (XO XH))))))))))))))))), (Zpos (XO (XI (XI (XO (XO
    (XO (XI (XO (XO (XO (XI (XO (XI (XI (XO (XO
    XH)))))))))))))))))) :: (((Zpos (XO (XO (XO (XO (XO (XO (XO (XO (XO (XO
    (XI (XO (XO (XO (XI (XO XH))))))))))))))))), (Zpos (XO (XI (XI (XO (XO
    (XO (XI (XO (XO (XI (XI (XO (XO (XO (XI (XO
    XH)))))))))))))))))) :: (((Zpos (XO (XO (XO (XO (XO (XO (XO (XO (XO (XO
    (XO (XI (XO (XI (XI (XO XH))))))))))))))))), (Zpos (XO (XO (XO (XI (XI
    (XI (XO (XO (XO (XI (XO (XI (XO (XI (XI (XO
    XH)))))))))))))))))) :: (((Zpos (XO (XO (XO (XO (XO (XO (XI (XO (XO (XI
    (XO (XI (XO (XI (XI (XO XH))))))))))))))))), (Zpos (XO (XI (XI (XI (XI
    (XO (XI (XO (XO (XI (XO (XI (XO (XI (XI (XO
    XH)))))))))))))))))) :: (((Zpos (XO (XO (XO (XO (XI (XI (XI (XO (XO (XI
    (XO (XI (XO (XI (XI (XO XH))))))))))))))))), (Zpos (XO (XI (XI (XI (XI
    (XI (XO (XI (XO (XI (XO (XI (XO (XI (XI (XO
    XH)))))))))))))))))) :: []))))))))))))))))))))))))) :: ((((Zpos (XO (XO
    (XO (XO (XI (XO (XI (XI (XO (XI (XO (XI (XO (XI (XI (XO
    XH))))))))))))))))), (Zpos (XO (XI (XO (XI (XO (XI (XI (XO (XO (XO (XI
    (XI (XI (XI (XO (XI XH)))))))))))))))))), (((Zpos (XO (XO (XO (XO (XI (XO
    (XI (XI (XO (XI (XO (XI (XO (XI (XI (XO XH))))))))))))))))), (Zpos (XI
    (XO (XI (XI (XO (XI (XI (XI (XO (XI (XO (XI (XO (XI (XI (XO
    XH)))))))))))))))))) :: (((Zpos (XO (XO (XO (XO (XO (XO (XO (XO (XI (XI
    (XO (XI (XO (XI (XI (XO XH))))))))))))))))), (Zpos (XI (XI (XI (XI (XO
    (XI (XO (XO (XI (XI (XO (XI (XO (XI (XI (XO
    XH)))))))))))))))))) :: (((Zpos (XO (XO (XO (XO (XO (XO (XI (XO (XI (XI
    (XO (XI (XO (XI (XI (XO XH))))))))))))))))), (Zpos (XI (XI (XO (XO (XO
    (XO (XI (XO (XI (XI (XO (XI (XO (XI (XI (XO
    XH)))))))))))))))))) :: (((Zpos (XI (XI (XO (XO (XO (XI (XI (XO (XI (XI
    (XO (XI (XO (XI (XI (XO XH))))))))))))))))), (Zpos (XI (XI (XI (XO (XI
    (XI (XI (XO (XI (XI (XO (XI (XO (XI (XI (XO
    XH)))))))))))))))))) :: (((Zpos (XI (XO (XI (XI (XI (XI (XI (XO (XI (XI
    (XO (XI (XO (XI (XI (XO XH))))))))))))))))), (Zpos (XI (XI (XI (XI (XO
    (XO (XO (XI (XI (XI (XO (XI (XO (XI (XI (XO
    XH)))))))))))))))))) :: (((Zpos (XO (XO (XO (XO (XO (XO (XI (XO (XO (XI
    (XI (XI (XO (XI (XI (XO XH))))))))))))))))), (Zpos (XI (XI (XI (XI (XI
    (XI (XI (XO (XO (XI (XI (XI (XO (XI (XI (XO
    XH)))))))))))))))))) :: (((Zpos (XO (XO (XO (XO (XO (XO (XO (XO (XI (XI
    (XI (XI (XO (XI (XI (XO XH))))))))))))))))), (Zpos (XO (XI (XO (XI (XO
    (XO (XI (XO (XI (XI (XI (XI (XO (XI (XI (XO
    XH)))))))))))))))))) :: (((Zpos (XO (XO (XO (XO (XI (XO (XI (XO (XI (XI
    (XI (XI (XO (XI (XI (XO XH))))))))))))))))), (Zpos (XO (XO (XO (XO (XI
    (XO (XI (XO (XI (XI (XI (XI (XO (XI (XI (XO
    XH)))))))))))))))))) :: (((Zpos (XI (XI (XO (XO (XI (XO (XO (XI (XI (XI
    (XI (XI (XO (XI (XI (XO XH))))))))))))))))), (Zpos (XI (XI (XI (XI (XI
    (XO (XO (XI (XI (XI (XI (XI (XO (XI (XI (XO
    XH)))))))))))))))))) :: (((Zpos (XO (XO (XO (XO (XO (XI (XI (XI (XI (XI
    (XI (XI (XO (XI (XI (XO XH))))))))))))))))), (Zpos (XI (XO (XO (XO (XO
    (XI (XI (XI (XI (XI (XI (XI (XO (XI (XI (XO
    XH)))))))))))))))))) :: (((Zpos (XI (XI (XO (XO (XO (XI (XI (XI (XI (XI
    (XI (XI (XO (XI (XI (XO XH))))))))))))))))), (Zpos (XI (XI (XO (XO (XO
    (XI (XI (XI (XI (XI (XI (XI (XO (XI (XI (XO
    XH)))))))))))))))))) :: (((Zpos (XO (XO (XO (XO (XO (XO (XO (XO (XO (XO
    (XO (XO (XI (XI (XI (XO XH))))))))))))))))), (Zpos (XI (XI (XI (XO (XI
    (XI (XI (XI (XI (XI (XI (XO (XO (XO (XO (XI
    XH)))))))))))))))))) :: (((Zpos (XO (XO (XO (XO (XO (XO (XO (XO (XO (XO
    (XO (XI (XO (XO (XO (XI XH))))))))))))))))), (Zpos (XI (XO (XI (XO (XI
    (XO (XI (XI (XO (XO (XI (XI (XO (XO (XO (XI
    XH)))))))))))))))))) :: (((Zpos (XO (XO (XO (XO (XO (XO (XO (XO (XI (XO
    (XI (XI (XO (XO (XO (XI XH))))))))))))))))), (Zpos (XO (XO (XO (XI (XO
    (XO (XO (XO (XI (XO (XI (XI (XO (XO (XO (XI
    XH)))))))))))))))))) :: (((Zpos (XO (XO (XO (XO (XI (XI (XI (XI (XI (XI
    (XI (XI (XO (XI (XO (XI XH))))))))))))))))), (Zpos (XI (XI (XO (XO (XI
    (XI (XI (XI (XI (XI (XI (XI (XO (XI (XO (XI
    XH)))))))))))))))))) :: (((Zpos (XI (XO (XI (XO (XI (XI (XI (XI (XI (XI
    (XI (XI (XO (XI (XO (XI XH))))))))))))))))), (Zpos (XI (XI (XO (XI (XI
    (XI (XI (XI (XI (XI (XI (XI (XO (XI (XO (XI
    XH)))))))))))))))))) :: (((Zpos (XI (XO (XI (XI (XI (XI (XI (XI (XI (XI
    (XI (XI (XO (XI (XO (XI XH))))))))))))))))), (Zpos (XO (XI (XI (XI (XI
    (XI (XI (XI (XI (XI (XI (XI (XO (XI (XO (XI
    XH)))))))))))))))))) :: (((Zpos (XO (XO (XO (XO (XO (XO (XO (XO (XO (XO
    (XO (XO (XI (XI (XO (XI XH))))))))))))))))), (Zpos (XO (XI (XO (XO (XO
    (XI (XO (XO (XI (XO (XO (XO (XI (XI (XO (XI
    XH)))))))))))))))))) :: (((Zpos (XO (XI (XO (XO (XI (XI (XO (XO (XI (XO
    (XO (XO (XI (XI (XO (XI XH))))))))))))))))), (Zpos (XO (XI (XO (XO (XI
    (XI (XO (XO (XI (XO (XO (XO (XI (XI (XO (XI
    XH)))))))))))))))))) :: (((Zpos (XO (XO (XO (XO (XI (XO (XI (XO (XI (XO
    (XO (XO (XI (XI (XO (XI XH))))))))))))))))), (Zpos (XO (XI (XO (XO (XI
    (XO (XI (XO (XI (XO (XO (XO (XI (XI (XO (XI
    XH)))))))))))))))))) :: (((Zpos (XI (XO (XI (XO (XI (XO (XI (XO (XI (XO
    (XO (XO (XI (XI (XO (XI XH))))))))))))))))), (Zpos (XI (XO (XI (XO (XI
    (XO (XI (XO (XI (XO (XO (XO (XI (XI (XO (XI
    XH)))))))))))))))))) :: (((Zpos (XO (XO (XI (XO (XO (XI (XI (XO (XI (XO
    (XO (XO (XI (XI (XO (XI XH))))))))))))))))), (Zpos (XI (XI (XI (XO (XO
    (XI (XI (XO (XI (XO (XO (XO (XI (XI (XO (XI
    XH)))))))))))))))))) :: (((Zpos (XO (XO (XO (XO (XI (XI (XI (XO (XI (XO
    (XO (XO (XI (XI (XO (XI XH))))))))))))))))), (Zpos (XI (XI (XO (XI (XI
    (XI (XI (XI (XO (XI (XO (XO (XI (XI (XO (XI
    XH)))))))))))))))))) :: (((Zpos (XO (XO (XO (XO (XO (XO (XO (XO (XO (XO
    (XI (XI (XI (XI (XO (XI XH))))))))))))))))), (Zpos (XO (XI (XO (XI (XO
    (XI (XI (XO (XO (XO (XI (XI (XI (XI (XO (XI
    XH)))))))))))))))))) :: []))))))))))))))))))))))))) :: ((((Zpos (XO (XO
    (XO (XO (XI (XI (XI (XO (XO (XO (XI (XI (XI (XI (XO (XI
    XH))))))))))))))))), (Zpos (XO (XI (XO (XI (XI (XO (XI (XI (XO (XI (XI
    (XO (XI (XO (XI (XI XH)))))))))))))))))), (((Zpos (XO (XO (XO (XO (XI (XI
    (XI (XO (XO (XO (XI (XI (XI (XI (XO (XI XH))))))))))))))))), (Zpos (XO
    (XO (XI (XI (XI (XI (XI (XO (XO (XO (XI (XI (XI (XI (XO (XI
    XH)))))))))))))))))) :: (((Zpos (XO (XO (XO (XO (XO (XO (XO (XI (XO (XO
    (XI (XI (XI (XI (XO (XI XH))))))))))))))))), (Zpos (XO (XO (XO (XI (XO
    (XO (XO (XI (XO (XO (XI (XI (XI (XI (XO (XI
    XH)))))))))))))))))) :: (((Zpos (XO (XO (XO (XO (XI (XO (XO (XI (XO (XO
    (XI (XI (XI (XI (XO (XI XH))))))))))))))))), (Zpos (XI (XO (XO (XI (XI
    (XO (XO (XI (XO (XO (XI (XI (XI (XI (XO (XI
    XH)))))))))))))))))) :: (((Zpos (XO (XO (XO (XO (XO (XO (XO (XO (XO (XO
    (XI (XO (XI (XO (XI (XI XH))))))))))))))))), (Zpos (XO (XO (XI (XO (XI
    (XO (XI (XO (XO (XO (XI (XO (XI (XO (XI (XI
    XH)))))))))))))))))) :: (((Zpos (XO (XI (XI (XO (XI (XO (XI (XO (XO (XO
    (XI (XO (XI (XO (XI (XI XH))))))))))))))))), (Zpos (XO (XO (XI (XI (XI
    (XO (XO (XI (XO (XO (XI (XO (XI (XO (XI (XI
    XH)))))))))))))))))) :: (((Zpos (XO (XI (XI (XI (XI (XO (XO (XI (XO (XO
    (XI (XO (XI (XO (XI (XI XH))))))))))))))))), (Zpos (XI (XI (XI (XI (XI
    (XO (XO (XI (XO (XO (XI (XO (XI (XO (XI (XI
    XH)))))))))))))))))) :: (((Zpos (XO (XI (XO (XO (XO (XI (XO (XI (XO (XO
    (XI (XO (XI (XO (XI (XI XH))))))))))))))))), (Zpos (XO (XI (XO (XO (XO
    (XI (XO (XI (XO (XO (XI (XO (XI (XO (XI (XI
    XH)))))))))))))))))) :: (((Zpos (XI (XO (XI (XO (XO (XI (XO (XI (XO (XO
    (XI (XO (XI (XO (XI (XI XH))))))))))))))))), (Zpos (XO (XI (XI (XO (XO
    (XI (XO (XI (XO (XO (XI (XO (XI (XO (XI (XI
    XH)))))))))))))))))) :: (((Zpos (XI (XO (XO (XI (XO (XI (XO (XI (XO (XO
    (XI (XO (XI (XO (XI (XI XH))))))))))))))))), (Zpos (XO (XO (XI (XI (XO
    (XI (XO (XI (XO (XO (XI (XO (XI (XO (XI (XI
    XH)))))))))))))))))) :: (((Zpos (XO (XI (XI (XI (XO (XI (XO (XI (XO (XO
    (XI (XO (XI (XO (XI (XI XH))))))))))))))))), (Zpos (XI (XO (XO (XI (XI
    (XI (XO (XI (XO (XO (XI (XO (XI (XO (XI (XI
    XH)))))))))))))))))) :: (((Zpos (XI (XI (XO (XI (XI (XI (XO (XI (XO (XO
    (XI (XO (XI (XO (XI (XI XH))))))))))))))))), (Zpos (XI (XI (XO (XI (XI
    (XI (XO (XI (XO (XO (XI (XO (XI (XO (XI (XI
    XH)))))))))))))))))) :: (((Zpos (XI (XO (XI (XI (XI (XI (XO (XI (XO (XO
    (XI (XO (XI (XO (XI (XI XH))))))))))))))))), (Zpos (XI (XI (XO (XO (XO
    (XO (XI (XI (XO (XO (XI (XO (XI (XO (XI (XI
    XH)))))))))))))))))) :: (((Zpos (XI (XO (XI (XO (XO (XO (XI (XI (XO (XO
    (XI (XO (XI (XO (XI (XI XH))))))))))))))))), (Zpos (XI (XO (XI (XO (XO
    (XO (XO (XO (XI (XO (XI (XO (XI (XO (XI (XI
    XH)))))))))))))))))) :: (((Zpos (XI (XI (XI (XO (XO (XO (XO (XO (XI (XO
    (XI (XO (XI (XO (XI (XI XH))))))))))))))))), (Zpos (XO (XI (XO (XI (XO
    (XO (XO (XO (XI (XO (XI (XO (XI (XO (XI (XI
    XH)))))))))))))))))) :: (((Zpos (XI (XO (XI (XI (XO (XO (XO (XO (XI (XO
    (XI (XO (XI (XO (XI (XI XH))))))))))))))))), (Zpos (XO (XO (XI (XO (XI
    (XO (XO (XO (XI (XO (XI (XO (XI (XO (XI (XI
    XH)))))))))))))))))) :: (((Zpos (XO (XI (XI (XO (XI (XO (XO (XO (XI (XO
    (XI (XO (XI (XO (XI (XI XH))))))))))))))))), (Zpos (XO (XO (XI (XI (XI
    (XO (XO (XO (XI (XO (XI (XO (XI (XO (XI (XI
    XH)))))))))))))))))) :: (((Zpos (XO (XI (XI (XI (XI (XO (XO (XO (XI (XO
    (XI (XO (XI (XO (XI (XI XH))))))))))))))))), (Zpos (XI (XO (XO (XI (XI
    (XI (XO (XO (XI (XO (XI (XO (XI (XO (XI (XI
    XH)))))))))))))))))) :: (((Zpos (XI (XI (XO (XI (XI (XI (XO (XO (XI (XO
    (XI (XO (XI (XO (XI (XI XH))))))))))))))))), (Zpos (XO (XI (XI (XI (XI
    (XI (XO (XO (XI (XO (XI (XO (XI (XO (XI (XI
    XH)))))))))))))))))) :: (((Zpos (XO (XO (XO (XO (XO (XO (XI (XO (XI (XO
    (XI (XO (XI (XO (XI (XI XH))))))))))))))))), (Zpos (XO (XO (XI (XO (XO
    (XO (XI (XO (XI (XO (XI (XO (XI (XO (XI (XI
    XH)))))))))))))))))) :: (((Zpos (XO (XI (XI (XO (XO (XO (XI (XO (XI (XO
    (XI (XO (XI (XO (XI (XI XH))))))))))))))))), (Zpos (XO (XI (XI (XO (XO
    (XO (XI (XO (XI (XO (XI (XO (XI (XO (XI (XI
    XH)))))))))))))))))) :: (((Zpos (XO (XI (XO (XI (XO (XO (XI (XO (XI (XO
    (XI (XO (XI (XO (XI (XI XH))))))))))))))))), (Zpos (XO (XO (XO (XO (XI
    (XO (XI (XO (XI (XO (XI (XO (XI (XO (XI (XI
    XH)))))))))))))))))) :: (((Zpos (XO (XI (XO (XO (XI (XO (XI (XO (XI (XO
    (XI (XO (XI (XO (XI (XI XH))))))))))))))))), (Zpos (XI (XO (XI (XO (XO
    (XI (XO (XI (XO (XI (XI (XO (XI (XO (XI (XI
    XH)))))))))))))))))) :: (((Zpos (XO (XO (XO (XI (XO (XI (XO (XI (XO (XI
    (XI (XO (XI (XO (XI (XI XH))))))))))))))))), (Zpos (XO (XO (XO (XO (XO
    (XO (XI (XI (XO (XI (XI (XO (XI (XO (XI (XI
    XH)))))))))))))))))) :: (((Zpos (XO (XI (XO (XO (XO (XO (XI (XI (XO (XI
    (XI (XO (XI (XO (XI (XI XH))))))))))))))))), (Zpos (XO (XI (XO (XI (XI
    (XO (XI (XI (XO (XI (XI (XO (XI (XO (XI (XI
    XH)))))))))))))))))) :: []))))))))))))))))))))))))) :: ((((Zpos (XO (XO
    (XI (XI (XI (XO (XI (XI (XO (XI (XI (XO (XI (XO (XI (XI
    XH))))))))))))))))), (Zpos (XI (XI (XO (XO (XO (XO (XI (XO (XI (XO (XO
    (XI (XO (XI (XI (XI XH)))))))))))))))))), (((Zpos (XO (XO (XI (XI (XI (XO
    (XI (XI (XO (XI (XI (XO (XI (XO (XI (XI XH))))))))))))))))), (Zpos (XO
    (XI (XO (XI (XI (XI (XI (XI (XO (XI (XI (XO (XI (XO (XI (XI
    XH)))))))))))))))))) :: (((Zpos (XO (XO (XI (XI (XI (XI (XI (XI (XO (XI
    (XI (XO (XI (XO (XI (XI XH))))))))))))))))), (Zpos (XO (XO (XI (XO (XI
    (XO (XO (XO (XI (XI (XI (XO (XI (XO (XI (XI
    XH)))))))))))))))))) :: (((Zpos (XO (XI (XI (XO (XI (XO (XO (XO (XI (XI
    (XI (XO (XI (XO (XI (XI XH))))))))))))))))), (Zpos (XO (XO (XI (XO (XI
    (XI (XO (XO (XI (XI (XI (XO (XI (XO (XI (XI
    XH)))))))))))))))))) :: (((Zpos (XO (XI (XI (XO (XI (XI (XO (XO (XI (XI
    (XI (XO (XI (XO (XI (XI XH))))))))))))))))), (Zpos (XO (XI (XI (XI (XO
    (XO (XI (XO (XI (XI (XI (XO (XI (XO (XI (XI
    XH)))))))))))))))))) :: (((Zpos (XO (XO (XO (XO (XI (XO (XI (XO (XI (XI
    (XI (XO (XI (XO (XI (XI XH))))))))))))))))), (Zpos (XO (XI (XI (XI (XO
    (XI (XI (XO (XI (XI (XI (XO (XI (XO (XI (XI
    XH)))))))))))))))))) :: (((Zpos (XO (XO (XO (XO (XI (XI (XI (XO (XI (XI
    (XI (XO (XI (XO (XI (XI XH))))))))))))))))), (Zpos (XO (XO (XO (XI (XO
    (XO (XO (XI (XI (XI (XI (XO (XI (XO (XI (XI
    XH)))))))))))))))))) :: (((Zpos (XO (XI (XO (XI (XO (XO (XO (XI (XI (XI
    (XI (XO (XI (XO (XI (XI XH))))))))))))))))), (Zpos (XO (XO (XO (XI (XO
    (XI (XO (XI (XI (XI (XI (XO (XI (XO (XI (XI
    XH)))))))))))))))))) :: (((Zpos (XO (XI (XO (XI (XO (XI (XO (XI (XI (XI
    (XI (XO (XI (XO (XI (XI XH))))))))))))))))), (Zpos (XO (XI (XO (XO (XO
    (XO (XI (XI (XI (XI (XI (XO (XI (XO (XI (XI
    XH)))))))))))))))))) :: (((Zpos (XO (XO (XI (XO (XO (XO (XI (XI (XI (XI
    (XI (XO (XI (XO (XI (XI XH))))))))))))))))), (Zpos (XI (XI (XO (XI (XO
    (XO (XI (XI (XI (XI (XI (XO (XI (XO (XI (XI
    XH)))))))))))))))))) :: (((Zpos (XO (XO (XO (XO (XO (XO (XO (XO (XI (XI
    (XI (XI (XI (XO (XI (XI XH))))))))))))))))), (Zpos (XO (XI (XI (XI (XI
    (XO (XO (XO (XI (XI (XI (XI (XI (XO (XI (XI
    XH)))))))))))))))))) :: (((Zpos (XI (XO (XI (XO (XO (XI (XO (XO (XI (XI
    (XI (XI (XI (XO (XI (XI XH))))))))))))))))), (Zpos (XO (XI (XO (XI (XO
    (XI (XO (XO (XI (XI (XI (XI (XI (XO (XI (XI
    XH)))))))))))))))))) :: (((Zpos (XO (XO (XO (XO (XI (XI (XO (XO (XO (XO
    (XO (XO (XO (XI (XI (XI XH))))))))))))))))), (Zpos (XI (XO (XI (XI (XO
    (XI (XI (XO (XO (XO (XO (XO (XO (XI (XI (XI
    XH)))))))))))))))))) :: (((Zpos (XO (XO (XO (XO (XO (XO (XO (XO (XI (XO
    (XO (XO (XO (XI (XI (XI XH))))))))))))))))), (Zpos (XO (XO (XI (XI (XO
    (XI (XO (XO (XI (XO (XO (XO (XO (XI (XI (XI
    XH)))))))))))))))))) :: (((Zpos (XI (XI (XI (XO (XI (XI (XO (XO (XI (XO
    (XO (XO (XO (XI (XI (XI XH))))))))))))))))), (Zpos (XI (XO (XI (XI (XI
    (XI (XO (XO (XI (XO (XO (XO (XO (XI (XI (XI
    XH)))))))))))))))))) :: (((Zpos (XO (XI (XI (XI (XO (XO (XI (XO (XI (XO
    (XO (XO (XO (XI (XI (XI XH))))))))))))))))), (Zpos (XO (XI (XI (XI (XO
    (XO (XI (XO (XI (XO (XO (XO (XO (XI (XI (XI
    XH)))))))))))))))))) :: (((Zpos (XO (XO (XO (XO (XI (XO (XO (XI (XO (XI
    (XO (XO (XO (XI (XI (XI XH))))))))))))))))), (Zpos (XI (XO (XI (XI (XO
    (XI (XO (XI (XO (XI (XO (XO (XO (XI (XI (XI
    XH)))))))))))))))))) :: (((Zpos (XO (XO (XO (XO (XO (XO (XI (XI (XO (XI
    (XO (XO (XO (XI (XI (XI XH))))))))))))))))), (Zpos (XI (XI (XO (XI (XO
    (XI (XI (XI (XO (XI (XO (XO (XO (XI (XI (XI
    XH)))))))))))))))))) :: (((Zpos (XO (XO (XO (XO (XI (XO (XI (XI (XO (XO
    (XI (XO (XO (XI (XI (XI XH))))))))))))))))), (Zpos (XI (XI (XO (XI (XO
    (XI (XI (XI (XO (XO (XI (XO (XO (XI (XI (XI
    XH)))))))))))))))))) :: (((Zpos (XO (XO (XO (XO (XO (XI (XI (XI (XI (XI
    (XI (XO (XO (XI (XI (XI XH))))))))))))))))), (Zpos (XO (XI (XI (XO (XO
    (XI (XI (XI (XI (XI (XI (XO (XO (XI (XI (XI
    XH)))))))))))))))))) :: (((Zpos (XO (XO (XO (XI (XO (XI (XI (XI (XI (XI
    (XI (XO (XO (XI (XI (XI XH))))))))))))))))), (Zpos (XI (XI (XO (XI (XO
    (XI (XI (XI (XI (XI (XI (XO (XO (XI (XI (XI
    XH)))))))))))))))))) :: (((Zpos (XI (XO (XI (XI (XO (XI (XI (XI (XI (XI
    (XI (XO (XO (XI (XI (XI XH))))))))))))))))), (Zpos (XO (XI (XI (XI (XO
    (XI (XI (XI (XI (XI (XI (XO (XO (XI (XI (XI
    XH)))))))))))))))))) :: (((Zpos (XO (XO (XO (XO (XI (XI (XI (XI (XI (XI
    (XI (XO (XO (XI (XI (XI XH))))))))))))))))), (Zpos (XO (XI (XI (XI (XI
    (XI (XI (XI (XI (XI (XI (XO (XO (XI (XI (XI
    XH)))))))))))))))))) :: (((Zpos (XO (XO (XO (XO (XO (XO (XO (XO (XO (XO
    (XO (XI (XO (XI (XI (XI XH))))))))))))))))), (Zpos (XO (XO (XI (XO (XO
    (XO (XI (XI (XO (XO (XO (XI (XO (XI (XI (XI
    XH)))))))))))))))))) :: (((Zpos (XO (XO (XO (XO (XO (XO (XO (XO (XI (XO
    (XO (XI (XO (XI (XI (XI XH))))))))))))))))), (Zpos (XI (XI (XO (XO (XO
    (XO (XI (XO (XI (XO (XO (XI (XO (XI (XI (XI
    XH)))))))))))))))))) :: []))))))))))))))))))))))))) :: ((((Zpos (XI (XI
    (XO (XI (XO (XO (XI (XO (XI (XO (XO (XI (XO (XI (XI (XI
    XH))))))))))))))))), (Zpos (XO (XO (XI (XO (XO (XI (XI (XO (XO (XI (XI
    (XI (XO (XI (XI (XI XH)))))))))))))))))), (((Zpos (XI (XI (XO (XI (XO (XO
    (XI (XO (XI (XO (XO (XI (XO (XI (XI (XI XH))))))))))))))))), (Zpos (XI
    (XI (XO (XI (XO (XO (XI (XO (XI (XO (XO (XI (XO (XI (XI (XI
    XH)))))))))))))))))) :: (((Zpos (XO (XO (XO (XO (XO (XO (XO (XO (XO (XI
    (XI (XI (XO (XI (XI (XI XH))))))))))))))))), (Zpos (XI (XI (XO (XO (XO
    (XO (XO (XO (XO (XI (XI (XI (XO (XI (XI (XI
    XH)))))))))))))))))) :: (((Zpos (XI (XO (XI (XO (XO (XO (XO (XO (XO (XI
    (XI (XI (XO (XI (XI (XI XH))))))))))))))))), (Zpos (XI (XI (XI (XI (XI
    (XO (XO (XO (XO (XI (XI (XI (XO (XI (XI (XI
    XH)))))))))))))))))) :: (((Zpos (XI (XO (XO (XO (XO (XI (XO (XO (XO (XI
    (XI (XI (XO (XI (XI (XI XH))))))))))))))))), (Zpos (XO (XI (XO (XO (XO
    (XI (XO (XO (XO (XI (XI (XI (XO (XI (XI (XI
    XH)))))))))))))))))) :: (((Zpos (XO (XO (XI (XO (XO (XI (XO (XO (XO (XI
    (XI (XI (XO (XI (XI (XI XH))))))))))))))))), (Zpos (XO (XO (XI (XO (XO
    (XI (XO (XO (XO (XI (XI (XI (XO (XI (XI (XI
    XH)))))))))))))))))) :: (((Zpos (XI (XI (XI (XO (XO (XI (XO (XO (XO (XI
    (XI (XI (XO (XI (XI (XI XH))))))))))))))))), (Zpos (XI (XI (XI (XO (XO
    (XI (XO (XO (XO (XI (XI (XI (XO (XI (XI (XI
    XH)))))))))))))))))) :: (((Zpos (XI (XO (XO (XI (XO (XI (XO (XO (XO (XI
    (XI (XI (XO (XI (XI (XI XH))))))))))))))))), (Zpos (XO (XI (XO (XO (XI
    (XI (XO (XO (XO (XI (XI (XI (XO (XI (XI (XI
    XH)))))))))))))))))) :: (((Zpos (XO (XO (XI (XO (XI (XI (XO (XO (XO (XI
    (XI (XI (XO (XI (XI (XI XH))))))))))))))))), (Zpos (XI (XI (XI (XO (XI
    (XI (XO (XO (XO (XI (XI (XI (XO (XI (XI (XI
    XH)))))))))))))))))) :: (((Zpos (XI (XO (XO (XI (XI (XI (XO (XO (XO (XI
    (XI (XI (XO (XI (XI (XI XH))))))))))))))))), (Zpos (XI (XO (XO (XI (XI
    (XI (XO (XO (XO (XI (XI (XI (XO (XI (XI (XI
    XH)))))))))))))))))) :: (((Zpos (XI (XI (XO (XI (XI (XI (XO (XO (XO (XI
    (XI (XI (XO (XI (XI (XI XH))))))))))))))))), (Zpos (XI (XI (XO (XI (XI
    (XI (XO (XO (XO (XI (XI (XI (XO (XI (XI (XI
    XH)))))))))))))))))) :: (((Zpos (XO (XI (XO (XO (XO (XO (XI (XO (XO (XI
    (XI (XI (XO (XI (XI (XI XH))))))))))))))))), (Zpos (XO (XI (XO (XO (XO
    (XO (XI (XO (XO (XI (XI (XI (XO (XI (XI (XI
    XH)))))))))))))))))) :: (((Zpos (XI (XI (XI (XO (XO (XO (XI (XO (XO (XI
    (XI (XI (XO (XI (XI (XI XH))))))))))))))))), (Zpos (XI (XI (XI (XO (XO
    (XO (XI (XO (XO (XI (XI (XI (XO (XI (XI (XI
    XH)))))))))))))))))) :: (((Zpos (XI (XO (XO (XI (XO (XO (XI (XO (XO (XI
    (XI (XI (XO (XI (XI (XI XH))))))))))))))))), (Zpos (XI (XO (XO (XI (XO
    (XO (XI (XO (XO (XI (XI (XI (XO (XI (XI (XI
    XH)))))))))))))))))) :: (((Zpos (XI (XI (XO (XI (XO (XO (XI (XO (XO (XI
    (XI (XI (XO (XI (XI (XI XH))))))))))))))))), (Zpos (XI (XI (XO (XI (XO
    (XO (XI (XO (XO (XI (XI (XI (XO (XI (XI (XI
    XH)))))))))))))))))) :: (((Zpos (XI (XO (XI (XI (XO (XO (XI (XO (XO (XI
    (XI (XI (XO (XI (XI (XI XH))))))))))))))))), (Zpos (XI (XI (XI (XI (XO
    (XO (XI (XO (XO (XI (XI (XI (XO (XI (XI (XI
    XH)))))))))))))))))) :: (((Zpos (XI (XO (XO (XO (XI (XO (XI (XO (XO (XI
    (XI (XI (XO (XI (XI (XI XH))))))))))))))))), (Zpos (XO (XI (XO (XO (XI
    (XO (XI (XO (XO (XI (XI (XI (XO (XI (XI (XI
    XH)))))))))))))))))) :: (((Zpos (XO (XO (XI (XO (XI (XO (XI (XO (XO (XI
    (XI (XI (XO (XI (XI (XI XH))))))))))))))))), (Zpos (XO (XO (XI (XO (XI
    (XO (XI (XO (XO (XI (XI (XI (XO (XI (XI (XI
    XH)))))))))))))))))) :: (((Zpos (XI (XI (XI (XO (XI (XO (XI (XO (XO (XI
    (XI (XI (XO (XI (XI (XI XH))))))))))))))))), (Zpos (XI (XI (XI (XO (XI
    (XO (XI (XO (XO (XI (XI (XI (XO (XI (XI (XI
    XH)))))))))))))))))) :: (((Zpos (XI (XO (XO (XI (XI (XO (XI (XO (XO (XI
    (XI (XI (XO (XI (XI (XI XH))))))))))))))))), (Zpos (XI (XO (XO (XI (XI
    (XO (XI (XO (XO (XI (XI (XI (XO (XI (XI (XI
    XH)))))))))))))))))) :: (((Zpos (XI (XI (XO (XI (XI (XO (XI (XO (XO (XI
    (XI (XI (XO (XI (XI (XI XH))))))))))))))))), (Zpos (XI (XI (XO (XI (XI
    (XO (XI (XO (XO (XI (XI (XI (XO (XI (XI (XI
    XH)))))))))))))))))) :: (((Zpos (XI (XO (XI (XI (XI (XO (XI (XO (XO (XI
    (XI (XI (XO (XI (XI (XI XH))))))))))))))))), (Zpos (XI (XO (XI (XI (XI
    (XO (XI (XO (XO (XI (XI (XI (XO (XI (XI (XI
    XH)))))))))))))))))) :: (((Zpos (XI (XI (XI (XI (XI (XO (XI (XO (XO (XI
    (XI (XI (XO (XI (XI (XI XH))))))))))))))))), (Zpos (XI (XI (XI (XI (XI
    (XO (XI (XO (XO (XI (XI (XI (XO (XI (XI (XI
    XH)))))))))))))))))) :: (((Zpos (XI (XO (XO (XO (XO (XI (XI (XO (XO (XI
    (XI (XI (XO (XI (XI (XI XH))))))))))))))))), (Zpos (XO (XI (XO (XO (XO
    (XI (XI (XO (XO (XI (XI (XI (XO (XI (XI (XI
    XH)))))))))))))))))) :: (((Zpos (XO (XO (XI (XO (XO (XI (XI (XO (XO (XI
    (XI (XI (XO (XI (XI (XI XH))))))))))))))))), (Zpos (XO (XO (XI (XO (XO
    (XI (XI (XO (XO (XI (XI (XI (XO (XI (XI (XI
    XH)))))))))))))))))) :: []))))))))))))))))))))))))) :: ((((Zpos (XI (XI
    (XI (XO (XO (XI (XI (XO (XO (XI (XI (XI (XO (XI (XI (XI
    XH))))))))))))))))), (Zpos (XI (XI (XI (XI (XO (XI (XO (XI (XI (XI (XO
    (XO (XO (XI (XO (XO (XI XH))))))))))))))))))), (((Zpos (XI (XI (XI (XO
    (XO (XI (XI (XO (XO (XI (XI (XI (XO (XI (XI (XI XH))))))))))))))))),
    (Zpos (XO (XI (XO (XI (XO (XI (XI (XO (XO (XI (XI (XI (XO (XI (XI (XI
    XH)))))))))))))))))) :: (((Zpos (XO (XO (XI (XI (XO (XI (XI (XO (XO (XI
    (XI (XI (XO (XI (XI (XI XH))))))))))))))))), (Zpos (XO (XI (XO (XO (XI
    (XI (XI (XO (XO (XI (XI (XI (XO (XI (XI (XI
    XH)))))))))))))))))) :: (((Zpos (XO (XO (XI (XO (XI (XI (XI (XO (XO (XI
    (XI (XI (XO (XI (XI (XI XH))))))))))))))))), (Zpos (XI (XI (XI (XO (XI
    (XI (XI (XO (XO (XI (XI (XI (XO (XI (XI (XI
    XH)))))))))))))))))) :: (((Zpos (XI (XO (XO (XI (XI (XI (XI (XO (XO (XI
    (XI (XI (XO (XI (XI (XI XH))))))))))))))))), (Zpos (XO (XO (XI (XI (XI
    (XI (XI (XO (XO (XI (XI (XI (XO (XI (XI (XI
    XH)))))))))))))))))) :: (((Zpos (XO (XI (XI (XI (XI (XI (XI (XO (XO (XI
    (XI (XI (XO (XI (XI (XI XH))))))))))))))))), (Zpos (XO (XI (XI (XI (XI
    (XI (XI (XO (XO (XI (XI (XI (XO (XI (XI (XI
    XH)))))))))))))))))) :: (((Zpos (XO (XO (XO (XO (XO (XO (XO (XI (XO (XI
    (XI (XI (XO (XI (XI (XI XH))))))))))))))))), (Zpos (XI (XO (XO (XI (XO
    (XO (XO (XI (XO (XI (XI (XI (XO (XI (XI (XI
    XH)))))))))))))))))) :: (((Zpos (XI (XI (XO (XI (XO (XO (XO (XI (XO (XI
    (XI (XI (XO (XI (XI (XI XH))))))))))))))))), (Zpos (XI (XI (XO (XI (XI
    (XO (XO (XI (XO (XI (XI (XI (XO (XI (XI (XI
    XH)))))))))))))))))) :: (((Zpos (XI (XO (XO (XO (XO (XI (XO (XI (XO (XI
    (XI (XI (XO (XI (XI (XI XH))))))))))))))))), (Zpos (XI (XI (XO (XO (XO
    (XI (XO (XI (XO (XI (XI (XI (XO (XI (XI (XI
    XH)))))))))))))))))) :: (((Zpos (XI (XO (XI (XO (XO (XI (XO (XI (XO (XI
    (XI (XI (XO (XI (XI (XI XH))))))))))))))))), (Zpos (XI (XO (XO (XI (XO
    (XI (XO (XI (XO (XI (XI (XI (XO (XI (XI (XI
    XH)))))))))))))))))) :: (((Zpos (XI (XI (XO (XI (XO (XI (XO (XI (XO (XI
    (XI (XI (XO (XI (XI (XI XH))))))))))))))))), (Zpos (XI (XI (XO (XI (XI
    (XI (XO (XI (XO (XI (XI (XI (XO (XI (XI (XI
    XH)))))))))))))))))) :: (((Zpos (XO (XO (XO (XO (XO (XO (XO (XO (XO (XO
    (XO (XO (XO (XO (XO (XO (XO XH)))))))))))))))))), (Zpos (XI (XI (XI (XI
    (XI (XO (XI (XI (XO (XI (XI (XO (XO (XI (XO (XI (XO
    XH))))))))))))))))))) :: (((Zpos (XO (XO (XO (XO (XO (XO (XO (XO (XI (XI
    (XI (XO (XO (XI (XO (XI (XO XH)))))))))))))))))), (Zpos (XI (XO (XO (XI
    (XI (XI (XO (XO (XI (XI (XI (XO (XI (XI (XO (XI (XO
    XH))))))))))))))))))) :: (((Zpos (XO (XO (XO (XO (XO (XO (XI (XO (XI (XI
    (XI (XO (XI (XI (XO (XI (XO XH)))))))))))))))))), (Zpos (XI (XO (XI (XI
    (XI (XO (XO (XO (XO (XO (XO (XI (XI (XI (XO (XI (XO
    XH))))))))))))))))))) :: (((Zpos (XO (XO (XO (XO (XO (XI (XO (XO (XO (XO
    (XO (XI (XI (XI (XO (XI (XO XH)))))))))))))))))), (Zpos (XI (XO (XO (XO
    (XO (XI (XO (XI (XO (XI (XI (XI (XO (XO (XI (XI (XO
    XH))))))))))))))))))) :: (((Zpos (XO (XO (XO (XO (XI (XI (XO (XI (XO (XI
    (XI (XI (XO (XO (XI (XI (XO XH)))))))))))))))))), (Zpos (XO (XO (XO (XO
    (XO (XI (XI (XI (XI (XI (XO (XI (XO (XI (XI (XI (XO
    XH))))))))))))))))))) :: (((Zpos (XO (XO (XO (XO (XO (XO (XO (XO (XO (XO
    (XO (XI (XI (XI (XI (XI (XO XH)))))))))))))))))), (Zpos (XI (XO (XI (XI
    (XI (XO (XO (XO (XO (XI (XO (XI (XI (XI (XI (XI (XO
    XH))))))))))))))))))) :: (((Zpos (XO (XO (XO (XO (XO (XO (XO (XO (XO (XO
    (XO (XO (XO (XO (XO (XO (XI XH)))))))))))))))))), (Zpos (XO (XI (XO (XI
    (XO (XO (XI (XO (XI (XI (XO (XO (XI (XO (XO (XO (XI
    XH))))))))))))))))))) :: (((Zpos (XO (XO (XO (XO (XI (XO (XI (XO (XI (XI
    (XO (XO (XI (XO (XO (XO (XI XH)))))))))))))))))), (Zpos (XI (XI (XI (XI
    (XO (XI (XO (XI (XI (XI (XO (XO (XO (XI (XO (XO (XI
    XH))))))))))))))))))) :: []))))))))))))))))))) :: [])))))))))))))))))))))))))))

(** val xid_continue_tab : ((z * z) * (z * z) list) list **)

let xid_continue_tab =
  (((Zpos (XO (XO (XO (XO (XI XH)))))), (Zpos (XI (XO (XO (XO (XO (XO (XO (XI
    (XO (XO XH)))))))))))), (((Zpos (XO (XO (XO (XO (XI XH)))))), (Zpos (XI
    (XO (XO (XI (XI XH))))))) :: (((Zpos (XI (XO (XO (XO (XO (XO XH))))))),
    (Zpos (XO (XI (XO (XI (XI (XO XH)))))))) :: (((Zpos (XI (XI (XI (XI (XI
    (XO XH))))))), (Zpos (XI (XI (XI (XI (XI (XO XH)))))))) :: (((Zpos (XI
    (XO (XO (XO (XO (XI XH))))))), (Zpos (XO (XI (XO (XI (XI (XI
    XH)))))))) :: (((Zpos (XO (XI (XO (XI (XO (XI (XO XH)))))))), (Zpos (XO
    (XI (XO (XI (XO (XI (XO XH))))))))) :: (((Zpos (XI (XO (XI (XO (XI (XI
    (XO XH)))))))), (Zpos (XI (XO (XI (XO (XI (XI (XO XH))))))))) :: (((Zpos
    (XI (XI (XI (XO (XI (XI (XO XH)))))))), (Zpos (XI (XI (XI (XO (XI (XI (XO
    XH))))))))) :: (((Zpos (XO (XI (XO (XI (XI (XI (XO XH)))))))), (Zpos (XO
    (XI (XO (XI (XI (XI (XO XH))))))))) :: (((Zpos (XO (XO (XO (XO (XO (XO
    (XI XH)))))))), (Zpos (XO (XI (XI (XO (XI (XO (XI XH))))))))) :: (((Zpos
    (XO (XO (XO (XI (XI (XO (XI XH)))))))), (Zpos (XO (XI (XI (XO (XI (XI (XI
    XH))))))))) :: (((Zpos (XO (XO (XO (XI (XI (XI (XI XH)))))))), (Zpos (XI
    (XO (XO (XO (XO (XO (XI (XI (XO XH))))))))))) :: (((Zpos (XO (XI (XI (XO
    (XO (XO (XI (XI (XO XH)))))))))), (Zpos (XI (XO (XO (XO (XI (XO (XI (XI
    (XO XH))))))))))) :: (((Zpos (XO (XO (XO (XO (XO (XI (XI (XI (XO
    XH)))))))))), (Zpos (XO (XO (XI (XO (XO (XI (XI (XI (XO
    XH))))))))))) :: (((Zpos (XO (XO (XI (XI (XO (XI (XI (XI (XO
    XH)))))))))), (Zpos (XO (XO (XI (XI (XO (XI (XI (XI (XO
    XH))))))))))) :: (((Zpos (XO (XI (XI (XI (XO (XI (XI (XI (XO
    XH)))))))))), (Zpos (XO (XI (XI (XI (XO (XI (XI (XI (XO
    XH))))))))))) :: (((Zpos (XO (XO (XO (XO (XO (XO (XO (XO (XI
    XH)))))))))), (Zpos (XO (XO (XI (XO (XI (XI (XI (XO (XI
    XH))))))))))) :: (((Zpos (XO (XI (XI (XO (XI (XI (XI (XO (XI
    XH)))))))))), (Zpos (XI (XI (XI (XO (XI (XI (XI (XO (XI
    XH))))))))))) :: (((Zpos (XI (XI (XO (XI (XI (XI (XI (XO (XI
    XH)))))))))), (Zpos (XI (XO (XI (XI (XI (XI (XI (XO (XI
    XH))))))))))) :: (((Zpos (XI (XI (XI (XI (XI (XI (XI (XO (XI
    XH)))))))))), (Zpos (XI (XI (XI (XI (XI (XI (XI (XO (XI
    XH))))))))))) :: (((Zpos (XO (XI (XI (XO (XO (XO (XO (XI (XI
    XH)))))))))), (Zpos (XO (XI (XO (XI (XO (XO (XO (XI (XI
    XH))))))))))) :: (((Zpos (XO (XO (XI (XI (XO (XO (XO (XI (XI
    XH)))))))))), (Zpos (XO (XO (XI (XI (XO (XO (XO (XI (XI
    XH))))))))))) :: (((Zpos (XO (XI (XI (XI (XO (XO (XO (XI (XI
    XH)))))))))), (Zpos (XI (XO (XO (XO (XO (XI (XO (XI (XI
    XH))))))))))) :: (((Zpos (XI (XI (XO (XO (XO (XI (XO (XI (XI
    XH)))))))))), (Zpos (XI (XO (XI (XO (XI (XI (XI (XI (XI
    XH))))))))))) :: (((Zpos (XI (XI (XI (XO (XI (XI (XI (XI (XI
    XH)))))))))), (Zpos (XI (XO (XO (XO (XO (XO (XO (XI (XO (XO
    XH)))))))))))) :: []))))))))))))))))))))))))) :: ((((Zpos (XI (XI (XO (XO
    (XO (XO (XO (XI (XO (XO XH))))))))))), (Zpos (XI (XO (XI (XI (XI (XI (XI
    (XI (XI (XI XH)))))))))))), (((Zpos (XI (XI (XO (XO (XO (XO (XO (XI (XO
    (XO XH))))))))))), (Zpos (XI (XI (XI (XO (XO (XO (XO (XI (XO (XO
    XH)))))))))))) :: (((Zpos (XO (XI (XO (XI (XO (XO (XO (XI (XO (XO
    XH))))))))))), (Zpos (XI (XI (XI (XI (XO (XI (XO (XO (XI (XO
    XH)))))))))))) :: (((Zpos (XI (XO (XO (XO (XI (XI (XO (XO (XI (XO
    XH))))))))))), (Zpos (XO (XI (XI (XO (XI (XO (XI (XO (XI (XO
    XH)))))))))))) :: (((Zpos (XI (XO (XO (XI (XI (XO (XI (XO (XI (XO
    XH))))))))))), (Zpos (XI (XO (XO (XI (XI (XO (XI (XO (XI (XO
    XH)))))))))))) :: (((Zpos (XO (XO (XO (XO (XO (XI (XI (XO (XI (XO
    XH))))))))))), (Zpos (XO (XO (XO (XI (XO (XO (XO (XI (XI (XO
    XH)))))))))))) :: (((Zpos (XI (XO (XO (XO (XI (XO (XO (XI (XI (XO
    XH))))))))))), (Zpos (XI (XO (XI (XI (XI (XI (XO (XI (XI (XO
    XH)))))))))))) :: (((Zpos (XI (XI (XI (XI (XI (XI (XO (XI (XI (XO
    XH))))))))))), (Zpos (XI (XI (XI (XI (XI (XI (XO (XI (XI (XO
    XH)))))))))))) :: (((Zpos (XI (XO (XO (XO (XO (XO (XI (XI (XI (XO
    XH))))))))))), (Zpos (XO (XI (XO (XO (XO (XO (XI (XI (XI (XO
    XH)))))))))))) :: (((Zpos (XO (XO (XI (XO (XO (XO (XI (XI (XI (XO
    XH))))))))))), (Zpos (XI (XO (XI (XO (XO (XO (XI (XI (XI (XO
    XH)))))))))))) :: (((Zpos (XI (XI (XI (XO (XO (XO (XI (XI (XI (XO
    XH))))))))))), (Zpos (XI (XI (XI (XO (XO (XO (XI (XI (XI (XO
    XH)))))))))))) :: (((Zpos (XO (XO (XO (XO (XI (XO (XI (XI (XI (XO
    XH))))))))))), (Zpos (XO (XI (XO (XI (XO (XI (XI (XI (XI (XO
    XH)))))))))))) :: (((Zpos (XI (XI (XI (XI (XO (XI (XI (XI (XI (XO
    XH))))))))))), (Zpos (XO (XI (XO (XO (XI (XI (XI (XI (XI (XO
    XH)))))))))))) :: (((Zpos (XO (XO (XO (XO (XI (XO (XO (XO (XO (XI
    XH))))))))))), (Zpos (XO (XI (XO (XI (XI (XO (XO (XO (XO (XI
    XH)))))))))))) :: (((Zpos (XO (XO (XO (XO (XO (XI (XO (XO (XO (XI
    XH))))))))))), (Zpos (XI (XO (XO (XI (XO (XI (XI (XO (XO (XI
    XH)))))))))))) :: (((Zpos (XO (XI (XI (XI (XO (XI (XI (XO (XO (XI
    XH))))))))))), (Zpos (XI (XI (XO (XO (XI (XO (XI (XI (XO (XI
    XH)))))))))))) :: (((Zpos (XI (XO (XI (XO (XI (XO (XI (XI (XO (XI
    XH))))))))))), (Zpos (XO (XO (XI (XI (XI (XO (XI (XI (XO (XI
    XH)))))))))))) :: (((Zpos (XI (XI (XI (XI (XI (XO (XI (XI (XO (XI
    XH))))))))))), (Zpos (XO (XO (XO (XI (XO (XI (XI (XI (XO (XI
    XH)))))))))))) :: (((Zpos (XO (XI (XO (XI (XO (XI (XI (XI (XO (XI
    XH))))))))))), (Zpos (XO (XO (XI (XI (XI (XI (XI (XI (XO (XI
    XH)))))))))))) :: (((Zpos (XI (XI (XI (XI (XI (XI (XI (XI (XO (XI
    XH))))))))))), (Zpos (XI (XI (XI (XI (XI (XI (XI (XI (XO (XI
    XH)))))))))))) :: (((Zpos (XO (XO (XO (XO (XI (XO (XO (XO (XI (XI
    XH))))))))))), (Zpos (XO (XI (XO (XI (XO (XO (XI (XO (XI (XI
    XH)))))))))))) :: (((Zpos (XI (XO (XI (XI (XO (XO (XI (XO (XI (XI
    XH))))))))))), (Zpos (XI (XO (XO (XO (XI (XI (XO (XI (XI (XI
    XH)))))))))))) :: (((Zpos (XO (XO (XO (XO (XO (XO (XI (XI (XI (XI
    XH))))))))))), (Zpos (XI (XO (XI (XO (XI (XI (XI (XI (XI (XI
    XH)))))))))))) :: (((Zpos (XO (XI (XO (XI (XI (XI (XI (XI (XI (XI
    XH))))))))))), (Zpos (XO (XI (XO (XI (XI (XI (XI (XI (XI (XI
    XH)))))))))))) :: (((Zpos (XI (XO (XI (XI (XI (XI (XI (XI (XI (XI
    XH))))))))))), (Zpos (XI (XO (XI (XI (XI (XI (XI (XI (XI (XI
    XH)))))))))))) :: []))))))))))))))))))))))))) :: ((((Zpos (XO (XO (XO (XO
    (XO (XO (XO (XO (XO (XO (XO XH)))))))))))), (Zpos (XO (XI (XI (XI (XI (XI
    (XI (XI (XI (XO (XO XH))))))))))))), (((Zpos (XO (XO (XO (XO (XO (XO (XO
    (XO (XO (XO (XO XH)))))))))))), (Zpos (XI (XO (XI (XI (XO (XI (XO (XO (XO
    (XO (XO XH))))))))))))) :: (((Zpos (XO (XO (XO (XO (XO (XO (XI (XO (XO
    (XO (XO XH)))))))))))), (Zpos (XI (XI (XO (XI (XI (XO (XI (XO (XO (XO (XO
    XH))))))))))))) :: (((Zpos (XO (XO (XO (XO (XO (XI (XI (XO (XO (XO (XO
    XH)))))))))))), (Zpos (XO (XI (XO (XI (XO (XI (XI (XO (XO (XO (XO
    XH))))))))))))) :: (((Zpos (XO (XO (XO (XO (XI (XI (XI (XO (XO (XO (XO
    XH)))))))))))), (Zpos (XI (XI (XI (XO (XO (XO (XO (XI (XO (XO (XO
    XH))))))))))))) :: (((Zpos (XI (XO (XO (XI (XO (XO (XO (XI (XO (XO (XO
    XH)))))))))))), (Zpos (XO (XI (XI (XI (XO (XO (XO (XI (XO (XO (XO
    XH))))))))))))) :: (((Zpos (XO (XO (XO (XI (XI (XO (XO (XI (XO (XO (XO
    XH)))))))))))), (Zpos (XI (XO (XO (XO (XO (XI (XI (XI (XO (XO (XO
    XH))))))))))))) :: (((Zpos (XI (XI (XO (XO (XO (XI (XI (XI (XO (XO (XO
    XH)))))))))))), (Zpos (XI (XI (XO (XO (XO (XI (XI (XO (XI (XO (XO
    XH))))))))))))) :: (((Zpos (XO (XI (XI (XO (XO (XI (XI (XO (XI (XO (XO
    XH)))))))))))), (Zpos (XI (XI (XI (XI (XO (XI (XI (XO (XI (XO (XO
    XH))))))))))))) :: (((Zpos (XI (XO (XO (XO (XI (XI (XI (XO (XI (XO (XO
    XH)))))))))))), (Zpos (XI (XI (XO (XO (XO (XO (XO (XI (XI (XO (XO
    XH))))))))))))) :: (((Zpos (XI (XO (XI (XO (XO (XO (XO (XI (XI (XO (XO
    XH)))))))))))), (Zpos (XO (XO (XI (XI (XO (XO (XO (XI (XI (XO (XO
    XH))))))))))))) :: (((Zpos (XI (XI (XI (XI (XO (XO (XO (XI (XI (XO (XO
    XH)))))))))))), (Zpos (XO (XO (XO (XO (XI (XO (XO (XI (XI (XO (XO
    XH))))))))))))) :: (((Zpos (XI (XI (XO (XO (XI (XO (XO (XI (XI (XO (XO
    XH)))))))))))), (Zpos (XO (XO (XO (XI (XO (XI (XO (XI (XI (XO (XO
    XH))))))))))))) :: (((Zpos (XO (XI (XO (XI (XO (XI (XO (XI (XI (XO (XO
    XH)))))))))))), (Zpos (XO (XO (XO (XO (XI (XI (XO (XI (XI (XO (XO
    XH))))))))))))) :: (((Zpos (XO (XI (XO (XO (XI (XI (XO (XI (XI (XO (XO
    XH)))))))))))), (Zpos (XO (XI (XO (XO (XI (XI (XO (XI (XI (XO (XO
    XH))))))))))))) :: (((Zpos (XO (XI (XI (XO (XI (XI (XO (XI (XI (XO (XO
    XH)))))))))))), (Zpos (XI (XO (XO (XI (XI (XI (XO (XI (XI (XO (XO
    XH))))))))))))) :: (((Zpos (XO (XO (XI (XI (XI (XI (XO (XI (XI (XO (XO
    XH)))))))))))), (Zpos (XO (XO (XI (XO (XO (XO (XI (XI (XI (XO (XO
    XH))))))))))))) :: (((Zpos (XI (XI (XI (XO (XO (XO (XI (XI (XI (XO (XO
    XH)))))))))))), (Zpos (XO (XO (XO (XI (XO (XO (XI (XI (XI (XO (XO
    XH))))))))))))) :: (((Zpos (XI (XI (XO (XI (XO (XO (XI (XI (XI (XO (XO
    XH)))))))))))), (Zpos (XO (XI (XI (XI (XO (XO (XI (XI (XI (XO (XO
    XH))))))))))))) :: (((Zpos (XI (XI (XI (XO (XI (XO (XI (XI (XI (XO (XO
    XH)))))))))))), (Zpos (XI (XI (XI (XO (XI (XO (XI (XI (XI (XO (XO
    XH))))))))))))) :: (((Zpos (XO (XO (XI (XI (XI (XO (XI (XI (XI (XO (XO
    XH)))))))))))), (Zpos (XI (XO (XI (XI (XI (XO (XI (XI (XI (XO (XO
    XH))))))))))))) :: (((Zpos (XI (XI (XI (XI (XI (XO (XI (XI (XI (XO (XO
    XH)))))))))))), (Zpos (XI (XI (XO (XO (XO (XI (XI (XI (XI (XO (XO
    XH))))))))))))) :: (((Zpos (XO (XI (XI (XO (XO (XI (XI (XI (XI (XO (XO
    XH)))))))))))), (Zpos (XI (XO (XO (XO (XI (XI (XI (XI (XI (XO (XO
    XH))))))))))))) :: (((Zpos (XO (XO (XI (XI (XI (XI (XI (XI (XI (XO (XO
    XH)))))))))))), (Zpos (XO (XO (XI (XI (XI (XI (XI (XI (XI (XO (XO
    XH))))))))))))) :: (((Zpos (XO (XI (XI (XI (XI (XI (XI (XI (XI (XO (XO
    XH)))))))))))), (Zpos (XO (XI (XI (XI (XI (XI (XI (XI (XI (XO (XO
    XH))))))))))))) :: []))))))))))))))))))))))))) :: ((((Zpos (XI (XO (XO
    (XO (XO (XO (XO (XO (XO (XI (XO XH)))))))))))), (Zpos (XI (XO (XI (XO (XO
    (XO (XI (XI (XO (XI (XO XH))))))))))))), (((Zpos (XI (XO (XO (XO (XO (XO
    (XO (XO (XO (XI (XO XH)))))))))))), (Zpos (XI (XI (XO (XO (XO (XO (XO (XO
    (XO (XI (XO XH))))))))))))) :: (((Zpos (XI (XO (XI (XO (XO (XO (XO (XO
    (XO (XI (XO XH)))))))))))), (Zpos (XO (XI (XO (XI (XO (XO (XO (XO (XO (XI
    (XO XH))))))))))))) :: (((Zpos (XI (XI (XI (XI (XO (XO (XO (XO (XO (XI
    (XO XH)))))))))))), (Zpos (XO (XO (XO (XO (XI (XO (XO (XO (XO (XI (XO
    XH))))))))))))) :: (((Zpos (XI (XI (XO (XO (XI (XO (XO (XO (XO (XI (XO
    XH)))))))))))), (Zpos (XO (XO (XO (XI (XO (XI (XO (XO (XO (XI (XO
    XH))))))))))))) :: (((Zpos (XO (XI (XO (XI (XO (XI (XO (XO (XO (XI (XO
    XH)))))))))))), (Zpos (XO (XO (XO (XO (XI (XI (XO (XO (XO (XI (XO
    XH))))))))))))) :: (((Zpos (XO (XI (XO (XO (XI (XI (XO (XO (XO (XI (XO
    XH)))))))))))), (Zpos (XI (XI (XO (XO (XI (XI (XO (XO (XO (XI (XO
    XH))))))))))))) :: (((Zpos (XI (XO (XI (XO (XI (XI (XO (XO (XO (XI (XO
    XH)))))))))))), (Zpos (XO (XI (XI (XO (XI (XI (XO (XO (XO (XI (XO
    XH))))))))))))) :: (((Zpos (XO (XO (XO (XI (XI (XI (XO (XO (XO (XI (XO
    XH)))))))))))), (Zpos (XI (XO (XO (XI (XI (XI (XO (XO (XO (XI (XO
    XH))))))))))))) :: (((Zpos (XO (XO (XI (XI (XI (XI (XO (XO (XO (XI (XO
    XH)))))))))))), (Zpos (XO (XO (XI (XI (XI (XI (XO (XO (XO (XI (XO
    XH))))))))))))) :: (((Zpos (XO (XI (XI (XI (XI (XI (XO (XO (XO (XI (XO
    XH)))))))))))), (Zpos (XO (XI (XO (XO (XO (XO (XI (XO (XO (XI (XO
    XH))))))))))))) :: (((Zpos (XI (XI (XI (XO (XO (XO (XI (XO (XO (XI (XO
    XH)))))))))))), (Zpos (XO (XO (XO (XI (XO (XO (XI (XO (XO (XI (XO
    XH))))))))))))) :: (((Zpos (XI (XI (XO (XI (XO (XO (XI (XO (XO (XI (XO
    XH)))))))))))), (Zpos (XI (XO (XI (XI (XO (XO (XI (XO (XO (XI (XO
    XH))))))))))))) :: (((Zpos (XI (XO (XO (XO (XI (XO (XI (XO (XO (XI (XO
    XH)))))))))))), (Zpos (XI (XO (XO (XO (XI (XO (XI (XO (XO (XI (XO
    XH))))))))))))) :: (((Zpos (XI (XO (XO (XI (XI (XO (XI (XO (XO (XI (XO
    XH)))))))))))), (Zpos (XO (XO (XI (XI (XI (XO (XI (XO (XO (XI (XO
    XH))))))))))))) :: (((Zpos (XO (XI (XI (XI (XI (XO (XI (XO (XO (XI (XO
    XH)))))))))))), (Zpos (XO (XI (XI (XI (XI (XO (XI (XO (XO (XI (XO
    XH))))))))))))) :: (((Zpos (XO (XI (XI (XO (XO (XI (XI (XO (XO (XI (XO
    XH)))))))))))), (Zpos (XI (XO (XI (XO (XI (XI (XI (XO (XO (XI (XO
    XH))))))))))))) :: (((Zpos (XI (XO (XO (XO (XO (XO (XO (XI (XO (XI (XO
    XH)))))))))))), (Zpos (XI (XI (XO (XO (XO (XO (XO (XI (XO (XI (XO
    XH))))))))))))) :: (((Zpos (XI (XO (XI (XO (XO (XO (XO (XI (XO (XI (XO
    XH)))))))))))), (Zpos (XI (XO (XI (XI (XO (XO (XO (XI (XO (XI (XO
    XH))))))))))))) :: (((Zpos (XI (XI (XI (XI (XO (XO (XO (XI (XO (XI (XO
    XH)))))))))))), (Zpos (XI (XO (XO (XO (XI (XO (XO (XI (XO (XI (XO
    XH))))))))))))) :: (((Zpos (XI (XI (XO (XO (XI (XO (XO (XI (XO (XI (XO
    XH)))))))))))), (Zpos (XO (XO (XO (XI (XO (XI (XO (XI (XO (XI (XO
    XH))))))))))))) :: (((Zpos (XO (XI (XO (XI (XO (XI (XO (XI (XO (XI (XO
    XH)))))))))))), (Zpos (XO (XO (XO (XO (XI (XI (XO (XI (XO (XI (XO
    XH))))))))))))) :: (((Zpos (XO (XI (XO (XO (XI (XI (XO (XI (XO (XI (XO
    XH)))))))))))), (Zpos (XI (XI (XO (XO (XI (XI (XO (XI (XO (XI (XO
    XH))))))))))))) :: (((Zpos (XI (XO (XI (XO (XI (XI (XO (XI (XO (XI (XO
    XH)))))))))))), (Zpos (XI (XO (XO (XI (XI (XI (XO (XI (XO (XI (XO
    XH))))))))))))) :: (((Zpos (XO (XO (XI (XI (XI (XI (XO (XI (XO (XI (XO
    XH)))))))))))), (Zpos (XI (XO (XI (XO (XO (XO (XI (XI (XO (XI (XO
    XH))))))))))))) :: []))))))))))))))))))))))))) :: ((((Zpos (XI (XI (XI
    (XO (XO (XO (XI (XI (XO (XI (XO XH)))))))))))), (Zpos (XO (XO (XO (XO (XI
    (XO (XO (XI (XI (XI (XO XH))))))))))))), (((Zpos (XI (XI (XI (XO (XO (XO
    (XI (XI (XO (XI (XO XH)))))))))))), (Zpos (XI (XO (XO (XI (XO (XO (XI (XI
    (XO (XI (XO XH))))))))))))) :: (((Zpos (XI (XI (XO (XI (XO (XO (XI (XI
    (XO (XI (XO XH)))))))))))), (Zpos (XI (XO (XI (XI (XO (XO (XI (XI (XO (XI
    (XO XH))))))))))))) :: (((Zpos (XO (XO (XO (XO (XI (XO (XI (XI (XO (XI
    (XO XH)))))))))))), (Zpos (XO (XO (XO (XO (XI (XO (XI (XI (XO (XI (XO
    XH))))))))))))) :: (((Zpos (XO (XO (XO (XO (XO (XI (XI (XI (XO (XI (XO
    XH)))))))))))), (Zpos (XI (XI (XO (XO (XO (XI (XI (XI (XO (XI (XO
    XH))))))))))))) :: (((Zpos (XO (XI (XI (XO (XO (XI (XI (XI (XO (XI (XO
    XH)))))))))))), (Zpos (XI (XI (XI (XI (XO (XI (XI (XI (XO (XI (XO
    XH))))))))))))) :: (((Zpos (XI (XO (XO (XI (XI (XI (XI (XI (XO (XI (XO
    XH)))))))))))), (Zpos (XI (XI (XI (XI (XI (XI (XI (XI (XO (XI (XO
    XH))))))))))))) :: (((Zpos (XI (XO (XO (XO (XO (XO (XO (XO (XI (XI (XO
    XH)))))))))))), (Zpos (XI (XI (XO (XO (XO (XO (XO (XO (XI (XI (XO
    XH))))))))))))) :: (((Zpos (XI (XO (XI (XO (XO (XO (XO (XO (XI (XI (XO
    XH)))))))))))), (Zpos (XO (XO (XI (XI (XO (XO (XO (XO (XI (XI (XO
    XH))))))))))))) :: (((Zpos (XI (XI (XI (XI (XO (XO (XO (XO (XI (XI (XO
    XH)))))))))))), (Zpos (XO (XO (XO (XO (XI (XO (XO (XO (XI (XI (XO
    XH))))))))))))) :: (((Zpos (XI (XI (XO (XO (XI (XO (XO (XO (XI (XI (XO
    XH)))))))))))), (Zpos (XO (XO (XO (XI (XO (XI (XO (XO (XI (XI (XO
    XH))))))))))))) :: (((Zpos (XO (XI (XO (XI (XO (XI (XO (XO (XI (XI (XO
    XH)))))))))))), (Zpos (XO (XO (XO (XO (XI (XI (XO (XO (XI (XI (XO
    XH))))))))))))) :: (((Zpos (XO (XI (XO (XO (XI (XI (XO (XO (XI (XI (XO
    XH)))))))))))), (Zpos (XI (XI (XO (XO (XI (XI (XO (XO (XI (XI (XO
    XH))))))))))))) :: (((Zpos (XI (XO (XI (XO (XI (XI (XO (XO (XI (XI (XO
    XH)))))))))))), (Zpos (XI (XO (XO (XI (XI (XI (XO (XO (XI (XI (XO
    XH))))))))))))) :: (((Zpos (XO (XO (XI (XI (XI (XI (XO (XO (XI (XI (XO
    XH)))))))))))), (Zpos (XO (XO (XI (XO (XO (XO (XI (XO (XI (XI (XO
    XH))))))))))))) :: (((Zpos (XI (XI (XI (XO (XO (XO (XI (XO (XI (XI (XO
    XH)))))))))))), (Zpos (XO (XO (XO (XI (XO (XO (XI (XO (XI (XI (XO
    XH))))))))))))) :: (((Zpos (XI (XI (XO (XI (XO (XO (XI (XO (XI (XI (XO
    XH)))))))))))), (Zpos (XI (XO (XI (XI (XO (XO (XI (XO (XI (XI (XO
    XH))))))))))))) :: (((Zpos (XI (XO (XI (XO (XI (XO (XI (XO (XI (XI (XO
    XH)))))))))))), (Zpos (XI (XI (XI (XO (XI (XO (XI (XO (XI (XI (XO
    XH))))))))))))) :: (((Zpos (XO (XO (XI (XI (XI (XO (XI (XO (XI (XI (XO
    XH)))))))))))), (Zpos (XI (XO (XI (XI (XI (XO (XI (XO (XI (XI (XO
    XH))))))))))))) :: (((Zpos (XI (XI (XI (XI (XI (XO (XI (XO (XI (XI (XO
    XH)))))))))))), (Zpos (XI (XI (XO (XO (XO (XI (XI (XO (XI (XI (XO
    XH))))))))))))) :: (((Zpos (XO (XI (XI (XO (XO (XI (XI (XO (XI (XI (XO
    XH)))))))))))), (Zpos (XI (XI (XI (XI (XO (XI (XI (XO (XI (XI (XO
    XH))))))))))))) :: (((Zpos (XI (XO (XO (XO (XI (XI (XI (XO (XI (XI (XO
    XH)))))))))))), (Zpos (XI (XO (XO (XO (XI (XI (XI (XO (XI (XI (XO
    XH))))))))))))) :: (((Zpos (XO (XI (XO (XO (XO (XO (XO (XI (XI (XI (XO
    XH)))))))))))), (Zpos (XI (XI (XO (XO (XO (XO (XO (XI (XI (XI (XO
    XH))))))))))))) :: (((Zpos (XI (XO (XI (XO (XO (XO (XO (XI (XI (XI (XO
    XH)))))))))))), (Zpos (XO (XI (XO (XI (XO (XO (XO (XI (XI (XI (XO
    XH))))))))))))) :: (((Zpos (XO (XI (XI (XI (XO (XO (XO (XI (XI (XI (XO
    XH)))))))))))), (Zpos (XO (XO (XO (XO (XI (XO (XO (XI (XI (XI (XO
    XH))))))))))))) :: []))))))))))))))))))))))))) :: ((((Zpos (XO (XI (XO
    (XO (XI (XO (XO (XI (XI (XI (XO XH)))))))))))), (Zpos (XI (XI (XO (XO (XO
    (XI (XI (XO (XO (XO (XI XH))))))))))))), (((Zpos (XO (XI (XO (XO (XI (XO
    (XO (XI (XI (XI (XO XH)))))))))))), (Zpos (XI (XO (XI (XO (XI (XO (XO (XI
    (XI (XI (XO XH))))))))))))) :: (((Zpos (XI (XO (XO (XI (XI (XO (XO (XI
    (XI (XI (XO XH)))))))))))), (Zpos (XO (XI (XO (XI (XI (XO (XO (XI (XI (XI
    (XO XH))))))))))))) :: (((Zpos (XO (XO (XI (XI (XI (XO (XO (XI (XI (XI
    (XO XH)))))))))))), (Zpos (XO (XO (XI (XI (XI (XO (XO (XI (XI (XI (XO
    XH))))))))))))) :: (((Zpos (XO (XI (XI (XI (XI (XO (XO (XI (XI (XI (XO
    XH)))))))))))), (Zpos (XI (XI (XI (XI (XI (XO (XO (XI (XI (XI (XO
    XH))))))))))))) :: (((Zpos (XI (XI (XO (XO (XO (XI (XO (XI (XI (XI (XO
    XH)))))))))))), (Zpos (XO (XO (XI (XO (XO (XI (XO (XI (XI (XI (XO
    XH))))))))))))) :: (((Zpos (XO (XO (XO (XI (XO (XI (XO (XI (XI (XI (XO
    XH)))))))))))), (Zpos (XO (XI (XO (XI (XO (XI (XO (XI (XI (XI (XO
    XH))))))))))))) :: (((Zpos (XO (XI (XI (XI (XO (XI (XO (XI (XI (XI (XO
    XH)))))))))))), (Zpos (XI (XO (XO (XI (XI (XI (XO (XI (XI (XI (XO
    XH))))))))))))) :: (((Zpos (XO (XI (XI (XI (XI (XI (XO (XI (XI (XI (XO
    XH)))))))))))), (Zpos (XO (XI (XO (XO (XO (XO (XI (XI (XI (XI (XO
    XH))))))))))))) :: (((Zpos (XO (XI (XI (XO (XO (XO (XI (XI (XI (XI (XO
    XH)))))))))))), (Zpos (XO (XO (XO (XI (XO (XO (XI (XI (XI (XI (XO
    XH))))))))))))) :: (((Zpos (XO (XI (XO (XI (XO (XO (XI (XI (XI (XI (XO
    XH)))))))))))), (Zpos (XI (XO (XI (XI (XO (XO (XI (XI (XI (XI (XO
    XH))))))))))))) :: (((Zpos (XO (XO (XO (XO (XI (XO (XI (XI (XI (XI (XO
    XH)))))))))))), (Zpos (XO (XO (XO (XO (XI (XO (XI (XI (XI (XI (XO
    XH))))))))))))) :: (((Zpos (XI (XI (XI (XO (XI (XO (XI (XI (XI (XI (XO
    XH)))))))))))), (Zpos (XI (XI (XI (XO (XI (XO (XI (XI (XI (XI (XO
    XH))))))))))))) :: (((Zpos (XO (XI (XI (XO (XO (XI (XI (XI (XI (XI (XO
    XH)))))))))))), (Zpos (XI (XI (XI (XI (XO (XI (XI (XI (XI (XI (XO
    XH))))))))))))) :: (((Zpos (XO (XO (XO (XO (XO (XO (XO (XO (XO (XO (XI
    XH)))))))))))), (Zpos (XO (XO (XI (XI (XO (XO (XO (XO (XO (XO (XI
    XH))))))))))))) :: (((Zpos (XO (XI (XI (XI (XO (XO (XO (XO (XO (XO (XI
    XH)))))))))))), (Zpos (XO (XO (XO (XO (XI (XO (XO (XO (XO (XO (XI
    XH))))))))))))) :: (((Zpos (XO (XI (XO (XO (XI (XO (XO (XO (XO (XO (XI
    XH)))))))))))), (Zpos (XO (XO (XO (XI (XO (XI (XO (XO (XO (XO (XI
    XH))))))))))))) :: (((Zpos (XO (XI (XO (XI (XO (XI (XO (XO (XO (XO (XI
    XH)))))))))))), (Zpos (XI (XO (XO (XI (XI (XI (XO (XO (XO (XO (XI
    XH))))))))))))) :: (((Zpos (XO (XO (XI (XI (XI (XI (XO (XO (XO (XO (XI
    XH)))))))))))), (Zpos (XO (XO (XI (XO (XO (XO (XI (XO (XO (XO (XI
    XH))))))))))))) :: (((Zpos (XO (XI (XI (XO (XO (XO (XI (XO (XO (XO (XI
    XH)))))))))))), (Zpos (XO (XO (XO (XI (XO (XO (XI (XO (XO (XO (XI
    XH))))))))))))) :: (((Zpos (XO (XI (XO (XI (XO (XO (XI (XO (XO (XO (XI
    XH)))))))))))), (Zpos (XI (XO (XI (XI (XO (XO (XI (XO (XO (XO (XI
    XH))))))))))))) :: (((Zpos (XI (XO (XI (XO (XI (XO (XI (XO (XO (XO (XI
    XH)))))))))))), (Zpos (XO (XI (XI (XO (XI (XO (XI (XO (XO (XO (XI
    XH))))))))))))) :: (((Zpos (XO (XO (XO (XI (XI (XO (XI (XO (XO (XO (XI
    XH)))))))))))), (Zpos (XO (XI (XO (XI (XI (XO (XI (XO (XO (XO (XI
    XH))))))))))))) :: (((Zpos (XI (XO (XI (XI (XI (XO (XI (XO (XO (XO (XI
    XH)))))))))))), (Zpos (XI (XO (XI (XI (XI (XO (XI (XO (XO (XO (XI
    XH))))))))))))) :: (((Zpos (XO (XO (XO (XO (XO (XI (XI (XO (XO (XO (XI
    XH)))))))))))), (Zpos (XI (XI (XO (XO (XO (XI (XI (XO (XO (XO (XI
    XH))))))))))))) :: []))))))))))))))))))))))))) :: ((((Zpos (XO (XI (XI
    (XO (XO (XI (XI (XO (XO (XO (XI XH)))))))))))), (Zpos (XI (XI (XI (XI (XI
    (XI (XI (XO (XI (XO (XI XH))))))))))))), (((Zpos (XO (XI (XI (XO (XO (XI
    (XI (XO (XO (XO (XI XH)))))))))))), (Zpos (XI (XI (XI (XI (XO (XI (XI (XO
    (XO (XO (XI XH))))))))))))) :: (((Zpos (XO (XO (XO (XO (XO (XO (XO (XI
    (XO (XO (XI XH)))))))))))), (Zpos (XI (XI (XO (XO (XO (XO (XO (XI (XO (XO
    (XI XH))))))))))))) :: (((Zpos (XI (XO (XI (XO (XO (XO (XO (XI (XO (XO
    (XI XH)))))))))))), (Zpos (XO (XO (XI (XI (XO (XO (XO (XI (XO (XO (XI
    XH))))))))))))) :: (((Zpos (XO (XI (XI (XI (XO (XO (XO (XI (XO (XO (XI
    XH)))))))))))), (Zpos (XO (XO (XO (XO (XI (XO (XO (XI (XO (XO (XI
    XH))))))))))))) :: (((Zpos (XO (XI (XO (XO (XI (XO (XO (XI (XO (XO (XI
    XH)))))))))))), (Zpos (XO (XO (XO (XI (XO (XI (XO (XI (XO (XO (XI
    XH))))))))))))) :: (((Zpos (XO (XI (XO (XI (XO (XI (XO (XI (XO (XO (XI
    XH)))))))))))), (Zpos (XI (XI (XO (XO (XI (XI (XO (XI (XO (XO (XI
    XH))))))))))))) :: (((Zpos (XI (XO (XI (XO (XI (XI (XO (XI (XO (XO (XI
    XH)))))))))))), (Zpos (XI (XO (XO (XI (XI (XI (XO (XI (XO (XO (XI
    XH))))))))))))) :: (((Zpos (XO (XO (XI (XI (XI (XI (XO (XI (XO (XO (XI
    XH)))))))))))), (Zpos (XO (XO (XI (XO (XO (XO (XI (XI (XO (XO (XI
    XH))))))))))))) :: (((Zpos (XO (XI (XI (XO (XO (XO (XI (XI (XO (XO (XI
    XH)))))))))))), (Zpos (XO (XO (XO (XI (XO (XO (XI (XI (XO (XO (XI
    XH))))))))))))) :: (((Zpos (XO (XI (XO (XI (XO (XO (XI (XI (XO (XO (XI
    XH)))))))))))), (Zpos (XI (XO (XI (XI (XO (XO (XI (XI (XO (XO (XI
    XH))))))))))))) :: (((Zpos (XI (XO (XI (XO (XI (XO (XI (XI (XO (XO (XI
    XH)))))))))))), (Zpos (XO (XI (XI (XO (XI (XO (XI (XI (XO (XO (XI
    XH))))))))))))) :: (((Zpos (XI (XO (XI (XI (XI (XO (XI (XI (XO (XO (XI
    XH)))))))))))), (Zpos (XO (XI (XI (XI (XI (XO (XI (XI (XO (XO (XI
    XH))))))))))))) :: (((Zpos (XO (XO (XO (XO (XO (XI (XI (XI (XO (XO (XI
    XH)))))))))))), (Zpos (XI (XI (XO (XO (XO (XI (XI (XI (XO (XO (XI
    XH))))))))))))) :: (((Zpos (XO (XI (XI (XO (XO (XI (XI (XI (XO (XO (XI
    XH)))))))))))), (Zpos (XI (XI (XI (XI (XO (XI (XI (XI (XO (XO (XI
    XH))))))))))))) :: (((Zpos (XI (XO (XO (XO (XI (XI (XI (XI (XO (XO (XI
    XH)))))))))))), (Zpos (XI (XI (XO (XO (XI (XI (XI (XI (XO (XO (XI
    XH))))))))))))) :: (((Zpos (XO (XO (XO (XO (XO (XO (XO (XO (XI (XO (XI
    XH)))))))))))), (Zpos (XO (XO (XI (XI (XO (XO (XO (XO (XI (XO (XI
    XH))))))))))))) :: (((Zpos (XO (XI (XI (XI (XO (XO (XO (XO (XI (XO (XI
    XH)))))))))))), (Zpos (XO (XO (XO (XO (XI (XO (XO (XO (XI (XO (XI
    XH))))))))))))) :: (((Zpos (XO (XI (XO (XO (XI (XO (XO (XO (XI (XO (XI
    XH)))))))))))), (Zpos (XO (XO (XI (XO (XO (XO (XI (XO (XI (XO (XI
    XH))))))))))))) :: (((Zpos (XO (XI (XI (XO (XO (XO (XI (XO (XI (XO (XI
    XH)))))))))))), (Zpos (XO (XO (XO (XI (XO (XO (XI (XO (XI (XO (XI
    XH))))))))))))) :: (((Zpos (XO (XI (XO (XI (XO (XO (XI (XO (XI (XO (XI
    XH)))))))))))), (Zpos (XO (XI (XI (XI (XO (XO (XI (XO (XI (XO (XI
    XH))))))))))))) :: (((Zpos (XO (XO (XI (XO (XI (XO (XI (XO (XI (XO (XI
    XH)))))))))))), (Zpos (XI (XI (XI (XO (XI (XO (XI (XO (XI (XO (XI
    XH))))))))))))) :: (((Zpos (XI (XI (XI (XI (XI (XO (XI (XO (XI (XO (XI
    XH)))))))))))), (Zpos (XI (XI (XO (XO (XO (XI (XI (XO (XI (XO (XI
    XH))))))))))))) :: (((Zpos (XO (XI (XI (XO (XO (XI (XI (XO (XI (XO (XI
    XH)))))))))))), (Zpos (XI (XI (XI (XI (XO (XI (XI (XO (XI (XO (XI
    XH))))))))))))) :: (((Zpos (XO (XI (XO (XI (XI (XI (XI (XO (XI (XO (XI
    XH)))))))))))), (Zpos (XI (XI (XI (XI (XI (XI (XI (XO (XI (XO (XI
    XH))))))))))))) :: []))))))))))))))))))))))))) :: ((((Zpos (XI (XO (XO
    (XO (XO (XO (XO (XI (XI (XO (XI XH)))))))))))), (Zpos (XO (XI (XI (XI (XO
    (XO (XI (XI (XO (XI (XI XH))))))))))))), (((Zpos (XI (XO (XO (XO (XO (XO
    (XO (XI (XI (XO (XI XH)))))))))))), (Zpos (XI (XI (XO (XO (XO (XO (XO (XI
    (XI (XO (XI XH))))))))))))) :: (((Zpos (XI (XO (XI (XO (XO (XO (XO (XI
    (XI (XO (XI XH)))))))))))), (Zpos (XO (XI (XI (XO (XI (XO (XO (XI (XI (XO
    (XI XH))))))))))))) :: (((Zpos (XO (XI (XO (XI (XI (XO (XO (XI (XI (XO
    (XI XH)))))))))))), (Zpos (XI (XO (XO (XO (XI (XI (XO (XI (XI (XO (XI
    XH))))))))))))) :: (((Zpos (XI (XI (XO (XO (XI (XI (XO (XI (XI (XO (XI
    XH)))))))))))), (Zpos (XI (XI (XO (XI (XI (XI (XO (XI (XI (XO (XI
    XH))))))))))))) :: (((Zpos (XI (XO (XI (XI (XI (XI (XO (XI (XI (XO (XI
    XH)))))))))))), (Zpos (XI (XO (XI (XI (XI (XI (XO (XI (XI (XO (XI
    XH))))))))))))) :: (((Zpos (XO (XO (XO (XO (XO (XO (XI (XI (XI (XO (XI
    XH)))))))))))), (Zpos (XO (XI (XI (XO (XO (XO (XI (XI (XI (XO (XI
    XH))))))))))))) :: (((Zpos (XO (XI (XO (XI (XO (XO (XI (XI (XI (XO (XI
    XH)))))))))))), (Zpos (XO (XI (XO (XI (XO (XO (XI (XI (XI (XO (XI
    XH))))))))))))) :: (((Zpos (XI (XI (XI (XI (XO (XO (XI (XI (XI (XO (XI
    XH)))))))))))), (Zpos (XO (XO (XI (XO (XI (XO (XI (XI (XI (XO (XI
    XH))))))))))))) :: (((Zpos (XO (XI (XI (XO (XI (XO (XI (XI (XI (XO (XI
    XH)))))))))))), (Zpos (XO (XI (XI (XO (XI (XO (XI (XI (XI (XO (XI
    XH))))))))))))) :: (((Zpos (XO (XO (XO (XI (XI (XO (XI (XI (XI (XO (XI
    XH)))))))))))), (Zpos (XI (XI (XI (XI (XI (XO (XI (XI (XI (XO (XI
    XH))))))))))))) :: (((Zpos (XO (XI (XI (XO (XO (XI (XI (XI (XI (XO (XI
    XH)))))))))))), (Zpos (XI (XI (XI (XI (XO (XI (XI (XI (XI (XO (XI
    XH))))))))))))) :: (((Zpos (XO (XI (XO (XO (XI (XI (XI (XI (XI (XO (XI
    XH)))))))))))), (Zpos (XI (XI (XO (XO (XI (XI (XI (XI (XI (XO (XI
    XH))))))))))))) :: (((Zpos (XI (XO (XO (XO (XO (XO (XO (XO (XO (XI (XI
    XH)))))))))))), (Zpos (XO (XI (XO (XI (XI (XI (XO (XO (XO (XI (XI
    XH))))))))))))) :: (((Zpos (XO (XO (XO (XO (XO (XO (XI (XO (XO (XI (XI
    XH)))))))))))), (Zpos (XO (XI (XI (XI (XO (XO (XI (XO (XO (XI (XI
    XH))))))))))))) :: (((Zpos (XO (XO (XO (XO (XI (XO (XI (XO (XO (XI (XI
    XH)))))))))))), (Zpos (XI (XO (XO (XI (XI (XO (XI (XO (XO (XI (XI
    XH))))))))))))) :: (((Zpos (XI (XO (XO (XO (XO (XO (XO (XI (XO (XI (XI
    XH)))))))))))), (Zpos (XO (XI (XO (XO (XO (XO (XO (XI (XO (XI (XI
    XH))))))))))))) :: (((Zpos (XO (XO (XI (XO (XO (XO (XO (XI (XO (XI (XI
    XH)))))))))))), (Zpos (XO (XO (XI (XO (XO (XO (XO (XI (XO (XI (XI
    XH))))))))))))) :: (((Zpos (XO (XI (XI (XO (XO (XO (XO (XI (XO (XI (XI
    XH)))))))))))), (Zpos (XO (XI (XO (XI (XO (XO (XO (XI (XO (XI (XI
    XH))))))))))))) :: (((Zpos (XO (XO (XI (XI (XO (XO (XO (XI (XO (XI (XI
    XH)))))))))))), (Zpos (XI (XI (XO (XO (XO (XI (XO (XI (XO (XI (XI
    XH))))))))))))) :: (((Zpos (XI (XO (XI (XO (XO (XI (XO (XI (XO (XI (XI
    XH)))))))))))), (Zpos (XI (XO (XI (XO (XO (XI (XO (XI (XO (XI (XI
    XH))))))))))))) :: (((Zpos (XI (XI (XI (XO (XO (XI (XO (XI (XO (XI (XI
    XH)))))))))))), (Zpos (XI (XO (XI (XI (XI (XI (XO (XI (XO (XI (XI
    XH))))))))))))) :: (((Zpos (XO (XO (XO (XO (XO (XO (XI (XI (XO (XI (XI
    XH)))))))))))), (Zpos (XO (XO (XI (XO (XO (XO (XI (XI (XO (XI (XI
    XH))))))))))))) :: (((Zpos (XO (XI (XI (XO (XO (XO (XI (XI (XO (XI (XI
    XH)))))))))))), (Zpos (XO (XI (XI (XO (XO (XO (XI (XI (XO (XI (XI
    XH))))))))))))) :: (((Zpos (XO (XO (XO (XI (XO (XO (XI (XI (XO (XI (XI
    XH)))))))))))), (Zpos (XO (XI (XI (XI (XO (XO (XI (XI (XO (XI (XI
    XH))))))))))))) :: []))))))))))))))))))))))))) :: ((((Zpos (XO (XO (XO
    (XO (XI (XO (XI (XI (XO (XI (XI XH)))))))))))), (Zpos (XO (XO (XO (XI (XI
    (XO (XI (XO (XO (XI (XO (XO XH)))))))))))))), (((Zpos (XO (XO (XO (XO (XI
    (XO (XI (XI (XO (XI (XI XH)))))))))))), (Zpos (XI (XO (XO (XI (XI (XO (XI
    (XI (XO (XI (XI XH))))))))))))) :: (((Zpos (XO (XO (XI (XI (XI (XO (XI
    (XI (XO (XI (XI XH)))))))))))), (Zpos (XI (XI (XI (XI (XI (XO (XI (XI (XO
    (XI (XI XH))))))))))))) :: (((Zpos (XO (XO (XO (XO (XO (XO (XO (XO (XI
    (XI (XI XH)))))))))))), (Zpos (XO (XO (XO (XO (XO (XO (XO (XO (XI (XI (XI
    XH))))))))))))) :: (((Zpos (XO (XO (XO (XI (XI (XO (XO (XO (XI (XI (XI
    XH)))))))))))), (Zpos (XI (XO (XO (XI (XI (XO (XO (XO (XI (XI (XI
    XH))))))))))))) :: (((Zpos (XO (XO (XO (XO (XO (XI (XO (XO (XI (XI (XI
    XH)))))))))))), (Zpos (XI (XO (XO (XI (XO (XI (XO (XO (XI (XI (XI
    XH))))))))))))) :: (((Zpos (XI (XO (XI (XO (XI (XI (XO (XO (XI (XI (XI
    XH)))))))))))), (Zpos (XI (XO (XI (XO (XI (XI (XO (XO (XI (XI (XI
    XH))))))))))))) :: (((Zpos (XI (XI (XI (XO (XI (XI (XO (XO (XI (XI (XI
    XH)))))))))))), (Zpos (XI (XI (XI (XO (XI (XI (XO (XO (XI (XI (XI
    XH))))))))))))) :: (((Zpos (XI (XO (XO (XI (XI (XI (XO (XO (XI (XI (XI
    XH)))))))))))), (Zpos (XI (XO (XO (XI (XI (XI (XO (XO (XI (XI (XI
    XH))))))))))))) :: (((Zpos (XO (XI (XI (XI (XI (XI (XO (XO (XI (XI (XI
    XH)))))))))))), (Zpos (XI (XI (XI (XO (XO (XO (XI (XO (XI (XI (XI
    XH))))))))))))) :: (((Zpos (XI (XO (XO (XI (XO (XO (XI (XO (XI (XI (XI
    XH)))))))))))), (Zpos (XO (XO (XI (XI (XO (XI (XI (XO (XI (XI (XI
    XH))))))))))))) :: (((Zpos (XI (XO (XO (XO (XI (XI (XI (XO (XI (XI (XI
    XH)))))))))))), (Zpos (XO (XO (XI (XO (XO (XO (XO (XI (XI (XI (XI
    XH))))))))))))) :: (((Zpos (XO (XI (XI (XO (XO (XO (XO (XI (XI (XI (XI
    XH)))))))))))), (Zpos (XI (XI (XI (XO (XI (XO (XO (XI (XI (XI (XI
    XH))))))))))))) :: (((Zpos (XI (XO (XO (XI (XI (XO (XO (XI (XI (XI (XI
    XH)))))))))))), (Zpos (XO (XO (XI (XI (XI (XI (XO (XI (XI (XI (XI
    XH))))))))))))) :: (((Zpos (XO (XI (XI (XO (XO (XO (XI (XI (XI (XI (XI
    XH)))))))))))), (Zpos (XO (XI (XI (XO (XO (XO (XI (XI (XI (XI (XI
    XH))))))))))))) :: (((Zpos (XO (XO (XO (XO (XO (XO (XO (XO (XO (XO (XO
    (XO XH))))))))))))), (Zpos (XI (XO (XO (XI (XO (XO (XI (XO (XO (XO (XO
    (XO XH)))))))))))))) :: (((Zpos (XO (XO (XO (XO (XI (XO (XI (XO (XO (XO
    (XO (XO XH))))))))))))), (Zpos (XI (XO (XI (XI (XI (XO (XO (XI (XO (XO
    (XO (XO XH)))))))))))))) :: (((Zpos (XO (XO (XO (XO (XO (XI (XO (XI (XO
    (XO (XO (XO XH))))))))))))), (Zpos (XI (XO (XI (XO (XO (XO (XI (XI (XO
    (XO (XO (XO XH)))))))))))))) :: (((Zpos (XI (XI (XI (XO (XO (XO (XI (XI
    (XO (XO (XO (XO XH))))))))))))), (Zpos (XI (XI (XI (XO (XO (XO (XI (XI
    (XO (XO (XO (XO XH)))))))))))))) :: (((Zpos (XI (XO (XI (XI (XO (XO (XI
    (XI (XO (XO (XO (XO XH))))))))))))), (Zpos (XI (XO (XI (XI (XO (XO (XI
    (XI (XO (XO (XO (XO XH)))))))))))))) :: (((Zpos (XO (XO (XO (XO (XI (XO
    (XI (XI (XO (XO (XO (XO XH))))))))))))), (Zpos (XO (XI (XO (XI (XI (XI
    (XI (XI (XO (XO (XO (XO XH)))))))))))))) :: (((Zpos (XO (XO (XI (XI (XI
    (XI (XI (XI (XO (XO (XO (XO XH))))))))))))), (Zpos (XO (XO (XO (XI (XO
    (XO (XI (XO (XO (XI (XO (XO XH)))))))))))))) :: (((Zpos (XO (XI (XO (XI
    (XO (XO (XI (XO (XO (XI (XO (XO XH))))))))))))), (Zpos (XI (XO (XI (XI
    (XO (XO (XI (XO (XO (XI (XO (XO XH)))))))))))))) :: (((Zpos (XO (XO (XO
    (XO (XI (XO (XI (XO (XO (XI (XO (XO XH))))))))))))), (Zpos (XO (XI (XI
    (XO (XI (XO (XI (XO (XO (XI (XO (XO XH)))))))))))))) :: (((Zpos (XO (XO
    (XO (XI (XI (XO (XI (XO (XO (XI (XO (XO XH))))))))))))), (Zpos (XO (XO
    (XO (XI (XI (XO (XI (XO (XO (XI (XO (XO
    XH)))))))))))))) :: []))))))))))))))))))))))))) :: ((((Zpos (XO (XI (XO
    (XI (XI (XO (XI (XO (XO (XI (XO (XO XH))))))))))))), (Zpos (XO (XO (XI
    (XO (XI (XI (XO (XO (XI (XI (XI (XO XH)))))))))))))), (((Zpos (XO (XI (XO
    (XI (XI (XO (XI (XO (XO (XI (XO (XO XH))))))))))))), (Zpos (XI (XO (XI
    (XI (XI (XO (XI (XO (XO (XI (XO (XO XH)))))))))))))) :: (((Zpos (XO (XO
    (XO (XO (XO (XI (XI (XO (XO (XI (XO (XO XH))))))))))))), (Zpos (XO (XO
    (XO (XI (XO (XO (XO (XI (XO (XI (XO (XO XH)))))))))))))) :: (((Zpos (XO
    (XI (XO (XI (XO (XO (XO (XI (XO (XI (XO (XO XH))))))))))))), (Zpos (XI
    (XO (XI (XI (XO (XO (XO (XI (XO (XI (XO (XO XH)))))))))))))) :: (((Zpos
    (XO (XO (XO (XO (XI (XO (XO (XI (XO (XI (XO (XO XH))))))))))))), (Zpos
    (XO (XO (XO (XO (XI (XI (XO (XI (XO (XI (XO (XO
    XH)))))))))))))) :: (((Zpos (XO (XI (XO (XO (XI (XI (XO (XI (XO (XI (XO
    (XO XH))))))))))))), (Zpos (XI (XO (XI (XO (XI (XI (XO (XI (XO (XI (XO
    (XO XH)))))))))))))) :: (((Zpos (XO (XO (XO (XI (XI (XI (XO (XI (XO (XI
    (XO (XO XH))))))))))))), (Zpos (XO (XI (XI (XI (XI (XI (XO (XI (XO (XI
    (XO (XO XH)))))))))))))) :: (((Zpos (XO (XO (XO (XO (XO (XO (XI (XI (XO
    (XI (XO (XO XH))))))))))))), (Zpos (XO (XO (XO (XO (XO (XO (XI (XI (XO
    (XI (XO (XO XH)))))))))))))) :: (((Zpos (XO (XI (XO (XO (XO (XO (XI (XI
    (XO (XI (XO (XO XH))))))))))))), (Zpos (XI (XO (XI (XO (XO (XO (XI (XI
    (XO (XI (XO (XO XH)))))))))))))) :: (((Zpos (XO (XO (XO (XI (XO (XO (XI
    (XI (XO (XI (XO (XO XH))))))))))))), (Zpos (XO (XI (XI (XO (XI (XO (XI
    (XI (XO (XI (XO (XO XH)))))))))))))) :: (((Zpos (XO (XO (XO (XI (XI (XO
    (XI (XI (XO (XI (XO (XO XH))))))))))))), (Zpos (XO (XO (XO (XO (XI (XO
    (XO (XO (XI (XI (XO (XO XH)))))))))))))) :: (((Zpos (XO (XI (XO (XO (XI
    (XO (XO (XO (XI (XI (XO (XO XH))))))))))))), (Zpos (XI (XO (XI (XO (XI
    (XO (XO (XO (XI (XI (XO (XO XH)))))))))))))) :: (((Zpos (XO (XO (XO (XI
    (XI (XO (XO (XO (XI (XI (XO (XO XH))))))))))))), (Zpos (XO (XI (XO (XI
    (XI (XO (XI (XO (XI (XI (XO (XO XH)))))))))))))) :: (((Zpos (XI (XO (XI
    (XI (XI (XO (XI (XO (XI (XI (XO (XO XH))))))))))))), (Zpos (XI (XI (XI
    (XI (XI (XO (XI (XO (XI (XI (XO (XO XH)))))))))))))) :: (((Zpos (XI (XO
    (XO (XI (XO (XI (XI (XO (XI (XI (XO (XO XH))))))))))))), (Zpos (XI (XO
    (XO (XO (XI (XI (XI (XO (XI (XI (XO (XO XH)))))))))))))) :: (((Zpos (XO
    (XO (XO (XO (XO (XO (XO (XI (XI (XI (XO (XO XH))))))))))))), (Zpos (XI
    (XI (XI (XI (XO (XO (XO (XI (XI (XI (XO (XO XH)))))))))))))) :: (((Zpos
    (XO (XO (XO (XO (XO (XI (XO (XI (XI (XI (XO (XO XH))))))))))))), (Zpos
    (XI (XO (XI (XO (XI (XI (XI (XI (XI (XI (XO (XO
    XH)))))))))))))) :: (((Zpos (XO (XO (XO (XI (XI (XI (XI (XI (XI (XI (XO
    (XO XH))))))))))))), (Zpos (XI (XO (XI (XI (XI (XI (XI (XI (XI (XI (XO
    (XO XH)))))))))))))) :: (((Zpos (XI (XO (XO (XO (XO (XO (XO (XO (XO (XO
    (XI (XO XH))))))))))))), (Zpos (XO (XO (XI (XI (XO (XI (XI (XO (XO (XI
    (XI (XO XH)))))))))))))) :: (((Zpos (XI (XI (XI (XI (XO (XI (XI (XO (XO
    (XI (XI (XO XH))))))))))))), (Zpos (XI (XI (XI (XI (XI (XI (XI (XO (XO
    (XI (XI (XO XH)))))))))))))) :: (((Zpos (XI (XO (XO (XO (XO (XO (XO (XI
    (XO (XI (XI (XO XH))))))))))))), (Zpos (XO (XI (XO (XI (XI (XO (XO (XI
    (XO (XI (XI (XO XH)))))))))))))) :: (((Zpos (XO (XO (XO (XO (XO (XI (XO
    (XI (XO (XI (XI (XO XH))))))))))))), (Zpos (XO (XI (XO (XI (XO (XI (XI
    (XI (XO (XI (XI (XO XH)))))))))))))) :: (((Zpos (XO (XI (XI (XI (XO (XI
    (XI (XI (XO (XI (XI (XO XH))))))))))))), (Zpos (XO (XO (XO (XI (XI (XI
    (XI (XI (XO (XI (XI (XO XH)))))))))))))) :: (((Zpos (XO (XO (XO (XO (XO
    (XO (XO (XO (XI (XI (XI (XO XH))))))))))))), (Zpos (XI (XO (XI (XO (XI
    (XO (XO (XO (XI (XI (XI (XO XH)))))))))))))) :: (((Zpos (XI (XI (XI (XI
    (XI (XO (XO (XO (XI (XI (XI (XO XH))))))))))))), (Zpos (XO (XO (XI (XO
    (XI (XI (XO (XO (XI (XI (XI (XO
    XH)))))))))))))) :: []))))))))))))))))))))))))) :: ((((Zpos (XO (XO (XO
    (XO (XO (XO (XI (XO (XI (XI (XI (XO XH))))))))))))), (Zpos (XO (XO (XI
    (XI (XI (XI (XI (XO (XO (XI (XO (XI XH)))))))))))))), (((Zpos (XO (XO (XO
    (XO (XO (XO (XI (XO (XI (XI (XI (XO XH))))))))))))), (Zpos (XI (XI (XO
    (XO (XI (XO (XI (XO (XI (XI (XI (XO XH)))))))))))))) :: (((Zpos (XO (XO
    (XO (XO (XO (XI (XI (XO (XI (XI (XI (XO XH))))))))))))), (Zpos (XO (XO
    (XI (XI (XO (XI (XI (XO (XI (XI (XI (XO XH)))))))))))))) :: (((Zpos (XO
    (XI (XI (XI (XO (XI (XI (XO (XI (XI (XI (XO XH))))))))))))), (Zpos (XO
    (XO (XO (XO (XI (XI (XI (XO (XI (XI (XI (XO XH)))))))))))))) :: (((Zpos
    (XO (XI (XO (XO (XI (XI (XI (XO (XI (XI (XI (XO XH))))))))))))), (Zpos
    (XI (XI (XO (XO (XI (XI (XI (XO (XI (XI (XI (XO
    XH)))))))))))))) :: (((Zpos (XO (XO (XO (XO (XO (XO (XO (XI (XI (XI (XI
    (XO XH))))))))))))), (Zpos (XI (XI (XO (XO (XI (XO (XI (XI (XI (XI (XI
    (XO XH)))))))))))))) :: (((Zpos (XI (XI (XI (XO (XI (XO (XI (XI (XI (XI
    (XI (XO XH))))))))))))), (Zpos (XI (XI (XI (XO (XI (XO (XI (XI (XI (XI
    (XI (XO XH)))))))))))))) :: (((Zpos (XO (XO (XI (XI (XI (XO (XI (XI (XI
    (XI (XI (XO XH))))))))))))), (Zpos (XI (XO (XI (XI (XI (XO (XI (XI (XI
    (XI (XI (XO XH)))))))))))))) :: (((Zpos (XO (XO (XO (XO (XO (XI (XI (XI
    (XI (XI (XI (XO XH))))))))))))), (Zpos (XI (XO (XO (XI (XO (XI (XI (XI
    (XI (XI (XI (XO XH)))))))))))))) :: (((Zpos (XI (XI (XO (XI (XO (XO (XO
    (XO (XO (XO (XO (XI XH))))))))))))), (Zpos (XI (XO (XI (XI (XO (XO (XO
    (XO (XO (XO (XO (XI XH)))))))))))))) :: (((Zpos (XI (XI (XI (XI (XO (XO
    (XO (XO (XO (XO (XO (XI XH))))))))))))), (Zpos (XI (XO (XO (XI (XI (XO
    (XO (XO (XO (XO (XO (XI XH)))))))))))))) :: (((Zpos (XO (XO (XO (XO (XO
    (XI (XO (XO (XO (XO (XO (XI XH))))))))))))), (Zpos (XO (XO (XO (XI (XI
    (XI (XI (XO (XO (XO (XO (XI XH)))))))))))))) :: (((Zpos (XO (XO (XO (XO
    (XO (XO (XO (XI (XO (XO (XO (XI XH))))))))))))), (Zpos (XO (XI (XO (XI
    (XO (XI (XO (XI (XO (XO (XO (XI XH)))))))))))))) :: (((Zpos (XO (XO (XO
    (XO (XI (XI (XO (XI (XO (XO (XO (XI XH))))))))))))), (Zpos (XI (XO (XI
    (XO (XI (XI (XI (XI (XO (XO (XO (XI XH)))))))))))))) :: (((Zpos (XO (XO
    (XO (XO (XO (XO (XO (XO (XI (XO (XO (XI XH))))))))))))), (Zpos (XO (XI
    (XI (XI (XI (XO (XO (XO (XI (XO (XO (XI XH)))))))))))))) :: (((Zpos (XO
    (XO (XO (XO (XO (XI (XO (XO (XI (XO (XO (XI XH))))))))))))), (Zpos (XI
    (XI (XO (XI (XO (XI (XO (XO (XI (XO (XO (XI XH)))))))))))))) :: (((Zpos
    (XO (XO (XO (XO (XI (XI (XO (XO (XI (XO (XO (XI XH))))))))))))), (Zpos
    (XI (XI (XO (XI (XI (XI (XO (XO (XI (XO (XO (XI
    XH)))))))))))))) :: (((Zpos (XO (XI (XI (XO (XO (XO (XI (XO (XI (XO (XO
    (XI XH))))))))))))), (Zpos (XI (XO (XI (XI (XO (XI (XI (XO (XI (XO (XO
    (XI XH)))))))))))))) :: (((Zpos (XO (XO (XO (XO (XI (XI (XI (XO (XI (XO
    (XO (XI XH))))))))))))), (Zpos (XO (XO (XI (XO (XI (XI (XI (XO (XI (XO
    (XO (XI XH)))))))))))))) :: (((Zpos (XO (XO (XO (XO (XO (XO (XO (XI (XI
    (XO (XO (XI XH))))))))))))), (Zpos (XI (XI (XO (XI (XO (XI (XO (XI (XI
    (XO (XO (XI XH)))))))))))))) :: (((Zpos (XO (XO (XO (XO (XI (XI (XO (XI
    (XI (XO (XO (XI XH))))))))))))), (Zpos (XI (XO (XO (XI (XO (XO (XI (XI
    (XI (XO (XO (XI XH)))))))))))))) :: (((Zpos (XO (XO (XO (XO (XI (XO (XI
    (XI (XI (XO (XO (XI XH))))))))))))), (Zpos (XO (XI (XO (XI (XI (XO (XI
    (XI (XI (XO (XO (XI XH)))))))))))))) :: (((Zpos (XO (XO (XO (XO (XO (XO
    (XO (XO (XO (XI (XO (XI XH))))))))))))), (Zpos (XI (XI (XO (XI (XI (XO
    (XO (XO (XO (XI (XO (XI XH)))))))))))))) :: (((Zpos (XO (XO (XO (XO (XO
    (XI (XO (XO (XO (XI (XO (XI XH))))))))))))), (Zpos (XO (XI (XI (XI (XI
    (XO (XI (XO (XO (XI (XO (XI XH)))))))))))))) :: (((Zpos (XO (XO (XO (XO
    (XO (XI (XI (XO (XO (XI (XO (XI XH))))))))))))), (Zpos (XO (XO (XI (XI
    (XI (XI (XI (XO (XO (XI (XO (XI
    XH)))))))))))))) :: []))))))))))))))))))))))))) :: ((((Zpos (XI (XI (XI
    (XI (XI (XI (XI (XO (XO (XI (XO (XI XH))))))))))))), (Zpos (XI (XI (XO
    (XI (XI (XO (XI (XO (XI (XI (XI (XI XH)))))))))))))), (((Zpos (XI (XI (XI
    (XI (XI (XI (XI (XO (XO (XI (XO (XI XH))))))))))))), (Zpos (XI (XO (XO
    (XI (XO (XO (XO (XI (XO (XI (XO (XI XH)))))))))))))) :: (((Zpos (XO (XO
    (XO (XO (XI (XO (XO (XI (XO (XI (XO (XI XH))))))))))))), (Zpos (XI (XO
    (XO (XI (XI (XO (XO (XI (XO (XI (XO (XI XH)))))))))))))) :: (((Zpos (XI
    (XI (XI (XO (XO (XI (XO (XI (XO (XI (XO (XI XH))))))))))))), (Zpos (XI
    (XI (XI (XO (XO (XI (XO (XI (XO (XI (XO (XI XH)))))))))))))) :: (((Zpos
    (XO (XO (XO (XO (XI (XI (XO (XI (XO (XI (XO (XI XH))))))))))))), (Zpos
    (XI (XO (XI (XI (XI (XI (XO (XI (XO (XI (XO (XI
    XH)))))))))))))) :: (((Zpos (XI (XI (XI (XI (XI (XI (XO (XI (XO (XI (XO
    (XI XH))))))))))))), (Zpos (XO (XI (XI (XI (XO (XO (XI (XI (XO (XI (XO
    (XI XH)))))))))))))) :: (((Zpos (XO (XO (XO (XO (XO (XO (XO (XO (XI (XI
    (XO (XI XH))))))))))))), (Zpos (XO (XO (XI (XI (XO (XO (XI (XO (XI (XI
    (XO (XI XH)))))))))))))) :: (((Zpos (XO (XO (XO (XO (XI (XO (XI (XO (XI
    (XI (XO (XI XH))))))))))))), (Zpos (XI (XO (XO (XI (XI (XO (XI (XO (XI
    (XI (XO (XI XH)))))))))))))) :: (((Zpos (XI (XI (XO (XI (XO (XI (XI (XO
    (XI (XI (XO (XI XH))))))))))))), (Zpos (XI (XI (XO (XO (XI (XI (XI (XO
    (XI (XI (XO (XI XH)))))))))))))) :: (((Zpos (XO (XO (XO (XO (XO (XO (XO
    (XI (XI (XI (XO (XI XH))))))))))))), (Zpos (XI (XI (XO (XO (XI (XI (XI
    (XI (XI (XI (XO (XI XH)))))))))))))) :: (((Zpos (XO (XO (XO (XO (XO (XO
    (XO (XO (XO (XO (XI (XI XH))))))))))))), (Zpos (XI (XI (XI (XO (XI (XI
    (XO (XO (XO (XO (XI (XI XH)))))))))))))) :: (((Zpos (XO (XO (XO (XO (XO
    (XO (XI (XO (XO (XO (XI (XI XH))))))))))))), (Zpos (XI (XO (XO (XI (XO
    (XO (XI (XO (XO (XO (XI (XI XH)))))))))))))) :: (((Zpos (XI (XO (XI (XI
    (XO (XO (XI (XO (XO (XO (XI (XI XH))))))))))))), (Zpos (XI (XO (XI (XI
    (XI (XI (XI (XO (XO (XO (XI (XI XH)))))))))))))) :: (((Zpos (XO (XO (XO
    (XO (XO (XO (XO (XI (XO (XO (XI (XI XH))))))))))))), (Zpos (XO (XO (XO
    (XI (XO (XO (XO (XI (XO (XO (XI (XI XH)))))))))))))) :: (((Zpos (XO (XO
    (XO (XO (XI (XO (XO (XI (XO (XO (XI (XI XH))))))))))))), (Zpos (XO (XI
    (XO (XI (XI (XI (XO (XI (XO (XO (XI (XI XH)))))))))))))) :: (((Zpos (XI
    (XO (XI (XI (XI (XI (XO (XI (XO (XO (XI (XI XH))))))))))))), (Zpos (XI
    (XI (XI (XI (XI (XI (XO (XI (XO (XO (XI (XI XH)))))))))))))) :: (((Zpos
    (XO (XO (XO (XO (XI (XO (XI (XI (XO (XO (XI (XI XH))))))))))))), (Zpos
    (XO (XI (XO (XO (XI (XO (XI (XI (XO (XO (XI (XI
    XH)))))))))))))) :: (((Zpos (XO (XO (XI (XO (XI (XO (XI (XI (XO (XO (XI
    (XI XH))))))))))))), (Zpos (XO (XI (XO (XI (XI (XI (XI (XI (XO (XO (XI
    (XI XH)))))))))))))) :: (((Zpos (XO (XO (XO (XO (XO (XO (XO (XO (XI (XO
    (XI (XI XH))))))))))))), (Zpos (XI (XO (XI (XO (XI (XO (XO (XO (XI (XI
    (XI (XI XH)))))))))))))) :: (((Zpos (XO (XO (XO (XI (XI (XO (XO (XO (XI
    (XI (XI (XI XH))))))))))))), (Zpos (XI (XO (XI (XI (XI (XO (XO (XO (XI
    (XI (XI (XI XH)))))))))))))) :: (((Zpos (XO (XO (XO (XO (XO (XI (XO (XO
    (XI (XI (XI (XI XH))))))))))))), (Zpos (XI (XO (XI (XO (XO (XO (XI (XO
    (XI (XI (XI (XI XH)))))))))))))) :: (((Zpos (XO (XO (XO (XI (XO (XO (XI
    (XO (XI (XI (XI (XI XH))))))))))))), (Zpos (XI (XO (XI (XI (XO (XO (XI
    (XO (XI (XI (XI (XI XH)))))))))))))) :: (((Zpos (XO (XO (XO (XO (XI (XO
    (XI (XO (XI (XI (XI (XI XH))))))))))))), (Zpos (XI (XI (XI (XO (XI (XO
    (XI (XO (XI (XI (XI (XI XH)))))))))))))) :: (((Zpos (XI (XO (XO (XI (XI
    (XO (XI (XO (XI (XI (XI (XI XH))))))))))))), (Zpos (XI (XO (XO (XI (XI
    (XO (XI (XO (XI (XI (XI (XI XH)))))))))))))) :: (((Zpos (XI (XI (XO (XI
    (XI (XO (XI (XO (XI (XI (XI (XI XH))))))))))))), (Zpos (XI (XI (XO (XI
    (XI (XO (XI (XO (XI (XI (XI (XI
    XH)))))))))))))) :: []))))))))))))))))))))))))) :: ((((Zpos (XI (XO (XI
    (XI (XI (XO (XI (XO (XI (XI (XI (XI XH))))))))))))), (Zpos (XI (XO (XI
    (XO (XI (XO (XO (XO (XI (XO (XO (XO (XO XH))))))))))))))), (((Zpos (XI
    (XO (XI (XI (XI (XO (XI (XO (XI (XI (XI (XI XH))))))))))))), (Zpos (XI
    (XO (XI (XI (XI (XO (XI (XO (XI (XI (XI (XI XH)))))))))))))) :: (((Zpos
    (XI (XI (XI (XI (XI (XO (XI (XO (XI (XI (XI (XI XH))))))))))))), (Zpos
    (XI (XO (XI (XI (XI (XI (XI (XO (XI (XI (XI (XI
    XH)))))))))))))) :: (((Zpos (XO (XO (XO (XO (XO (XO (XO (XI (XI (XI (XI
    (XI XH))))))))))))), (Zpos (XO (XO (XI (XO (XI (XI (XO (XI (XI (XI (XI
    (XI XH)))))))))))))) :: (((Zpos (XO (XI (XI (XO (XI (XI (XO (XI (XI (XI
    (XI (XI XH))))))))))))), (Zpos (XO (XO (XI (XI (XI (XI (XO (XI (XI (XI
    (XI (XI XH)))))))))))))) :: (((Zpos (XO (XI (XI (XI (XI (XI (XO (XI (XI
    (XI (XI (XI XH))))))))))))), (Zpos (XO (XI (XI (XI (XI (XI (XO (XI (XI
    (XI (XI (XI XH)))))))))))))) :: (((Zpos (XO (XI (XO (XO (XO (XO (XI (XI
    (XI (XI (XI (XI XH))))))))))))), (Zpos (XO (XO (XI (XO (XO (XO (XI (XI
    (XI (XI (XI (XI XH)))))))))))))) :: (((Zpos (XO (XI (XI (XO (XO (XO (XI
    (XI (XI (XI (XI (XI XH))))))))))))), (Zpos (XO (XO (XI (XI (XO (XO (XI
    (XI (XI (XI (XI (XI XH)))))))))))))) :: (((Zpos (XO (XO (XO (XO (XI (XO
    (XI (XI (XI (XI (XI (XI XH))))))))))))), (Zpos (XI (XI (XO (XO (XI (XO
    (XI (XI (XI (XI (XI (XI XH)))))))))))))) :: (((Zpos (XO (XI (XI (XO (XI
    (XO (XI (XI (XI (XI (XI (XI XH))))))))))))), (Zpos (XI (XI (XO (XI (XI
    (XO (XI (XI (XI (XI (XI (XI XH)))))))))))))) :: (((Zpos (XO (XO (XO (XO
    (XO (XI (XI (XI (XI (XI (XI (XI XH))))))))))))), (Zpos (XO (XO (XI (XI
    (XO (XI (XI (XI (XI (XI (XI (XI XH)))))))))))))) :: (((Zpos (XO (XI (XO
    (XO (XI (XI (XI (XI (XI (XI (XI (XI XH))))))))))))), (Zpos (XO (XO (XI
    (XO (XI (XI (XI (XI (XI (XI (XI (XI XH)))))))))))))) :: (((Zpos (XO (XI
    (XI (XO (XI (XI (XI (XI (XI (XI (XI (XI XH))))))))))))), (Zpos (XO (XO
    (XI (XI (XI (XI (XI (XI (XI (XI (XI (XI XH)))))))))))))) :: (((Zpos (XI
    (XI (XI (XI (XI (XI (XO (XO (XO (XO (XO (XO (XO XH)))))))))))))), (Zpos
    (XO (XO (XO (XO (XO (XO (XI (XO (XO (XO (XO (XO (XO
    XH))))))))))))))) :: (((Zpos (XO (XO (XI (XO (XI (XO (XI (XO (XO (XO (XO
    (XO (XO XH)))))))))))))), (Zpos (XO (XO (XI (XO (XI (XO (XI (XO (XO (XO
    (XO (XO (XO XH))))))))))))))) :: (((Zpos (XI (XO (XO (XO (XI (XI (XI (XO
    (XO (XO (XO (XO (XO XH)))))))))))))), (Zpos (XI (XO (XO (XO (XI (XI (XI
    (XO (XO (XO (XO (XO (XO XH))))))))))))))) :: (((Zpos (XI (XI (XI (XI (XI
    (XI (XI (XO (XO (XO (XO (XO (XO XH)))))))))))))), (Zpos (XI (XI (XI (XI
    (XI (XI (XI (XO (XO (XO (XO (XO (XO XH))))))))))))))) :: (((Zpos (XO (XO
    (XO (XO (XI (XO (XO (XI (XO (XO (XO (XO (XO XH)))))))))))))), (Zpos (XO
    (XO (XI (XI (XI (XO (XO (XI (XO (XO (XO (XO (XO
    XH))))))))))))))) :: (((Zpos (XO (XO (XO (XO (XI (XO (XI (XI (XO (XO (XO
    (XO (XO XH)))))))))))))), (Zpos (XO (XO (XI (XI (XI (XO (XI (XI (XO (XO
    (XO (XO (XO XH))))))))))))))) :: (((Zpos (XI (XO (XO (XO (XO (XI (XI (XI
    (XO (XO (XO (XO (XO XH)))))))))))))), (Zpos (XI (XO (XO (XO (XO (XI (XI
    (XI (XO (XO (XO (XO (XO XH))))))))))))))) :: (((Zpos (XI (XO (XI (XO (XO
    (XI (XI (XI (XO (XO (XO (XO (XO XH)))))))))))))), (Zpos (XO (XO (XO (XO
    (XI (XI (XI (XI (XO (XO (XO (XO (XO XH))))))))))))))) :: (((Zpos (XO (XI
    (XO (XO (XO (XO (XO (XO (XI (XO (XO (XO (XO XH)))))))))))))), (Zpos (XO
    (XI (XO (XO (XO (XO (XO (XO (XI (XO (XO (XO (XO
    XH))))))))))))))) :: (((Zpos (XI (XI (XI (XO (XO (XO (XO (XO (XI (XO (XO
    (XO (XO XH)))))))))))))), (Zpos (XI (XI (XI (XO (XO (XO (XO (XO (XI (XO
    (XO (XO (XO XH))))))))))))))) :: (((Zpos (XO (XI (XO (XI (XO (XO (XO (XO
    (XI (XO (XO (XO (XO XH)))))))))))))), (Zpos (XI (XI (XO (XO (XI (XO (XO
    (XO (XI (XO (XO (XO (XO XH))))))))))))))) :: (((Zpos (XI (XO (XI (XO (XI
    (XO (XO (XO (XI (XO (XO (XO (XO XH)))))))))))))), (Zpos (XI (XO (XI (XO
    (XI (XO (XO (XO (XI (XO (XO (XO (XO
    XH))))))))))))))) :: []))))))))))))))))))))))))) :: ((((Zpos (XO (XO (XO
    (XI (XI (XO (XO (XO (XI (XO (XO (XO (XO XH)))))))))))))), (Zpos (XO (XI
    (XI (XO (XI (XO (XI (XI (XI (XO (XI (XI (XO XH))))))))))))))), (((Zpos
    (XO (XO (XO (XI (XI (XO (XO (XO (XI (XO (XO (XO (XO XH)))))))))))))),
    (Zpos (XI (XO (XI (XI (XI (XO (XO (XO (XI (XO (XO (XO (XO
    XH))))))))))))))) :: (((Zpos (XO (XO (XI (XO (XO (XI (XO (XO (XI (XO (XO
    (XO (XO XH)))))))))))))), (Zpos (XO (XO (XI (XO (XO (XI (XO (XO (XI (XO
    (XO (XO (XO XH))))))))))))))) :: (((Zpos (XO (XI (XI (XO (XO (XI (XO (XO
    (XI (XO (XO (XO (XO XH)))))))))))))), (Zpos (XO (XI (XI (XO (XO (XI (XO
    (XO (XI (XO (XO (XO (XO XH))))))))))))))) :: (((Zpos (XO (XO (XO (XI (XO
    (XI (XO (XO (XI (XO (XO (XO (XO XH)))))))))))))), (Zpos (XO (XO (XO (XI
    (XO (XI (XO (XO (XI (XO (XO (XO (XO XH))))))))))))))) :: (((Zpos (XO (XI
    (XO (XI (XO (XI (XO (XO (XI (XO (XO (XO (XO XH)))))))))))))), (Zpos (XI
    (XO (XO (XI (XI (XI (XO (XO (XI (XO (XO (XO (XO
    XH))))))))))))))) :: (((Zpos (XO (XO (XI (XI (XI (XI (XO (XO (XI (XO (XO
    (XO (XO XH)))))))))))))), (Zpos (XI (XI (XI (XI (XI (XI (XO (XO (XI (XO
    (XO (XO (XO XH))))))))))))))) :: (((Zpos (XI (XO (XI (XO (XO (XO (XI (XO
    (XI (XO (XO (XO (XO XH)))))))))))))), (Zpos (XI (XO (XO (XI (XO (XO (XI
    (XO (XI (XO (XO (XO (XO XH))))))))))))))) :: (((Zpos (XO (XI (XI (XI (XO
    (XO (XI (XO (XI (XO (XO (XO (XO XH)))))))))))))), (Zpos (XO (XI (XI (XI
    (XO (XO (XI (XO (XI (XO (XO (XO (XO XH))))))))))))))) :: (((Zpos (XO (XO
    (XO (XO (XO (XI (XI (XO (XI (XO (XO (XO (XO XH)))))))))))))), (Zpos (XO
    (XO (XO (XI (XO (XO (XO (XI (XI (XO (XO (XO (XO
    XH))))))))))))))) :: (((Zpos (XO (XO (XO (XO (XO (XO (XO (XO (XO (XO (XI
    (XI (XO XH)))))))))))))), (Zpos (XO (XO (XI (XO (XO (XI (XI (XI (XO (XO
    (XI (XI (XO XH))))))))))))))) :: (((Zpos (XI (XI (XO (XI (XO (XI (XI (XI
    (XO (XO (XI (XI (XO XH)))))))))))))), (Zpos (XI (XI (XO (XO (XI (XI (XI
    (XI (XO (XO (XI (XI (XO XH))))))))))))))) :: (((Zpos (XO (XO (XO (XO (XO
    (XO (XO (XO (XI (XO (XI (XI (XO XH)))))))))))))), (Zpos (XI (XO (XI (XO
    (XO (XI (XO (XO (XI (XO (XI (XI (XO XH))))))))))))))) :: (((Zpos (XI (XI
    (XI (XO (XO (XI (XO (XO (XI (XO (XI (XI (XO XH)))))))))))))), (Zpos (XI
    (XI (XI (XO (XO (XI (XO (XO (XI (XO (XI (XI (XO
    XH))))))))))))))) :: (((Zpos (XI (XO (XI (XI (XO (XI (XO (XO (XI (XO (XI
    (XI (XO XH)))))))))))))), (Zpos (XI (XO (XI (XI (XO (XI (XO (XO (XI (XO
    (XI (XI (XO XH))))))))))))))) :: (((Zpos (XO (XO (XO (XO (XI (XI (XO (XO
    (XI (XO (XI (XI (XO XH)))))))))))))), (Zpos (XI (XI (XI (XO (XO (XI (XI
    (XO (XI (XO (XI (XI (XO XH))))))))))))))) :: (((Zpos (XI (XI (XI (XI (XO
    (XI (XI (XO (XI (XO (XI (XI (XO XH)))))))))))))), (Zpos (XI (XI (XI (XI
    (XO (XI (XI (XO (XI (XO (XI (XI (XO XH))))))))))))))) :: (((Zpos (XI (XI
    (XI (XI (XI (XI (XI (XO (XI (XO (XI (XI (XO XH)))))))))))))), (Zpos (XO
    (XI (XI (XO (XI (XO (XO (XI (XI (XO (XI (XI (XO
    XH))))))))))))))) :: (((Zpos (XO (XO (XO (XO (XO (XI (XO (XI (XI (XO (XI
    (XI (XO XH)))))))))))))), (Zpos (XO (XI (XI (XO (XO (XI (XO (XI (XI (XO
    (XI (XI (XO XH))))))))))))))) :: (((Zpos (XO (XO (XO (XI (XO (XI (XO (XI
    (XI (XO (XI (XI (XO XH)))))))))))))), (Zpos (XO (XI (XI (XI (XO (XI (XO
    (XI (XI (XO (XI (XI (XO XH))))))))))))))) :: (((Zpos (XO (XO (XO (XO (XI
    (XI (XO (XI (XI (XO (XI (XI (XO XH)))))))))))))), (Zpos (XO (XI (XI (XO
    (XI (XI (XO (XI (XI (XO (XI (XI (XO XH))))))))))))))) :: (((Zpos (XO (XO
    (XO (XI (XI (XI (XO (XI (XI (XO (XI (XI (XO XH)))))))))))))), (Zpos (XO
    (XI (XI (XI (XI (XI (XO (XI (XI (XO (XI (XI (XO
    XH))))))))))))))) :: (((Zpos (XO (XO (XO (XO (XO (XO (XI (XI (XI (XO (XI
    (XI (XO XH)))))))))))))), (Zpos (XO (XI (XI (XO (XO (XO (XI (XI (XI (XO
    (XI (XI (XO XH))))))))))))))) :: (((Zpos (XO (XO (XO (XI (XO (XO (XI (XI
    (XI (XO (XI (XI (XO XH)))))))))))))), (Zpos (XO (XI (XI (XI (XO (XO (XI
    (XI (XI (XO (XI (XI (XO XH))))))))))))))) :: (((Zpos (XO (XO (XO (XO (XI
    (XO (XI (XI (XI (XO (XI (XI (XO XH)))))))))))))), (Zpos (XO (XI (XI (XO
    (XI (XO (XI (XI (XI (XO (XI (XI (XO
    XH))))))))))))))) :: []))))))))))))))))))))))))) :: ((((Zpos (XO (XO (XO
    (XI (XI (XO (XI (XI (XI (XO (XI (XI (XO XH)))))))))))))), (Zpos (XI (XI
    (XI (XI (XI (XO (XO (XO (XI (XI (XI (XO (XO (XI (XO XH))))))))))))))))),
    (((Zpos (XO (XO (XO (XI (XI (XO (XI (XI (XI (XO (XI (XI (XO
    XH)))))))))))))), (Zpos (XO (XI (XI (XI (XI (XO (XI (XI (XI (XO (XI (XI
    (XO XH))))))))))))))) :: (((Zpos (XO (XO (XO (XO (XO (XI (XI (XI (XI (XO
    (XI (XI (XO XH)))))))))))))), (Zpos (XI (XI (XI (XI (XI (XI (XI (XI (XI
    (XO (XI (XI (XO XH))))))))))))))) :: (((Zpos (XI (XO (XI (XO (XO (XO (XO
    (XO (XO (XO (XO (XO (XI XH)))))))))))))), (Zpos (XI (XI (XI (XO (XO (XO
    (XO (XO (XO (XO (XO (XO (XI XH))))))))))))))) :: (((Zpos (XI (XO (XO (XO
    (XO (XI (XO (XO (XO (XO (XO (XO (XI XH)))))))))))))), (Zpos (XI (XI (XI
    (XI (XO (XI (XO (XO (XO (XO (XO (XO (XI XH))))))))))))))) :: (((Zpos (XI
    (XO (XO (XO (XI (XI (XO (XO (XO (XO (XO (XO (XI XH)))))))))))))), (Zpos
    (XI (XO (XI (XO (XI (XI (XO (XO (XO (XO (XO (XO (XI
    XH))))))))))))))) :: (((Zpos (XO (XO (XO (XI (XI (XI (XO (XO (XO (XO (XO
    (XO (XI XH)))))))))))))), (Zpos (XO (XO (XI (XI (XI (XI (XO (XO (XO (XO
    (XO (XO (XI XH))))))))))))))) :: (((Zpos (XI (XO (XO (XO (XO (XO (XI (XO
    (XO (XO (XO (XO (XI XH)))))))))))))), (Zpos (XO (XI (XI (XO (XI (XO (XO
    (XI (XO (XO (XO (XO (XI XH))))))))))))))) :: (((Zpos (XI (XO (XO (XI (XI
    (XO (XO (XI (XO (XO (XO (XO (XI XH)))))))))))))), (Zpos (XO (XI (XO (XI
    (XI (XO (XO (XI (XO (XO (XO (XO (XI XH))))))))))))))) :: (((Zpos (XI (XO
    (XI (XI (XI (XO (XO (XI (XO (XO (XO (XO (XI XH)))))))))))))), (Zpos (XI
    (XI (XI (XI (XI (XO (XO (XI (XO (XO (XO (XO (XI
    XH))))))))))))))) :: (((Zpos (XI (XO (XO (XO (XO (XI (XO (XI (XO (XO (XO
    (XO (XI XH)))))))))))))), (Zpos (XO (XI (XO (XI (XI (XI (XI (XI (XO (XO
    (XO (XO (XI XH))))))))))))))) :: (((Zpos (XO (XO (XI (XI (XI (XI (XI (XI
    (XO (XO (XO (XO (XI XH)))))))))))))), (Zpos (XI (XI (XI (XI (XI (XI (XI
    (XI (XO (XO (XO (XO (XI XH))))))))))))))) :: (((Zpos (XI (XO (XI (XO (XO
    (XO (XO (XO (XI (XO (XO (XO (XI XH)))))))))))))), (Zpos (XI (XI (XI (XI
    (XO (XI (XO (XO (XI (XO (XO (XO (XI XH))))))))))))))) :: (((Zpos (XI (XO
    (XO (XO (XI (XI (XO (XO (XI (XO (XO (XO (XI XH)))))))))))))), (Zpos (XO
    (XI (XI (XI (XO (XO (XO (XI (XI (XO (XO (XO (XI
    XH))))))))))))))) :: (((Zpos (XO (XO (XO (XO (XO (XI (XO (XI (XI (XO (XO
    (XO (XI XH)))))))))))))), (Zpos (XI (XI (XI (XI (XI (XI (XO (XI (XI (XO
    (XO (XO (XI XH))))))))))))))) :: (((Zpos (XO (XO (XO (XO (XI (XI (XI (XI
    (XI (XO (XO (XO (XI XH)))))))))))))), (Zpos (XI (XI (XI (XI (XI (XI (XI
    (XI (XI (XO (XO (XO (XI XH))))))))))))))) :: (((Zpos (XO (XO (XO (XO (XO
    (XO (XO (XO (XO (XO (XI (XO (XI XH)))))))))))))), (Zpos (XI (XI (XI (XI
    (XI (XI (XO (XI (XI (XO (XI (XI (XO (XO XH)))))))))))))))) :: (((Zpos (XO
    (XO (XO (XO (XO (XO (XO (XO (XO (XI (XI (XI (XO (XO XH))))))))))))))),
    (Zpos (XO (XO (XI (XI (XO (XO (XO (XI (XO (XO (XI (XO (XO (XI (XO
    XH))))))))))))))))) :: (((Zpos (XO (XO (XO (XO (XI (XO (XI (XI (XO (XO
    (XI (XO (XO (XI (XO XH)))))))))))))))), (Zpos (XI (XO (XI (XI (XI (XI (XI
    (XI (XO (XO (XI (XO (XO (XI (XO XH))))))))))))))))) :: (((Zpos (XO (XO
    (XO (XO (XO (XO (XO (XO (XI (XO (XI (XO (XO (XI (XO XH)))))))))))))))),
    (Zpos (XO (XO (XI (XI (XO (XO (XO (XO (XO (XI (XI (XO (XO (XI (XO
    XH))))))))))))))))) :: (((Zpos (XO (XO (XO (XO (XI (XO (XO (XO (XO (XI
    (XI (XO (XO (XI (XO XH)))))))))))))))), (Zpos (XI (XI (XO (XI (XO (XI (XO
    (XO (XO (XI (XI (XO (XO (XI (XO XH))))))))))))))))) :: (((Zpos (XO (XO
    (XO (XO (XO (XO (XI (XO (XO (XI (XI (XO (XO (XI (XO XH)))))))))))))))),
    (Zpos (XI (XI (XI (XI (XO (XI (XI (XO (XO (XI (XI (XO (XO (XI (XO
    XH))))))))))))))))) :: (((Zpos (XO (XO (XI (XO (XI (XI (XI (XO (XO (XI
    (XI (XO (XO (XI (XO XH)))))))))))))))), (Zpos (XI (XO (XI (XI (XI (XI (XI
    (XO (XO (XI (XI (XO (XO (XI (XO XH))))))))))))))))) :: (((Zpos (XI (XI
    (XI (XI (XI (XI (XI (XO (XO (XI (XI (XO (XO (XI (XO XH)))))))))))))))),
    (Zpos (XI (XO (XO (XO (XI (XI (XI (XI (XO (XI (XI (XO (XO (XI (XO
    XH))))))))))))))))) :: (((Zpos (XI (XI (XI (XO (XI (XO (XO (XO (XI (XI
    (XI (XO (XO (XI (XO XH)))))))))))))))), (Zpos (XI (XI (XI (XI (XI (XO (XO
    (XO (XI (XI (XI (XO (XO (XI (XO
    XH))))))))))))))))) :: []))))))))))))))))))))))))) :: ((((Zpos (XO (XI
    (XO (XO (XO (XI (XO (XO (XI (XI (XI (XO (XO (XI (XO XH)))))))))))))))),
    (Zpos (XI (XO (XI (XI (XI (XO (XI (XI (XO (XI (XO (XI (XO (XI (XO
    XH))))))))))))))))), (((Zpos (XO (XI (XO (XO (XO (XI (XO (XO (XI (XI (XI
    (XO (XO (XI (XO XH)))))))))))))))), (Zpos (XO (XO (XO (XI (XO (XO (XO (XI
    (XI (XI (XI (XO (XO (XI (XO XH))))))))))))))))) :: (((Zpos (XI (XI (XO
    (XI (XO (XO (XO (XI (XI (XI (XI (XO (XO (XI (XO XH)))))))))))))))), (Zpos
    (XO (XI (XO (XI (XO (XO (XI (XI (XI (XI (XI (XO (XO (XI (XO
    XH))))))))))))))))) :: (((Zpos (XO (XO (XO (XO (XI (XO (XI (XI (XI (XI
    (XI (XO (XO (XI (XO XH)))))))))))))))), (Zpos (XI (XO (XO (XO (XI (XO (XI
    (XI (XI (XI (XI (XO (XO (XI (XO XH))))))))))))))))) :: (((Zpos (XI (XI
    (XO (XO (XI (XO (XI (XI (XI (XI (XI (XO (XO (XI (XO XH)))))))))))))))),
    (Zpos (XI (XI (XO (XO (XI (XO (XI (XI (XI (XI (XI (XO (XO (XI (XO
    XH))))))))))))))))) :: (((Zpos (XI (XO (XI (XO (XI (XO (XI (XI (XI (XI
    (XI (XO (XO (XI (XO XH)))))))))))))))), (Zpos (XI (XO (XO (XI (XI (XO (XI
    (XI (XI (XI (XI (XO (XO (XI (XO XH))))))))))))))))) :: (((Zpos (XO (XI
    (XO (XO (XI (XI (XI (XI (XI (XI (XI (XO (XO (XI (XO XH)))))))))))))))),
    (Zpos (XI (XI (XI (XO (XO (XI (XO (XO (XO (XO (XO (XI (XO (XI (XO
    XH))))))))))))))))) :: (((Zpos (XO (XO (XI (XI (XO (XI (XO (XO (XO (XO
    (XO (XI (XO (XI (XO XH)))))))))))))))), (Zpos (XO (XO (XI (XI (XO (XI (XO
    (XO (XO (XO (XO (XI (XO (XI (XO XH))))))))))))))))) :: (((Zpos (XO (XO
    (XO (XO (XO (XO (XI (XO (XO (XO (XO (XI (XO (XI (XO XH)))))))))))))))),
    (Zpos (XI (XI (XO (XO (XI (XI (XI (XO (XO (XO (XO (XI (XO (XI (XO
    XH))))))))))))))))) :: (((Zpos (XO (XO (XO (XO (XO (XO (XO (XI (XO (XO
    (XO (XI (XO (XI (XO XH)))))))))))))))), (Zpos (XI (XO (XI (XO (XO (XO (XI
    (XI (XO (XO (XO (XI (XO (XI (XO XH))))))))))))))))) :: (((Zpos (XO (XO
    (XO (XO (XI (XO (XI (XI (XO (XO (XO (XI (XO (XI (XO XH)))))))))))))))),
    (Zpos (XI (XO (XO (XI (XI (XO (XI (XI (XO (XO (XO (XI (XO (XI (XO
    XH))))))))))))))))) :: (((Zpos (XO (XO (XO (XO (XO (XI (XI (XI (XO (XO
    (XO (XI (XO (XI (XO XH)))))))))))))))), (Zpos (XI (XI (XI (XO (XI (XI (XI
    (XI (XO (XO (XO (XI (XO (XI (XO XH))))))))))))))))) :: (((Zpos (XI (XI
    (XO (XI (XI (XI (XI (XI (XO (XO (XO (XI (XO (XI (XO XH)))))))))))))))),
    (Zpos (XI (XI (XO (XI (XI (XI (XI (XI (XO (XO (XO (XI (XO (XI (XO
    XH))))))))))))))))) :: (((Zpos (XI (XO (XI (XI (XI (XI (XI (XI (XO (XO
    (XO (XI (XO (XI (XO XH)))))))))))))))), (Zpos (XI (XO (XI (XI (XO (XI (XO
    (XO (XI (XO (XO (XI (XO (XI (XO XH))))))))))))))))) :: (((Zpos (XO (XO
    (XO (XO (XI (XI (XO (XO (XI (XO (XO (XI (XO (XI (XO XH)))))))))))))))),
    (Zpos (XI (XI (XO (XO (XI (XO (XI (XO (XI (XO (XO (XI (XO (XI (XO
    XH))))))))))))))))) :: (((Zpos (XO (XO (XO (XO (XO (XI (XI (XO (XI (XO
    (XO (XI (XO (XI (XO XH)))))))))))))))), (Zpos (XO (XO (XI (XI (XI (XI (XI
    (XO (XI (XO (XO (XI (XO (XI (XO XH))))))))))))))))) :: (((Zpos (XO (XO
    (XO (XO (XO (XO (XO (XI (XI (XO (XO (XI (XO (XI (XO XH)))))))))))))))),
    (Zpos (XO (XO (XO (XO (XO (XO (XI (XI (XI (XO (XO (XI (XO (XI (XO
    XH))))))))))))))))) :: (((Zpos (XI (XI (XI (XI (XO (XO (XI (XI (XI (XO
    (XO (XI (XO (XI (XO XH)))))))))))))))), (Zpos (XI (XO (XO (XI (XI (XO (XI
    (XI (XI (XO (XO (XI (XO (XI (XO XH))))))))))))))))) :: (((Zpos (XO (XO
    (XO (XO (XO (XI (XI (XI (XI (XO (XO (XI (XO (XI (XO XH)))))))))))))))),
    (Zpos (XO (XI (XI (XI (XI (XI (XI (XI (XI (XO (XO (XI (XO (XI (XO
    XH))))))))))))))))) :: (((Zpos (XO (XO (XO (XO (XO (XO (XO (XO (XO (XI
    (XO (XI (XO (XI (XO XH)))))))))))))))), (Zpos (XO (XI (XI (XO (XI (XI (XO
    (XO (XO (XI (XO (XI (XO (XI (XO XH))))))))))))))))) :: (((Zpos (XO (XO
    (XO (XO (XO (XO (XI (XO (XO (XI (XO (XI (XO (XI (XO XH)))))))))))))))),
    (Zpos (XI (XO (XI (XI (XO (XO (XI (XO (XO (XI (XO (XI (XO (XI (XO
    XH))))))))))))))))) :: (((Zpos (XO (XO (XO (XO (XI (XO (XI (XO (XO (XI
    (XO (XI (XO (XI (XO XH)))))))))))))))), (Zpos (XI (XO (XO (XI (XI (XO (XI
    (XO (XO (XI (XO (XI (XO (XI (XO XH))))))))))))))))) :: (((Zpos (XO (XO
    (XO (XO (XO (XI (XI (XO (XO (XI (XO (XI (XO (XI (XO XH)))))))))))))))),
    (Zpos (XO (XI (XI (XO (XI (XI (XI (XO (XO (XI (XO (XI (XO (XI (XO
    XH))))))))))))))))) :: (((Zpos (XO (XI (XO (XI (XI (XI (XI (XO (XO (XI
    (XO (XI (XO (XI (XO XH)))))))))))))))), (Zpos (XO (XI (XO (XO (XO (XO (XI
    (XI (XO (XI (XO (XI (XO (XI (XO XH))))))))))))))))) :: (((Zpos (XI (XI
    (XO (XI (XI (XO (XI (XI (XO (XI (XO (XI (XO (XI (XO XH)))))))))))))))),
    (Zpos (XI (XO (XI (XI (XI (XO (XI (XI (XO (XI (XO (XI (XO (XI (XO
    XH))))))))))))))))) :: []))))))))))))))))))))))))) :: ((((Zpos (XO (XO
    (XO (XO (XO (XI (XI (XI (XO (XI (XO (XI (XO (XI (XO XH)))))))))))))))),
    (Zpos (XI (XO (XO (XO (XO (XO (XI (XO (XI (XI (XO (XI (XI (XI (XI
    XH))))))))))))))))), (((Zpos (XO (XO (XO (XO (XO (XI (XI (XI (XO (XI (XO
    (XI (XO (XI (XO XH)))))))))))))))), (Zpos (XI (XI (XI (XI (XO (XI (XI (XI
    (XO (XI (XO (XI (XO (XI (XO XH))))))))))))))))) :: (((Zpos (XO (XI (XO
    (XO (XI (XI (XI (XI (XO (XI (XO (XI (XO (XI (XO XH)))))))))))))))), (Zpos
    (XO (XI (XI (XO (XI (XI (XI (XI (XO (XI (XO (XI (XO (XI (XO
    XH))))))))))))))))) :: (((Zpos (XI (XO (XO (XO (XO (XO (XO (XO (XI (XI
    (XO (XI (XO (XI (XO XH)))))))))))))))), (Zpos (XO (XI (XI (XO (XO (XO (XO
    (XO (XI (XI (XO (XI (XO (XI (XO XH))))))))))))))))) :: (((Zpos (XI (XO
    (XO (XI (XO (XO (XO (XO (XI (XI (XO (XI (XO (XI (XO XH)))))))))))))))),
    (Zpos (XO (XI (XI (XI (XO (XO (XO (XO (XI (XI (XO (XI (XO (XI (XO
    XH))))))))))))))))) :: (((Zpos (XI (XO (XO (XO (XI (XO (XO (XO (XI (XI
    (XO (XI (XO (XI (XO XH)))))))))))))))), (Zpos (XO (XI (XI (XO (XI (XO (XO
    (XO (XI (XI (XO (XI (XO (XI (XO XH))))))))))))))))) :: (((Zpos (XO (XO
    (XO (XO (XO (XI (XO (XO (XI (XI (XO (XI (XO (XI (XO XH)))))))))))))))),
    (Zpos (XO (XI (XI (XO (XO (XI (XO (XO (XI (XI (XO (XI (XO (XI (XO
    XH))))))))))))))))) :: (((Zpos (XO (XO (XO (XI (XO (XI (XO (XO (XI (XI
    (XO (XI (XO (XI (XO XH)))))))))))))))), (Zpos (XO (XI (XI (XI (XO (XI (XO
    (XO (XI (XI (XO (XI (XO (XI (XO XH))))))))))))))))) :: (((Zpos (XO (XO
    (XO (XO (XI (XI (XO (XO (XI (XI (XO (XI (XO (XI (XO XH)))))))))))))))),
    (Zpos (XO (XI (XO (XI (XI (XO (XI (XO (XI (XI (XO (XI (XO (XI (XO
    XH))))))))))))))))) :: (((Zpos (XO (XO (XI (XI (XI (XO (XI (XO (XI (XI
    (XO (XI (XO (XI (XO XH)))))))))))))))), (Zpos (XI (XO (XO (XI (XO (XI (XI
    (XO (XI (XI (XO (XI (XO (XI (XO XH))))))))))))))))) :: (((Zpos (XO (XO
    (XO (XO (XI (XI (XI (XO (XI (XI (XO (XI (XO (XI (XO XH)))))))))))))))),
    (Zpos (XO (XI (XO (XI (XO (XI (XI (XI (XI (XI (XO (XI (XO (XI (XO
    XH))))))))))))))))) :: (((Zpos (XO (XO (XI (XI (XO (XI (XI (XI (XI (XI
    (XO (XI (XO (XI (XO XH)))))))))))))))), (Zpos (XI (XO (XI (XI (XO (XI (XI
    (XI (XI (XI (XO (XI (XO (XI (XO XH))))))))))))))))) :: (((Zpos (XO (XO
    (XO (XO (XI (XI (XI (XI (XI (XI (XO (XI (XO (XI (XO XH)))))))))))))))),
    (Zpos (XI (XO (XO (XI (XI (XI (XI (XI (XI (XI (XO (XI (XO (XI (XO
    XH))))))))))))))))) :: (((Zpos (XO (XO (XO (XO (XO (XO (XO (XO (XO (XO
    (XI (XI (XO (XI (XO XH)))))))))))))))), (Zpos (XI (XI (XO (XO (XO (XI (XO
    (XI (XI (XI (XI (XO (XI (XO (XI XH))))))))))))))))) :: (((Zpos (XO (XO
    (XO (XO (XI (XI (XO (XI (XI (XI (XI (XO (XI (XO (XI XH)))))))))))))))),
    (Zpos (XO (XI (XI (XO (XO (XO (XI (XI (XI (XI (XI (XO (XI (XO (XI
    XH))))))))))))))))) :: (((Zpos (XI (XI (XO (XI (XO (XO (XI (XI (XI (XI
    (XI (XO (XI (XO (XI XH)))))))))))))))), (Zpos (XI (XI (XO (XI (XI (XI (XI
    (XI (XI (XI (XI (XO (XI (XO (XI XH))))))))))))))))) :: (((Zpos (XO (XO
    (XO (XO (XO (XO (XO (XO (XI (XO (XO (XI (XI (XI (XI XH)))))))))))))))),
    (Zpos (XI (XO (XI (XI (XO (XI (XI (XO (XO (XI (XO (XI (XI (XI (XI
    XH))))))))))))))))) :: (((Zpos (XO (XO (XO (XO (XI (XI (XI (XO (XO (XI
    (XO (XI (XI (XI (XI XH)))))))))))))))), (Zpos (XI (XO (XO (XI (XI (XO (XI
    (XI (XO (XI (XO (XI (XI (XI (XI XH))))))))))))))))) :: (((Zpos (XO (XO
    (XO (XO (XO (XO (XO (XO (XI (XI (XO (XI (XI (XI (XI XH)))))))))))))))),
    (Zpos (XO (XI (XI (XO (XO (XO (XO (XO (XI (XI (XO (XI (XI (XI (XI
    XH))))))))))))))))) :: (((Zpos (XI (XI (XO (XO (XI (XO (XO (XO (XI (XI
    (XO (XI (XI (XI (XI XH)))))))))))))))), (Zpos (XI (XI (XI (XO (XI (XO (XO
    (XO (XI (XI (XO (XI (XI (XI (XI XH))))))))))))))))) :: (((Zpos (XI (XO
    (XI (XI (XI (XO (XO (XO (XI (XI (XO (XI (XI (XI (XI XH)))))))))))))))),
    (Zpos (XO (XO (XO (XI (XO (XI (XO (XO (XI (XI (XO (XI (XI (XI (XI
    XH))))))))))))))))) :: (((Zpos (XO (XI (XO (XI (XO (XI (XO (XO (XI (XI
    (XO (XI (XI (XI (XI XH)))))))))))))))), (Zpos (XO (XI (XI (XO (XI (XI (XO
    (XO (XI (XI (XO (XI (XI (XI (XI XH))))))))))))))))) :: (((Zpos (XO (XO
    (XO (XI (XI (XI (XO (XO (XI (XI (XO (XI (XI (XI (XI XH)))))))))))))))),
    (Zpos (XO (XO (XI (XI (XI (XI (XO (XO (XI (XI (XO (XI (XI (XI (XI
    XH))))))))))))))))) :: (((Zpos (XO (XI (XI (XI (XI (XI (XO (XO (XI (XI
    (XO (XI (XI (XI (XI XH)))))))))))))))), (Zpos (XO (XI (XI (XI (XI (XI (XO
    (XO (XI (XI (XO (XI (XI (XI (XI XH))))))))))))))))) :: (((Zpos (XO (XO
    (XO (XO (XO (XO (XI (XO (XI (XI (XO (XI (XI (XI (XI XH)))))))))))))))),
    (Zpos (XI (XO (XO (XO (XO (XO (XI (XO (XI (XI (XO (XI (XI (XI (XI
    XH))))))))))))))))) :: []))))))))))))))))))))))))) :: ((((Zpos (XI (XI
    (XO (XO (XO (XO (XI (XO (XI (XI (XO (XI (XI (XI (XI XH)))))))))))))))),
    (Zpos (XI (XI (XI (XO (XO (XO (XI (XI (XI (XI (XI (XI (XI (XI (XI
    XH))))))))))))))))), (((Zpos (XI (XI (XO (XO (XO (XO (XI (XO (XI (XI (XO
    (XI (XI (XI (XI XH)))))))))))))))), (Zpos (XO (XO (XI (XO (XO (XO (XI (XO
    (XI (XI (XO (XI (XI (XI (XI XH))))))))))))))))) :: (((Zpos (XO (XI (XI
    (XO (XO (XO (XI (XO (XI (XI (XO (XI (XI (XI (XI XH)))))))))))))))), (Zpos
    (XI (XO (XO (XO (XI (XI (XO (XI (XI (XI (XO (XI (XI (XI (XI
    XH))))))))))))))))) :: (((Zpos (XI (XI (XO (XO (XI (XO (XI (XI (XI (XI
    (XO (XI (XI (XI (XI XH)))))))))))))))), (Zpos (XI (XO (XI (XI (XI (XO (XI
    (XO (XO (XO (XI (XI (XI (XI (XI XH))))))))))))))))) :: (((Zpos (XO (XO
    (XI (XO (XO (XI (XI (XO (XO (XO (XI (XI (XI (XI (XI XH)))))))))))))))),
    (Zpos (XI (XO (XI (XI (XI (XI (XO (XO (XI (XO (XI (XI (XI (XI (XI
    XH))))))))))))))))) :: (((Zpos (XO (XO (XO (XO (XI (XO (XI (XO (XI (XO
    (XI (XI (XI (XI (XI XH)))))))))))))))), (Zpos (XI (XI (XI (XI (XO (XO (XO
    (XI (XI (XO (XI (XI (XI (XI (XI XH))))))))))))))))) :: (((Zpos (XO (XI
    (XO (XO (XI (XO (XO (XI (XI (XO (XI (XI (XI (XI (XI XH)))))))))))))))),
    (Zpos (XI (XI (XI (XO (XO (XO (XI (XI (XI (XO (XI (XI (XI (XI (XI
    XH))))))))))))))))) :: (((Zpos (XO (XO (XO (XO (XI (XI (XI (XI (XI (XO
    (XI (XI (XI (XI (XI XH)))))))))))))))), (Zpos (XI (XO (XO (XI (XI (XI (XI
    (XI (XI (XO (XI (XI (XI (XI (XI XH))))))))))))))))) :: (((Zpos (XO (XO
    (XO (XO (XO (XO (XO (XO (XO (XI (XI (XI (XI (XI (XI XH)))))))))))))))),
    (Zpos (XI (XI (XI (XI (XO (XO (XO (XO (XO (XI (XI (XI (XI (XI (XI
    XH))))))))))))))))) :: (((Zpos (XO (XO (XO (XO (XO (XI (XO (XO (XO (XI
    (XI (XI (XI (XI (XI XH)))))))))))))))), (Zpos (XI (XI (XI (XI (XO (XI (XO
    (XO (XO (XI (XI (XI (XI (XI (XI XH))))))))))))))))) :: (((Zpos (XI (XI
    (XO (XO (XI (XI (XO (XO (XO (XI (XI (XI (XI (XI (XI XH)))))))))))))))),
    (Zpos (XO (XO (XI (XO (XI (XI (XO (XO (XO (XI (XI (XI (XI (XI (XI
    XH))))))))))))))))) :: (((Zpos (XI (XO (XI (XI (XO (XO (XI (XO (XO (XI
    (XI (XI (XI (XI (XI XH)))))))))))))))), (Zpos (XI (XI (XI (XI (XO (XO (XI
    (XO (XO (XI (XI (XI (XI (XI (XI XH))))))))))))))))) :: (((Zpos (XI (XO
    (XO (XO (XI (XI (XI (XO (XO (XI (XI (XI (XI (XI (XI XH)))))))))))))))),
    (Zpos (XI (XO (XO (XO (XI (XI (XI (XO (XO (XI (XI (XI (XI (XI (XI
    XH))))))))))))))))) :: (((Zpos (XI (XI (XO (XO (XI (XI (XI (XO (XO (XI
    (XI (XI (XI (XI (XI XH)))))))))))))))), (Zpos (XI (XI (XO (XO (XI (XI (XI
    (XO (XO (XI (XI (XI (XI (XI (XI XH))))))))))))))))) :: (((Zpos (XI (XI
    (XI (XO (XI (XI (XI (XO (XO (XI (XI (XI (XI (XI (XI XH)))))))))))))))),
    (Zpos (XI (XI (XI (XO (XI (XI (XI (XO (XO (XI (XI (XI (XI (XI (XI
    XH))))))))))))))))) :: (((Zpos (XI (XO (XO (XI (XI (XI (XI (XO (XO (XI
    (XI (XI (XI (XI (XI XH)))))))))))))))), (Zpos (XI (XO (XO (XI (XI (XI (XI
    (XO (XO (XI (XI (XI (XI (XI (XI XH))))))))))))))))) :: (((Zpos (XI (XI
    (XO (XI (XI (XI (XI (XO (XO (XI (XI (XI (XI (XI (XI XH)))))))))))))))),
    (Zpos (XI (XI (XO (XI (XI (XI (XI (XO (XO (XI (XI (XI (XI (XI (XI
    XH))))))))))))))))) :: (((Zpos (XI (XO (XI (XI (XI (XI (XI (XO (XO (XI
    (XI (XI (XI (XI (XI XH)))))))))))))))), (Zpos (XI (XO (XI (XI (XI (XI (XI
    (XO (XO (XI (XI (XI (XI (XI (XI XH))))))))))))))))) :: (((Zpos (XI (XI
    (XI (XI (XI (XI (XI (XO (XO (XI (XI (XI (XI (XI (XI XH)))))))))))))))),
    (Zpos (XO (XO (XI (XI (XI (XI (XI (XI (XO (XI (XI (XI (XI (XI (XI
    XH))))))))))))))))) :: (((Zpos (XO (XO (XO (XO (XI (XO (XO (XO (XI (XI
    (XI (XI (XI (XI (XI XH)))))))))))))))), (Zpos (XI (XO (XO (XI (XI (XO (XO
    (XO (XI (XI (XI (XI (XI (XI (XI XH))))))))))))))))) :: (((Zpos (XI (XO
    (XO (XO (XO (XI (XO (XO (XI (XI (XI (XI (XI (XI (XI XH)))))))))))))))),
    (Zpos (XO (XI (XO (XI (XI (XI (XO (XO (XI (XI (XI (XI (XI (XI (XI
    XH))))))))))))))))) :: (((Zpos (XI (XI (XI (XI (XI (XI (XO (XO (XI (XI
    (XI (XI (XI (XI (XI XH)))))))))))))))), (Zpos (XI (XI (XI (XI (XI (XI (XO
    (XO (XI (XI (XI (XI (XI (XI (XI XH))))))))))))))))) :: (((Zpos (XI (XO
    (XO (XO (XO (XO (XI (XO (XI (XI (XI (XI (XI (XI (XI XH)))))))))))))))),
    (Zpos (XO (XI (XO (XI (XI (XO (XI (XO (XI (XI (XI (XI (XI (XI (XI
    XH))))))))))))))))) :: (((Zpos (XO (XI (XI (XO (XO (XI (XI (XO (XI (XI
    (XI (XI (XI (XI (XI XH)))))))))))))))), (Zpos (XO (XI (XI (XI (XI (XI (XO
    (XI (XI (XI (XI (XI (XI (XI (XI XH))))))))))))))))) :: (((Zpos (XO (XI
    (XO (XO (XO (XO (XI (XI (XI (XI (XI (XI (XI (XI (XI XH)))))))))))))))),
    (Zpos (XI (XI (XI (XO (XO (XO (XI (XI (XI (XI (XI (XI (XI (XI (XI
    XH))))))))))))))))) :: []))))))))))))))))))))))))) :: ((((Zpos (XO (XI
    (XO (XI (XO (XO (XI (XI (XI (XI (XI (XI (XI (XI (XI XH)))))))))))))))),
    (Zpos (XI (XO (XO (XI (XO (XI (XO (XI (XO (XO (XI (XO (XO (XO (XO (XO
    XH)))))))))))))))))), (((Zpos (XO (XI (XO (XI (XO (XO (XI (XI (XI (XI (XI
    (XI (XI (XI (XI XH)))))))))))))))), (Zpos (XI (XI (XI (XI (XO (XO (XI (XI
    (XI (XI (XI (XI (XI (XI (XI XH))))))))))))))))) :: (((Zpos (XO (XI (XO
    (XO (XI (XO (XI (XI (XI (XI (XI (XI (XI (XI (XI XH)))))))))))))))), (Zpos
    (XI (XI (XI (XO (XI (XO (XI (XI (XI (XI (XI (XI (XI (XI (XI
    XH))))))))))))))))) :: (((Zpos (XO (XI (XO (XI (XI (XO (XI (XI (XI (XI
    (XI (XI (XI (XI (XI XH)))))))))))))))), (Zpos (XO (XO (XI (XI (XI (XO (XI
    (XI (XI (XI (XI (XI (XI (XI (XI XH))))))))))))))))) :: (((Zpos (XO (XO
    (XO (XO (XO (XO (XO (XO (XO (XO (XO (XO (XO (XO (XO (XO
    XH))))))))))))))))), (Zpos (XI (XI (XO (XI (XO (XO (XO (XO (XO (XO (XO
    (XO (XO (XO (XO (XO XH)))))))))))))))))) :: (((Zpos (XI (XO (XI (XI (XO
    (XO (XO (XO (XO (XO (XO (XO (XO (XO (XO (XO XH))))))))))))))))), (Zpos
    (XO (XI (XI (XO (XO (XI (XO (XO (XO (XO (XO (XO (XO (XO (XO (XO
    XH)))))))))))))))))) :: (((Zpos (XO (XO (XO (XI (XO (XI (XO (XO (XO (XO
    (XO (XO (XO (XO (XO (XO XH))))))))))))))))), (Zpos (XO (XI (XO (XI (XI
    (XI (XO (XO (XO (XO (XO (XO (XO (XO (XO (XO
    XH)))))))))))))))))) :: (((Zpos (XO (XO (XI (XI (XI (XI (XO (XO (XO (XO
    (XO (XO (XO (XO (XO (XO XH))))))))))))))))), (Zpos (XI (XO (XI (XI (XI
    (XI (XO (XO (XO (XO (XO (XO (XO (XO (XO (XO
    XH)))))))))))))))))) :: (((Zpos (XI (XI (XI (XI (XI (XI (XO (XO (XO (XO
    (XO (XO (XO (XO (XO (XO XH))))))))))))))))), (Zpos (XI (XO (XI (XI (XO
    (XO (XI (XO (XO (XO (XO (XO (XO (XO (XO (XO
    XH)))))))))))))))))) :: (((Zpos (XO (XO (XO (XO (XI (XO (XI (XO (XO (XO
    (XO (XO (XO (XO (XO (XO XH))))))))))))))))), (Zpos (XI (XO (XI (XI (XI
    (XO (XI (XO (XO (XO (XO (XO (XO (XO (XO (XO
    XH)))))))))))))))))) :: (((Zpos (XO (XO (XO (XO (XO (XO (XO (XI (XO (XO
    (XO (XO (XO (XO (XO (XO XH))))))))))))))))), (Zpos (XO (XI (XO (XI (XI
    (XI (XI (XI (XO (XO (XO (XO (XO (XO (XO (XO
    XH)))))))))))))))))) :: (((Zpos (XO (XO (XO (XO (XO (XO (XI (XO (XI (XO
    (XO (XO (XO (XO (XO (XO XH))))))))))))))))), (Zpos (XO (XO (XI (XO (XI
    (XI (XI (XO (XI (XO (XO (XO (XO (XO (XO (XO
    XH)))))))))))))))))) :: (((Zpos (XI (XO (XI (XI (XI (XI (XI (XI (XI (XO
    (XO (XO (XO (XO (XO (XO XH))))))))))))))))), (Zpos (XI (XO (XI (XI (XI
    (XI (XI (XI (XI (XO (XO (XO (XO (XO (XO (XO
    XH)))))))))))))))))) :: (((Zpos (XO (XO (XO (XO (XO (XO (XO (XI (XO (XI
    (XO (XO (XO (XO (XO (XO XH))))))))))))))))), (Zpos (XO (XO (XI (XI (XI
    (XO (XO (XI (XO (XI (XO (XO (XO (XO (XO (XO
    XH)))))))))))))))))) :: (((Zpos (XO (XO (XO (XO (XO (XI (XO (XI (XO (XI
    (XO (XO (XO (XO (XO (XO XH))))))))))))))))), (Zpos (XO (XO (XO (XO (XI
    (XO (XI (XI (XO (XI (XO (XO (XO (XO (XO (XO
    XH)))))))))))))))))) :: (((Zpos (XO (XO (XO (XO (XO (XI (XI (XI (XO (XI
    (XO (XO (XO (XO (XO (XO XH))))))))))))))))), (Zpos (XO (XO (XO (XO (XO
    (XI (XI (XI (XO (XI (XO (XO (XO (XO (XO (XO
    XH)))))))))))))))))) :: (((Zpos (XO (XO (XO (XO (XO (XO (XO (XO (XI (XI
    (XO (XO (XO (XO (XO (XO XH))))))))))))))))), (Zpos (XI (XI (XI (XI (XI
    (XO (XO (XO (XI (XI (XO (XO (XO (XO (XO (XO
    XH)))))))))))))))))) :: (((Zpos (XI (XO (XI (XI (XO (XI (XO (XO (XI (XI
    (XO (XO (XO (XO (XO (XO XH))))))))))))))))), (Zpos (XO (XI (XO (XI (XO
    (XO (XI (XO (XI (XI (XO (XO (XO (XO (XO (XO
    XH)))))))))))))))))) :: (((Zpos (XO (XO (XO (XO (XI (XO (XI (XO (XI (XI
    (XO (XO (XO (XO (XO (XO XH))))))))))))))))), (Zpos (XO (XI (XO (XI (XI
    (XI (XI (XO (XI (XI (XO (XO (XO (XO (XO (XO
    XH)))))))))))))))))) :: (((Zpos (XO (XO (XO (XO (XO (XO (XO (XI (XI (XI
    (XO (XO (XO (XO (XO (XO XH))))))))))))))))), (Zpos (XI (XO (XI (XI (XI
    (XO (XO (XI (XI (XI (XO (XO (XO (XO (XO (XO
    XH)))))))))))))))))) :: (((Zpos (XO (XO (XO (XO (XO (XI (XO (XI (XI (XI
    (XO (XO (XO (XO (XO (XO XH))))))))))))))))), (Zpos (XI (XI (XO (XO (XO
    (XO (XI (XI (XI (XI (XO (XO (XO (XO (XO (XO
    XH)))))))))))))))))) :: (((Zpos (XO (XO (XO (XI (XO (XO (XI (XI (XI (XI
    (XO (XO (XO (XO (XO (XO XH))))))))))))))))), (Zpos (XI (XI (XI (XI (XO
    (XO (XI (XI (XI (XI (XO (XO (XO (XO (XO (XO
    XH)))))))))))))))))) :: (((Zpos (XI (XO (XO (XO (XI (XO (XI (XI (XI (XI
    (XO (XO (XO (XO (XO (XO XH))))))))))))))))), (Zpos (XI (XO (XI (XO (XI
    (XO (XI (XI (XI (XI (XO (XO (XO (XO (XO (XO
    XH)))))))))))))))))) :: (((Zpos (XO (XO (XO (XO (XO (XO (XO (XO (XO (XO
    (XI (XO (XO (XO (XO (XO XH))))))))))))))))), (Zpos (XI (XO (XI (XI (XI
    (XO (XO (XI (XO (XO (XI (XO (XO (XO (XO (XO
    XH)))))))))))))))))) :: (((Zpos (XO (XO (XO (XO (XO (XI (XO (XI (XO (XO
    (XI (XO (XO (XO (XO (XO XH))))))))))))))))), (Zpos (XI (XO (XO (XI (XO
    (XI (XO (XI (XO (XO (XI (XO (XO (XO (XO (XO
    XH)))))))))))))))))) :: []))))))))))))))))))))))))) :: ((((Zpos (XO (XO
    (XO (XO (XI (XI (XO (XI (XO (XO (XI (XO (XO (XO (XO (XO
    XH))))))))))))))))), (Zpos (XI (XO (XI (XO (XI (XO (XI (XO (XO (XO (XO
    (XI (XO (XO (XO (XO XH)))))))))))))))))), (((Zpos (XO (XO (XO (XO (XI (XI
    (XO (XI (XO (XO (XI (XO (XO (XO (XO (XO XH))))))))))))))))), (Zpos (XI
    (XI (XO (XO (XI (XO (XI (XI (XO (XO (XI (XO (XO (XO (XO (XO
    XH)))))))))))))))))) :: (((Zpos (XO (XO (XO (XI (XI (XO (XI (XI (XO (XO
    (XI (XO (XO (XO (XO (XO XH))))))))))))))))), (Zpos (XI (XI (XO (XI (XI
    (XI (XI (XI (XO (XO (XI (XO (XO (XO (XO (XO
    XH)))))))))))))))))) :: (((Zpos (XO (XO (XO (XO (XO (XO (XO (XO (XI (XO
    (XI (XO (XO (XO (XO (XO XH))))))))))))))))), (Zpos (XI (XI (XI (XO (XO
    (XI (XO (XO (XI (XO (XI (XO (XO (XO (XO (XO
    XH)))))))))))))))))) :: (((Zpos (XO (XO (XO (XO (XI (XI (XO (XO (XI (XO
    (XI (XO (XO (XO (XO (XO XH))))))))))))))))), (Zpos (XI (XI (XO (XO (XO
    (XI (XI (XO (XI (XO (XI (XO (XO (XO (XO (XO
    XH)))))))))))))))))) :: (((Zpos (XO (XO (XO (XO (XI (XI (XI (XO (XI (XO
    (XI (XO (XO (XO (XO (XO XH))))))))))))))))), (Zpos (XO (XI (XO (XI (XI
    (XI (XI (XO (XI (XO (XI (XO (XO (XO (XO (XO
    XH)))))))))))))))))) :: (((Zpos (XO (XO (XI (XI (XI (XI (XI (XO (XI (XO
    (XI (XO (XO (XO (XO (XO XH))))))))))))))))), (Zpos (XO (XI (XO (XI (XO
    (XO (XO (XI (XI (XO (XI (XO (XO (XO (XO (XO
    XH)))))))))))))))))) :: (((Zpos (XO (XO (XI (XI (XO (XO (XO (XI (XI (XO
    (XI (XO (XO (XO (XO (XO XH))))))))))))))))), (Zpos (XO (XI (XO (XO (XI
    (XO (XO (XI (XI (XO (XI (XO (XO (XO (XO (XO
    XH)))))))))))))))))) :: (((Zpos (XO (XO (XI (XO (XI (XO (XO (XI (XI (XO
    (XI (XO (XO (XO (XO (XO XH))))))))))))))))), (Zpos (XI (XO (XI (XO (XI
    (XO (XO (XI (XI (XO (XI (XO (XO (XO (XO (XO
    XH)))))))))))))))))) :: (((Zpos (XI (XI (XI (XO (XI (XO (XO (XI (XI (XO
    (XI (XO (XO (XO (XO (XO XH))))))))))))))))), (Zpos (XI (XO (XO (XO (XO
    (XI (XO (XI (XI (XO (XI (XO (XO (XO (XO (XO
    XH)))))))))))))))))) :: (((Zpos (XI (XI (XO (XO (XO (XI (XO (XI (XI (XO
    (XI (XO (XO (XO (XO (XO XH))))))))))))))))), (Zpos (XI (XO (XO (XO (XI
    (XI (XO (XI (XI (XO (XI (XO (XO (XO (XO (XO
    XH)))))))))))))))))) :: (((Zpos (XI (XI (XO (XO (XI (XI (XO (XI (XI (XO
    (XI (XO (XO (XO (XO (XO XH))))))))))))))))), (Zpos (XI (XO (XO (XI (XI
    (XI (XO (XI (XI (XO (XI (XO (XO (XO (XO (XO
    XH)))))))))))))))))) :: (((Zpos (XI (XI (XO (XI (XI (XI (XO (XI (XI (XO
    (XI (XO (XO (XO (XO (XO XH))))))))))))))))), (Zpos (XO (XO (XI (XI (XI
    (XI (XO (XI (XI (XO (XI (XO (XO (XO (XO (XO
    XH)))))))))))))))))) :: (((Zpos (XO (XO (XO (XO (XO (XO (XO (XO (XO (XI
    (XI (XO (XO (XO (XO (XO XH))))))))))))))))), (Zpos (XO (XI (XI (XO (XI
    (XI (XO (XO (XI (XI (XI (XO (XO (XO (XO (XO
    XH)))))))))))))))))) :: (((Zpos (XO (XO (XO (XO (XO (XO (XI (XO (XI (XI
    (XI (XO (XO (XO (XO (XO XH))))))))))))))))), (Zpos (XI (XO (XI (XO (XI
    (XO (XI (XO (XI (XI (XI (XO (XO (XO (XO (XO
    XH)))))))))))))))))) :: (((Zpos (XO (XO (XO (XO (XO (XI (XI (XO (XI (XI
    (XI (XO (XO (XO (XO (XO XH))))))))))))))))), (Zpos (XI (XI (XI (XO (XO
    (XI (XI (XO (XI (XI (XI (XO (XO (XO (XO (XO
    XH)))))))))))))))))) :: (((Zpos (XO (XO (XO (XO (XO (XO (XO (XI (XI (XI
    (XI (XO (XO (XO (XO (XO XH))))))))))))))))), (Zpos (XI (XO (XI (XO (XO
    (XO (XO (XI (XI (XI (XI (XO (XO (XO (XO (XO
    XH)))))))))))))))))) :: (((Zpos (XI (XI (XI (XO (XO (XO (XO (XI (XI (XI
    (XI (XO (XO (XO (XO (XO XH))))))))))))))))), (Zpos (XO (XO (XO (XO (XI
    (XI (XO (XI (XI (XI (XI (XO (XO (XO (XO (XO
    XH)))))))))))))))))) :: (((Zpos (XO (XI (XO (XO (XI (XI (XO (XI (XI (XI
    (XI (XO (XO (XO (XO (XO XH))))))))))))))))), (Zpos (XO (XI (XO (XI (XI
    (XI (XO (XI (XI (XI (XI (XO (XO (XO (XO (XO
    XH)))))))))))))))))) :: (((Zpos (XO (XO (XO (XO (XO (XO (XO (XO (XO (XO
    (XO (XI (XO (XO (XO (XO XH))))))))))))))))), (Zpos (XI (XO (XI (XO (XO
    (XO (XO (XO (XO (XO (XO (XI (XO (XO (XO (XO
    XH)))))))))))))))))) :: (((Zpos (XO (XO (XO (XI (XO (XO (XO (XO (XO (XO
    (XO (XI (XO (XO (XO (XO XH))))))))))))))))), (Zpos (XO (XO (XO (XI (XO
    (XO (XO (XO (XO (XO (XO (XI (XO (XO (XO (XO
    XH)))))))))))))))))) :: (((Zpos (XO (XI (XO (XI (XO (XO (XO (XO (XO (XO
    (XO (XI (XO (XO (XO (XO XH))))))))))))))))), (Zpos (XI (XO (XI (XO (XI
    (XI (XO (XO (XO (XO (XO (XI (XO (XO (XO (XO
    XH)))))))))))))))))) :: (((Zpos (XI (XI (XI (XO (XI (XI (XO (XO (XO (XO
    (XO (XI (XO (XO (XO (XO XH))))))))))))))))), (Zpos (XO (XO (XO (XI (XI
    (XI (XO (XO (XO (XO (XO (XI (XO (XO (XO (XO
    XH)))))))))))))))))) :: (((Zpos (XO (XO (XI (XI (XI (XI (XO (XO (XO (XO
    (XO (XI (XO (XO (XO (XO XH))))))))))))))))), (Zpos (XO (XO (XI (XI (XI
    (XI (XO (XO (XO (XO (XO (XI (XO (XO (XO (XO
    XH)))))))))))))))))) :: (((Zpos (XI (XI (XI (XI (XI (XI (XO (XO (XO (XO
    (XO (XI (XO (XO (XO (XO XH))))))))))))))))), (Zpos (XI (XO (XI (XO (XI
    (XO (XI (XO (XO (XO (XO (XI (XO (XO (XO (XO
    XH)))))))))))))))))) :: []))))))))))))))))))))))))) :: ((((Zpos (XO (XO
    (XO (XO (XO (XI (XI (XO (XO (XO (XO (XI (XO (XO (XO (XO
    XH))))))))))))))))), (Zpos (XO (XO (XO (XI (XO (XO (XI (XO (XO (XO (XI
    (XI (XO (XO (XO (XO XH)))))))))))))))))), (((Zpos (XO (XO (XO (XO (XO (XI
    (XI (XO (XO (XO (XO (XI (XO (XO (XO (XO XH))))))))))))))))), (Zpos (XO
    (XI (XI (XO (XI (XI (XI (XO (XO (XO (XO (XI (XO (XO (XO (XO
    XH)))))))))))))))))) :: (((Zpos (XO (XO (XO (XO (XO (XO (XO (XI (XO (XO
    (XO (XI (XO (XO (XO (XO XH))))))))))))))))), (Zpos (XO (XI (XI (XI (XI
    (XO (XO (XI (XO (XO (XO (XI (XO (XO (XO (XO
    XH)))))))))))))))))) :: (((Zpos (XO (XO (XO (XO (XO (XI (XI (XI (XO (XO
    (XO (XI (XO (XO (XO (XO XH))))))))))))))))), (Zpos (XO (XI (XO (XO (XI
    (XI (XI (XI (XO (XO (XO (XI (XO (XO (XO (XO
    XH)))))))))))))))))) :: (((Zpos (XO (XO (XI (XO (XI (XI (XI (XI (XO (XO
    (XO (XI (XO (XO (XO (XO XH))))))))))))))))), (Zpos (XI (XO (XI (XO (XI
    (XI (XI (XI (XO (XO (XO (XI (XO (XO (XO (XO
    XH)))))))))))))))))) :: (((Zpos (XO (XO (XO (XO (XO (XO (XO (XO (XI (XO
    (XO (XI (XO (XO (XO (XO XH))))))))))))))))), (Zpos (XI (XO (XI (XO (XI
    (XO (XO (XO (XI (XO (XO (XI (XO (XO (XO (XO
    XH)))))))))))))))))) :: (((Zpos (XO (XO (XO (XO (XO (XI (XO (XO (XI (XO
    (XO (XI (XO (XO (XO (XO XH))))))))))))))))), (Zpos (XI (XO (XO (XI (XI
    (XI (XO (XO (XI (XO (XO (XI (XO (XO (XO (XO
    XH)))))))))))))))))) :: (((Zpos (XO (XO (XO (XO (XO (XO (XO (XI (XI (XO
    (XO (XI (XO (XO (XO (XO XH))))))))))))))))), (Zpos (XI (XI (XI (XO (XI
    (XI (XO (XI (XI (XO (XO (XI (XO (XO (XO (XO
    XH)))))))))))))))))) :: (((Zpos (XO (XI (XI (XI (XI (XI (XO (XI (XI (XO
    (XO (XI (XO (XO (XO (XO XH))))))))))))))))), (Zpos (XI (XI (XI (XI (XI
    (XI (XO (XI (XI (XO (XO (XI (XO (XO (XO (XO
    XH)))))))))))))))))) :: (((Zpos (XO (XO (XO (XO (XO (XO (XO (XO (XO (XI
    (XO (XI (XO (XO (XO (XO XH))))))))))))))))), (Zpos (XI (XI (XO (XO (XO
    (XO (XO (XO (XO (XI (XO (XI (XO (XO (XO (XO
    XH)))))))))))))))))) :: (((Zpos (XI (XO (XI (XO (XO (XO (XO (XO (XO (XI
    (XO (XI (XO (XO (XO (XO XH))))))))))))))))), (Zpos (XO (XI (XI (XO (XO
    (XO (XO (XO (XO (XI (XO (XI (XO (XO (XO (XO
    XH)))))))))))))))))) :: (((Zpos (XO (XO (XI (XI (XO (XO (XO (XO (XO (XI
    (XO (XI (XO (XO (XO (XO XH))))))))))))))))), (Zpos (XI (XI (XO (XO (XI
    (XO (XO (XO (XO (XI (XO (XI (XO (XO (XO (XO
    XH)))))))))))))))))) :: (((Zpos (XI (XO (XI (XO (XI (XO (XO (XO (XO (XI
    (XO (XI (XO (XO (XO (XO XH))))))))))))))))), (Zpos (XI (XI (XI (XO (XI
    (XO (XO (XO (XO (XI (XO (XI (XO (XO (XO (XO
    XH)))))))))))))))))) :: (((Zpos (XI (XO (XO (XI (XI (XO (XO (XO (XO (XI
    (XO (XI (XO (XO (XO (XO XH))))))))))))))))), (Zpos (XI (XO (XI (XO (XI
    (XI (XO (XO (XO (XI (XO (XI (XO (XO (XO (XO
    XH)))))))))))))))))) :: (((Zpos (XO (XO (XO (XI (XI (XI (XO (XO (XO (XI
    (XO (XI (XO (XO (XO (XO XH))))))))))))))))), (Zpos (XO (XI (XO (XI (XI
    (XI (XO (XO (XO (XI (XO (XI (XO (XO (XO (XO
    XH)))))))))))))))))) :: (((Zpos (XI (XI (XI (XI (XI (XI (XO (XO (XO (XI
    (XO (XI (XO (XO (XO (XO XH))))))))))))))))), (Zpos (XI (XI (XI (XI (XI
    (XI (XO (XO (XO (XI (XO (XI (XO (XO (XO (XO
    XH)))))))))))))))))) :: (((Zpos (XO (XO (XO (XO (XO (XI (XI (XO (XO (XI
    (XO (XI (XO (XO (XO (XO XH))))))))))))))))), (Zpos (XO (XO (XI (XI (XI
    (XI (XI (XO (XO (XI (XO (XI (XO (XO (XO (XO
    XH)))))))))))))))))) :: (((Zpos (XO (XO (XO (XO (XO (XO (XO (XI (XO (XI
    (XO (XI (XO (XO (XO (XO XH))))))))))))))))), (Zpos (XO (XO (XI (XI (XI
    (XO (XO (XI (XO (XI (XO (XI (XO (XO (XO (XO
    XH)))))))))))))))))) :: (((Zpos (XO (XO (XO (XO (XO (XO (XI (XI (XO (XI
    (XO (XI (XO (XO (XO (XO XH))))))))))))))))), (Zpos (XI (XI (XI (XO (XO
    (XO (XI (XI (XO (XI (XO (XI (XO (XO (XO (XO
    XH)))))))))))))))))) :: (((Zpos (XI (XO (XO (XI (XO (XO (XI (XI (XO (XI
    (XO (XI (XO (XO (XO (XO XH))))))))))))))))), (Zpos (XO (XI (XI (XO (XO
    (XI (XI (XI (XO (XI (XO (XI (XO (XO (XO (XO
    XH)))))))))))))))))) :: (((Zpos (XO (XO (XO (XO (XO (XO (XO (XO (XI (XI
    (XO (XI (XO (XO (XO (XO XH))))))))))))))))), (Zpos (XI (XO (XI (XO (XI
    (XI (XO (XO (XI (XI (XO (XI (XO (XO (XO (XO
    XH)))))))))))))))))) :: (((Zpos (XO (XO (XO (XO (XO (XO (XI (XO (XI (XI
    (XO (XI (XO (XO (XO (XO XH))))))))))))))))), (Zpos (XI (XO (XI (XO (XI
    (XO (XI (XO (XI (XI (XO (XI (XO (XO (XO (XO
    XH)))))))))))))))))) :: (((Zpos (XO (XO (XO (XO (XO (XI (XI (XO (XI (XI
    (XO (XI (XO (XO (XO (XO XH))))))))))))))))), (Zpos (XO (XI (XO (XO (XI
    (XI (XI (XO (XI (XI (XO (XI (XO (XO (XO (XO
    XH)))))))))))))))))) :: (((Zpos (XO (XO (XO (XO (XO (XO (XO (XI (XI (XI
    (XO (XI (XO (XO (XO (XO XH))))))))))))))))), (Zpos (XI (XO (XO (XO (XI
    (XO (XO (XI (XI (XI (XO (XI (XO (XO (XO (XO
    XH)))))))))))))))))) :: (((Zpos (XO (XO (XO (XO (XO (XO (XO (XO (XO (XO
    (XI (XI (XO (XO (XO (XO XH))))))))))))))))), (Zpos (XO (XO (XO (XI (XO
    (XO (XI (XO (XO (XO (XI (XI (XO (XO (XO (XO
    XH)))))))))))))))))) :: []))))))))))))))))))))))))) :: ((((Zpos (XO (XO
    (XO (XO (XO (XO (XO (XI (XO (XO (XI (XI (XO (XO (XO (XO
    XH))))))))))))))))), (Zpos (XO (XI (XI (XO (XI (XI (XI (XO (XI (XO (XO
    (XO (XI (XO (XO (XO XH)))))))))))))))))), (((Zpos (XO (XO (XO (XO (XO (XO
    (XO (XI (XO (XO (XI (XI (XO (XO (XO (XO XH))))))))))))))))), (Zpos (XO
    (XI (XO (XO (XI (XI (XO (XI (XO (XO (XI (XI (XO (XO (XO (XO
    XH)))))))))))))))))) :: (((Zpos (XO (XO (XO (XO (XO (XO (XI (XI (XO (XO
    (XI (XI (XO (XO (XO (XO XH))))))))))))))))), (Zpos (XO (XI (XO (XO (XI
    (XI (XI (XI (XO (XO (XI (XI (XO (XO (XO (XO
    XH)))))))))))))))))) :: (((Zpos (XO (XO (XO (XO (XO (XO (XO (XO (XI (XO
    (XI (XI (XO (XO (XO (XO XH))))))))))))))))), (Zpos (XI (XI (XI (XO (XO
    (XI (XO (XO (XI (XO (XI (XI (XO (XO (XO (XO
    XH)))))))))))))))))) :: (((Zpos (XO (XO (XO (XO (XI (XI (XO (XO (XI (XO
    (XI (XI (XO (XO (XO (XO XH))))))))))))))))), (Zpos (XI (XO (XO (XI (XI
    (XI (XO (XO (XI (XO (XI (XI (XO (XO (XO (XO
    XH)))))))))))))))))) :: (((Zpos (XO (XO (XO (XO (XO (XO (XO (XI (XO (XI
    (XI (XI (XO (XO (XO (XO XH))))))))))))))))), (Zpos (XI (XO (XO (XI (XO
    (XI (XO (XI (XO (XI (XI (XI (XO (XO (XO (XO
    XH)))))))))))))))))) :: (((Zpos (XI (XI (XO (XI (XO (XI (XO (XI (XO (XI
    (XI (XI (XO (XO (XO (XO XH))))))))))))))))), (Zpos (XO (XO (XI (XI (XO
    (XI (XO (XI (XO (XI (XI (XI (XO (XO (XO (XO
    XH)))))))))))))))))) :: (((Zpos (XO (XO (XO (XO (XI (XI (XO (XI (XO (XI
    (XI (XI (XO (XO (XO (XO XH))))))))))))))))), (Zpos (XI (XO (XO (XO (XI
    (XI (XO (XI (XO (XI (XI (XI (XO (XO (XO (XO
    XH)))))))))))))))))) :: (((Zpos (XI (XO (XI (XI (XI (XI (XI (XI (XO (XI
    (XI (XI (XO (XO (XO (XO XH))))))))))))))))), (Zpos (XO (XO (XI (XI (XI
    (XO (XO (XO (XI (XI (XI (XI (XO (XO (XO (XO
    XH)))))))))))))))))) :: (((Zpos (XI (XI (XI (XO (XO (XI (XO (XO (XI (XI
    (XI (XI (XO (XO (XO (XO XH))))))))))))))))), (Zpos (XI (XI (XI (XO (XO
    (XI (XO (XO (XI (XI (XI (XI (XO (XO (XO (XO
    XH)))))))))))))))))) :: (((Zpos (XO (XO (XO (XO (XI (XI (XO (XO (XI (XI
    (XI (XI (XO (XO (XO (XO XH))))))))))))))))), (Zpos (XO (XO (XO (XO (XI
    (XO (XI (XO (XI (XI (XI (XI (XO (XO (XO (XO
    XH)))))))))))))))))) :: (((Zpos (XO (XO (XO (XO (XI (XI (XI (XO (XI (XI
    (XI (XI (XO (XO (XO (XO XH))))))))))))))))), (Zpos (XI (XO (XI (XO (XO
    (XO (XO (XI (XI (XI (XI (XI (XO (XO (XO (XO
    XH)))))))))))))))))) :: (((Zpos (XO (XO (XO (XO (XI (XI (XO (XI (XI (XI
    (XI (XI (XO (XO (XO (XO XH))))))))))))))))), (Zpos (XO (XO (XI (XO (XO
    (XO (XI (XI (XI (XI (XI (XI (XO (XO (XO (XO
    XH)))))))))))))))))) :: (((Zpos (XO (XO (XO (XO (XO (XI (XI (XI (XI (XI
    (XI (XI (XO (XO (XO (XO XH))))))))))))))))), (Zpos (XO (XI (XI (XO (XI
    (XI (XI (XI (XI (XI (XI (XI (XO (XO (XO (XO
    XH)))))))))))))))))) :: (((Zpos (XO (XO (XO (XO (XO (XO (XO (XO (XO (XO
    (XO (XO (XI (XO (XO (XO XH))))))))))))))))), (Zpos (XO (XI (XI (XO (XO
    (XO (XI (XO (XO (XO (XO (XO (XI (XO (XO (XO
    XH)))))))))))))))))) :: (((Zpos (XO (XI (XI (XO (XO (XI (XI (XO (XO (XO
    (XO (XO (XI (XO (XO (XO XH))))))))))))))))), (Zpos (XI (XO (XI (XO (XI
    (XI (XI (XO (XO (XO (XO (XO (XI (XO (XO (XO
    XH)))))))))))))))))) :: (((Zpos (XI (XI (XI (XI (XI (XI (XI (XO (XO (XO
    (XO (XO (XI (XO (XO (XO XH))))))))))))))))), (Zpos (XO (XI (XO (XI (XI
    (XI (XO (XI (XO (XO (XO (XO (XI (XO (XO (XO
    XH)))))))))))))))))) :: (((Zpos (XO (XI (XO (XO (XO (XO (XI (XI (XO (XO
    (XO (XO (XI (XO (XO (XO XH))))))))))))))))), (Zpos (XO (XI (XO (XO (XO
    (XO (XI (XI (XO (XO (XO (XO (XI (XO (XO (XO
    XH)))))))))))))))))) :: (((Zpos (XO (XO (XO (XO (XI (XO (XI (XI (XO (XO
    (XO (XO (XI (XO (XO (XO XH))))))))))))))))), (Zpos (XO (XO (XO (XI (XO
    (XI (XI (XI (XO (XO (XO (XO (XI (XO (XO (XO
    XH)))))))))))))))))) :: (((Zpos (XO (XO (XO (XO (XI (XI (XI (XI (XO (XO
    (XO (XO (XI (XO (XO (XO XH))))))))))))))))), (Zpos (XI (XO (XO (XI (XI
    (XI (XI (XI (XO (XO (XO (XO (XI (XO (XO (XO
    XH)))))))))))))))))) :: (((Zpos (XO (XO (XO (XO (XO (XO (XO (XO (XI (XO
    (XO (XO (XI (XO (XO (XO XH))))))))))))))))), (Zpos (XO (XO (XI (XO (XI
    (XI (XO (XO (XI (XO (XO (XO (XI (XO (XO (XO
    XH)))))))))))))))))) :: (((Zpos (XO (XI (XI (XO (XI (XI (XO (XO (XI (XO
    (XO (XO (XI (XO (XO (XO XH))))))))))))))))), (Zpos (XI (XI (XI (XI (XI
    (XI (XO (XO (XI (XO (XO (XO (XI (XO (XO (XO
    XH)))))))))))))))))) :: (((Zpos (XO (XO (XI (XO (XO (XO (XI (XO (XI (XO
    (XO (XO (XI (XO (XO (XO XH))))))))))))))))), (Zpos (XI (XI (XI (XO (XO
    (XO (XI (XO (XI (XO (XO (XO (XI (XO (XO (XO
    XH)))))))))))))))))) :: (((Zpos (XO (XO (XO (XO (XI (XO (XI (XO (XI (XO
    (XO (XO (XI (XO (XO (XO XH))))))))))))))))), (Zpos (XI (XI (XO (XO (XI
    (XI (XI (XO (XI (XO (XO (XO (XI (XO (XO (XO
    XH)))))))))))))))))) :: (((Zpos (XO (XI (XI (XO (XI (XI (XI (XO (XI (XO
    (XO (XO (XI (XO (XO (XO XH))))))))))))))))), (Zpos (XO (XI (XI (XO (XI
    (XI (XI (XO (XI (XO (XO (XO (XI (XO (XO (XO
    XH)))))))))))))))))) :: []))))))))))))))))))))))))) :: ((((Zpos (XO (XO
    (XO (XO (XO (XO (XO (XI (XI (XO (XO (XO (XI (XO (XO (XO
    XH))))))))))))))))), (Zpos (XI (XO (XI (XI (XO (XO (XI (XO (XI (XI (XO
    (XO (XI (XO (XO (XO XH)))))))))))))))))), (((Zpos (XO (XO (XO (XO (XO (XO
    (XO (XI (XI (XO (XO (XO (XI (XO (XO (XO XH))))))))))))))))), (Zpos (XO
    (XO (XI (XO (XO (XO (XI (XI (XI (XO (XO (XO (XI (XO (XO (XO
    XH)))))))))))))))))) :: (((Zpos (XI (XO (XO (XI (XO (XO (XI (XI (XI (XO
    (XO (XO (XI (XO (XO (XO XH))))))))))))))))), (Zpos (XO (XO (XI (XI (XO
    (XO (XI (XI (XI (XO (XO (XO (XI (XO (XO (XO
    XH)))))))))))))))))) :: (((Zpos (XO (XI (XI (XI (XO (XO (XI (XI (XI (XO
    (XO (XO (XI (XO (XO (XO XH))))))))))))))))), (Zpos (XO (XI (XO (XI (XI
    (XO (XI (XI (XI (XO (XO (XO (XI (XO (XO (XO
    XH)))))))))))))))))) :: (((Zpos (XO (XO (XI (XI (XI (XO (XI (XI (XI (XO
    (XO (XO (XI (XO (XO (XO XH))))))))))))))))), (Zpos (XO (XO (XI (XI (XI
    (XO (XI (XI (XI (XO (XO (XO (XI (XO (XO (XO
    XH)))))))))))))))))) :: (((Zpos (XO (XO (XO (XO (XO (XO (XO (XO (XO (XI
    (XO (XO (XI (XO (XO (XO XH))))))))))))))))), (Zpos (XI (XO (XO (XO (XI
    (XO (XO (XO (XO (XI (XO (XO (XI (XO (XO (XO
    XH)))))))))))))))))) :: (((Zpos (XI (XI (XO (XO (XI (XO (XO (XO (XO (XI
    (XO (XO (XI (XO (XO (XO XH))))))))))))))))), (Zpos (XI (XI (XI (XO (XI
    (XI (XO (XO (XO (XI (XO (XO (XI (XO (XO (XO
    XH)))))))))))))))))) :: (((Zpos (XO (XI (XI (XI (XI (XI (XO (XO (XO (XI
    (XO (XO (XI (XO (XO (XO XH))))))))))))))))), (Zpos (XI (XO (XO (XO (XO
    (XO (XI (XO (XO (XI (XO (XO (XI (XO (XO (XO
    XH)))))))))))))))))) :: (((Zpos (XO (XO (XO (XO (XO (XO (XO (XI (XO (XI
    (XO (XO (XI (XO (XO (XO XH))))))))))))))))), (Zpos (XO (XI (XI (XO (XO
    (XO (XO (XI (XO (XI (XO (XO (XI (XO (XO (XO
    XH)))))))))))))))))) :: (((Zpos (XO (XO (XO (XI (XO (XO (XO (XI (XO (XI
    (XO (XO (XI (XO (XO (XO XH))))))))))))))))), (Zpos (XO (XO (XO (XI (XO
    (XO (XO (XI (XO (XI (XO (XO (XI (XO (XO (XO
    XH)))))))))))))))))) :: (((Zpos (XO (XI (XO (XI (XO (XO (XO (XI (XO (XI
    (XO (XO (XI (XO (XO (XO XH))))))))))))))))), (Zpos (XI (XO (XI (XI (XO
    (XO (XO (XI (XO (XI (XO (XO (XI (XO (XO (XO
    XH)))))))))))))))))) :: (((Zpos (XI (XI (XI (XI (XO (XO (XO (XI (XO (XI
    (XO (XO (XI (XO (XO (XO XH))))))))))))))))), (Zpos (XI (XO (XI (XI (XI
    (XO (XO (XI (XO (XI (XO (XO (XI (XO (XO (XO
    XH)))))))))))))))))) :: (((Zpos (XI (XI (XI (XI (XI (XO (XO (XI (XO (XI
    (XO (XO (XI (XO (XO (XO XH))))))))))))))))), (Zpos (XO (XO (XO (XI (XO
    (XI (XO (XI (XO (XI (XO (XO (XI (XO (XO (XO
    XH)))))))))))))))))) :: (((Zpos (XO (XO (XO (XO (XI (XI (XO (XI (XO (XI
    (XO (XO (XI (XO (XO (XO XH))))))))))))))))), (Zpos (XO (XI (XO (XI (XO
    (XI (XI (XI (XO (XI (XO (XO (XI (XO (XO (XO
    XH)))))))))))))))))) :: (((Zpos (XO (XO (XO (XO (XI (XI (XI (XI (XO (XI
    (XO (XO (XI (XO (XO (XO XH))))))))))))))))), (Zpos (XI (XO (XO (XI (XI
    (XI (XI (XI (XO (XI (XO (XO (XI (XO (XO (XO
    XH)))))))))))))))))) :: (((Zpos (XO (XO (XO (XO (XO (XO (XO (XO (XI (XI
    (XO (XO (XI (XO (XO (XO XH))))))))))))))))), (Zpos (XI (XI (XO (XO (XO
    (XO (XO (XO (XI (XI (XO (XO (XI (XO (XO (XO
    XH)))))))))))))))))) :: (((Zpos (XI (XO (XI (XO (XO (XO (XO (XO (XI (XI
    (XO (XO (XI (XO (XO (XO XH))))))))))))))))), (Zpos (XO (XO (XI (XI (XO
    (XO (XO (XO (XI (XI (XO (XO (XI (XO (XO (XO
    XH)))))))))))))))))) :: (((Zpos (XI (XI (XI (XI (XO (XO (XO (XO (XI (XI
    (XO (XO (XI (XO (XO (XO XH))))))))))))))))), (Zpos (XO (XO (XO (XO (XI
    (XO (XO (XO (XI (XI (XO (XO (XI (XO (XO (XO
    XH)))))))))))))))))) :: (((Zpos (XI (XI (XO (XO (XI (XO (XO (XO (XI (XI
    (XO (XO (XI (XO (XO (XO XH))))))))))))))))), (Zpos (XO (XO (XO (XI (XO
    (XI (XO (XO (XI (XI (XO (XO (XI (XO (XO (XO
    XH)))))))))))))))))) :: (((Zpos (XO (XI (XO (XI (XO (XI (XO (XO (XI (XI
    (XO (XO (XI (XO (XO (XO XH))))))))))))))))), (Zpos (XO (XO (XO (XO (XI
    (XI (XO (XO (XI (XI (XO (XO (XI (XO (XO (XO
    XH)))))))))))))))))) :: (((Zpos (XO (XI (XO (XO (XI (XI (XO (XO (XI (XI
    (XO (XO (XI (XO (XO (XO XH))))))))))))))))), (Zpos (XI (XI (XO (XO (XI
    (XI (XO (XO (XI (XI (XO (XO (XI (XO (XO (XO
    XH)))))))))))))))))) :: (((Zpos (XI (XO (XI (XO (XI (XI (XO (XO (XI (XI
    (XO (XO (XI (XO (XO (XO XH))))))))))))))))), (Zpos (XI (XO (XO (XI (XI
    (XI (XO (XO (XI (XI (XO (XO (XI (XO (XO (XO
    XH)))))))))))))))))) :: (((Zpos (XI (XI (XO (XI (XI (XI (XO (XO (XI (XI
    (XO (XO (XI (XO (XO (XO XH))))))))))))))))), (Zpos (XO (XO (XI (XO (XO
    (XO (XI (XO (XI (XI (XO (XO (XI (XO (XO (XO
    XH)))))))))))))))))) :: (((Zpos (XI (XI (XI (XO (XO (XO (XI (XO (XI (XI
    (XO (XO (XI (XO (XO (XO XH))))))))))))))))), (Zpos (XO (XO (XO (XI (XO
    (XO (XI (XO (XI (XI (XO (XO (XI (XO (XO (XO
    XH)))))))))))))))))) :: (((Zpos (XI (XI (XO (XI (XO (XO (XI (XO (XI (XI
    (XO (XO (XI (XO (XO (XO XH))))))))))))))))), (Zpos (XI (XO (XI (XI (XO
    (XO (XI (XO (XI (XI (XO (XO (XI (XO (XO (XO
    XH)))))))))))))))))) :: []))))))))))))))))))))))))) :: ((((Zpos (XO (XO
    (XO (XO (XI (XO (XI (XO (XI (XI (XO (XO (XI (XO (XO (XO
    XH))))))))))))))))), (Zpos (XO (XI (XO (XI (XI (XI (XO (XO (XO (XO (XO
    (XI (XI (XO (XO (XO XH)))))))))))))))))), (((Zpos (XO (XO (XO (XO (XI (XO
    (XI (XO (XI (XI (XO (XO (XI (XO (XO (XO XH))))))))))))))))), (Zpos (XO
    (XO (XO (XO (XI (XO (XI (XO (XI (XI (XO (XO (XI (XO (XO (XO
    XH)))))))))))))))))) :: (((Zpos (XI (XI (XI (XO (XI (XO (XI (XO (XI (XI
    (XO (XO (XI (XO (XO (XO XH))))))))))))))))), (Zpos (XI (XI (XI (XO (XI
    (XO (XI (XO (XI (XI (XO (XO (XI (XO (XO (XO
    XH)))))))))))))))))) :: (((Zpos (XI (XO (XI (XI (XI (XO (XI (XO (XI (XI
    (XO (XO (XI (XO (XO (XO XH))))))))))))))))), (Zpos (XI (XI (XO (XO (XO
    (XI (XI (XO (XI (XI (XO (XO (XI (XO (XO (XO
    XH)))))))))))))))))) :: (((Zpos (XO (XI (XI (XO (XO (XI (XI (XO (XI (XI
    (XO (XO (XI (XO (XO (XO XH))))))))))))))))), (Zpos (XO (XO (XI (XI (XO
    (XI (XI (XO (XI (XI (XO (XO (XI (XO (XO (XO
    XH)))))))))))))))))) :: (((Zpos (XO (XO (XO (XO (XI (XI (XI (XO (XI (XI
    (XO (XO (XI (XO (XO (XO XH))))))))))))))))), (Zpos (XO (XO (XI (XO (XI
    (XI (XI (XO (XI (XI (XO (XO (XI (XO (XO (XO
    XH)))))))))))))))))) :: (((Zpos (XO (XO (XO (XO (XO (XO (XO (XO (XO (XO
    (XI (XO (XI (XO (XO (XO XH))))))))))))))))), (Zpos (XO (XI (XO (XI (XO
    (XO (XI (XO (XO (XO (XI (XO (XI (XO (XO (XO
    XH)))))))))))))))))) :: (((Zpos (XO (XO (XO (XO (XI (XO (XI (XO (XO (XO
    (XI (XO (XI (XO (XO (XO XH))))))))))))))))), (Zpos (XI (XO (XO (XI (XI
    (XO (XI (XO (XO (XO (XI (XO (XI (XO (XO (XO
    XH)))))))))))))))))) :: (((Zpos (XO (XI (XI (XI (XI (XO (XI (XO (XO (XO
    (XI (XO (XI (XO (XO (XO XH))))))))))))))))), (Zpos (XI (XO (XO (XO (XO
    (XI (XI (XO (XO (XO (XI (XO (XI (XO (XO (XO
    XH)))))))))))))))))) :: (((Zpos (XO (XO (XO (XO (XO (XO (XO (XI (XO (XO
    (XI (XO (XI (XO (XO (XO XH))))))))))))))))), (Zpos (XI (XO (XI (XO (XO
    (XO (XI (XI (XO (XO (XI (XO (XI (XO (XO (XO
    XH)))))))))))))))))) :: (((Zpos (XI (XI (XI (XO (XO (XO (XI (XI (XO (XO
    (XI (XO (XI (XO (XO (XO XH))))))))))))))))), (Zpos (XI (XI (XI (XO (XO
    (XO (XI (XI (XO (XO (XI (XO (XI (XO (XO (XO
    XH)))))))))))))))))) :: (((Zpos (XO (XO (XO (XO (XI (XO (XI (XI (XO (XO
    (XI (XO (XI (XO (XO (XO XH))))))))))))))))), (Zpos (XI (XO (XO (XI (XI
    (XO (XI (XI (XO (XO (XI (XO (XI (XO (XO (XO
    XH)))))))))))))))))) :: (((Zpos (XO (XO (XO (XO (XO (XO (XO (XI (XI (XO
    (XI (XO (XI (XO (XO (XO XH))))))))))))))))), (Zpos (XI (XO (XI (XO (XI
    (XI (XO (XI (XI (XO (XI (XO (XI (XO (XO (XO
    XH)))))))))))))))))) :: (((Zpos (XO (XO (XO (XI (XI (XI (XO (XI (XI (XO
    (XI (XO (XI (XO (XO (XO XH))))))))))))))))), (Zpos (XO (XO (XO (XO (XO
    (XO (XI (XI (XI (XO (XI (XO (XI (XO (XO (XO
    XH)))))))))))))))))) :: (((Zpos (XO (XO (XO (XI (XI (XO (XI (XI (XI (XO
    (XI (XO (XI (XO (XO (XO XH))))))))))))))))), (Zpos (XI (XO (XI (XI (XI
    (XO (XI (XI (XI (XO (XI (XO (XI (XO (XO (XO
    XH)))))))))))))))))) :: (((Zpos (XO (XO (XO (XO (XO (XO (XO (XO (XO (XI
    (XI (XO (XI (XO (XO (XO XH))))))))))))))))), (Zpos (XO (XO (XO (XO (XO
    (XO (XI (XO (XO (XI (XI (XO (XI (XO (XO (XO
    XH)))))))))))))))))) :: (((Zpos (XO (XO (XI (XO (XO (XO (XI (XO (XO (XI
    (XI (XO (XI (XO (XO (XO XH))))))))))))))))), (Zpos (XO (XO (XI (XO (XO
    (XO (XI (XO (XO (XI (XI (XO (XI (XO (XO (XO
    XH)))))))))))))))))) :: (((Zpos (XO (XO (XO (XO (XI (XO (XI (XO (XO (XI
    (XI (XO (XI (XO (XO (XO XH))))))))))))))))), (Zpos (XI (XO (XO (XI (XI
    (XO (XI (XO (XO (XI (XI (XO (XI (XO (XO (XO
    XH)))))))))))))))))) :: (((Zpos (XO (XO (XO (XO (XO (XO (XO (XI (XO (XI
    (XI (XO (XI (XO (XO (XO XH))))))))))))))))), (Zpos (XO (XO (XO (XI (XI
    (XI (XO (XI (XO (XI (XI (XO (XI (XO (XO (XO
    XH)))))))))))))))))) :: (((Zpos (XO (XO (XO (XO (XO (XO (XI (XI (XO (XI
    (XI (XO (XI (XO (XO (XO XH))))))))))))))))), (Zpos (XI (XO (XO (XI (XO
    (XO (XI (XI (XO (XI (XI (XO (XI (XO (XO (XO
    XH)))))))))))))))))) :: (((Zpos (XO (XO (XO (XO (XO (XO (XO (XO (XI (XI
    (XI (XO (XI (XO (XO (XO XH))))))))))))))))), (Zpos (XO (XI (XO (XI (XI
    (XO (XO (XO (XI (XI (XI (XO (XI (XO (XO (XO
    XH)))))))))))))))))) :: (((Zpos (XI (XO (XI (XI (XI (XO (XO (XO (XI (XI
    (XI (XO (XI (XO (XO (XO XH))))))))))))))))), (Zpos (XI (XI (XO (XI (XO
    (XI (XO (XO (XI (XI (XI (XO (XI (XO (XO (XO
    XH)))))))))))))))))) :: (((Zpos (XO (XO (XO (XO (XI (XI (XO (XO (XI (XI
    (XI (XO (XI (XO (XO (XO XH))))))))))))))))), (Zpos (XI (XO (XO (XI (XI
    (XI (XO (XO (XI (XI (XI (XO (XI (XO (XO (XO
    XH)))))))))))))))))) :: (((Zpos (XO (XO (XO (XO (XO (XO (XI (XO (XI (XI
    (XI (XO (XI (XO (XO (XO XH))))))))))))))))), (Zpos (XO (XI (XI (XO (XO
    (XO (XI (XO (XI (XI (XI (XO (XI (XO (XO (XO
    XH)))))))))))))))))) :: (((Zpos (XO (XO (XO (XO (XO (XO (XO (XO (XO (XO
    (XO (XI (XI (XO (XO (XO XH))))))))))))))))), (Zpos (XO (XI (XO (XI (XI
    (XI (XO (XO (XO (XO (XO (XI (XI (XO (XO (XO
    XH)))))))))))))))))) :: []))))))))))))))))))))))))) :: ((((Zpos (XO (XO
    (XO (XO (XO (XI (XO (XI (XO (XO (XO (XI (XI (XO (XO (XO
    XH))))))))))))))))), (Zpos (XI (XI (XI (XO (XO (XI (XO (XI (XO (XO (XI
    (XI (XI (XO (XO (XO XH)))))))))))))))))), (((Zpos (XO (XO (XO (XO (XO (XI
    (XO (XI (XO (XO (XO (XI (XI (XO (XO (XO XH))))))))))))))))), (Zpos (XI
    (XO (XO (XI (XO (XI (XI (XI (XO (XO (XO (XI (XI (XO (XO (XO
    XH)))))))))))))))))) :: (((Zpos (XI (XI (XI (XI (XI (XI (XI (XI (XO (XO
    (XO (XI (XI (XO (XO (XO XH))))))))))))))))), (Zpos (XO (XI (XI (XO (XO
    (XO (XO (XO (XI (XO (XO (XI (XI (XO (XO (XO
    XH)))))))))))))))))) :: (((Zpos (XI (XO (XO (XI (XO (XO (XO (XO (XI (XO
    (XO (XI (XI (XO (XO (XO XH))))))))))))))))), (Zpos (XI (XO (XO (XI (XO
    (XO (XO (XO (XI (XO (XO (XI (XI (XO (XO (XO
    XH)))))))))))))))))) :: (((Zpos (XO (XO (XI (XI (XO (XO (XO (XO (XI (XO
    (XO (XI (XI (XO (XO (XO XH))))))))))))))))), (Zpos (XI (XI (XO (XO (XI
    (XO (XO (XO (XI (XO (XO (XI (XI (XO (XO (XO
    XH)))))))))))))))))) :: (((Zpos (XI (XO (XI (XO (XI (XO (XO (XO (XI (XO
    (XO (XI (XI (XO (XO (XO XH))))))))))))))))), (Zpos (XO (XI (XI (XO (XI
    (XO (XO (XO (XI (XO (XO (XI (XI (XO (XO (XO
    XH)))))))))))))))))) :: (((Zpos (XO (XO (XO (XI (XI (XO (XO (XO (XI (XO
    (XO (XI (XI (XO (XO (XO XH))))))))))))))))), (Zpos (XI (XO (XI (XO (XI
    (XI (XO (XO (XI (XO (XO (XI (XI (XO (XO (XO
    XH)))))))))))))))))) :: (((Zpos (XI (XI (XI (XO (XI (XI (XO (XO (XI (XO
    (XO (XI (XI (XO (XO (XO XH))))))))))))))))), (Zpos (XO (XO (XO (XI (XI
    (XI (XO (XO (XI (XO (XO (XI (XI (XO (XO (XO
    XH)))))))))))))))))) :: (((Zpos (XI (XI (XO (XI (XI (XI (XO (XO (XI (XO
    (XO (XI (XI (XO (XO (XO XH))))))))))))))))), (Zpos (XI (XI (XO (XO (XO
    (XO (XI (XO (XI (XO (XO (XI (XI (XO (XO (XO
    XH)))))))))))))))))) :: (((Zpos (XO (XO (XO (XO (XI (XO (XI (XO (XI (XO
    (XO (XI (XI (XO (XO (XO XH))))))))))))))))), (Zpos (XI (XO (XO (XI (XI
    (XO (XI (XO (XI (XO (XO (XI (XI (XO (XO (XO
    XH)))))))))))))))))) :: (((Zpos (XO (XO (XO (XO (XO (XI (XO (XI (XI (XO
    (XO (XI (XI (XO (XO (XO XH))))))))))))))))), (Zpos (XI (XI (XI (XO (XO
    (XI (XO (XI (XI (XO (XO (XI (XI (XO (XO (XO
    XH)))))))))))))))))) :: (((Zpos (XO (XI (XO (XI (XO (XI (XO (XI (XI (XO
    (XO (XI (XI (XO (XO (XO XH))))))))))))))))), (Zpos (XI (XI (XI (XO (XI
    (XO (XI (XI (XI (XO (XO (XI (XI (XO (XO (XO
    XH)))))))))))))))))) :: (((Zpos (XO (XI (XO (XI (XI (XO (XI (XI (XI (XO
    (XO (XI (XI (XO (XO (XO XH))))))))))))))))), (Zpos (XI (XO (XO (XO (XO
    (XI (XI (XI (XI (XO (XO (XI (XI (XO (XO (XO
    XH)))))))))))))))))) :: (((Zpos (XI (XI (XO (XO (XO (XI (XI (XI (XI (XO
    (XO (XI (XI (XO (XO (XO XH))))))))))))))))), (Zpos (XO (XO (XI (XO (XO
    (XI (XI (XI (XI (XO (XO (XI (XI (XO (XO (XO
    XH)))))))))))))))))) :: (((Zpos (XO (XO (XO (XO (XO (XO (XO (XO (XO (XI
    (XO (XI (XI (XO (XO (XO XH))))))))))))))))), (Zpos (XO (XI (XI (XI (XI
    (XI (XO (XO (XO (XI (XO (XI (XI (XO (XO (XO
    XH)))))))))))))))))) :: (((Zpos (XI (XI (XI (XO (XO (XO (XI (XO (XO (XI
    (XO (XI (XI (XO (XO (XO XH))))))))))))))))), (Zpos (XI (XI (XI (XO (XO
    (XO (XI (XO (XO (XI (XO (XI (XI (XO (XO (XO
    XH)))))))))))))))))) :: (((Zpos (XO (XO (XO (XO (XI (XO (XI (XO (XO (XI
    (XO (XI (XI (XO (XO (XO XH))))))))))))))))), (Zpos (XI (XO (XO (XI (XI
    (XO (XO (XI (XO (XI (XO (XI (XI (XO (XO (XO
    XH)))))))))))))))))) :: (((Zpos (XI (XO (XI (XI (XI (XO (XO (XI (XO (XI
    (XO (XI (XI (XO (XO (XO XH))))))))))))))))), (Zpos (XI (XO (XI (XI (XI
    (XO (XO (XI (XO (XI (XO (XI (XI (XO (XO (XO
    XH)))))))))))))))))) :: (((Zpos (XO (XO (XO (XO (XI (XI (XO (XI (XO (XI
    (XO (XI (XI (XO (XO (XO XH))))))))))))))))), (Zpos (XO (XO (XO (XI (XI
    (XI (XI (XI (XO (XI (XO (XI (XI (XO (XO (XO
    XH)))))))))))))))))) :: (((Zpos (XO (XO (XO (XO (XO (XO (XO (XO (XO (XO
    (XI (XI (XI (XO (XO (XO XH))))))))))))))))), (Zpos (XO (XO (XO (XI (XO
    (XO (XO (XO (XO (XO (XI (XI (XI (XO (XO (XO
    XH)))))))))))))))))) :: (((Zpos (XO (XI (XO (XI (XO (XO (XO (XO (XO (XO
    (XI (XI (XI (XO (XO (XO XH))))))))))))))))), (Zpos (XO (XI (XI (XO (XI
    (XI (XO (XO (XO (XO (XI (XI (XI (XO (XO (XO
    XH)))))))))))))))))) :: (((Zpos (XO (XO (XO (XI (XI (XI (XO (XO (XO (XO
    (XI (XI (XI (XO (XO (XO XH))))))))))))))))), (Zpos (XO (XO (XO (XO (XO
    (XO (XI (XO (XO (XO (XI (XI (XI (XO (XO (XO
    XH)))))))))))))))))) :: (((Zpos (XO (XO (XO (XO (XI (XO (XI (XO (XO (XO
    (XI (XI (XI (XO (XO (XO XH))))))))))))))))), (Zpos (XI (XO (XO (XI (XI
    (XO (XI (XO (XO (XO (XI (XI (XI (XO (XO (XO
    XH)))))))))))))))))) :: (((Zpos (XO (XI (XO (XO (XI (XI (XI (XO (XO (XO
    (XI (XI (XI (XO (XO (XO XH))))))))))))))))), (Zpos (XI (XI (XI (XI (XO
    (XO (XO (XI (XO (XO (XI (XI (XI (XO (XO (XO
    XH)))))))))))))))))) :: (((Zpos (XO (XI (XO (XO (XI (XO (XO (XI (XO (XO
    (XI (XI (XI (XO (XO (XO XH))))))))))))))))), (Zpos (XI (XI (XI (XO (XO
    (XI (XO (XI (XO (XO (XI (XI (XI (XO (XO (XO
    XH)))))))))))))))))) :: []))))))))))))))))))))))))) :: ((((Zpos (XI (XO
    (XO (XI (XO (XI (XO (XI (XO (XO (XI (XI (XI (XO (XO (XO
    XH))))))))))))))))), (Zpos (XO (XO (XO (XO (XI (XI (XI (XI (XI (XI (XI
    (XI (XO (XI (XO (XO XH)))))))))))))))))), (((Zpos (XI (XO (XO (XI (XO (XI
    (XO (XI (XO (XO (XI (XI (XI (XO (XO (XO XH))))))))))))))))), (Zpos (XO
    (XI (XI (XO (XI (XI (XO (XI (XO (XO (XI (XI (XI (XO (XO (XO
    XH)))))))))))))))))) :: (((Zpos (XO (XO (XO (XO (XO (XO (XO (XO (XI (XO
    (XI (XI (XI (XO (XO (XO XH))))))))))))))))), (Zpos (XO (XI (XI (XO (XO
    (XO (XO (XO (XI (XO (XI (XI (XI (XO (XO (XO
    XH)))))))))))))))))) :: (((Zpos (XO (XO (XO (XI (XO (XO (XO (XO (XI (XO
    (XI (XI (XI (XO (XO (XO XH))))))))))))))))), (Zpos (XI (XO (XO (XI (XO
    (XO (XO (XO (XI (XO (XI (XI (XI (XO (XO (XO
    XH)))))))))))))))))) :: (((Zpos (XI (XI (XO (XI (XO (XO (XO (XO (XI (XO
    (XI (XI (XI (XO (XO (XO XH))))))))))))))))), (Zpos (XO (XI (XI (XO (XI
    (XI (XO (XO (XI (XO (XI (XI (XI (XO (XO (XO
    XH)))))))))))))))))) :: (((Zpos (XO (XI (XO (XI (XI (XI (XO (XO (XI (XO
    (XI (XI (XI (XO (XO (XO XH))))))))))))))))), (Zpos (XO (XI (XO (XI (XI
    (XI (XO (XO (XI (XO (XI (XI (XI (XO (XO (XO
    XH)))))))))))))))))) :: (((Zpos (XO (XO (XI (XI (XI (XI (XO (XO (XI (XO
    (XI (XI (XI (XO (XO (XO XH))))))))))))))))), (Zpos (XI (XO (XI (XI (XI
    (XI (XO (XO (XI (XO (XI (XI (XI (XO (XO (XO
    XH)))))))))))))))))) :: (((Zpos (XI (XI (XI (XI (XI (XI (XO (XO (XI (XO
    (XI (XI (XI (XO (XO (XO XH))))))))))))))))), (Zpos (XI (XI (XI (XO (XO
    (XO (XI (XO (XI (XO (XI (XI (XI (XO (XO (XO
    XH)))))))))))))))))) :: (((Zpos (XO (XO (XO (XO (XI (XO (XI (XO (XI (XO
    (XI (XI (XI (XO (XO (XO XH))))))))))))))))), (Zpos (XI (XO (XO (XI (XI
    (XO (XI (XO (XI (XO (XI (XI (XI (XO (XO (XO
    XH)))))))))))))))))) :: (((Zpos (XO (XO (XO (XO (XO (XI (XI (XO (XI (XO
    (XI (XI (XI (XO (XO (XO XH))))))))))))))))), (Zpos (XI (XO (XI (XO (XO
    (XI (XI (XO (XI (XO (XI (XI (XI (XO (XO (XO
    XH)))))))))))))))))) :: (((Zpos (XI (XI (XI (XO (XO (XI (XI (XO (XI (XO
    (XI (XI (XI (XO (XO (XO XH))))))))))))))))), (Zpos (XO (XO (XO (XI (XO
    (XI (XI (XO (XI (XO (XI (XI (XI (XO (XO (XO
    XH)))))))))))))))))) :: (((Zpos (XO (XI (XO (XI (XO (XI (XI (XO (XI (XO
    (XI (XI (XI (XO (XO (XO XH))))))))))))))))), (Zpos (XO (XI (XI (XI (XO
    (XO (XO (XI (XI (XO (XI (XI (XI (XO (XO (XO
    XH)))))))))))))))))) :: (((Zpos (XO (XO (XO (XO (XI (XO (XO (XI (XI (XO
    (XI (XI (XI (XO (XO (XO XH))))))))))))))))), (Zpos (XI (XO (XO (XO (XI
    (XO (XO (XI (XI (XO (XI (XI (XI (XO (XO (XO
    XH)))))))))))))))))) :: (((Zpos (XI (XI (XO (XO (XI (XO (XO (XI (XI (XO
    (XI (XI (XI (XO (XO (XO XH))))))))))))))))), (Zpos (XO (XO (XO (XI (XI
    (XO (XO (XI (XI (XO (XI (XI (XI (XO (XO (XO
    XH)))))))))))))))))) :: (((Zpos (XO (XO (XO (XO (XO (XI (XO (XI (XI (XO
    (XI (XI (XI (XO (XO (XO XH))))))))))))))))), (Zpos (XI (XO (XO (XI (XO
    (XI (XO (XI (XI (XO (XI (XI (XI (XO (XO (XO
    XH)))))))))))))))))) :: (((Zpos (XO (XO (XO (XO (XO (XI (XI (XI (XO (XI
    (XI (XI (XI (XO (XO (XO XH))))))))))))))))), (Zpos (XO (XI (XI (XO (XI
    (XI (XI (XI (XO (XI (XI (XI (XI (XO (XO (XO
    XH)))))))))))))))))) :: (((Zpos (XO (XO (XO (XO (XO (XO (XO (XO (XI (XI
    (XI (XI (XI (XO (XO (XO XH))))))))))))))))), (Zpos (XO (XO (XO (XO (XI
    (XO (XO (XO (XI (XI (XI (XI (XI (XO (XO (XO
    XH)))))))))))))))))) :: (((Zpos (XO (XI (XO (XO (XI (XO (XO (XO (XI (XI
    (XI (XI (XI (XO (XO (XO XH))))))))))))))))), (Zpos (XO (XI (XO (XI (XI
    (XI (XO (XO (XI (XI (XI (XI (XI (XO (XO (XO
    XH)))))))))))))))))) :: (((Zpos (XO (XI (XI (XI (XI (XI (XO (XO (XI (XI
    (XI (XI (XI (XO (XO (XO XH))))))))))))))))), (Zpos (XO (XI (XO (XO (XO
    (XO (XI (XO (XI (XI (XI (XI (XI (XO (XO (XO
    XH)))))))))))))))))) :: (((Zpos (XO (XO (XO (XO (XI (XO (XI (XO (XI (XI
    (XI (XI (XI (XO (XO (XO XH))))))))))))))))), (Zpos (XI (XO (XO (XI (XI
    (XO (XI (XO (XI (XI (XI (XI (XI (XO (XO (XO
    XH)))))))))))))))))) :: (((Zpos (XO (XO (XO (XO (XI (XI (XO (XI (XI (XI
    (XI (XI (XI (XO (XO (XO XH))))))))))))))))), (Zpos (XO (XO (XO (XO (XI
    (XI (XO (XI (XI (XI (XI (XI (XI (XO (XO (XO
    XH)))))))))))))))))) :: (((Zpos (XO (XO (XO (XO (XO (XO (XO (XO (XO (XO
    (XO (XO (XO (XI (XO (XO XH))))))))))))))))), (Zpos (XI (XO (XO (XI (XI
    (XO (XO (XI (XI (XI (XO (XO (XO (XI (XO (XO
    XH)))))))))))))))))) :: (((Zpos (XO (XO (XO (XO (XO (XO (XO (XO (XO (XO
    (XI (XO (XO (XI (XO (XO XH))))))))))))))))), (Zpos (XO (XI (XI (XI (XO
    (XI (XI (XO (XO (XO (XI (XO (XO (XI (XO (XO
    XH)))))))))))))))))) :: (((Zpos (XO (XO (XO (XO (XO (XO (XO (XI (XO (XO
    (XI (XO (XO (XI (XO (XO XH))))))))))))))))), (Zpos (XI (XI (XO (XO (XO
    (XO (XI (XO (XI (XO (XI (XO (XO (XI (XO (XO
    XH)))))))))))))))))) :: (((Zpos (XO (XO (XO (XO (XI (XO (XO (XI (XI (XI
    (XI (XI (XO (XI (XO (XO XH))))))))))))))))), (Zpos (XO (XO (XO (XO (XI
    (XI (XI (XI (XI (XI (XI (XI (XO (XI (XO (XO
    XH)))))))))))))))))) :: []))))))))))))))))))))))))) :: ((((Zpos (XO (XO
    (XO (XO (XO (XO (XO (XO (XO (XO (XO (XO (XI (XI (XO (XO
    XH))))))))))))))))), (Zpos (XI (XO (XI (XO (XI (XO (XI (XI (XO (XO (XI
    (XI (XO (XO (XO (XI XH)))))))))))))))))), (((Zpos (XO (XO (XO (XO (XO (XO
    (XO (XO (XO (XO (XO (XO (XI (XI (XO (XO XH))))))))))))))))), (Zpos (XI
    (XI (XI (XI (XO (XI (XO (XO (XO (XO (XI (XO (XI (XI (XO (XO
    XH)))))))))))))))))) :: (((Zpos (XO (XO (XO (XO (XO (XO (XI (XO (XO (XO
    (XI (XO (XI (XI (XO (XO XH))))))))))))))))), (Zpos (XI (XO (XI (XO (XI
    (XO (XI (XO (XO (XO (XI (XO (XI (XI (XO (XO
    XH)))))))))))))))))) :: (((Zpos (XO (XO (XO (XO (XO (XO (XO (XO (XO (XO
    (XI (XO (XO (XO (XI (XO XH))))))))))))))))), (Zpos (XO (XI (XI (XO (XO
    (XO (XI (XO (XO (XI (XI (XO (XO (XO (XI (XO
    XH)))))))))))))))))) :: (((Zpos (XO (XO (XO (XO (XO (XO (XO (XO (XO (XO
    (XO (XI (XO (XI (XI (XO XH))))))))))))))))), (Zpos (XO (XO (XO (XI (XI
    (XI (XO (XO (XO (XI (XO (XI (XO (XI (XI (XO
    XH)))))))))))))))))) :: (((Zpos (XO (XO (XO (XO (XO (XO (XI (XO (XO (XI
    (XO (XI (XO (XI (XI (XO XH))))))))))))))))), (Zpos (XO (XI (XI (XI (XI
    (XO (XI (XO (XO (XI (XO (XI (XO (XI (XI (XO
    XH)))))))))))))))))) :: (((Zpos (XO (XO (XO (XO (XO (XI (XI (XO (XO (XI
    (XO (XI (XO (XI (XI (XO XH))))))))))))))))), (Zpos (XI (XO (XO (XI (XO
    (XI (XI (XO (XO (XI (XO (XI (XO (XI (XI (XO
    XH)))))))))))))))))) :: (((Zpos (XO (XO (XO (XO (XI (XI (XI (XO (XO (XI
    (XO (XI (XO (XI (XI (XO XH))))))))))))))))), (Zpos (XO (XI (XI (XI (XI
    (XI (XO (XI (XO (XI (XO (XI (XO (XI (XI (XO
    XH)))))))))))))))))) :: (((Zpos (XO (XO (XO (XO (XO (XO (XI (XI (XO (XI
    (XO (XI (XO (XI (XI (XO XH))))))))))))))))), (Zpos (XI (XO (XO (XI (XO
    (XO (XI (XI (XO (XI (XO (XI (XO (XI (XI (XO
    XH)))))))))))))))))) :: (((Zpos (XO (XO (XO (XO (XI (XO (XI (XI (XO (XI
    (XO (XI (XO (XI (XI (XO XH))))))))))))))))), (Zpos (XI (XO (XI (XI (XO
    (XI (XI (XI (XO (XI (XO (XI (XO (XI (XI (XO
    XH)))))))))))))))))) :: (((Zpos (XO (XO (XO (XO (XI (XI (XI (XI (XO (XI
    (XO (XI (XO (XI (XI (XO XH))))))))))))))))), (Zpos (XO (XO (XI (XO (XI
    (XI (XI (XI (XO (XI (XO (XI (XO (XI (XI (XO
    XH)))))))))))))))))) :: (((Zpos (XO (XO (XO (XO (XO (XO (XO (XO (XI (XI
    (XO (XI (XO (XI (XI (XO XH))))))))))))))))), (Zpos (XO (XI (XI (XO (XI
    (XI (XO (XO (XI (XI (XO (XI (XO (XI (XI (XO
    XH)))))))))))))))))) :: (((Zpos (XO (XO (XO (XO (XO (XO (XI (XO (XI (XI
    (XO (XI (XO (XI (XI (XO XH))))))))))))))))), (Zpos (XI (XI (XO (XO (XO
    (XO (XI (XO (XI (XI (XO (XI (XO (XI (XI (XO
    XH)))))))))))))))))) :: (((Zpos (XO (XO (XO (XO (XI (XO (XI (XO (XI (XI
    (XO (XI (XO (XI (XI (XO XH))))))))))))))))), (Zpos (XI (XO (XO (XI (XI
    (XO (XI (XO (XI (XI (XO (XI (XO (XI (XI (XO
    XH)))))))))))))))))) :: (((Zpos (XI (XI (XO (XO (XO (XI (XI (XO (XI (XI
    (XO (XI (XO (XI (XI (XO XH))))))))))))))))), (Zpos (XI (XI (XI (XO (XI
    (XI (XI (XO (XI (XI (XO (XI (XO (XI (XI (XO
    XH)))))))))))))))))) :: (((Zpos (XI (XO (XI (XI (XI (XI (XI (XO (XI (XI
    (XO (XI (XO (XI (XI (XO XH))))))))))))))))), (Zpos (XI (XI (XI (XI (XO
    (XO (XO (XI (XI (XI (XO (XI (XO (XI (XI (XO
    XH)))))))))))))))))) :: (((Zpos (XO (XO (XO (XO (XO (XO (XI (XO (XO (XI
    (XI (XI (XO (XI (XI (XO XH))))))))))))))))), (Zpos (XI (XI (XI (XI (XI
    (XI (XI (XO (XO (XI (XI (XI (XO (XI (XI (XO
    XH)))))))))))))))))) :: (((Zpos (XO (XO (XO (XO (XO (XO (XO (XO (XI (XI
    (XI (XI (XO (XI (XI (XO XH))))))))))))))))), (Zpos (XO (XI (XO (XI (XO
    (XO (XI (XO (XI (XI (XI (XI (XO (XI (XI (XO
    XH)))))))))))))))))) :: (((Zpos (XI (XI (XI (XI (XO (XO (XI (XO (XI (XI
    (XI (XI (XO (XI (XI (XO XH))))))))))))))))), (Zpos (XI (XI (XI (XO (XO
    (XO (XO (XI (XI (XI (XI (XI (XO (XI (XI (XO
    XH)))))))))))))))))) :: (((Zpos (XI (XI (XI (XI (XO (XO (XO (XI (XI (XI
    (XI (XI (XO (XI (XI (XO XH))))))))))))))))), (Zpos (XI (XI (XI (XI (XI
    (XO (XO (XI (XI (XI (XI (XI (XO (XI (XI (XO
    XH)))))))))))))))))) :: (((Zpos (XO (XO (XO (XO (XO (XI (XI (XI (XI (XI
    (XI (XI (XO (XI (XI (XO XH))))))))))))))))), (Zpos (XI (XO (XO (XO (XO
    (XI (XI (XI (XI (XI (XI (XI (XO (XI (XI (XO
    XH)))))))))))))))))) :: (((Zpos (XI (XI (XO (XO (XO (XI (XI (XI (XI (XI
    (XI (XI (XO (XI (XI (XO XH))))))))))))))))), (Zpos (XO (XO (XI (XO (XO
    (XI (XI (XI (XI (XI (XI (XI (XO (XI (XI (XO
    XH)))))))))))))))))) :: (((Zpos (XO (XO (XO (XO (XI (XI (XI (XI (XI (XI
    (XI (XI (XO (XI (XI (XO XH))))))))))))))))), (Zpos (XI (XO (XO (XO (XI
    (XI (XI (XI (XI (XI (XI (XI (XO (XI (XI (XO
    XH)))))))))))))))))) :: (((Zpos (XO (XO (XO (XO (XO (XO (XO (XO (XO (XO
    (XO (XO (XI (XI (XI (XO XH))))))))))))))))), (Zpos (XI (XI (XI (XO (XI
    (XI (XI (XI (XI (XI (XI (XO (XO (XO (XO (XI
    XH)))))))))))))))))) :: (((Zpos (XO (XO (XO (XO (XO (XO (XO (XO (XO (XO
    (XO (XI (XO (XO (XO (XI XH))))))))))))))))), (Zpos (XI (XO (XI (XO (XI
    (XO (XI (XI (XO (XO (XI (XI (XO (XO (XO (XI
    XH)))))))))))))))))) :: []))))))))))))))))))))))))) :: ((((Zpos (XO (XO
    (XO (XO (XO (XO (XO (XO (XI (XO (XI (XI (XO (XO (XO (XI
    XH))))))))))))))))), (Zpos (XO (XO (XI (XO (XI (XO (XI (XO (XO (XO (XI
    (XO (XI (XO (XI (XI XH)))))))))))))))))), (((Zpos (XO (XO (XO (XO (XO (XO
    (XO (XO (XI (XO (XI (XI (XO (XO (XO (XI XH))))))))))))))))), (Zpos (XO
    (XO (XO (XI (XO (XO (XO (XO (XI (XO (XI (XI (XO (XO (XO (XI
    XH)))))))))))))))))) :: (((Zpos (XO (XO (XO (XO (XI (XI (XI (XI (XI (XI
    (XI (XI (XO (XI (XO (XI XH))))))))))))))))), (Zpos (XI (XI (XO (XO (XI
    (XI (XI (XI (XI (XI (XI (XI (XO (XI (XO (XI
    XH)))))))))))))))))) :: (((Zpos (XI (XO (XI (XO (XI (XI (XI (XI (XI (XI
    (XI (XI (XO (XI (XO (XI XH))))))))))))))))), (Zpos (XI (XI (XO (XI (XI
    (XI (XI (XI (XI (XI (XI (XI (XO (XI (XO (XI
    XH)))))))))))))))))) :: (((Zpos (XI (XO (XI (XI (XI (XI (XI (XI (XI (XI
    (XI (XI (XO (XI (XO (XI XH))))))))))))))))), (Zpos (XO (XI (XI (XI (XI
    (XI (XI (XI (XI (XI (XI (XI (XO (XI (XO (XI
    XH)))))))))))))))))) :: (((Zpos (XO (XO (XO (XO (XO (XO (XO (XO (XO (XO
    (XO (XO (XI (XI (XO (XI XH))))))))))))))))), (Zpos (XO (XI (XO (XO (XO
    (XI (XO (XO (XI (XO (XO (XO (XI (XI (XO (XI
    XH)))))))))))))))))) :: (((Zpos (XO (XI (XO (XO (XI (XI (XO (XO (XI (XO
    (XO (XO (XI (XI (XO (XI XH))))))))))))))))), (Zpos (XO (XI (XO (XO (XI
    (XI (XO (XO (XI (XO (XO (XO (XI (XI (XO (XI
    XH)))))))))))))))))) :: (((Zpos (XO (XO (XO (XO (XI (XO (XI (XO (XI (XO
    (XO (XO (XI (XI (XO (XI XH))))))))))))))))), (Zpos (XO (XI (XO (XO (XI
    (XO (XI (XO (XI (XO (XO (XO (XI (XI (XO (XI
    XH)))))))))))))))))) :: (((Zpos (XI (XO (XI (XO (XI (XO (XI (XO (XI (XO
    (XO (XO (XI (XI (XO (XI XH))))))))))))))))), (Zpos (XI (XO (XI (XO (XI
    (XO (XI (XO (XI (XO (XO (XO (XI (XI (XO (XI
    XH)))))))))))))))))) :: (((Zpos (XO (XO (XI (XO (XO (XI (XI (XO (XI (XO
    (XO (XO (XI (XI (XO (XI XH))))))))))))))))), (Zpos (XI (XI (XI (XO (XO
    (XI (XI (XO (XI (XO (XO (XO (XI (XI (XO (XI
    XH)))))))))))))))))) :: (((Zpos (XO (XO (XO (XO (XI (XI (XI (XO (XI (XO
    (XO (XO (XI (XI (XO (XI XH))))))))))))))))), (Zpos (XI (XI (XO (XI (XI
    (XI (XI (XI (XO (XI (XO (XO (XI (XI (XO (XI
    XH)))))))))))))))))) :: (((Zpos (XO (XO (XO (XO (XO (XO (XO (XO (XO (XO
    (XI (XI (XI (XI (XO (XI XH))))))))))))))))), (Zpos (XO (XI (XO (XI (XO
    (XI (XI (XO (XO (XO (XI (XI (XI (XI (XO (XI
    XH)))))))))))))))))) :: (((Zpos (XO (XO (XO (XO (XI (XI (XI (XO (XO (XO
    (XI (XI (XI (XI (XO (XI XH))))))))))))))))), (Zpos (XO (XO (XI (XI (XI
    (XI (XI (XO (XO (XO (XI (XI (XI (XI (XO (XI
    XH)))))))))))))))))) :: (((Zpos (XO (XO (XO (XO (XO (XO (XO (XI (XO (XO
    (XI (XI (XI (XI (XO (XI XH))))))))))))))))), (Zpos (XO (XO (XO (XI (XO
    (XO (XO (XI (XO (XO (XI (XI (XI (XI (XO (XI
    XH)))))))))))))))))) :: (((Zpos (XO (XO (XO (XO (XI (XO (XO (XI (XO (XO
    (XI (XI (XI (XI (XO (XI XH))))))))))))))))), (Zpos (XI (XO (XO (XI (XI
    (XO (XO (XI (XO (XO (XI (XI (XI (XI (XO (XI
    XH)))))))))))))))))) :: (((Zpos (XI (XO (XI (XI (XI (XO (XO (XI (XO (XO
    (XI (XI (XI (XI (XO (XI XH))))))))))))))))), (Zpos (XO (XI (XI (XI (XI
    (XO (XO (XI (XO (XO (XI (XI (XI (XI (XO (XI
    XH)))))))))))))))))) :: (((Zpos (XO (XO (XO (XO (XO (XO (XO (XO (XI (XI
    (XI (XI (XO (XO (XI (XI XH))))))))))))))))), (Zpos (XI (XO (XI (XI (XO
    (XI (XO (XO (XI (XI (XI (XI (XO (XO (XI (XI
    XH)))))))))))))))))) :: (((Zpos (XO (XO (XO (XO (XI (XI (XO (XO (XI (XI
    (XI (XI (XO (XO (XI (XI XH))))))))))))))))), (Zpos (XO (XI (XI (XO (XO
    (XO (XI (XO (XI (XI (XI (XI (XO (XO (XI (XI
    XH)))))))))))))))))) :: (((Zpos (XI (XO (XI (XO (XO (XI (XI (XO (XI (XO
    (XO (XO (XI (XO (XI (XI XH))))))))))))))))), (Zpos (XI (XO (XO (XI (XO
    (XI (XI (XO (XI (XO (XO (XO (XI (XO (XI (XI
    XH)))))))))))))))))) :: (((Zpos (XI (XO (XI (XI (XO (XI (XI (XO (XI (XO
    (XO (XO (XI (XO (XI (XI XH))))))))))))))))), (Zpos (XO (XI (XO (XO (XI
    (XI (XI (XO (XI (XO (XO (XO (XI (XO (XI (XI
    XH)))))))))))))))))) :: (((Zpos (XI (XI (XO (XI (XI (XI (XI (XO (XI (XO
    (XO (XO (XI (XO (XI (XI XH))))))))))))))))), (Zpos (XO (XI (XO (XO (XO
    (XO (XO (XI (XI (XO (XO (XO (XI (XO (XI (XI
    XH)))))))))))))))))) :: (((Zpos (XI (XO (XI (XO (XO (XO (XO (XI (XI (XO
    (XO (XO (XI (XO (XI (XI XH))))))))))))))))), (Zpos (XI (XI (XO (XI (XO
    (XO (XO (XI (XI (XO (XO (XO (XI (XO (XI (XI
    XH)))))))))))))))))) :: (((Zpos (XO (XI (XO (XI (XO (XI (XO (XI (XI (XO
    (XO (XO (XI (XO (XI (XI XH))))))))))))))))), (Zpos (XI (XO (XI (XI (XO
    (XI (XO (XI (XI (XO (XO (XO (XI (XO (XI (XI
    XH)))))))))))))))))) :: (((Zpos (XO (XI (XO (XO (XO (XO (XI (XO (XO (XI
    (XO (XO (XI (XO (XI (XI XH))))))))))))))))), (Zpos (XO (XO (XI (XO (XO
    (XO (XI (XO (XO (XI (XO (XO (XI (XO (XI (XI
    XH)))))))))))))))))) :: (((Zpos (XO (XO (XO (XO (XO (XO (XO (XO (XO (XO
    (XI (XO (XI (XO (XI (XI XH))))))))))))))))), (Zpos (XO (XO (XI (XO (XI
    (XO (XI (XO (XO (XO (XI (XO (XI (XO (XI (XI
    XH)))))))))))))))))) :: []))))))))))))))))))))))))) :: ((((Zpos (XO (XI
    (XI (XO (XI (XO (XI (XO (XO (XO (XI (XO (XI (XO (XI (XI
    XH))))))))))))))))), (Zpos (XO (XI (XI (XI (XO (XO (XI (XO (XI (XI (XI
    (XO (XI (XO (XI (XI XH)))))))))))))))))), (((Zpos (XO (XI (XI (XO (XI (XO
    (XI (XO (XO (XO (XI (XO (XI (XO (XI (XI XH))))))))))))))))), (Zpos (XO
    (XO (XI (XI (XI (XO (XO (XI (XO (XO (XI (XO (XI (XO (XI (XI
    XH)))))))))))))))))) :: (((Zpos (XO (XI (XI (XI (XI (XO (XO (XI (XO (XO
    (XI (XO (XI (XO (XI (XI XH))))))))))))))))), (Zpos (XI (XI (XI (XI (XI
    (XO (XO (XI (XO (XO (XI (XO (XI (XO (XI (XI
    XH)))))))))))))))))) :: (((Zpos (XO (XI (XO (XO (XO (XI (XO (XI (XO (XO
    (XI (XO (XI (XO (XI (XI XH))))))))))))))))), (Zpos (XO (XI (XO (XO (XO
    (XI (XO (XI (XO (XO (XI (XO (XI (XO (XI (XI
    XH)))))))))))))))))) :: (((Zpos (XI (XO (XI (XO (XO (XI (XO (XI (XO (XO
    (XI (XO (XI (XO (XI (XI XH))))))))))))))))), (Zpos (XO (XI (XI (XO (XO
    (XI (XO (XI (XO (XO (XI (XO (XI (XO (XI (XI
    XH)))))))))))))))))) :: (((Zpos (XI (XO (XO (XI (XO (XI (XO (XI (XO (XO
    (XI (XO (XI (XO (XI (XI XH))))))))))))))))), (Zpos (XO (XO (XI (XI (XO
    (XI (XO (XI (XO (XO (XI (XO (XI (XO (XI (XI
    XH)))))))))))))))))) :: (((Zpos (XO (XI (XI (XI (XO (XI (XO (XI (XO (XO
    (XI (XO (XI (XO (XI (XI XH))))))))))))))))), (Zpos (XI (XO (XO (XI (XI
    (XI (XO (XI (XO (XO (XI (XO (XI (XO (XI (XI
    XH)))))))))))))))))) :: (((Zpos (XI (XI (XO (XI (XI (XI (XO (XI (XO (XO
    (XI (XO (XI (XO (XI (XI XH))))))))))))))))), (Zpos (XI (XI (XO (XI (XI
    (XI (XO (XI (XO (XO (XI (XO (XI (XO (XI (XI
    XH)))))))))))))))))) :: (((Zpos (XI (XO (XI (XI (XI (XI (XO (XI (XO (XO
    (XI (XO (XI (XO (XI (XI XH))))))))))))))))), (Zpos (XI (XI (XO (XO (XO
    (XO (XI (XI (XO (XO (XI (XO (XI (XO (XI (XI
    XH)))))))))))))))))) :: (((Zpos (XI (XO (XI (XO (XO (XO (XI (XI (XO (XO
    (XI (XO (XI (XO (XI (XI XH))))))))))))))))), (Zpos (XI (XO (XI (XO (XO
    (XO (XO (XO (XI (XO (XI (XO (XI (XO (XI (XI
    XH)))))))))))))))))) :: (((Zpos (XI (XI (XI (XO (XO (XO (XO (XO (XI (XO
    (XI (XO (XI (XO (XI (XI XH))))))))))))))))), (Zpos (XO (XI (XO (XI (XO
    (XO (XO (XO (XI (XO (XI (XO (XI (XO (XI (XI
    XH)))))))))))))))))) :: (((Zpos (XI (XO (XI (XI (XO (XO (XO (XO (XI (XO
    (XI (XO (XI (XO (XI (XI XH))))))))))))))))), (Zpos (XO (XO (XI (XO (XI
    (XO (XO (XO (XI (XO (XI (XO (XI (XO (XI (XI
    XH)))))))))))))))))) :: (((Zpos (XO (XI (XI (XO (XI (XO (XO (XO (XI (XO
    (XI (XO (XI (XO (XI (XI XH))))))))))))))))), (Zpos (XO (XO (XI (XI (XI
    (XO (XO (XO (XI (XO (XI (XO (XI (XO (XI (XI
    XH)))))))))))))))))) :: (((Zpos (XO (XI (XI (XI (XI (XO (XO (XO (XI (XO
    (XI (XO (XI (XO (XI (XI XH))))))))))))))))), (Zpos (XI (XO (XO (XI (XI
    (XI (XO (XO (XI (XO (XI (XO (XI (XO (XI (XI
    XH)))))))))))))))))) :: (((Zpos (XI (XI (XO (XI (XI (XI (XO (XO (XI (XO
    (XI (XO (XI (XO (XI (XI XH))))))))))))))))), (Zpos (XO (XI (XI (XI (XI
    (XI (XO (XO (XI (XO (XI (XO (XI (XO (XI (XI
    XH)))))))))))))))))) :: (((Zpos (XO (XO (XO (XO (XO (XO (XI (XO (XI (XO
    (XI (XO (XI (XO (XI (XI XH))))))))))))))))), (Zpos (XO (XO (XI (XO (XO
    (XO (XI (XO (XI (XO (XI (XO (XI (XO (XI (XI
    XH)))))))))))))))))) :: (((Zpos (XO (XI (XI (XO (XO (XO (XI (XO (XI (XO
    (XI (XO (XI (XO (XI (XI XH))))))))))))))))), (Zpos (XO (XI (XI (XO (XO
    (XO (XI (XO (XI (XO (XI (XO (XI (XO (XI (XI
    XH)))))))))))))))))) :: (((Zpos (XO (XI (XO (XI (XO (XO (XI (XO (XI (XO
    (XI (XO (XI (XO (XI (XI XH))))))))))))))))), (Zpos (XO (XO (XO (XO (XI
    (XO (XI (XO (XI (XO (XI (XO (XI (XO (XI (XI
    XH)))))))))))))))))) :: (((Zpos (XO (XI (XO (XO (XI (XO (XI (XO (XI (XO
    (XI (XO (XI (XO (XI (XI XH))))))))))))))))), (Zpos (XI (XO (XI (XO (XO
    (XI (XO (XI (XO (XI (XI (XO (XI (XO (XI (XI
    XH)))))))))))))))))) :: (((Zpos (XO (XO (XO (XI (XO (XI (XO (XI (XO (XI
    (XI (XO (XI (XO (XI (XI XH))))))))))))))))), (Zpos (XO (XO (XO (XO (XO
    (XO (XI (XI (XO (XI (XI (XO (XI (XO (XI (XI
    XH)))))))))))))))))) :: (((Zpos (XO (XI (XO (XO (XO (XO (XI (XI (XO (XI
    (XI (XO (XI (XO (XI (XI XH))))))))))))))))), (Zpos (XO (XI (XO (XI (XI
    (XO (XI (XI (XO (XI (XI (XO (XI (XO (XI (XI
    XH)))))))))))))))))) :: (((Zpos (XO (XO (XI (XI (XI (XO (XI (XI (XO (XI
    (XI (XO (XI (XO (XI (XI XH))))))))))))))))), (Zpos (XO (XI (XO (XI (XI
    (XI (XI (XI (XO (XI (XI (XO (XI (XO (XI (XI
    XH)))))))))))))))))) :: (((Zpos (XO (XO (XI (XI (XI (XI (XI (XI (XO (XI
    (XI (XO (XI (XO (XI (XI XH))))))))))))))))), (Zpos (XO (XO (XI (XO (XI
    (XO (XO (XO (XI (XI (XI (XO (XI (XO (XI (XI
    XH)))))))))))))))))) :: (((Zpos (XO (XI (XI (XO (XI (XO (XO (XO (XI (XI
    (XI (XO (XI (XO (XI (XI XH))))))))))))))))), (Zpos (XO (XO (XI (XO (XI
    (XI (XO (XO (XI (XI (XI (XO (XI (XO (XI (XI
    XH)))))))))))))))))) :: (((Zpos (XO (XI (XI (XO (XI (XI (XO (XO (XI (XI
    (XI (XO (XI (XO (XI (XI XH))))))))))))))))), (Zpos (XO (XI (XI (XI (XO
    (XO (XI (XO (XI (XI (XI (XO (XI (XO (XI (XI
    XH)))))))))))))))))) :: []))))))))))))))))))))))))) :: ((((Zpos (XO (XO
    (XO (XO (XI (XO (XI (XO (XI (XI (XI (XO (XI (XO (XI (XI
    XH))))))))))))))))), (Zpos (XI (XO (XO (XI (XO (XO (XI (XO (XI (XO (XO
    (XO (XO (XI (XI (XI XH)))))))))))))))))), (((Zpos (XO (XO (XO (XO (XI (XO
    (XI (XO (XI (XI (XI (XO (XI (XO (XI (XI XH))))))))))))))))), (Zpos (XO
    (XI (XI (XI (XO (XI (XI (XO (XI (XI (XI (XO (XI (XO (XI (XI
    XH)))))))))))))))))) :: (((Zpos (XO (XO (XO (XO (XI (XI (XI (XO (XI (XI
    (XI (XO (XI (XO (XI (XI XH))))))))))))))))), (Zpos (XO (XO (XO (XI (XO
    (XO (XO (XI (XI (XI (XI (XO (XI (XO (XI (XI
    XH)))))))))))))))))) :: (((Zpos (XO (XI (XO (XI (XO (XO (XO (XI (XI (XI
    (XI (XO (XI (XO (XI (XI XH))))))))))))))))), (Zpos (XO (XO (XO (XI (XO
    (XI (XO (XI (XI (XI (XI (XO (XI (XO (XI (XI
    XH)))))))))))))))))) :: (((Zpos (XO (XI (XO (XI (XO (XI (XO (XI (XI (XI
    (XI (XO (XI (XO (XI (XI XH))))))))))))))))), (Zpos (XO (XI (XO (XO (XO
    (XO (XI (XI (XI (XI (XI (XO (XI (XO (XI (XI
    XH)))))))))))))))))) :: (((Zpos (XO (XO (XI (XO (XO (XO (XI (XI (XI (XI
    (XI (XO (XI (XO (XI (XI XH))))))))))))))))), (Zpos (XI (XI (XO (XI (XO
    (XO (XI (XI (XI (XI (XI (XO (XI (XO (XI (XI
    XH)))))))))))))))))) :: (((Zpos (XO (XI (XI (XI (XO (XO (XI (XI (XI (XI
    (XI (XO (XI (XO (XI (XI XH))))))))))))))))), (Zpos (XI (XI (XI (XI (XI
    (XI (XI (XI (XI (XI (XI (XO (XI (XO (XI (XI
    XH)))))))))))))))))) :: (((Zpos (XO (XO (XO (XO (XO (XO (XO (XO (XO (XI
    (XO (XI (XI (XO (XI (XI XH))))))))))))))))), (Zpos (XO (XI (XI (XO (XI
    (XI (XO (XO (XO (XI (XO (XI (XI (XO (XI (XI
    XH)))))))))))))))))) :: (((Zpos (XI (XI (XO (XI (XI (XI (XO (XO (XO (XI
    (XO (XI (XI (XO (XI (XI XH))))))))))))))))), (Zpos (XO (XO (XI (XI (XO
    (XI (XI (XO (XO (XI (XO (XI (XI (XO (XI (XI
    XH)))))))))))))))))) :: (((Zpos (XI (XO (XI (XO (XI (XI (XI (XO (XO (XI
    (XO (XI (XI (XO (XI (XI XH))))))))))))))))), (Zpos (XI (XO (XI (XO (XI
    (XI (XI (XO (XO (XI (XO (XI (XI (XO (XI (XI
    XH)))))))))))))))))) :: (((Zpos (XO (XO (XI (XO (XO (XO (XO (XI (XO (XI
    (XO (XI (XI (XO (XI (XI XH))))))))))))))))), (Zpos (XO (XO (XI (XO (XO
    (XO (XO (XI (XO (XI (XO (XI (XI (XO (XI (XI
    XH)))))))))))))))))) :: (((Zpos (XI (XI (XO (XI (XI (XO (XO (XI (XO (XI
    (XO (XI (XI (XO (XI (XI XH))))))))))))))))), (Zpos (XI (XI (XI (XI (XI
    (XO (XO (XI (XO (XI (XO (XI (XI (XO (XI (XI
    XH)))))))))))))))))) :: (((Zpos (XI (XO (XO (XO (XO (XI (XO (XI (XO (XI
    (XO (XI (XI (XO (XI (XI XH))))))))))))))))), (Zpos (XI (XI (XI (XI (XO
    (XI (XO (XI (XO (XI (XO (XI (XI (XO (XI (XI
    XH)))))))))))))))))) :: (((Zpos (XO (XO (XO (XO (XO (XO (XO (XO (XI (XI
    (XI (XI (XI (XO (XI (XI XH))))))))))))))))), (Zpos (XO (XI (XI (XI (XI
    (XO (XO (XO (XI (XI (XI (XI (XI (XO (XI (XI
    XH)))))))))))))))))) :: (((Zpos (XI (XO (XI (XO (XO (XI (XO (XO (XI (XI
    (XI (XI (XI (XO (XI (XI XH))))))))))))))))), (Zpos (XO (XI (XO (XI (XO
    (XI (XO (XO (XI (XI (XI (XI (XI (XO (XI (XI
    XH)))))))))))))))))) :: (((Zpos (XO (XO (XO (XO (XO (XO (XO (XO (XO (XO
    (XO (XO (XO (XI (XI (XI XH))))))))))))))))), (Zpos (XO (XI (XI (XO (XO
    (XO (XO (XO (XO (XO (XO (XO (XO (XI (XI (XI
    XH)))))))))))))))))) :: (((Zpos (XO (XO (XO (XI (XO (XO (XO (XO (XO (XO
    (XO (XO (XO (XI (XI (XI XH))))))))))))))))), (Zpos (XO (XO (XO (XI (XI
    (XO (XO (XO (XO (XO (XO (XO (XO (XI (XI (XI
    XH)))))))))))))))))) :: (((Zpos (XI (XI (XO (XI (XI (XO (XO (XO (XO (XO
    (XO (XO (XO (XI (XI (XI XH))))))))))))))))), (Zpos (XI (XO (XO (XO (XO
    (XI (XO (XO (XO (XO (XO (XO (XO (XI (XI (XI
    XH)))))))))))))))))) :: (((Zpos (XI (XI (XO (XO (XO (XI (XO (XO (XO (XO
    (XO (XO (XO (XI (XI (XI XH))))))))))))))))), (Zpos (XO (XO (XI (XO (XO
    (XI (XO (XO (XO (XO (XO (XO (XO (XI (XI (XI
    XH)))))))))))))))))) :: (((Zpos (XO (XI (XI (XO (XO (XI (XO (XO (XO (XO
    (XO (XO (XO (XI (XI (XI XH))))))))))))))))), (Zpos (XO (XI (XO (XI (XO
    (XI (XO (XO (XO (XO (XO (XO (XO (XI (XI (XI
    XH)))))))))))))))))) :: (((Zpos (XO (XO (XO (XO (XI (XI (XO (XO (XO (XO
    (XO (XO (XO (XI (XI (XI XH))))))))))))))))), (Zpos (XI (XO (XI (XI (XO
    (XI (XI (XO (XO (XO (XO (XO (XO (XI (XI (XI
    XH)))))))))))))))))) :: (((Zpos (XI (XI (XI (XI (XO (XO (XO (XI (XO (XO
    (XO (XO (XO (XI (XI (XI XH))))))))))))))))), (Zpos (XI (XI (XI (XI (XO
    (XO (XO (XI (XO (XO (XO (XO (XO (XI (XI (XI
    XH)))))))))))))))))) :: (((Zpos (XO (XO (XO (XO (XO (XO (XO (XO (XI (XO
    (XO (XO (XO (XI (XI (XI XH))))))))))))))))), (Zpos (XO (XO (XI (XI (XO
    (XI (XO (XO (XI (XO (XO (XO (XO (XI (XI (XI
    XH)))))))))))))))))) :: (((Zpos (XO (XO (XO (XO (XI (XI (XO (XO (XI (XO
    (XO (XO (XO (XI (XI (XI XH))))))))))))))))), (Zpos (XI (XO (XI (XI (XI
    (XI (XO (XO (XI (XO (XO (XO (XO (XI (XI (XI
    XH)))))))))))))))))) :: (((Zpos (XO (XO (XO (XO (XO (XO (XI (XO (XI (XO
    (XO (XO (XO (XI (XI (XI XH))))))))))))))))), (Zpos (XI (XO (XO (XI (XO
    (XO (XI (XO (XI (XO (XO (XO (XO (XI (XI (XI
    XH)))))))))))))))))) :: []))))))))))))))))))))))))) :: ((((Zpos (XO (XI
    (XI (XI (XO (XO (XI (XO (XI (XO (XO (XO (XO (XI (XI (XI
    XH))))))))))))))))), (Zpos (XI (XO (XO (XI (XO (XO (XI (XO (XO (XI (XI
    (XI (XO (XI (XI (XI XH)))))))))))))))))), (((Zpos (XO (XI (XI (XI (XO (XO
    (XI (XO (XI (XO (XO (XO (XO (XI (XI (XI XH))))))))))))))))), (Zpos (XO
    (XI (XI (XI (XO (XO (XI (XO (XI (XO (XO (XO (XO (XI (XI (XI
    XH)))))))))))))))))) :: (((Zpos (XO (XO (XO (XO (XI (XO (XO (XI (XO (XI
    (XO (XO (XO (XI (XI (XI XH))))))))))))))))), (Zpos (XO (XI (XI (XI (XO
    (XI (XO (XI (XO (XI (XO (XO (XO (XI (XI (XI
    XH)))))))))))))))))) :: (((Zpos (XO (XO (XO (XO (XO (XO (XI (XI (XO (XI
    (XO (XO (XO (XI (XI (XI XH))))))))))))))))), (Zpos (XI (XO (XO (XI (XI
    (XI (XI (XI (XO (XI (XO (XO (XO (XI (XI (XI
    XH)))))))))))))))))) :: (((Zpos (XO (XO (XO (XO (XI (XO (XI (XI (XO (XO
    (XI (XO (XO (XI (XI (XI XH))))))))))))))))), (Zpos (XI (XO (XO (XI (XI
    (XI (XI (XI (XO (XO (XI (XO (XO (XI (XI (XI
    XH)))))))))))))))))) :: (((Zpos (XO (XO (XO (XO (XO (XI (XI (XI (XI (XI
    (XI (XO (XO (XI (XI (XI XH))))))))))))))))), (Zpos (XO (XI (XI (XO (XO
    (XI (XI (XI (XI (XI (XI (XO (XO (XI (XI (XI
    XH)))))))))))))))))) :: (((Zpos (XO (XO (XO (XI (XO (XI (XI (XI (XI (XI
    (XI (XO (XO (XI (XI (XI XH))))))))))))))))), (Zpos (XI (XI (XO (XI (XO
    (XI (XI (XI (XI (XI (XI (XO (XO (XI (XI (XI
    XH)))))))))))))))))) :: (((Zpos (XI (XO (XI (XI (XO (XI (XI (XI (XI (XI
    (XI (XO (XO (XI (XI (XI XH))))))))))))))))), (Zpos (XO (XI (XI (XI (XO
    (XI (XI (XI (XI (XI (XI (XO (XO (XI (XI (XI
    XH)))))))))))))))))) :: (((Zpos (XO (XO (XO (XO (XI (XI (XI (XI (XI (XI
    (XI (XO (XO (XI (XI (XI XH))))))))))))))))), (Zpos (XO (XI (XI (XI (XI
    (XI (XI (XI (XI (XI (XI (XO (XO (XI (XI (XI
    XH)))))))))))))))))) :: (((Zpos (XO (XO (XO (XO (XO (XO (XO (XO (XO (XO
    (XO (XI (XO (XI (XI (XI XH))))))))))))))))), (Zpos (XO (XO (XI (XO (XO
    (XO (XI (XI (XO (XO (XO (XI (XO (XI (XI (XI
    XH)))))))))))))))))) :: (((Zpos (XO (XO (XO (XO (XI (XO (XI (XI (XO (XO
    (XO (XI (XO (XI (XI (XI XH))))))))))))))))), (Zpos (XO (XI (XI (XO (XI
    (XO (XI (XI (XO (XO (XO (XI (XO (XI (XI (XI
    XH)))))))))))))))))) :: (((Zpos (XO (XO (XO (XO (XO (XO (XO (XO (XI (XO
    (XO (XI (XO (XI (XI (XI XH))))))))))))))))), (Zpos (XI (XI (XO (XI (XO
    (XO (XI (XO (XI (XO (XO (XI (XO (XI (XI (XI
    XH)))))))))))))))))) :: (((Zpos (XO (XO (XO (XO (XI (XO (XI (XO (XI (XO
    (XO (XI (XO (XI (XI (XI XH))))))))))))))))), (Zpos (XI (XO (XO (XI (XI
    (XO (XI (XO (XI (XO (XO (XI (XO (XI (XI (XI
    XH)))))))))))))))))) :: (((Zpos (XO (XO (XO (XO (XO (XO (XO (XO (XO (XI
    (XI (XI (XO (XI (XI (XI XH))))))))))))))))), (Zpos (XI (XI (XO (XO (XO
    (XO (XO (XO (XO (XI (XI (XI (XO (XI (XI (XI
    XH)))))))))))))))))) :: (((Zpos (XI (XO (XI (XO (XO (XO (XO (XO (XO (XI
    (XI (XI (XO (XI (XI (XI XH))))))))))))))))), (Zpos (XI (XI (XI (XI (XI
    (XO (XO (XO (XO (XI (XI (XI (XO (XI (XI (XI
    XH)))))))))))))))))) :: (((Zpos (XI (XO (XO (XO (XO (XI (XO (XO (XO (XI
    (XI (XI (XO (XI (XI (XI XH))))))))))))))))), (Zpos (XO (XI (XO (XO (XO
    (XI (XO (XO (XO (XI (XI (XI (XO (XI (XI (XI
    XH)))))))))))))))))) :: (((Zpos (XO (XO (XI (XO (XO (XI (XO (XO (XO (XI
    (XI (XI (XO (XI (XI (XI XH))))))))))))))))), (Zpos (XO (XO (XI (XO (XO
    (XI (XO (XO (XO (XI (XI (XI (XO (XI (XI (XI
    XH)))))))))))))))))) :: (((Zpos (XI (XI (XI (XO (XO (XI (XO (XO (XO (XI
    (XI (XI (XO (XI (XI (XI XH))))))))))))))))), (Zpos (XI (XI (XI (XO (XO
    (XI (XO (XO (XO (XI (XI (XI (XO (XI (XI (XI
    XH)))))))))))))))))) :: (((Zpos (XI (XO (XO (XI (XO (XI (XO (XO (XO (XI
    (XI (XI (XO (XI (XI (XI XH))))))))))))))))), (Zpos (XO (XI (XO (XO (XI
    (XI (XO (XO (XO (XI (XI (XI (XO (XI (XI (XI
    XH)))))))))))))))))) :: (((Zpos (XO (XO (XI (XO (XI (XI (XO (XO (XO (XI
    (XI (XI (XO (XI (XI (XI XH))))))))))))))))), (Zpos (XI (XI (XI (XO (XI
    (XI (XO (XO (XO (XI (XI (XI (XO (XI (XI (XI
    XH)))))))))))))))))) :: (((Zpos (XI (XO (XO (XI (XI (XI (XO (XO (XO (XI
    (XI (XI (XO (XI (XI (XI XH))))))))))))))))), (Zpos (XI (XO (XO (XI (XI
    (XI (XO (XO (XO (XI (XI (XI (XO (XI (XI (XI
    XH)))))))))))))))))) :: (((Zpos (XI (XI (XO (XI (XI (XI (XO (XO (XO (XI
    (XI (XI (XO (XI (XI (XI XH))))))))))))))))), (Zpos (XI (XI (XO (XI (XI
    (XI (XO (XO (XO (XI (XI (XI (XO (XI (XI (XI
    XH)))))))))))))))))) :: (((Zpos (XO (XI (XO (XO (XO (XO (XI (XO (XO (XI
    (XI (XI (XO (XI (XI (XI XH))))))))))))))))), (Zpos (XO (XI (XO (XO (XO
    (XO (XI (XO (XO (XI (XI (XI (XO (XI (XI (XI
    XH)))))))))))))))))) :: (((Zpos (XI (XI (XI (XO (XO (XO (XI (XO (XO (XI
    (XI (XI (XO (XI (XI (XI XH))))))))))))))))), (Zpos (XI (XI (XI (XO (XO
    (XO (XI (XO (XO (XI (XI (XI (XO (XI (XI (XI
    XH)))))))))))))))))) :: (((Zpos (XI (XO (XO (XI (XO (XO (XI (XO (XO (XI
    (XI (XI (XO (XI (XI (XI XH))))))))))))))))), (Zpos (XI (XO (XO (XI (XO
    (XO (XI (XO (XO (XI (XI (XI (XO (XI (XI (XI
    XH)))))))))))))))))) :: []))))))))))))))))))))))))) :: ((((Zpos (XI (XI
    (XO (XI (XO (XO (XI (XO (XO (XI (XI (XI (XO (XI (XI (XI
    XH))))))))))))))))), (Zpos (XI (XO (XO (XI (XI (XI (XO (XO (XI (XI (XI
    (XO (XI (XI (XO (XI (XO XH))))))))))))))))))), (((Zpos (XI (XI (XO (XI
    (XO (XO (XI (XO (XO (XI (XI (XI (XO (XI (XI (XI XH))))))))))))))))),
    (Zpos (XI (XI (XO (XI (XO (XO (XI (XO (XO (XI (XI (XI (XO (XI (XI (XI
    XH)))))))))))))))))) :: (((Zpos (XI (XO (XI (XI (XO (XO (XI (XO (XO (XI
    (XI (XI (XO (XI (XI (XI XH))))))))))))))))), (Zpos (XI (XI (XI (XI (XO
    (XO (XI (XO (XO (XI (XI (XI (XO (XI (XI (XI
    XH)))))))))))))))))) :: (((Zpos (XI (XO (XO (XO (XI (XO (XI (XO (XO (XI
    (XI (XI (XO (XI (XI (XI XH))))))))))))))))), (Zpos (XO (XI (XO (XO (XI
    (XO (XI (XO (XO (XI (XI (XI (XO (XI (XI (XI
    XH)))))))))))))))))) :: (((Zpos (XO (XO (XI (XO (XI (XO (XI (XO (XO (XI
    (XI (XI (XO (XI (XI (XI XH))))))))))))))))), (Zpos (XO (XO (XI (XO (XI
    (XO (XI (XO (XO (XI (XI (XI (XO (XI (XI (XI
    XH)))))))))))))))))) :: (((Zpos (XI (XI (XI (XO (XI (XO (XI (XO (XO (XI
    (XI (XI (XO (XI (XI (XI XH))))))))))))))))), (Zpos (XI (XI (XI (XO (XI
    (XO (XI (XO (XO (XI (XI (XI (XO (XI (XI (XI
    XH)))))))))))))))))) :: (((Zpos (XI (XO (XO (XI (XI (XO (XI (XO (XO (XI
    (XI (XI (XO (XI (XI (XI XH))))))))))))))))), (Zpos (XI (XO (XO (XI (XI
    (XO (XI (XO (XO (XI (XI (XI (XO (XI (XI (XI
    XH)))))))))))))))))) :: (((Zpos (XI (XI (XO (XI (XI (XO (XI (XO (XO (XI
    (XI (XI (XO (XI (XI (XI XH))))))))))))))))), (Zpos (XI (XI (XO (XI (XI
    (XO (XI (XO (XO (XI (XI (XI (XO (XI (XI (XI
    XH)))))))))))))))))) :: (((Zpos (XI (XO (XI (XI (XI (XO (XI (XO (XO (XI
    (XI (XI (XO (XI (XI (XI XH))))))))))))))))), (Zpos (XI (XO (XI (XI (XI
    (XO (XI (XO (XO (XI (XI (XI (XO (XI (XI (XI
    XH)))))))))))))))))) :: (((Zpos (XI (XI (XI (XI (XI (XO (XI (XO (XO (XI
    (XI (XI (XO (XI (XI (XI XH))))))))))))))))), (Zpos (XI (XI (XI (XI (XI
    (XO (XI (XO (XO (XI (XI (XI (XO (XI (XI (XI
    XH)))))))))))))))))) :: (((Zpos (XI (XO (XO (XO (XO (XI (XI (XO (XO (XI
    (XI (XI (XO (XI (XI (XI XH))))))))))))))))), (Zpos (XO (XI (XO (XO (XO
    (XI (XI (XO (XO (XI (XI (XI (XO (XI (XI (XI
    XH)))))))))))))))))) :: (((Zpos (XO (XO (XI (XO (XO (XI (XI (XO (XO (XI
    (XI (XI (XO (XI (XI (XI XH))))))))))))))))), (Zpos (XO (XO (XI (XO (XO
    (XI (XI (XO (XO (XI (XI (XI (XO (XI (XI (XI
    XH)))))))))))))))))) :: (((Zpos (XI (XI (XI (XO (XO (XI (XI (XO (XO (XI
    (XI (XI (XO (XI (XI (XI XH))))))))))))))))), (Zpos (XO (XI (XO (XI (XO
    (XI (XI (XO (XO (XI (XI (XI (XO (XI (XI (XI
    XH)))))))))))))))))) :: (((Zpos (XO (XO (XI (XI (XO (XI (XI (XO (XO (XI
    (XI (XI (XO (XI (XI (XI XH))))))))))))))))), (Zpos (XO (XI (XO (XO (XI
    (XI (XI (XO (XO (XI (XI (XI (XO (XI (XI (XI
    XH)))))))))))))))))) :: (((Zpos (XO (XO (XI (XO (XI (XI (XI (XO (XO (XI
    (XI (XI (XO (XI (XI (XI XH))))))))))))))))), (Zpos (XI (XI (XI (XO (XI
    (XI (XI (XO (XO (XI (XI (XI (XO (XI (XI (XI
    XH)))))))))))))))))) :: (((Zpos (XI (XO (XO (XI (XI (XI (XI (XO (XO (XI
    (XI (XI (XO (XI (XI (XI XH))))))))))))))))), (Zpos (XO (XO (XI (XI (XI
    (XI (XI (XO (XO (XI (XI (XI (XO (XI (XI (XI
    XH)))))))))))))))))) :: (((Zpos (XO (XI (XI (XI (XI (XI (XI (XO (XO (XI
    (XI (XI (XO (XI (XI (XI XH))))))))))))))))), (Zpos (XO (XI (XI (XI (XI
    (XI (XI (XO (XO (XI (XI (XI (XO (XI (XI (XI
    XH)))))))))))))))))) :: (((Zpos (XO (XO (XO (XO (XO (XO (XO (XI (XO (XI
    (XI (XI (XO (XI (XI (XI XH))))))))))))))))), (Zpos (XI (XO (XO (XI (XO
    (XO (XO (XI (XO (XI (XI (XI (XO (XI (XI (XI
    XH)))))))))))))))))) :: (((Zpos (XI (XI (XO (XI (XO (XO (XO (XI (XO (XI
    (XI (XI (XO (XI (XI (XI XH))))))))))))))))), (Zpos (XI (XI (XO (XI (XI
    (XO (XO (XI (XO (XI (XI (XI (XO (XI (XI (XI
    XH)))))))))))))))))) :: (((Zpos (XI (XO (XO (XO (XO (XI (XO (XI (XO (XI
    (XI (XI (XO (XI (XI (XI XH))))))))))))))))), (Zpos (XI (XI (XO (XO (XO
    (XI (XO (XI (XO (XI (XI (XI (XO (XI (XI (XI
    XH)))))))))))))))))) :: (((Zpos (XI (XO (XI (XO (XO (XI (XO (XI (XO (XI
    (XI (XI (XO (XI (XI (XI XH))))))))))))))))), (Zpos (XI (XO (XO (XI (XO
    (XI (XO (XI (XO (XI (XI (XI (XO (XI (XI (XI
    XH)))))))))))))))))) :: (((Zpos (XI (XI (XO (XI (XO (XI (XO (XI (XO (XI
    (XI (XI (XO (XI (XI (XI XH))))))))))))))))), (Zpos (XI (XI (XO (XI (XI
    (XI (XO (XI (XO (XI (XI (XI (XO (XI (XI (XI
    XH)))))))))))))))))) :: (((Zpos (XO (XO (XO (XO (XI (XI (XI (XI (XI (XI
    (XO (XI (XI (XI (XI (XI XH))))))))))))))))), (Zpos (XI (XO (XO (XI (XI
    (XI (XI (XI (XI (XI (XO (XI (XI (XI (XI (XI
    XH)))))))))))))))))) :: (((Zpos (XO (XO (XO (XO (XO (XO (XO (XO (XO (XO
    (XO (XO (XO (XO (XO (XO (XO XH)))))))))))))))))), (Zpos (XI (XI (XI (XI
    (XI (XO (XI (XI (XO (XI (XI (XO (XO (XI (XO (XI (XO
    XH))))))))))))))))))) :: (((Zpos (XO (XO (XO (XO (XO (XO (XO (XO (XI (XI
    (XI (XO (XO (XI (XO (XI (XO XH)))))))))))))))))), (Zpos (XI (XO (XO (XI
    (XI (XI (XO (XO (XI (XI (XI (XO (XI (XI (XO (XI (XO
    XH))))))))))))))))))) :: []))))))))))))))))))))))))) :: ((((Zpos (XO (XO
    (XO (XO (XO (XO (XI (XO (XI (XI (XI (XO (XI (XI (XO (XI (XO
    XH)))))))))))))))))), (Zpos (XI (XI (XI (XI (XO (XI (XI (XI (XI (XO (XO
    (XO (XO (XO (XO (XO (XO (XI (XI XH))))))))))))))))))))), (((Zpos (XO (XO
    (XO (XO (XO (XO (XI (XO (XI (XI (XI (XO (XI (XI (XO (XI (XO
    XH)))))))))))))))))), (Zpos (XI (XO (XI (XI (XI (XO (XO (XO (XO (XO (XO
    (XI (XI (XI (XO (XI (XO XH))))))))))))))))))) :: (((Zpos (XO (XO (XO (XO
    (XO (XI (XO (XO (XO (XO (XO (XI (XI (XI (XO (XI (XO XH)))))))))))))))))),
    (Zpos (XI (XO (XO (XO (XO (XI (XO (XI (XO (XI (XI (XI (XO (XO (XI (XI (XO
    XH))))))))))))))))))) :: (((Zpos (XO (XO (XO (XO (XI (XI (XO (XI (XO (XI
    (XI (XI (XO (XO (XI (XI (XO XH)))))))))))))))))), (Zpos (XO (XO (XO (XO
    (XO (XI (XI (XI (XI (XI (XO (XI (XO (XI (XI (XI (XO
    XH))))))))))))))))))) :: (((Zpos (XO (XO (XO (XO (XO (XO (XO (XO (XO (XO
    (XO (XI (XI (XI (XI (XI (XO XH)))))))))))))))))), (Zpos (XI (XO (XI (XI
    (XI (XO (XO (XO (XO (XI (XO (XI (XI (XI (XI (XI (XO
    XH))))))))))))))))))) :: (((Zpos (XO (XO (XO (XO (XO (XO (XO (XO (XO (XO
    (XO (XO (XO (XO (XO (XO (XI XH)))))))))))))))))), (Zpos (XO (XI (XO (XI
    (XO (XO (XI (XO (XI (XI (XO (XO (XI (XO (XO (XO (XI
    XH))))))))))))))))))) :: (((Zpos (XO (XO (XO (XO (XI (XO (XI (XO (XI (XI
    (XO (XO (XI (XO (XO (XO (XI XH)))))))))))))))))), (Zpos (XI (XI (XI (XI
    (XO (XI (XO (XI (XI (XI (XO (XO (XO (XI (XO (XO (XI
    XH))))))))))))))))))) :: (((Zpos (XO (XO (XO (XO (XO (XO (XO (XO (XI (XO
    (XO (XO (XO (XO (XO (XO (XO (XI (XI XH)))))))))))))))))))), (Zpos (XI (XI
    (XI (XI (XO (XI (XI (XI (XI (XO (XO (XO (XO (XO (XO (XO (XO (XI (XI
    XH))))))))))))))))))))) :: [])))))))) :: []))))))))))))))))))))))))))))))))

(** val is_print_tab : ((z * z) * (z * z) list) list **)

let is_print_tab =
  (((Zpos (XO (XO (XO (XO (XO XH)))))), (Zpos (XO (XI (XI (XI (XI (XO (XI (XO
    (XO (XO (XO XH))))))))))))), (((Zpos (XO (XO (XO (XO (XO XH)))))), (Zpos
    (XO (XI (XI (XI (XI (XI XH)))))))) :: (((Zpos (XI (XO (XO (XO (XO (XI (XO
    XH)))))))), (Zpos (XO (XO (XI (XI (XO (XI (XO XH))))))))) :: (((Zpos (XO
    (XI (XI (XI (XO (XI (XO XH)))))))), (Zpos (XI (XI (XI (XO (XI (XI (XI (XO
    (XI XH))))))))))) :: (((Zpos (XO (XI (XO (XI (XI (XI (XI (XO (XI
    XH)))))))))), (Zpos (XI (XI (XI (XI (XI (XI (XI (XO (XI
    XH))))))))))) :: (((Zpos (XO (XO (XI (XO (XO (XO (XO (XI (XI
    XH)))))))))), (Zpos (XO (XI (XO (XI (XO (XO (XO (XI (XI
    XH))))))))))) :: (((Zpos (XO (XO (XI (XI (XO (XO (XO (XI (XI
    XH)))))))))), (Zpos (XO (XO (XI (XI (XO (XO (XO (XI (XI
    XH))))))))))) :: (((Zpos (XO (XI (XI (XI (XO (XO (XO (XI (XI
    XH)))))))))), (Zpos (XI (XO (XO (XO (XO (XI (XO (XI (XI
    XH))))))))))) :: (((Zpos (XI (XI (XO (XO (XO (XI (XO (XI (XI
    XH)))))))))), (Zpos (XI (XI (XI (XI (XO (XI (XO (XO (XI (XO
    XH)))))))))))) :: (((Zpos (XI (XO (XO (XO (XI (XI (XO (XO (XI (XO
    XH))))))))))), (Zpos (XO (XI (XI (XO (XI (XO (XI (XO (XI (XO
    XH)))))))))))) :: (((Zpos (XI (XO (XO (XI (XI (XO (XI (XO (XI (XO
    XH))))))))))), (Zpos (XO (XI (XO (XI (XO (XO (XO (XI (XI (XO
    XH)))))))))))) :: (((Zpos (XI (XO (XI (XI (XO (XO (XO (XI (XI (XO
    XH))))))))))), (Zpos (XI (XI (XI (XI (XO (XO (XO (XI (XI (XO
    XH)))))))))))) :: (((Zpos (XI (XO (XO (XO (XI (XO (XO (XI (XI (XO
    XH))))))))))), (Zpos (XI (XI (XI (XO (XO (XO (XI (XI (XI (XO
    XH)))))))))))) :: (((Zpos (XO (XO (XO (XO (XI (XO (XI (XI (XI (XO
    XH))))))))))), (Zpos (XO (XI (XO (XI (XO (XI (XI (XI (XI (XO
    XH)))))))))))) :: (((Zpos (XI (XI (XI (XI (XO (XI (XI (XI (XI (XO
    XH))))))))))), (Zpos (XO (XO (XI (XO (XI (XI (XI (XI (XI (XO
    XH)))))))))))) :: (((Zpos (XO (XI (XI (XO (XO (XO (XO (XO (XO (XI
    XH))))))))))), (Zpos (XI (XI (XO (XI (XI (XO (XO (XO (XO (XI
    XH)))))))))))) :: (((Zpos (XI (XO (XI (XI (XI (XO (XO (XO (XO (XI
    XH))))))))))), (Zpos (XO (XO (XI (XI (XI (XO (XI (XI (XO (XI
    XH)))))))))))) :: (((Zpos (XO (XI (XI (XI (XI (XO (XI (XI (XO (XI
    XH))))))))))), (Zpos (XI (XO (XI (XI (XO (XO (XO (XO (XI (XI
    XH)))))))))))) :: (((Zpos (XO (XO (XO (XO (XI (XO (XO (XO (XI (XI
    XH))))))))))), (Zpos (XO (XI (XO (XI (XO (XO (XI (XO (XI (XI
    XH)))))))))))) :: (((Zpos (XI (XO (XI (XI (XO (XO (XI (XO (XI (XI
    XH))))))))))), (Zpos (XI (XO (XO (XO (XI (XI (XO (XI (XI (XI
    XH)))))))))))) :: (((Zpos (XO (XO (XO (XO (XO (XO (XI (XI (XI (XI
    XH))))))))))), (Zpos (XO (XI (XO (XI (XI (XI (XI (XI (XI (XI
    XH)))))))))))) :: (((Zpos (XI (XO (XI (XI (XI (XI (XI (XI (XI (XI
    XH))))))))))), (Zpos (XI (XO (XI (XI (XO (XI (XO (XO (XO (XO (XO
    XH))))))))))))) :: (((Zpos (XO (XO (XO (XO (XI (XI (XO (XO (XO (XO (XO
    XH)))))))))))), (Zpos (XO (XI (XI (XI (XI (XI (XO (XO (XO (XO (XO
    XH))))))))))))) :: (((Zpos (XO (XO (XO (XO (XO (XO (XI (XO (XO (XO (XO
    XH)))))))))))), (Zpos (XI (XI (XO (XI (XI (XO (XI (XO (XO (XO (XO
    XH))))))))))))) :: (((Zpos (XO (XI (XI (XI (XI (XO (XI (XO (XO (XO (XO
    XH)))))))))))), (Zpos (XO (XI (XI (XI (XI (XO (XI (XO (XO (XO (XO
    XH))))))))))))) :: []))))))))))))))))))))))))) :: ((((Zpos (XO (XO (XO
    (XO (XO (XI (XI (XO (XO (XO (XO XH)))))))))))), (Zpos (XO (XI (XI (XO (XI
    (XI (XO (XO (XO (XI (XO XH))))))))))))), (((Zpos (XO (XO (XO (XO (XO (XI
    (XI (XO (XO (XO (XO XH)))))))))))), (Zpos (XO (XI (XO (XI (XO (XI (XI (XO
    (XO (XO (XO XH))))))))))))) :: (((Zpos (XO (XO (XO (XO (XI (XI (XI (XO
    (XO (XO (XO XH)))))))))))), (Zpos (XO (XI (XI (XI (XO (XO (XO (XI (XO (XO
    (XO XH))))))))))))) :: (((Zpos (XO (XO (XO (XI (XI (XO (XO (XI (XO (XO
    (XO XH)))))))))))), (Zpos (XI (XO (XO (XO (XO (XI (XI (XI (XO (XO (XO
    XH))))))))))))) :: (((Zpos (XI (XI (XO (XO (XO (XI (XI (XI (XO (XO (XO
    XH)))))))))))), (Zpos (XI (XI (XO (XO (XO (XO (XO (XI (XI (XO (XO
    XH))))))))))))) :: (((Zpos (XI (XO (XI (XO (XO (XO (XO (XI (XI (XO (XO
    XH)))))))))))), (Zpos (XO (XO (XI (XI (XO (XO (XO (XI (XI (XO (XO
    XH))))))))))))) :: (((Zpos (XI (XI (XI (XI (XO (XO (XO (XI (XI (XO (XO
    XH)))))))))))), (Zpos (XO (XO (XO (XO (XI (XO (XO (XI (XI (XO (XO
    XH))))))))))))) :: (((Zpos (XI (XI (XO (XO (XI (XO (XO (XI (XI (XO (XO
    XH)))))))))))), (Zpos (XO (XO (XO (XI (XO (XI (XO (XI (XI (XO (XO
    XH))))))))))))) :: (((Zpos (XO (XI (XO (XI (XO (XI (XO (XI (XI (XO (XO
    XH)))))))))))), (Zpos (XO (XO (XO (XO (XI (XI (XO (XI (XI (XO (XO
    XH))))))))))))) :: (((Zpos (XO (XI (XO (XO (XI (XI (XO (XI (XI (XO (XO
    XH)))))))))))), (Zpos (XO (XI (XO (XO (XI (XI (XO (XI (XI (XO (XO
    XH))))))))))))) :: (((Zpos (XO (XI (XI (XO (XI (XI (XO (XI (XI (XO (XO
    XH)))))))))))), (Zpos (XI (XO (XO (XI (XI (XI (XO (XI (XI (XO (XO
    XH))))))))))))) :: (((Zpos (XO (XO (XI (XI (XI (XI (XO (XI (XI (XO (XO
    XH)))))))))))), (Zpos (XO (XO (XI (XO (XO (XO (XI (XI (XI (XO (XO
    XH))))))))))))) :: (((Zpos (XI (XI (XI (XO (XO (XO (XI (XI (XI (XO (XO
    XH)))))))))))), (Zpos (XO (XO (XO (XI (XO (XO (XI (XI (XI (XO (XO
    XH))))))))))))) :: (((Zpos (XI (XI (XO (XI (XO (XO (XI (XI (XI (XO (XO
    XH)))))))))))), (Zpos (XO (XI (XI (XI (XO (XO (XI (XI (XI (XO (XO
    XH))))))))))))) :: (((Zpos (XI (XI (XI (XO (XI (XO (XI (XI (XI (XO (XO
    XH)))))))))))), (Zpos (XI (XI (XI (XO (XI (XO (XI (XI (XI (XO (XO
    XH))))))))))))) :: (((Zpos (XO (XO (XI (XI (XI (XO (XI (XI (XI (XO (XO
    XH)))))))))))), (Zpos (XI (XO (XI (XI (XI (XO (XI (XI (XI (XO (XO
    XH))))))))))))) :: (((Zpos (XI (XI (XI (XI (XI (XO (XI (XI (XI (XO (XO
    XH)))))))))))), (Zpos (XI (XI (XO (XO (XO (XI (XI (XI (XI (XO (XO
    XH))))))))))))) :: (((Zpos (XO (XI (XI (XO (XO (XI (XI (XI (XI (XO (XO
    XH)))))))))))), (Zpos (XO (XI (XI (XI (XI (XI (XI (XI (XI (XO (XO
    XH))))))))))))) :: (((Zpos (XI (XO (XO (XO (XO (XO (XO (XO (XO (XI (XO
    XH)))))))))))), (Zpos (XI (XI (XO (XO (XO (XO (XO (XO (XO (XI (XO
    XH))))))))))))) :: (((Zpos (XI (XO (XI (XO (XO (XO (XO (XO (XO (XI (XO
    XH)))))))))))), (Zpos (XO (XI (XO (XI (XO (XO (XO (XO (XO (XI (XO
    XH))))))))))))) :: (((Zpos (XI (XI (XI (XI (XO (XO (XO (XO (XO (XI (XO
    XH)))))))))))), (Zpos (XO (XO (XO (XO (XI (XO (XO (XO (XO (XI (XO
    XH))))))))))))) :: (((Zpos (XI (XI (XO (XO (XI (XO (XO (XO (XO (XI (XO
    XH)))))))))))), (Zpos (XO (XO (XO (XI (XO (XI (XO (XO (XO (XI (XO
    XH))))))))))))) :: (((Zpos (XO (XI (XO (XI (XO (XI (XO (XO (XO (XI (XO
    XH)))))))))))), (Zpos (XO (XO (XO (XO (XI (XI (XO (XO (XO (XI (XO
    XH))))))))))))) :: (((Zpos (XO (XI (XO (XO (XI (XI (XO (XO (XO (XI (XO
    XH)))))))))))), (Zpos (XI (XI (XO (XO (XI (XI (XO (XO (XO (XI (XO
    XH))))))))))))) :: (((Zpos (XI (XO (XI (XO (XI (XI (XO (XO (XO (XI (XO
    XH)))))))))))), (Zpos (XO (XI (XI (XO (XI (XI (XO (XO (XO (XI (XO
    XH))))))))))))) :: []))))))))))))))))))))))))) :: ((((Zpos (XO (XO (XO
    (XI (XI (XI (XO (XO (XO (XI (XO XH)))))))))))), (Zpos (XI (XI (XO (XO (XO
    (XO (XO (XO (XI (XI (XO XH))))))))))))), (((Zpos (XO (XO (XO (XI (XI (XI
    (XO (XO (XO (XI (XO XH)))))))))))), (Zpos (XI (XO (XO (XI (XI (XI (XO (XO
    (XO (XI (XO XH))))))))))))) :: (((Zpos (XO (XO (XI (XI (XI (XI (XO (XO
    (XO (XI (XO XH)))))))))))), (Zpos (XO (XO (XI (XI (XI (XI (XO (XO (XO (XI
    (XO XH))))))))))))) :: (((Zpos (XO (XI (XI (XI (XI (XI (XO (XO (XO (XI
    (XO XH)))))))))))), (Zpos (XO (XI (XO (XO (XO (XO (XI (XO (XO (XI (XO
    XH))))))))))))) :: (((Zpos (XI (XI (XI (XO (XO (XO (XI (XO (XO (XI (XO
    XH)))))))))))), (Zpos (XO (XO (XO (XI (XO (XO (XI (XO (XO (XI (XO
    XH))))))))))))) :: (((Zpos (XI (XI (XO (XI (XO (XO (XI (XO (XO (XI (XO
    XH)))))))))))), (Zpos (XI (XO (XI (XI (XO (XO (XI (XO (XO (XI (XO
    XH))))))))))))) :: (((Zpos (XI (XO (XO (XO (XI (XO (XI (XO (XO (XI (XO
    XH)))))))))))), (Zpos (XI (XO (XO (XO (XI (XO (XI (XO (XO (XI (XO
    XH))))))))))))) :: (((Zpos (XI (XO (XO (XI (XI (XO (XI (XO (XO (XI (XO
    XH)))))))))))), (Zpos (XO (XO (XI (XI (XI (XO (XI (XO (XO (XI (XO
    XH))))))))))))) :: (((Zpos (XO (XI (XI (XI (XI (XO (XI (XO (XO (XI (XO
    XH)))))))))))), (Zpos (XO (XI (XI (XI (XI (XO (XI (XO (XO (XI (XO
    XH))))))))))))) :: (((Zpos (XO (XI (XI (XO (XO (XI (XI (XO (XO (XI (XO
    XH)))))))))))), (Zpos (XO (XI (XI (XO (XI (XI (XI (XO (XO (XI (XO
    XH))))))))))))) :: (((Zpos (XI (XO (XO (XO (XO (XO (XO (XI (XO (XI (XO
    XH)))))))))))), (Zpos (XI (XI (XO (XO (XO (XO (XO (XI (XO (XI (XO
    XH))))))))))))) :: (((Zpos (XI (XO (XI (XO (XO (XO (XO (XI (XO (XI (XO
    XH)))))))))))), (Zpos (XI (XO (XI (XI (XO (XO (XO (XI (XO (XI (XO
    XH))))))))))))) :: (((Zpos (XI (XI (XI (XI (XO (XO (XO (XI (XO (XI (XO
    XH)))))))))))), (Zpos (XI (XO (XO (XO (XI (XO (XO (XI (XO (XI (XO
    XH))))))))))))) :: (((Zpos (XI (XI (XO (XO (XI (XO (XO (XI (XO (XI (XO
    XH)))))))))))), (Zpos (XO (XO (XO (XI (XO (XI (XO (XI (XO (XI (XO
    XH))))))))))))) :: (((Zpos (XO (XI (XO (XI (XO (XI (XO (XI (XO (XI (XO
    XH)))))))))))), (Zpos (XO (XO (XO (XO (XI (XI (XO (XI (XO (XI (XO
    XH))))))))))))) :: (((Zpos (XO (XI (XO (XO (XI (XI (XO (XI (XO (XI (XO
    XH)))))))))))), (Zpos (XI (XI (XO (XO (XI (XI (XO (XI (XO (XI (XO
    XH))))))))))))) :: (((Zpos (XI (XO (XI (XO (XI (XI (XO (XI (XO (XI (XO
    XH)))))))))))), (Zpos (XI (XO (XO (XI (XI (XI (XO (XI (XO (XI (XO
    XH))))))))))))) :: (((Zpos (XO (XO (XI (XI (XI (XI (XO (XI (XO (XI (XO
    XH)))))))))))), (Zpos (XI (XO (XI (XO (XO (XO (XI (XI (XO (XI (XO
    XH))))))))))))) :: (((Zpos (XI (XI (XI (XO (XO (XO (XI (XI (XO (XI (XO
    XH)))))))))))), (Zpos (XI (XO (XO (XI (XO (XO (XI (XI (XO (XI (XO
    XH))))))))))))) :: (((Zpos (XI (XI (XO (XI (XO (XO (XI (XI (XO (XI (XO
    XH)))))))))))), (Zpos (XI (XO (XI (XI (XO (XO (XI (XI (XO (XI (XO
    XH))))))))))))) :: (((Zpos (XO (XO (XO (XO (XI (XO (XI (XI (XO (XI (XO
    XH)))))))))))), (Zpos (XO (XO (XO (XO (XI (XO (XI (XI (XO (XI (XO
    XH))))))))))))) :: (((Zpos (XO (XO (XO (XO (XO (XI (XI (XI (XO (XI (XO
    XH)))))))))))), (Zpos (XI (XI (XO (XO (XO (XI (XI (XI (XO (XI (XO
    XH))))))))))))) :: (((Zpos (XO (XI (XI (XO (XO (XI (XI (XI (XO (XI (XO
    XH)))))))))))), (Zpos (XI (XO (XO (XO (XI (XI (XI (XI (XO (XI (XO
    XH))))))))))))) :: (((Zpos (XI (XO (XO (XI (XI (XI (XI (XI (XO (XI (XO
    XH)))))))))))), (Zpos (XI (XI (XI (XI (XI (XI (XI (XI (XO (XI (XO
    XH))))))))))))) :: (((Zpos (XI (XO (XO (XO (XO (XO (XO (XO (XI (XI (XO
    XH)))))))))))), (Zpos (XI (XI (XO (XO (XO (XO (XO (XO (XI (XI (XO
    XH))))))))))))) :: []))))))))))))))))))))))))) :: ((((Zpos (XI (XO (XI
    (XO (XO (XO (XO (XO (XI (XI (XO XH)))))))))))), (Zpos (XO (XI (XO (XO (XO
    (XO (XI (XI (XI (XI (XO XH))))))))))))), (((Zpos (XI (XO (XI (XO (XO (XO
    (XO (XO (XI (XI (XO XH)))))))))))), (Zpos (XO (XO (XI (XI (XO (XO (XO (XO
    (XI (XI (XO XH))))))))))))) :: (((Zpos (XI (XI (XI (XI (XO (XO (XO (XO
    (XI (XI (XO XH)))))))))))), (Zpos (XO (XO (XO (XO (XI (XO (XO (XO (XI (XI
    (XO XH))))))))))))) :: (((Zpos (XI (XI (XO (XO (XI (XO (XO (XO (XI (XI
    (XO XH)))))))))))), (Zpos (XO (XO (XO (XI (XO (XI (XO (XO (XI (XI (XO
    XH))))))))))))) :: (((Zpos (XO (XI (XO (XI (XO (XI (XO (XO (XI (XI (XO
    XH)))))))))))), (Zpos (XO (XO (XO (XO (XI (XI (XO (XO (XI (XI (XO
    XH))))))))))))) :: (((Zpos (XO (XI (XO (XO (XI (XI (XO (XO (XI (XI (XO
    XH)))))))))))), (Zpos (XI (XI (XO (XO (XI (XI (XO (XO (XI (XI (XO
    XH))))))))))))) :: (((Zpos (XI (XO (XI (XO (XI (XI (XO (XO (XI (XI (XO
    XH)))))))))))), (Zpos (XI (XO (XO (XI (XI (XI (XO (XO (XI (XI (XO
    XH))))))))))))) :: (((Zpos (XO (XO (XI (XI (XI (XI (XO (XO (XI (XI (XO
    XH)))))))))))), (Zpos (XO (XO (XI (XO (XO (XO (XI (XO (XI (XI (XO
    XH))))))))))))) :: (((Zpos (XI (XI (XI (XO (XO (XO (XI (XO (XI (XI (XO
    XH)))))))))))), (Zpos (XO (XO (XO (XI (XO (XO (XI (XO (XI (XI (XO
    XH))))))))))))) :: (((Zpos (XI (XI (XO (XI (XO (XO (XI (XO (XI (XI (XO
    XH)))))))))))), (Zpos (XI (XO (XI (XI (XO (XO (XI (XO (XI (XI (XO
    XH))))))))))))) :: (((Zpos (XI (XO (XI (XO (XI (XO (XI (XO (XI (XI (XO
    XH)))))))))))), (Zpos (XI (XI (XI (XO (XI (XO (XI (XO (XI (XI (XO
    XH))))))))))))) :: (((Zpos (XO (XO (XI (XI (XI (XO (XI (XO (XI (XI (XO
    XH)))))))))))), (Zpos (XI (XO (XI (XI (XI (XO (XI (XO (XI (XI (XO
    XH))))))))))))) :: (((Zpos (XI (XI (XI (XI (XI (XO (XI (XO (XI (XI (XO
    XH)))))))))))), (Zpos (XI (XI (XO (XO (XO (XI (XI (XO (XI (XI (XO
    XH))))))))))))) :: (((Zpos (XO (XI (XI (XO (XO (XI (XI (XO (XI (XI (XO
    XH)))))))))))), (Zpos (XI (XI (XI (XO (XI (XI (XI (XO (XI (XI (XO
    XH))))))))))))) :: (((Zpos (XO (XI (XO (XO (XO (XO (XO (XI (XI (XI (XO
    XH)))))))))))), (Zpos (XI (XI (XO (XO (XO (XO (XO (XI (XI (XI (XO
    XH))))))))))))) :: (((Zpos (XI (XO (XI (XO (XO (XO (XO (XI (XI (XI (XO
    XH)))))))))))), (Zpos (XO (XI (XO (XI (XO (XO (XO (XI (XI (XI (XO
    XH))))))))))))) :: (((Zpos (XO (XI (XI (XI (XO (XO (XO (XI (XI (XI (XO
    XH)))))))))))), (Zpos (XO (XO (XO (XO (XI (XO (XO (XI (XI (XI (XO
    XH))))))))))))) :: (((Zpos (XO (XI (XO (XO (XI (XO (XO (XI (XI (XI (XO
    XH)))))))))))), (Zpos (XI (XO (XI (XO (XI (XO (XO (XI (XI (XI (XO
    XH))))))))))))) :: (((Zpos (XI (XO (XO (XI (XI (XO (XO (XI (XI (XI (XO
    XH)))))))))))), (Zpos (XO (XI (XO (XI (XI (XO (XO (XI (XI (XI (XO
    XH))))))))))))) :: (((Zpos (XO (XO (XI (XI (XI (XO (XO (XI (XI (XI (XO
    XH)))))))))))), (Zpos (XO (XO (XI (XI (XI (XO (XO (XI (XI (XI (XO
    XH))))))))))))) :: (((Zpos (XO (XI (XI (XI (XI (XO (XO (XI (XI (XI (XO
    XH)))))))))))), (Zpos (XI (XI (XI (XI (XI (XO (XO (XI (XI (XI (XO
    XH))))))))))))) :: (((Zpos (XI (XI (XO (XO (XO (XI (XO (XI (XI (XI (XO
    XH)))))))))))), (Zpos (XO (XO (XI (XO (XO (XI (XO (XI (XI (XI (XO
    XH))))))))))))) :: (((Zpos (XO (XO (XO (XI (XO (XI (XO (XI (XI (XI (XO
    XH)))))))))))), (Zpos (XO (XI (XO (XI (XO (XI (XO (XI (XI (XI (XO
    XH))))))))))))) :: (((Zpos (XO (XI (XI (XI (XO (XI (XO (XI (XI (XI (XO
    XH)))))))))))), (Zpos (XI (XO (XO (XI (XI (XI (XO (XI (XI (XI (XO
    XH))))))))))))) :: (((Zpos (XO (XI (XI (XI (XI (XI (XO (XI (XI (XI (XO
    XH)))))))))))), (Zpos (XO (XI (XO (XO (XO (XO (XI (XI (XI (XI (XO
    XH))))))))))))) :: []))))))))))))))))))))))))) :: ((((Zpos (XO (XI (XI
    (XO (XO (XO (XI (XI (XI (XI (XO XH)))))))))))), (Zpos (XO (XO (XO (XI (XO
    (XO (XI (XI (XO (XO (XI XH))))))))))))), (((Zpos (XO (XI (XI (XO (XO (XO
    (XI (XI (XI (XI (XO XH)))))))))))), (Zpos (XO (XO (XO (XI (XO (XO (XI (XI
    (XI (XI (XO XH))))))))))))) :: (((Zpos (XO (XI (XO (XI (XO (XO (XI (XI
    (XI (XI (XO XH)))))))))))), (Zpos (XI (XO (XI (XI (XO (XO (XI (XI (XI (XI
    (XO XH))))))))))))) :: (((Zpos (XO (XO (XO (XO (XI (XO (XI (XI (XI (XI
    (XO XH)))))))))))), (Zpos (XO (XO (XO (XO (XI (XO (XI (XI (XI (XI (XO
    XH))))))))))))) :: (((Zpos (XI (XI (XI (XO (XI (XO (XI (XI (XI (XI (XO
    XH)))))))))))), (Zpos (XI (XI (XI (XO (XI (XO (XI (XI (XI (XI (XO
    XH))))))))))))) :: (((Zpos (XO (XI (XI (XO (XO (XI (XI (XI (XI (XI (XO
    XH)))))))))))), (Zpos (XO (XI (XO (XI (XI (XI (XI (XI (XI (XI (XO
    XH))))))))))))) :: (((Zpos (XO (XO (XO (XO (XO (XO (XO (XO (XO (XO (XI
    XH)))))))))))), (Zpos (XO (XO (XI (XI (XO (XO (XO (XO (XO (XO (XI
    XH))))))))))))) :: (((Zpos (XO (XI (XI (XI (XO (XO (XO (XO (XO (XO (XI
    XH)))))))))))), (Zpos (XO (XO (XO (XO (XI (XO (XO (XO (XO (XO (XI
    XH))))))))))))) :: (((Zpos (XO (XI (XO (XO (XI (XO (XO (XO (XO (XO (XI
    XH)))))))))))), (Zpos (XO (XO (XO (XI (XO (XI (XO (XO (XO (XO (XI
    XH))))))))))))) :: (((Zpos (XO (XI (XO (XI (XO (XI (XO (XO (XO (XO (XI
    XH)))))))))))), (Zpos (XI (XO (XO (XI (XI (XI (XO (XO (XO (XO (XI
    XH))))))))))))) :: (((Zpos (XO (XO (XI (XI (XI (XI (XO (XO (XO (XO (XI
    XH)))))))))))), (Zpos (XO (XO (XI (XO (XO (XO (XI (XO (XO (XO (XI
    XH))))))))))))) :: (((Zpos (XO (XI (XI (XO (XO (XO (XI (XO (XO (XO (XI
    XH)))))))))))), (Zpos (XO (XO (XO (XI (XO (XO (XI (XO (XO (XO (XI
    XH))))))))))))) :: (((Zpos (XO (XI (XO (XI (XO (XO (XI (XO (XO (XO (XI
    XH)))))))))))), (Zpos (XI (XO (XI (XI (XO (XO (XI (XO (XO (XO (XI
    XH))))))))))))) :: (((Zpos (XI (XO (XI (XO (XI (XO (XI (XO (XO (XO (XI
    XH)))))))))))), (Zpos (XO (XI (XI (XO (XI (XO (XI (XO (XO (XO (XI
    XH))))))))))))) :: (((Zpos (XO (XO (XO (XI (XI (XO (XI (XO (XO (XO (XI
    XH)))))))))))), (Zpos (XO (XI (XO (XI (XI (XO (XI (XO (XO (XO (XI
    XH))))))))))))) :: (((Zpos (XI (XO (XI (XI (XI (XO (XI (XO (XO (XO (XI
    XH)))))))))))), (Zpos (XI (XO (XI (XI (XI (XO (XI (XO (XO (XO (XI
    XH))))))))))))) :: (((Zpos (XO (XO (XO (XO (XO (XI (XI (XO (XO (XO (XI
    XH)))))))))))), (Zpos (XI (XI (XO (XO (XO (XI (XI (XO (XO (XO (XI
    XH))))))))))))) :: (((Zpos (XO (XI (XI (XO (XO (XI (XI (XO (XO (XO (XI
    XH)))))))))))), (Zpos (XI (XI (XI (XI (XO (XI (XI (XO (XO (XO (XI
    XH))))))))))))) :: (((Zpos (XI (XI (XI (XO (XI (XI (XI (XO (XO (XO (XI
    XH)))))))))))), (Zpos (XO (XO (XI (XI (XO (XO (XO (XI (XO (XO (XI
    XH))))))))))))) :: (((Zpos (XO (XI (XI (XI (XO (XO (XO (XI (XO (XO (XI
    XH)))))))))))), (Zpos (XO (XO (XO (XO (XI (XO (XO (XI (XO (XO (XI
    XH))))))))))))) :: (((Zpos (XO (XI (XO (XO (XI (XO (XO (XI (XO (XO (XI
    XH)))))))))))), (Zpos (XO (XO (XO (XI (XO (XI (XO (XI (XO (XO (XI
    XH))))))))))))) :: (((Zpos (XO (XI (XO (XI (XO (XI (XO (XI (XO (XO (XI
    XH)))))))))))), (Zpos (XI (XI (XO (XO (XI (XI (XO (XI (XO (XO (XI
    XH))))))))))))) :: (((Zpos (XI (XO (XI (XO (XI (XI (XO (XI (XO (XO (XI
    XH)))))))))))), (Zpos (XI (XO (XO (XI (XI (XI (XO (XI (XO (XO (XI
    XH))))))))))))) :: (((Zpos (XO (XO (XI (XI (XI (XI (XO (XI (XO (XO (XI
    XH)))))))))))), (Zpos (XO (XO (XI (XO (XO (XO (XI (XI (XO (XO (XI
    XH))))))))))))) :: (((Zpos (XO (XI (XI (XO (XO (XO (XI (XI (XO (XO (XI
    XH)))))))))))), (Zpos (XO (XO (XO (XI (XO (XO (XI (XI (XO (XO (XI
    XH))))))))))))) :: []))))))))))))))))))))))))) :: ((((Zpos (XO (XI (XO
    (XI (XO (XO (XI (XI (XO (XO (XI XH)))))))))))), (Zpos (XI (XI (XI (XI (XO
    (XI (XI (XI (XI (XO (XI XH))))))))))))), (((Zpos (XO (XI (XO (XI (XO (XO
    (XI (XI (XO (XO (XI XH)))))))))))), (Zpos (XI (XO (XI (XI (XO (XO (XI (XI
    (XO (XO (XI XH))))))))))))) :: (((Zpos (XI (XO (XI (XO (XI (XO (XI (XI
    (XO (XO (XI XH)))))))))))), (Zpos (XO (XI (XI (XO (XI (XO (XI (XI (XO (XO
    (XI XH))))))))))))) :: (((Zpos (XI (XO (XI (XI (XI (XO (XI (XI (XO (XO
    (XI XH)))))))))))), (Zpos (XO (XI (XI (XI (XI (XO (XI (XI (XO (XO (XI
    XH))))))))))))) :: (((Zpos (XO (XO (XO (XO (XO (XI (XI (XI (XO (XO (XI
    XH)))))))))))), (Zpos (XI (XI (XO (XO (XO (XI (XI (XI (XO (XO (XI
    XH))))))))))))) :: (((Zpos (XO (XI (XI (XO (XO (XI (XI (XI (XO (XO (XI
    XH)))))))))))), (Zpos (XI (XI (XI (XI (XO (XI (XI (XI (XO (XO (XI
    XH))))))))))))) :: (((Zpos (XI (XO (XO (XO (XI (XI (XI (XI (XO (XO (XI
    XH)))))))))))), (Zpos (XI (XI (XO (XO (XI (XI (XI (XI (XO (XO (XI
    XH))))))))))))) :: (((Zpos (XO (XO (XO (XO (XO (XO (XO (XO (XI (XO (XI
    XH)))))))))))), (Zpos (XO (XO (XI (XI (XO (XO (XO (XO (XI (XO (XI
    XH))))))))))))) :: (((Zpos (XO (XI (XI (XI (XO (XO (XO (XO (XI (XO (XI
    XH)))))))))))), (Zpos (XO (XO (XO (XO (XI (XO (XO (XO (XI (XO (XI
    XH))))))))))))) :: (((Zpos (XO (XI (XO (XO (XI (XO (XO (XO (XI (XO (XI
    XH)))))))))))), (Zpos (XO (XO (XI (XO (XO (XO (XI (XO (XI (XO (XI
    XH))))))))))))) :: (((Zpos (XO (XI (XI (XO (XO (XO (XI (XO (XI (XO (XI
    XH)))))))))))), (Zpos (XO (XO (XO (XI (XO (XO (XI (XO (XI (XO (XI
    XH))))))))))))) :: (((Zpos (XO (XI (XO (XI (XO (XO (XI (XO (XI (XO (XI
    XH)))))))))))), (Zpos (XI (XI (XI (XI (XO (XO (XI (XO (XI (XO (XI
    XH))))))))))))) :: (((Zpos (XO (XO (XI (XO (XI (XO (XI (XO (XI (XO (XI
    XH)))))))))))), (Zpos (XI (XI (XO (XO (XO (XI (XI (XO (XI (XO (XI
    XH))))))))))))) :: (((Zpos (XO (XI (XI (XO (XO (XI (XI (XO (XI (XO (XI
    XH)))))))))))), (Zpos (XI (XI (XI (XI (XI (XI (XI (XO (XI (XO (XI
    XH))))))))))))) :: (((Zpos (XI (XO (XO (XO (XO (XO (XO (XI (XI (XO (XI
    XH)))))))))))), (Zpos (XI (XI (XO (XO (XO (XO (XO (XI (XI (XO (XI
    XH))))))))))))) :: (((Zpos (XI (XO (XI (XO (XO (XO (XO (XI (XI (XO (XI
    XH)))))))))))), (Zpos (XO (XI (XI (XO (XI (XO (XO (XI (XI (XO (XI
    XH))))))))))))) :: (((Zpos (XO (XI (XO (XI (XI (XO (XO (XI (XI (XO (XI
    XH)))))))))))), (Zpos (XI (XO (XO (XO (XI (XI (XO (XI (XI (XO (XI
    XH))))))))))))) :: (((Zpos (XI (XI (XO (XO (XI (XI (XO (XI (XI (XO (XI
    XH)))))))))))), (Zpos (XI (XI (XO (XI (XI (XI (XO (XI (XI (XO (XI
    XH))))))))))))) :: (((Zpos (XI (XO (XI (XI (XI (XI (XO (XI (XI (XO (XI
    XH)))))))))))), (Zpos (XI (XO (XI (XI (XI (XI (XO (XI (XI (XO (XI
    XH))))))))))))) :: (((Zpos (XO (XO (XO (XO (XO (XO (XI (XI (XI (XO (XI
    XH)))))))))))), (Zpos (XO (XI (XI (XO (XO (XO (XI (XI (XI (XO (XI
    XH))))))))))))) :: (((Zpos (XO (XI (XO (XI (XO (XO (XI (XI (XI (XO (XI
    XH)))))))))))), (Zpos (XO (XI (XO (XI (XO (XO (XI (XI (XI (XO (XI
    XH))))))))))))) :: (((Zpos (XI (XI (XI (XI (XO (XO (XI (XI (XI (XO (XI
    XH)))))))))))), (Zpos (XO (XO (XI (XO (XI (XO (XI (XI (XI (XO (XI
    XH))))))))))))) :: (((Zpos (XO (XI (XI (XO (XI (XO (XI (XI (XI (XO (XI
    XH)))))))))))), (Zpos (XO (XI (XI (XO (XI (XO (XI (XI (XI (XO (XI
    XH))))))))))))) :: (((Zpos (XO (XO (XO (XI (XI (XO (XI (XI (XI (XO (XI
    XH)))))))))))), (Zpos (XI (XI (XI (XI (XI (XO (XI (XI (XI (XO (XI
    XH))))))))))))) :: (((Zpos (XO (XI (XI (XO (XO (XI (XI (XI (XI (XO (XI
    XH)))))))))))), (Zpos (XI (XI (XI (XI (XO (XI (XI (XI (XI (XO (XI
    XH))))))))))))) :: []))))))))))))))))))))))))) :: ((((Zpos (XO (XI (XO
    (XO (XI (XI (XI (XI (XI (XO (XI XH)))))))))))), (Zpos (XO (XO (XO (XI (XO
    (XO (XI (XO (XO (XI (XO (XO XH)))))))))))))), (((Zpos (XO (XI (XO (XO (XI
    (XI (XI (XI (XI (XO (XI XH)))))))))))), (Zpos (XO (XO (XI (XO (XI (XI (XI
    (XI (XI (XO (XI XH))))))))))))) :: (((Zpos (XI (XO (XO (XO (XO (XO (XO
    (XO (XO (XI (XI XH)))))))))))), (Zpos (XO (XI (XO (XI (XI (XI (XO (XO (XO
    (XI (XI XH))))))))))))) :: (((Zpos (XI (XI (XI (XI (XI (XI (XO (XO (XO
    (XI (XI XH)))))))))))), (Zpos (XI (XI (XO (XI (XI (XO (XI (XO (XO (XI (XI
    XH))))))))))))) :: (((Zpos (XI (XO (XO (XO (XO (XO (XO (XI (XO (XI (XI
    XH)))))))))))), (Zpos (XO (XI (XO (XO (XO (XO (XO (XI (XO (XI (XI
    XH))))))))))))) :: (((Zpos (XO (XO (XI (XO (XO (XO (XO (XI (XO (XI (XI
    XH)))))))))))), (Zpos (XO (XO (XI (XO (XO (XO (XO (XI (XO (XI (XI
    XH))))))))))))) :: (((Zpos (XO (XI (XI (XO (XO (XO (XO (XI (XO (XI (XI
    XH)))))))))))), (Zpos (XO (XI (XO (XI (XO (XO (XO (XI (XO (XI (XI
    XH))))))))))))) :: (((Zpos (XO (XO (XI (XI (XO (XO (XO (XI (XO (XI (XI
    XH)))))))))))), (Zpos (XI (XI (XO (XO (XO (XI (XO (XI (XO (XI (XI
    XH))))))))))))) :: (((Zpos (XI (XO (XI (XO (XO (XI (XO (XI (XO (XI (XI
    XH)))))))))))), (Zpos (XI (XO (XI (XO (XO (XI (XO (XI (XO (XI (XI
    XH))))))))))))) :: (((Zpos (XI (XI (XI (XO (XO (XI (XO (XI (XO (XI (XI
    XH)))))))))))), (Zpos (XI (XO (XI (XI (XI (XI (XO (XI (XO (XI (XI
    XH))))))))))))) :: (((Zpos (XO (XO (XO (XO (XO (XO (XI (XI (XO (XI (XI
    XH)))))))))))), (Zpos (XO (XO (XI (XO (XO (XO (XI (XI (XO (XI (XI
    XH))))))))))))) :: (((Zpos (XO (XI (XI (XO (XO (XO (XI (XI (XO (XI (XI
    XH)))))))))))), (Zpos (XO (XI (XI (XO (XO (XO (XI (XI (XO (XI (XI
    XH))))))))))))) :: (((Zpos (XO (XO (XO (XI (XO (XO (XI (XI (XO (XI (XI
    XH)))))))))))), (Zpos (XO (XI (XI (XI (XO (XO (XI (XI (XO (XI (XI
    XH))))))))))))) :: (((Zpos (XO (XO (XO (XO (XI (XO (XI (XI (XO (XI (XI
    XH)))))))))))), (Zpos (XI (XO (XO (XI (XI (XO (XI (XI (XO (XI (XI
    XH))))))))))))) :: (((Zpos (XO (XO (XI (XI (XI (XO (XI (XI (XO (XI (XI
    XH)))))))))))), (Zpos (XI (XI (XI (XI (XI (XO (XI (XI (XO (XI (XI
    XH))))))))))))) :: (((Zpos (XO (XO (XO (XO (XO (XO (XO (XO (XI (XI (XI
    XH)))))))))))), (Zpos (XI (XI (XI (XO (XO (XO (XI (XO (XI (XI (XI
    XH))))))))))))) :: (((Zpos (XI (XO (XO (XI (XO (XO (XI (XO (XI (XI (XI
    XH)))))))))))), (Zpos (XO (XO (XI (XI (XO (XI (XI (XO (XI (XI (XI
    XH))))))))))))) :: (((Zpos (XI (XO (XO (XO (XI (XI (XI (XO (XI (XI (XI
    XH)))))))))))), (Zpos (XI (XI (XI (XO (XI (XO (XO (XI (XI (XI (XI
    XH))))))))))))) :: (((Zpos (XI (XO (XO (XI (XI (XO (XO (XI (XI (XI (XI
    XH)))))))))))), (Zpos (XO (XO (XI (XI (XI (XI (XO (XI (XI (XI (XI
    XH))))))))))))) :: (((Zpos (XO (XI (XI (XI (XI (XI (XO (XI (XI (XI (XI
    XH)))))))))))), (Zpos (XO (XO (XI (XI (XO (XO (XI (XI (XI (XI (XI
    XH))))))))))))) :: (((Zpos (XO (XI (XI (XI (XO (XO (XI (XI (XI (XI (XI
    XH)))))))))))), (Zpos (XO (XI (XO (XI (XI (XO (XI (XI (XI (XI (XI
    XH))))))))))))) :: (((Zpos (XO (XO (XO (XO (XO (XO (XO (XO (XO (XO (XO
    (XO XH))))))))))))), (Zpos (XI (XO (XI (XO (XO (XO (XI (XI (XO (XO (XO
    (XO XH)))))))))))))) :: (((Zpos (XI (XI (XI (XO (XO (XO (XI (XI (XO (XO
    (XO (XO XH))))))))))))), (Zpos (XI (XI (XI (XO (XO (XO (XI (XI (XO (XO
    (XO (XO XH)))))))))))))) :: (((Zpos (XI (XO (XI (XI (XO (XO (XI (XI (XO
    (XO (XO (XO XH))))))))))))), (Zpos (XI (XO (XI (XI (XO (XO (XI (XI (XO
    (XO (XO (XO XH)))))))))))))) :: (((Zpos (XO (XO (XO (XO (XI (XO (XI (XI
    (XO (XO (XO (XO XH))))))))))))), (Zpos (XO (XO (XO (XI (XO (XO (XI (XO
    (XO (XI (XO (XO
    XH)))))))))))))) :: []))))))))))))))))))))))))) :: ((((Zpos (XO (XI (XO
    (XI (XO (XO (XI (XO (XO (XI (XO (XO XH))))))))))))), (Zpos (XO (XI (XI
    (XO (XI (XI (XO (XO (XI (XI (XI (XO XH)))))))))))))), (((Zpos (XO (XI (XO
    (XI (XO (XO (XI (XO (XO (XI (XO (XO XH))))))))))))), (Zpos (XI (XO (XI
    (XI (XO (XO (XI (XO (XO (XI (XO (XO XH)))))))))))))) :: (((Zpos (XO (XO
    (XO (XO (XI (XO (XI (XO (XO (XI (XO (XO XH))))))))))))), (Zpos (XO (XI
    (XI (XO (XI (XO (XI (XO (XO (XI (XO (XO XH)))))))))))))) :: (((Zpos (XO
    (XO (XO (XI (XI (XO (XI (XO (XO (XI (XO (XO XH))))))))))))), (Zpos (XO
    (XO (XO (XI (XI (XO (XI (XO (XO (XI (XO (XO XH)))))))))))))) :: (((Zpos
    (XO (XI (XO (XI (XI (XO (XI (XO (XO (XI (XO (XO XH))))))))))))), (Zpos
    (XI (XO (XI (XI (XI (XO (XI (XO (XO (XI (XO (XO
    XH)))))))))))))) :: (((Zpos (XO (XO (XO (XO (XO (XI (XI (XO (XO (XI (XO
    (XO XH))))))))))))), (Zpos (XO (XO (XO (XI (XO (XO (XO (XI (XO (XI (XO
    (XO XH)))))))))))))) :: (((Zpos (XO (XI (XO (XI (XO (XO (XO (XI (XO (XI
    (XO (XO XH))))))))))))), (Zpos (XI (XO (XI (XI (XO (XO (XO (XI (XO (XI
    (XO (XO XH)))))))))))))) :: (((Zpos (XO (XO (XO (XO (XI (XO (XO (XI (XO
    (XI (XO (XO XH))))))))))))), (Zpos (XO (XO (XO (XO (XI (XI (XO (XI (XO
    (XI (XO (XO XH)))))))))))))) :: (((Zpos (XO (XI (XO (XO (XI (XI (XO (XI
    (XO (XI (XO (XO XH))))))))))))), (Zpos (XI (XO (XI (XO (XI (XI (XO (XI
    (XO (XI (XO (XO XH)))))))))))))) :: (((Zpos (XO (XO (XO (XI (XI (XI (XO
    (XI (XO (XI (XO (XO XH))))))))))))), (Zpos (XO (XI (XI (XI (XI (XI (XO
    (XI (XO (XI (XO (XO XH)))))))))))))) :: (((Zpos (XO (XO (XO (XO (XO (XO
    (XI (XI (XO (XI (XO (XO XH))))))))))))), (Zpos (XO (XO (XO (XO (XO (XO
    (XI (XI (XO (XI (XO (XO XH)))))))))))))) :: (((Zpos (XO (XI (XO (XO (XO
    (XO (XI (XI (XO (XI (XO (XO XH))))))))))))), (Zpos (XI (XO (XI (XO (XO
    (XO (XI (XI (XO (XI (XO (XO XH)))))))))))))) :: (((Zpos (XO (XO (XO (XI
    (XO (XO (XI (XI (XO (XI (XO (XO XH))))))))))))), (Zpos (XO (XI (XI (XO
    (XI (XO (XI (XI (XO (XI (XO (XO XH)))))))))))))) :: (((Zpos (XO (XO (XO
    (XI (XI (XO (XI (XI (XO (XI (XO (XO XH))))))))))))), (Zpos (XO (XO (XO
    (XO (XI (XO (XO (XO (XI (XI (XO (XO XH)))))))))))))) :: (((Zpos (XO (XI
    (XO (XO (XI (XO (XO (XO (XI (XI (XO (XO XH))))))))))))), (Zpos (XI (XO
    (XI (XO (XI (XO (XO (XO (XI (XI (XO (XO XH)))))))))))))) :: (((Zpos (XO
    (XO (XO (XI (XI (XO (XO (XO (XI (XI (XO (XO XH))))))))))))), (Zpos (XO
    (XI (XO (XI (XI (XO (XI (XO (XI (XI (XO (XO XH)))))))))))))) :: (((Zpos
    (XI (XO (XI (XI (XI (XO (XI (XO (XI (XI (XO (XO XH))))))))))))), (Zpos
    (XO (XO (XI (XI (XI (XI (XI (XO (XI (XI (XO (XO
    XH)))))))))))))) :: (((Zpos (XO (XO (XO (XO (XO (XO (XO (XI (XI (XI (XO
    (XO XH))))))))))))), (Zpos (XI (XO (XO (XI (XI (XO (XO (XI (XI (XI (XO
    (XO XH)))))))))))))) :: (((Zpos (XO (XO (XO (XO (XO (XI (XO (XI (XI (XI
    (XO (XO XH))))))))))))), (Zpos (XI (XO (XI (XO (XI (XI (XI (XI (XI (XI
    (XO (XO XH)))))))))))))) :: (((Zpos (XO (XO (XO (XI (XI (XI (XI (XI (XI
    (XI (XO (XO XH))))))))))))), (Zpos (XI (XO (XI (XI (XI (XI (XI (XI (XI
    (XI (XO (XO XH)))))))))))))) :: (((Zpos (XO (XO (XO (XO (XO (XO (XO (XO
    (XO (XO (XI (XO XH))))))))))))), (Zpos (XI (XI (XI (XI (XI (XI (XI (XO
    (XO (XI (XI (XO XH)))))))))))))) :: (((Zpos (XI (XO (XO (XO (XO (XO (XO
    (XI (XO (XI (XI (XO XH))))))))))))), (Zpos (XO (XO (XI (XI (XI (XO (XO
    (XI (XO (XI (XI (XO XH)))))))))))))) :: (((Zpos (XO (XO (XO (XO (XO (XI
    (XO (XI (XO (XI (XI (XO XH))))))))))))), (Zpos (XO (XO (XO (XI (XI (XI
    (XI (XI (XO (XI (XI (XO XH)))))))))))))) :: (((Zpos (XO (XO (XO (XO (XO
    (XO (XO (XO (XI (XI (XI (XO XH))))))))))))), (Zpos (XI (XO (XI (XO (XI
    (XO (XO (XO (XI (XI (XI (XO XH)))))))))))))) :: (((Zpos (XI (XI (XI (XI
    (XI (XO (XO (XO (XI (XI (XI (XO XH))))))))))))), (Zpos (XO (XI (XI (XO
    (XI (XI (XO (XO (XI (XI (XI (XO
    XH)))))))))))))) :: []))))))))))))))))))))))))) :: ((((Zpos (XO (XO (XO
    (XO (XO (XO (XI (XO (XI (XI (XI (XO XH))))))))))))), (Zpos (XO (XO (XI
    (XI (XI (XI (XI (XO (XO (XI (XO (XI XH)))))))))))))), (((Zpos (XO (XO (XO
    (XO (XO (XO (XI (XO (XI (XI (XI (XO XH))))))))))))), (Zpos (XI (XI (XO
    (XO (XI (XO (XI (XO (XI (XI (XI (XO XH)))))))))))))) :: (((Zpos (XO (XO
    (XO (XO (XO (XI (XI (XO (XI (XI (XI (XO XH))))))))))))), (Zpos (XO (XO
    (XI (XI (XO (XI (XI (XO (XI (XI (XI (XO XH)))))))))))))) :: (((Zpos (XO
    (XI (XI (XI (XO (XI (XI (XO (XI (XI (XI (XO XH))))))))))))), (Zpos (XO
    (XO (XO (XO (XI (XI (XI (XO (XI (XI (XI (XO XH)))))))))))))) :: (((Zpos
    (XO (XI (XO (XO (XI (XI (XI (XO (XI (XI (XI (XO XH))))))))))))), (Zpos
    (XI (XI (XO (XO (XI (XI (XI (XO (XI (XI (XI (XO
    XH)))))))))))))) :: (((Zpos (XO (XO (XO (XO (XO (XO (XO (XI (XI (XI (XI
    (XO XH))))))))))))), (Zpos (XI (XO (XI (XI (XI (XO (XI (XI (XI (XI (XI
    (XO XH)))))))))))))) :: (((Zpos (XO (XO (XO (XO (XO (XI (XI (XI (XI (XI
    (XI (XO XH))))))))))))), (Zpos (XI (XO (XO (XI (XO (XI (XI (XI (XI (XI
    (XI (XO XH)))))))))))))) :: (((Zpos (XO (XO (XO (XO (XI (XI (XI (XI (XI
    (XI (XI (XO XH))))))))))))), (Zpos (XI (XO (XO (XI (XI (XI (XI (XI (XI
    (XI (XI (XO XH)))))))))))))) :: (((Zpos (XO (XO (XO (XO (XO (XO (XO (XO
    (XO (XO (XO (XI XH))))))))))))), (Zpos (XI (XO (XI (XI (XO (XO (XO (XO
    (XO (XO (XO (XI XH)))))))))))))) :: (((Zpos (XI (XI (XI (XI (XO (XO (XO
    (XO (XO (XO (XO (XI XH))))))))))))), (Zpos (XI (XO (XO (XI (XI (XO (XO
    (XO (XO (XO (XO (XI XH)))))))))))))) :: (((Zpos (XO (XO (XO (XO (XO (XI
    (XO (XO (XO (XO (XO (XI XH))))))))))))), (Zpos (XO (XO (XO (XI (XI (XI
    (XI (XO (XO (XO (XO (XI XH)))))))))))))) :: (((Zpos (XO (XO (XO (XO (XO
    (XO (XO (XI (XO (XO (XO (XI XH))))))))))))), (Zpos (XO (XI (XO (XI (XO
    (XI (XO (XI (XO (XO (XO (XI XH)))))))))))))) :: (((Zpos (XO (XO (XO (XO
    (XI (XI (XO (XI (XO (XO (XO (XI XH))))))))))))), (Zpos (XI (XO (XI (XO
    (XI (XI (XI (XI (XO (XO (XO (XI XH)))))))))))))) :: (((Zpos (XO (XO (XO
    (XO (XO (XO (XO (XO (XI (XO (XO (XI XH))))))))))))), (Zpos (XO (XI (XI
    (XI (XI (XO (XO (XO (XI (XO (XO (XI XH)))))))))))))) :: (((Zpos (XO (XO
    (XO (XO (XO (XI (XO (XO (XI (XO (XO (XI XH))))))))))))), (Zpos (XI (XI
    (XO (XI (XO (XI (XO (XO (XI (XO (XO (XI XH)))))))))))))) :: (((Zpos (XO
    (XO (XO (XO (XI (XI (XO (XO (XI (XO (XO (XI XH))))))))))))), (Zpos (XI
    (XI (XO (XI (XI (XI (XO (XO (XI (XO (XO (XI XH)))))))))))))) :: (((Zpos
    (XO (XO (XO (XO (XO (XO (XI (XO (XI (XO (XO (XI XH))))))))))))), (Zpos
    (XO (XO (XO (XO (XO (XO (XI (XO (XI (XO (XO (XI
    XH)))))))))))))) :: (((Zpos (XO (XO (XI (XO (XO (XO (XI (XO (XI (XO (XO
    (XI XH))))))))))))), (Zpos (XI (XO (XI (XI (XO (XI (XI (XO (XI (XO (XO
    (XI XH)))))))))))))) :: (((Zpos (XO (XO (XO (XO (XI (XI (XI (XO (XI (XO
    (XO (XI XH))))))))))))), (Zpos (XO (XO (XI (XO (XI (XI (XI (XO (XI (XO
    (XO (XI XH)))))))))))))) :: (((Zpos (XO (XO (XO (XO (XO (XO (XO (XI (XI
    (XO (XO (XI XH))))))))))))), (Zpos (XI (XI (XO (XI (XO (XI (XO (XI (XI
    (XO (XO (XI XH)))))))))))))) :: (((Zpos (XO (XO (XO (XO (XI (XI (XO (XI
    (XI (XO (XO (XI XH))))))))))))), (Zpos (XI (XO (XO (XI (XO (XO (XI (XI
    (XI (XO (XO (XI XH)))))))))))))) :: (((Zpos (XO (XO (XO (XO (XI (XO (XI
    (XI (XI (XO (XO (XI XH))))))))))))), (Zpos (XO (XI (XO (XI (XI (XO (XI
    (XI (XI (XO (XO (XI XH)))))))))))))) :: (((Zpos (XO (XI (XI (XI (XI (XO
    (XI (XI (XI (XO (XO (XI XH))))))))))))), (Zpos (XI (XI (XO (XI (XI (XO
    (XO (XO (XO (XI (XO (XI XH)))))))))))))) :: (((Zpos (XO (XI (XI (XI (XI
    (XO (XO (XO (XO (XI (XO (XI XH))))))))))))), (Zpos (XO (XI (XI (XI (XI
    (XO (XI (XO (XO (XI (XO (XI XH)))))))))))))) :: (((Zpos (XO (XO (XO (XO
    (XO (XI (XI (XO (XO (XI (XO (XI XH))))))))))))), (Zpos (XO (XO (XI (XI
    (XI (XI (XI (XO (XO (XI (XO (XI
    XH)))))))))))))) :: []))))))))))))))))))))))))) :: ((((Zpos (XI (XI (XI
    (XI (XI (XI (XI (XO (XO (XI (XO (XI XH))))))))))))), (Zpos (XO (XO (XI
    (XO (XO (XO (XI (XI (XI (XI (XI (XI XH)))))))))))))), (((Zpos (XI (XI (XI
    (XI (XI (XI (XI (XO (XO (XI (XO (XI XH))))))))))))), (Zpos (XI (XO (XO
    (XI (XO (XO (XO (XI (XO (XI (XO (XI XH)))))))))))))) :: (((Zpos (XO (XO
    (XO (XO (XI (XO (XO (XI (XO (XI (XO (XI XH))))))))))))), (Zpos (XI (XO
    (XO (XI (XI (XO (XO (XI (XO (XI (XO (XI XH)))))))))))))) :: (((Zpos (XO
    (XO (XO (XO (XO (XI (XO (XI (XO (XI (XO (XI XH))))))))))))), (Zpos (XI
    (XO (XI (XI (XO (XI (XO (XI (XO (XI (XO (XI XH)))))))))))))) :: (((Zpos
    (XO (XO (XO (XO (XI (XI (XO (XI (XO (XI (XO (XI XH))))))))))))), (Zpos
    (XO (XI (XI (XI (XO (XO (XI (XI (XO (XI (XO (XI
    XH)))))))))))))) :: (((Zpos (XO (XO (XO (XO (XO (XO (XO (XO (XI (XI (XO
    (XI XH))))))))))))), (Zpos (XO (XO (XI (XI (XO (XO (XI (XO (XI (XI (XO
    (XI XH)))))))))))))) :: (((Zpos (XO (XO (XO (XO (XI (XO (XI (XO (XI (XI
    (XO (XI XH))))))))))))), (Zpos (XO (XI (XI (XI (XI (XI (XI (XO (XI (XI
    (XO (XI XH)))))))))))))) :: (((Zpos (XO (XO (XO (XO (XO (XO (XO (XI (XI
    (XI (XO (XI XH))))))))))))), (Zpos (XI (XI (XO (XO (XI (XI (XI (XI (XI
    (XI (XO (XI XH)))))))))))))) :: (((Zpos (XO (XO (XI (XI (XI (XI (XI (XI
    (XI (XI (XO (XI XH))))))))))))), (Zpos (XI (XI (XI (XO (XI (XI (XO (XO
    (XO (XO (XI (XI XH)))))))))))))) :: (((Zpos (XI (XI (XO (XI (XI (XI (XO
    (XO (XO (XO (XI (XI XH))))))))))))), (Zpos (XI (XO (XO (XI (XO (XO (XI
    (XO (XO (XO (XI (XI XH)))))))))))))) :: (((Zpos (XI (XO (XI (XI (XO (XO
    (XI (XO (XO (XO (XI (XI XH))))))))))))), (Zpos (XO (XO (XO (XI (XO (XO
    (XO (XI (XO (XO (XI (XI XH)))))))))))))) :: (((Zpos (XO (XO (XO (XO (XI
    (XO (XO (XI (XO (XO (XI (XI XH))))))))))))), (Zpos (XO (XI (XO (XI (XI
    (XI (XO (XI (XO (XO (XI (XI XH)))))))))))))) :: (((Zpos (XI (XO (XI (XI
    (XI (XI (XO (XI (XO (XO (XI (XI XH))))))))))))), (Zpos (XI (XI (XI (XO
    (XO (XO (XI (XI (XO (XO (XI (XI XH)))))))))))))) :: (((Zpos (XO (XO (XO
    (XO (XI (XO (XI (XI (XO (XO (XI (XI XH))))))))))))), (Zpos (XO (XI (XO
    (XI (XI (XI (XI (XI (XO (XO (XI (XI XH)))))))))))))) :: (((Zpos (XO (XO
    (XO (XO (XO (XO (XO (XO (XI (XO (XI (XI XH))))))))))))), (Zpos (XI (XO
    (XI (XO (XI (XO (XO (XO (XI (XI (XI (XI XH)))))))))))))) :: (((Zpos (XO
    (XO (XO (XI (XI (XO (XO (XO (XI (XI (XI (XI XH))))))))))))), (Zpos (XI
    (XO (XI (XI (XI (XO (XO (XO (XI (XI (XI (XI XH)))))))))))))) :: (((Zpos
    (XO (XO (XO (XO (XO (XI (XO (XO (XI (XI (XI (XI XH))))))))))))), (Zpos
    (XI (XO (XI (XO (XO (XO (XI (XO (XI (XI (XI (XI
    XH)))))))))))))) :: (((Zpos (XO (XO (XO (XI (XO (XO (XI (XO (XI (XI (XI
    (XI XH))))))))))))), (Zpos (XI (XO (XI (XI (XO (XO (XI (XO (XI (XI (XI
    (XI XH)))))))))))))) :: (((Zpos (XO (XO (XO (XO (XI (XO (XI (XO (XI (XI
    (XI (XI XH))))))))))))), (Zpos (XI (XI (XI (XO (XI (XO (XI (XO (XI (XI
    (XI (XI XH)))))))))))))) :: (((Zpos (XI (XO (XO (XI (XI (XO (XI (XO (XI
    (XI (XI (XI XH))))))))))))), (Zpos (XI (XO (XO (XI (XI (XO (XI (XO (XI
    (XI (XI (XI XH)))))))))))))) :: (((Zpos (XI (XI (XO (XI (XI (XO (XI (XO
    (XI (XI (XI (XI XH))))))))))))), (Zpos (XI (XI (XO (XI (XI (XO (XI (XO
    (XI (XI (XI (XI XH)))))))))))))) :: (((Zpos (XI (XO (XI (XI (XI (XO (XI
    (XO (XI (XI (XI (XI XH))))))))))))), (Zpos (XI (XO (XI (XI (XI (XO (XI
    (XO (XI (XI (XI (XI XH)))))))))))))) :: (((Zpos (XI (XI (XI (XI (XI (XO
    (XI (XO (XI (XI (XI (XI XH))))))))))))), (Zpos (XI (XO (XI (XI (XI (XI
    (XI (XO (XI (XI (XI (XI XH)))))))))))))) :: (((Zpos (XO (XO (XO (XO (XO
    (XO (XO (XI (XI (XI (XI (XI XH))))))))))))), (Zpos (XO (XO (XI (XO (XI
    (XI (XO (XI (XI (XI (XI (XI XH)))))))))))))) :: (((Zpos (XO (XI (XI (XO
    (XI (XI (XO (XI (XI (XI (XI (XI XH))))))))))))), (Zpos (XO (XO (XI (XO
    (XO (XO (XI (XI (XI (XI (XI (XI
    XH)))))))))))))) :: []))))))))))))))))))))))))) :: ((((Zpos (XO (XI (XI
    (XO (XO (XO (XI (XI (XI (XI (XI (XI XH))))))))))))), (Zpos (XO (XI (XI
    (XO (XI (XO (XO (XI (XI (XO (XI (XI (XO XH))))))))))))))), (((Zpos (XO
    (XI (XI (XO (XO (XO (XI (XI (XI (XI (XI (XI XH))))))))))))), (Zpos (XI
    (XI (XO (XO (XI (XO (XI (XI (XI (XI (XI (XI XH)))))))))))))) :: (((Zpos
    (XO (XI (XI (XO (XI (XO (XI (XI (XI (XI (XI (XI XH))))))))))))), (Zpos
    (XI (XI (XO (XI (XI (XO (XI (XI (XI (XI (XI (XI
    XH)))))))))))))) :: (((Zpos (XI (XO (XI (XI (XI (XO (XI (XI (XI (XI (XI
    (XI XH))))))))))))), (Zpos (XI (XI (XI (XI (XO (XI (XI (XI (XI (XI (XI
    (XI XH)))))))))))))) :: (((Zpos (XO (XI (XO (XO (XI (XI (XI (XI (XI (XI
    (XI (XI XH))))))))))))), (Zpos (XO (XO (XI (XO (XI (XI (XI (XI (XI (XI
    (XI (XI XH)))))))))))))) :: (((Zpos (XO (XI (XI (XO (XI (XI (XI (XI (XI
    (XI (XI (XI XH))))))))))))), (Zpos (XO (XI (XI (XI (XI (XI (XI (XI (XI
    (XI (XI (XI XH)))))))))))))) :: (((Zpos (XO (XO (XO (XO (XI (XO (XO (XO
    (XO (XO (XO (XO (XO XH)))))))))))))), (Zpos (XI (XI (XI (XO (XO (XI (XO
    (XO (XO (XO (XO (XO (XO XH))))))))))))))) :: (((Zpos (XO (XO (XO (XO (XI
    (XI (XO (XO (XO (XO (XO (XO (XO XH)))))))))))))), (Zpos (XO (XI (XI (XI
    (XI (XO (XI (XO (XO (XO (XO (XO (XO XH))))))))))))))) :: (((Zpos (XO (XO
    (XO (XO (XI (XI (XI (XO (XO (XO (XO (XO (XO XH)))))))))))))), (Zpos (XI
    (XO (XO (XO (XI (XI (XI (XO (XO (XO (XO (XO (XO
    XH))))))))))))))) :: (((Zpos (XO (XO (XI (XO (XI (XI (XI (XO (XO (XO (XO
    (XO (XO XH)))))))))))))), (Zpos (XO (XI (XI (XI (XO (XO (XO (XI (XO (XO
    (XO (XO (XO XH))))))))))))))) :: (((Zpos (XO (XO (XO (XO (XI (XO (XO (XI
    (XO (XO (XO (XO (XO XH)))))))))))))), (Zpos (XO (XO (XI (XI (XI (XO (XO
    (XI (XO (XO (XO (XO (XO XH))))))))))))))) :: (((Zpos (XO (XO (XO (XO (XO
    (XI (XO (XI (XO (XO (XO (XO (XO XH)))))))))))))), (Zpos (XO (XO (XO (XO
    (XO (XO (XI (XI (XO (XO (XO (XO (XO XH))))))))))))))) :: (((Zpos (XO (XO
    (XO (XO (XI (XO (XI (XI (XO (XO (XO (XO (XO XH)))))))))))))), (Zpos (XO
    (XO (XO (XO (XI (XI (XI (XI (XO (XO (XO (XO (XO
    XH))))))))))))))) :: (((Zpos (XO (XO (XO (XO (XO (XO (XO (XO (XI (XO (XO
    (XO (XO XH)))))))))))))), (Zpos (XI (XI (XO (XI (XO (XO (XO (XI (XI (XO
    (XO (XO (XO XH))))))))))))))) :: (((Zpos (XO (XO (XO (XO (XI (XO (XO (XI
    (XI (XO (XO (XO (XO XH)))))))))))))), (Zpos (XO (XI (XI (XO (XO (XI (XO
    (XO (XO (XO (XI (XO (XO XH))))))))))))))) :: (((Zpos (XO (XO (XO (XO (XO
    (XO (XI (XO (XO (XO (XI (XO (XO XH)))))))))))))), (Zpos (XO (XI (XO (XI
    (XO (XO (XI (XO (XO (XO (XI (XO (XO XH))))))))))))))) :: (((Zpos (XO (XO
    (XO (XO (XO (XI (XI (XO (XO (XO (XI (XO (XO XH)))))))))))))), (Zpos (XI
    (XI (XO (XO (XI (XI (XI (XO (XI (XI (XO (XI (XO
    XH))))))))))))))) :: (((Zpos (XO (XI (XI (XO (XI (XI (XI (XO (XI (XI (XO
    (XI (XO XH)))))))))))))), (Zpos (XI (XO (XI (XO (XI (XO (XO (XI (XI (XI
    (XO (XI (XO XH))))))))))))))) :: (((Zpos (XI (XI (XI (XO (XI (XO (XO (XI
    (XI (XI (XO (XI (XO XH)))))))))))))), (Zpos (XI (XI (XO (XO (XI (XI (XI
    (XI (XO (XO (XI (XI (XO XH))))))))))))))) :: (((Zpos (XI (XO (XO (XI (XI
    (XI (XI (XI (XO (XO (XI (XI (XO XH)))))))))))))), (Zpos (XI (XO (XI (XO
    (XO (XI (XO (XO (XI (XO (XI (XI (XO XH))))))))))))))) :: (((Zpos (XI (XI
    (XI (XO (XO (XI (XO (XO (XI (XO (XI (XI (XO XH)))))))))))))), (Zpos (XI
    (XI (XI (XO (XO (XI (XO (XO (XI (XO (XI (XI (XO
    XH))))))))))))))) :: (((Zpos (XI (XO (XI (XI (XO (XI (XO (XO (XI (XO (XI
    (XI (XO XH)))))))))))))), (Zpos (XI (XO (XI (XI (XO (XI (XO (XO (XI (XO
    (XI (XI (XO XH))))))))))))))) :: (((Zpos (XO (XO (XO (XO (XI (XI (XO (XO
    (XI (XO (XI (XI (XO XH)))))))))))))), (Zpos (XI (XI (XI (XO (XO (XI (XI
    (XO (XI (XO (XI (XI (XO XH))))))))))))))) :: (((Zpos (XI (XI (XI (XI (XO
    (XI (XI (XO (XI (XO (XI (XI (XO XH)))))))))))))), (Zpos (XO (XO (XO (XO
    (XI (XI (XI (XO (XI (XO (XI (XI (XO XH))))))))))))))) :: (((Zpos (XI (XI
    (XI (XI (XI (XI (XI (XO (XI (XO (XI (XI (XO XH)))))))))))))), (Zpos (XO
    (XI (XI (XO (XI (XO (XO (XI (XI (XO (XI (XI (XO
    XH))))))))))))))) :: []))))))))))))))))))))))))) :: ((((Zpos (XO (XO (XO
    (XO (XO (XI (XO (XI (XI (XO (XI (XI (XO XH)))))))))))))), (Zpos (XI (XI
    (XI (XO (XI (XI (XI (XI (XO (XI (XI (XO (XO (XI (XO XH))))))))))))))))),
    (((Zpos (XO (XO (XO (XO (XO (XI (XO (XI (XI (XO (XI (XI (XO
    XH)))))))))))))), (Zpos (XO (XI (XI (XO (XO (XI (XO (XI (XI (XO (XI (XI
    (XO XH))))))))))))))) :: (((Zpos (XO (XO (XO (XI (XO (XI (XO (XI (XI (XO
    (XI (XI (XO XH)))))))))))))), (Zpos (XO (XI (XI (XI (XO (XI (XO (XI (XI
    (XO (XI (XI (XO XH))))))))))))))) :: (((Zpos (XO (XO (XO (XO (XI (XI (XO
    (XI (XI (XO (XI (XI (XO XH)))))))))))))), (Zpos (XO (XI (XI (XO (XI (XI
    (XO (XI (XI (XO (XI (XI (XO XH))))))))))))))) :: (((Zpos (XO (XO (XO (XI
    (XI (XI (XO (XI (XI (XO (XI (XI (XO XH)))))))))))))), (Zpos (XO (XI (XI
    (XI (XI (XI (XO (XI (XI (XO (XI (XI (XO XH))))))))))))))) :: (((Zpos (XO
    (XO (XO (XO (XO (XO (XI (XI (XI (XO (XI (XI (XO XH)))))))))))))), (Zpos
    (XO (XI (XI (XO (XO (XO (XI (XI (XI (XO (XI (XI (XO
    XH))))))))))))))) :: (((Zpos (XO (XO (XO (XI (XO (XO (XI (XI (XI (XO (XI
    (XI (XO XH)))))))))))))), (Zpos (XO (XI (XI (XI (XO (XO (XI (XI (XI (XO
    (XI (XI (XO XH))))))))))))))) :: (((Zpos (XO (XO (XO (XO (XI (XO (XI (XI
    (XI (XO (XI (XI (XO XH)))))))))))))), (Zpos (XO (XI (XI (XO (XI (XO (XI
    (XI (XI (XO (XI (XI (XO XH))))))))))))))) :: (((Zpos (XO (XO (XO (XI (XI
    (XO (XI (XI (XI (XO (XI (XI (XO XH)))))))))))))), (Zpos (XO (XI (XI (XI
    (XI (XO (XI (XI (XI (XO (XI (XI (XO XH))))))))))))))) :: (((Zpos (XO (XO
    (XO (XO (XO (XI (XI (XI (XI (XO (XI (XI (XO XH)))))))))))))), (Zpos (XI
    (XO (XI (XI (XI (XO (XI (XO (XO (XI (XI (XI (XO
    XH))))))))))))))) :: (((Zpos (XO (XO (XO (XO (XO (XO (XO (XI (XO (XI (XI
    (XI (XO XH)))))))))))))), (Zpos (XI (XO (XO (XI (XI (XO (XO (XI (XO (XI
    (XI (XI (XO XH))))))))))))))) :: (((Zpos (XI (XI (XO (XI (XI (XO (XO (XI
    (XO (XI (XI (XI (XO XH)))))))))))))), (Zpos (XI (XI (XO (XO (XI (XI (XI
    (XI (XO (XI (XI (XI (XO XH))))))))))))))) :: (((Zpos (XO (XO (XO (XO (XO
    (XO (XO (XO (XI (XI (XI (XI (XO XH)))))))))))))), (Zpos (XI (XO (XI (XO
    (XI (XO (XI (XI (XI (XI (XI (XI (XO XH))))))))))))))) :: (((Zpos (XO (XO
    (XO (XO (XI (XI (XI (XI (XI (XI (XI (XI (XO XH)))))))))))))), (Zpos (XI
    (XI (XO (XI (XI (XI (XI (XI (XI (XI (XI (XI (XO
    XH))))))))))))))) :: (((Zpos (XI (XO (XO (XO (XO (XO (XO (XO (XO (XO (XO
    (XO (XI XH)))))))))))))), (Zpos (XI (XI (XI (XI (XI (XI (XO (XO (XO (XO
    (XO (XO (XI XH))))))))))))))) :: (((Zpos (XI (XO (XO (XO (XO (XO (XI (XO
    (XO (XO (XO (XO (XI XH)))))))))))))), (Zpos (XO (XI (XI (XO (XI (XO (XO
    (XI (XO (XO (XO (XO (XI XH))))))))))))))) :: (((Zpos (XI (XO (XO (XI (XI
    (XO (XO (XI (XO (XO (XO (XO (XI XH)))))))))))))), (Zpos (XI (XI (XI (XI
    (XI (XI (XI (XI (XO (XO (XO (XO (XI XH))))))))))))))) :: (((Zpos (XI (XO
    (XI (XO (XO (XO (XO (XO (XI (XO (XO (XO (XI XH)))))))))))))), (Zpos (XI
    (XI (XI (XI (XO (XI (XO (XO (XI (XO (XO (XO (XI
    XH))))))))))))))) :: (((Zpos (XI (XO (XO (XO (XI (XI (XO (XO (XI (XO (XO
    (XO (XI XH)))))))))))))), (Zpos (XO (XI (XI (XI (XO (XO (XO (XI (XI (XO
    (XO (XO (XI XH))))))))))))))) :: (((Zpos (XO (XO (XO (XO (XI (XO (XO (XI
    (XI (XO (XO (XO (XI XH)))))))))))))), (Zpos (XI (XI (XO (XO (XO (XI (XI
    (XI (XI (XO (XO (XO (XI XH))))))))))))))) :: (((Zpos (XO (XO (XO (XO (XI
    (XI (XI (XI (XI (XO (XO (XO (XI XH)))))))))))))), (Zpos (XO (XI (XI (XI
    (XI (XO (XO (XO (XO (XI (XO (XO (XI XH))))))))))))))) :: (((Zpos (XO (XO
    (XO (XO (XO (XI (XO (XO (XO (XI (XO (XO (XI XH)))))))))))))), (Zpos (XO
    (XO (XI (XI (XO (XO (XO (XI (XO (XO (XI (XO (XO (XI (XO
    XH))))))))))))))))) :: (((Zpos (XO (XO (XO (XO (XI (XO (XO (XI (XO (XO
    (XI (XO (XO (XI (XO XH)))))))))))))))), (Zpos (XO (XI (XI (XO (XO (XO (XI
    (XI (XO (XO (XI (XO (XO (XI (XO XH))))))))))))))))) :: (((Zpos (XO (XO
    (XO (XO (XI (XO (XI (XI (XO (XO (XI (XO (XO (XI (XO XH)))))))))))))))),
    (Zpos (XI (XI (XO (XI (XO (XI (XO (XO (XO (XI (XI (XO (XO (XI (XO
    XH))))))))))))))))) :: (((Zpos (XO (XO (XO (XO (XO (XO (XI (XO (XO (XI
    (XI (XO (XO (XI (XO XH)))))))))))))))), (Zpos (XI (XI (XI (XO (XI (XI (XI
    (XI (XO (XI (XI (XO (XO (XI (XO
    XH))))))))))))))))) :: []))))))))))))))))))))))))) :: ((((Zpos (XO (XO
    (XO (XO (XO (XO (XO (XO (XI (XI (XI (XO (XO (XI (XO XH)))))))))))))))),
    (Zpos (XO (XI (XI (XI (XO (XI (XO (XO (XI (XI (XO (XI (XO (XI (XO
    XH))))))))))))))))), (((Zpos (XO (XO (XO (XO (XO (XO (XO (XO (XI (XI (XI
    (XO (XO (XI (XO XH)))))))))))))))), (Zpos (XO (XI (XO (XI (XO (XO (XI (XI
    (XI (XI (XI (XO (XO (XI (XO XH))))))))))))))))) :: (((Zpos (XO (XO (XO
    (XO (XI (XO (XI (XI (XI (XI (XI (XO (XO (XI (XO XH)))))))))))))))), (Zpos
    (XI (XO (XO (XO (XI (XO (XI (XI (XI (XI (XI (XO (XO (XI (XO
    XH))))))))))))))))) :: (((Zpos (XI (XI (XO (XO (XI (XO (XI (XI (XI (XI
    (XI (XO (XO (XI (XO XH)))))))))))))))), (Zpos (XI (XI (XO (XO (XI (XO (XI
    (XI (XI (XI (XI (XO (XO (XI (XO XH))))))))))))))))) :: (((Zpos (XI (XO
    (XI (XO (XI (XO (XI (XI (XI (XI (XI (XO (XO (XI (XO XH)))))))))))))))),
    (Zpos (XI (XO (XO (XI (XI (XO (XI (XI (XI (XI (XI (XO (XO (XI (XO
    XH))))))))))))))))) :: (((Zpos (XO (XI (XO (XO (XI (XI (XI (XI (XI (XI
    (XI (XO (XO (XI (XO XH)))))))))))))))), (Zpos (XO (XO (XI (XI (XO (XI (XO
    (XO (XO (XO (XO (XI (XO (XI (XO XH))))))))))))))))) :: (((Zpos (XO (XO
    (XO (XO (XI (XI (XO (XO (XO (XO (XO (XI (XO (XI (XO XH)))))))))))))))),
    (Zpos (XI (XO (XO (XI (XI (XI (XO (XO (XO (XO (XO (XI (XO (XI (XO
    XH))))))))))))))))) :: (((Zpos (XO (XO (XO (XO (XO (XO (XI (XO (XO (XO
    (XO (XI (XO (XI (XO XH)))))))))))))))), (Zpos (XI (XI (XI (XO (XI (XI (XI
    (XO (XO (XO (XO (XI (XO (XI (XO XH))))))))))))))))) :: (((Zpos (XO (XO
    (XO (XO (XO (XO (XO (XI (XO (XO (XO (XI (XO (XI (XO XH)))))))))))))))),
    (Zpos (XI (XO (XI (XO (XO (XO (XI (XI (XO (XO (XO (XI (XO (XI (XO
    XH))))))))))))))))) :: (((Zpos (XO (XI (XI (XI (XO (XO (XI (XI (XO (XO
    (XO (XI (XO (XI (XO XH)))))))))))))))), (Zpos (XI (XO (XO (XI (XI (XO (XI
    (XI (XO (XO (XO (XI (XO (XI (XO XH))))))))))))))))) :: (((Zpos (XO (XO
    (XO (XO (XO (XI (XI (XI (XO (XO (XO (XI (XO (XI (XO XH)))))))))))))))),
    (Zpos (XI (XI (XO (XO (XI (XO (XI (XO (XI (XO (XO (XI (XO (XI (XO
    XH))))))))))))))))) :: (((Zpos (XI (XI (XI (XI (XI (XO (XI (XO (XI (XO
    (XO (XI (XO (XI (XO XH)))))))))))))))), (Zpos (XO (XO (XI (XI (XI (XI (XI
    (XO (XI (XO (XO (XI (XO (XI (XO XH))))))))))))))))) :: (((Zpos (XO (XO
    (XO (XO (XO (XO (XO (XI (XI (XO (XO (XI (XO (XI (XO XH)))))))))))))))),
    (Zpos (XI (XO (XI (XI (XO (XO (XI (XI (XI (XO (XO (XI (XO (XI (XO
    XH))))))))))))))))) :: (((Zpos (XI (XI (XI (XI (XO (XO (XI (XI (XI (XO
    (XO (XI (XO (XI (XO XH)))))))))))))))), (Zpos (XI (XO (XO (XI (XI (XO (XI
    (XI (XI (XO (XO (XI (XO (XI (XO XH))))))))))))))))) :: (((Zpos (XO (XI
    (XI (XI (XI (XO (XI (XI (XI (XO (XO (XI (XO (XI (XO XH)))))))))))))))),
    (Zpos (XO (XI (XI (XI (XI (XI (XI (XI (XI (XO (XO (XI (XO (XI (XO
    XH))))))))))))))))) :: (((Zpos (XO (XO (XO (XO (XO (XO (XO (XO (XO (XI
    (XO (XI (XO (XI (XO XH)))))))))))))))), (Zpos (XO (XI (XI (XO (XI (XI (XO
    (XO (XO (XI (XO (XI (XO (XI (XO XH))))))))))))))))) :: (((Zpos (XO (XO
    (XO (XO (XO (XO (XI (XO (XO (XI (XO (XI (XO (XI (XO XH)))))))))))))))),
    (Zpos (XI (XO (XI (XI (XO (XO (XI (XO (XO (XI (XO (XI (XO (XI (XO
    XH))))))))))))))))) :: (((Zpos (XO (XO (XO (XO (XI (XO (XI (XO (XO (XI
    (XO (XI (XO (XI (XO XH)))))))))))))))), (Zpos (XI (XO (XO (XI (XI (XO (XI
    (XO (XO (XI (XO (XI (XO (XI (XO XH))))))))))))))))) :: (((Zpos (XO (XO
    (XI (XI (XI (XO (XI (XO (XO (XI (XO (XI (XO (XI (XO XH)))))))))))))))),
    (Zpos (XO (XI (XO (XO (XO (XO (XI (XI (XO (XI (XO (XI (XO (XI (XO
    XH))))))))))))))))) :: (((Zpos (XI (XI (XO (XI (XI (XO (XI (XI (XO (XI
    (XO (XI (XO (XI (XO XH)))))))))))))))), (Zpos (XO (XI (XI (XO (XI (XI (XI
    (XI (XO (XI (XO (XI (XO (XI (XO XH))))))))))))))))) :: (((Zpos (XI (XO
    (XO (XO (XO (XO (XO (XO (XI (XI (XO (XI (XO (XI (XO XH)))))))))))))))),
    (Zpos (XO (XI (XI (XO (XO (XO (XO (XO (XI (XI (XO (XI (XO (XI (XO
    XH))))))))))))))))) :: (((Zpos (XI (XO (XO (XI (XO (XO (XO (XO (XI (XI
    (XO (XI (XO (XI (XO XH)))))))))))))))), (Zpos (XO (XI (XI (XI (XO (XO (XO
    (XO (XI (XI (XO (XI (XO (XI (XO XH))))))))))))))))) :: (((Zpos (XI (XO
    (XO (XO (XI (XO (XO (XO (XI (XI (XO (XI (XO (XI (XO XH)))))))))))))))),
    (Zpos (XO (XI (XI (XO (XI (XO (XO (XO (XI (XI (XO (XI (XO (XI (XO
    XH))))))))))))))))) :: (((Zpos (XO (XO (XO (XO (XO (XI (XO (XO (XI (XI
    (XO (XI (XO (XI (XO XH)))))))))))))))), (Zpos (XO (XI (XI (XO (XO (XI (XO
    (XO (XI (XI (XO (XI (XO (XI (XO XH))))))))))))))))) :: (((Zpos (XO (XO
    (XO (XI (XO (XI (XO (XO (XI (XI (XO (XI (XO (XI (XO XH)))))))))))))))),
    (Zpos (XO (XI (XI (XI (XO (XI (XO (XO (XI (XI (XO (XI (XO (XI (XO
    XH))))))))))))))))) :: []))))))))))))))))))))))))) :: ((((Zpos (XO (XO
    (XO (XO (XI (XI (XO (XO (XI (XI (XO (XI (XO (XI (XO XH)))))))))))))))),
    (Zpos (XO (XO (XI (XO (XI (XI (XI (XO (XO (XI (XI (XI (XI (XI (XI
    XH))))))))))))))))), (((Zpos (XO (XO (XO (XO (XI (XI (XO (XO (XI (XI (XO
    (XI (XO (XI (XO XH)))))))))))))))), (Zpos (XI (XI (XO (XI (XO (XI (XI (XO
    (XI (XI (XO (XI (XO (XI (XO XH))))))))))))))))) :: (((Zpos (XO (XO (XO
    (XO (XI (XI (XI (XO (XI (XI (XO (XI (XO (XI (XO XH)))))))))))))))), (Zpos
    (XI (XO (XI (XI (XO (XI (XI (XI (XI (XI (XO (XI (XO (XI (XO
    XH))))))))))))))))) :: (((Zpos (XO (XO (XO (XO (XI (XI (XI (XI (XI (XI
    (XO (XI (XO (XI (XO XH)))))))))))))))), (Zpos (XI (XO (XO (XI (XI (XI (XI
    (XI (XI (XI (XO (XI (XO (XI (XO XH))))))))))))))))) :: (((Zpos (XO (XO
    (XO (XO (XO (XO (XO (XO (XO (XO (XI (XI (XO (XI (XO XH)))))))))))))))),
    (Zpos (XI (XI (XO (XO (XO (XI (XO (XI (XI (XI (XI (XO (XI (XO (XI
    XH))))))))))))))))) :: (((Zpos (XO (XO (XO (XO (XI (XI (XO (XI (XI (XI
    (XI (XO (XI (XO (XI XH)))))))))))))))), (Zpos (XO (XI (XI (XO (XO (XO (XI
    (XI (XI (XI (XI (XO (XI (XO (XI XH))))))))))))))))) :: (((Zpos (XI (XI
    (XO (XI (XO (XO (XI (XI (XI (XI (XI (XO (XI (XO (XI XH)))))))))))))))),
    (Zpos (XI (XI (XO (XI (XI (XI (XI (XI (XI (XI (XI (XO (XI (XO (XI
    XH))))))))))))))))) :: (((Zpos (XO (XO (XO (XO (XO (XO (XO (XO (XI (XO
    (XO (XI (XI (XI (XI XH)))))))))))))))), (Zpos (XI (XO (XI (XI (XO (XI (XI
    (XO (XO (XI (XO (XI (XI (XI (XI XH))))))))))))))))) :: (((Zpos (XO (XO
    (XO (XO (XI (XI (XI (XO (XO (XI (XO (XI (XI (XI (XI XH)))))))))))))))),
    (Zpos (XI (XO (XO (XI (XI (XO (XI (XI (XO (XI (XO (XI (XI (XI (XI
    XH))))))))))))))))) :: (((Zpos (XO (XO (XO (XO (XO (XO (XO (XO (XI (XI
    (XO (XI (XI (XI (XI XH)))))))))))))))), (Zpos (XO (XI (XI (XO (XO (XO (XO
    (XO (XI (XI (XO (XI (XI (XI (XI XH))))))))))))))))) :: (((Zpos (XI (XI
    (XO (XO (XI (XO (XO (XO (XI (XI (XO (XI (XI (XI (XI XH)))))))))))))))),
    (Zpos (XI (XI (XI (XO (XI (XO (XO (XO (XI (XI (XO (XI (XI (XI (XI
    XH))))))))))))))))) :: (((Zpos (XI (XO (XI (XI (XI (XO (XO (XO (XI (XI
    (XO (XI (XI (XI (XI XH)))))))))))))))), (Zpos (XO (XI (XI (XO (XI (XI (XO
    (XO (XI (XI (XO (XI (XI (XI (XI XH))))))))))))))))) :: (((Zpos (XO (XO
    (XO (XI (XI (XI (XO (XO (XI (XI (XO (XI (XI (XI (XI XH)))))))))))))))),
    (Zpos (XO (XO (XI (XI (XI (XI (XO (XO (XI (XI (XO (XI (XI (XI (XI
    XH))))))))))))))))) :: (((Zpos (XO (XI (XI (XI (XI (XI (XO (XO (XI (XI
    (XO (XI (XI (XI (XI XH)))))))))))))))), (Zpos (XO (XI (XI (XI (XI (XI (XO
    (XO (XI (XI (XO (XI (XI (XI (XI XH))))))))))))))))) :: (((Zpos (XO (XO
    (XO (XO (XO (XO (XI (XO (XI (XI (XO (XI (XI (XI (XI XH)))))))))))))))),
    (Zpos (XI (XO (XO (XO (XO (XO (XI (XO (XI (XI (XO (XI (XI (XI (XI
    XH))))))))))))))))) :: (((Zpos (XI (XI (XO (XO (XO (XO (XI (XO (XI (XI
    (XO (XI (XI (XI (XI XH)))))))))))))))), (Zpos (XO (XO (XI (XO (XO (XO (XI
    (XO (XI (XI (XO (XI (XI (XI (XI XH))))))))))))))))) :: (((Zpos (XO (XI
    (XI (XO (XO (XO (XI (XO (XI (XI (XO (XI (XI (XI (XI XH)))))))))))))))),
    (Zpos (XO (XI (XO (XO (XO (XO (XI (XI (XI (XI (XO (XI (XI (XI (XI
    XH))))))))))))))))) :: (((Zpos (XI (XI (XO (XO (XI (XO (XI (XI (XI (XI
    (XO (XI (XI (XI (XI XH)))))))))))))))), (Zpos (XI (XI (XI (XI (XO (XO (XO
    (XI (XI (XO (XI (XI (XI (XI (XI XH))))))))))))))))) :: (((Zpos (XO (XI
    (XO (XO (XI (XO (XO (XI (XI (XO (XI (XI (XI (XI (XI XH)))))))))))))))),
    (Zpos (XI (XI (XI (XO (XO (XO (XI (XI (XI (XO (XI (XI (XI (XI (XI
    XH))))))))))))))))) :: (((Zpos (XI (XI (XI (XI (XO (XO (XI (XI (XI (XO
    (XI (XI (XI (XI (XI XH)))))))))))))))), (Zpos (XI (XI (XI (XI (XO (XO (XI
    (XI (XI (XO (XI (XI (XI (XI (XI XH))))))))))))))))) :: (((Zpos (XO (XO
    (XO (XO (XI (XI (XI (XI (XI (XO (XI (XI (XI (XI (XI XH)))))))))))))))),
    (Zpos (XI (XO (XO (XI (XI (XO (XO (XO (XO (XI (XI (XI (XI (XI (XI
    XH))))))))))))))))) :: (((Zpos (XO (XO (XO (XO (XO (XI (XO (XO (XO (XI
    (XI (XI (XI (XI (XI XH)))))))))))))))), (Zpos (XO (XI (XO (XO (XI (XO (XI
    (XO (XO (XI (XI (XI (XI (XI (XI XH))))))))))))))))) :: (((Zpos (XO (XO
    (XI (XO (XI (XO (XI (XO (XO (XI (XI (XI (XI (XI (XI XH)))))))))))))))),
    (Zpos (XO (XI (XI (XO (XO (XI (XI (XO (XO (XI (XI (XI (XI (XI (XI
    XH))))))))))))))))) :: (((Zpos (XO (XO (XO (XI (XO (XI (XI (XO (XO (XI
    (XI (XI (XI (XI (XI XH)))))))))))))))), (Zpos (XI (XI (XO (XI (XO (XI (XI
    (XO (XO (XI (XI (XI (XI (XI (XI XH))))))))))))))))) :: (((Zpos (XO (XO
    (XO (XO (XI (XI (XI (XO (XO (XI (XI (XI (XI (XI (XI XH)))))))))))))))),
    (Zpos (XO (XO (XI (XO (XI (XI (XI (XO (XO (XI (XI (XI (XI (XI (XI
    XH))))))))))))))))) :: []))))))))))))))))))))))))) :: ((((Zpos (XO (XI
    (XI (XO (XI (XI (XI (XO (XO (XI (XI (XI (XI (XI (XI XH)))))))))))))))),
    (Zpos (XO (XO (XO (XO (XI (XO (XI (XI (XO (XI (XO (XO (XO (XO (XO (XO
    XH)))))))))))))))))), (((Zpos (XO (XI (XI (XO (XI (XI (XI (XO (XO (XI (XI
    (XI (XI (XI (XI XH)))))))))))))))), (Zpos (XO (XO (XI (XI (XI (XI (XI (XI
    (XO (XI (XI (XI (XI (XI (XI XH))))))))))))))))) :: (((Zpos (XI (XO (XO
    (XO (XO (XO (XO (XO (XI (XI (XI (XI (XI (XI (XI XH)))))))))))))))), (Zpos
    (XO (XI (XI (XI (XI (XI (XO (XI (XI (XI (XI (XI (XI (XI (XI
    XH))))))))))))))))) :: (((Zpos (XO (XI (XO (XO (XO (XO (XI (XI (XI (XI
    (XI (XI (XI (XI (XI XH)))))))))))))))), (Zpos (XI (XI (XI (XO (XO (XO (XI
    (XI (XI (XI (XI (XI (XI (XI (XI XH))))))))))))))))) :: (((Zpos (XO (XI
    (XO (XI (XO (XO (XI (XI (XI (XI (XI (XI (XI (XI (XI XH)))))))))))))))),
    (Zpos (XI (XI (XI (XI (XO (XO (XI (XI (XI (XI (XI (XI (XI (XI (XI
    XH))))))))))))))))) :: (((Zpos (XO (XI (XO (XO (XI (XO (XI (XI (XI (XI
    (XI (XI (XI (XI (XI XH)))))))))))))))), (Zpos (XI (XI (XI (XO (XI (XO (XI
    (XI (XI (XI (XI (XI (XI (XI (XI XH))))))))))))))))) :: (((Zpos (XO (XI
    (XO (XI (XI (XO (XI (XI (XI (XI (XI (XI (XI (XI (XI XH)))))))))))))))),
    (Zpos (XO (XO (XI (XI (XI (XO (XI (XI (XI (XI (XI (XI (XI (XI (XI
    XH))))))))))))))))) :: (((Zpos (XO (XO (XO (XO (XO (XI (XI (XI (XI (XI
    (XI (XI (XI (XI (XI XH)))))))))))))))), (Zpos (XO (XI (XI (XO (XO (XI (XI
    (XI (XI (XI (XI (XI (XI (XI (XI XH))))))))))))))))) :: (((Zpos (XO (XO
    (XO (XI (XO (XI (XI (XI (XI (XI (XI (XI (XI (XI (XI XH)))))))))))))))),
    (Zpos (XO (XI (XI (XI (XO (XI (XI (XI (XI (XI (XI (XI (XI (XI (XI
    XH))))))))))))))))) :: (((Zpos (XO (XO (XI (XI (XI (XI (XI (XI (XI (XI
    (XI (XI (XI (XI (XI XH)))))))))))))))), (Zpos (XI (XO (XI (XI (XI (XI (XI
    (XI (XI (XI (XI (XI (XI (XI (XI XH))))))))))))))))) :: (((Zpos (XO (XO
    (XO (XO (XO (XO (XO (XO (XO (XO (XO (XO (XO (XO (XO (XO
    XH))))))))))))))))), (Zpos (XI (XI (XO (XI (XO (XO (XO (XO (XO (XO (XO
    (XO (XO (XO (XO (XO XH)))))))))))))))))) :: (((Zpos (XI (XO (XI (XI (XO
    (XO (XO (XO (XO (XO (XO (XO (XO (XO (XO (XO XH))))))))))))))))), (Zpos
    (XO (XI (XI (XO (XO (XI (XO (XO (XO (XO (XO (XO (XO (XO (XO (XO
    XH)))))))))))))))))) :: (((Zpos (XO (XO (XO (XI (XO (XI (XO (XO (XO (XO
    (XO (XO (XO (XO (XO (XO XH))))))))))))))))), (Zpos (XO (XI (XO (XI (XI
    (XI (XO (XO (XO (XO (XO (XO (XO (XO (XO (XO
    XH)))))))))))))))))) :: (((Zpos (XO (XO (XI (XI (XI (XI (XO (XO (XO (XO
    (XO (XO (XO (XO (XO (XO XH))))))))))))))))), (Zpos (XI (XO (XI (XI (XI
    (XI (XO (XO (XO (XO (XO (XO (XO (XO (XO (XO
    XH)))))))))))))))))) :: (((Zpos (XI (XI (XI (XI (XI (XI (XO (XO (XO (XO
    (XO (XO (XO (XO (XO (XO XH))))))))))))))))), (Zpos (XI (XO (XI (XI (XO
    (XO (XI (XO (XO (XO (XO (XO (XO (XO (XO (XO
    XH)))))))))))))))))) :: (((Zpos (XO (XO (XO (XO (XI (XO (XI (XO (XO (XO
    (XO (XO (XO (XO (XO (XO XH))))))))))))))))), (Zpos (XI (XO (XI (XI (XI
    (XO (XI (XO (XO (XO (XO (XO (XO (XO (XO (XO
    XH)))))))))))))))))) :: (((Zpos (XO (XO (XO (XO (XO (XO (XO (XI (XO (XO
    (XO (XO (XO (XO (XO (XO XH))))))))))))))))), (Zpos (XO (XI (XO (XI (XI
    (XI (XI (XI (XO (XO (XO (XO (XO (XO (XO (XO
    XH)))))))))))))))))) :: (((Zpos (XO (XO (XO (XO (XO (XO (XO (XO (XI (XO
    (XO (XO (XO (XO (XO (XO XH))))))))))))))))), (Zpos (XO (XI (XO (XO (XO
    (XO (XO (XO (XI (XO (XO (XO (XO (XO (XO (XO
    XH)))))))))))))))))) :: (((Zpos (XI (XI (XI (XO (XO (XO (XO (XO (XI (XO
    (XO (XO (XO (XO (XO (XO XH))))))))))))))))), (Zpos (XI (XI (XO (XO (XI
    (XI (XO (XO (XI (XO (XO (XO (XO (XO (XO (XO
    XH)))))))))))))))))) :: (((Zpos (XI (XI (XI (XO (XI (XI (XO (XO (XI (XO
    (XO (XO (XO (XO (XO (XO XH))))))))))))))))), (Zpos (XO (XI (XI (XI (XO
    (XO (XO (XI (XI (XO (XO (XO (XO (XO (XO (XO
    XH)))))))))))))))))) :: (((Zpos (XO (XO (XO (XO (XI (XO (XO (XI (XI (XO
    (XO (XO (XO (XO (XO (XO XH))))))))))))))))), (Zpos (XO (XO (XI (XI (XI
    (XO (XO (XI (XI (XO (XO (XO (XO (XO (XO (XO
    XH)))))))))))))))))) :: (((Zpos (XO (XO (XO (XO (XO (XI (XO (XI (XI (XO
    (XO (XO (XO (XO (XO (XO XH))))))))))))))))), (Zpos (XO (XO (XO (XO (XO
    (XI (XO (XI (XI (XO (XO (XO (XO (XO (XO (XO
    XH)))))))))))))))))) :: (((Zpos (XO (XO (XO (XO (XI (XO (XI (XI (XI (XO
    (XO (XO (XO (XO (XO (XO XH))))))))))))))))), (Zpos (XI (XO (XI (XI (XI
    (XI (XI (XI (XI (XO (XO (XO (XO (XO (XO (XO
    XH)))))))))))))))))) :: (((Zpos (XO (XO (XO (XO (XO (XO (XO (XI (XO (XI
    (XO (XO (XO (XO (XO (XO XH))))))))))))))))), (Zpos (XO (XO (XI (XI (XI
    (XO (XO (XI (XO (XI (XO (XO (XO (XO (XO (XO
    XH)))))))))))))))))) :: (((Zpos (XO (XO (XO (XO (XO (XI (XO (XI (XO (XI
    (XO (XO (XO (XO (XO (XO XH))))))))))))))))), (Zpos (XO (XO (XO (XO (XI
    (XO (XI (XI (XO (XI (XO (XO (XO (XO (XO (XO
    XH)))))))))))))))))) :: []))))))))))))))))))))))))) :: ((((Zpos (XO (XO
    (XO (XO (XO (XI (XI (XI (XO (XI (XO (XO (XO (XO (XO (XO
    XH))))))))))))))))), (Zpos (XI (XI (XI (XO (XO (XI (XI (XO (XI (XI (XI
    (XO (XO (XO (XO (XO XH)))))))))))))))))), (((Zpos (XO (XO (XO (XO (XO (XI
    (XI (XI (XO (XI (XO (XO (XO (XO (XO (XO XH))))))))))))))))), (Zpos (XI
    (XI (XO (XI (XI (XI (XI (XI (XO (XI (XO (XO (XO (XO (XO (XO
    XH)))))))))))))))))) :: (((Zpos (XO (XO (XO (XO (XO (XO (XO (XO (XI (XI
    (XO (XO (XO (XO (XO (XO XH))))))))))))))))), (Zpos (XI (XI (XO (XO (XO
    (XI (XO (XO (XI (XI (XO (XO (XO (XO (XO (XO
    XH)))))))))))))))))) :: (((Zpos (XI (XO (XI (XI (XO (XI (XO (XO (XI (XI
    (XO (XO (XO (XO (XO (XO XH))))))))))))))))), (Zpos (XO (XI (XO (XI (XO
    (XO (XI (XO (XI (XI (XO (XO (XO (XO (XO (XO
    XH)))))))))))))))))) :: (((Zpos (XO (XO (XO (XO (XI (XO (XI (XO (XI (XI
    (XO (XO (XO (XO (XO (XO XH))))))))))))))))), (Zpos (XO (XI (XO (XI (XI
    (XI (XI (XO (XI (XI (XO (XO (XO (XO (XO (XO
    XH)))))))))))))))))) :: (((Zpos (XO (XO (XO (XO (XO (XO (XO (XI (XI (XI
    (XO (XO (XO (XO (XO (XO XH))))))))))))))))), (Zpos (XI (XO (XI (XI (XI
    (XO (XO (XI (XI (XI (XO (XO (XO (XO (XO (XO
    XH)))))))))))))))))) :: (((Zpos (XI (XI (XI (XI (XI (XO (XO (XI (XI (XI
    (XO (XO (XO (XO (XO (XO XH))))))))))))))))), (Zpos (XI (XI (XO (XO (XO
    (XO (XI (XI (XI (XI (XO (XO (XO (XO (XO (XO
    XH)))))))))))))))))) :: (((Zpos (XO (XO (XO (XI (XO (XO (XI (XI (XI (XI
    (XO (XO (XO (XO (XO (XO XH))))))))))))))))), (Zpos (XI (XO (XI (XO (XI
    (XO (XI (XI (XI (XI (XO (XO (XO (XO (XO (XO
    XH)))))))))))))))))) :: (((Zpos (XO (XO (XO (XO (XO (XO (XO (XO (XO (XO
    (XI (XO (XO (XO (XO (XO XH))))))))))))))))), (Zpos (XI (XO (XI (XI (XI
    (XO (XO (XI (XO (XO (XI (XO (XO (XO (XO (XO
    XH)))))))))))))))))) :: (((Zpos (XO (XO (XO (XO (XO (XI (XO (XI (XO (XO
    (XI (XO (XO (XO (XO (XO XH))))))))))))))))), (Zpos (XI (XO (XO (XI (XO
    (XI (XO (XI (XO (XO (XI (XO (XO (XO (XO (XO
    XH)))))))))))))))))) :: (((Zpos (XO (XO (XO (XO (XI (XI (XO (XI (XO (XO
    (XI (XO (XO (XO (XO (XO XH))))))))))))))))), (Zpos (XI (XI (XO (XO (XI
    (XO (XI (XI (XO (XO (XI (XO (XO (XO (XO (XO
    XH)))))))))))))))))) :: (((Zpos (XO (XO (XO (XI (XI (XO (XI (XI (XO (XO
    (XI (XO (XO (XO (XO (XO XH))))))))))))))))), (Zpos (XI (XI (XO (XI (XI
    (XI (XI (XI (XO (XO (XI (XO (XO (XO (XO (XO
    XH)))))))))))))))))) :: (((Zpos (XO (XO (XO (XO (XO (XO (XO (XO (XI (XO
    (XI (XO (XO (XO (XO (XO XH))))))))))))))))), (Zpos (XI (XI (XI (XO (XO
    (XI (XO (XO (XI (XO (XI (XO (XO (XO (XO (XO
    XH)))))))))))))))))) :: (((Zpos (XO (XO (XO (XO (XI (XI (XO (XO (XI (XO
    (XI (XO (XO (XO (XO (XO XH))))))))))))))))), (Zpos (XI (XI (XO (XO (XO
    (XI (XI (XO (XI (XO (XI (XO (XO (XO (XO (XO
    XH)))))))))))))))))) :: (((Zpos (XI (XI (XI (XI (XO (XI (XI (XO (XI (XO
    (XI (XO (XO (XO (XO (XO XH))))))))))))))))), (Zpos (XO (XI (XO (XI (XI
    (XI (XI (XO (XI (XO (XI (XO (XO (XO (XO (XO
    XH)))))))))))))))))) :: (((Zpos (XO (XO (XI (XI (XI (XI (XI (XO (XI (XO
    (XI (XO (XO (XO (XO (XO XH))))))))))))))))), (Zpos (XO (XI (XO (XI (XO
    (XO (XO (XI (XI (XO (XI (XO (XO (XO (XO (XO
    XH)))))))))))))))))) :: (((Zpos (XO (XO (XI (XI (XO (XO (XO (XI (XI (XO
    (XI (XO (XO (XO (XO (XO XH))))))))))))))))), (Zpos (XO (XI (XO (XO (XI
    (XO (XO (XI (XI (XO (XI (XO (XO (XO (XO (XO
    XH)))))))))))))))))) :: (((Zpos (XO (XO (XI (XO (XI (XO (XO (XI (XI (XO
    (XI (XO (XO (XO (XO (XO XH))))))))))))))))), (Zpos (XI (XO (XI (XO (XI
    (XO (XO (XI (XI (XO (XI (XO (XO (XO (XO (XO
    XH)))))))))))))))))) :: (((Zpos (XI (XI (XI (XO (XI (XO (XO (XI (XI (XO
    (XI (XO (XO (XO (XO (XO XH))))))))))))))))), (Zpos (XI (XO (XO (XO (XO
    (XI (XO (XI (XI (XO (XI (XO (XO (XO (XO (XO
    XH)))))))))))))))))) :: (((Zpos (XI (XI (XO (XO (XO (XI (XO (XI (XI (XO
    (XI (XO (XO (XO (XO (XO XH))))))))))))))))), (Zpos (XI (XO (XO (XO (XI
    (XI (XO (XI (XI (XO (XI (XO (XO (XO (XO (XO
    XH)))))))))))))))))) :: (((Zpos (XI (XI (XO (XO (XI (XI (XO (XI (XI (XO
    (XI (XO (XO (XO (XO (XO XH))))))))))))))))), (Zpos (XI (XO (XO (XI (XI
    (XI (XO (XI (XI (XO (XI (XO (XO (XO (XO (XO
    XH)))))))))))))))))) :: (((Zpos (XI (XI (XO (XI (XI (XI (XO (XI (XI (XO
    (XI (XO (XO (XO (XO (XO XH))))))))))))))))), (Zpos (XO (XO (XI (XI (XI
    (XI (XO (XI (XI (XO (XI (XO (XO (XO (XO (XO
    XH)))))))))))))))))) :: (((Zpos (XO (XO (XO (XO (XO (XO (XO (XO (XO (XI
    (XI (XO (XO (XO (XO (XO XH))))))))))))))))), (Zpos (XO (XI (XI (XO (XI
    (XI (XO (XO (XI (XI (XI (XO (XO (XO (XO (XO
    XH)))))))))))))))))) :: (((Zpos (XO (XO (XO (XO (XO (XO (XI (XO (XI (XI
    (XI (XO (XO (XO (XO (XO XH))))))))))))))))), (Zpos (XI (XO (XI (XO (XI
    (XO (XI (XO (XI (XI (XI (XO (XO (XO (XO (XO
    XH)))))))))))))))))) :: (((Zpos (XO (XO (XO (XO (XO (XI (XI (XO (XI (XI
    (XI (XO (XO (XO (XO (XO XH))))))))))))))))), (Zpos (XI (XI (XI (XO (XO
    (XI (XI (XO (XI (XI (XI (XO (XO (XO (XO (XO
    XH)))))))))))))))))) :: []))))))))))))))))))))))))) :: ((((Zpos (XO (XO
    (XO (XO (XO (XO (XO (XI (XI (XI (XI (XO (XO (XO (XO (XO
    XH))))))))))))))))), (Zpos (XO (XI (XO (XI (XI (XI (XO (XO (XO (XI (XO
    (XI (XO (XO (XO (XO XH)))))))))))))))))), (((Zpos (XO (XO (XO (XO (XO (XO
    (XO (XI (XI (XI (XI (XO (XO (XO (XO (XO XH))))))))))))))))), (Zpos (XI
    (XO (XI (XO (XO (XO (XO (XI (XI (XI (XI (XO (XO (XO (XO (XO
    XH)))))))))))))))))) :: (((Zpos (XI (XI (XI (XO (XO (XO (XO (XI (XI (XI
    (XI (XO (XO (XO (XO (XO XH))))))))))))))))), (Zpos (XO (XO (XO (XO (XI
    (XI (XO (XI (XI (XI (XI (XO (XO (XO (XO (XO
    XH)))))))))))))))))) :: (((Zpos (XO (XI (XO (XO (XI (XI (XO (XI (XI (XI
    (XI (XO (XO (XO (XO (XO XH))))))))))))))))), (Zpos (XO (XI (XO (XI (XI
    (XI (XO (XI (XI (XI (XI (XO (XO (XO (XO (XO
    XH)))))))))))))))))) :: (((Zpos (XO (XO (XO (XO (XO (XO (XO (XO (XO (XO
    (XO (XI (XO (XO (XO (XO XH))))))))))))))))), (Zpos (XI (XO (XI (XO (XO
    (XO (XO (XO (XO (XO (XO (XI (XO (XO (XO (XO
    XH)))))))))))))))))) :: (((Zpos (XO (XO (XO (XI (XO (XO (XO (XO (XO (XO
    (XO (XI (XO (XO (XO (XO XH))))))))))))))))), (Zpos (XO (XO (XO (XI (XO
    (XO (XO (XO (XO (XO (XO (XI (XO (XO (XO (XO
    XH)))))))))))))))))) :: (((Zpos (XO (XI (XO (XI (XO (XO (XO (XO (XO (XO
    (XO (XI (XO (XO (XO (XO XH))))))))))))))))), (Zpos (XI (XO (XI (XO (XI
    (XI (XO (XO (XO (XO (XO (XI (XO (XO (XO (XO
    XH)))))))))))))))))) :: (((Zpos (XI (XI (XI (XO (XI (XI (XO (XO (XO (XO
    (XO (XI (XO (XO (XO (XO XH))))))))))))))))), (Zpos (XO (XO (XO (XI (XI
    (XI (XO (XO (XO (XO (XO (XI (XO (XO (XO (XO
    XH)))))))))))))))))) :: (((Zpos (XO (XO (XI (XI (XI (XI (XO (XO (XO (XO
    (XO (XI (XO (XO (XO (XO XH))))))))))))))))), (Zpos (XO (XO (XI (XI (XI
    (XI (XO (XO (XO (XO (XO (XI (XO (XO (XO (XO
    XH)))))))))))))))))) :: (((Zpos (XI (XI (XI (XI (XI (XI (XO (XO (XO (XO
    (XO (XI (XO (XO (XO (XO XH))))))))))))))))), (Zpos (XI (XO (XI (XO (XI
    (XO (XI (XO (XO (XO (XO (XI (XO (XO (XO (XO
    XH)))))))))))))))))) :: (((Zpos (XI (XI (XI (XO (XI (XO (XI (XO (XO (XO
    (XO (XI (XO (XO (XO (XO XH))))))))))))))))), (Zpos (XO (XI (XI (XI (XI
    (XO (XO (XI (XO (XO (XO (XI (XO (XO (XO (XO
    XH)))))))))))))))))) :: (((Zpos (XI (XI (XI (XO (XO (XI (XO (XI (XO (XO
    (XO (XI (XO (XO (XO (XO XH))))))))))))))))), (Zpos (XI (XI (XI (XI (XO
    (XI (XO (XI (XO (XO (XO (XI (XO (XO (XO (XO
    XH)))))))))))))))))) :: (((Zpos (XO (XO (XO (XO (XO (XI (XI (XI (XO (XO
    (XO (XI (XO (XO (XO (XO XH))))))))))))))))), (Zpos (XO (XI (XO (XO (XI
    (XI (XI (XI (XO (XO (XO (XI (XO (XO (XO (XO
    XH)))))))))))))))))) :: (((Zpos (XO (XO (XI (XO (XI (XI (XI (XI (XO (XO
    (XO (XI (XO (XO (XO (XO XH))))))))))))))))), (Zpos (XI (XO (XI (XO (XI
    (XI (XI (XI (XO (XO (XO (XI (XO (XO (XO (XO
    XH)))))))))))))))))) :: (((Zpos (XI (XI (XO (XI (XI (XI (XI (XI (XO (XO
    (XO (XI (XO (XO (XO (XO XH))))))))))))))))), (Zpos (XI (XI (XO (XI (XI
    (XO (XO (XO (XI (XO (XO (XI (XO (XO (XO (XO
    XH)))))))))))))))))) :: (((Zpos (XI (XI (XI (XI (XI (XO (XO (XO (XI (XO
    (XO (XI (XO (XO (XO (XO XH))))))))))))))))), (Zpos (XI (XO (XO (XI (XI
    (XI (XO (XO (XI (XO (XO (XI (XO (XO (XO (XO
    XH)))))))))))))))))) :: (((Zpos (XI (XI (XI (XI (XI (XI (XO (XO (XI (XO
    (XO (XI (XO (XO (XO (XO XH))))))))))))))))), (Zpos (XI (XI (XI (XI (XI
    (XI (XO (XO (XI (XO (XO (XI (XO (XO (XO (XO
    XH)))))))))))))))))) :: (((Zpos (XO (XO (XO (XO (XO (XO (XO (XI (XI (XO
    (XO (XI (XO (XO (XO (XO XH))))))))))))))))), (Zpos (XI (XI (XI (XO (XI
    (XI (XO (XI (XI (XO (XO (XI (XO (XO (XO (XO
    XH)))))))))))))))))) :: (((Zpos (XO (XO (XI (XI (XI (XI (XO (XI (XI (XO
    (XO (XI (XO (XO (XO (XO XH))))))))))))))))), (Zpos (XI (XI (XI (XI (XO
    (XO (XI (XI (XI (XO (XO (XI (XO (XO (XO (XO
    XH)))))))))))))))))) :: (((Zpos (XO (XI (XO (XO (XI (XO (XI (XI (XI (XO
    (XO (XI (XO (XO (XO (XO XH))))))))))))))))), (Zpos (XI (XI (XO (XO (XO
    (XO (XO (XO (XO (XI (XO (XI (XO (XO (XO (XO
    XH)))))))))))))))))) :: (((Zpos (XI (XO (XI (XO (XO (XO (XO (XO (XO (XI
    (XO (XI (XO (XO (XO (XO XH))))))))))))))))), (Zpos (XO (XI (XI (XO (XO
    (XO (XO (XO (XO (XI (XO (XI (XO (XO (XO (XO
    XH)))))))))))))))))) :: (((Zpos (XO (XO (XI (XI (XO (XO (XO (XO (XO (XI
    (XO (XI (XO (XO (XO (XO XH))))))))))))))))), (Zpos (XI (XI (XO (XO (XI
    (XO (XO (XO (XO (XI (XO (XI (XO (XO (XO (XO
    XH)))))))))))))))))) :: (((Zpos (XI (XO (XI (XO (XI (XO (XO (XO (XO (XI
    (XO (XI (XO (XO (XO (XO XH))))))))))))))))), (Zpos (XI (XI (XI (XO (XI
    (XO (XO (XO (XO (XI (XO (XI (XO (XO (XO (XO
    XH)))))))))))))))))) :: (((Zpos (XI (XO (XO (XI (XI (XO (XO (XO (XO (XI
    (XO (XI (XO (XO (XO (XO XH))))))))))))))))), (Zpos (XI (XO (XI (XO (XI
    (XI (XO (XO (XO (XI (XO (XI (XO (XO (XO (XO
    XH)))))))))))))))))) :: (((Zpos (XO (XO (XO (XI (XI (XI (XO (XO (XO (XI
    (XO (XI (XO (XO (XO (XO XH))))))))))))))))), (Zpos (XO (XI (XO (XI (XI
    (XI (XO (XO (XO (XI (XO (XI (XO (XO (XO (XO
    XH)))))))))))))))))) :: []))))))))))))))))))))))))) :: ((((Zpos (XI (XI
    (XI (XI (XI (XI (XO (XO (XO (XI (XO (XI (XO (XO (XO (XO
    XH))))))))))))))))), (Zpos (XI (XI (XO (XI (XO (XO (XI (XI (XI (XI (XI
    (XI (XO (XO (XO (XO XH)))))))))))))))))), (((Zpos (XI (XI (XI (XI (XI (XI
    (XO (XO (XO (XI (XO (XI (XO (XO (XO (XO XH))))))))))))))))), (Zpos (XO
    (XO (XO (XI (XO (XO (XI (XO (XO (XI (XO (XI (XO (XO (XO (XO
    XH)))))))))))))))))) :: (((Zpos (XO (XO (XO (XO (XI (XO (XI (XO (XO (XI
    (XO (XI (XO (XO (XO (XO XH))))))))))))))))), (Zpos (XO (XO (XO (XI (XI
    (XO (XI (XO (XO (XI (XO (XI (XO (XO (XO (XO
    XH)))))))))))))))))) :: (((Zpos (XO (XO (XO (XO (XO (XI (XI (XO (XO (XI
    (XO (XI (XO (XO (XO (XO XH))))))))))))))))), (Zpos (XI (XI (XI (XI (XI
    (XO (XO (XI (XO (XI (XO (XI (XO (XO (XO (XO
    XH)))))))))))))))))) :: (((Zpos (XO (XO (XO (XO (XO (XO (XI (XI (XO (XI
    (XO (XI (XO (XO (XO (XO XH))))))))))))))))), (Zpos (XO (XI (XI (XO (XO
    (XI (XI (XI (XO (XI (XO (XI (XO (XO (XO (XO
    XH)))))))))))))))))) :: (((Zpos (XI (XI (XO (XI (XO (XI (XI (XI (XO (XI
    (XO (XI (XO (XO (XO (XO XH))))))))))))))))), (Zpos (XO (XI (XI (XO (XI
    (XI (XI (XI (XO (XI (XO (XI (XO (XO (XO (XO
    XH)))))))))))))))))) :: (((Zpos (XO (XO (XO (XO (XO (XO (XO (XO (XI (XI
    (XO (XI (XO (XO (XO (XO XH))))))))))))))))), (Zpos (XI (XO (XI (XO (XI
    (XI (XO (XO (XI (XI (XO (XI (XO (XO (XO (XO
    XH)))))))))))))))))) :: (((Zpos (XI (XO (XO (XI (XI (XI (XO (XO (XI (XI
    (XO (XI (XO (XO (XO (XO XH))))))))))))))))), (Zpos (XI (XO (XI (XO (XI
    (XO (XI (XO (XI (XI (XO (XI (XO (XO (XO (XO
    XH)))))))))))))))))) :: (((Zpos (XO (XO (XO (XI (XI (XO (XI (XO (XI (XI
    (XO (XI (XO (XO (XO (XO XH))))))))))))))))), (Zpos (XO (XI (XO (XO (XI
    (XI (XI (XO (XI (XI (XO (XI (XO (XO (XO (XO
    XH)))))))))))))))))) :: (((Zpos (XO (XO (XO (XI (XI (XI (XI (XO (XI (XI
    (XO (XI (XO (XO (XO (XO XH))))))))))))))))), (Zpos (XI (XO (XO (XO (XI
    (XO (XO (XI (XI (XI (XO (XI (XO (XO (XO (XO
    XH)))))))))))))))))) :: (((Zpos (XI (XO (XO (XI (XI (XO (XO (XI (XI (XI
    (XO (XI (XO (XO (XO (XO XH))))))))))))))))), (Zpos (XO (XO (XI (XI (XI
    (XO (XO (XI (XI (XI (XO (XI (XO (XO (XO (XO
    XH)))))))))))))))))) :: (((Zpos (XI (XO (XO (XI (XO (XI (XO (XI (XI (XI
    (XO (XI (XO (XO (XO (XO XH))))))))))))))))), (Zpos (XI (XI (XI (XI (XO
    (XI (XO (XI (XI (XI (XO (XI (XO (XO (XO (XO
    XH)))))))))))))))))) :: (((Zpos (XO (XO (XO (XO (XO (XO (XO (XO (XO (XO
    (XI (XI (XO (XO (XO (XO XH))))))))))))))))), (Zpos (XO (XO (XO (XI (XO
    (XO (XI (XO (XO (XO (XI (XI (XO (XO (XO (XO
    XH)))))))))))))))))) :: (((Zpos (XO (XO (XO (XO (XO (XO (XO (XI (XO (XO
    (XI (XI (XO (XO (XO (XO XH))))))))))))))))), (Zpos (XO (XI (XO (XO (XI
    (XI (XO (XI (XO (XO (XI (XI (XO (XO (XO (XO
    XH)))))))))))))))))) :: (((Zpos (XO (XO (XO (XO (XO (XO (XI (XI (XO (XO
    (XI (XI (XO (XO (XO (XO XH))))))))))))))))), (Zpos (XO (XI (XO (XO (XI
    (XI (XI (XI (XO (XO (XI (XI (XO (XO (XO (XO
    XH)))))))))))))))))) :: (((Zpos (XO (XI (XO (XI (XI (XI (XI (XI (XO (XO
    (XI (XI (XO (XO (XO (XO XH))))))))))))))))), (Zpos (XI (XI (XI (XO (XO
    (XI (XO (XO (XI (XO (XI (XI (XO (XO (XO (XO
    XH)))))))))))))))))) :: (((Zpos (XO (XO (XO (XO (XI (XI (XO (XO (XI (XO
    (XI (XI (XO (XO (XO (XO XH))))))))))))))))), (Zpos (XI (XO (XO (XI (XI
    (XI (XO (XO (XI (XO (XI (XI (XO (XO (XO (XO
    XH)))))))))))))))))) :: (((Zpos (XO (XO (XO (XO (XO (XI (XI (XO (XO (XI
    (XI (XI (XO (XO (XO (XO XH))))))))))))))))), (Zpos (XO (XI (XI (XI (XI
    (XI (XI (XO (XO (XI (XI (XI (XO (XO (XO (XO
    XH)))))))))))))))))) :: (((Zpos (XO (XO (XO (XO (XO (XO (XO (XI (XO (XI
    (XI (XI (XO (XO (XO (XO XH))))))))))))))))), (Zpos (XI (XO (XO (XI (XO
    (XI (XO (XI (XO (XI (XI (XI (XO (XO (XO (XO
    XH)))))))))))))))))) :: (((Zpos (XI (XI (XO (XI (XO (XI (XO (XI (XO (XI
    (XI (XI (XO (XO (XO (XO XH))))))))))))))))), (Zpos (XI (XO (XI (XI (XO
    (XI (XO (XI (XO (XI (XI (XI (XO (XO (XO (XO
    XH)))))))))))))))))) :: (((Zpos (XO (XO (XO (XO (XI (XI (XO (XI (XO (XI
    (XI (XI (XO (XO (XO (XO XH))))))))))))))))), (Zpos (XI (XO (XO (XO (XI
    (XI (XO (XI (XO (XI (XI (XI (XO (XO (XO (XO
    XH)))))))))))))))))) :: (((Zpos (XI (XO (XI (XI (XI (XI (XI (XI (XO (XI
    (XI (XI (XO (XO (XO (XO XH))))))))))))))))), (Zpos (XI (XI (XI (XO (XO
    (XI (XO (XO (XI (XI (XI (XI (XO (XO (XO (XO
    XH)))))))))))))))))) :: (((Zpos (XO (XO (XO (XO (XI (XI (XO (XO (XI (XI
    (XI (XI (XO (XO (XO (XO XH))))))))))))))))), (Zpos (XI (XO (XO (XI (XI
    (XO (XI (XO (XI (XI (XI (XI (XO (XO (XO (XO
    XH)))))))))))))))))) :: (((Zpos (XO (XO (XO (XO (XI (XI (XI (XO (XI (XI
    (XI (XI (XO (XO (XO (XO XH))))))))))))))))), (Zpos (XI (XO (XO (XI (XO
    (XO (XO (XI (XI (XI (XI (XI (XO (XO (XO (XO
    XH)))))))))))))))))) :: (((Zpos (XO (XO (XO (XO (XI (XI (XO (XI (XI (XI
    (XI (XI (XO (XO (XO (XO XH))))))))))))))))), (Zpos (XI (XI (XO (XI (XO
    (XO (XI (XI (XI (XI (XI (XI (XO (XO (XO (XO
    XH)))))))))))))))))) :: []))))))))))))))))))))))))) :: ((((Zpos (XO (XO
    (XO (XO (XO (XI (XI (XI (XI (XI (XI (XI (XO (XO (XO (XO
    XH))))))))))))))))), (Zpos (XO (XO (XO (XO (XI (XO (XO (XO (XI (XI (XO
    (XO (XI (XO (XO (XO XH)))))))))))))))))), (((Zpos (XO (XO (XO (XO (XO (XI
    (XI (XI (XI (XI (XI (XI (XO (XO (XO (XO XH))))))))))))))))), (Zpos (XO
    (XI (XI (XO (XI (XI (XI (XI (XI (XI (XI (XI (XO (XO (XO (XO
    XH)))))))))))))))))) :: (((Zpos (XO (XO (XO (XO (XO (XO (XO (XO (XO (XO
    (XO (XO (XI (XO (XO (XO XH))))))))))))))))), (Zpos (XI (XO (XI (XI (XO
    (XO (XI (XO (XO (XO (XO (XO (XI (XO (XO (XO
    XH)))))))))))))))))) :: (((Zpos (XO (XI (XO (XO (XI (XO (XI (XO (XO (XO
    (XO (XO (XI (XO (XO (XO XH))))))))))))))))), (Zpos (XI (XO (XI (XO (XI
    (XI (XI (XO (XO (XO (XO (XO (XI (XO (XO (XO
    XH)))))))))))))))))) :: (((Zpos (XI (XI (XI (XI (XI (XI (XI (XO (XO (XO
    (XO (XO (XI (XO (XO (XO XH))))))))))))))))), (Zpos (XO (XO (XI (XI (XI
    (XI (XO (XI (XO (XO (XO (XO (XI (XO (XO (XO
    XH)))))))))))))))))) :: (((Zpos (XO (XI (XI (XI (XI (XI (XO (XI (XO (XO
    (XO (XO (XI (XO (XO (XO XH))))))))))))))))), (Zpos (XO (XI (XO (XO (XO
    (XO (XI (XI (XO (XO (XO (XO (XI (XO (XO (XO
    XH)))))))))))))))))) :: (((Zpos (XO (XO (XO (XO (XI (XO (XI (XI (XO (XO
    (XO (XO (XI (XO (XO (XO XH))))))))))))))))), (Zpos (XO (XO (XO (XI (XO
    (XI (XI (XI (XO (XO (XO (XO (XI (XO (XO (XO
    XH)))))))))))))))))) :: (((Zpos (XO (XO (XO (XO (XI (XI (XI (XI (XO (XO
    (XO (XO (XI (XO (XO (XO XH))))))))))))))))), (Zpos (XI (XO (XO (XI (XI
    (XI (XI (XI (XO (XO (XO (XO (XI (XO (XO (XO
    XH)))))))))))))))))) :: (((Zpos (XO (XO (XO (XO (XO (XO (XO (XO (XI (XO
    (XO (XO (XI (XO (XO (XO XH))))))))))))))))), (Zpos (XO (XO (XI (XO (XI
    (XI (XO (XO (XI (XO (XO (XO (XI (XO (XO (XO
    XH)))))))))))))))))) :: (((Zpos (XO (XI (XI (XO (XI (XI (XO (XO (XI (XO
    (XO (XO (XI (XO (XO (XO XH))))))))))))))))), (Zpos (XI (XI (XI (XO (XO
    (XO (XI (XO (XI (XO (XO (XO (XI (XO (XO (XO
    XH)))))))))))))))))) :: (((Zpos (XO (XO (XO (XO (XI (XO (XI (XO (XI (XO
    (XO (XO (XI (XO (XO (XO XH))))))))))))))))), (Zpos (XO (XI (XI (XO (XI
    (XI (XI (XO (XI (XO (XO (XO (XI (XO (XO (XO
    XH)))))))))))))))))) :: (((Zpos (XO (XO (XO (XO (XO (XO (XO (XI (XI (XO
    (XO (XO (XI (XO (XO (XO XH))))))))))))))))), (Zpos (XI (XI (XI (XI (XI
    (XO (XI (XI (XI (XO (XO (XO (XI (XO (XO (XO
    XH)))))))))))))))))) :: (((Zpos (XI (XO (XO (XO (XO (XI (XI (XI (XI (XO
    (XO (XO (XI (XO (XO (XO XH))))))))))))))))), (Zpos (XO (XO (XI (XO (XI
    (XI (XI (XI (XI (XO (XO (XO (XI (XO (XO (XO
    XH)))))))))))))))))) :: (((Zpos (XO (XO (XO (XO (XO (XO (XO (XO (XO (XI
    (XO (XO (XI (XO (XO (XO XH))))))))))))))))), (Zpos (XI (XO (XO (XO (XI
    (XO (XO (XO (XO (XI (XO (XO (XI (XO (XO (XO
    XH)))))))))))))))))) :: (((Zpos (XI (XI (XO (XO (XI (XO (XO (XO (XO (XI
    (XO (XO (XI (XO (XO (XO XH))))))))))))))))), (Zpos (XI (XO (XO (XO (XO
    (XO (XI (XO (XO (XI (XO (XO (XI (XO (XO (XO
    XH)))))))))))))))))) :: (((Zpos (XO (XO (XO (XO (XO (XO (XO (XI (XO (XI
    (XO (XO (XI (XO (XO (XO XH))))))))))))))))), (Zpos (XO (XI (XI (XO (XO
    (XO (XO (XI (XO (XI (XO (XO (XI (XO (XO (XO
    XH)))))))))))))))))) :: (((Zpos (XO (XO (XO (XI (XO (XO (XO (XI (XO (XI
    (XO (XO (XI (XO (XO (XO XH))))))))))))))))), (Zpos (XO (XO (XO (XI (XO
    (XO (XO (XI (XO (XI (XO (XO (XI (XO (XO (XO
    XH)))))))))))))))))) :: (((Zpos (XO (XI (XO (XI (XO (XO (XO (XI (XO (XI
    (XO (XO (XI (XO (XO (XO XH))))))))))))))))), (Zpos (XI (XO (XI (XI (XO
    (XO (XO (XI (XO (XI (XO (XO (XI (XO (XO (XO
    XH)))))))))))))))))) :: (((Zpos (XI (XI (XI (XI (XO (XO (XO (XI (XO (XI
    (XO (XO (XI (XO (XO (XO XH))))))))))))))))), (Zpos (XI (XO (XI (XI (XI
    (XO (XO (XI (XO (XI (XO (XO (XI (XO (XO (XO
    XH)))))))))))))))))) :: (((Zpos (XI (XI (XI (XI (XI (XO (XO (XI (XO (XI
    (XO (XO (XI (XO (XO (XO XH))))))))))))))))), (Zpos (XI (XO (XO (XI (XO
    (XI (XO (XI (XO (XI (XO (XO (XI (XO (XO (XO
    XH)))))))))))))))))) :: (((Zpos (XO (XO (XO (XO (XI (XI (XO (XI (XO (XI
    (XO (XO (XI (XO (XO (XO XH))))))))))))))))), (Zpos (XO (XI (XO (XI (XO
    (XI (XI (XI (XO (XI (XO (XO (XI (XO (XO (XO
    XH)))))))))))))))))) :: (((Zpos (XO (XO (XO (XO (XI (XI (XI (XI (XO (XI
    (XO (XO (XI (XO (XO (XO XH))))))))))))))))), (Zpos (XI (XO (XO (XI (XI
    (XI (XI (XI (XO (XI (XO (XO (XI (XO (XO (XO
    XH)))))))))))))))))) :: (((Zpos (XO (XO (XO (XO (XO (XO (XO (XO (XI (XI
    (XO (XO (XI (XO (XO (XO XH))))))))))))))))), (Zpos (XI (XI (XO (XO (XO
    (XO (XO (XO (XI (XI (XO (XO (XI (XO (XO (XO
    XH)))))))))))))))))) :: (((Zpos (XI (XO (XI (XO (XO (XO (XO (XO (XI (XI
    (XO (XO (XI (XO (XO (XO XH))))))))))))))))), (Zpos (XO (XO (XI (XI (XO
    (XO (XO (XO (XI (XI (XO (XO (XI (XO (XO (XO
    XH)))))))))))))))))) :: (((Zpos (XI (XI (XI (XI (XO (XO (XO (XO (XI (XI
    (XO (XO (XI (XO (XO (XO XH))))))))))))))))), (Zpos (XO (XO (XO (XO (XI
    (XO (XO (XO (XI (XI (XO (XO (XI (XO (XO (XO
    XH)))))))))))))))))) :: []))))))))))))))))))))))))) :: ((((Zpos (XI (XI
    (XO (XO (XI (XO (XO (XO (XI (XI (XO (XO (XI (XO (XO (XO
    XH))))))))))))))))), (Zpos (XO (XI (XO (XI (XI (XO (XO (XO (XI (XI (XI
    (XO (XI (XO (XO (XO XH)))))))))))))))))), (((Zpos (XI (XI (XO (XO (XI (XO
    (XO (XO (XI (XI (XO (XO (XI (XO (XO (XO XH))))))))))))))))), (Zpos (XO
    (XO (XO (XI (XO (XI (XO (XO (XI (XI (XO (XO (XI (XO (XO (XO
    XH)))))))))))))))))) :: (((Zpos (XO (XI (XO (XI (XO (XI (XO (XO (XI (XI
    (XO (XO (XI (XO (XO (XO XH))))))))))))))))), (Zpos (XO (XO (XO (XO (XI
    (XI (XO (XO (XI (XI (XO (XO (XI (XO (XO (XO
    XH)))))))))))))))))) :: (((Zpos (XO (XI (XO (XO (XI (XI (XO (XO (XI (XI
    (XO (XO (XI (XO (XO (XO XH))))))))))))))))), (Zpos (XI (XI (XO (XO (XI
    (XI (XO (XO (XI (XI (XO (XO (XI (XO (XO (XO
    XH)))))))))))))))))) :: (((Zpos (XI (XO (XI (XO (XI (XI (XO (XO (XI (XI
    (XO (XO (XI (XO (XO (XO XH))))))))))))))))), (Zpos (XI (XO (XO (XI (XI
    (XI (XO (XO (XI (XI (XO (XO (XI (XO (XO (XO
    XH)))))))))))))))))) :: (((Zpos (XI (XI (XO (XI (XI (XI (XO (XO (XI (XI
    (XO (XO (XI (XO (XO (XO XH))))))))))))))))), (Zpos (XO (XO (XI (XO (XO
    (XO (XI (XO (XI (XI (XO (XO (XI (XO (XO (XO
    XH)))))))))))))))))) :: (((Zpos (XI (XI (XI (XO (XO (XO (XI (XO (XI (XI
    (XO (XO (XI (XO (XO (XO XH))))))))))))))))), (Zpos (XO (XO (XO (XI (XO
    (XO (XI (XO (XI (XI (XO (XO (XI (XO (XO (XO
    XH)))))))))))))))))) :: (((Zpos (XI (XI (XO (XI (XO (XO (XI (XO (XI (XI
    (XO (XO (XI (XO (XO (XO XH))))))))))))))))), (Zpos (XI (XO (XI (XI (XO
    (XO (XI (XO (XI (XI (XO (XO (XI (XO (XO (XO
    XH)))))))))))))))))) :: (((Zpos (XO (XO (XO (XO (XI (XO (XI (XO (XI (XI
    (XO (XO (XI (XO (XO (XO XH))))))))))))))))), (Zpos (XO (XO (XO (XO (XI
    (XO (XI (XO (XI (XI (XO (XO (XI (XO (XO (XO
    XH)))))))))))))))))) :: (((Zpos (XI (XI (XI (XO (XI (XO (XI (XO (XI (XI
    (XO (XO (XI (XO (XO (XO XH))))))))))))))))), (Zpos (XI (XI (XI (XO (XI
    (XO (XI (XO (XI (XI (XO (XO (XI (XO (XO (XO
    XH)))))))))))))))))) :: (((Zpos (XI (XO (XI (XI (XI (XO (XI (XO (XI (XI
    (XO (XO (XI (XO (XO (XO XH))))))))))))))))), (Zpos (XI (XI (XO (XO (XO
    (XI (XI (XO (XI (XI (XO (XO (XI (XO (XO (XO
    XH)))))))))))))))))) :: (((Zpos (XO (XI (XI (XO (XO (XI (XI (XO (XI (XI
    (XO (XO (XI (XO (XO (XO XH))))))))))))))))), (Zpos (XO (XO (XI (XI (XO
    (XI (XI (XO (XI (XI (XO (XO (XI (XO (XO (XO
    XH)))))))))))))))))) :: (((Zpos (XO (XO (XO (XO (XI (XI (XI (XO (XI (XI
    (XO (XO (XI (XO (XO (XO XH))))))))))))))))), (Zpos (XO (XO (XI (XO (XI
    (XI (XI (XO (XI (XI (XO (XO (XI (XO (XO (XO
    XH)))))))))))))))))) :: (((Zpos (XO (XO (XO (XO (XO (XO (XO (XO (XO (XO
    (XI (XO (XI (XO (XO (XO XH))))))))))))))))), (Zpos (XI (XI (XO (XI (XI
    (XO (XI (XO (XO (XO (XI (XO (XI (XO (XO (XO
    XH)))))))))))))))))) :: (((Zpos (XI (XO (XI (XI (XI (XO (XI (XO (XO (XO
    (XI (XO (XI (XO (XO (XO XH))))))))))))))))), (Zpos (XI (XO (XO (XO (XO
    (XI (XI (XO (XO (XO (XI (XO (XI (XO (XO (XO
    XH)))))))))))))))))) :: (((Zpos (XO (XO (XO (XO (XO (XO (XO (XI (XO (XO
    (XI (XO (XI (XO (XO (XO XH))))))))))))))))), (Zpos (XI (XI (XI (XO (XO
    (XO (XI (XI (XO (XO (XI (XO (XI (XO (XO (XO
    XH)))))))))))))))))) :: (((Zpos (XO (XO (XO (XO (XI (XO (XI (XI (XO (XO
    (XI (XO (XI (XO (XO (XO XH))))))))))))))))), (Zpos (XI (XO (XO (XI (XI
    (XO (XI (XI (XO (XO (XI (XO (XI (XO (XO (XO
    XH)))))))))))))))))) :: (((Zpos (XO (XO (XO (XO (XO (XO (XO (XI (XI (XO
    (XI (XO (XI (XO (XO (XO XH))))))))))))))))), (Zpos (XI (XO (XI (XO (XI
    (XI (XO (XI (XI (XO (XI (XO (XI (XO (XO (XO
    XH)))))))))))))))))) :: (((Zpos (XO (XO (XO (XI (XI (XI (XO (XI (XI (XO
    (XI (XO (XI (XO (XO (XO XH))))))))))))))))), (Zpos (XI (XO (XI (XI (XI
    (XO (XI (XI (XI (XO (XI (XO (XI (XO (XO (XO
    XH)))))))))))))))))) :: (((Zpos (XO (XO (XO (XO (XO (XO (XO (XO (XO (XI
    (XI (XO (XI (XO (XO (XO XH))))))))))))))))), (Zpos (XO (XO (XI (XO (XO
    (XO (XI (XO (XO (XI (XI (XO (XI (XO (XO (XO
    XH)))))))))))))))))) :: (((Zpos (XO (XO (XO (XO (XI (XO (XI (XO (XO (XI
    (XI (XO (XI (XO (XO (XO XH))))))))))))))))), (Zpos (XI (XO (XO (XI (XI
    (XO (XI (XO (XO (XI (XI (XO (XI (XO (XO (XO
    XH)))))))))))))))))) :: (((Zpos (XO (XO (XO (XO (XO (XI (XI (XO (XO (XI
    (XI (XO (XI (XO (XO (XO XH))))))))))))))))), (Zpos (XO (XO (XI (XI (XO
    (XI (XI (XO (XO (XI (XI (XO (XI (XO (XO (XO
    XH)))))))))))))))))) :: (((Zpos (XO (XO (XO (XO (XO (XO (XO (XI (XO (XI
    (XI (XO (XI (XO (XO (XO XH))))))))))))))))), (Zpos (XI (XO (XO (XI (XI
    (XI (XO (XI (XO (XI (XI (XO (XI (XO (XO (XO
    XH)))))))))))))))))) :: (((Zpos (XO (XO (XO (XO (XO (XO (XI (XI (XO (XI
    (XI (XO (XI (XO (XO (XO XH))))))))))))))))), (Zpos (XI (XO (XO (XI (XO
    (XO (XI (XI (XO (XI (XI (XO (XI (XO (XO (XO
    XH)))))))))))))))))) :: (((Zpos (XO (XO (XO (XO (XO (XO (XO (XO (XI (XI
    (XI (XO (XI (XO (XO (XO XH))))))))))))))))), (Zpos (XO (XI (XO (XI (XI
    (XO (XO (XO (XI (XI (XI (XO (XI (XO (XO (XO
    XH)))))))))))))))))) :: []))))))))))))))))))))))))) :: ((((Zpos (XI (XO
    (XI (XI (XI (XO (XO (XO (XI (XI (XI (XO (XI (XO (XO (XO
    XH))))))))))))))))), (Zpos (XI (XI (XI (XI (XO (XO (XO (XI (XO (XO (XI
    (XI (XI (XO (XO (XO XH)))))))))))))))))), (((Zpos (XI (XO (XI (XI (XI (XO
    (XO (XO (XI (XI (XI (XO (XI (XO (XO (XO XH))))))))))))))))), (Zpos (XI
    (XI (XO (XI (XO (XI (XO (XO (XI (XI (XI (XO (XI (XO (XO (XO
    XH)))))))))))))))))) :: (((Zpos (XO (XO (XO (XO (XI (XI (XO (XO (XI (XI
    (XI (XO (XI (XO (XO (XO XH))))))))))))))))), (Zpos (XO (XI (XI (XO (XO
    (XO (XI (XO (XI (XI (XI (XO (XI (XO (XO (XO
    XH)))))))))))))))))) :: (((Zpos (XO (XO (XO (XO (XO (XO (XO (XO (XO (XO
    (XO (XI (XI (XO (XO (XO XH))))))))))))))))), (Zpos (XI (XI (XO (XI (XI
    (XI (XO (XO (XO (XO (XO (XI (XI (XO (XO (XO
    XH)))))))))))))))))) :: (((Zpos (XO (XO (XO (XO (XO (XI (XO (XI (XO (XO
    (XO (XI (XI (XO (XO (XO XH))))))))))))))))), (Zpos (XO (XI (XO (XO (XI
    (XI (XI (XI (XO (XO (XO (XI (XI (XO (XO (XO
    XH)))))))))))))))))) :: (((Zpos (XI (XI (XI (XI (XI (XI (XI (XI (XO (XO
    (XO (XI (XI (XO (XO (XO XH))))))))))))))))), (Zpos (XO (XI (XI (XO (XO
    (XO (XO (XO (XI (XO (XO (XI (XI (XO (XO (XO
    XH)))))))))))))))))) :: (((Zpos (XI (XO (XO (XI (XO (XO (XO (XO (XI (XO
    (XO (XI (XI (XO (XO (XO XH))))))))))))))))), (Zpos (XI (XO (XO (XI (XO
    (XO (XO (XO (XI (XO (XO (XI (XI (XO (XO (XO
    XH)))))))))))))))))) :: (((Zpos (XO (XO (XI (XI (XO (XO (XO (XO (XI (XO
    (XO (XI (XI (XO (XO (XO XH))))))))))))))))), (Zpos (XI (XI (XO (XO (XI
    (XO (XO (XO (XI (XO (XO (XI (XI (XO (XO (XO
    XH)))))))))))))))))) :: (((Zpos (XI (XO (XI (XO (XI (XO (XO (XO (XI (XO
    (XO (XI (XI (XO (XO (XO XH))))))))))))))))), (Zpos (XO (XI (XI (XO (XI
    (XO (XO (XO (XI (XO (XO (XI (XI (XO (XO (XO
    XH)))))))))))))))))) :: (((Zpos (XO (XO (XO (XI (XI (XO (XO (XO (XI (XO
    (XO (XI (XI (XO (XO (XO XH))))))))))))))))), (Zpos (XI (XO (XI (XO (XI
    (XI (XO (XO (XI (XO (XO (XI (XI (XO (XO (XO
    XH)))))))))))))))))) :: (((Zpos (XI (XI (XI (XO (XI (XI (XO (XO (XI (XO
    (XO (XI (XI (XO (XO (XO XH))))))))))))))))), (Zpos (XO (XO (XO (XI (XI
    (XI (XO (XO (XI (XO (XO (XI (XI (XO (XO (XO
    XH)))))))))))))))))) :: (((Zpos (XI (XI (XO (XI (XI (XI (XO (XO (XI (XO
    (XO (XI (XI (XO (XO (XO XH))))))))))))))))), (Zpos (XO (XI (XI (XO (XO
    (XO (XI (XO (XI (XO (XO (XI (XI (XO (XO (XO
    XH)))))))))))))))))) :: (((Zpos (XO (XO (XO (XO (XI (XO (XI (XO (XI (XO
    (XO (XI (XI (XO (XO (XO XH))))))))))))))))), (Zpos (XI (XO (XO (XI (XI
    (XO (XI (XO (XI (XO (XO (XI (XI (XO (XO (XO
    XH)))))))))))))))))) :: (((Zpos (XO (XO (XO (XO (XO (XI (XO (XI (XI (XO
    (XO (XI (XI (XO (XO (XO XH))))))))))))))))), (Zpos (XI (XI (XI (XO (XO
    (XI (XO (XI (XI (XO (XO (XI (XI (XO (XO (XO
    XH)))))))))))))))))) :: (((Zpos (XO (XI (XO (XI (XO (XI (XO (XI (XI (XO
    (XO (XI (XI (XO (XO (XO XH))))))))))))))))), (Zpos (XI (XI (XI (XO (XI
    (XO (XI (XI (XI (XO (XO (XI (XI (XO (XO (XO
    XH)))))))))))))))))) :: (((Zpos (XO (XI (XO (XI (XI (XO (XI (XI (XI (XO
    (XO (XI (XI (XO (XO (XO XH))))))))))))))))), (Zpos (XO (XO (XI (XO (XO
    (XI (XI (XI (XI (XO (XO (XI (XI (XO (XO (XO
    XH)))))))))))))))))) :: (((Zpos (XO (XO (XO (XO (XO (XO (XO (XO (XO (XI
    (XO (XI (XI (XO (XO (XO XH))))))))))))))))), (Zpos (XI (XI (XI (XO (XO
    (XO (XI (XO (XO (XI (XO (XI (XI (XO (XO (XO
    XH)))))))))))))))))) :: (((Zpos (XO (XO (XO (XO (XI (XO (XI (XO (XO (XI
    (XO (XI (XI (XO (XO (XO XH))))))))))))))))), (Zpos (XO (XI (XO (XO (XO
    (XI (XO (XI (XO (XI (XO (XI (XI (XO (XO (XO
    XH)))))))))))))))))) :: (((Zpos (XO (XO (XO (XO (XI (XI (XO (XI (XO (XI
    (XO (XI (XI (XO (XO (XO XH))))))))))))))))), (Zpos (XO (XO (XO (XI (XI
    (XI (XI (XI (XO (XI (XO (XI (XI (XO (XO (XO
    XH)))))))))))))))))) :: (((Zpos (XO (XO (XO (XO (XO (XO (XO (XO (XI (XI
    (XO (XI (XI (XO (XO (XO XH))))))))))))))))), (Zpos (XI (XO (XO (XI (XO
    (XO (XO (XO (XI (XI (XO (XI (XI (XO (XO (XO
    XH)))))))))))))))))) :: (((Zpos (XO (XO (XO (XO (XO (XO (XO (XO (XO (XO
    (XI (XI (XI (XO (XO (XO XH))))))))))))))))), (Zpos (XO (XO (XO (XI (XO
    (XO (XO (XO (XO (XO (XI (XI (XI (XO (XO (XO
    XH)))))))))))))))))) :: (((Zpos (XO (XI (XO (XI (XO (XO (XO (XO (XO (XO
    (XI (XI (XI (XO (XO (XO XH))))))))))))))))), (Zpos (XO (XI (XI (XO (XI
    (XI (XO (XO (XO (XO (XI (XI (XI (XO (XO (XO
    XH)))))))))))))))))) :: (((Zpos (XO (XO (XO (XI (XI (XI (XO (XO (XO (XO
    (XI (XI (XI (XO (XO (XO XH))))))))))))))))), (Zpos (XI (XO (XI (XO (XO
    (XO (XI (XO (XO (XO (XI (XI (XI (XO (XO (XO
    XH)))))))))))))))))) :: (((Zpos (XO (XO (XO (XO (XI (XO (XI (XO (XO (XO
    (XI (XI (XI (XO (XO (XO XH))))))))))))))))), (Zpos (XO (XO (XI (XI (XO
    (XI (XI (XO (XO (XO (XI (XI (XI (XO (XO (XO
    XH)))))))))))))))))) :: (((Zpos (XO (XO (XO (XO (XI (XI (XI (XO (XO (XO
    (XI (XI (XI (XO (XO (XO XH))))))))))))))))), (Zpos (XI (XI (XI (XI (XO
    (XO (XO (XI (XO (XO (XI (XI (XI (XO (XO (XO
    XH)))))))))))))))))) :: []))))))))))))))))))))))))) :: ((((Zpos (XO (XI
    (XO (XO (XI (XO (XO (XI (XO (XO (XI (XI (XI (XO (XO (XO
    XH))))))))))))))))), (Zpos (XO (XO (XI (XO (XI (XI (XI (XO (XO (XO (XI
    (XO (XO (XI (XO (XO XH)))))))))))))))))), (((Zpos (XO (XI (XO (XO (XI (XO
    (XO (XI (XO (XO (XI (XI (XI (XO (XO (XO XH))))))))))))))))), (Zpos (XI
    (XI (XI (XO (XO (XI (XO (XI (XO (XO (XI (XI (XI (XO (XO (XO
    XH)))))))))))))))))) :: (((Zpos (XI (XO (XO (XI (XO (XI (XO (XI (XO (XO
    (XI (XI (XI (XO (XO (XO XH))))))))))))))))), (Zpos (XO (XI (XI (XO (XI
    (XI (XO (XI (XO (XO (XI (XI (XI (XO (XO (XO
    XH)))))))))))))))))) :: (((Zpos (XO (XO (XO (XO (XO (XO (XO (XO (XI (XO
    (XI (XI (XI (XO (XO (XO XH))))))))))))))))), (Zpos (XO (XI (XI (XO (XO
    (XO (XO (XO (XI (XO (XI (XI (XI (XO (XO (XO
    XH)))))))))))))))))) :: (((Zpos (XO (XO (XO (XI (XO (XO (XO (XO (XI (XO
    (XI (XI (XI (XO (XO (XO XH))))))))))))))))), (Zpos (XI (XO (XO (XI (XO
    (XO (XO (XO (XI (XO (XI (XI (XI (XO (XO (XO
    XH)))))))))))))))))) :: (((Zpos (XI (XI (XO (XI (XO (XO (XO (XO (XI (XO
    (XI (XI (XI (XO (XO (XO XH))))))))))))))))), (Zpos (XO (XI (XI (XO (XI
    (XI (XO (XO (XI (XO (XI (XI (XI (XO (XO (XO
    XH)))))))))))))))))) :: (((Zpos (XO (XI (XO (XI (XI (XI (XO (XO (XI (XO
    (XI (XI (XI (XO (XO (XO XH))))))))))))))))), (Zpos (XO (XI (XO (XI (XI
    (XI (XO (XO (XI (XO (XI (XI (XI (XO (XO (XO
    XH)))))))))))))))))) :: (((Zpos (XO (XO (XI (XI (XI (XI (XO (XO (XI (XO
    (XI (XI (XI (XO (XO (XO XH))))))))))))))))), (Zpos (XI (XO (XI (XI (XI
    (XI (XO (XO (XI (XO (XI (XI (XI (XO (XO (XO
    XH)))))))))))))))))) :: (((Zpos (XI (XI (XI (XI (XI (XI (XO (XO (XI (XO
    (XI (XI (XI (XO (XO (XO XH))))))))))))))))), (Zpos (XI (XI (XI (XO (XO
    (XO (XI (XO (XI (XO (XI (XI (XI (XO (XO (XO
    XH)))))))))))))))))) :: (((Zpos (XO (XO (XO (XO (XI (XO (XI (XO (XI (XO
    (XI (XI (XI (XO (XO (XO XH))))))))))))))))), (Zpos (XI (XO (XO (XI (XI
    (XO (XI (XO (XI (XO (XI (XI (XI (XO (XO (XO
    XH)))))))))))))))))) :: (((Zpos (XO (XO (XO (XO (XO (XI (XI (XO (XI (XO
    (XI (XI (XI (XO (XO (XO XH))))))))))))))))), (Zpos (XI (XO (XI (XO (XO
    (XI (XI (XO (XI (XO (XI (XI (XI (XO (XO (XO
    XH)))))))))))))))))) :: (((Zpos (XI (XI (XI (XO (XO (XI (XI (XO (XI (XO
    (XI (XI (XI (XO (XO (XO XH))))))))))))))))), (Zpos (XO (XO (XO (XI (XO
    (XI (XI (XO (XI (XO (XI (XI (XI (XO (XO (XO
    XH)))))))))))))))))) :: (((Zpos (XO (XI (XO (XI (XO (XI (XI (XO (XI (XO
    (XI (XI (XI (XO (XO (XO XH))))))))))))))))), (Zpos (XO (XI (XI (XI (XO
    (XO (XO (XI (XI (XO (XI (XI (XI (XO (XO (XO
    XH)))))))))))))))))) :: (((Zpos (XO (XO (XO (XO (XI (XO (XO (XI (XI (XO
    (XI (XI (XI (XO (XO (XO XH))))))))))))))))), (Zpos (XI (XO (XO (XO (XI
    (XO (XO (XI (XI (XO (XI (XI (XI (XO (XO (XO
    XH)))))))))))))))))) :: (((Zpos (XI (XI (XO (XO (XI (XO (XO (XI (XI (XO
    (XI (XI (XI (XO (XO (XO XH))))))))))))))))), (Zpos (XO (XO (XO (XI (XI
    (XO (XO (XI (XI (XO (XI (XI (XI (XO (XO (XO
    XH)))))))))))))))))) :: (((Zpos (XO (XO (XO (XO (XO (XI (XO (XI (XI (XO
    (XI (XI (XI (XO (XO (XO XH))))))))))))))))), (Zpos (XI (XO (XO (XI (XO
    (XI (XO (XI (XI (XO (XI (XI (XI (XO (XO (XO
    XH)))))))))))))))))) :: (((Zpos (XO (XO (XO (XO (XO (XI (XI (XI (XO (XI
    (XI (XI (XI (XO (XO (XO XH))))))))))))))))), (Zpos (XO (XO (XO (XI (XI
    (XI (XI (XI (XO (XI (XI (XI (XI (XO (XO (XO
    XH)))))))))))))))))) :: (((Zpos (XO (XO (XO (XO (XO (XO (XO (XO (XI (XI
    (XI (XI (XI (XO (XO (XO XH))))))))))))))))), (Zpos (XO (XO (XO (XO (XI
    (XO (XO (XO (XI (XI (XI (XI (XI (XO (XO (XO
    XH)))))))))))))))))) :: (((Zpos (XO (XI (XO (XO (XI (XO (XO (XO (XI (XI
    (XI (XI (XI (XO (XO (XO XH))))))))))))))))), (Zpos (XO (XI (XO (XI (XI
    (XI (XO (XO (XI (XI (XI (XI (XI (XO (XO (XO
    XH)))))))))))))))))) :: (((Zpos (XO (XI (XI (XI (XI (XI (XO (XO (XI (XI
    (XI (XI (XI (XO (XO (XO XH))))))))))))))))), (Zpos (XI (XO (XO (XI (XI
    (XO (XI (XO (XI (XI (XI (XI (XI (XO (XO (XO
    XH)))))))))))))))))) :: (((Zpos (XO (XO (XO (XO (XI (XI (XO (XI (XI (XI
    (XI (XI (XI (XO (XO (XO XH))))))))))))))))), (Zpos (XO (XO (XO (XO (XI
    (XI (XO (XI (XI (XI (XI (XI (XI (XO (XO (XO
    XH)))))))))))))))))) :: (((Zpos (XO (XO (XO (XO (XO (XO (XI (XI (XI (XI
    (XI (XI (XI (XO (XO (XO XH))))))))))))))))), (Zpos (XI (XO (XO (XO (XI
    (XI (XI (XI (XI (XI (XI (XI (XI (XO (XO (XO
    XH)))))))))))))))))) :: (((Zpos (XI (XI (XI (XI (XI (XI (XI (XI (XI (XI
    (XI (XI (XI (XO (XO (XO XH))))))))))))))))), (Zpos (XI (XO (XO (XI (XI
    (XO (XO (XI (XI (XI (XO (XO (XO (XI (XO (XO
    XH)))))))))))))))))) :: (((Zpos (XO (XO (XO (XO (XO (XO (XO (XO (XO (XO
    (XI (XO (XO (XI (XO (XO XH))))))))))))))))), (Zpos (XO (XI (XI (XI (XO
    (XI (XI (XO (XO (XO (XI (XO (XO (XI (XO (XO
    XH)))))))))))))))))) :: (((Zpos (XO (XO (XO (XO (XI (XI (XI (XO (XO (XO
    (XI (XO (XO (XI (XO (XO XH))))))))))))))))), (Zpos (XO (XO (XI (XO (XI
    (XI (XI (XO (XO (XO (XI (XO (XO (XI (XO (XO
    XH)))))))))))))))))) :: []))))))))))))))))))))))))) :: ((((Zpos (XO (XO
    (XO (XO (XO (XO (XO (XI (XO (XO (XI (XO (XO (XI (XO (XO
    XH))))))))))))))))), (Zpos (XI (XI (XI (XO (XI (XI (XI (XI (XI (XI (XI
    (XO (XO (XO (XO (XI XH)))))))))))))))))), (((Zpos (XO (XO (XO (XO (XO (XO
    (XO (XI (XO (XO (XI (XO (XO (XI (XO (XO XH))))))))))))))))), (Zpos (XI
    (XI (XO (XO (XO (XO (XI (XO (XI (XO (XI (XO (XO (XI (XO (XO
    XH)))))))))))))))))) :: (((Zpos (XO (XO (XO (XO (XI (XO (XO (XI (XI (XI
    (XI (XI (XO (XI (XO (XO XH))))))))))))))))), (Zpos (XO (XI (XO (XO (XI
    (XI (XI (XI (XI (XI (XI (XI (XO (XI (XO (XO
    XH)))))))))))))))))) :: (((Zpos (XO (XO (XO (XO (XO (XO (XO (XO (XO (XO
    (XO (XO (XI (XI (XO (XO XH))))))))))))))))), (Zpos (XI (XI (XI (XI (XO
    (XI (XO (XO (XO (XO (XI (XO (XI (XI (XO (XO
    XH)))))))))))))))))) :: (((Zpos (XO (XO (XO (XO (XO (XO (XI (XO (XO (XO
    (XI (XO (XI (XI (XO (XO XH))))))))))))))))), (Zpos (XI (XO (XI (XO (XI
    (XO (XI (XO (XO (XO (XI (XO (XI (XI (XO (XO
    XH)))))))))))))))))) :: (((Zpos (XO (XO (XO (XO (XO (XO (XO (XO (XO (XO
    (XI (XO (XO (XO (XI (XO XH))))))))))))))))), (Zpos (XO (XI (XI (XO (XO
    (XO (XI (XO (XO (XI (XI (XO (XO (XO (XI (XO
    XH)))))))))))))))))) :: (((Zpos (XO (XO (XO (XO (XO (XO (XO (XO (XO (XO
    (XO (XI (XO (XI (XI (XO XH))))))))))))))))), (Zpos (XO (XO (XO (XI (XI
    (XI (XO (XO (XO (XI (XO (XI (XO (XI (XI (XO
    XH)))))))))))))))))) :: (((Zpos (XO (XO (XO (XO (XO (XO (XI (XO (XO (XI
    (XO (XI (XO (XI (XI (XO XH))))))))))))))))), (Zpos (XO (XI (XI (XI (XI
    (XO (XI (XO (XO (XI (XO (XI (XO (XI (XI (XO
    XH)))))))))))))))))) :: (((Zpos (XO (XO (XO (XO (XO (XI (XI (XO (XO (XI
    (XO (XI (XO (XI (XI (XO XH))))))))))))))))), (Zpos (XI (XO (XO (XI (XO
    (XI (XI (XO (XO (XI (XO (XI (XO (XI (XI (XO
    XH)))))))))))))))))) :: (((Zpos (XO (XI (XI (XI (XO (XI (XI (XO (XO (XI
    (XO (XI (XO (XI (XI (XO XH))))))))))))))))), (Zpos (XO (XI (XI (XI (XI
    (XI (XO (XI (XO (XI (XO (XI (XO (XI (XI (XO
    XH)))))))))))))))))) :: (((Zpos (XO (XO (XO (XO (XO (XO (XI (XI (XO (XI
    (XO (XI (XO (XI (XI (XO XH))))))))))))))))), (Zpos (XI (XO (XO (XI (XO
    (XO (XI (XI (XO (XI (XO (XI (XO (XI (XI (XO
    XH)))))))))))))))))) :: (((Zpos (XO (XO (XO (XO (XI (XO (XI (XI (XO (XI
    (XO (XI (XO (XI (XI (XO XH))))))))))))))))), (Zpos (XI (XO (XI (XI (XO
    (XI (XI (XI (XO (XI (XO (XI (XO (XI (XI (XO
    XH)))))))))))))))))) :: (((Zpos (XO (XO (XO (XO (XI (XI (XI (XI (XO (XI
    (XO (XI (XO (XI (XI (XO XH))))))))))))))))), (Zpos (XI (XO (XI (XO (XI
    (XI (XI (XI (XO (XI (XO (XI (XO (XI (XI (XO
    XH)))))))))))))))))) :: (((Zpos (XO (XO (XO (XO (XO (XO (XO (XO (XI (XI
    (XO (XI (XO (XI (XI (XO XH))))))))))))))))), (Zpos (XI (XO (XI (XO (XO
    (XO (XI (XO (XI (XI (XO (XI (XO (XI (XI (XO
    XH)))))))))))))))))) :: (((Zpos (XO (XO (XO (XO (XI (XO (XI (XO (XI (XI
    (XO (XI (XO (XI (XI (XO XH))))))))))))))))), (Zpos (XI (XO (XO (XI (XI
    (XO (XI (XO (XI (XI (XO (XI (XO (XI (XI (XO
    XH)))))))))))))))))) :: (((Zpos (XI (XI (XO (XI (XI (XO (XI (XO (XI (XI
    (XO (XI (XO (XI (XI (XO XH))))))))))))))))), (Zpos (XI (XO (XO (XO (XO
    (XI (XI (XO (XI (XI (XO (XI (XO (XI (XI (XO
    XH)))))))))))))))))) :: (((Zpos (XI (XI (XO (XO (XO (XI (XI (XO (XI (XI
    (XO (XI (XO (XI (XI (XO XH))))))))))))))))), (Zpos (XI (XI (XI (XO (XI
    (XI (XI (XO (XI (XI (XO (XI (XO (XI (XI (XO
    XH)))))))))))))))))) :: (((Zpos (XI (XO (XI (XI (XI (XI (XI (XO (XI (XI
    (XO (XI (XO (XI (XI (XO XH))))))))))))))))), (Zpos (XI (XI (XI (XI (XO
    (XO (XO (XI (XI (XI (XO (XI (XO (XI (XI (XO
    XH)))))))))))))))))) :: (((Zpos (XO (XO (XO (XO (XO (XO (XI (XO (XO (XI
    (XI (XI (XO (XI (XI (XO XH))))))))))))))))), (Zpos (XO (XI (XO (XI (XI
    (XO (XO (XI (XO (XI (XI (XI (XO (XI (XI (XO
    XH)))))))))))))))))) :: (((Zpos (XO (XO (XO (XO (XO (XO (XO (XO (XI (XI
    (XI (XI (XO (XI (XI (XO XH))))))))))))))))), (Zpos (XO (XI (XO (XI (XO
    (XO (XI (XO (XI (XI (XI (XI (XO (XI (XI (XO
    XH)))))))))))))))))) :: (((Zpos (XI (XI (XI (XI (XO (XO (XI (XO (XI (XI
    (XI (XI (XO (XI (XI (XO XH))))))))))))))))), (Zpos (XI (XI (XI (XO (XO
    (XO (XO (XI (XI (XI (XI (XI (XO (XI (XI (XO
    XH)))))))))))))))))) :: (((Zpos (XI (XI (XI (XI (XO (XO (XO (XI (XI (XI
    (XI (XI (XO (XI (XI (XO XH))))))))))))))))), (Zpos (XI (XI (XI (XI (XI
    (XO (XO (XI (XI (XI (XI (XI (XO (XI (XI (XO
    XH)))))))))))))))))) :: (((Zpos (XO (XO (XO (XO (XO (XI (XI (XI (XI (XI
    (XI (XI (XO (XI (XI (XO XH))))))))))))))))), (Zpos (XO (XO (XI (XO (XO
    (XI (XI (XI (XI (XI (XI (XI (XO (XI (XI (XO
    XH)))))))))))))))))) :: (((Zpos (XO (XO (XO (XO (XI (XI (XI (XI (XI (XI
    (XI (XI (XO (XI (XI (XO XH))))))))))))))))), (Zpos (XI (XO (XO (XO (XI
    (XI (XI (XI (XI (XI (XI (XI (XO (XI (XI (XO
    XH)))))))))))))))))) :: (((Zpos (XO (XO (XO (XO (XO (XO (XO (XO (XO (XO
    (XO (XO (XI (XI (XI (XO XH))))))))))))))))), (Zpos (XI (XI (XI (XO (XI
    (XI (XI (XI (XI (XI (XI (XO (XO (XO (XO (XI
    XH)))))))))))))))))) :: []))))))))))))))))))))))))) :: ((((Zpos (XO (XO
    (XO (XO (XO (XO (XO (XO (XO (XO (XO (XI (XO (XO (XO (XI
    XH))))))))))))))))), (Zpos (XI (XO (XI (XO (XO (XO (XI (XO (XO (XI (XO
    (XO (XI (XO (XI (XI XH)))))))))))))))))), (((Zpos (XO (XO (XO (XO (XO (XO
    (XO (XO (XO (XO (XO (XI (XO (XO (XO (XI XH))))))))))))))))), (Zpos (XI
    (XO (XI (XO (XI (XO (XI (XI (XO (XO (XI (XI (XO (XO (XO (XI
    XH)))))))))))))))))) :: (((Zpos (XO (XO (XO (XO (XO (XO (XO (XO (XI (XO
    (XI (XI (XO (XO (XO (XI XH))))))))))))))))), (Zpos (XO (XO (XO (XI (XO
    (XO (XO (XO (XI (XO (XI (XI (XO (XO (XO (XI
    XH)))))))))))))))))) :: (((Zpos (XO (XO (XO (XO (XI (XI (XI (XI (XI (XI
    (XI (XI (XO (XI (XO (XI XH))))))))))))))))), (Zpos (XI (XI (XO (XO (XI
    (XI (XI (XI (XI (XI (XI (XI (XO (XI (XO (XI
    XH)))))))))))))))))) :: (((Zpos (XI (XO (XI (XO (XI (XI (XI (XI (XI (XI
    (XI (XI (XO (XI (XO (XI XH))))))))))))))))), (Zpos (XI (XI (XO (XI (XI
    (XI (XI (XI (XI (XI (XI (XI (XO (XI (XO (XI
    XH)))))))))))))))))) :: (((Zpos (XI (XO (XI (XI (XI (XI (XI (XI (XI (XI
    (XI (XI (XO (XI (XO (XI XH))))))))))))))))), (Zpos (XO (XI (XI (XI (XI
    (XI (XI (XI (XI (XI (XI (XI (XO (XI (XO (XI
    XH)))))))))))))))))) :: (((Zpos (XO (XO (XO (XO (XO (XO (XO (XO (XO (XO
    (XO (XO (XI (XI (XO (XI XH))))))))))))))))), (Zpos (XO (XI (XO (XO (XO
    (XI (XO (XO (XI (XO (XO (XO (XI (XI (XO (XI
    XH)))))))))))))))))) :: (((Zpos (XO (XI (XO (XO (XI (XI (XO (XO (XI (XO
    (XO (XO (XI (XI (XO (XI XH))))))))))))))))), (Zpos (XO (XI (XO (XO (XI
    (XI (XO (XO (XI (XO (XO (XO (XI (XI (XO (XI
    XH)))))))))))))))))) :: (((Zpos (XO (XO (XO (XO (XI (XO (XI (XO (XI (XO
    (XO (XO (XI (XI (XO (XI XH))))))))))))))))), (Zpos (XO (XI (XO (XO (XI
    (XO (XI (XO (XI (XO (XO (XO (XI (XI (XO (XI
    XH)))))))))))))))))) :: (((Zpos (XI (XO (XI (XO (XI (XO (XI (XO (XI (XO
    (XO (XO (XI (XI (XO (XI XH))))))))))))))))), (Zpos (XI (XO (XI (XO (XI
    (XO (XI (XO (XI (XO (XO (XO (XI (XI (XO (XI
    XH)))))))))))))))))) :: (((Zpos (XO (XO (XI (XO (XO (XI (XI (XO (XI (XO
    (XO (XO (XI (XI (XO (XI XH))))))))))))))))), (Zpos (XI (XI (XI (XO (XO
    (XI (XI (XO (XI (XO (XO (XO (XI (XI (XO (XI
    XH)))))))))))))))))) :: (((Zpos (XO (XO (XO (XO (XI (XI (XI (XO (XI (XO
    (XO (XO (XI (XI (XO (XI XH))))))))))))))))), (Zpos (XI (XI (XO (XI (XI
    (XI (XI (XI (XO (XI (XO (XO (XI (XI (XO (XI
    XH)))))))))))))))))) :: (((Zpos (XO (XO (XO (XO (XO (XO (XO (XO (XO (XO
    (XI (XI (XI (XI (XO (XI XH))))))))))))))))), (Zpos (XO (XI (XO (XI (XO
    (XI (XI (XO (XO (XO (XI (XI (XI (XI (XO (XI
    XH)))))))))))))))))) :: (((Zpos (XO (XO (XO (XO (XI (XI (XI (XO (XO (XO
    (XI (XI (XI (XI (XO (XI XH))))))))))))))))), (Zpos (XO (XO (XI (XI (XI
    (XI (XI (XO (XO (XO (XI (XI (XI (XI (XO (XI
    XH)))))))))))))))))) :: (((Zpos (XO (XO (XO (XO (XO (XO (XO (XI (XO (XO
    (XI (XI (XI (XI (XO (XI XH))))))))))))))))), (Zpos (XO (XO (XO (XI (XO
    (XO (XO (XI (XO (XO (XI (XI (XI (XI (XO (XI
    XH)))))))))))))))))) :: (((Zpos (XO (XO (XO (XO (XI (XO (XO (XI (XO (XO
    (XI (XI (XI (XI (XO (XI XH))))))))))))))))), (Zpos (XI (XO (XO (XI (XI
    (XO (XO (XI (XO (XO (XI (XI (XI (XI (XO (XI
    XH)))))))))))))))))) :: (((Zpos (XO (XO (XI (XI (XI (XO (XO (XI (XO (XO
    (XI (XI (XI (XI (XO (XI XH))))))))))))))))), (Zpos (XI (XI (XI (XI (XI
    (XO (XO (XI (XO (XO (XI (XI (XI (XI (XO (XI
    XH)))))))))))))))))) :: (((Zpos (XO (XO (XO (XO (XO (XO (XO (XO (XI (XI
    (XI (XI (XO (XO (XI (XI XH))))))))))))))))), (Zpos (XI (XO (XI (XI (XO
    (XI (XO (XO (XI (XI (XI (XI (XO (XO (XI (XI
    XH)))))))))))))))))) :: (((Zpos (XO (XO (XO (XO (XI (XI (XO (XO (XI (XI
    (XI (XI (XO (XO (XI (XI XH))))))))))))))))), (Zpos (XO (XI (XI (XO (XO
    (XO (XI (XO (XI (XI (XI (XI (XO (XO (XI (XI
    XH)))))))))))))))))) :: (((Zpos (XO (XO (XO (XO (XI (XO (XI (XO (XI (XI
    (XI (XI (XO (XO (XI (XI XH))))))))))))))))), (Zpos (XI (XI (XO (XO (XO
    (XO (XI (XI (XI (XI (XI (XI (XO (XO (XI (XI
    XH)))))))))))))))))) :: (((Zpos (XO (XO (XO (XO (XO (XO (XO (XO (XO (XO
    (XO (XO (XI (XO (XI (XI XH))))))))))))))))), (Zpos (XI (XO (XI (XO (XI
    (XI (XI (XI (XO (XO (XO (XO (XI (XO (XI (XI
    XH)))))))))))))))))) :: (((Zpos (XO (XO (XO (XO (XO (XO (XO (XO (XI (XO
    (XO (XO (XI (XO (XI (XI XH))))))))))))))))), (Zpos (XO (XI (XI (XO (XO
    (XI (XO (XO (XI (XO (XO (XO (XI (XO (XI (XI
    XH)))))))))))))))))) :: (((Zpos (XI (XO (XO (XI (XO (XI (XO (XO (XI (XO
    (XO (XO (XI (XO (XI (XI XH))))))))))))))))), (Zpos (XO (XI (XO (XO (XI
    (XI (XI (XO (XI (XO (XO (XO (XI (XO (XI (XI
    XH)))))))))))))))))) :: (((Zpos (XI (XI (XO (XI (XI (XI (XI (XO (XI (XO
    (XO (XO (XI (XO (XI (XI XH))))))))))))))))), (Zpos (XO (XI (XO (XI (XO
    (XI (XI (XI (XI (XO (XO (XO (XI (XO (XI (XI
    XH)))))))))))))))))) :: (((Zpos (XO (XO (XO (XO (XO (XO (XO (XO (XO (XI
    (XO (XO (XI (XO (XI (XI XH))))))))))))))))), (Zpos (XI (XO (XI (XO (XO
    (XO (XI (XO (XO (XI (XO (XO (XI (XO (XI (XI
    XH)))))))))))))))))) :: []))))))))))))))))))))))))) :: ((((Zpos (XO (XO
    (XO (XO (XO (XO (XI (XI (XO (XI (XO (XO (XI (XO (XI (XI
    XH))))))))))))))))), (Zpos (XI (XI (XO (XI (XO (XO (XI (XI (XI (XI (XI
    (XO (XI (XO (XI (XI XH)))))))))))))))))), (((Zpos (XO (XO (XO (XO (XO (XO
    (XI (XI (XO (XI (XO (XO (XI (XO (XI (XI XH))))))))))))))))), (Zpos (XI
    (XI (XO (XO (XI (XO (XI (XI (XO (XI (XO (XO (XI (XO (XI (XI
    XH)))))))))))))))))) :: (((Zpos (XO (XO (XO (XO (XO (XI (XI (XI (XO (XI
    (XO (XO (XI (XO (XI (XI XH))))))))))))))))), (Zpos (XI (XI (XO (XO (XI
    (XI (XI (XI (XO (XI (XO (XO (XI (XO (XI (XI
    XH)))))))))))))))))) :: (((Zpos (XO (XO (XO (XO (XO (XO (XO (XO (XI (XI
    (XO (XO (XI (XO (XI (XI XH))))))))))))))))), (Zpos (XO (XI (XI (XO (XI
    (XO (XI (XO (XI (XI (XO (XO (XI (XO (XI (XI
    XH)))))))))))))))))) :: (((Zpos (XO (XO (XO (XO (XO (XI (XI (XO (XI (XI
    (XO (XO (XI (XO (XI (XI XH))))))))))))))))), (Zpos (XO (XO (XO (XI (XI
    (XI (XI (XO (XI (XI (XO (XO (XI (XO (XI (XI
    XH)))))))))))))))))) :: (((Zpos (XO (XO (XO (XO (XO (XO (XO (XO (XO (XO
    (XI (XO (XI (XO (XI (XI XH))))))))))))))))), (Zpos (XO (XO (XI (XO (XI
    (XO (XI (XO (XO (XO (XI (XO (XI (XO (XI (XI
    XH)))))))))))))))))) :: (((Zpos (XO (XI (XI (XO (XI (XO (XI (XO (XO (XO
    (XI (XO (XI (XO (XI (XI XH))))))))))))))))), (Zpos (XO (XO (XI (XI (XI
    (XO (XO (XI (XO (XO (XI (XO (XI (XO (XI (XI
    XH)))))))))))))))))) :: (((Zpos (XO (XI (XI (XI (XI (XO (XO (XI (XO (XO
    (XI (XO (XI (XO (XI (XI XH))))))))))))))))), (Zpos (XI (XI (XI (XI (XI
    (XO (XO (XI (XO (XO (XI (XO (XI (XO (XI (XI
    XH)))))))))))))))))) :: (((Zpos (XO (XI (XO (XO (XO (XI (XO (XI (XO (XO
    (XI (XO (XI (XO (XI (XI XH))))))))))))))))), (Zpos (XO (XI (XO (XO (XO
    (XI (XO (XI (XO (XO (XI (XO (XI (XO (XI (XI
    XH)))))))))))))))))) :: (((Zpos (XI (XO (XI (XO (XO (XI (XO (XI (XO (XO
    (XI (XO (XI (XO (XI (XI XH))))))))))))))))), (Zpos (XO (XI (XI (XO (XO
    (XI (XO (XI (XO (XO (XI (XO (XI (XO (XI (XI
    XH)))))))))))))))))) :: (((Zpos (XI (XO (XO (XI (XO (XI (XO (XI (XO (XO
    (XI (XO (XI (XO (XI (XI XH))))))))))))))))), (Zpos (XO (XO (XI (XI (XO
    (XI (XO (XI (XO (XO (XI (XO (XI (XO (XI (XI
    XH)))))))))))))))))) :: (((Zpos (XO (XI (XI (XI (XO (XI (XO (XI (XO (XO
    (XI (XO (XI (XO (XI (XI XH))))))))))))))))), (Zpos (XI (XO (XO (XI (XI
    (XI (XO (XI (XO (XO (XI (XO (XI (XO (XI (XI
    XH)))))))))))))))))) :: (((Zpos (XI (XI (XO (XI (XI (XI (XO (XI (XO (XO
    (XI (XO (XI (XO (XI (XI XH))))))))))))))))), (Zpos (XI (XI (XO (XI (XI
    (XI (XO (XI (XO (XO (XI (XO (XI (XO (XI (XI
    XH)))))))))))))))))) :: (((Zpos (XI (XO (XI (XI (XI (XI (XO (XI (XO (XO
    (XI (XO (XI (XO (XI (XI XH))))))))))))))))), (Zpos (XI (XI (XO (XO (XO
    (XO (XI (XI (XO (XO (XI (XO (XI (XO (XI (XI
    XH)))))))))))))))))) :: (((Zpos (XI (XO (XI (XO (XO (XO (XI (XI (XO (XO
    (XI (XO (XI (XO (XI (XI XH))))))))))))))))), (Zpos (XI (XO (XI (XO (XO
    (XO (XO (XO (XI (XO (XI (XO (XI (XO (XI (XI
    XH)))))))))))))))))) :: (((Zpos (XI (XI (XI (XO (XO (XO (XO (XO (XI (XO
    (XI (XO (XI (XO (XI (XI XH))))))))))))))))), (Zpos (XO (XI (XO (XI (XO
    (XO (XO (XO (XI (XO (XI (XO (XI (XO (XI (XI
    XH)))))))))))))))))) :: (((Zpos (XI (XO (XI (XI (XO (XO (XO (XO (XI (XO
    (XI (XO (XI (XO (XI (XI XH))))))))))))))))), (Zpos (XO (XO (XI (XO (XI
    (XO (XO (XO (XI (XO (XI (XO (XI (XO (XI (XI
    XH)))))))))))))))))) :: (((Zpos (XO (XI (XI (XO (XI (XO (XO (XO (XI (XO
    (XI (XO (XI (XO (XI (XI XH))))))))))))))))), (Zpos (XO (XO (XI (XI (XI
    (XO (XO (XO (XI (XO (XI (XO (XI (XO (XI (XI
    XH)))))))))))))))))) :: (((Zpos (XO (XI (XI (XI (XI (XO (XO (XO (XI (XO
    (XI (XO (XI (XO (XI (XI XH))))))))))))))))), (Zpos (XI (XO (XO (XI (XI
    (XI (XO (XO (XI (XO (XI (XO (XI (XO (XI (XI
    XH)))))))))))))))))) :: (((Zpos (XI (XI (XO (XI (XI (XI (XO (XO (XI (XO
    (XI (XO (XI (XO (XI (XI XH))))))))))))))))), (Zpos (XO (XI (XI (XI (XI
    (XI (XO (XO (XI (XO (XI (XO (XI (XO (XI (XI
    XH)))))))))))))))))) :: (((Zpos (XO (XO (XO (XO (XO (XO (XI (XO (XI (XO
    (XI (XO (XI (XO (XI (XI XH))))))))))))))))), (Zpos (XO (XO (XI (XO (XO
    (XO (XI (XO (XI (XO (XI (XO (XI (XO (XI (XI
    XH)))))))))))))))))) :: (((Zpos (XO (XI (XI (XO (XO (XO (XI (XO (XI (XO
    (XI (XO (XI (XO (XI (XI XH))))))))))))))))), (Zpos (XO (XI (XI (XO (XO
    (XO (XI (XO (XI (XO (XI (XO (XI (XO (XI (XI
    XH)))))))))))))))))) :: (((Zpos (XO (XI (XO (XI (XO (XO (XI (XO (XI (XO
    (XI (XO (XI (XO (XI (XI XH))))))))))))))))), (Zpos (XO (XO (XO (XO (XI
    (XO (XI (XO (XI (XO (XI (XO (XI (XO (XI (XI
    XH)))))))))))))))))) :: (((Zpos (XO (XI (XO (XO (XI (XO (XI (XO (XI (XO
    (XI (XO (XI (XO (XI (XI XH))))))))))))))))), (Zpos (XI (XO (XI (XO (XO
    (XI (XO (XI (XO (XI (XI (XO (XI (XO (XI (XI
    XH)))))))))))))))))) :: (((Zpos (XO (XO (XO (XI (XO (XI (XO (XI (XO (XI
    (XI (XO (XI (XO (XI (XI XH))))))))))))))))), (Zpos (XI (XI (XO (XI (XO
    (XO (XI (XI (XI (XI (XI (XO (XI (XO (XI (XI
    XH)))))))))))))))))) :: []))))))))))))))))))))))))) :: ((((Zpos (XO (XI
    (XI (XI (XO (XO (XI (XI (XI (XI (XI (XO (XI (XO (XI (XI
    XH))))))))))))))))), (Zpos (XO (XI (XI (XI (XI (XI (XI (XI (XI (XI (XI
    (XO (XO (XI (XI (XI XH)))))))))))))))))), (((Zpos (XO (XI (XI (XI (XO (XO
    (XI (XI (XI (XI (XI (XO (XI (XO (XI (XI XH))))))))))))))))), (Zpos (XI
    (XI (XO (XI (XO (XO (XO (XI (XO (XI (XO (XI (XI (XO (XI (XI
    XH)))))))))))))))))) :: (((Zpos (XI (XI (XO (XI (XI (XO (XO (XI (XO (XI
    (XO (XI (XI (XO (XI (XI XH))))))))))))))))), (Zpos (XI (XI (XI (XI (XI
    (XO (XO (XI (XO (XI (XO (XI (XI (XO (XI (XI
    XH)))))))))))))))))) :: (((Zpos (XI (XO (XO (XO (XO (XI (XO (XI (XO (XI
    (XO (XI (XI (XO (XI (XI XH))))))))))))))))), (Zpos (XI (XI (XI (XI (XO
    (XI (XO (XI (XO (XI (XO (XI (XI (XO (XI (XI
    XH)))))))))))))))))) :: (((Zpos (XO (XO (XO (XO (XO (XO (XO (XO (XI (XI
    (XI (XI (XI (XO (XI (XI XH))))))))))))))))), (Zpos (XO (XI (XI (XI (XI
    (XO (XO (XO (XI (XI (XI (XI (XI (XO (XI (XI
    XH)))))))))))))))))) :: (((Zpos (XI (XO (XI (XO (XO (XI (XO (XO (XI (XI
    (XI (XI (XI (XO (XI (XI XH))))))))))))))))), (Zpos (XO (XI (XO (XI (XO
    (XI (XO (XO (XI (XI (XI (XI (XI (XO (XI (XI
    XH)))))))))))))))))) :: (((Zpos (XO (XO (XO (XO (XO (XO (XO (XO (XO (XO
    (XO (XO (XO (XI (XI (XI XH))))))))))))))))), (Zpos (XO (XI (XI (XO (XO
    (XO (XO (XO (XO (XO (XO (XO (XO (XI (XI (XI
    XH)))))))))))))))))) :: (((Zpos (XO (XO (XO (XI (XO (XO (XO (XO (XO (XO
    (XO (XO (XO (XI (XI (XI XH))))))))))))))))), (Zpos (XO (XO (XO (XI (XI
    (XO (XO (XO (XO (XO (XO (XO (XO (XI (XI (XI
    XH)))))))))))))))))) :: (((Zpos (XI (XI (XO (XI (XI (XO (XO (XO (XO (XO
    (XO (XO (XO (XI (XI (XI XH))))))))))))))))), (Zpos (XI (XO (XO (XO (XO
    (XI (XO (XO (XO (XO (XO (XO (XO (XI (XI (XI
    XH)))))))))))))))))) :: (((Zpos (XI (XI (XO (XO (XO (XI (XO (XO (XO (XO
    (XO (XO (XO (XI (XI (XI XH))))))))))))))))), (Zpos (XO (XO (XI (XO (XO
    (XI (XO (XO (XO (XO (XO (XO (XO (XI (XI (XI
    XH)))))))))))))))))) :: (((Zpos (XO (XI (XI (XO (XO (XI (XO (XO (XO (XO
    (XO (XO (XO (XI (XI (XI XH))))))))))))))))), (Zpos (XO (XI (XO (XI (XO
    (XI (XO (XO (XO (XO (XO (XO (XO (XI (XI (XI
    XH)))))))))))))))))) :: (((Zpos (XO (XO (XO (XO (XI (XI (XO (XO (XO (XO
    (XO (XO (XO (XI (XI (XI XH))))))))))))))))), (Zpos (XI (XO (XI (XI (XO
    (XI (XI (XO (XO (XO (XO (XO (XO (XI (XI (XI
    XH)))))))))))))))))) :: (((Zpos (XI (XI (XI (XI (XO (XO (XO (XI (XO (XO
    (XO (XO (XO (XI (XI (XI XH))))))))))))))))), (Zpos (XI (XI (XI (XI (XO
    (XO (XO (XI (XO (XO (XO (XO (XO (XI (XI (XI
    XH)))))))))))))))))) :: (((Zpos (XO (XO (XO (XO (XO (XO (XO (XO (XI (XO
    (XO (XO (XO (XI (XI (XI XH))))))))))))))))), (Zpos (XO (XO (XI (XI (XO
    (XI (XO (XO (XI (XO (XO (XO (XO (XI (XI (XI
    XH)))))))))))))))))) :: (((Zpos (XO (XO (XO (XO (XI (XI (XO (XO (XI (XO
    (XO (XO (XO (XI (XI (XI XH))))))))))))))))), (Zpos (XI (XO (XI (XI (XI
    (XI (XO (XO (XI (XO (XO (XO (XO (XI (XI (XI
    XH)))))))))))))))))) :: (((Zpos (XO (XO (XO (XO (XO (XO (XI (XO (XI (XO
    (XO (XO (XO (XI (XI (XI XH))))))))))))))))), (Zpos (XI (XO (XO (XI (XO
    (XO (XI (XO (XI (XO (XO (XO (XO (XI (XI (XI
    XH)))))))))))))))))) :: (((Zpos (XO (XI (XI (XI (XO (XO (XI (XO (XI (XO
    (XO (XO (XO (XI (XI (XI XH))))))))))))))))), (Zpos (XI (XI (XI (XI (XO
    (XO (XI (XO (XI (XO (XO (XO (XO (XI (XI (XI
    XH)))))))))))))))))) :: (((Zpos (XO (XO (XO (XO (XI (XO (XO (XI (XO (XI
    (XO (XO (XO (XI (XI (XI XH))))))))))))))))), (Zpos (XO (XI (XI (XI (XO
    (XI (XO (XI (XO (XI (XO (XO (XO (XI (XI (XI
    XH)))))))))))))))))) :: (((Zpos (XO (XO (XO (XO (XO (XO (XI (XI (XO (XI
    (XO (XO (XO (XI (XI (XI XH))))))))))))))))), (Zpos (XI (XO (XO (XI (XI
    (XI (XI (XI (XO (XI (XO (XO (XO (XI (XI (XI
    XH)))))))))))))))))) :: (((Zpos (XI (XI (XI (XI (XI (XI (XI (XI (XO (XI
    (XO (XO (XO (XI (XI (XI XH))))))))))))))))), (Zpos (XI (XI (XI (XI (XI
    (XI (XI (XI (XO (XI (XO (XO (XO (XI (XI (XI
    XH)))))))))))))))))) :: (((Zpos (XO (XO (XO (XO (XI (XO (XI (XI (XO (XO
    (XI (XO (XO (XI (XI (XI XH))))))))))))))))), (Zpos (XI (XO (XO (XI (XI
    (XI (XI (XI (XO (XO (XI (XO (XO (XI (XI (XI
    XH)))))))))))))))))) :: (((Zpos (XO (XO (XO (XO (XO (XI (XI (XI (XI (XI
    (XI (XO (XO (XI (XI (XI XH))))))))))))))))), (Zpos (XO (XI (XI (XO (XO
    (XI (XI (XI (XI (XI (XI (XO (XO (XI (XI (XI
    XH)))))))))))))))))) :: (((Zpos (XO (XO (XO (XI (XO (XI (XI (XI (XI (XI
    (XI (XO (XO (XI (XI (XI XH))))))))))))))))), (Zpos (XI (XI (XO (XI (XO
    (XI (XI (XI (XI (XI (XI (XO (XO (XI (XI (XI
    XH)))))))))))))))))) :: (((Zpos (XI (XO (XI (XI (XO (XI (XI (XI (XI (XI
    (XI (XO (XO (XI (XI (XI XH))))))))))))))))), (Zpos (XO (XI (XI (XI (XO
    (XI (XI (XI (XI (XI (XI (XO (XO (XI (XI (XI
    XH)))))))))))))))))) :: (((Zpos (XO (XO (XO (XO (XI (XI (XI (XI (XI (XI
    (XI (XO (XO (XI (XI (XI XH))))))))))))))))), (Zpos (XO (XI (XI (XI (XI
    (XI (XI (XI (XI (XI (XI (XO (XO (XI (XI (XI
    XH)))))))))))))))))) :: []))))))))))))))))))))))))) :: ((((Zpos (XO (XO
    (XO (XO (XO (XO (XO (XO (XO (XO (XO (XI (XO (XI (XI (XI
    XH))))))))))))))))), (Zpos (XI (XI (XI (XO (XI (XO (XI (XO (XO (XI (XI
    (XI (XO (XI (XI (XI XH)))))))))))))))))), (((Zpos (XO (XO (XO (XO (XO (XO
    (XO (XO (XO (XO (XO (XI (XO (XI (XI (XI XH))))))))))))))))), (Zpos (XO
    (XO (XI (XO (XO (XO (XI (XI (XO (XO (XO (XI (XO (XI (XI (XI
    XH)))))))))))))))))) :: (((Zpos (XI (XI (XI (XO (XO (XO (XI (XI (XO (XO
    (XO (XI (XO (XI (XI (XI XH))))))))))))))))), (Zpos (XO (XI (XI (XO (XI
    (XO (XI (XI (XO (XO (XO (XI (XO (XI (XI (XI
    XH)))))))))))))))))) :: (((Zpos (XO (XO (XO (XO (XO (XO (XO (XO (XI (XO
    (XO (XI (XO (XI (XI (XI XH))))))))))))))))), (Zpos (XI (XI (XO (XI (XO
    (XO (XI (XO (XI (XO (XO (XI (XO (XI (XI (XI
    XH)))))))))))))))))) :: (((Zpos (XO (XO (XO (XO (XI (XO (XI (XO (XI (XO
    (XO (XI (XO (XI (XI (XI XH))))))))))))))))), (Zpos (XI (XO (XO (XI (XI
    (XO (XI (XO (XI (XO (XO (XI (XO (XI (XI (XI
    XH)))))))))))))))))) :: (((Zpos (XO (XI (XI (XI (XI (XO (XI (XO (XI (XO
    (XO (XI (XO (XI (XI (XI XH))))))))))))))))), (Zpos (XI (XI (XI (XI (XI
    (XO (XI (XO (XI (XO (XO (XI (XO (XI (XI (XI
    XH)))))))))))))))))) :: (((Zpos (XI (XO (XO (XO (XI (XI (XI (XO (XO (XO
    (XI (XI (XO (XI (XI (XI XH))))))))))))))))), (Zpos (XO (XO (XI (XO (XI
    (XI (XO (XI (XO (XO (XI (XI (XO (XI (XI (XI
    XH)))))))))))))))))) :: (((Zpos (XI (XO (XO (XO (XO (XO (XO (XO (XI (XO
    (XI (XI (XO (XI (XI (XI XH))))))))))))))))), (Zpos (XI (XO (XI (XI (XI
    (XI (XO (XO (XI (XO (XI (XI (XO (XI (XI (XI
    XH)))))))))))))))))) :: (((Zpos (XO (XO (XO (XO (XO (XO (XO (XO (XO (XI
    (XI (XI (XO (XI (XI (XI XH))))))))))))))))), (Zpos (XI (XI (XO (XO (XO
    (XO (XO (XO (XO (XI (XI (XI (XO (XI (XI (XI
    XH)))))))))))))))))) :: (((Zpos (XI (XO (XI (XO (XO (XO (XO (XO (XO (XI
    (XI (XI (XO (XI (XI (XI XH))))))))))))))))), (Zpos (XI (XI (XI (XI (XI
    (XO (XO (XO (XO (XI (XI (XI (XO (XI (XI (XI
    XH)))))))))))))))))) :: (((Zpos (XI (XO (XO (XO (XO (XI (XO (XO (XO (XI
    (XI (XI (XO (XI (XI (XI XH))))))))))))))))), (Zpos (XO (XI (XO (XO (XO
    (XI (XO (XO (XO (XI (XI (XI (XO (XI (XI (XI
    XH)))))))))))))))))) :: (((Zpos (XO (XO (XI (XO (XO (XI (XO (XO (XO (XI
    (XI (XI (XO (XI (XI (XI XH))))))))))))))))), (Zpos (XO (XO (XI (XO (XO
    (XI (XO (XO (XO (XI (XI (XI (XO (XI (XI (XI
    XH)))))))))))))))))) :: (((Zpos (XI (XI (XI (XO (XO (XI (XO (XO (XO (XI
    (XI (XI (XO (XI (XI (XI XH))))))))))))))))), (Zpos (XI (XI (XI (XO (XO
    (XI (XO (XO (XO (XI (XI (XI (XO (XI (XI (XI
    XH)))))))))))))))))) :: (((Zpos (XI (XO (XO (XI (XO (XI (XO (XO (XO (XI
    (XI (XI (XO (XI (XI (XI XH))))))))))))))))), (Zpos (XO (XI (XO (XO (XI
    (XI (XO (XO (XO (XI (XI (XI (XO (XI (XI (XI
    XH)))))))))))))))))) :: (((Zpos (XO (XO (XI (XO (XI (XI (XO (XO (XO (XI
    (XI (XI (XO (XI (XI (XI XH))))))))))))))))), (Zpos (XI (XI (XI (XO (XI
    (XI (XO (XO (XO (XI (XI (XI (XO (XI (XI (XI
    XH)))))))))))))))))) :: (((Zpos (XI (XO (XO (XI (XI (XI (XO (XO (XO (XI
    (XI (XI (XO (XI (XI (XI XH))))))))))))))))), (Zpos (XI (XO (XO (XI (XI
    (XI (XO (XO (XO (XI (XI (XI (XO (XI (XI (XI
    XH)))))))))))))))))) :: (((Zpos (XI (XI (XO (XI (XI (XI (XO (XO (XO (XI
    (XI (XI (XO (XI (XI (XI XH))))))))))))))))), (Zpos (XI (XI (XO (XI (XI
    (XI (XO (XO (XO (XI (XI (XI (XO (XI (XI (XI
    XH)))))))))))))))))) :: (((Zpos (XO (XI (XO (XO (XO (XO (XI (XO (XO (XI
    (XI (XI (XO (XI (XI (XI XH))))))))))))))))), (Zpos (XO (XI (XO (XO (XO
    (XO (XI (XO (XO (XI (XI (XI (XO (XI (XI (XI
    XH)))))))))))))))))) :: (((Zpos (XI (XI (XI (XO (XO (XO (XI (XO (XO (XI
    (XI (XI (XO (XI (XI (XI XH))))))))))))))))), (Zpos (XI (XI (XI (XO (XO
    (XO (XI (XO (XO (XI (XI (XI (XO (XI (XI (XI
    XH)))))))))))))))))) :: (((Zpos (XI (XO (XO (XI (XO (XO (XI (XO (XO (XI
    (XI (XI (XO (XI (XI (XI XH))))))))))))))))), (Zpos (XI (XO (XO (XI (XO
    (XO (XI (XO (XO (XI (XI (XI (XO (XI (XI (XI
    XH)))))))))))))))))) :: (((Zpos (XI (XI (XO (XI (XO (XO (XI (XO (XO (XI
    (XI (XI (XO (XI (XI (XI XH))))))))))))))))), (Zpos (XI (XI (XO (XI (XO
    (XO (XI (XO (XO (XI (XI (XI (XO (XI (XI (XI
    XH)))))))))))))))))) :: (((Zpos (XI (XO (XI (XI (XO (XO (XI (XO (XO (XI
    (XI (XI (XO (XI (XI (XI XH))))))))))))))))), (Zpos (XI (XI (XI (XI (XO
    (XO (XI (XO (XO (XI (XI (XI (XO (XI (XI (XI
    XH)))))))))))))))))) :: (((Zpos (XI (XO (XO (XO (XI (XO (XI (XO (XO (XI
    (XI (XI (XO (XI (XI (XI XH))))))))))))))))), (Zpos (XO (XI (XO (XO (XI
    (XO (XI (XO (XO (XI (XI (XI (XO (XI (XI (XI
    XH)))))))))))))))))) :: (((Zpos (XO (XO (XI (XO (XI (XO (XI (XO (XO (XI
    (XI (XI (XO (XI (XI (XI XH))))))))))))))))), (Zpos (XO (XO (XI (XO (XI
    (XO (XI (XO (XO (XI (XI (XI (XO (XI (XI (XI
    XH)))))))))))))))))) :: (((Zpos (XI (XI (XI (XO (XI (XO (XI (XO (XO (XI
    (XI (XI (XO (XI (XI (XI XH))))))))))))))))), (Zpos (XI (XI (XI (XO (XI
    (XO (XI (XO (XO (XI (XI (XI (XO (XI (XI (XI
    XH)))))))))))))))))) :: []))))))))))))))))))))))))) :: ((((Zpos (XI (XO
    (XO (XI (XI (XO (XI (XO (XO (XI (XI (XI (XO (XI (XI (XI
    XH))))))))))))))))), (Zpos (XI (XO (XI (XI (XO (XI (XO (XI (XI (XO (XO
    (XO (XI (XI (XI (XI XH)))))))))))))))))), (((Zpos (XI (XO (XO (XI (XI (XO
    (XI (XO (XO (XI (XI (XI (XO (XI (XI (XI XH))))))))))))))))), (Zpos (XI
    (XO (XO (XI (XI (XO (XI (XO (XO (XI (XI (XI (XO (XI (XI (XI
    XH)))))))))))))))))) :: (((Zpos (XI (XI (XO (XI (XI (XO (XI (XO (XO (XI
    (XI (XI (XO (XI (XI (XI XH))))))))))))))))), (Zpos (XI (XI (XO (XI (XI
    (XO (XI (XO (XO (XI (XI (XI (XO (XI (XI (XI
    XH)))))))))))))))))) :: (((Zpos (XI (XO (XI (XI (XI (XO (XI (XO (XO (XI
    (XI (XI (XO (XI (XI (XI XH))))))))))))))))), (Zpos (XI (XO (XI (XI (XI
    (XO (XI (XO (XO (XI (XI (XI (XO (XI (XI (XI
    XH)))))))))))))))))) :: (((Zpos (XI (XI (XI (XI (XI (XO (XI (XO (XO (XI
    (XI (XI (XO (XI (XI (XI XH))))))))))))))))), (Zpos (XI (XI (XI (XI (XI
    (XO (XI (XO (XO (XI (XI (XI (XO (XI (XI (XI
    XH)))))))))))))))))) :: (((Zpos (XI (XO (XO (XO (XO (XI (XI (XO (XO (XI
    (XI (XI (XO (XI (XI (XI XH))))))))))))))))), (Zpos (XO (XI (XO (XO (XO
    (XI (XI (XO (XO (XI (XI (XI (XO (XI (XI (XI
    XH)))))))))))))))))) :: (((Zpos (XO (XO (XI (XO (XO (XI (XI (XO (XO (XI
    (XI (XI (XO (XI (XI (XI XH))))))))))))))))), (Zpos (XO (XO (XI (XO (XO
    (XI (XI (XO (XO (XI (XI (XI (XO (XI (XI (XI
    XH)))))))))))))))))) :: (((Zpos (XI (XI (XI (XO (XO (XI (XI (XO (XO (XI
    (XI (XI (XO (XI (XI (XI XH))))))))))))))))), (Zpos (XO (XI (XO (XI (XO
    (XI (XI (XO (XO (XI (XI (XI (XO (XI (XI (XI
    XH)))))))))))))))))) :: (((Zpos (XO (XO (XI (XI (XO (XI (XI (XO (XO (XI
    (XI (XI (XO (XI (XI (XI XH))))))))))))))))), (Zpos (XO (XI (XO (XO (XI
    (XI (XI (XO (XO (XI (XI (XI (XO (XI (XI (XI
    XH)))))))))))))))))) :: (((Zpos (XO (XO (XI (XO (XI (XI (XI (XO (XO (XI
    (XI (XI (XO (XI (XI (XI XH))))))))))))))))), (Zpos (XI (XI (XI (XO (XI
    (XI (XI (XO (XO (XI (XI (XI (XO (XI (XI (XI
    XH)))))))))))))))))) :: (((Zpos (XI (XO (XO (XI (XI (XI (XI (XO (XO (XI
    (XI (XI (XO (XI (XI (XI XH))))))))))))))))), (Zpos (XO (XO (XI (XI (XI
    (XI (XI (XO (XO (XI (XI (XI (XO (XI (XI (XI
    XH)))))))))))))))))) :: (((Zpos (XO (XI (XI (XI (XI (XI (XI (XO (XO (XI
    (XI (XI (XO (XI (XI (XI XH))))))))))))))))), (Zpos (XO (XI (XI (XI (XI
    (XI (XI (XO (XO (XI (XI (XI (XO (XI (XI (XI
    XH)))))))))))))))))) :: (((Zpos (XO (XO (XO (XO (XO (XO (XO (XI (XO (XI
    (XI (XI (XO (XI (XI (XI XH))))))))))))))))), (Zpos (XI (XO (XO (XI (XO
    (XO (XO (XI (XO (XI (XI (XI (XO (XI (XI (XI
    XH)))))))))))))))))) :: (((Zpos (XI (XI (XO (XI (XO (XO (XO (XI (XO (XI
    (XI (XI (XO (XI (XI (XI XH))))))))))))))))), (Zpos (XI (XI (XO (XI (XI
    (XO (XO (XI (XO (XI (XI (XI (XO (XI (XI (XI
    XH)))))))))))))))))) :: (((Zpos (XI (XO (XO (XO (XO (XI (XO (XI (XO (XI
    (XI (XI (XO (XI (XI (XI XH))))))))))))))))), (Zpos (XI (XI (XO (XO (XO
    (XI (XO (XI (XO (XI (XI (XI (XO (XI (XI (XI
    XH)))))))))))))))))) :: (((Zpos (XI (XO (XI (XO (XO (XI (XO (XI (XO (XI
    (XI (XI (XO (XI (XI (XI XH))))))))))))))))), (Zpos (XI (XO (XO (XI (XO
    (XI (XO (XI (XO (XI (XI (XI (XO (XI (XI (XI
    XH)))))))))))))))))) :: (((Zpos (XI (XI (XO (XI (XO (XI (XO (XI (XO (XI
    (XI (XI (XO (XI (XI (XI XH))))))))))))))))), (Zpos (XI (XI (XO (XI (XI
    (XI (XO (XI (XO (XI (XI (XI (XO (XI (XI (XI
    XH)))))))))))))))))) :: (((Zpos (XO (XO (XO (XO (XI (XI (XI (XI (XO (XI
    (XI (XI (XO (XI (XI (XI XH))))))))))))))))), (Zpos (XI (XO (XO (XO (XI
    (XI (XI (XI (XO (XI (XI (XI (XO (XI (XI (XI
    XH)))))))))))))))))) :: (((Zpos (XO (XO (XO (XO (XO (XO (XO (XO (XO (XO
    (XO (XO (XI (XI (XI (XI XH))))))))))))))))), (Zpos (XI (XI (XO (XI (XO
    (XI (XO (XO (XO (XO (XO (XO (XI (XI (XI (XI
    XH)))))))))))))))))) :: (((Zpos (XO (XO (XO (XO (XI (XI (XO (XO (XO (XO
    (XO (XO (XI (XI (XI (XI XH))))))))))))))))), (Zpos (XI (XI (XO (XO (XI
    (XO (XO (XI (XO (XO (XO (XO (XI (XI (XI (XI
    XH)))))))))))))))))) :: (((Zpos (XO (XO (XO (XO (XO (XI (XO (XI (XO (XO
    (XO (XO (XI (XI (XI (XI XH))))))))))))))))), (Zpos (XO (XI (XI (XI (XO
    (XI (XO (XI (XO (XO (XO (XO (XI (XI (XI (XI
    XH)))))))))))))))))) :: (((Zpos (XI (XO (XO (XO (XI (XI (XO (XI (XO (XO
    (XO (XO (XI (XI (XI (XI XH))))))))))))))))), (Zpos (XI (XI (XI (XI (XI
    (XI (XO (XI (XO (XO (XO (XO (XI (XI (XI (XI
    XH)))))))))))))))))) :: (((Zpos (XI (XO (XO (XO (XO (XO (XI (XI (XO (XO
    (XO (XO (XI (XI (XI (XI XH))))))))))))))))), (Zpos (XI (XI (XI (XI (XO
    (XO (XI (XI (XO (XO (XO (XO (XI (XI (XI (XI
    XH)))))))))))))))))) :: (((Zpos (XI (XO (XO (XO (XI (XO (XI (XI (XO (XO
    (XO (XO (XI (XI (XI (XI XH))))))))))))))))), (Zpos (XI (XO (XI (XO (XI
    (XI (XI (XI (XO (XO (XO (XO (XI (XI (XI (XI
    XH)))))))))))))))))) :: (((Zpos (XO (XO (XO (XO (XO (XO (XO (XO (XI (XO
    (XO (XO (XI (XI (XI (XI XH))))))))))))))))), (Zpos (XI (XO (XI (XI (XO
    (XI (XO (XI (XI (XO (XO (XO (XI (XI (XI (XI
    XH)))))))))))))))))) :: []))))))))))))))))))))))))) :: ((((Zpos (XO (XI
    (XI (XO (XO (XI (XI (XI (XI (XO (XO (XO (XI (XI (XI (XI
    XH))))))))))))))))), (Zpos (XI (XO (XI (XO (XO (XO (XI (XI (XO (XI (XO
    (XI (XI (XI (XI (XI XH)))))))))))))))))), (((Zpos (XO (XI (XI (XO (XO (XI
    (XI (XI (XI (XO (XO (XO (XI (XI (XI (XI XH))))))))))))))))), (Zpos (XO
    (XI (XO (XO (XO (XO (XO (XO (XO (XI (XO (XO (XI (XI (XI (XI
    XH)))))))))))))))))) :: (((Zpos (XO (XO (XO (XO (XI (XO (XO (XO (XO (XI
    (XO (XO (XI (XI (XI (XI XH))))))))))))))))), (Zpos (XI (XI (XO (XI (XI
    (XI (XO (XO (XO (XI (XO (XO (XI (XI (XI (XI
    XH)))))))))))))))))) :: (((Zpos (XO (XO (XO (XO (XO (XO (XI (XO (XO (XI
    (XO (XO (XI (XI (XI (XI XH))))))))))))))))), (Zpos (XO (XO (XO (XI (XO
    (XO (XI (XO (XO (XI (XO (XO (XI (XI (XI (XI
    XH)))))))))))))))))) :: (((Zpos (XO (XO (XO (XO (XI (XO (XI (XO (XO (XI
    (XO (XO (XI (XI (XI (XI XH))))))))))))))))), (Zpos (XI (XO (XO (XO (XI
    (XO (XI (XO (XO (XI (XO (XO (XI (XI (XI (XI
    XH)))))))))))))))))) :: (((Zpos (XO (XO (XO (XO (XO (XI (XI (XO (XO (XI
    (XO (XO (XI (XI (XI (XI XH))))))))))))))))), (Zpos (XI (XO (XI (XO (XO
    (XI (XI (XO (XO (XI (XO (XO (XI (XI (XI (XI
    XH)))))))))))))))))) :: (((Zpos (XO (XO (XO (XO (XO (XO (XO (XO (XI (XI
    (XO (XO (XI (XI (XI (XI XH))))))))))))))))), (Zpos (XI (XI (XI (XO (XI
    (XO (XI (XI (XO (XI (XI (XO (XI (XI (XI (XI
    XH)))))))))))))))))) :: (((Zpos (XO (XO (XI (XI (XI (XO (XI (XI (XO (XI
    (XI (XO (XI (XI (XI (XI XH))))))))))))))))), (Zpos (XO (XO (XI (XI (XO
    (XI (XI (XI (XO (XI (XI (XO (XI (XI (XI (XI
    XH)))))))))))))))))) :: (((Zpos (XO (XO (XO (XO (XI (XI (XI (XI (XO (XI
    (XI (XO (XI (XI (XI (XI XH))))))))))))))))), (Zpos (XO (XO (XI (XI (XI
    (XI (XI (XI (XO (XI (XI (XO (XI (XI (XI (XI
    XH)))))))))))))))))) :: (((Zpos (XO (XO (XO (XO (XO (XO (XO (XO (XI (XI
    (XI (XO (XI (XI (XI (XI XH))))))))))))))))), (Zpos (XO (XI (XI (XO (XI
    (XI (XI (XO (XI (XI (XI (XO (XI (XI (XI (XI
    XH)))))))))))))))))) :: (((Zpos (XI (XI (XO (XI (XI (XI (XI (XO (XI (XI
    (XI (XO (XI (XI (XI (XI XH))))))))))))))))), (Zpos (XI (XO (XO (XI (XI
    (XO (XI (XI (XI (XI (XI (XO (XI (XI (XI (XI
    XH)))))))))))))))))) :: (((Zpos (XO (XO (XO (XO (XO (XI (XI (XI (XI (XI
    (XI (XO (XI (XI (XI (XI XH))))))))))))))))), (Zpos (XI (XI (XO (XI (XO
    (XI (XI (XI (XI (XI (XI (XO (XI (XI (XI (XI
    XH)))))))))))))))))) :: (((Zpos (XO (XO (XO (XO (XI (XI (XI (XI (XI (XI
    (XI (XO (XI (XI (XI (XI XH))))))))))))))))), (Zpos (XO (XO (XO (XO (XI
    (XI (XI (XI (XI (XI (XI (XO (XI (XI (XI (XI
    XH)))))))))))))))))) :: (((Zpos (XO (XO (XO (XO (XO (XO (XO (XO (XO (XO
    (XO (XI (XI (XI (XI (XI XH))))))))))))))))), (Zpos (XI (XI (XO (XI (XO
    (XO (XO (XO (XO (XO (XO (XI (XI (XI (XI (XI
    XH)))))))))))))))))) :: (((Zpos (XO (XO (XO (XO (XI (XO (XO (XO (XO (XO
    (XO (XI (XI (XI (XI (XI XH))))))))))))))))), (Zpos (XI (XI (XI (XO (XO
    (XO (XI (XO (XO (XO (XO (XI (XI (XI (XI (XI
    XH)))))))))))))))))) :: (((Zpos (XO (XO (XO (XO (XI (XO (XI (XO (XO (XO
    (XO (XI (XI (XI (XI (XI XH))))))))))))))))), (Zpos (XI (XO (XO (XI (XI
    (XO (XI (XO (XO (XO (XO (XI (XI (XI (XI (XI
    XH)))))))))))))))))) :: (((Zpos (XO (XO (XO (XO (XO (XI (XI (XO (XO (XO
    (XO (XI (XI (XI (XI (XI XH))))))))))))))))), (Zpos (XI (XI (XI (XO (XO
    (XO (XO (XI (XO (XO (XO (XI (XI (XI (XI (XI
    XH)))))))))))))))))) :: (((Zpos (XO (XO (XO (XO (XI (XO (XO (XI (XO (XO
    (XO (XI (XI (XI (XI (XI XH))))))))))))))))), (Zpos (XI (XO (XI (XI (XO
    (XI (XO (XI (XO (XO (XO (XI (XI (XI (XI (XI
    XH)))))))))))))))))) :: (((Zpos (XO (XO (XO (XO (XI (XI (XO (XI (XO (XO
    (XO (XI (XI (XI (XI (XI XH))))))))))))))))), (Zpos (XI (XO (XO (XO (XI
    (XI (XO (XI (XO (XO (XO (XI (XI (XI (XI (XI
    XH)))))))))))))))))) :: (((Zpos (XO (XO (XO (XO (XO (XO (XO (XO (XI (XO
    (XO (XI (XI (XI (XI (XI XH))))))))))))))))), (Zpos (XI (XI (XO (XO (XI
    (XO (XI (XO (XO (XI (XO (XI (XI (XI (XI (XI
    XH)))))))))))))))))) :: (((Zpos (XO (XO (XO (XO (XO (XI (XI (XO (XO (XI
    (XO (XI (XI (XI (XI (XI XH))))))))))))))))), (Zpos (XI (XO (XI (XI (XO
    (XI (XI (XO (XO (XI (XO (XI (XI (XI (XI (XI
    XH)))))))))))))))))) :: (((Zpos (XO (XO (XO (XO (XI (XI (XI (XO (XO (XI
    (XO (XI (XI (XI (XI (XI XH))))))))))))))))), (Zpos (XO (XO (XI (XI (XI
    (XI (XI (XO (XO (XI (XO (XI (XI (XI (XI (XI
    XH)))))))))))))))))) :: (((Zpos (XO (XO (XO (XO (XO (XO (XO (XI (XO (XI
    (XO (XI (XI (XI (XI (XI XH))))))))))))))))), (Zpos (XO (XO (XO (XI (XO
    (XO (XO (XI (XO (XI (XO (XI (XI (XI (XI (XI
    XH)))))))))))))))))) :: (((Zpos (XO (XO (XO (XO (XI (XO (XO (XI (XO (XI
    (XO (XI (XI (XI (XI (XI XH))))))))))))))))), (Zpos (XI (XO (XI (XI (XI
    (XI (XO (XI (XO (XI (XO (XI (XI (XI (XI (XI
    XH)))))))))))))))))) :: (((Zpos (XI (XI (XI (XI (XI (XI (XO (XI (XO (XI
    (XO (XI (XI (XI (XI (XI XH))))))))))))))))), (Zpos (XI (XO (XI (XO (XO
    (XO (XI (XI (XO (XI (XO (XI (XI (XI (XI (XI
    XH)))))))))))))))))) :: []))))))))))))))))))))))))) :: ((((Zpos (XO (XI
    (XI (XI (XO (XO (XI (XI (XO (XI (XO (XI (XI (XI (XI (XI
    XH))))))))))))))))), (Zpos (XI (XI (XI (XI (XO (XI (XI (XI (XI (XO (XO
    (XO (XO (XO (XO (XO (XO (XI (XI XH))))))))))))))))))))), (((Zpos (XO (XI
    (XI (XI (XO (XO (XI (XI (XO (XI (XO (XI (XI (XI (XI (XI
    XH))))))))))))))))), (Zpos (XI (XI (XO (XI (XI (XO (XI (XI (XO (XI (XO
    (XI (XI (XI (XI (XI XH)))))))))))))))))) :: (((Zpos (XO (XO (XO (XO (XO
    (XI (XI (XI (XO (XI (XO (XI (XI (XI (XI (XI XH))))))))))))))))), (Zpos
    (XO (XO (XO (XI (XO (XI (XI (XI (XO (XI (XO (XI (XI (XI (XI (XI
    XH)))))))))))))))))) :: (((Zpos (XO (XO (XO (XO (XI (XI (XI (XI (XO (XI
    (XO (XI (XI (XI (XI (XI XH))))))))))))))))), (Zpos (XO (XO (XO (XI (XI
    (XI (XI (XI (XO (XI (XO (XI (XI (XI (XI (XI
    XH)))))))))))))))))) :: (((Zpos (XO (XO (XO (XO (XO (XO (XO (XO (XI (XI
    (XO (XI (XI (XI (XI (XI XH))))))))))))))))), (Zpos (XO (XI (XO (XO (XI
    (XO (XO (XI (XI (XI (XO (XI (XI (XI (XI (XI
    XH)))))))))))))))))) :: (((Zpos (XO (XO (XI (XO (XI (XO (XO (XI (XI (XI
    (XO (XI (XI (XI (XI (XI XH))))))))))))))))), (Zpos (XO (XI (XO (XI (XO
    (XO (XI (XI (XI (XI (XO (XI (XI (XI (XI (XI
    XH)))))))))))))))))) :: (((Zpos (XO (XO (XO (XO (XI (XI (XI (XI (XI (XI
    (XO (XI (XI (XI (XI (XI XH))))))))))))))))), (Zpos (XI (XO (XO (XI (XI
    (XI (XI (XI (XI (XI (XO (XI (XI (XI (XI (XI
    XH)))))))))))))))))) :: (((Zpos (XO (XO (XO (XO (XO (XO (XO (XO (XO (XO
    (XO (XO (XO (XO (XO (XO (XO XH)))))))))))))))))), (Zpos (XI (XI (XI (XI
    (XI (XO (XI (XI (XO (XI (XI (XO (XO (XI (XO (XI (XO
    XH))))))))))))))))))) :: (((Zpos (XO (XO (XO (XO (XO (XO (XO (XO (XI (XI
    (XI (XO (XO (XI (XO (XI (XO XH)))))))))))))))))), (Zpos (XI (XO (XO (XI
    (XI (XI (XO (XO (XI (XI (XI (XO (XI (XI (XO (XI (XO
    XH))))))))))))))))))) :: (((Zpos (XO (XO (XO (XO (XO (XO (XI (XO (XI (XI
    (XI (XO (XI (XI (XO (XI (XO XH)))))))))))))))))), (Zpos (XI (XO (XI (XI
    (XI (XO (XO (XO (XO (XO (XO (XI (XI (XI (XO (XI (XO
    XH))))))))))))))))))) :: (((Zpos (XO (XO (XO (XO (XO (XI (XO (XO (XO (XO
    (XO (XI (XI (XI (XO (XI (XO XH)))))))))))))))))), (Zpos (XI (XO (XO (XO
    (XO (XI (XO (XI (XO (XI (XI (XI (XO (XO (XI (XI (XO
    XH))))))))))))))))))) :: (((Zpos (XO (XO (XO (XO (XI (XI (XO (XI (XO (XI
    (XI (XI (XO (XO (XI (XI (XO XH)))))))))))))))))), (Zpos (XO (XO (XO (XO
    (XO (XI (XI (XI (XI (XI (XO (XI (XO (XI (XI (XI (XO
    XH))))))))))))))))))) :: (((Zpos (XO (XO (XO (XO (XO (XO (XO (XO (XO (XO
    (XO (XI (XI (XI (XI (XI (XO XH)))))))))))))))))), (Zpos (XI (XO (XI (XI
    (XI (XO (XO (XO (XO (XI (XO (XI (XI (XI (XI (XI (XO
    XH))))))))))))))))))) :: (((Zpos (XO (XO (XO (XO (XO (XO (XO (XO (XO (XO
    (XO (XO (XO (XO (XO (XO (XI XH)))))))))))))))))), (Zpos (XO (XI (XO (XI
    (XO (XO (XI (XO (XI (XI (XO (XO (XI (XO (XO (XO (XI
    XH))))))))))))))))))) :: (((Zpos (XO (XO (XO (XO (XI (XO (XI (XO (XI (XI
    (XO (XO (XI (XO (XO (XO (XI XH)))))))))))))))))), (Zpos (XI (XI (XI (XI
    (XO (XI (XO (XI (XI (XI (XO (XO (XO (XI (XO (XO (XI
    XH))))))))))))))))))) :: (((Zpos (XO (XO (XO (XO (XO (XO (XO (XO (XI (XO
    (XO (XO (XO (XO (XO (XO (XO (XI (XI XH)))))))))))))))))))), (Zpos (XI (XI
    (XI (XI (XO (XI (XI (XI (XI (XO (XO (XO (XO (XO (XO (XO (XO (XI (XI
    XH))))))))))))))))))))) :: [])))))))))))))))) :: [])))))))))))))))))))))))))))))

(** val to_lower_tab : ((z * z) * ((z * z) * z) list) list **)

let to_lower_tab =
  (((Zpos (XI (XO (XO (XO (XO (XO XH))))))), (Zpos (XO (XO (XO (XI (XO (XI
    (XO (XO XH)))))))))), ((((Zpos (XI (XO (XO (XO (XO (XO XH))))))), (Zpos
    (XO (XI (XO (XI (XI (XO XH)))))))), (Zpos (XO (XO (XO (XO (XO
    XH))))))) :: ((((Zpos (XO (XO (XO (XO (XO (XO (XI XH)))))))), (Zpos (XO
    (XI (XI (XO (XI (XO (XI XH))))))))), (Zpos (XO (XO (XO (XO (XO
    XH))))))) :: ((((Zpos (XO (XO (XO (XI (XI (XO (XI XH)))))))), (Zpos (XO
    (XI (XI (XI (XI (XO (XI XH))))))))), (Zpos (XO (XO (XO (XO (XO
    XH))))))) :: ((((Zpos (XO (XO (XO (XO (XO (XO (XO (XO XH))))))))), (Zpos
    (XO (XO (XO (XO (XO (XO (XO (XO XH)))))))))), (Zpos XH)) :: ((((Zpos (XO
    (XI (XO (XO (XO (XO (XO (XO XH))))))))), (Zpos (XO (XI (XO (XO (XO (XO
    (XO (XO XH)))))))))), (Zpos XH)) :: ((((Zpos (XO (XO (XI (XO (XO (XO (XO
    (XO XH))))))))), (Zpos (XO (XO (XI (XO (XO (XO (XO (XO XH)))))))))),
    (Zpos XH)) :: ((((Zpos (XO (XI (XI (XO (XO (XO (XO (XO XH))))))))), (Zpos
    (XO (XI (XI (XO (XO (XO (XO (XO XH)))))))))), (Zpos XH)) :: ((((Zpos (XO
    (XO (XO (XI (XO (XO (XO (XO XH))))))))), (Zpos (XO (XO (XO (XI (XO (XO
    (XO (XO XH)))))))))), (Zpos XH)) :: ((((Zpos (XO (XI (XO (XI (XO (XO (XO
    (XO XH))))))))), (Zpos (XO (XI (XO (XI (XO (XO (XO (XO XH)))))))))),
    (Zpos XH)) :: ((((Zpos (XO (XO (XI (XI (XO (XO (XO (XO XH))))))))), (Zpos
    (XO (XO (XI (XI (XO (XO (XO (XO XH)))))))))), (Zpos XH)) :: ((((Zpos (XO
    (XI (XI (XI (XO (XO (XO (XO XH))))))))), (Zpos (XO (XI (XI (XI (XO (XO
    (XO (XO XH)))))))))), (Zpos XH)) :: ((((Zpos (XO (XO (XO (XO (XI (XO (XO
    (XO XH))))))))), (Zpos (XO (XO (XO (XO (XI (XO (XO (XO XH)))))))))),
    (Zpos XH)) :: ((((Zpos (XO (XI (XO (XO (XI (XO (XO (XO XH))))))))), (Zpos
    (XO (XI (XO (XO (XI (XO (XO (XO XH)))))))))), (Zpos XH)) :: ((((Zpos (XO
    (XO (XI (XO (XI (XO (XO (XO XH))))))))), (Zpos (XO (XO (XI (XO (XI (XO
    (XO (XO XH)))))))))), (Zpos XH)) :: ((((Zpos (XO (XI (XI (XO (XI (XO (XO
    (XO XH))))))))), (Zpos (XO (XI (XI (XO (XI (XO (XO (XO XH)))))))))),
    (Zpos XH)) :: ((((Zpos (XO (XO (XO (XI (XI (XO (XO (XO XH))))))))), (Zpos
    (XO (XO (XO (XI (XI (XO (XO (XO XH)))))))))), (Zpos XH)) :: ((((Zpos (XO
    (XI (XO (XI (XI (XO (XO (XO XH))))))))), (Zpos (XO (XI (XO (XI (XI (XO
    (XO (XO XH)))))))))), (Zpos XH)) :: ((((Zpos (XO (XO (XI (XI (XI (XO (XO
    (XO XH))))))))), (Zpos (XO (XO (XI (XI (XI (XO (XO (XO XH)))))))))),
    (Zpos XH)) :: ((((Zpos (XO (XI (XI (XI (XI (XO (XO (XO XH))))))))), (Zpos
    (XO (XI (XI (XI (XI (XO (XO (XO XH)))))))))), (Zpos XH)) :: ((((Zpos (XO
    (XO (XO (XO (XO (XI (XO (XO XH))))))))), (Zpos (XO (XO (XO (XO (XO (XI
    (XO (XO XH)))))))))), (Zpos XH)) :: ((((Zpos (XO (XI (XO (XO (XO (XI (XO
    (XO XH))))))))), (Zpos (XO (XI (XO (XO (XO (XI (XO (XO XH)))))))))),
    (Zpos XH)) :: ((((Zpos (XO (XO (XI (XO (XO (XI (XO (XO XH))))))))), (Zpos
    (XO (XO (XI (XO (XO (XI (XO (XO XH)))))))))), (Zpos XH)) :: ((((Zpos (XO
    (XI (XI (XO (XO (XI (XO (XO XH))))))))), (Zpos (XO (XI (XI (XO (XO (XI
    (XO (XO XH)))))))))), (Zpos XH)) :: ((((Zpos (XO (XO (XO (XI (XO (XI (XO
    (XO XH))))))))), (Zpos (XO (XO (XO (XI (XO (XI (XO (XO XH)))))))))),
    (Zpos XH)) :: []))))))))))))))))))))))))) :: ((((Zpos (XO (XI (XO (XI (XO
    (XI (XO (XO XH))))))))), (Zpos (XO (XI (XO (XI (XI (XO (XI (XO
    XH)))))))))), ((((Zpos (XO (XI (XO (XI (XO (XI (XO (XO XH))))))))), (Zpos
    (XO (XI (XO (XI (XO (XI (XO (XO XH)))))))))), (Zpos XH)) :: ((((Zpos (XO
    (XO (XI (XI (XO (XI (XO (XO XH))))))))), (Zpos (XO (XO (XI (XI (XO (XI
    (XO (XO XH)))))))))), (Zpos XH)) :: ((((Zpos (XO (XI (XI (XI (XO (XI (XO
    (XO XH))))))))), (Zpos (XO (XI (XI (XI (XO (XI (XO (XO XH)))))))))),
    (Zpos XH)) :: ((((Zpos (XO (XO (XO (XO (XI (XI (XO (XO XH))))))))), (Zpos
    (XO (XO (XO (XO (XI (XI (XO (XO XH)))))))))), (Zneg (XI (XI (XI (XO (XO
    (XO (XI XH))))))))) :: ((((Zpos (XO (XI (XO (XO (XI (XI (XO (XO
    XH))))))))), (Zpos (XO (XI (XO (XO (XI (XI (XO (XO XH)))))))))), (Zpos
    XH)) :: ((((Zpos (XO (XO (XI (XO (XI (XI (XO (XO XH))))))))), (Zpos (XO
    (XO (XI (XO (XI (XI (XO (XO XH)))))))))), (Zpos XH)) :: ((((Zpos (XO (XI
    (XI (XO (XI (XI (XO (XO XH))))))))), (Zpos (XO (XI (XI (XO (XI (XI (XO
    (XO XH)))))))))), (Zpos XH)) :: ((((Zpos (XI (XO (XO (XI (XI (XI (XO (XO
    XH))))))))), (Zpos (XI (XO (XO (XI (XI (XI (XO (XO XH)))))))))), (Zpos
    XH)) :: ((((Zpos (XI (XI (XO (XI (XI (XI (XO (XO XH))))))))), (Zpos (XI
    (XI (XO (XI (XI (XI (XO (XO XH)))))))))), (Zpos XH)) :: ((((Zpos (XI (XO
    (XI (XI (XI (XI (XO (XO XH))))))))), (Zpos (XI (XO (XI (XI (XI (XI (XO
    (XO XH)))))))))), (Zpos XH)) :: ((((Zpos (XI (XI (XI (XI (XI (XI (XO (XO
    XH))))))))), (Zpos (XI (XI (XI (XI (XI (XI (XO (XO XH)))))))))), (Zpos
    XH)) :: ((((Zpos (XI (XO (XO (XO (XO (XO (XI (XO XH))))))))), (Zpos (XI
    (XO (XO (XO (XO (XO (XI (XO XH)))))))))), (Zpos XH)) :: ((((Zpos (XI (XI
    (XO (XO (XO (XO (XI (XO XH))))))))), (Zpos (XI (XI (XO (XO (XO (XO (XI
    (XO XH)))))))))), (Zpos XH)) :: ((((Zpos (XI (XO (XI (XO (XO (XO (XI (XO
    XH))))))))), (Zpos (XI (XO (XI (XO (XO (XO (XI (XO XH)))))))))), (Zpos
    XH)) :: ((((Zpos (XI (XI (XI (XO (XO (XO (XI (XO XH))))))))), (Zpos (XI
    (XI (XI (XO (XO (XO (XI (XO XH)))))))))), (Zpos XH)) :: ((((Zpos (XO (XI
    (XO (XI (XO (XO (XI (XO XH))))))))), (Zpos (XO (XI (XO (XI (XO (XO (XI
    (XO XH)))))))))), (Zpos XH)) :: ((((Zpos (XO (XO (XI (XI (XO (XO (XI (XO
    XH))))))))), (Zpos (XO (XO (XI (XI (XO (XO (XI (XO XH)))))))))), (Zpos
    XH)) :: ((((Zpos (XO (XI (XI (XI (XO (XO (XI (XO XH))))))))), (Zpos (XO
    (XI (XI (XI (XO (XO (XI (XO XH)))))))))), (Zpos XH)) :: ((((Zpos (XO (XO
    (XO (XO (XI (XO (XI (XO XH))))))))), (Zpos (XO (XO (XO (XO (XI (XO (XI
    (XO XH)))))))))), (Zpos XH)) :: ((((Zpos (XO (XI (XO (XO (XI (XO (XI (XO
    XH))))))))), (Zpos (XO (XI (XO (XO (XI (XO (XI (XO XH)))))))))), (Zpos
    XH)) :: ((((Zpos (XO (XO (XI (XO (XI (XO (XI (XO XH))))))))), (Zpos (XO
    (XO (XI (XO (XI (XO (XI (XO XH)))))))))), (Zpos XH)) :: ((((Zpos (XO (XI
    (XI (XO (XI (XO (XI (XO XH))))))))), (Zpos (XO (XI (XI (XO (XI (XO (XI
    (XO XH)))))))))), (Zpos XH)) :: ((((Zpos (XO (XO (XO (XI (XI (XO (XI (XO
    XH))))))))), (Zpos (XO (XO (XO (XI (XI (XO (XI (XO XH)))))))))), (Zpos
    XH)) :: ((((Zpos (XO (XI (XO (XI (XI (XO (XI (XO XH))))))))), (Zpos (XO
    (XI (XO (XI (XI (XO (XI (XO XH)))))))))), (Zpos
    XH)) :: []))))))))))))))))))))))))) :: ((((Zpos (XO (XO (XI (XI (XI (XO
    (XI (XO XH))))))))), (Zpos (XO (XI (XO (XI (XO (XO (XO (XI XH)))))))))),
    ((((Zpos (XO (XO (XI (XI (XI (XO (XI (XO XH))))))))), (Zpos (XO (XO (XI
    (XI (XI (XO (XI (XO XH)))))))))), (Zpos XH)) :: ((((Zpos (XO (XI (XI (XI
    (XI (XO (XI (XO XH))))))))), (Zpos (XO (XI (XI (XI (XI (XO (XI (XO
    XH)))))))))), (Zpos XH)) :: ((((Zpos (XO (XO (XO (XO (XO (XI (XI (XO
    XH))))))))), (Zpos (XO (XO (XO (XO (XO (XI (XI (XO XH)))))))))), (Zpos
    XH)) :: ((((Zpos (XO (XI (XO (XO (XO (XI (XI (XO XH))))))))), (Zpos (XO
    (XI (XO (XO (XO (XI (XI (XO XH)))))))))), (Zpos XH)) :: ((((Zpos (XO (XO
    (XI (XO (XO (XI (XI (XO XH))))))))), (Zpos (XO (XO (XI (XO (XO (XI (XI
    (XO XH)))))))))), (Zpos XH)) :: ((((Zpos (XO (XI (XI (XO (XO (XI (XI (XO
    XH))))))))), (Zpos (XO (XI (XI (XO (XO (XI (XI (XO XH)))))))))), (Zpos
    XH)) :: ((((Zpos (XO (XO (XO (XI (XO (XI (XI (XO XH))))))))), (Zpos (XO
    (XO (XO (XI (XO (XI (XI (XO XH)))))))))), (Zpos XH)) :: ((((Zpos (XO (XI
    (XO (XI (XO (XI (XI (XO XH))))))))), (Zpos (XO (XI (XO (XI (XO (XI (XI
    (XO XH)))))))))), (Zpos XH)) :: ((((Zpos (XO (XO (XI (XI (XO (XI (XI (XO
    XH))))))))), (Zpos (XO (XO (XI (XI (XO (XI (XI (XO XH)))))))))), (Zpos
    XH)) :: ((((Zpos (XO (XI (XI (XI (XO (XI (XI (XO XH))))))))), (Zpos (XO
    (XI (XI (XI (XO (XI (XI (XO XH)))))))))), (Zpos XH)) :: ((((Zpos (XO (XO
    (XO (XO (XI (XI (XI (XO XH))))))))), (Zpos (XO (XO (XO (XO (XI (XI (XI
    (XO XH)))))))))), (Zpos XH)) :: ((((Zpos (XO (XI (XO (XO (XI (XI (XI (XO
    XH))))))))), (Zpos (XO (XI (XO (XO (XI (XI (XI (XO XH)))))))))), (Zpos
    XH)) :: ((((Zpos (XO (XO (XI (XO (XI (XI (XI (XO XH))))))))), (Zpos (XO
    (XO (XI (XO (XI (XI (XI (XO XH)))))))))), (Zpos XH)) :: ((((Zpos (XO (XI
    (XI (XO (XI (XI (XI (XO XH))))))))), (Zpos (XO (XI (XI (XO (XI (XI (XI
    (XO XH)))))))))), (Zpos XH)) :: ((((Zpos (XO (XO (XO (XI (XI (XI (XI (XO
    XH))))))))), (Zpos (XO (XO (XO (XI (XI (XI (XI (XO XH)))))))))), (Zneg
    (XI (XO (XO (XI (XI (XI XH)))))))) :: ((((Zpos (XI (XO (XO (XI (XI (XI
    (XI (XO XH))))))))), (Zpos (XI (XO (XO (XI (XI (XI (XI (XO XH)))))))))),
    (Zpos XH)) :: ((((Zpos (XI (XI (XO (XI (XI (XI (XI (XO XH))))))))), (Zpos
    (XI (XI (XO (XI (XI (XI (XI (XO XH)))))))))), (Zpos XH)) :: ((((Zpos (XI
    (XO (XI (XI (XI (XI (XI (XO XH))))))))), (Zpos (XI (XO (XI (XI (XI (XI
    (XI (XO XH)))))))))), (Zpos XH)) :: ((((Zpos (XI (XO (XO (XO (XO (XO (XO
    (XI XH))))))))), (Zpos (XI (XO (XO (XO (XO (XO (XO (XI XH)))))))))),
    (Zpos (XO (XI (XO (XO (XI (XO (XI XH))))))))) :: ((((Zpos (XO (XI (XO (XO
    (XO (XO (XO (XI XH))))))))), (Zpos (XO (XI (XO (XO (XO (XO (XO (XI
    XH)))))))))), (Zpos XH)) :: ((((Zpos (XO (XO (XI (XO (XO (XO (XO (XI
    XH))))))))), (Zpos (XO (XO (XI (XO (XO (XO (XO (XI XH)))))))))), (Zpos
    XH)) :: ((((Zpos (XO (XI (XI (XO (XO (XO (XO (XI XH))))))))), (Zpos (XO
    (XI (XI (XO (XO (XO (XO (XI XH)))))))))), (Zpos (XO (XI (XI (XI (XO (XO
    (XI XH))))))))) :: ((((Zpos (XI (XI (XI (XO (XO (XO (XO (XI XH))))))))),
    (Zpos (XI (XI (XI (XO (XO (XO (XO (XI XH)))))))))), (Zpos
    XH)) :: ((((Zpos (XI (XO (XO (XI (XO (XO (XO (XI XH))))))))), (Zpos (XO
    (XI (XO (XI (XO (XO (XO (XI XH)))))))))), (Zpos (XI (XO (XI (XI (XO (XO
    (XI XH))))))))) :: []))))))))))))))))))))))))) :: ((((Zpos (XI (XI (XO
    (XI (XO (XO (XO (XI XH))))))))), (Zpos (XI (XI (XO (XO (XI (XI (XO (XI
    XH)))))))))), ((((Zpos (XI (XI (XO (XI (XO (XO (XO (XI XH))))))))), (Zpos
    (XI (XI (XO (XI (XO (XO (XO (XI XH)))))))))), (Zpos XH)) :: ((((Zpos (XO
    (XI (XI (XI (XO (XO (XO (XI XH))))))))), (Zpos (XO (XI (XI (XI (XO (XO
    (XO (XI XH)))))))))), (Zpos (XI (XI (XI (XI (XO (XO
    XH)))))))) :: ((((Zpos (XI (XI (XI (XI (XO (XO (XO (XI XH))))))))), (Zpos
    (XI (XI (XI (XI (XO (XO (XO (XI XH)))))))))), (Zpos (XO (XI (XO (XI (XO
    (XO (XI XH))))))))) :: ((((Zpos (XO (XO (XO (XO (XI (XO (XO (XI
    XH))))))))), (Zpos (XO (XO (XO (XO (XI (XO (XO (XI XH)))))))))), (Zpos
    (XI (XI (XO (XI (XO (XO (XI XH))))))))) :: ((((Zpos (XI (XO (XO (XO (XI
    (XO (XO (XI XH))))))))), (Zpos (XI (XO (XO (XO (XI (XO (XO (XI
    XH)))))))))), (Zpos XH)) :: ((((Zpos (XI (XI (XO (XO (XI (XO (XO (XI
    XH))))))))), (Zpos (XI (XI (XO (XO (XI (XO (XO (XI XH)))))))))), (Zpos
    (XI (XO (XI (XI (XO (XO (XI XH))))))))) :: ((((Zpos (XO (XO (XI (XO (XI
    (XO (XO (XI XH))))))))), (Zpos (XO (XO (XI (XO (XI (XO (XO (XI
    XH)))))))))), (Zpos (XI (XI (XI (XI (XO (XO (XI XH))))))))) :: ((((Zpos
    (XO (XI (XI (XO (XI (XO (XO (XI XH))))))))), (Zpos (XO (XI (XI (XO (XI
    (XO (XO (XI XH)))))))))), (Zpos (XI (XI (XO (XO (XI (XO (XI
    XH))))))))) :: ((((Zpos (XI (XI (XI (XO (XI (XO (XO (XI XH))))))))),
    (Zpos (XI (XI (XI (XO (XI (XO (XO (XI XH)))))))))), (Zpos (XI (XO (XO (XO
    (XI (XO (XI XH))))))))) :: ((((Zpos (XO (XO (XO (XI (XI (XO (XO (XI
    XH))))))))), (Zpos (XO (XO (XO (XI (XI (XO (XO (XI XH)))))))))), (Zpos
    XH)) :: ((((Zpos (XO (XO (XI (XI (XI (XO (XO (XI XH))))))))), (Zpos (XO
    (XO (XI (XI (XI (XO (XO (XI XH)))))))))), (Zpos (XI (XI (XO (XO (XI (XO
    (XI XH))))))))) :: ((((Zpos (XI (XO (XI (XI (XI (XO (XO (XI XH))))))))),
    (Zpos (XI (XO (XI (XI (XI (XO (XO (XI XH)))))))))), (Zpos (XI (XO (XI (XO
    (XI (XO (XI XH))))))))) :: ((((Zpos (XI (XI (XI (XI (XI (XO (XO (XI
    XH))))))))), (Zpos (XI (XI (XI (XI (XI (XO (XO (XI XH)))))))))), (Zpos
    (XO (XI (XI (XO (XI (XO (XI XH))))))))) :: ((((Zpos (XO (XO (XO (XO (XO
    (XI (XO (XI XH))))))))), (Zpos (XO (XO (XO (XO (XO (XI (XO (XI
    XH)))))))))), (Zpos XH)) :: ((((Zpos (XO (XI (XO (XO (XO (XI (XO (XI
    XH))))))))), (Zpos (XO (XI (XO (XO (XO (XI (XO (XI XH)))))))))), (Zpos
    XH)) :: ((((Zpos (XO (XO (XI (XO (XO (XI (XO (XI XH))))))))), (Zpos (XO
    (XO (XI (XO (XO (XI (XO (XI XH)))))))))), (Zpos XH)) :: ((((Zpos (XO (XI
    (XI (XO (XO (XI (XO (XI XH))))))))), (Zpos (XO (XI (XI (XO (XO (XI (XO
    (XI XH)))))))))), (Zpos (XO (XI (XO (XI (XI (XO (XI
    XH))))))))) :: ((((Zpos (XI (XI (XI (XO (XO (XI (XO (XI XH))))))))),
    (Zpos (XI (XI (XI (XO (XO (XI (XO (XI XH)))))))))), (Zpos
    XH)) :: ((((Zpos (XI (XO (XO (XI (XO (XI (XO (XI XH))))))))), (Zpos (XI
    (XO (XO (XI (XO (XI (XO (XI XH)))))))))), (Zpos (XO (XI (XO (XI (XI (XO
    (XI XH))))))))) :: ((((Zpos (XO (XO (XI (XI (XO (XI (XO (XI XH))))))))),
    (Zpos (XO (XO (XI (XI (XO (XI (XO (XI XH)))))))))), (Zpos
    XH)) :: ((((Zpos (XO (XI (XI (XI (XO (XI (XO (XI XH))))))))), (Zpos (XO
    (XI (XI (XI (XO (XI (XO (XI XH)))))))))), (Zpos (XO (XI (XO (XI (XI (XO
    (XI XH))))))))) :: ((((Zpos (XI (XI (XI (XI (XO (XI (XO (XI XH))))))))),
    (Zpos (XI (XI (XI (XI (XO (XI (XO (XI XH)))))))))), (Zpos
    XH)) :: ((((Zpos (XI (XO (XO (XO (XI (XI (XO (XI XH))))))))), (Zpos (XO
    (XI (XO (XO (XI (XI (XO (XI XH)))))))))), (Zpos (XI (XO (XO (XI (XI (XO
    (XI XH))))))))) :: ((((Zpos (XI (XI (XO (XO (XI (XI (XO (XI XH))))))))),
    (Zpos (XI (XI (XO (XO (XI (XI (XO (XI XH)))))))))), (Zpos
    XH)) :: []))))))))))))))))))))))))) :: ((((Zpos (XI (XO (XI (XO (XI (XI
    (XO (XI XH))))))))), (Zpos (XO (XO (XO (XI (XO (XI (XI (XI XH)))))))))),
    ((((Zpos (XI (XO (XI (XO (XI (XI (XO (XI XH))))))))), (Zpos (XI (XO (XI
    (XO (XI (XI (XO (XI XH)))))))))), (Zpos XH)) :: ((((Zpos (XI (XI (XI (XO
    (XI (XI (XO (XI XH))))))))), (Zpos (XI (XI (XI (XO (XI (XI (XO (XI
    XH)))))))))), (Zpos (XI (XI (XO (XI (XI (XO (XI XH))))))))) :: ((((Zpos
    (XO (XO (XO (XI (XI (XI (XO (XI XH))))))))), (Zpos (XO (XO (XO (XI (XI
    (XI (XO (XI XH)))))))))), (Zpos XH)) :: ((((Zpos (XO (XO (XI (XI (XI (XI
    (XO (XI XH))))))))), (Zpos (XO (XO (XI (XI (XI (XI (XO (XI XH)))))))))),
    (Zpos XH)) :: ((((Zpos (XO (XO (XI (XO (XO (XO (XI (XI XH))))))))), (Zpos
    (XO (XO (XI (XO (XO (XO (XI (XI XH)))))))))), (Zpos (XO XH))) :: ((((Zpos
    (XI (XO (XI (XO (XO (XO (XI (XI XH))))))))), (Zpos (XI (XO (XI (XO (XO
    (XO (XI (XI XH)))))))))), (Zpos XH)) :: ((((Zpos (XI (XI (XI (XO (XO (XO
    (XI (XI XH))))))))), (Zpos (XI (XI (XI (XO (XO (XO (XI (XI XH)))))))))),
    (Zpos (XO XH))) :: ((((Zpos (XO (XO (XO (XI (XO (XO (XI (XI XH))))))))),
    (Zpos (XO (XO (XO (XI (XO (XO (XI (XI XH)))))))))), (Zpos
    XH)) :: ((((Zpos (XO (XI (XO (XI (XO (XO (XI (XI XH))))))))), (Zpos (XO
    (XI (XO (XI (XO (XO (XI (XI XH)))))))))), (Zpos (XO XH))) :: ((((Zpos (XI
    (XI (XO (XI (XO (XO (XI (XI XH))))))))), (Zpos (XI (XI (XO (XI (XO (XO
    (XI (XI XH)))))))))), (Zpos XH)) :: ((((Zpos (XI (XO (XI (XI (XO (XO (XI
    (XI XH))))))))), (Zpos (XI (XO (XI (XI (XO (XO (XI (XI XH)))))))))),
    (Zpos XH)) :: ((((Zpos (XI (XI (XI (XI (XO (XO (XI (XI XH))))))))), (Zpos
    (XI (XI (XI (XI (XO (XO (XI (XI XH)))))))))), (Zpos XH)) :: ((((Zpos (XI
    (XO (XO (XO (XI (XO (XI (XI XH))))))))), (Zpos (XI (XO (XO (XO (XI (XO
    (XI (XI XH)))))))))), (Zpos XH)) :: ((((Zpos (XI (XI (XO (XO (XI (XO (XI
    (XI XH))))))))), (Zpos (XI (XI (XO (XO (XI (XO (XI (XI XH)))))))))),
    (Zpos XH)) :: ((((Zpos (XI (XO (XI (XO (XI (XO (XI (XI XH))))))))), (Zpos
    (XI (XO (XI (XO (XI (XO (XI (XI XH)))))))))), (Zpos XH)) :: ((((Zpos (XI
    (XI (XI (XO (XI (XO (XI (XI XH))))))))), (Zpos (XI (XI (XI (XO (XI (XO
    (XI (XI XH)))))))))), (Zpos XH)) :: ((((Zpos (XI (XO (XO (XI (XI (XO (XI
    (XI XH))))))))), (Zpos (XI (XO (XO (XI (XI (XO (XI (XI XH)))))))))),
    (Zpos XH)) :: ((((Zpos (XI (XI (XO (XI (XI (XO (XI (XI XH))))))))), (Zpos
    (XI (XI (XO (XI (XI (XO (XI (XI XH)))))))))), (Zpos XH)) :: ((((Zpos (XO
    (XI (XI (XI (XI (XO (XI (XI XH))))))))), (Zpos (XO (XI (XI (XI (XI (XO
    (XI (XI XH)))))))))), (Zpos XH)) :: ((((Zpos (XO (XO (XO (XO (XO (XI (XI
    (XI XH))))))))), (Zpos (XO (XO (XO (XO (XO (XI (XI (XI XH)))))))))),
    (Zpos XH)) :: ((((Zpos (XO (XI (XO (XO (XO (XI (XI (XI XH))))))))), (Zpos
    (XO (XI (XO (XO (XO (XI (XI (XI XH)))))))))), (Zpos XH)) :: ((((Zpos (XO
    (XO (XI (XO (XO (XI (XI (XI XH))))))))), (Zpos (XO (XO (XI (XO (XO (XI
    (XI (XI XH)))))))))), (Zpos XH)) :: ((((Zpos (XO (XI (XI (XO (XO (XI (XI
    (XI XH))))))))), (Zpos (XO (XI (XI (XO (XO (XI (XI (XI XH)))))))))),
    (Zpos XH)) :: ((((Zpos (XO (XO (XO (XI (XO (XI (XI (XI XH))))))))), (Zpos
    (XO (XO (XO (XI (XO (XI (XI (XI XH)))))))))), (Zpos
    XH)) :: []))))))))))))))))))))))))) :: ((((Zpos (XO (XI (XO (XI (XO (XI
    (XI (XI XH))))))))), (Zpos (XO (XI (XI (XO (XI (XO (XO (XO (XO
    XH))))))))))), ((((Zpos (XO (XI (XO (XI (XO (XI (XI (XI XH))))))))),
    (Zpos (XO (XI (XO (XI (XO (XI (XI (XI XH)))))))))), (Zpos
    XH)) :: ((((Zpos (XO (XO (XI (XI (XO (XI (XI (XI XH))))))))), (Zpos (XO
    (XO (XI (XI (XO (XI (XI (XI XH)))))))))), (Zpos XH)) :: ((((Zpos (XO (XI
    (XI (XI (XO (XI (XI (XI XH))))))))), (Zpos (XO (XI (XI (XI (XO (XI (XI
    (XI XH)))))))))), (Zpos XH)) :: ((((Zpos (XI (XO (XO (XO (XI (XI (XI (XI
    XH))))))))), (Zpos (XI (XO (XO (XO (XI (XI (XI (XI XH)))))))))), (Zpos
    (XO XH))) :: ((((Zpos (XO (XI (XO (XO (XI (XI (XI (XI XH))))))))), (Zpos
    (XO (XI (XO (XO (XI (XI (XI (XI XH)))))))))), (Zpos XH)) :: ((((Zpos (XO
    (XO (XI (XO (XI (XI (XI (XI XH))))))))), (Zpos (XO (XO (XI (XO (XI (XI
    (XI (XI XH)))))))))), (Zpos XH)) :: ((((Zpos (XO (XI (XI (XO (XI (XI (XI
    (XI XH))))))))), (Zpos (XO (XI (XI (XO (XI (XI (XI (XI XH)))))))))),
    (Zneg (XI (XO (XO (XO (XO (XI XH)))))))) :: ((((Zpos (XI (XI (XI (XO (XI
    (XI (XI (XI XH))))))))), (Zpos (XI (XI (XI (XO (XI (XI (XI (XI
    XH)))))))))), (Zneg (XO (XO (XO (XI (XI XH))))))) :: ((((Zpos (XO (XO (XO
    (XI (XI (XI (XI (XI XH))))))))), (Zpos (XO (XO (XO (XI (XI (XI (XI (XI
    XH)))))))))), (Zpos XH)) :: ((((Zpos (XO (XI (XO (XI (XI (XI (XI (XI
    XH))))))))), (Zpos (XO (XI (XO (XI (XI (XI (XI (XI XH)))))))))), (Zpos
    XH)) :: ((((Zpos (XO (XO (XI (XI (XI (XI (XI (XI XH))))))))), (Zpos (XO
    (XO (XI (XI (XI (XI (XI (XI XH)))))))))), (Zpos XH)) :: ((((Zpos (XO (XI
    (XI (XI (XI (XI (XI (XI XH))))))))), (Zpos (XO (XI (XI (XI (XI (XI (XI
    (XI XH)))))))))), (Zpos XH)) :: ((((Zpos (XO (XO (XO (XO (XO (XO (XO (XO
    (XO XH)))))))))), (Zpos (XO (XO (XO (XO (XO (XO (XO (XO (XO
    XH))))))))))), (Zpos XH)) :: ((((Zpos (XO (XI (XO (XO (XO (XO (XO (XO (XO
    XH)))))))))), (Zpos (XO (XI (XO (XO (XO (XO (XO (XO (XO XH))))))))))),
    (Zpos XH)) :: ((((Zpos (XO (XO (XI (XO (XO (XO (XO (XO (XO XH)))))))))),
    (Zpos (XO (XO (XI (XO (XO (XO (XO (XO (XO XH))))))))))), (Zpos
    XH)) :: ((((Zpos (XO (XI (XI (XO (XO (XO (XO (XO (XO XH)))))))))), (Zpos
    (XO (XI (XI (XO (XO (XO (XO (XO (XO XH))))))))))), (Zpos XH)) :: ((((Zpos
    (XO (XO (XO (XI (XO (XO (XO (XO (XO XH)))))))))), (Zpos (XO (XO (XO (XI
    (XO (XO (XO (XO (XO XH))))))))))), (Zpos XH)) :: ((((Zpos (XO (XI (XO (XI
    (XO (XO (XO (XO (XO XH)))))))))), (Zpos (XO (XI (XO (XI (XO (XO (XO (XO
    (XO XH))))))))))), (Zpos XH)) :: ((((Zpos (XO (XO (XI (XI (XO (XO (XO (XO
    (XO XH)))))))))), (Zpos (XO (XO (XI (XI (XO (XO (XO (XO (XO
    XH))))))))))), (Zpos XH)) :: ((((Zpos (XO (XI (XI (XI (XO (XO (XO (XO (XO
    XH)))))))))), (Zpos (XO (XI (XI (XI (XO (XO (XO (XO (XO XH))))))))))),
    (Zpos XH)) :: ((((Zpos (XO (XO (XO (XO (XI (XO (XO (XO (XO XH)))))))))),
    (Zpos (XO (XO (XO (XO (XI (XO (XO (XO (XO XH))))))))))), (Zpos
    XH)) :: ((((Zpos (XO (XI (XO (XO (XI (XO (XO (XO (XO XH)))))))))), (Zpos
    (XO (XI (XO (XO (XI (XO (XO (XO (XO XH))))))))))), (Zpos XH)) :: ((((Zpos
    (XO (XO (XI (XO (XI (XO (XO (XO (XO XH)))))))))), (Zpos (XO (XO (XI (XO
    (XI (XO (XO (XO (XO XH))))))))))), (Zpos XH)) :: ((((Zpos (XO (XI (XI (XO
    (XI (XO (XO (XO (XO XH)))))))))), (Zpos (XO (XI (XI (XO (XI (XO (XO (XO
    (XO XH))))))))))), (Zpos XH)) :: []))))))))))))))))))))))))) :: ((((Zpos
    (XO (XO (XO (XI (XI (XO (XO (XO (XO XH)))))))))), (Zpos (XO (XO (XO (XI
    (XO (XO (XI (XO (XO XH))))))))))), ((((Zpos (XO (XO (XO (XI (XI (XO (XO
    (XO (XO XH)))))))))), (Zpos (XO (XO (XO (XI (XI (XO (XO (XO (XO
    XH))))))))))), (Zpos XH)) :: ((((Zpos (XO (XI (XO (XI (XI (XO (XO (XO (XO
    XH)))))))))), (Zpos (XO (XI (XO (XI (XI (XO (XO (XO (XO XH))))))))))),
    (Zpos XH)) :: ((((Zpos (XO (XO (XI (XI (XI (XO (XO (XO (XO XH)))))))))),
    (Zpos (XO (XO (XI (XI (XI (XO (XO (XO (XO XH))))))))))), (Zpos
    XH)) :: ((((Zpos (XO (XI (XI (XI (XI (XO (XO (XO (XO XH)))))))))), (Zpos
    (XO (XI (XI (XI (XI (XO (XO (XO (XO XH))))))))))), (Zpos XH)) :: ((((Zpos
    (XO (XO (XO (XO (XO (XI (XO (XO (XO XH)))))))))), (Zpos (XO (XO (XO (XO
    (XO (XI (XO (XO (XO XH))))))))))), (Zneg (XO (XI (XO (XO (XO (XO (XO
    XH))))))))) :: ((((Zpos (XO (XI (XO (XO (XO (XI (XO (XO (XO XH)))))))))),
    (Zpos (XO (XI (XO (XO (XO (XI (XO (XO (XO XH))))))))))), (Zpos
    XH)) :: ((((Zpos (XO (XO (XI (XO (XO (XI (XO (XO (XO XH)))))))))), (Zpos
    (XO (XO (XI (XO (XO (XI (XO (XO (XO XH))))))))))), (Zpos XH)) :: ((((Zpos
    (XO (XI (XI (XO (XO (XI (XO (XO (XO XH)))))))))), (Zpos (XO (XI (XI (XO
    (XO (XI (XO (XO (XO XH))))))))))), (Zpos XH)) :: ((((Zpos (XO (XO (XO (XI
    (XO (XI (XO (XO (XO XH)))))))))), (Zpos (XO (XO (XO (XI (XO (XI (XO (XO
    (XO XH))))))))))), (Zpos XH)) :: ((((Zpos (XO (XI (XO (XI (XO (XI (XO (XO
    (XO XH)))))))))), (Zpos (XO (XI (XO (XI (XO (XI (XO (XO (XO
    XH))))))))))), (Zpos XH)) :: ((((Zpos (XO (XO (XI (XI (XO (XI (XO (XO (XO
    XH)))))))))), (Zpos (XO (XO (XI (XI (XO (XI (XO (XO (XO XH))))))))))),
    (Zpos XH)) :: ((((Zpos (XO (XI (XI (XI (XO (XI (XO (XO (XO XH)))))))))),
    (Zpos (XO (XI (XI (XI (XO (XI (XO (XO (XO XH))))))))))), (Zpos
    XH)) :: ((((Zpos (XO (XO (XO (XO (XI (XI (XO (XO (XO XH)))))))))), (Zpos
    (XO (XO (XO (XO (XI (XI (XO (XO (XO XH))))))))))), (Zpos XH)) :: ((((Zpos
    (XO (XI (XO (XO (XI (XI (XO (XO (XO XH)))))))))), (Zpos (XO (XI (XO (XO
    (XI (XI (XO (XO (XO XH))))))))))), (Zpos XH)) :: ((((Zpos (XO (XI (XO (XI
    (XI (XI (XO (XO (XO XH)))))))))), (Zpos (XO (XI (XO (XI (XI (XI (XO (XO
    (XO XH))))))))))), (Zpos (XI (XI (XO (XI (XO (XI (XO (XO (XO (XI (XO (XI
    (XO XH))))))))))))))) :: ((((Zpos (XI (XI (XO (XI (XI (XI (XO (XO (XO
    XH)))))))))), (Zpos (XI (XI (XO (XI (XI (XI (XO (XO (XO XH))))))))))),
    (Zpos XH)) :: ((((Zpos (XI (XO (XI (XI (XI (XI (XO (XO (XO XH)))))))))),
    (Zpos (XI (XO (XI (XI (XI (XI (XO (XO (XO XH))))))))))), (Zneg (XI (XI
    (XO (XO (XO (XI (XO XH))))))))) :: ((((Zpos (XO (XI (XI (XI (XI (XI (XO
    (XO (XO XH)))))))))), (Zpos (XO (XI (XI (XI (XI (XI (XO (XO (XO
    XH))))))))))), (Zpos (XO (XO (XO (XI (XO (XI (XO (XO (XO (XI (XO (XI (XO
    XH))))))))))))))) :: ((((Zpos (XI (XO (XO (XO (XO (XO (XI (XO (XO
    XH)))))))))), (Zpos (XI (XO (XO (XO (XO (XO (XI (XO (XO XH))))))))))),
    (Zpos XH)) :: ((((Zpos (XI (XI (XO (XO (XO (XO (XI (XO (XO XH)))))))))),
    (Zpos (XI (XI (XO (XO (XO (XO (XI (XO (XO XH))))))))))), (Zneg (XI (XI
    (XO (XO (XO (XO (XI XH))))))))) :: ((((Zpos (XO (XO (XI (XO (XO (XO (XI
    (XO (XO XH)))))))))), (Zpos (XO (XO (XI (XO (XO (XO (XI (XO (XO
    XH))))))))))), (Zpos (XI (XO (XI (XO (XO (XO XH)))))))) :: ((((Zpos (XI
    (XO (XI (XO (XO (XO (XI (XO (XO XH)))))))))), (Zpos (XI (XO (XI (XO (XO
    (XO (XI (XO (XO XH))))))))))), (Zpos (XI (XI (XI (XO (XO (XO
    XH)))))))) :: ((((Zpos (XO (XI (XI (XO (XO (XO (XI (XO (XO XH)))))))))),
    (Zpos (XO (XI (XI (XO (XO (XO (XI (XO (XO XH))))))))))), (Zpos
    XH)) :: ((((Zpos (XO (XO (XO (XI (XO (XO (XI (XO (XO XH)))))))))), (Zpos
    (XO (XO (XO (XI (XO (XO (XI (XO (XO XH))))))))))), (Zpos
    XH)) :: []))))))))))))))))))))))))) :: ((((Zpos (XO (XI (XO (XI (XO (XO
    (XI (XO (XO XH)))))))))), (Zpos (XO (XI (XO (XI (XO (XI (XI (XI (XI
    XH))))))))))), ((((Zpos (XO (XI (XO (XI (XO (XO (XI (XO (XO XH)))))))))),
    (Zpos (XO (XI (XO (XI (XO (XO (XI (XO (XO XH))))))))))), (Zpos
    XH)) :: ((((Zpos (XO (XO (XI (XI (XO (XO (XI (XO (XO XH)))))))))), (Zpos
    (XO (XO (XI (XI (XO (XO (XI (XO (XO XH))))))))))), (Zpos XH)) :: ((((Zpos
    (XO (XI (XI (XI (XO (XO (XI (XO (XO XH)))))))))), (Zpos (XO (XI (XI (XI
    (XO (XO (XI (XO (XO XH))))))))))), (Zpos XH)) :: ((((Zpos (XO (XO (XO (XO
    (XI (XI (XI (XO (XI XH)))))))))), (Zpos (XO (XO (XO (XO (XI (XI (XI (XO
    (XI XH))))))))))), (Zpos XH)) :: ((((Zpos (XO (XI (XO (XO (XI (XI (XI (XO
    (XI XH)))))))))), (Zpos (XO (XI (XO (XO (XI (XI (XI (XO (XI
    XH))))))))))), (Zpos XH)) :: ((((Zpos (XO (XI (XI (XO (XI (XI (XI (XO (XI
    XH)))))))))), (Zpos (XO (XI (XI (XO (XI (XI (XI (XO (XI XH))))))))))),
    (Zpos XH)) :: ((((Zpos (XI (XI (XI (XI (XI (XI (XI (XO (XI XH)))))))))),
    (Zpos (XI (XI (XI (XI (XI (XI (XI (XO (XI XH))))))))))), (Zpos (XO (XO
    (XI (XO (XI (XI XH)))))))) :: ((((Zpos (XO (XI (XI (XO (XO (XO (XO (XI
    (XI XH)))))))))), (Zpos (XO (XI (XI (XO (XO (XO (XO (XI (XI
    XH))))))))))), (Zpos (XO (XI (XI (XO (XO XH))))))) :: ((((Zpos (XO (XO
    (XO (XI (XO (XO (XO (XI (XI XH)))))))))), (Zpos (XO (XI (XO (XI (XO (XO
    (XO (XI (XI XH))))))))))), (Zpos (XI (XO (XI (XO (XO
    XH))))))) :: ((((Zpos (XO (XO (XI (XI (XO (XO (XO (XI (XI XH)))))))))),
    (Zpos (XO (XO (XI (XI (XO (XO (XO (XI (XI XH))))))))))), (Zpos (XO (XO
    (XO (XO (XO (XO XH)))))))) :: ((((Zpos (XO (XI (XI (XI (XO (XO (XO (XI
    (XI XH)))))))))), (Zpos (XI (XI (XI (XI (XO (XO (XO (XI (XI
    XH))))))))))), (Zpos (XI (XI (XI (XI (XI XH))))))) :: ((((Zpos (XI (XO
    (XO (XO (XI (XO (XO (XI (XI XH)))))))))), (Zpos (XI (XO (XO (XO (XO (XI
    (XO (XI (XI XH))))))))))), (Zpos (XO (XO (XO (XO (XO
    XH))))))) :: ((((Zpos (XI (XI (XO (XO (XO (XI (XO (XI (XI XH)))))))))),
    (Zpos (XI (XI (XO (XI (XO (XI (XO (XI (XI XH))))))))))), (Zpos (XO (XO
    (XO (XO (XO XH))))))) :: ((((Zpos (XI (XI (XI (XI (XO (XO (XI (XI (XI
    XH)))))))))), (Zpos (XI (XI (XI (XI (XO (XO (XI (XI (XI XH))))))))))),
    (Zpos (XO (XO (XO XH))))) :: ((((Zpos (XO (XO (XO (XI (XI (XO (XI (XI (XI
    XH)))))))))), (Zpos (XO (XO (XO (XI (XI (XO (XI (XI (XI XH))))))))))),
    (Zpos XH)) :: ((((Zpos (XO (XI (XO (XI (XI (XO (XI (XI (XI XH)))))))))),
    (Zpos (XO (XI (XO (XI (XI (XO (XI (XI (XI XH))))))))))), (Zpos
    XH)) :: ((((Zpos (XO (XO (XI (XI (XI (XO (XI (XI (XI XH)))))))))), (Zpos
    (XO (XO (XI (XI (XI (XO (XI (XI (XI XH))))))))))), (Zpos XH)) :: ((((Zpos
    (XO (XI (XI (XI (XI (XO (XI (XI (XI XH)))))))))), (Zpos (XO (XI (XI (XI
    (XI (XO (XI (XI (XI XH))))))))))), (Zpos XH)) :: ((((Zpos (XO (XO (XO (XO
    (XO (XI (XI (XI (XI XH)))))))))), (Zpos (XO (XO (XO (XO (XO (XI (XI (XI
    (XI XH))))))))))), (Zpos XH)) :: ((((Zpos (XO (XI (XO (XO (XO (XI (XI (XI
    (XI XH)))))))))), (Zpos (XO (XI (XO (XO (XO (XI (XI (XI (XI
    XH))))))))))), (Zpos XH)) :: ((((Zpos (XO (XO (XI (XO (XO (XI (XI (XI (XI
    XH)))))))))), (Zpos (XO (XO (XI (XO (XO (XI (XI (XI (XI XH))))))))))),
    (Zpos XH)) :: ((((Zpos (XO (XI (XI (XO (XO (XI (XI (XI (XI XH)))))))))),
    (Zpos (XO (XI (XI (XO (XO (XI (XI (XI (XI XH))))))))))), (Zpos
    XH)) :: ((((Zpos (XO (XO (XO (XI (XO (XI (XI (XI (XI XH)))))))))), (Zpos
    (XO (XO (XO (XI (XO (XI (XI (XI (XI XH))))))))))), (Zpos XH)) :: ((((Zpos
    (XO (XI (XO (XI (XO (XI (XI (XI (XI XH)))))))))), (Zpos (XO (XI (XO (XI
    (XO (XI (XI (XI (XI XH))))))))))), (Zpos
    XH)) :: []))))))))))))))))))))))))) :: ((((Zpos (XO (XO (XI (XI (XO (XI
    (XI (XI (XI XH)))))))))), (Zpos (XO (XO (XI (XI (XI (XI (XI (XO (XO (XO
    XH)))))))))))), ((((Zpos (XO (XO (XI (XI (XO (XI (XI (XI (XI
    XH)))))))))), (Zpos (XO (XO (XI (XI (XO (XI (XI (XI (XI XH))))))))))),
    (Zpos XH)) :: ((((Zpos (XO (XI (XI (XI (XO (XI (XI (XI (XI XH)))))))))),
    (Zpos (XO (XI (XI (XI (XO (XI (XI (XI (XI XH))))))))))), (Zpos
    XH)) :: ((((Zpos (XO (XO (XI (XO (XI (XI (XI (XI (XI XH)))))))))), (Zpos
    (XO (XO (XI (XO (XI (XI (XI (XI (XI XH))))))))))), (Zneg (XO (XO (XI (XI
    (XI XH))))))) :: ((((Zpos (XI (XI (XI (XO (XI (XI (XI (XI (XI
    XH)))))))))), (Zpos (XI (XI (XI (XO (XI (XI (XI (XI (XI XH))))))))))),
    (Zpos XH)) :: ((((Zpos (XI (XO (XO (XI (XI (XI (XI (XI (XI XH)))))))))),
    (Zpos (XI (XO (XO (XI (XI (XI (XI (XI (XI XH))))))))))), (Zneg (XI (XI
    XH)))) :: ((((Zpos (XO (XI (XO (XI (XI (XI (XI (XI (XI XH)))))))))),
    (Zpos (XO (XI (XO (XI (XI (XI (XI (XI (XI XH))))))))))), (Zpos
    XH)) :: ((((Zpos (XI (XO (XI (XI (XI (XI (XI (XI (XI XH)))))))))), (Zpos
    (XI (XI (XI (XI (XI (XI (XI (XI (XI XH))))))))))), (Zneg (XO (XI (XO (XO
    (XO (XO (XO XH))))))))) :: ((((Zpos (XO (XO (XO (XO (XO (XO (XO (XO (XO
    (XO XH))))))))))), (Zpos (XI (XI (XI (XI (XO (XO (XO (XO (XO (XO
    XH)))))))))))), (Zpos (XO (XO (XO (XO (XI (XO XH)))))))) :: ((((Zpos (XO
    (XO (XO (XO (XI (XO (XO (XO (XO (XO XH))))))))))), (Zpos (XI (XI (XI (XI
    (XO (XI (XO (XO (XO (XO XH)))))))))))), (Zpos (XO (XO (XO (XO (XO
    XH))))))) :: ((((Zpos (XO (XO (XO (XO (XO (XI (XI (XO (XO (XO
    XH))))))))))), (Zpos (XO (XO (XO (XO (XO (XI (XI (XO (XO (XO
    XH)))))))))))), (Zpos XH)) :: ((((Zpos (XO (XI (XO (XO (XO (XI (XI (XO
    (XO (XO XH))))))))))), (Zpos (XO (XI (XO (XO (XO (XI (XI (XO (XO (XO
    XH)))))))))))), (Zpos XH)) :: ((((Zpos (XO (XO (XI (XO (XO (XI (XI (XO
    (XO (XO XH))))))))))), (Zpos (XO (XO (XI (XO (XO (XI (XI (XO (XO (XO
    XH)))))))))))), (Zpos XH)) :: ((((Zpos (XO (XI (XI (XO (XO (XI (XI (XO
    (XO (XO XH))))))))))), (Zpos (XO (XI (XI (XO (XO (XI (XI (XO (XO (XO
    XH)))))))))))), (Zpos XH)) :: ((((Zpos (XO (XO (XO (XI (XO (XI (XI (XO
    (XO (XO XH))))))))))), (Zpos (XO (XO (XO (XI (XO (XI (XI (XO (XO (XO
    XH)))))))))))), (Zpos XH)) :: ((((Zpos (XO (XI (XO (XI (XO (XI (XI (XO
    (XO (XO XH))))))))))), (Zpos (XO (XI (XO (XI (XO (XI (XI (XO (XO (XO
    XH)))))))))))), (Zpos XH)) :: ((((Zpos (XO (XO (XI (XI (XO (XI (XI (XO
    (XO (XO XH))))))))))), (Zpos (XO (XO (XI (XI (XO (XI (XI (XO (XO (XO
    XH)))))))))))), (Zpos XH)) :: ((((Zpos (XO (XI (XI (XI (XO (XI (XI (XO
    (XO (XO XH))))))))))), (Zpos (XO (XI (XI (XI (XO (XI (XI (XO (XO (XO
    XH)))))))))))), (Zpos XH)) :: ((((Zpos (XO (XO (XO (XO (XI (XI (XI (XO
    (XO (XO XH))))))))))), (Zpos (XO (XO (XO (XO (XI (XI (XI (XO (XO (XO
    XH)))))))))))), (Zpos XH)) :: ((((Zpos (XO (XI (XO (XO (XI (XI (XI (XO
    (XO (XO XH))))))))))), (Zpos (XO (XI (XO (XO (XI (XI (XI (XO (XO (XO
    XH)))))))))))), (Zpos XH)) :: ((((Zpos (XO (XO (XI (XO (XI (XI (XI (XO
    (XO (XO XH))))))))))), (Zpos (XO (XO (XI (XO (XI (XI (XI (XO (XO (XO
    XH)))))))))))), (Zpos XH)) :: ((((Zpos (XO (XI (XI (XO (XI (XI (XI (XO
    (XO (XO XH))))))))))), (Zpos (XO (XI (XI (XO (XI (XI (XI (XO (XO (XO
    XH)))))))))))), (Zpos XH)) :: ((((Zpos (XO (XO (XO (XI (XI (XI (XI (XO
    (XO (XO XH))))))))))), (Zpos (XO (XO (XO (XI (XI (XI (XI (XO (XO (XO
    XH)))))))))))), (Zpos XH)) :: ((((Zpos (XO (XI (XO (XI (XI (XI (XI (XO
    (XO (XO XH))))))))))), (Zpos (XO (XI (XO (XI (XI (XI (XI (XO (XO (XO
    XH)))))))))))), (Zpos XH)) :: ((((Zpos (XO (XO (XI (XI (XI (XI (XI (XO
    (XO (XO XH))))))))))), (Zpos (XO (XO (XI (XI (XI (XI (XI (XO (XO (XO
    XH)))))))))))), (Zpos XH)) :: []))))))))))))))))))))))))) :: ((((Zpos (XO
    (XI (XI (XI (XI (XI (XI (XO (XO (XO XH))))))))))), (Zpos (XO (XO (XI (XO
    (XI (XI (XO (XI (XO (XO XH)))))))))))), ((((Zpos (XO (XI (XI (XI (XI (XI
    (XI (XO (XO (XO XH))))))))))), (Zpos (XO (XI (XI (XI (XI (XI (XI (XO (XO
    (XO XH)))))))))))), (Zpos XH)) :: ((((Zpos (XO (XO (XO (XO (XO (XO (XO
    (XI (XO (XO XH))))))))))), (Zpos (XO (XO (XO (XO (XO (XO (XO (XI (XO (XO
    XH)))))))))))), (Zpos XH)) :: ((((Zpos (XO (XI (XO (XI (XO (XO (XO (XI
    (XO (XO XH))))))))))), (Zpos (XO (XI (XO (XI (XO (XO (XO (XI (XO (XO
    XH)))))))))))), (Zpos XH)) :: ((((Zpos (XO (XO (XI (XI (XO (XO (XO (XI
    (XO (XO XH))))))))))), (Zpos (XO (XO (XI (XI (XO (XO (XO (XI (XO (XO
    XH)))))))))))), (Zpos XH)) :: ((((Zpos (XO (XI (XI (XI (XO (XO (XO (XI
    (XO (XO XH))))))))))), (Zpos (XO (XI (XI (XI (XO (XO (XO (XI (XO (XO
    XH)))))))))))), (Zpos XH)) :: ((((Zpos (XO (XO (XO (XO (XI (XO (XO (XI
    (XO (XO XH))))))))))), (Zpos (XO (XO (XO (XO (XI (XO (XO (XI (XO (XO
    XH)))))))))))), (Zpos XH)) :: ((((Zpos (XO (XI (XO (XO (XI (XO (XO (XI
    (XO (XO XH))))))))))), (Zpos (XO (XI (XO (XO (XI (XO (XO (XI (XO (XO
    XH)))))))))))), (Zpos XH)) :: ((((Zpos (XO (XO (XI (XO (XI (XO (XO (XI
    (XO (XO XH))))))))))), (Zpos (XO (XO (XI (XO (XI (XO (XO (XI (XO (XO
    XH)))))))))))), (Zpos XH)) :: ((((Zpos (XO (XI (XI (XO (XI (XO (XO (XI
    (XO (XO XH))))))))))), (Zpos (XO (XI (XI (XO (XI (XO (XO (XI (XO (XO
    XH)))))))))))), (Zpos XH)) :: ((((Zpos (XO (XO (XO (XI (XI (XO (XO (XI
    (XO (XO XH))))))))))), (Zpos (XO (XO (XO (XI (XI (XO (XO (XI (XO (XO
    XH)))))))))))), (Zpos XH)) :: ((((Zpos (XO (XI (XO (XI (XI (XO (XO (XI
    (XO (XO XH))))))))))), (Zpos (XO (XI (XO (XI (XI (XO (XO (XI (XO (XO
    XH)))))))))))), (Zpos XH)) :: ((((Zpos (XO (XO (XI (XI (XI (XO (XO (XI
    (XO (XO XH))))))))))), (Zpos (XO (XO (XI (XI (XI (XO (XO (XI (XO (XO
    XH)))))))))))), (Zpos XH)) :: ((((Zpos (XO (XI (XI (XI (XI (XO (XO (XI
    (XO (XO XH))))))))))), (Zpos (XO (XI (XI (XI (XI (XO (XO (XI (XO (XO
    XH)))))))))))), (Zpos XH)) :: ((((Zpos (XO (XO (XO (XO (XO (XI (XO (XI
    (XO (XO XH))))))))))), (Zpos (XO (XO (XO (XO (XO (XI (XO (XI (XO (XO
    XH)))))))))))), (Zpos XH)) :: ((((Zpos (XO (XI (XO (XO (XO (XI (XO (XI
    (XO (XO XH))))))))))), (Zpos (XO (XI (XO (XO (XO (XI (XO (XI (XO (XO
    XH)))))))))))), (Zpos XH)) :: ((((Zpos (XO (XO (XI (XO (XO (XI (XO (XI
    (XO (XO XH))))))))))), (Zpos (XO (XO (XI (XO (XO (XI (XO (XI (XO (XO
    XH)))))))))))), (Zpos XH)) :: ((((Zpos (XO (XI (XI (XO (XO (XI (XO (XI
    (XO (XO XH))))))))))), (Zpos (XO (XI (XI (XO (XO (XI (XO (XI (XO (XO
    XH)))))))))))), (Zpos XH)) :: ((((Zpos (XO (XO (XO (XI (XO (XI (XO (XI
    (XO (XO XH))))))))))), (Zpos (XO (XO (XO (XI (XO (XI (XO (XI (XO (XO
    XH)))))))))))), (Zpos XH)) :: ((((Zpos (XO (XI (XO (XI (XO (XI (XO (XI
    (XO (XO XH))))))))))), (Zpos (XO (XI (XO (XI (XO (XI (XO (XI (XO (XO
    XH)))))))))))), (Zpos XH)) :: ((((Zpos (XO (XO (XI (XI (XO (XI (XO (XI
    (XO (XO XH))))))))))), (Zpos (XO (XO (XI (XI (XO (XI (XO (XI (XO (XO
    XH)))))))))))), (Zpos XH)) :: ((((Zpos (XO (XI (XI (XI (XO (XI (XO (XI
    (XO (XO XH))))))))))), (Zpos (XO (XI (XI (XI (XO (XI (XO (XI (XO (XO
    XH)))))))))))), (Zpos XH)) :: ((((Zpos (XO (XO (XO (XO (XI (XI (XO (XI
    (XO (XO XH))))))))))), (Zpos (XO (XO (XO (XO (XI (XI (XO (XI (XO (XO
    XH)))))))))))), (Zpos XH)) :: ((((Zpos (XO (XI (XO (XO (XI (XI (XO (XI
    (XO (XO XH))))))))))), (Zpos (XO (XI (XO (XO (XI (XI (XO (XI (XO (XO
    XH)))))))))))), (Zpos XH)) :: ((((Zpos (XO (XO (XI (XO (XI (XI (XO (XI
    (XO (XO XH))))))))))), (Zpos (XO (XO (XI (XO (XI (XI (XO (XI (XO (XO
    XH)))))))))))), (Zpos XH)) :: []))))))))))))))))))))))))) :: ((((Zpos (XO
    (XI (XI (XO (XI (XI (XO (XI (XO (XO XH))))))))))), (Zpos (XO (XO (XI (XO
    (XO (XI (XI (XI (XO (XO XH)))))))))))), ((((Zpos (XO (XI (XI (XO (XI (XI
    (XO (XI (XO (XO XH))))))))))), (Zpos (XO (XI (XI (XO (XI (XI (XO (XI (XO
    (XO XH)))))))))))), (Zpos XH)) :: ((((Zpos (XO (XO (XO (XI (XI (XI (XO
    (XI (XO (XO XH))))))))))), (Zpos (XO (XO (XO (XI (XI (XI (XO (XI (XO (XO
    XH)))))))))))), (Zpos XH)) :: ((((Zpos (XO (XI (XO (XI (XI (XI (XO (XI
    (XO (XO XH))))))))))), (Zpos (XO (XI (XO (XI (XI (XI (XO (XI (XO (XO
    XH)))))))))))), (Zpos XH)) :: ((((Zpos (XO (XO (XI (XI (XI (XI (XO (XI
    (XO (XO XH))))))))))), (Zpos (XO (XO (XI (XI (XI (XI (XO (XI (XO (XO
    XH)))))))))))), (Zpos XH)) :: ((((Zpos (XO (XI (XI (XI (XI (XI (XO (XI
    (XO (XO XH))))))))))), (Zpos (XO (XI (XI (XI (XI (XI (XO (XI (XO (XO
    XH)))))))))))), (Zpos XH)) :: ((((Zpos (XO (XO (XO (XO (XO (XO (XI (XI
    (XO (XO XH))))))))))), (Zpos (XO (XO (XO (XO (XO (XO (XI (XI (XO (XO
    XH)))))))))))), (Zpos (XI (XI (XI XH))))) :: ((((Zpos (XI (XO (XO (XO (XO
    (XO (XI (XI (XO (XO XH))))))))))), (Zpos (XI (XO (XO (XO (XO (XO (XI (XI
    (XO (XO XH)))))))))))), (Zpos XH)) :: ((((Zpos (XI (XI (XO (XO (XO (XO
    (XI (XI (XO (XO XH))))))))))), (Zpos (XI (XI (XO (XO (XO (XO (XI (XI (XO
    (XO XH)))))))))))), (Zpos XH)) :: ((((Zpos (XI (XO (XI (XO (XO (XO (XI
    (XI (XO (XO XH))))))))))), (Zpos (XI (XO (XI (XO (XO (XO (XI (XI (XO (XO
    XH)))))))))))), (Zpos XH)) :: ((((Zpos (XI (XI (XI (XO (XO (XO (XI (XI
    (XO (XO XH))))))))))), (Zpos (XI (XI (XI (XO (XO (XO (XI (XI (XO (XO
    XH)))))))))))), (Zpos XH)) :: ((((Zpos (XI (XO (XO (XI (XO (XO (XI (XI
    (XO (XO XH))))))))))), (Zpos (XI (XO (XO (XI (XO (XO (XI (XI (XO (XO
    XH)))))))))))), (Zpos XH)) :: ((((Zpos (XI (XI (XO (XI (XO (XO (XI (XI
    (XO (XO XH))))))))))), (Zpos (XI (XI (XO (XI (XO (XO (XI (XI (XO (XO
    XH)))))))))))), (Zpos XH)) :: ((((Zpos (XI (XO (XI (XI (XO (XO (XI (XI
    (XO (XO XH))))))))))), (Zpos (XI (XO (XI (XI (XO (XO (XI (XI (XO (XO
    XH)))))))))))), (Zpos XH)) :: ((((Zpos (XO (XO (XO (XO (XI (XO (XI (XI
    (XO (XO XH))))))))))), (Zpos (XO (XO (XO (XO (XI (XO (XI (XI (XO (XO
    XH)))))))))))), (Zpos XH)) :: ((((Zpos (XO (XI (XO (XO (XI (XO (XI (XI
    (XO (XO XH))))))))))), (Zpos (XO (XI (XO (XO (XI (XO (XI (XI (XO (XO
    XH)))))))))))), (Zpos XH)) :: ((((Zpos (XO (XO (XI (XO (XI (XO (XI (XI
    (XO (XO XH))))))))))), (Zpos (XO (XO (XI (XO (XI (XO (XI (XI (XO (XO
    XH)))))))))))), (Zpos XH)) :: ((((Zpos (XO (XI (XI (XO (XI (XO (XI (XI
    (XO (XO XH))))))))))), (Zpos (XO (XI (XI (XO (XI (XO (XI (XI (XO (XO
    XH)))))))))))), (Zpos XH)) :: ((((Zpos (XO (XO (XO (XI (XI (XO (XI (XI
    (XO (XO XH))))))))))), (Zpos (XO (XO (XO (XI (XI (XO (XI (XI (XO (XO
    XH)))))))))))), (Zpos XH)) :: ((((Zpos (XO (XI (XO (XI (XI (XO (XI (XI
    (XO (XO XH))))))))))), (Zpos (XO (XI (XO (XI (XI (XO (XI (XI (XO (XO
    XH)))))))))))), (Zpos XH)) :: ((((Zpos (XO (XO (XI (XI (XI (XO (XI (XI
    (XO (XO XH))))))))))), (Zpos (XO (XO (XI (XI (XI (XO (XI (XI (XO (XO
    XH)))))))))))), (Zpos XH)) :: ((((Zpos (XO (XI (XI (XI (XI (XO (XI (XI
    (XO (XO XH))))))))))), (Zpos (XO (XI (XI (XI (XI (XO (XI (XI (XO (XO
    XH)))))))))))), (Zpos XH)) :: ((((Zpos (XO (XO (XO (XO (XO (XI (XI (XI
    (XO (XO XH))))))))))), (Zpos (XO (XO (XO (XO (XO (XI (XI (XI (XO (XO
    XH)))))))))))), (Zpos XH)) :: ((((Zpos (XO (XI (XO (XO (XO (XI (XI (XI
    (XO (XO XH))))))))))), (Zpos (XO (XI (XO (XO (XO (XI (XI (XI (XO (XO
    XH)))))))))))), (Zpos XH)) :: ((((Zpos (XO (XO (XI (XO (XO (XI (XI (XI
    (XO (XO XH))))))))))), (Zpos (XO (XO (XI (XO (XO (XI (XI (XI (XO (XO
    XH)))))))))))), (Zpos XH)) :: []))))))))))))))))))))))))) :: ((((Zpos (XO
    (XI (XI (XO (XO (XI (XI (XI (XO (XO XH))))))))))), (Zpos (XO (XO (XI (XO
    (XI (XO (XO (XO (XI (XO XH)))))))))))), ((((Zpos (XO (XI (XI (XO (XO (XI
    (XI (XI (XO (XO XH))))))))))), (Zpos (XO (XI (XI (XO (XO (XI (XI (XI (XO
    (XO XH)))))))))))), (Zpos XH)) :: ((((Zpos (XO (XO (XO (XI (XO (XI (XI
    (XI (XO (XO XH))))))))))), (Zpos (XO (XO (XO (XI (XO (XI (XI (XI (XO (XO
    XH)))))))))))), (Zpos XH)) :: ((((Zpos (XO (XI (XO (XI (XO (XI (XI (XI
    (XO (XO XH))))))))))), (Zpos (XO (XI (XO (XI (XO (XI (XI (XI (XO (XO
    XH)))))))))))), (Zpos XH)) :: ((((Zpos (XO (XO (XI (XI (XO (XI (XI (XI
    (XO (XO XH))))))))))), (Zpos (XO (XO (XI (XI (XO (XI (XI (XI (XO (XO
    XH)))))))))))), (Zpos XH)) :: ((((Zpos (XO (XI (XI (XI (XO (XI (XI (XI
    (XO (XO XH))))))))))), (Zpos (XO (XI (XI (XI (XO (XI (XI (XI (XO (XO
    XH)))))))))))), (Zpos XH)) :: ((((Zpos (XO (XO (XO (XO (XI (XI (XI (XI
    (XO (XO XH))))))))))), (Zpos (XO (XO (XO (XO (XI (XI (XI (XI (XO (XO
    XH)))))))))))), (Zpos XH)) :: ((((Zpos (XO (XI (XO (XO (XI (XI (XI (XI
    (XO (XO XH))))))))))), (Zpos (XO (XI (XO (XO (XI (XI (XI (XI (XO (XO
    XH)))))))))))), (Zpos XH)) :: ((((Zpos (XO (XO (XI (XO (XI (XI (XI (XI
    (XO (XO XH))))))))))), (Zpos (XO (XO (XI (XO (XI (XI (XI (XI (XO (XO
    XH)))))))))))), (Zpos XH)) :: ((((Zpos (XO (XI (XI (XO (XI (XI (XI (XI
    (XO (XO XH))))))))))), (Zpos (XO (XI (XI (XO (XI (XI (XI (XI (XO (XO
    XH)))))))))))), (Zpos XH)) :: ((((Zpos (XO (XO (XO (XI (XI (XI (XI (XI
    (XO (XO XH))))))))))), (Zpos (XO (XO (XO (XI (XI (XI (XI (XI (XO (XO
    XH)))))))))))), (Zpos XH)) :: ((((Zpos (XO (XI (XO (XI (XI (XI (XI (XI
    (XO (XO XH))))))))))), (Zpos (XO (XI (XO (XI (XI (XI (XI (XI (XO (XO
    XH)))))))))))), (Zpos XH)) :: ((((Zpos (XO (XO (XI (XI (XI (XI (XI (XI
    (XO (XO XH))))))))))), (Zpos (XO (XO (XI (XI (XI (XI (XI (XI (XO (XO
    XH)))))))))))), (Zpos XH)) :: ((((Zpos (XO (XI (XI (XI (XI (XI (XI (XI
    (XO (XO XH))))))))))), (Zpos (XO (XI (XI (XI (XI (XI (XI (XI (XO (XO
    XH)))))))))))), (Zpos XH)) :: ((((Zpos (XO (XO (XO (XO (XO (XO (XO (XO
    (XI (XO XH))))))))))), (Zpos (XO (XO (XO (XO (XO (XO (XO (XO (XI (XO
    XH)))))))))))), (Zpos XH)) :: ((((Zpos (XO (XI (XO (XO (XO (XO (XO (XO
    (XI (XO XH))))))))))), (Zpos (XO (XI (XO (XO (XO (XO (XO (XO (XI (XO
    XH)))))))))))), (Zpos XH)) :: ((((Zpos (XO (XO (XI (XO (XO (XO (XO (XO
    (XI (XO XH))))))))))), (Zpos (XO (XO (XI (XO (XO (XO (XO (XO (XI (XO
    XH)))))))))))), (Zpos XH)) :: ((((Zpos (XO (XI (XI (XO (XO (XO (XO (XO
    (XI (XO XH))))))))))), (Zpos (XO (XI (XI (XO (XO (XO (XO (XO (XI (XO
    XH)))))))))))), (Zpos XH)) :: ((((Zpos (XO (XO (XO (XI (XO (XO (XO (XO
    (XI (XO XH))))))))))), (Zpos (XO (XO (XO (XI (XO (XO (XO (XO (XI (XO
    XH)))))))))))), (Zpos XH)) :: ((((Zpos (XO (XI (XO (XI (XO (XO (XO (XO
    (XI (XO XH))))))))))), (Zpos (XO (XI (XO (XI (XO (XO (XO (XO (XI (XO
    XH)))))))))))), (Zpos XH)) :: ((((Zpos (XO (XO (XI (XI (XO (XO (XO (XO
    (XI (XO XH))))))))))), (Zpos (XO (XO (XI (XI (XO (XO (XO (XO (XI (XO
    XH)))))))))))), (Zpos XH)) :: ((((Zpos (XO (XI (XI (XI (XO (XO (XO (XO
    (XI (XO XH))))))))))), (Zpos (XO (XI (XI (XI (XO (XO (XO (XO (XI (XO
    XH)))))))))))), (Zpos XH)) :: ((((Zpos (XO (XO (XO (XO (XI (XO (XO (XO
    (XI (XO XH))))))))))), (Zpos (XO (XO (XO (XO (XI (XO (XO (XO (XI (XO
    XH)))))))))))), (Zpos XH)) :: ((((Zpos (XO (XI (XO (XO (XI (XO (XO (XO
    (XI (XO XH))))))))))), (Zpos (XO (XI (XO (XO (XI (XO (XO (XO (XI (XO
    XH)))))))))))), (Zpos XH)) :: ((((Zpos (XO (XO (XI (XO (XI (XO (XO (XO
    (XI (XO XH))))))))))), (Zpos (XO (XO (XI (XO (XI (XO (XO (XO (XI (XO
    XH)))))))))))), (Zpos XH)) :: []))))))))))))))))))))))))) :: ((((Zpos (XO
    (XI (XI (XO (XI (XO (XO (XO (XI (XO XH))))))))))), (Zpos (XO (XO (XI (XO
    (XO (XO (XO (XO (XO (XI (XI (XI XH)))))))))))))), ((((Zpos (XO (XI (XI
    (XO (XI (XO (XO (XO (XI (XO XH))))))))))), (Zpos (XO (XI (XI (XO (XI (XO
    (XO (XO (XI (XO XH)))))))))))), (Zpos XH)) :: ((((Zpos (XO (XO (XO (XI
    (XI (XO (XO (XO (XI (XO XH))))))))))), (Zpos (XO (XO (XO (XI (XI (XO (XO
    (XO (XI (XO XH)))))))))))), (Zpos XH)) :: ((((Zpos (XO (XI (XO (XI (XI
    (XO (XO (XO (XI (XO XH))))))))))), (Zpos (XO (XI (XO (XI (XI (XO (XO (XO
    (XI (XO XH)))))))))))), (Zpos XH)) :: ((((Zpos (XO (XO (XI (XI (XI (XO
    (XO (XO (XI (XO XH))))))))))), (Zpos (XO (XO (XI (XI (XI (XO (XO (XO (XI
    (XO XH)))))))))))), (Zpos XH)) :: ((((Zpos (XO (XI (XI (XI (XI (XO (XO
    (XO (XI (XO XH))))))))))), (Zpos (XO (XI (XI (XI (XI (XO (XO (XO (XI (XO
    XH)))))))))))), (Zpos XH)) :: ((((Zpos (XO (XO (XO (XO (XO (XI (XO (XO
    (XI (XO XH))))))))))), (Zpos (XO (XO (XO (XO (XO (XI (XO (XO (XI (XO
    XH)))))))))))), (Zpos XH)) :: ((((Zpos (XO (XI (XO (XO (XO (XI (XO (XO
    (XI (XO XH))))))))))), (Zpos (XO (XI (XO (XO (XO (XI (XO (XO (XI (XO
    XH)))))))))))), (Zpos XH)) :: ((((Zpos (XO (XO (XI (XO (XO (XI (XO (XO
    (XI (XO XH))))))))))), (Zpos (XO (XO (XI (XO (XO (XI (XO (XO (XI (XO
    XH)))))))))))), (Zpos XH)) :: ((((Zpos (XO (XI (XI (XO (XO (XI (XO (XO
    (XI (XO XH))))))))))), (Zpos (XO (XI (XI (XO (XO (XI (XO (XO (XI (XO
    XH)))))))))))), (Zpos XH)) :: ((((Zpos (XO (XO (XO (XI (XO (XI (XO (XO
    (XI (XO XH))))))))))), (Zpos (XO (XO (XO (XI (XO (XI (XO (XO (XI (XO
    XH)))))))))))), (Zpos XH)) :: ((((Zpos (XO (XI (XO (XI (XO (XI (XO (XO
    (XI (XO XH))))))))))), (Zpos (XO (XI (XO (XI (XO (XI (XO (XO (XI (XO
    XH)))))))))))), (Zpos XH)) :: ((((Zpos (XO (XO (XI (XI (XO (XI (XO (XO
    (XI (XO XH))))))))))), (Zpos (XO (XO (XI (XI (XO (XI (XO (XO (XI (XO
    XH)))))))))))), (Zpos XH)) :: ((((Zpos (XO (XI (XI (XI (XO (XI (XO (XO
    (XI (XO XH))))))))))), (Zpos (XO (XI (XI (XI (XO (XI (XO (XO (XI (XO
    XH)))))))))))), (Zpos XH)) :: ((((Zpos (XI (XO (XO (XO (XI (XI (XO (XO
    (XI (XO XH))))))))))), (Zpos (XO (XI (XI (XO (XI (XO (XI (XO (XI (XO
    XH)))))))))))), (Zpos (XO (XO (XO (XO (XI XH))))))) :: ((((Zpos (XO (XO
    (XO (XO (XO (XI (XO (XI (XO (XO (XO (XO XH))))))))))))), (Zpos (XI (XO
    (XI (XO (XO (XO (XI (XI (XO (XO (XO (XO XH)))))))))))))), (Zpos (XO (XO
    (XO (XO (XO (XI (XI (XO (XO (XO (XI (XI XH)))))))))))))) :: ((((Zpos (XI
    (XI (XI (XO (XO (XO (XI (XI (XO (XO (XO (XO XH))))))))))))), (Zpos (XI
    (XI (XI (XO (XO (XO (XI (XI (XO (XO (XO (XO XH)))))))))))))), (Zpos (XO
    (XO (XO (XO (XO (XI (XI (XO (XO (XO (XI (XI XH)))))))))))))) :: ((((Zpos
    (XI (XO (XI (XI (XO (XO (XI (XI (XO (XO (XO (XO XH))))))))))))), (Zpos
    (XI (XO (XI (XI (XO (XO (XI (XI (XO (XO (XO (XO XH)))))))))))))), (Zpos
    (XO (XO (XO (XO (XO (XI (XI (XO (XO (XO (XI (XI
    XH)))))))))))))) :: ((((Zpos (XO (XO (XO (XO (XO (XI (XO (XI (XI (XI (XO
    (XO XH))))))))))))), (Zpos (XI (XI (XI (XI (XO (XI (XI (XI (XI (XI (XO
    (XO XH)))))))))))))), (Zpos (XO (XO (XO (XO (XI (XO (XI (XI (XI (XI (XI
    (XO (XI (XO (XO XH))))))))))))))))) :: ((((Zpos (XO (XO (XO (XO (XI (XI
    (XI (XI (XI (XI (XO (XO XH))))))))))))), (Zpos (XI (XO (XI (XO (XI (XI
    (XI (XI (XI (XI (XO (XO XH)))))))))))))), (Zpos (XO (XO (XO
    XH))))) :: ((((Zpos (XO (XO (XO (XO (XI (XO (XO (XI (XO (XO (XI (XI
    XH))))))))))))), (Zpos (XO (XI (XO (XI (XI (XI (XO (XI (XO (XO (XI (XI
    XH)))))))))))))), (Zneg (XO (XO (XO (XO (XO (XO (XI (XI (XI (XI (XO
    XH))))))))))))) :: ((((Zpos (XI (XO (XI (XI (XI (XI (XO (XI (XO (XO (XI
    (XI XH))))))))))))), (Zpos (XI (XI (XI (XI (XI (XI (XO (XI (XO (XO (XI
    (XI XH)))))))))))))), (Zneg (XO (XO (XO (XO (XO (XO (XI (XI (XI (XI (XO
    XH))))))))))))) :: ((((Zpos (XO (XO (XO (XO (XO (XO (XO (XO (XO (XI (XI
    (XI XH))))))))))))), (Zpos (XO (XO (XO (XO (XO (XO (XO (XO (XO (XI (XI
    (XI XH)))))))))))))), (Zpos XH)) :: ((((Zpos (XO (XI (XO (XO (XO (XO (XO
    (XO (XO (XI (XI (XI XH))))))))))))), (Zpos (XO (XI (XO (XO (XO (XO (XO
    (XO (XO (XI (XI (XI XH)))))))))))))), (Zpos XH)) :: ((((Zpos (XO (XO (XI
    (XO (XO (XO (XO (XO (XO (XI (XI (XI XH))))))))))))), (Zpos (XO (XO (XI
    (XO (XO (XO (XO (XO (XO (XI (XI (XI XH)))))))))))))), (Zpos
    XH)) :: []))))))))))))))))))))))))) :: ((((Zpos (XO (XI (XI (XO (XO (XO
    (XO (XO (XO (XI (XI (XI XH))))))))))))), (Zpos (XO (XO (XI (XO (XI (XI
    (XO (XO (XO (XI (XI (XI XH)))))))))))))), ((((Zpos (XO (XI (XI (XO (XO
    (XO (XO (XO (XO (XI (XI (XI XH))))))))))))), (Zpos (XO (XI (XI (XO (XO
    (XO (XO (XO (XO (XI (XI (XI XH)))))))))))))), (Zpos XH)) :: ((((Zpos (XO
    (XO (XO (XI (XO (XO (XO (XO (XO (XI (XI (XI XH))))))))))))), (Zpos (XO
    (XO (XO (XI (XO (XO (XO (XO (XO (XI (XI (XI XH)))))))))))))), (Zpos
    XH)) :: ((((Zpos (XO (XI (XO (XI (XO (XO (XO (XO (XO (XI (XI (XI
    XH))))))))))))), (Zpos (XO (XI (XO (XI (XO (XO (XO (XO (XO (XI (XI (XI
    XH)))))))))))))), (Zpos XH)) :: ((((Zpos (XO (XO (XI (XI (XO (XO (XO (XO
    (XO (XI (XI (XI XH))))))))))))), (Zpos (XO (XO (XI (XI (XO (XO (XO (XO
    (XO (XI (XI (XI XH)))))))))))))), (Zpos XH)) :: ((((Zpos (XO (XI (XI (XI
    (XO (XO (XO (XO (XO (XI (XI (XI XH))))))))))))), (Zpos (XO (XI (XI (XI
    (XO (XO (XO (XO (XO (XI (XI (XI XH)))))))))))))), (Zpos XH)) :: ((((Zpos
    (XO (XO (XO (XO (XI (XO (XO (XO (XO (XI (XI (XI XH))))))))))))), (Zpos
    (XO (XO (XO (XO (XI (XO (XO (XO (XO (XI (XI (XI XH)))))))))))))), (Zpos
    XH)) :: ((((Zpos (XO (XI (XO (XO (XI (XO (XO (XO (XO (XI (XI (XI
    XH))))))))))))), (Zpos (XO (XI (XO (XO (XI (XO (XO (XO (XO (XI (XI (XI
    XH)))))))))))))), (Zpos XH)) :: ((((Zpos (XO (XO (XI (XO (XI (XO (XO (XO
    (XO (XI (XI (XI XH))))))))))))), (Zpos (XO (XO (XI (XO (XI (XO (XO (XO
    (XO (XI (XI (XI XH)))))))))))))), (Zpos XH)) :: ((((Zpos (XO (XI (XI (XO
    (XI (XO (XO (XO (XO (XI (XI (XI XH))))))))))))), (Zpos (XO (XI (XI (XO
    (XI (XO (XO (XO (XO (XI (XI (XI XH)))))))))))))), (Zpos XH)) :: ((((Zpos
    (XO (XO (XO (XI (XI (XO (XO (XO (XO (XI (XI (XI XH))))))))))))), (Zpos
    (XO (XO (XO (XI (XI (XO (XO (XO (XO (XI (XI (XI XH)))))))))))))), (Zpos
    XH)) :: ((((Zpos (XO (XI (XO (XI (XI (XO (XO (XO (XO (XI (XI (XI
    XH))))))))))))), (Zpos (XO (XI (XO (XI (XI (XO (XO (XO (XO (XI (XI (XI
    XH)))))))))))))), (Zpos XH)) :: ((((Zpos (XO (XO (XI (XI (XI (XO (XO (XO
    (XO (XI (XI (XI XH))))))))))))), (Zpos (XO (XO (XI (XI (XI (XO (XO (XO
    (XO (XI (XI (XI XH)))))))))))))), (Zpos XH)) :: ((((Zpos (XO (XI (XI (XI
    (XI (XO (XO (XO (XO (XI (XI (XI XH))))))))))))), (Zpos (XO (XI (XI (XI
    (XI (XO (XO (XO (XO (XI (XI (XI XH)))))))))))))), (Zpos XH)) :: ((((Zpos
    (XO (XO (XO (XO (XO (XI (XO (XO (XO (XI (XI (XI XH))))))))))))), (Zpos
    (XO (XO (XO (XO (XO (XI (XO (XO (XO (XI (XI (XI XH)))))))))))))), (Zpos
    XH)) :: ((((Zpos (XO (XI (XO (XO (XO (XI (XO (XO (XO (XI (XI (XI
    XH))))))))))))), (Zpos (XO (XI (XO (XO (XO (XI (XO (XO (XO (XI (XI (XI
    XH)))))))))))))), (Zpos XH)) :: ((((Zpos (XO (XO (XI (XO (XO (XI (XO (XO
    (XO (XI (XI (XI XH))))))))))))), (Zpos (XO (XO (XI (XO (XO (XI (XO (XO
    (XO (XI (XI (XI XH)))))))))))))), (Zpos XH)) :: ((((Zpos (XO (XI (XI (XO
    (XO (XI (XO (XO (XO (XI (XI (XI XH))))))))))))), (Zpos (XO (XI (XI (XO
    (XO (XI (XO (XO (XO (XI (XI (XI XH)))))))))))))), (Zpos XH)) :: ((((Zpos
    (XO (XO (XO (XI (XO (XI (XO (XO (XO (XI (XI (XI XH))))))))))))), (Zpos
    (XO (XO (XO (XI (XO (XI (XO (XO (XO (XI (XI (XI XH)))))))))))))), (Zpos
    XH)) :: ((((Zpos (XO (XI (XO (XI (XO (XI (XO (XO (XO (XI (XI (XI
    XH))))))))))))), (Zpos (XO (XI (XO (XI (XO (XI (XO (XO (XO (XI (XI (XI
    XH)))))))))))))), (Zpos XH)) :: ((((Zpos (XO (XO (XI (XI (XO (XI (XO (XO
    (XO (XI (XI (XI XH))))))))))))), (Zpos (XO (XO (XI (XI (XO (XI (XO (XO
    (XO (XI (XI (XI XH)))))))))))))), (Zpos XH)) :: ((((Zpos (XO (XI (XI (XI
    (XO (XI (XO (XO (XO (XI (XI (XI XH))))))))))))), (Zpos (XO (XI (XI (XI
    (XO (XI (XO (XO (XO (XI (XI (XI XH)))))))))))))), (Zpos XH)) :: ((((Zpos
    (XO (XO (XO (XO (XI (XI (XO (XO (XO (XI (XI (XI XH))))))))))))), (Zpos
    (XO (XO (XO (XO (XI (XI (XO (XO (XO (XI (XI (XI XH)))))))))))))), (Zpos
    XH)) :: ((((Zpos (XO (XI (XO (XO (XI (XI (XO (XO (XO (XI (XI (XI
    XH))))))))))))), (Zpos (XO (XI (XO (XO (XI (XI (XO (XO (XO (XI (XI (XI
    XH)))))))))))))), (Zpos XH)) :: ((((Zpos (XO (XO (XI (XO (XI (XI (XO (XO
    (XO (XI (XI (XI XH))))))))))))), (Zpos (XO (XO (XI (XO (XI (XI (XO (XO
    (XO (XI (XI (XI XH)))))))))))))), (Zpos
    XH)) :: []))))))))))))))))))))))))) :: ((((Zpos (XO (XI (XI (XO (XI (XI
    (XO (XO (XO (XI (XI (XI XH))))))))))))), (Zpos (XO (XO (XI (XO (XO (XI
    (XI (XO (XO (XI (XI (XI XH)))))))))))))), ((((Zpos (XO (XI (XI (XO (XI
    (XI (XO (XO (XO (XI (XI (XI XH))))))))))))), (Zpos (XO (XI (XI (XO (XI
    (XI (XO (XO (XO (XI (XI (XI XH)))))))))))))), (Zpos XH)) :: ((((Zpos (XO
    (XO (XO (XI (XI (XI (XO (XO (XO (XI (XI (XI XH))))))))))))), (Zpos (XO
    (XO (XO (XI (XI (XI (XO (XO (XO (XI (XI (XI XH)))))))))))))), (Zpos
    XH)) :: ((((Zpos (XO (XI (XO (XI (XI (XI (XO (XO (XO (XI (XI (XI
    XH))))))))))))), (Zpos (XO (XI (XO (XI (XI (XI (XO (XO (XO (XI (XI (XI
    XH)))))))))))))), (Zpos XH)) :: ((((Zpos (XO (XO (XI (XI (XI (XI (XO (XO
    (XO (XI (XI (XI XH))))))))))))), (Zpos (XO (XO (XI (XI (XI (XI (XO (XO
    (XO (XI (XI (XI XH)))))))))))))), (Zpos XH)) :: ((((Zpos (XO (XI (XI (XI
    (XI (XI (XO (XO (XO (XI (XI (XI XH))))))))))))), (Zpos (XO (XI (XI (XI
    (XI (XI (XO (XO (XO (XI (XI (XI XH)))))))))))))), (Zpos XH)) :: ((((Zpos
    (XO (XO (XO (XO (XO (XO (XI (XO (XO (XI (XI (XI XH))))))))))))), (Zpos
    (XO (XO (XO (XO (XO (XO (XI (XO (XO (XI (XI (XI XH)))))))))))))), (Zpos
    XH)) :: ((((Zpos (XO (XI (XO (XO (XO (XO (XI (XO (XO (XI (XI (XI
    XH))))))))))))), (Zpos (XO (XI (XO (XO (XO (XO (XI (XO (XO (XI (XI (XI
    XH)))))))))))))), (Zpos XH)) :: ((((Zpos (XO (XO (XI (XO (XO (XO (XI (XO
    (XO (XI (XI (XI XH))))))))))))), (Zpos (XO (XO (XI (XO (XO (XO (XI (XO
    (XO (XI (XI (XI XH)))))))))))))), (Zpos XH)) :: ((((Zpos (XO (XI (XI (XO
    (XO (XO (XI (XO (XO (XI (XI (XI XH))))))))))))), (Zpos (XO (XI (XI (XO
    (XO (XO (XI (XO (XO (XI (XI (XI XH)))))))))))))), (Zpos XH)) :: ((((Zpos
    (XO (XO (XO (XI (XO (XO (XI (XO (XO (XI (XI (XI XH))))))))))))), (Zpos
    (XO (XO (XO (XI (XO (XO (XI (XO (XO (XI (XI (XI XH)))))))))))))), (Zpos
    XH)) :: ((((Zpos (XO (XI (XO (XI (XO (XO (XI (XO (XO (XI (XI (XI
    XH))))))))))))), (Zpos (XO (XI (XO (XI (XO (XO (XI (XO (XO (XI (XI (XI
    XH)))))))))))))), (Zpos XH)) :: ((((Zpos (XO (XO (XI (XI (XO (XO (XI (XO
    (XO (XI (XI (XI XH))))))))))))), (Zpos (XO (XO (XI (XI (XO (XO (XI (XO
    (XO (XI (XI (XI XH)))))))))))))), (Zpos XH)) :: ((((Zpos (XO (XI (XI (XI
    (XO (XO (XI (XO (XO (XI (XI (XI XH))))))))))))), (Zpos (XO (XI (XI (XI
    (XO (XO (XI (XO (XO (XI (XI (XI XH)))))))))))))), (Zpos XH)) :: ((((Zpos
    (XO (XO (XO (XO (XI (XO (XI (XO (XO (XI (XI (XI XH))))))))))))), (Zpos
    (XO (XO (XO (XO (XI (XO (XI (XO (XO (XI (XI (XI XH)))))))))))))), (Zpos
    XH)) :: ((((Zpos (XO (XI (XO (XO (XI (XO (XI (XO (XO (XI (XI (XI
    XH))))))))))))), (Zpos (XO (XI (XO (XO (XI (XO (XI (XO (XO (XI (XI (XI
    XH)))))))))))))), (Zpos XH)) :: ((((Zpos (XO (XO (XI (XO (XI (XO (XI (XO
    (XO (XI (XI (XI XH))))))))))))), (Zpos (XO (XO (XI (XO (XI (XO (XI (XO
    (XO (XI (XI (XI XH)))))))))))))), (Zpos XH)) :: ((((Zpos (XO (XI (XI (XO
    (XI (XO (XI (XO (XO (XI (XI (XI XH))))))))))))), (Zpos (XO (XI (XI (XO
    (XI (XO (XI (XO (XO (XI (XI (XI XH)))))))))))))), (Zpos XH)) :: ((((Zpos
    (XO (XO (XO (XI (XI (XO (XI (XO (XO (XI (XI (XI XH))))))))))))), (Zpos
    (XO (XO (XO (XI (XI (XO (XI (XO (XO (XI (XI (XI XH)))))))))))))), (Zpos
    XH)) :: ((((Zpos (XO (XI (XO (XI (XI (XO (XI (XO (XO (XI (XI (XI
    XH))))))))))))), (Zpos (XO (XI (XO (XI (XI (XO (XI (XO (XO (XI (XI (XI
    XH)))))))))))))), (Zpos XH)) :: ((((Zpos (XO (XO (XI (XI (XI (XO (XI (XO
    (XO (XI (XI (XI XH))))))))))))), (Zpos (XO (XO (XI (XI (XI (XO (XI (XO
    (XO (XI (XI (XI XH)))))))))))))), (Zpos XH)) :: ((((Zpos (XO (XI (XI (XI
    (XI (XO (XI (XO (XO (XI (XI (XI XH))))))))))))), (Zpos (XO (XI (XI (XI
    (XI (XO (XI (XO (XO (XI (XI (XI XH)))))))))))))), (Zpos XH)) :: ((((Zpos
    (XO (XO (XO (XO (XO (XI (XI (XO (XO (XI (XI (XI XH))))))))))))), (Zpos
    (XO (XO (XO (XO (XO (XI (XI (XO (XO (XI (XI (XI XH)))))))))))))), (Zpos
    XH)) :: ((((Zpos (XO (XI (XO (XO (XO (XI (XI (XO (XO (XI (XI (XI
    XH))))))))))))), (Zpos (XO (XI (XO (XO (XO (XI (XI (XO (XO (XI (XI (XI
    XH)))))))))))))), (Zpos XH)) :: ((((Zpos (XO (XO (XI (XO (XO (XI (XI (XO
    (XO (XI (XI (XI XH))))))))))))), (Zpos (XO (XO (XI (XO (XO (XI (XI (XO
    (XO (XI (XI (XI XH)))))))))))))), (Zpos
    XH)) :: []))))))))))))))))))))))))) :: ((((Zpos (XO (XI (XI (XO (XO (XI
    (XI (XO (XO (XI (XI (XI XH))))))))))))), (Zpos (XO (XO (XI (XO (XI (XO
    (XO (XI (XO (XI (XI (XI XH)))))))))))))), ((((Zpos (XO (XI (XI (XO (XO
    (XI (XI (XO (XO (XI (XI (XI XH))))))))))))), (Zpos (XO (XI (XI (XO (XO
    (XI (XI (XO (XO (XI (XI (XI XH)))))))))))))), (Zpos XH)) :: ((((Zpos (XO
    (XO (XO (XI (XO (XI (XI (XO (XO (XI (XI (XI XH))))))))))))), (Zpos (XO
    (XO (XO (XI (XO (XI (XI (XO (XO (XI (XI (XI XH)))))))))))))), (Zpos
    XH)) :: ((((Zpos (XO (XI (XO (XI (XO (XI (XI (XO (XO (XI (XI (XI
    XH))))))))))))), (Zpos (XO (XI (XO (XI (XO (XI (XI (XO (XO (XI (XI (XI
    XH)))))))))))))), (Zpos XH)) :: ((((Zpos (XO (XO (XI (XI (XO (XI (XI (XO
    (XO (XI (XI (XI XH))))))))))))), (Zpos (XO (XO (XI (XI (XO (XI (XI (XO
    (XO (XI (XI (XI XH)))))))))))))), (Zpos XH)) :: ((((Zpos (XO (XI (XI (XI
    (XO (XI (XI (XO (XO (XI (XI (XI XH))))))))))))), (Zpos (XO (XI (XI (XI
    (XO (XI (XI (XO (XO (XI (XI (XI XH)))))))))))))), (Zpos XH)) :: ((((Zpos
    (XO (XO (XO (XO (XI (XI (XI (XO (XO (XI (XI (XI XH))))))))))))), (Zpos
    (XO (XO (XO (XO (XI (XI (XI (XO (XO (XI (XI (XI XH)))))))))))))), (Zpos
    XH)) :: ((((Zpos (XO (XI (XO (XO (XI (XI (XI (XO (XO (XI (XI (XI
    XH))))))))))))), (Zpos (XO (XI (XO (XO (XI (XI (XI (XO (XO (XI (XI (XI
    XH)))))))))))))), (Zpos XH)) :: ((((Zpos (XO (XO (XI (XO (XI (XI (XI (XO
    (XO (XI (XI (XI XH))))))))))))), (Zpos (XO (XO (XI (XO (XI (XI (XI (XO
    (XO (XI (XI (XI XH)))))))))))))), (Zpos XH)) :: ((((Zpos (XO (XI (XI (XO
    (XI (XI (XI (XO (XO (XI (XI (XI XH))))))))))))), (Zpos (XO (XI (XI (XO
    (XI (XI (XI (XO (XO (XI (XI (XI XH)))))))))))))), (Zpos XH)) :: ((((Zpos
    (XO (XO (XO (XI (XI (XI (XI (XO (XO (XI (XI (XI XH))))))))))))), (Zpos
    (XO (XO (XO (XI (XI (XI (XI (XO (XO (XI (XI (XI XH)))))))))))))), (Zpos
    XH)) :: ((((Zpos (XO (XI (XO (XI (XI (XI (XI (XO (XO (XI (XI (XI
    XH))))))))))))), (Zpos (XO (XI (XO (XI (XI (XI (XI (XO (XO (XI (XI (XI
    XH)))))))))))))), (Zpos XH)) :: ((((Zpos (XO (XO (XI (XI (XI (XI (XI (XO
    (XO (XI (XI (XI XH))))))))))))), (Zpos (XO (XO (XI (XI (XI (XI (XI (XO
    (XO (XI (XI (XI XH)))))))))))))), (Zpos XH)) :: ((((Zpos (XO (XI (XI (XI
    (XI (XI (XI (XO (XO (XI (XI (XI XH))))))))))))), (Zpos (XO (XI (XI (XI
    (XI (XI (XI (XO (XO (XI (XI (XI XH)))))))))))))), (Zpos XH)) :: ((((Zpos
    (XO (XO (XO (XO (XO (XO (XO (XI (XO (XI (XI (XI XH))))))))))))), (Zpos
    (XO (XO (XO (XO (XO (XO (XO (XI (XO (XI (XI (XI XH)))))))))))))), (Zpos
    XH)) :: ((((Zpos (XO (XI (XO (XO (XO (XO (XO (XI (XO (XI (XI (XI
    XH))))))))))))), (Zpos (XO (XI (XO (XO (XO (XO (XO (XI (XO (XI (XI (XI
    XH)))))))))))))), (Zpos XH)) :: ((((Zpos (XO (XO (XI (XO (XO (XO (XO (XI
    (XO (XI (XI (XI XH))))))))))))), (Zpos (XO (XO (XI (XO (XO (XO (XO (XI
    (XO (XI (XI (XI XH)))))))))))))), (Zpos XH)) :: ((((Zpos (XO (XI (XI (XO
    (XO (XO (XO (XI (XO (XI (XI (XI XH))))))))))))), (Zpos (XO (XI (XI (XO
    (XO (XO (XO (XI (XO (XI (XI (XI XH)))))))))))))), (Zpos XH)) :: ((((Zpos
    (XO (XO (XO (XI (XO (XO (XO (XI (XO (XI (XI (XI XH))))))))))))), (Zpos
    (XO (XO (XO (XI (XO (XO (XO (XI (XO (XI (XI (XI XH)))))))))))))), (Zpos
    XH)) :: ((((Zpos (XO (XI (XO (XI (XO (XO (XO (XI (XO (XI (XI (XI
    XH))))))))))))), (Zpos (XO (XI (XO (XI (XO (XO (XO (XI (XO (XI (XI (XI
    XH)))))))))))))), (Zpos XH)) :: ((((Zpos (XO (XO (XI (XI (XO (XO (XO (XI
    (XO (XI (XI (XI XH))))))))))))), (Zpos (XO (XO (XI (XI (XO (XO (XO (XI
    (XO (XI (XI (XI XH)))))))))))))), (Zpos XH)) :: ((((Zpos (XO (XI (XI (XI
    (XO (XO (XO (XI (XO (XI (XI (XI XH))))))))))))), (Zpos (XO (XI (XI (XI
    (XO (XO (XO (XI (XO (XI (XI (XI XH)))))))))))))), (Zpos XH)) :: ((((Zpos
    (XO (XO (XO (XO (XI (XO (XO (XI (XO (XI (XI (XI XH))))))))))))), (Zpos
    (XO (XO (XO (XO (XI (XO (XO (XI (XO (XI (XI (XI XH)))))))))))))), (Zpos
    XH)) :: ((((Zpos (XO (XI (XO (XO (XI (XO (XO (XI (XO (XI (XI (XI
    XH))))))))))))), (Zpos (XO (XI (XO (XO (XI (XO (XO (XI (XO (XI (XI (XI
    XH)))))))))))))), (Zpos XH)) :: ((((Zpos (XO (XO (XI (XO (XI (XO (XO (XI
    (XO (XI (XI (XI XH))))))))))))), (Zpos (XO (XO (XI (XO (XI (XO (XO (XI
    (XO (XI (XI (XI XH)))))))))))))), (Zpos
    XH)) :: []))))))))))))))))))))))))) :: ((((Zpos (XO (XI (XI (XI (XI (XO
    (XO (XI (XO (XI (XI (XI XH))))))))))))), (Zpos (XO (XO (XI (XI (XO (XO
    (XI (XI (XO (XI (XI (XI XH)))))))))))))), ((((Zpos (XO (XI (XI (XI (XI
    (XO (XO (XI (XO (XI (XI (XI XH))))))))))))), (Zpos (XO (XI (XI (XI (XI
    (XO (XO (XI (XO (XI (XI (XI XH)))))))))))))), (Zneg (XI (XI (XI (XI (XI
    (XI (XO (XI (XI (XO (XI (XI XH)))))))))))))) :: ((((Zpos (XO (XO (XO (XO
    (XO (XI (XO (XI (XO (XI (XI (XI XH))))))))))))), (Zpos (XO (XO (XO (XO
    (XO (XI (XO (XI (XO (XI (XI (XI XH)))))))))))))), (Zpos XH)) :: ((((Zpos
    (XO (XI (XO (XO (XO (XI (XO (XI (XO (XI (XI (XI XH))))))))))))), (Zpos
    (XO (XI (XO (XO (XO (XI (XO (XI (XO (XI (XI (XI XH)))))))))))))), (Zpos
    XH)) :: ((((Zpos (XO (XO (XI (XO (XO (XI (XO (XI (XO (XI (XI (XI
    XH))))))))))))), (Zpos (XO (XO (XI (XO (XO (XI (XO (XI (XO (XI (XI (XI
    XH)))))))))))))), (Zpos XH)) :: ((((Zpos (XO (XI (XI (XO (XO (XI (XO (XI
    (XO (XI (XI (XI XH))))))))))))), (Zpos (XO (XI (XI (XO (XO (XI (XO (XI
    (XO (XI (XI (XI XH)))))))))))))), (Zpos XH)) :: ((((Zpos (XO (XO (XO (XI
    (XO (XI (XO (XI (XO (XI (XI (XI XH))))))))))))), (Zpos (XO (XO (XO (XI
    (XO (XI (XO (XI (XO (XI (XI (XI XH)))))))))))))), (Zpos XH)) :: ((((Zpos
    (XO (XI (XO (XI (XO (XI (XO (XI (XO (XI (XI (XI XH))))))))))))), (Zpos
    (XO (XI (XO (XI (XO (XI (XO (XI (XO (XI (XI (XI XH)))))))))))))), (Zpos
    XH)) :: ((((Zpos (XO (XO (XI (XI (XO (XI (XO (XI (XO (XI (XI (XI
    XH))))))))))))), (Zpos (XO (XO (XI (XI (XO (XI (XO (XI (XO (XI (XI (XI
    XH)))))))))))))), (Zpos XH)) :: ((((Zpos (XO (XI (XI (XI (XO (XI (XO (XI
    (XO (XI (XI (XI XH))))))))))))), (Zpos (XO (XI (XI (XI (XO (XI (XO (XI
    (XO (XI (XI (XI XH)))))))))))))), (Zpos XH)) :: ((((Zpos (XO (XO (XO (XO
    (XI (XI (XO (XI (XO (XI (XI (XI XH))))))))))))), (Zpos (XO (XO (XO (XO
    (XI (XI (XO (XI (XO (XI (XI (XI XH)))))))))))))), (Zpos XH)) :: ((((Zpos
    (XO (XI (XO (XO (XI (XI (XO (XI (XO (XI (XI (XI XH))))))))))))), (Zpos
    (XO (XI (XO (XO (XI (XI (XO (XI (XO (XI (XI (XI XH)))))))))))))), (Zpos
    XH)) :: ((((Zpos (XO (XO (XI (XO (XI (XI (XO (XI (XO (XI (XI (XI
    XH))))))))))))), (Zpos (XO (XO (XI (XO (XI (XI (XO (XI (XO (XI (XI (XI
    XH)))))))))))))), (Zpos XH)) :: ((((Zpos (XO (XI (XI (XO (XI (XI (XO (XI
    (XO (XI (XI (XI XH))))))))))))), (Zpos (XO (XI (XI (XO (XI (XI (XO (XI
    (XO (XI (XI (XI XH)))))))))))))), (Zpos XH)) :: ((((Zpos (XO (XO (XO (XI
    (XI (XI (XO (XI (XO (XI (XI (XI XH))))))))))))), (Zpos (XO (XO (XO (XI
    (XI (XI (XO (XI (XO (XI (XI (XI XH)))))))))))))), (Zpos XH)) :: ((((Zpos
    (XO (XI (XO (XI (XI (XI (XO (XI (XO (XI (XI (XI XH))))))))))))), (Zpos
    (XO (XI (XO (XI (XI (XI (XO (XI (XO (XI (XI (XI XH)))))))))))))), (Zpos
    XH)) :: ((((Zpos (XO (XO (XI (XI (XI (XI (XO (XI (XO (XI (XI (XI
    XH))))))))))))), (Zpos (XO (XO (XI (XI (XI (XI (XO (XI (XO (XI (XI (XI
    XH)))))))))))))), (Zpos XH)) :: ((((Zpos (XO (XI (XI (XI (XI (XI (XO (XI
    (XO (XI (XI (XI XH))))))))))))), (Zpos (XO (XI (XI (XI (XI (XI (XO (XI
    (XO (XI (XI (XI XH)))))))))))))), (Zpos XH)) :: ((((Zpos (XO (XO (XO (XO
    (XO (XO (XI (XI (XO (XI (XI (XI XH))))))))))))), (Zpos (XO (XO (XO (XO
    (XO (XO (XI (XI (XO (XI (XI (XI XH)))))))))))))), (Zpos XH)) :: ((((Zpos
    (XO (XI (XO (XO (XO (XO (XI (XI (XO (XI (XI (XI XH))))))))))))), (Zpos
    (XO (XI (XO (XO (XO (XO (XI (XI (XO (XI (XI (XI XH)))))))))))))), (Zpos
    XH)) :: ((((Zpos (XO (XO (XI (XO (XO (XO (XI (XI (XO (XI (XI (XI
    XH))))))))))))), (Zpos (XO (XO (XI (XO (XO (XO (XI (XI (XO (XI (XI (XI
    XH)))))))))))))), (Zpos XH)) :: ((((Zpos (XO (XI (XI (XO (XO (XO (XI (XI
    (XO (XI (XI (XI XH))))))))))))), (Zpos (XO (XI (XI (XO (XO (XO (XI (XI
    (XO (XI (XI (XI XH)))))))))))))), (Zpos XH)) :: ((((Zpos (XO (XO (XO (XI
    (XO (XO (XI (XI (XO (XI (XI (XI XH))))))))))))), (Zpos (XO (XO (XO (XI
    (XO (XO (XI (XI (XO (XI (XI (XI XH)))))))))))))), (Zpos XH)) :: ((((Zpos
    (XO (XI (XO (XI (XO (XO (XI (XI (XO (XI (XI (XI XH))))))))))))), (Zpos
    (XO (XI (XO (XI (XO (XO (XI (XI (XO (XI (XI (XI XH)))))))))))))), (Zpos
    XH)) :: ((((Zpos (XO (XO (XI (XI (XO (XO (XI (XI (XO (XI (XI (XI
    XH))))))))))))), (Zpos (XO (XO (XI (XI (XO (XO (XI (XI (XO (XI (XI (XI
    XH)))))))))))))), (Zpos XH)) :: []))))))))))))))))))))))))) :: ((((Zpos
    (XO (XI (XI (XI (XO (XO (XI (XI (XO (XI (XI (XI XH))))))))))))), (Zpos
    (XO (XO (XI (XI (XI (XI (XI (XI (XO (XI (XI (XI XH)))))))))))))),
    ((((Zpos (XO (XI (XI (XI (XO (XO (XI (XI (XO (XI (XI (XI XH))))))))))))),
    (Zpos (XO (XI (XI (XI (XO (XO (XI (XI (XO (XI (XI (XI XH)))))))))))))),
    (Zpos XH)) :: ((((Zpos (XO (XO (XO (XO (XI (XO (XI (XI (XO (XI (XI (XI
    XH))))))))))))), (Zpos (XO (XO (XO (XO (XI (XO (XI (XI (XO (XI (XI (XI
    XH)))))))))))))), (Zpos XH)) :: ((((Zpos (XO (XI (XO (XO (XI (XO (XI (XI
    (XO (XI (XI (XI XH))))))))))))), (Zpos (XO (XI (XO (XO (XI (XO (XI (XI
    (XO (XI (XI (XI XH)))))))))))))), (Zpos XH)) :: ((((Zpos (XO (XO (XI (XO
    (XI (XO (XI (XI (XO (XI (XI (XI XH))))))))))))), (Zpos (XO (XO (XI (XO
    (XI (XO (XI (XI (XO (XI (XI (XI XH)))))))))))))), (Zpos XH)) :: ((((Zpos
    (XO (XI (XI (XO (XI (XO (XI (XI (XO (XI (XI (XI XH))))))))))))), (Zpos
    (XO (XI (XI (XO (XI (XO (XI (XI (XO (XI (XI (XI XH)))))))))))))), (Zpos
    XH)) :: ((((Zpos (XO (XO (XO (XI (XI (XO (XI (XI (XO (XI (XI (XI
    XH))))))))))))), (Zpos (XO (XO (XO (XI (XI (XO (XI (XI (XO (XI (XI (XI
    XH)))))))))))))), (Zpos XH)) :: ((((Zpos (XO (XI (XO (XI (XI (XO (XI (XI
    (XO (XI (XI (XI XH))))))))))))), (Zpos (XO (XI (XO (XI (XI (XO (XI (XI
    (XO (XI (XI (XI XH)))))))))))))), (Zpos XH)) :: ((((Zpos (XO (XO (XI (XI
    (XI (XO (XI (XI (XO (XI (XI (XI XH))))))))))))), (Zpos (XO (XO (XI (XI
    (XI (XO (XI (XI (XO (XI (XI (XI XH)))))))))))))), (Zpos XH)) :: ((((Zpos
    (XO (XI (XI (XI (XI (XO (XI (XI (XO (XI (XI (XI XH))))))))))))), (Zpos
    (XO (XI (XI (XI (XI (XO (XI (XI (XO (XI (XI (XI XH)))))))))))))), (Zpos
    XH)) :: ((((Zpos (XO (XO (XO (XO (XO (XI (XI (XI (XO (XI (XI (XI
    XH))))))))))))), (Zpos (XO (XO (XO (XO (XO (XI (XI (XI (XO (XI (XI (XI
    XH)))))))))))))), (Zpos XH)) :: ((((Zpos (XO (XI (XO (XO (XO (XI (XI (XI
    (XO (XI (XI (XI XH))))))))))))), (Zpos (XO (XI (XO (XO (XO (XI (XI (XI
    (XO (XI (XI (XI XH)))))))))))))), (Zpos XH)) :: ((((Zpos (XO (XO (XI (XO
    (XO (XI (XI (XI (XO (XI (XI (XI XH))))))))))))), (Zpos (XO (XO (XI (XO
    (XO (XI (XI (XI (XO (XI (XI (XI XH)))))))))))))), (Zpos XH)) :: ((((Zpos
    (XO (XI (XI (XO (XO (XI (XI (XI (XO (XI (XI (XI XH))))))))))))), (Zpos
    (XO (XI (XI (XO (XO (XI (XI (XI (XO (XI (XI (XI XH)))))))))))))), (Zpos
    XH)) :: ((((Zpos (XO (XO (XO (XI (XO (XI (XI (XI (XO (XI (XI (XI
    XH))))))))))))), (Zpos (XO (XO (XO (XI (XO (XI (XI (XI (XO (XI (XI (XI
    XH)))))))))))))), (Zpos XH)) :: ((((Zpos (XO (XI (XO (XI (XO (XI (XI (XI
    (XO (XI (XI (XI XH))))))))))))), (Zpos (XO (XI (XO (XI (XO (XI (XI (XI
    (XO (XI (XI (XI XH)))))))))))))), (Zpos XH)) :: ((((Zpos (XO (XO (XI (XI
    (XO (XI (XI (XI (XO (XI (XI (XI XH))))))))))))), (Zpos (XO (XO (XI (XI
    (XO (XI (XI (XI (XO (XI (XI (XI XH)))))))))))))), (Zpos XH)) :: ((((Zpos
    (XO (XI (XI (XI (XO (XI (XI (XI (XO (XI (XI (XI XH))))))))))))), (Zpos
    (XO (XI (XI (XI (XO (XI (XI (XI (XO (XI (XI (XI XH)))))))))))))), (Zpos
    XH)) :: ((((Zpos (XO (XO (XO (XO (XI (XI (XI (XI (XO (XI (XI (XI
    XH))))))))))))), (Zpos (XO (XO (XO (XO (XI (XI (XI (XI (XO (XI (XI (XI
    XH)))))))))))))), (Zpos XH)) :: ((((Zpos (XO (XI (XO (XO (XI (XI (XI (XI
    (XO (XI (XI (XI XH))))))))))))), (Zpos (XO (XI (XO (XO (XI (XI (XI (XI
    (XO (XI (XI (XI XH)))))))))))))), (Zpos XH)) :: ((((Zpos (XO (XO (XI (XO
    (XI (XI (XI (XI (XO (XI (XI (XI XH))))))))))))), (Zpos (XO (XO (XI (XO
    (XI (XI (XI (XI (XO (XI (XI (XI XH)))))))))))))), (Zpos XH)) :: ((((Zpos
    (XO (XI (XI (XO (XI (XI (XI (XI (XO (XI (XI (XI XH))))))))))))), (Zpos
    (XO (XI (XI (XO (XI (XI (XI (XI (XO (XI (XI (XI XH)))))))))))))), (Zpos
    XH)) :: ((((Zpos (XO (XO (XO (XI (XI (XI (XI (XI (XO (XI (XI (XI
    XH))))))))))))), (Zpos (XO (XO (XO (XI (XI (XI (XI (XI (XO (XI (XI (XI
    XH)))))))))))))), (Zpos XH)) :: ((((Zpos (XO (XI (XO (XI (XI (XI (XI (XI
    (XO (XI (XI (XI XH))))))))))))), (Zpos (XO (XI (XO (XI (XI (XI (XI (XI
    (XO (XI (XI (XI XH)))))))))))))), (Zpos XH)) :: ((((Zpos (XO (XO (XI (XI
    (XI (XI (XI (XI (XO (XI (XI (XI XH))))))))))))), (Zpos (XO (XO (XI (XI
    (XI (XI (XI (XI (XO (XI (XI (XI XH)))))))))))))), (Zpos
    XH)) :: []))))))))))))))))))))))))) :: ((((Zpos (XO (XI (XI (XI (XI (XI
    (XI (XI (XO (XI (XI (XI XH))))))))))))), (Zpos (XO (XO (XI (XI (XO (XI
    (XI (XI (XI (XI (XI (XI XH)))))))))))))), ((((Zpos (XO (XI (XI (XI (XI
    (XI (XI (XI (XO (XI (XI (XI XH))))))))))))), (Zpos (XO (XI (XI (XI (XI
    (XI (XI (XI (XO (XI (XI (XI XH)))))))))))))), (Zpos XH)) :: ((((Zpos (XO
    (XO (XO (XI (XO (XO (XO (XO (XI (XI (XI (XI XH))))))))))))), (Zpos (XI
    (XI (XI (XI (XO (XO (XO (XO (XI (XI (XI (XI XH)))))))))))))), (Zneg (XO
    (XO (XO XH))))) :: ((((Zpos (XO (XO (XO (XI (XI (XO (XO (XO (XI (XI (XI
    (XI XH))))))))))))), (Zpos (XI (XO (XI (XI (XI (XO (XO (XO (XI (XI (XI
    (XI XH)))))))))))))), (Zneg (XO (XO (XO XH))))) :: ((((Zpos (XO (XO (XO
    (XI (XO (XI (XO (XO (XI (XI (XI (XI XH))))))))))))), (Zpos (XI (XI (XI
    (XI (XO (XI (XO (XO (XI (XI (XI (XI XH)))))))))))))), (Zneg (XO (XO (XO
    XH))))) :: ((((Zpos (XO (XO (XO (XI (XI (XI (XO (XO (XI (XI (XI (XI
    XH))))))))))))), (Zpos (XI (XI (XI (XI (XI (XI (XO (XO (XI (XI (XI (XI
    XH)))))))))))))), (Zneg (XO (XO (XO XH))))) :: ((((Zpos (XO (XO (XO (XI
    (XO (XO (XI (XO (XI (XI (XI (XI XH))))))))))))), (Zpos (XI (XO (XI (XI
    (XO (XO (XI (XO (XI (XI (XI (XI XH)))))))))))))), (Zneg (XO (XO (XO
    XH))))) :: ((((Zpos (XI (XO (XO (XI (XI (XO (XI (XO (XI (XI (XI (XI
    XH))))))))))))), (Zpos (XI (XO (XO (XI (XI (XO (XI (XO (XI (XI (XI (XI
    XH)))))))))))))), (Zneg (XO (XO (XO XH))))) :: ((((Zpos (XI (XI (XO (XI
    (XI (XO (XI (XO (XI (XI (XI (XI XH))))))))))))), (Zpos (XI (XI (XO (XI
    (XI (XO (XI (XO (XI (XI (XI (XI XH)))))))))))))), (Zneg (XO (XO (XO
    XH))))) :: ((((Zpos (XI (XO (XI (XI (XI (XO (XI (XO (XI (XI (XI (XI
    XH))))))))))))), (Zpos (XI (XO (XI (XI (XI (XO (XI (XO (XI (XI (XI (XI
    XH)))))))))))))), (Zneg (XO (XO (XO XH))))) :: ((((Zpos (XI (XI (XI (XI
    (XI (XO (XI (XO (XI (XI (XI (XI XH))))))))))))), (Zpos (XI (XI (XI (XI
    (XI (XO (XI (XO (XI (XI (XI (XI XH)))))))))))))), (Zneg (XO (XO (XO
    XH))))) :: ((((Zpos (XO (XO (XO (XI (XO (XI (XI (XO (XI (XI (XI (XI
    XH))))))))))))), (Zpos (XI (XI (XI (XI (XO (XI (XI (XO (XI (XI (XI (XI
    XH)))))))))))))), (Zneg (XO (XO (XO XH))))) :: ((((Zpos (XO (XO (XO (XI
    (XO (XO (XO (XI (XI (XI (XI (XI XH))))))))))))), (Zpos (XI (XI (XI (XI
    (XO (XO (XO (XI (XI (XI (XI (XI XH)))))))))))))), (Zneg (XO (XO (XO
    XH))))) :: ((((Zpos (XO (XO (XO (XI (XI (XO (XO (XI (XI (XI (XI (XI
    XH))))))))))))), (Zpos (XI (XI (XI (XI (XI (XO (XO (XI (XI (XI (XI (XI
    XH)))))))))))))), (Zneg (XO (XO (XO XH))))) :: ((((Zpos (XO (XO (XO (XI
    (XO (XI (XO (XI (XI (XI (XI (XI XH))))))))))))), (Zpos (XI (XI (XI (XI
    (XO (XI (XO (XI (XI (XI (XI (XI XH)))))))))))))), (Zneg (XO (XO (XO
    XH))))) :: ((((Zpos (XO (XO (XO (XI (XI (XI (XO (XI (XI (XI (XI (XI
    XH))))))))))))), (Zpos (XI (XO (XO (XI (XI (XI (XO (XI (XI (XI (XI (XI
    XH)))))))))))))), (Zneg (XO (XO (XO XH))))) :: ((((Zpos (XO (XI (XO (XI
    (XI (XI (XO (XI (XI (XI (XI (XI XH))))))))))))), (Zpos (XI (XI (XO (XI
    (XI (XI (XO (XI (XI (XI (XI (XI XH)))))))))))))), (Zneg (XO (XI (XO (XI
    (XO (XO XH)))))))) :: ((((Zpos (XO (XO (XI (XI (XI (XI (XO (XI (XI (XI
    (XI (XI XH))))))))))))), (Zpos (XO (XO (XI (XI (XI (XI (XO (XI (XI (XI
    (XI (XI XH)))))))))))))), (Zneg (XI (XO (XO XH))))) :: ((((Zpos (XO (XO
    (XO (XI (XO (XO (XI (XI (XI (XI (XI (XI XH))))))))))))), (Zpos (XI (XI
    (XO (XI (XO (XO (XI (XI (XI (XI (XI (XI XH)))))))))))))), (Zneg (XO (XI
    (XI (XO (XI (XO XH)))))))) :: ((((Zpos (XO (XO (XI (XI (XO (XO (XI (XI
    (XI (XI (XI (XI XH))))))))))))), (Zpos (XO (XO (XI (XI (XO (XO (XI (XI
    (XI (XI (XI (XI XH)))))))))))))), (Zneg (XI (XO (XO XH))))) :: ((((Zpos
    (XO (XO (XO (XI (XI (XO (XI (XI (XI (XI (XI (XI XH))))))))))))), (Zpos
    (XI (XO (XO (XI (XI (XO (XI (XI (XI (XI (XI (XI XH)))))))))))))), (Zneg
    (XO (XO (XO XH))))) :: ((((Zpos (XO (XI (XO (XI (XI (XO (XI (XI (XI (XI
    (XI (XI XH))))))))))))), (Zpos (XI (XI (XO (XI (XI (XO (XI (XI (XI (XI
    (XI (XI XH)))))))))))))), (Zneg (XO (XO (XI (XO (XO (XI
    XH)))))))) :: ((((Zpos (XO (XO (XO (XI (XO (XI (XI (XI (XI (XI (XI (XI
    XH))))))))))))), (Zpos (XI (XO (XO (XI (XO (XI (XI (XI (XI (XI (XI (XI
    XH)))))))))))))), (Zneg (XO (XO (XO XH))))) :: ((((Zpos (XO (XI (XO (XI
    (XO (XI (XI (XI (XI (XI (XI (XI XH))))))))))))), (Zpos (XI (XI (XO (XI
    (XO (XI (XI (XI (XI (XI (XI (XI XH)))))))))))))), (Zneg (XO (XO (XO (XO
    (XI (XI XH)))))))) :: ((((Zpos (XO (XO (XI (XI (XO (XI (XI (XI (XI (XI
    (XI (XI XH))))))))))))), (Zpos (XO (XO (XI (XI (XO (XI (XI (XI (XI (XI
    (XI (XI XH)))))))))))))), (Zneg (XI (XI
    XH)))) :: []))))))))))))))))))))))))) :: ((((Zpos (XO (XO (XO (XI (XI (XI
    (XI (XI (XI (XI (XI (XI XH))))))))))))), (Zpos (XI (XO (XI (XO (XI (XI
    (XI (XO (XO (XO (XI (XI (XO XH))))))))))))))), ((((Zpos (XO (XO (XO (XI
    (XI (XI (XI (XI (XI (XI (XI (XI XH))))))))))))), (Zpos (XI (XO (XO (XI
    (XI (XI (XI (XI (XI (XI (XI (XI XH)))))))))))))), (Zneg (XO (XO (XO (XO
    (XO (XO (XO XH))))))))) :: ((((Zpos (XO (XI (XO (XI (XI (XI (XI (XI (XI
    (XI (XI (XI XH))))))))))))), (Zpos (XI (XI (XO (XI (XI (XI (XI (XI (XI
    (XI (XI (XI XH)))))))))))))), (Zneg (XO (XI (XI (XI (XI (XI
    XH)))))))) :: ((((Zpos (XO (XO (XI (XI (XI (XI (XI (XI (XI (XI (XI (XI
    XH))))))))))))), (Zpos (XO (XO (XI (XI (XI (XI (XI (XI (XI (XI (XI (XI
    XH)))))))))))))), (Zneg (XI (XO (XO XH))))) :: ((((Zpos (XO (XI (XI (XO
    (XO (XI (XO (XO (XI (XO (XO (XO (XO XH)))))))))))))), (Zpos (XO (XI (XI
    (XO (XO (XI (XO (XO (XI (XO (XO (XO (XO XH))))))))))))))), (Zneg (XI (XO
    (XI (XI (XI (XO (XI (XO (XI (XO (XI (XI XH)))))))))))))) :: ((((Zpos (XO
    (XI (XO (XI (XO (XI (XO (XO (XI (XO (XO (XO (XO XH)))))))))))))), (Zpos
    (XO (XI (XO (XI (XO (XI (XO (XO (XI (XO (XO (XO (XO XH))))))))))))))),
    (Zneg (XI (XI (XI (XI (XI (XI (XO (XI (XO (XO (XO (XO (XO
    XH))))))))))))))) :: ((((Zpos (XI (XI (XO (XI (XO (XI (XO (XO (XI (XO (XO
    (XO (XO XH)))))))))))))), (Zpos (XI (XI (XO (XI (XO (XI (XO (XO (XI (XO
    (XO (XO (XO XH))))))))))))))), (Zneg (XO (XI (XI (XO (XO (XO (XI (XO (XO
    (XO (XO (XO (XO XH))))))))))))))) :: ((((Zpos (XO (XI (XO (XO (XI (XI (XO
    (XO (XI (XO (XO (XO (XO XH)))))))))))))), (Zpos (XO (XI (XO (XO (XI (XI
    (XO (XO (XI (XO (XO (XO (XO XH))))))))))))))), (Zpos (XO (XO (XI (XI
    XH)))))) :: ((((Zpos (XO (XO (XO (XO (XO (XI (XI (XO (XI (XO (XO (XO (XO
    XH)))))))))))))), (Zpos (XI (XI (XI (XI (XO (XI (XI (XO (XI (XO (XO (XO
    (XO XH))))))))))))))), (Zpos (XO (XO (XO (XO XH)))))) :: ((((Zpos (XI (XI
    (XO (XO (XO (XO (XO (XI (XI (XO (XO (XO (XO XH)))))))))))))), (Zpos (XI
    (XI (XO (XO (XO (XO (XO (XI (XI (XO (XO (XO (XO XH))))))))))))))), (Zpos
    XH)) :: ((((Zpos (XO (XI (XI (XO (XI (XI (XO (XI (XO (XO (XI (XO (XO
    XH)))))))))))))), (Zpos (XI (XI (XI (XI (XO (XO (XI (XI (XO (XO (XI (XO
    (XO XH))))))))))))))), (Zpos (XO (XI (XO (XI XH)))))) :: ((((Zpos (XO (XO
    (XO (XO (XO (XO (XO (XO (XO (XO (XI (XI (XO XH)))))))))))))), (Zpos (XI
    (XI (XI (XI (XO (XI (XO (XO (XO (XO (XI (XI (XO XH))))))))))))))), (Zpos
    (XO (XO (XO (XO (XI XH))))))) :: ((((Zpos (XO (XO (XO (XO (XO (XI (XI (XO
    (XO (XO (XI (XI (XO XH)))))))))))))), (Zpos (XO (XO (XO (XO (XO (XI (XI
    (XO (XO (XO (XI (XI (XO XH))))))))))))))), (Zpos XH)) :: ((((Zpos (XO (XI
    (XO (XO (XO (XI (XI (XO (XO (XO (XI (XI (XO XH)))))))))))))), (Zpos (XO
    (XI (XO (XO (XO (XI (XI (XO (XO (XO (XI (XI (XO XH))))))))))))))), (Zneg
    (XI (XI (XI (XO (XI (XI (XI (XI (XI (XO (XO (XI (XO
    XH))))))))))))))) :: ((((Zpos (XI (XI (XO (XO (XO (XI (XI (XO (XO (XO (XI
    (XI (XO XH)))))))))))))), (Zpos (XI (XI (XO (XO (XO (XI (XI (XO (XO (XO
    (XI (XI (XO XH))))))))))))))), (Zneg (XO (XI (XI (XO (XO (XI (XI (XI (XO
    (XI (XI XH))))))))))))) :: ((((Zpos (XO (XO (XI (XO (XO (XI (XI (XO (XO
    (XO (XI (XI (XO XH)))))))))))))), (Zpos (XO (XO (XI (XO (XO (XI (XI (XO
    (XO (XO (XI (XI (XO XH))))))))))))))), (Zneg (XI (XI (XI (XO (XO (XI (XI
    (XI (XI (XO (XO (XI (XO XH))))))))))))))) :: ((((Zpos (XI (XI (XI (XO (XO
    (XI (XI (XO (XO (XO (XI (XI (XO XH)))))))))))))), (Zpos (XI (XI (XI (XO
    (XO (XI (XI (XO (XO (XO (XI (XI (XO XH))))))))))))))), (Zpos
    XH)) :: ((((Zpos (XI (XO (XO (XI (XO (XI (XI (XO (XO (XO (XI (XI (XO
    XH)))))))))))))), (Zpos (XI (XO (XO (XI (XO (XI (XI (XO (XO (XO (XI (XI
    (XO XH))))))))))))))), (Zpos XH)) :: ((((Zpos (XI (XI (XO (XI (XO (XI (XI
    (XO (XO (XO (XI (XI (XO XH)))))))))))))), (Zpos (XI (XI (XO (XI (XO (XI
    (XI (XO (XO (XO (XI (XI (XO XH))))))))))))))), (Zpos XH)) :: ((((Zpos (XI
    (XO (XI (XI (XO (XI (XI (XO (XO (XO (XI (XI (XO XH)))))))))))))), (Zpos
    (XI (XO (XI (XI (XO (XI (XI (XO (XO (XO (XI (XI (XO XH))))))))))))))),
    (Zneg (XO (XO (XI (XI (XI (XO (XO (XO (XO (XI (XO (XI (XO
    XH))))))))))))))) :: ((((Zpos (XO (XI (XI (XI (XO (XI (XI (XO (XO (XO (XI
    (XI (XO XH)))))))))))))), (Zpos (XO (XI (XI (XI (XO (XI (XI (XO (XO (XO
    (XI (XI (XO XH))))))))))))))), (Zneg (XI (XO (XI (XI (XI (XI (XI (XI (XI
    (XO (XO (XI (XO XH))))))))))))))) :: ((((Zpos (XI (XI (XI (XI (XO (XI (XI
    (XO (XO (XO (XI (XI (XO XH)))))))))))))), (Zpos (XI (XI (XI (XI (XO (XI
    (XI (XO (XO (XO (XI (XI (XO XH))))))))))))))), (Zneg (XI (XI (XI (XI (XI
    (XO (XO (XO (XO (XI (XO (XI (XO XH))))))))))))))) :: ((((Zpos (XO (XO (XO
    (XO (XI (XI (XI (XO (XO (XO (XI (XI (XO XH)))))))))))))), (Zpos (XO (XO
    (XO (XO (XI (XI (XI (XO (XO (XO (XI (XI (XO XH))))))))))))))), (Zneg (XO
    (XI (XI (XI (XI (XO (XO (XO (XO (XI (XO (XI (XO
    XH))))))))))))))) :: ((((Zpos (XO (XI (XO (XO (XI (XI (XI (XO (XO (XO (XI
    (XI (XO XH)))))))))))))), (Zpos (XO (XI (XO (XO (XI (XI (XI (XO (XO (XO
    (XI (XI (XO XH))))))))))))))), (Zpos XH)) :: ((((Zpos (XI (XO (XI (XO (XI
    (XI (XI (XO (XO (XO (XI (XI (XO XH)))))))))))))), (Zpos (XI (XO (XI (XO
    (XI (XI (XI (XO (XO (XO (XI (XI (XO XH))))))))))))))), (Zpos
    XH)) :: []))))))))))))))))))))))))) :: ((((Zpos (XO (XI (XI (XI (XI (XI
    (XI (XO (XO (XO (XI (XI (XO XH)))))))))))))), (Zpos (XO (XO (XI (XI (XO
    (XI (XO (XI (XO (XO (XI (XI (XO XH))))))))))))))), ((((Zpos (XO (XI (XI
    (XI (XI (XI (XI (XO (XO (XO (XI (XI (XO XH)))))))))))))), (Zpos (XI (XI
    (XI (XI (XI (XI (XI (XO (XO (XO (XI (XI (XO XH))))))))))))))), (Zneg (XI
    (XI (XI (XI (XI (XI (XO (XO (XO (XI (XO (XI (XO
    XH))))))))))))))) :: ((((Zpos (XO (XO (XO (XO (XO (XO (XO (XI (XO (XO (XI
    (XI (XO XH)))))))))))))), (Zpos (XO (XO (XO (XO (XO (XO (XO (XI (XO (XO
    (XI (XI (XO XH))))))))))))))), (Zpos XH)) :: ((((Zpos (XO (XI (XO (XO (XO
    (XO (XO (XI (XO (XO (XI (XI (XO XH)))))))))))))), (Zpos (XO (XI (XO (XO
    (XO (XO (XO (XI (XO (XO (XI (XI (XO XH))))))))))))))), (Zpos
    XH)) :: ((((Zpos (XO (XO (XI (XO (XO (XO (XO (XI (XO (XO (XI (XI (XO
    XH)))))))))))))), (Zpos (XO (XO (XI (XO (XO (XO (XO (XI (XO (XO (XI (XI
    (XO XH))))))))))))))), (Zpos XH)) :: ((((Zpos (XO (XI (XI (XO (XO (XO (XO
    (XI (XO (XO (XI (XI (XO XH)))))))))))))), (Zpos (XO (XI (XI (XO (XO (XO
    (XO (XI (XO (XO (XI (XI (XO XH))))))))))))))), (Zpos XH)) :: ((((Zpos (XO
    (XO (XO (XI (XO (XO (XO (XI (XO (XO (XI (XI (XO XH)))))))))))))), (Zpos
    (XO (XO (XO (XI (XO (XO (XO (XI (XO (XO (XI (XI (XO XH))))))))))))))),
    (Zpos XH)) :: ((((Zpos (XO (XI (XO (XI (XO (XO (XO (XI (XO (XO (XI (XI
    (XO XH)))))))))))))), (Zpos (XO (XI (XO (XI (XO (XO (XO (XI (XO (XO (XI
    (XI (XO XH))))))))))))))), (Zpos XH)) :: ((((Zpos (XO (XO (XI (XI (XO (XO
    (XO (XI (XO (XO (XI (XI (XO XH)))))))))))))), (Zpos (XO (XO (XI (XI (XO
    (XO (XO (XI (XO (XO (XI (XI (XO XH))))))))))))))), (Zpos XH)) :: ((((Zpos
    (XO (XI (XI (XI (XO (XO (XO (XI (XO (XO (XI (XI (XO XH)))))))))))))),
    (Zpos (XO (XI (XI (XI (XO (XO (XO (XI (XO (XO (XI (XI (XO
    XH))))))))))))))), (Zpos XH)) :: ((((Zpos (XO (XO (XO (XO (XI (XO (XO (XI
    (XO (XO (XI (XI (XO XH)))))))))))))), (Zpos (XO (XO (XO (XO (XI (XO (XO
    (XI (XO (XO (XI (XI (XO XH))))))))))))))), (Zpos XH)) :: ((((Zpos (XO (XI
    (XO (XO (XI (XO (XO (XI (XO (XO (XI (XI (XO XH)))))))))))))), (Zpos (XO
    (XI (XO (XO (XI (XO (XO (XI (XO (XO (XI (XI (XO XH))))))))))))))), (Zpos
    XH)) :: ((((Zpos (XO (XO (XI (XO (XI (XO (XO (XI (XO (XO (XI (XI (XO
    XH)))))))))))))), (Zpos (XO (XO (XI (XO (XI (XO (XO (XI (XO (XO (XI (XI
    (XO XH))))))))))))))), (Zpos XH)) :: ((((Zpos (XO (XI (XI (XO (XI (XO (XO
    (XI (XO (XO (XI (XI (XO XH)))))))))))))), (Zpos (XO (XI (XI (XO (XI (XO
    (XO (XI (XO (XO (XI (XI (XO XH))))))))))))))), (Zpos XH)) :: ((((Zpos (XO
    (XO (XO (XI (XI (XO (XO (XI (XO (XO (XI (XI (XO XH)))))))))))))), (Zpos
    (XO (XO (XO (XI (XI (XO (XO (XI (XO (XO (XI (XI (XO XH))))))))))))))),
    (Zpos XH)) :: ((((Zpos (XO (XI (XO (XI (XI (XO (XO (XI (XO (XO (XI (XI
    (XO XH)))))))))))))), (Zpos (XO (XI (XO (XI (XI (XO (XO (XI (XO (XO (XI
    (XI (XO XH))))))))))))))), (Zpos XH)) :: ((((Zpos (XO (XO (XI (XI (XI (XO
    (XO (XI (XO (XO (XI (XI (XO XH)))))))))))))), (Zpos (XO (XO (XI (XI (XI
    (XO (XO (XI (XO (XO (XI (XI (XO XH))))))))))))))), (Zpos XH)) :: ((((Zpos
    (XO (XI (XI (XI (XI (XO (XO (XI (XO (XO (XI (XI (XO XH)))))))))))))),
    (Zpos (XO (XI (XI (XI (XI (XO (XO (XI (XO (XO (XI (XI (XO
    XH))))))))))))))), (Zpos XH)) :: ((((Zpos (XO (XO (XO (XO (XO (XI (XO (XI
    (XO (XO (XI (XI (XO XH)))))))))))))), (Zpos (XO (XO (XO (XO (XO (XI (XO
    (XI (XO (XO (XI (XI (XO XH))))))))))))))), (Zpos XH)) :: ((((Zpos (XO (XI
    (XO (XO (XO (XI (XO (XI (XO (XO (XI (XI (XO XH)))))))))))))), (Zpos (XO
    (XI (XO (XO (XO (XI (XO (XI (XO (XO (XI (XI (XO XH))))))))))))))), (Zpos
    XH)) :: ((((Zpos (XO (XO (XI (XO (XO (XI (XO (XI (XO (XO (XI (XI (XO
    XH)))))))))))))), (Zpos (XO (XO (XI (XO (XO (XI (XO (XI (XO (XO (XI (XI
    (XO XH))))))))))))))), (Zpos XH)) :: ((((Zpos (XO (XI (XI (XO (XO (XI (XO
    (XI (XO (XO (XI (XI (XO XH)))))))))))))), (Zpos (XO (XI (XI (XO (XO (XI
    (XO (XI (XO (XO (XI (XI (XO XH))))))))))))))), (Zpos XH)) :: ((((Zpos (XO
    (XO (XO (XI (XO (XI (XO (XI (XO (XO (XI (XI (XO XH)))))))))))))), (Zpos
    (XO (XO (XO (XI (XO (XI (XO (XI (XO (XO (XI (XI (XO XH))))))))))))))),
    (Zpos XH)) :: ((((Zpos (XO (XI (XO (XI (XO (XI (XO (XI (XO (XO (XI (XI
    (XO XH)))))))))))))), (Zpos (XO (XI (XO (XI (XO (XI (XO (XI (XO (XO (XI
    (XI (XO XH))))))))))))))), (Zpos XH)) :: ((((Zpos (XO (XO (XI (XI (XO (XI
    (XO (XI (XO (XO (XI (XI (XO XH)))))))))))))), (Zpos (XO (XO (XI (XI (XO
    (XI (XO (XI (XO (XO (XI (XI (XO XH))))))))))))))), (Zpos
    XH)) :: []))))))))))))))))))))))))) :: ((((Zpos (XO (XI (XI (XI (XO (XI
    (XO (XI (XO (XO (XI (XI (XO XH)))))))))))))), (Zpos (XO (XO (XI (XI (XI
    (XO (XI (XI (XO (XO (XI (XI (XO XH))))))))))))))), ((((Zpos (XO (XI (XI
    (XI (XO (XI (XO (XI (XO (XO (XI (XI (XO XH)))))))))))))), (Zpos (XO (XI
    (XI (XI (XO (XI (XO (XI (XO (XO (XI (XI (XO XH))))))))))))))), (Zpos
    XH)) :: ((((Zpos (XO (XO (XO (XO (XI (XI (XO (XI (XO (XO (XI (XI (XO
    XH)))))))))))))), (Zpos (XO (XO (XO (XO (XI (XI (XO (XI (XO (XO (XI (XI
    (XO XH))))))))))))))), (Zpos XH)) :: ((((Zpos (XO (XI (XO (XO (XI (XI (XO
    (XI (XO (XO (XI (XI (XO XH)))))))))))))), (Zpos (XO (XI (XO (XO (XI (XI
    (XO (XI (XO (XO (XI (XI (XO XH))))))))))))))), (Zpos XH)) :: ((((Zpos (XO
    (XO (XI (XO (XI (XI (XO (XI (XO (XO (XI (XI (XO XH)))))))))))))), (Zpos
    (XO (XO (XI (XO (XI (XI (XO (XI (XO (XO (XI (XI (XO XH))))))))))))))),
    (Zpos XH)) :: ((((Zpos (XO (XI (XI (XO (XI (XI (XO (XI (XO (XO (XI (XI
    (XO XH)))))))))))))), (Zpos (XO (XI (XI (XO (XI (XI (XO (XI (XO (XO (XI
    (XI (XO XH))))))))))))))), (Zpos XH)) :: ((((Zpos (XO (XO (XO (XI (XI (XI
    (XO (XI (XO (XO (XI (XI (XO XH)))))))))))))), (Zpos (XO (XO (XO (XI (XI
    (XI (XO (XI (XO (XO (XI (XI (XO XH))))))))))))))), (Zpos XH)) :: ((((Zpos
    (XO (XI (XO (XI (XI (XI (XO (XI (XO (XO (XI (XI (XO XH)))))))))))))),
    (Zpos (XO (XI (XO (XI (XI (XI (XO (XI (XO (XO (XI (XI (XO
    XH))))))))))))))), (Zpos XH)) :: ((((Zpos (XO (XO (XI (XI (XI (XI (XO (XI
    (XO (XO (XI (XI (XO XH)))))))))))))), (Zpos (XO (XO (XI (XI (XI (XI (XO
    (XI (XO (XO (XI (XI (XO XH))))))))))))))), (Zpos XH)) :: ((((Zpos (XO (XI
    (XI (XI (XI (XI (XO (XI (XO (XO (XI (XI (XO XH)))))))))))))), (Zpos (XO
    (XI (XI (XI (XI (XI (XO (XI (XO (XO (XI (XI (XO XH))))))))))))))), (Zpos
    XH)) :: ((((Zpos (XO (XO (XO (XO (XO (XO (XI (XI (XO (XO (XI (XI (XO
    XH)))))))))))))), (Zpos (XO (XO (XO (XO (XO (XO (XI (XI (XO (XO (XI (XI
    (XO XH))))))))))))))), (Zpos XH)) :: ((((Zpos (XO (XI (XO (XO (XO (XO (XI
    (XI (XO (XO (XI (XI (XO XH)))))))))))))), (Zpos (XO (XI (XO (XO (XO (XO
    (XI (XI (XO (XO (XI (XI (XO XH))))))))))))))), (Zpos XH)) :: ((((Zpos (XO
    (XO (XI (XO (XO (XO (XI (XI (XO (XO (XI (XI (XO XH)))))))))))))), (Zpos
    (XO (XO (XI (XO (XO (XO (XI (XI (XO (XO (XI (XI (XO XH))))))))))))))),
    (Zpos XH)) :: ((((Zpos (XO (XI (XI (XO (XO (XO (XI (XI (XO (XO (XI (XI
    (XO XH)))))))))))))), (Zpos (XO (XI (XI (XO (XO (XO (XI (XI (XO (XO (XI
    (XI (XO XH))))))))))))))), (Zpos XH)) :: ((((Zpos (XO (XO (XO (XI (XO (XO
    (XI (XI (XO (XO (XI (XI (XO XH)))))))))))))), (Zpos (XO (XO (XO (XI (XO
    (XO (XI (XI (XO (XO (XI (XI (XO XH))))))))))))))), (Zpos XH)) :: ((((Zpos
    (XO (XI (XO (XI (XO (XO (XI (XI (XO (XO (XI (XI (XO XH)))))))))))))),
    (Zpos (XO (XI (XO (XI (XO (XO (XI (XI (XO (XO (XI (XI (XO
    XH))))))))))))))), (Zpos XH)) :: ((((Zpos (XO (XO (XI (XI (XO (XO (XI (XI
    (XO (XO (XI (XI (XO XH)))))))))))))), (Zpos (XO (XO (XI (XI (XO (XO (XI
    (XI (XO (XO (XI (XI (XO XH))))))))))))))), (Zpos XH)) :: ((((Zpos (XO (XI
    (XI (XI (XO (XO (XI (XI (XO (XO (XI (XI (XO XH)))))))))))))), (Zpos (XO
    (XI (XI (XI (XO (XO (XI (XI (XO (XO (XI (XI (XO XH))))))))))))))), (Zpos
    XH)) :: ((((Zpos (XO (XO (XO (XO (XI (XO (XI (XI (XO (XO (XI (XI (XO
    XH)))))))))))))), (Zpos (XO (XO (XO (XO (XI (XO (XI (XI (XO (XO (XI (XI
    (XO XH))))))))))))))), (Zpos XH)) :: ((((Zpos (XO (XI (XO (XO (XI (XO (XI
    (XI (XO (XO (XI (XI (XO XH)))))))))))))), (Zpos (XO (XI (XO (XO (XI (XO
    (XI (XI (XO (XO (XI (XI (XO XH))))))))))))))), (Zpos XH)) :: ((((Zpos (XO
    (XO (XI (XO (XI (XO (XI (XI (XO (XO (XI (XI (XO XH)))))))))))))), (Zpos
    (XO (XO (XI (XO (XI (XO (XI (XI (XO (XO (XI (XI (XO XH))))))))))))))),
    (Zpos XH)) :: ((((Zpos (XO (XI (XI (XO (XI (XO (XI (XI (XO (XO (XI (XI
    (XO XH)))))))))))))), (Zpos (XO (XI (XI (XO (XI (XO (XI (XI (XO (XO (XI
    (XI (XO XH))))))))))))))), (Zpos XH)) :: ((((Zpos (XO (XO (XO (XI (XI (XO
    (XI (XI (XO (XO (XI (XI (XO XH)))))))))))))), (Zpos (XO (XO (XO (XI (XI
    (XO (XI (XI (XO (XO (XI (XI (XO XH))))))))))))))), (Zpos XH)) :: ((((Zpos
    (XO (XI (XO (XI (XI (XO (XI (XI (XO (XO (XI (XI (XO XH)))))))))))))),
    (Zpos (XO (XI (XO (XI (XI (XO (XI (XI (XO (XO (XI (XI (XO
    XH))))))))))))))), (Zpos XH)) :: ((((Zpos (XO (XO (XI (XI (XI (XO (XI (XI
    (XO (XO (XI (XI (XO XH)))))))))))))), (Zpos (XO (XO (XI (XI (XI (XO (XI
    (XI (XO (XO (XI (XI (XO XH))))))))))))))), (Zpos
    XH)) :: []))))))))))))))))))))))))) :: ((((Zpos (XO (XI (XI (XI (XI (XO
    (XI (XI (XO (XO (XI (XI (XO XH)))))))))))))), (Zpos (XO (XI (XO (XO (XO
    (XI (XI (XO (XO (XI (XI (XO (XO (XI (XO XH))))))))))))))))), ((((Zpos (XO
    (XI (XI (XI (XI (XO (XI (XI (XO (XO (XI (XI (XO XH)))))))))))))), (Zpos
    (XO (XI (XI (XI (XI (XO (XI (XI (XO (XO (XI (XI (XO XH))))))))))))))),
    (Zpos XH)) :: ((((Zpos (XO (XO (XO (XO (XO (XI (XI (XI (XO (XO (XI (XI
    (XO XH)))))))))))))), (Zpos (XO (XO (XO (XO (XO (XI (XI (XI (XO (XO (XI
    (XI (XO XH))))))))))))))), (Zpos XH)) :: ((((Zpos (XO (XI (XO (XO (XO (XI
    (XI (XI (XO (XO (XI (XI (XO XH)))))))))))))), (Zpos (XO (XI (XO (XO (XO
    (XI (XI (XI (XO (XO (XI (XI (XO XH))))))))))))))), (Zpos XH)) :: ((((Zpos
    (XI (XI (XO (XI (XO (XI (XI (XI (XO (XO (XI (XI (XO XH)))))))))))))),
    (Zpos (XI (XI (XO (XI (XO (XI (XI (XI (XO (XO (XI (XI (XO
    XH))))))))))))))), (Zpos XH)) :: ((((Zpos (XI (XO (XI (XI (XO (XI (XI (XI
    (XO (XO (XI (XI (XO XH)))))))))))))), (Zpos (XI (XO (XI (XI (XO (XI (XI
    (XI (XO (XO (XI (XI (XO XH))))))))))))))), (Zpos XH)) :: ((((Zpos (XO (XI
    (XO (XO (XI (XI (XI (XI (XO (XO (XI (XI (XO XH)))))))))))))), (Zpos (XO
    (XI (XO (XO (XI (XI (XI (XI (XO (XO (XI (XI (XO XH))))))))))))))), (Zpos
    XH)) :: ((((Zpos (XO (XO (XO (XO (XO (XO (XI (XO (XO (XI (XI (XO (XO (XI
    (XO XH)))))))))))))))), (Zpos (XO (XO (XO (XO (XO (XO (XI (XO (XO (XI (XI
    (XO (XO (XI (XO XH))))))))))))))))), (Zpos XH)) :: ((((Zpos (XO (XI (XO
    (XO (XO (XO (XI (XO (XO (XI (XI (XO (XO (XI (XO XH)))))))))))))))), (Zpos
    (XO (XI (XO (XO (XO (XO (XI (XO (XO (XI (XI (XO (XO (XI (XO
    XH))))))))))))))))), (Zpos XH)) :: ((((Zpos (XO (XO (XI (XO (XO (XO (XI
    (XO (XO (XI (XI (XO (XO (XI (XO XH)))))))))))))))), (Zpos (XO (XO (XI (XO
    (XO (XO (XI (XO (XO (XI (XI (XO (XO (XI (XO XH))))))))))))))))), (Zpos
    XH)) :: ((((Zpos (XO (XI (XI (XO (XO (XO (XI (XO (XO (XI (XI (XO (XO (XI
    (XO XH)))))))))))))))), (Zpos (XO (XI (XI (XO (XO (XO (XI (XO (XO (XI (XI
    (XO (XO (XI (XO XH))))))))))))))))), (Zpos XH)) :: ((((Zpos (XO (XO (XO
    (XI (XO (XO (XI (XO (XO (XI (XI (XO (XO (XI (XO XH)))))))))))))))), (Zpos
    (XO (XO (XO (XI (XO (XO (XI (XO (XO (XI (XI (XO (XO (XI (XO
    XH))))))))))))))))), (Zpos XH)) :: ((((Zpos (XO (XI (XO (XI (XO (XO (XI
    (XO (XO (XI (XI (XO (XO (XI (XO XH)))))))))))))))), (Zpos (XO (XI (XO (XI
    (XO (XO (XI (XO (XO (XI (XI (XO (XO (XI (XO XH))))))))))))))))), (Zpos
    XH)) :: ((((Zpos (XO (XO (XI (XI (XO (XO (XI (XO (XO (XI (XI (XO (XO (XI
    (XO XH)))))))))))))))), (Zpos (XO (XO (XI (XI (XO (XO (XI (XO (XO (XI (XI
    (XO (XO (XI (XO XH))))))))))))))))), (Zpos XH)) :: ((((Zpos (XO (XI (XI
    (XI (XO (XO (XI (XO (XO (XI (XI (XO (XO (XI (XO XH)))))))))))))))), (Zpos
    (XO (XI (XI (XI (XO (XO (XI (XO (XO (XI (XI (XO (XO (XI (XO
    XH))))))))))))))))), (Zpos XH)) :: ((((Zpos (XO (XO (XO (XO (XI (XO (XI
    (XO (XO (XI (XI (XO (XO (XI (XO XH)))))))))))))))), (Zpos (XO (XO (XO (XO
    (XI (XO (XI (XO (XO (XI (XI (XO (XO (XI (XO XH))))))))))))))))), (Zpos
    XH)) :: ((((Zpos (XO (XI (XO (XO (XI (XO (XI (XO (XO (XI (XI (XO (XO (XI
    (XO XH)))))))))))))))), (Zpos (XO (XI (XO (XO (XI (XO (XI (XO (XO (XI (XI
    (XO (XO (XI (XO XH))))))))))))))))), (Zpos XH)) :: ((((Zpos (XO (XO (XI
    (XO (XI (XO (XI (XO (XO (XI (XI (XO (XO (XI (XO XH)))))))))))))))), (Zpos
    (XO (XO (XI (XO (XI (XO (XI (XO (XO (XI (XI (XO (XO (XI (XO
    XH))))))))))))))))), (Zpos XH)) :: ((((Zpos (XO (XI (XI (XO (XI (XO (XI
    (XO (XO (XI (XI (XO (XO (XI (XO XH)))))))))))))))), (Zpos (XO (XI (XI (XO
    (XI (XO (XI (XO (XO (XI (XI (XO (XO (XI (XO XH))))))))))))))))), (Zpos
    XH)) :: ((((Zpos (XO (XO (XO (XI (XI (XO (XI (XO (XO (XI (XI (XO (XO (XI
    (XO XH)))))))))))))))), (Zpos (XO (XO (XO (XI (XI (XO (XI (XO (XO (XI (XI
    (XO (XO (XI (XO XH))))))))))))))))), (Zpos XH)) :: ((((Zpos (XO (XI (XO
    (XI (XI (XO (XI (XO (XO (XI (XI (XO (XO (XI (XO XH)))))))))))))))), (Zpos
    (XO (XI (XO (XI (XI (XO (XI (XO (XO (XI (XI (XO (XO (XI (XO
    XH))))))))))))))))), (Zpos XH)) :: ((((Zpos (XO (XO (XI (XI (XI (XO (XI
    (XO (XO (XI (XI (XO (XO (XI (XO XH)))))))))))))))), (Zpos (XO (XO (XI (XI
    (XI (XO (XI (XO (XO (XI (XI (XO (XO (XI (XO XH))))))))))))))))), (Zpos
    XH)) :: ((((Zpos (XO (XI (XI (XI (XI (XO (XI (XO (XO (XI (XI (XO (XO (XI
    (XO XH)))))))))))))))), (Zpos (XO (XI (XI (XI (XI (XO (XI (XO (XO (XI (XI
    (XO (XO (XI (XO XH))))))))))))))))), (Zpos XH)) :: ((((Zpos (XO (XO (XO
    (XO (XO (XI (XI (XO (XO (XI (XI (XO (XO (XI (XO XH)))))))))))))))), (Zpos
    (XO (XO (XO (XO (XO (XI (XI (XO (XO (XI (XI (XO (XO (XI (XO
    XH))))))))))))))))), (Zpos XH)) :: ((((Zpos (XO (XI (XO (XO (XO (XI (XI
    (XO (XO (XI (XI (XO (XO (XI (XO XH)))))))))))))))), (Zpos (XO (XI (XO (XO
    (XO (XI (XI (XO (XO (XI (XI (XO (XO (XI (XO XH))))))))))))))))), (Zpos
    XH)) :: []))))))))))))))))))))))))) :: ((((Zpos (XO (XO (XI (XO (XO (XI
    (XI (XO (XO (XI (XI (XO (XO (XI (XO XH)))))))))))))))), (Zpos (XO (XI (XO
    (XI (XO (XI (XO (XO (XI (XI (XI (XO (XO (XI (XO XH))))))))))))))))),
    ((((Zpos (XO (XO (XI (XO (XO (XI (XI (XO (XO (XI (XI (XO (XO (XI (XO
    XH)))))))))))))))), (Zpos (XO (XO (XI (XO (XO (XI (XI (XO (XO (XI (XI (XO
    (XO (XI (XO XH))))))))))))))))), (Zpos XH)) :: ((((Zpos (XO (XI (XI (XO
    (XO (XI (XI (XO (XO (XI (XI (XO (XO (XI (XO XH)))))))))))))))), (Zpos (XO
    (XI (XI (XO (XO (XI (XI (XO (XO (XI (XI (XO (XO (XI (XO
    XH))))))))))))))))), (Zpos XH)) :: ((((Zpos (XO (XO (XO (XI (XO (XI (XI
    (XO (XO (XI (XI (XO (XO (XI (XO XH)))))))))))))))), (Zpos (XO (XO (XO (XI
    (XO (XI (XI (XO (XO (XI (XI (XO (XO (XI (XO XH))))))))))))))))), (Zpos
    XH)) :: ((((Zpos (XO (XI (XO (XI (XO (XI (XI (XO (XO (XI (XI (XO (XO (XI
    (XO XH)))))))))))))))), (Zpos (XO (XI (XO (XI (XO (XI (XI (XO (XO (XI (XI
    (XO (XO (XI (XO XH))))))))))))))))), (Zpos XH)) :: ((((Zpos (XO (XO (XI
    (XI (XO (XI (XI (XO (XO (XI (XI (XO (XO (XI (XO XH)))))))))))))))), (Zpos
    (XO (XO (XI (XI (XO (XI (XI (XO (XO (XI (XI (XO (XO (XI (XO
    XH))))))))))))))))), (Zpos XH)) :: ((((Zpos (XO (XO (XO (XO (XO (XO (XO
    (XI (XO (XI (XI (XO (XO (XI (XO XH)))))))))))))))), (Zpos (XO (XO (XO (XO
    (XO (XO (XO (XI (XO (XI (XI (XO (XO (XI (XO XH))))))))))))))))), (Zpos
    XH)) :: ((((Zpos (XO (XI (XO (XO (XO (XO (XO (XI (XO (XI (XI (XO (XO (XI
    (XO XH)))))))))))))))), (Zpos (XO (XI (XO (XO (XO (XO (XO (XI (XO (XI (XI
    (XO (XO (XI (XO XH))))))))))))))))), (Zpos XH)) :: ((((Zpos (XO (XO (XI
    (XO (XO (XO (XO (XI (XO (XI (XI (XO (XO (XI (XO XH)))))))))))))))), (Zpos
    (XO (XO (XI (XO (XO (XO (XO (XI (XO (XI (XI (XO (XO (XI (XO
    XH))))))))))))))))), (Zpos XH)) :: ((((Zpos (XO (XI (XI (XO (XO (XO (XO
    (XI (XO (XI (XI (XO (XO (XI (XO XH)))))))))))))))), (Zpos (XO (XI (XI (XO
    (XO (XO (XO (XI (XO (XI (XI (XO (XO (XI (XO XH))))))))))))))))), (Zpos
    XH)) :: ((((Zpos (XO (XO (XO (XI (XO (XO (XO (XI (XO (XI (XI (XO (XO (XI
    (XO XH)))))))))))))))), (Zpos (XO (XO (XO (XI (XO (XO (XO (XI (XO (XI (XI
    (XO (XO (XI (XO XH))))))))))))))))), (Zpos XH)) :: ((((Zpos (XO (XI (XO
    (XI (XO (XO (XO (XI (XO (XI (XI (XO (XO (XI (XO XH)))))))))))))))), (Zpos
    (XO (XI (XO (XI (XO (XO (XO (XI (XO (XI (XI (XO (XO (XI (XO
    XH))))))))))))))))), (Zpos XH)) :: ((((Zpos (XO (XO (XI (XI (XO (XO (XO
    (XI (XO (XI (XI (XO (XO (XI (XO XH)))))))))))))))), (Zpos (XO (XO (XI (XI
    (XO (XO (XO (XI (XO (XI (XI (XO (XO (XI (XO XH))))))))))))))))), (Zpos
    XH)) :: ((((Zpos (XO (XI (XI (XI (XO (XO (XO (XI (XO (XI (XI (XO (XO (XI
    (XO XH)))))))))))))))), (Zpos (XO (XI (XI (XI (XO (XO (XO (XI (XO (XI (XI
    (XO (XO (XI (XO XH))))))))))))))))), (Zpos XH)) :: ((((Zpos (XO (XO (XO
    (XO (XI (XO (XO (XI (XO (XI (XI (XO (XO (XI (XO XH)))))))))))))))), (Zpos
    (XO (XO (XO (XO (XI (XO (XO (XI (XO (XI (XI (XO (XO (XI (XO
    XH))))))))))))))))), (Zpos XH)) :: ((((Zpos (XO (XI (XO (XO (XI (XO (XO
    (XI (XO (XI (XI (XO (XO (XI (XO XH)))))))))))))))), (Zpos (XO (XI (XO (XO
    (XI (XO (XO (XI (XO (XI (XI (XO (XO (XI (XO XH))))))))))))))))), (Zpos
    XH)) :: ((((Zpos (XO (XO (XI (XO (XI (XO (XO (XI (XO (XI (XI (XO (XO (XI
    (XO XH)))))))))))))))), (Zpos (XO (XO (XI (XO (XI (XO (XO (XI (XO (XI (XI
    (XO (XO (XI (XO XH))))))))))))))))), (Zpos XH)) :: ((((Zpos (XO (XI (XI
    (XO (XI (XO (XO (XI (XO (XI (XI (XO (XO (XI (XO XH)))))))))))))))), (Zpos
    (XO (XI (XI (XO (XI (XO (XO (XI (XO (XI (XI (XO (XO (XI (XO
    XH))))))))))))))))), (Zpos XH)) :: ((((Zpos (XO (XO (XO (XI (XI (XO (XO
    (XI (XO (XI (XI (XO (XO (XI (XO XH)))))))))))))))), (Zpos (XO (XO (XO (XI
    (XI (XO (XO (XI (XO (XI (XI (XO (XO (XI (XO XH))))))))))))))))), (Zpos
    XH)) :: ((((Zpos (XO (XI (XO (XI (XI (XO (XO (XI (XO (XI (XI (XO (XO (XI
    (XO XH)))))))))))))))), (Zpos (XO (XI (XO (XI (XI (XO (XO (XI (XO (XI (XI
    (XO (XO (XI (XO XH))))))))))))))))), (Zpos XH)) :: ((((Zpos (XO (XI (XO
    (XO (XO (XI (XO (XO (XI (XI (XI (XO (XO (XI (XO XH)))))))))))))))), (Zpos
    (XO (XI (XO (XO (XO (XI (XO (XO (XI (XI (XI (XO (XO (XI (XO
    XH))))))))))))))))), (Zpos XH)) :: ((((Zpos (XO (XO (XI (XO (XO (XI (XO
    (XO (XI (XI (XI (XO (XO (XI (XO XH)))))))))))))))), (Zpos (XO (XO (XI (XO
    (XO (XI (XO (XO (XI (XI (XI (XO (XO (XI (XO XH))))))))))))))))), (Zpos
    XH)) :: ((((Zpos (XO (XI (XI (XO (XO (XI (XO (XO (XI (XI (XI (XO (XO (XI
    (XO XH)))))))))))))))), (Zpos (XO (XI (XI (XO (XO (XI (XO (XO (XI (XI (XI
    (XO (XO (XI (XO XH))))))))))))))))), (Zpos XH)) :: ((((Zpos (XO (XO (XO
    (XI (XO (XI (XO (XO (XI (XI (XI (XO (XO (XI (XO XH)))))))))))))))), (Zpos
    (XO (XO (XO (XI (XO (XI (XO (XO (XI (XI (XI (XO (XO (XI (XO
    XH))))))))))))))))), (Zpos XH)) :: ((((Zpos (XO (XI (XO (XI (XO (XI (XO
    (XO (XI (XI (XI (XO (XO (XI (XO XH)))))))))))))))), (Zpos (XO (XI (XO (XI
    (XO (XI (XO (XO (XI (XI (XI (XO (XO (XI (XO XH))))))))))))))))), (Zpos
    XH)) :: []))))))))))))))))))))))))) :: ((((Zpos (XO (XO (XI (XI (XO (XI
    (XO (XO (XI (XI (XI (XO (XO (XI (XO XH)))))))))))))))), (Zpos (XO (XO (XI
    (XI (XI (XO (XI (XO (XI (XI (XI (XO (XO (XI (XO XH))))))))))))))))),
    ((((Zpos (XO (XO (XI (XI (XO (XI (XO (XO (XI (XI (XI (XO (XO (XI (XO
    XH)))))))))))))))), (Zpos (XO (XO (XI (XI (XO (XI (XO (XO (XI (XI (XI (XO
    (XO (XI (XO XH))))))))))))))))), (Zpos XH)) :: ((((Zpos (XO (XI (XI (XI
    (XO (XI (XO (XO (XI (XI (XI (XO (XO (XI (XO XH)))))))))))))))), (Zpos (XO
    (XI (XI (XI (XO (XI (XO (XO (XI (XI (XI (XO (XO (XI (XO
    XH))))))))))))))))), (Zpos XH)) :: ((((Zpos (XO (XI (XO (XO (XI (XI (XO
    (XO (XI (XI (XI (XO (XO (XI (XO XH)))))))))))))))), (Zpos (XO (XI (XO (XO
    (XI (XI (XO (XO (XI (XI (XI (XO (XO (XI (XO XH))))))))))))))))), (Zpos
    XH)) :: ((((Zpos (XO (XO (XI (XO (XI (XI (XO (XO (XI (XI (XI (XO (XO (XI
    (XO XH)))))))))))))))), (Zpos (XO (XO (XI (XO (XI (XI (XO (XO (XI (XI (XI
    (XO (XO (XI (XO XH))))))))))))))))), (Zpos XH)) :: ((((Zpos (XO (XI (XI
    (XO (XI (XI (XO (XO (XI (XI (XI (XO (XO (XI (XO XH)))))))))))))))), (Zpos
    (XO (XI (XI (XO (XI (XI (XO (XO (XI (XI (XI (XO (XO (XI (XO
    XH))))))))))))))))), (Zpos XH)) :: ((((Zpos (XO (XO (XO (XI (XI (XI (XO
    (XO (XI (XI (XI (XO (XO (XI (XO XH)))))))))))))))), (Zpos (XO (XO (XO (XI
    (XI (XI (XO (XO (XI (XI (XI (XO (XO (XI (XO XH))))))))))))))))), (Zpos
    XH)) :: ((((Zpos (XO (XI (XO (XI (XI (XI (XO (XO (XI (XI (XI (XO (XO (XI
    (XO XH)))))))))))))))), (Zpos (XO (XI (XO (XI (XI (XI (XO (XO (XI (XI (XI
    (XO (XO (XI (XO XH))))))))))))))))), (Zpos XH)) :: ((((Zpos (XO (XO (XI
    (XI (XI (XI (XO (XO (XI (XI (XI (XO (XO (XI (XO XH)))))))))))))))), (Zpos
    (XO (XO (XI (XI (XI (XI (XO (XO (XI (XI (XI (XO (XO (XI (XO
    XH))))))))))))))))), (Zpos XH)) :: ((((Zpos (XO (XI (XI (XI (XI (XI (XO
    (XO (XI (XI (XI (XO (XO (XI (XO XH)))))))))))))))), (Zpos (XO (XI (XI (XI
    (XI (XI (XO (XO (XI (XI (XI (XO (XO (XI (XO XH))))))))))))))))), (Zpos
    XH)) :: ((((Zpos (XO (XO (XO (XO (XO (XO (XI (XO (XI (XI (XI (XO (XO (XI
    (XO XH)))))))))))))))), (Zpos (XO (XO (XO (XO (XO (XO (XI (XO (XI (XI (XI
    (XO (XO (XI (XO XH))))))))))))))))), (Zpos XH)) :: ((((Zpos (XO (XI (XO
    (XO (XO (XO (XI (XO (XI (XI (XI (XO (XO (XI (XO XH)))))))))))))))), (Zpos
    (XO (XI (XO (XO (XO (XO (XI (XO (XI (XI (XI (XO (XO (XI (XO
    XH))))))))))))))))), (Zpos XH)) :: ((((Zpos (XO (XO (XI (XO (XO (XO (XI
    (XO (XI (XI (XI (XO (XO (XI (XO XH)))))))))))))))), (Zpos (XO (XO (XI (XO
    (XO (XO (XI (XO (XI (XI (XI (XO (XO (XI (XO XH))))))))))))))))), (Zpos
    XH)) :: ((((Zpos (XO (XI (XI (XO (XO (XO (XI (XO (XI (XI (XI (XO (XO (XI
    (XO XH)))))))))))))))), (Zpos (XO (XI (XI (XO (XO (XO (XI (XO (XI (XI (XI
    (XO (XO (XI (XO XH))))))))))))))))), (Zpos XH)) :: ((((Zpos (XO (XO (XO
    (XI (XO (XO (XI (XO (XI (XI (XI (XO (XO (XI (XO XH)))))))))))))))), (Zpos
    (XO (XO (XO (XI (XO (XO (XI (XO (XI (XI (XI (XO (XO (XI (XO
    XH))))))))))))))))), (Zpos XH)) :: ((((Zpos (XO (XI (XO (XI (XO (XO (XI
    (XO (XI (XI (XI (XO (XO (XI (XO XH)))))))))))))))), (Zpos (XO (XI (XO (XI
    (XO (XO (XI (XO (XI (XI (XI (XO (XO (XI (XO XH))))))))))))))))), (Zpos
    XH)) :: ((((Zpos (XO (XO (XI (XI (XO (XO (XI (XO (XI (XI (XI (XO (XO (XI
    (XO XH)))))))))))))))), (Zpos (XO (XO (XI (XI (XO (XO (XI (XO (XI (XI (XI
    (XO (XO (XI (XO XH))))))))))))))))), (Zpos XH)) :: ((((Zpos (XO (XI (XI
    (XI (XO (XO (XI (XO (XI (XI (XI (XO (XO (XI (XO XH)))))))))))))))), (Zpos
    (XO (XI (XI (XI (XO (XO (XI (XO (XI (XI (XI (XO (XO (XI (XO
    XH))))))))))))))))), (Zpos XH)) :: ((((Zpos (XO (XO (XO (XO (XI (XO (XI
    (XO (XI (XI (XI (XO (XO (XI (XO XH)))))))))))))))), (Zpos (XO (XO (XO (XO
    (XI (XO (XI (XO (XI (XI (XI (XO (XO (XI (XO XH))))))))))))))))), (Zpos
    XH)) :: ((((Zpos (XO (XI (XO (XO (XI (XO (XI (XO (XI (XI (XI (XO (XO (XI
    (XO XH)))))))))))))))), (Zpos (XO (XI (XO (XO (XI (XO (XI (XO (XI (XI (XI
    (XO (XO (XI (XO XH))))))))))))))))), (Zpos XH)) :: ((((Zpos (XO (XO (XI
    (XO (XI (XO (XI (XO (XI (XI (XI (XO (XO (XI (XO XH)))))))))))))))), (Zpos
    (XO (XO (XI (XO (XI (XO (XI (XO (XI (XI (XI (XO (XO (XI (XO
    XH))))))))))))))))), (Zpos XH)) :: ((((Zpos (XO (XI (XI (XO (XI (XO (XI
    (XO (XI (XI (XI (XO (XO (XI (XO XH)))))))))))))))), (Zpos (XO (XI (XI (XO
    (XI (XO (XI (XO (XI (XI (XI (XO (XO (XI (XO XH))))))))))))))))), (Zpos
    XH)) :: ((((Zpos (XO (XO (XO (XI (XI (XO (XI (XO (XI (XI (XI (XO (XO (XI
    (XO XH)))))))))))))))), (Zpos (XO (XO (XO (XI (XI (XO (XI (XO (XI (XI (XI
    (XO (XO (XI (XO XH))))))))))))))))), (Zpos XH)) :: ((((Zpos (XO (XI (XO
    (XI (XI (XO (XI (XO (XI (XI (XI (XO (XO (XI (XO XH)))))))))))))))), (Zpos
    (XO (XI (XO (XI (XI (XO (XI (XO (XI (XI (XI (XO (XO (XI (XO
    XH))))))))))))))))), (Zpos XH)) :: ((((Zpos (XO (XO (XI (XI (XI (XO (XI
    (XO (XI (XI (XI (XO (XO (XI (XO XH)))))))))))))))), (Zpos (XO (XO (XI (XI
    (XI (XO (XI (XO (XI (XI (XI (XO (XO (XI (XO XH))))))))))))))))), (Zpos
    XH)) :: []))))))))))))))))))))))))) :: ((((Zpos (XO (XI (XI (XI (XI (XO
    (XI (XO (XI (XI (XI (XO (XO (XI (XO XH)))))))))))))))), (Zpos (XO (XI (XO
    (XI (XI (XO (XO (XI (XI (XI (XI (XO (XO (XI (XO XH))))))))))))))))),
    ((((Zpos (XO (XI (XI (XI (XI (XO (XI (XO (XI (XI (XI (XO (XO (XI (XO
    XH)))))))))))))))), (Zpos (XO (XI (XI (XI (XI (XO (XI (XO (XI (XI (XI (XO
    (XO (XI (XO XH))))))))))))))))), (Zpos XH)) :: ((((Zpos (XO (XO (XO (XO
    (XO (XI (XI (XO (XI (XI (XI (XO (XO (XI (XO XH)))))))))))))))), (Zpos (XO
    (XO (XO (XO (XO (XI (XI (XO (XI (XI (XI (XO (XO (XI (XO
    XH))))))))))))))))), (Zpos XH)) :: ((((Zpos (XO (XI (XO (XO (XO (XI (XI
    (XO (XI (XI (XI (XO (XO (XI (XO XH)))))))))))))))), (Zpos (XO (XI (XO (XO
    (XO (XI (XI (XO (XI (XI (XI (XO (XO (XI (XO XH))))))))))))))))), (Zpos
    XH)) :: ((((Zpos (XO (XO (XI (XO (XO (XI (XI (XO (XI (XI (XI (XO (XO (XI
    (XO XH)))))))))))))))), (Zpos (XO (XO (XI (XO (XO (XI (XI (XO (XI (XI (XI
    (XO (XO (XI (XO XH))))))))))))))))), (Zpos XH)) :: ((((Zpos (XO (XI (XI
    (XO (XO (XI (XI (XO (XI (XI (XI (XO (XO (XI (XO XH)))))))))))))))), (Zpos
    (XO (XI (XI (XO (XO (XI (XI (XO (XI (XI (XI (XO (XO (XI (XO
    XH))))))))))))))))), (Zpos XH)) :: ((((Zpos (XO (XO (XO (XI (XO (XI (XI
    (XO (XI (XI (XI (XO (XO (XI (XO XH)))))))))))))))), (Zpos (XO (XO (XO (XI
    (XO (XI (XI (XO (XI (XI (XI (XO (XO (XI (XO XH))))))))))))))))), (Zpos
    XH)) :: ((((Zpos (XO (XI (XO (XI (XO (XI (XI (XO (XI (XI (XI (XO (XO (XI
    (XO XH)))))))))))))))), (Zpos (XO (XI (XO (XI (XO (XI (XI (XO (XI (XI (XI
    (XO (XO (XI (XO XH))))))))))))))))), (Zpos XH)) :: ((((Zpos (XO (XO (XI
    (XI (XO (XI (XI (XO (XI (XI (XI (XO (XO (XI (XO XH)))))))))))))))), (Zpos
    (XO (XO (XI (XI (XO (XI (XI (XO (XI (XI (XI (XO (XO (XI (XO
    XH))))))))))))))))), (Zpos XH)) :: ((((Zpos (XO (XI (XI (XI (XO (XI (XI
    (XO (XI (XI (XI (XO (XO (XI (XO XH)))))))))))))))), (Zpos (XO (XI (XI (XI
    (XO (XI (XI (XO (XI (XI (XI (XO (XO (XI (XO XH))))))))))))))))), (Zpos
    XH)) :: ((((Zpos (XI (XO (XO (XI (XI (XI (XI (XO (XI (XI (XI (XO (XO (XI
    (XO XH)))))))))))))))), (Zpos (XI (XO (XO (XI (XI (XI (XI (XO (XI (XI (XI
    (XO (XO (XI (XO XH))))))))))))))))), (Zpos XH)) :: ((((Zpos (XI (XI (XO
    (XI (XI (XI (XI (XO (XI (XI (XI (XO (XO (XI (XO XH)))))))))))))))), (Zpos
    (XI (XI (XO (XI (XI (XI (XI (XO (XI (XI (XI (XO (XO (XI (XO
    XH))))))))))))))))), (Zpos XH)) :: ((((Zpos (XI (XO (XI (XI (XI (XI (XI
    (XO (XI (XI (XI (XO (XO (XI (XO XH)))))))))))))))), (Zpos (XI (XO (XI (XI
    (XI (XI (XI (XO (XI (XI (XI (XO (XO (XI (XO XH))))))))))))))))), (Zneg
    (XO (XO (XI (XO (XO (XO (XO (XO (XO (XI (XO (XI (XO (XO (XO
    XH))))))))))))))))) :: ((((Zpos (XO (XI (XI (XI (XI (XI (XI (XO (XI (XI
    (XI (XO (XO (XI (XO XH)))))))))))))))), (Zpos (XO (XI (XI (XI (XI (XI (XI
    (XO (XI (XI (XI (XO (XO (XI (XO XH))))))))))))))))), (Zpos
    XH)) :: ((((Zpos (XO (XO (XO (XO (XO (XO (XO (XI (XI (XI (XI (XO (XO (XI
    (XO XH)))))))))))))))), (Zpos (XO (XO (XO (XO (XO (XO (XO (XI (XI (XI (XI
    (XO (XO (XI (XO XH))))))))))))))))), (Zpos XH)) :: ((((Zpos (XO (XI (XO
    (XO (XO (XO (XO (XI (XI (XI (XI (XO (XO (XI (XO XH)))))))))))))))), (Zpos
    (XO (XI (XO (XO (XO (XO (XO (XI (XI (XI (XI (XO (XO (XI (XO
    XH))))))))))))))))), (Zpos XH)) :: ((((Zpos (XO (XO (XI (XO (XO (XO (XO
    (XI (XI (XI (XI (XO (XO (XI (XO XH)))))))))))))))), (Zpos (XO (XO (XI (XO
    (XO (XO (XO (XI (XI (XI (XI (XO (XO (XI (XO XH))))))))))))))))), (Zpos
    XH)) :: ((((Zpos (XO (XI (XI (XO (XO (XO (XO (XI (XI (XI (XI (XO (XO (XI
    (XO XH)))))))))))))))), (Zpos (XO (XI (XI (XO (XO (XO (XO (XI (XI (XI (XI
    (XO (XO (XI (XO XH))))))))))))))))), (Zpos XH)) :: ((((Zpos (XI (XI (XO
    (XI (XO (XO (XO (XI (XI (XI (XI (XO (XO (XI (XO XH)))))))))))))))), (Zpos
    (XI (XI (XO (XI (XO (XO (XO (XI (XI (XI (XI (XO (XO (XI (XO
    XH))))))))))))))))), (Zpos XH)) :: ((((Zpos (XI (XO (XI (XI (XO (XO (XO
    (XI (XI (XI (XI (XO (XO (XI (XO XH)))))))))))))))), (Zpos (XI (XO (XI (XI
    (XO (XO (XO (XI (XI (XI (XI (XO (XO (XI (XO XH))))))))))))))))), (Zneg
    (XO (XO (XO (XI (XO (XI (XO (XO (XI (XO (XI (XO (XO (XI (XO
    XH))))))))))))))))) :: ((((Zpos (XO (XO (XO (XO (XI (XO (XO (XI (XI (XI
    (XI (XO (XO (XI (XO XH)))))))))))))))), (Zpos (XO (XO (XO (XO (XI (XO (XO
    (XI (XI (XI (XI (XO (XO (XI (XO XH))))))))))))))))), (Zpos
    XH)) :: ((((Zpos (XO (XI (XO (XO (XI (XO (XO (XI (XI (XI (XI (XO (XO (XI
    (XO XH)))))))))))))))), (Zpos (XO (XI (XO (XO (XI (XO (XO (XI (XI (XI (XI
    (XO (XO (XI (XO XH))))))))))))))))), (Zpos XH)) :: ((((Zpos (XO (XI (XI
    (XO (XI (XO (XO (XI (XI (XI (XI (XO (XO (XI (XO XH)))))))))))))))), (Zpos
    (XO (XI (XI (XO (XI (XO (XO (XI (XI (XI (XI (XO (XO (XI (XO
    XH))))))))))))))))), (Zpos XH)) :: ((((Zpos (XO (XO (XO (XI (XI (XO (XO
    (XI (XI (XI (XI (XO (XO (XI (XO XH)))))))))))))))), (Zpos (XO (XO (XO (XI
    (XI (XO (XO (XI (XI (XI (XI (XO (XO (XI (XO XH))))))))))))))))), (Zpos
    XH)) :: ((((Zpos (XO (XI (XO (XI (XI (XO (XO (XI (XI (XI (XI (XO (XO (XI
    (XO XH)))))))))))))))), (Zpos (XO (XI (XO (XI (XI (XO (XO (XI (XI (XI (XI
    (XO (XO (XI (XO XH))))))))))))))))), (Zpos
    XH)) :: []))))))))))))))))))))))))) :: ((((Zpos (XO (XO (XI (XI (XI (XO
    (XO (XI (XI (XI (XI (XO (XO (XI (XO XH)))))))))))))))), (Zpos (XO (XI (XO
    (XO (XO (XO (XI (XI (XI (XI (XI (XO (XO (XI (XO XH))))))))))))))))),
    ((((Zpos (XO (XO (XI (XI (XI (XO (XO (XI (XI (XI (XI (XO (XO (XI (XO
    XH)))))))))))))))), (Zpos (XO (XO (XI (XI (XI (XO (XO (XI (XI (XI (XI (XO
    (XO (XI (XO XH))))))))))))))))), (Zpos XH)) :: ((((Zpos (XO (XI (XI (XI
    (XI (XO (XO (XI (XI (XI (XI (XO (XO (XI (XO XH)))))))))))))))), (Zpos (XO
    (XI (XI (XI (XI (XO (XO (XI (XI (XI (XI (XO (XO (XI (XO
    XH))))))))))))))))), (Zpos XH)) :: ((((Zpos (XO (XO (XO (XO (XO (XI (XO
    (XI (XI (XI (XI (XO (XO (XI (XO XH)))))))))))))))), (Zpos (XO (XO (XO (XO
    (XO (XI (XO (XI (XI (XI (XI (XO (XO (XI (XO XH))))))))))))))))), (Zpos
    XH)) :: ((((Zpos (XO (XI (XO (XO (XO (XI (XO (XI (XI (XI (XI (XO (XO (XI
    (XO XH)))))))))))))))), (Zpos (XO (XI (XO (XO (XO (XI (XO (XI (XI (XI (XI
    (XO (XO (XI (XO XH))))))))))))))))), (Zpos XH)) :: ((((Zpos (XO (XO (XI
    (XO (XO (XI (XO (XI (XI (XI (XI (XO (XO (XI (XO XH)))))))))))))))), (Zpos
    (XO (XO (XI (XO (XO (XI (XO (XI (XI (XI (XI (XO (XO (XI (XO
    XH))))))))))))))))), (Zpos XH)) :: ((((Zpos (XO (XI (XI (XO (XO (XI (XO
    (XI (XI (XI (XI (XO (XO (XI (XO XH)))))))))))))))), (Zpos (XO (XI (XI (XO
    (XO (XI (XO (XI (XI (XI (XI (XO (XO (XI (XO XH))))))))))))))))), (Zpos
    XH)) :: ((((Zpos (XO (XO (XO (XI (XO (XI (XO (XI (XI (XI (XI (XO (XO (XI
    (XO XH)))))))))))))))), (Zpos (XO (XO (XO (XI (XO (XI (XO (XI (XI (XI (XI
    (XO (XO (XI (XO XH))))))))))))))))), (Zpos XH)) :: ((((Zpos (XO (XI (XO
    (XI (XO (XI (XO (XI (XI (XI (XI (XO (XO (XI (XO XH)))))))))))))))), (Zpos
    (XO (XI (XO (XI (XO (XI (XO (XI (XI (XI (XI (XO (XO (XI (XO
    XH))))))))))))))))), (Zneg (XO (XO (XI (XO (XO (XO (XI (XO (XI (XO (XI
    (XO (XO (XI (XO XH))))))))))))))))) :: ((((Zpos (XI (XI (XO (XI (XO (XI
    (XO (XI (XI (XI (XI (XO (XO (XI (XO XH)))))))))))))))), (Zpos (XI (XI (XO
    (XI (XO (XI (XO (XI (XI (XI (XI (XO (XO (XI (XO XH))))))))))))))))),
    (Zneg (XI (XI (XI (XI (XO (XO (XI (XO (XI (XO (XI (XO (XO (XI (XO
    XH))))))))))))))))) :: ((((Zpos (XO (XO (XI (XI (XO (XI (XO (XI (XI (XI
    (XI (XO (XO (XI (XO XH)))))))))))))))), (Zpos (XO (XO (XI (XI (XO (XI (XO
    (XI (XI (XI (XI (XO (XO (XI (XO XH))))))))))))))))), (Zneg (XI (XI (XO
    (XI (XO (XO (XI (XO (XI (XO (XI (XO (XO (XI (XO
    XH))))))))))))))))) :: ((((Zpos (XI (XO (XI (XI (XO (XI (XO (XI (XI (XI
    (XI (XO (XO (XI (XO XH)))))))))))))))), (Zpos (XI (XO (XI (XI (XO (XI (XO
    (XI (XI (XI (XI (XO (XO (XI (XO XH))))))))))))))))), (Zneg (XI (XO (XO
    (XO (XO (XO (XI (XO (XI (XO (XI (XO (XO (XI (XO
    XH))))))))))))))))) :: ((((Zpos (XO (XI (XI (XI (XO (XI (XO (XI (XI (XI
    (XI (XO (XO (XI (XO XH)))))))))))))))), (Zpos (XO (XI (XI (XI (XO (XI (XO
    (XI (XI (XI (XI (XO (XO (XI (XO XH))))))))))))))))), (Zneg (XO (XO (XI
    (XO (XO (XO (XI (XO (XI (XO (XI (XO (XO (XI (XO
    XH))))))))))))))))) :: ((((Zpos (XO (XO (XO (XO (XI (XI (XO (XI (XI (XI
    (XI (XO (XO (XI (XO XH)))))))))))))))), (Zpos (XO (XO (XO (XO (XI (XI (XO
    (XI (XI (XI (XI (XO (XO (XI (XO XH))))))))))))))))), (Zneg (XO (XI (XO
    (XO (XI (XO (XO (XO (XI (XO (XI (XO (XO (XI (XO
    XH))))))))))))))))) :: ((((Zpos (XI (XO (XO (XO (XI (XI (XO (XI (XI (XI
    (XI (XO (XO (XI (XO XH)))))))))))))))), (Zpos (XI (XO (XO (XO (XI (XI (XO
    (XI (XI (XI (XI (XO (XO (XI (XO XH))))))))))))))))), (Zneg (XO (XI (XO
    (XI (XO (XI (XO (XO (XI (XO (XI (XO (XO (XI (XO
    XH))))))))))))))))) :: ((((Zpos (XO (XI (XO (XO (XI (XI (XO (XI (XI (XI
    (XI (XO (XO (XI (XO XH)))))))))))))))), (Zpos (XO (XI (XO (XO (XI (XI (XO
    (XI (XI (XI (XI (XO (XO (XI (XO XH))))))))))))))))), (Zneg (XI (XO (XI
    (XO (XI (XO (XO (XO (XI (XO (XI (XO (XO (XI (XO
    XH))))))))))))))))) :: ((((Zpos (XI (XI (XO (XO (XI (XI (XO (XI (XI (XI
    (XI (XO (XO (XI (XO XH)))))))))))))))), (Zpos (XI (XI (XO (XO (XI (XI (XO
    (XI (XI (XI (XI (XO (XO (XI (XO XH))))))))))))))))), (Zpos (XO (XO (XO
    (XO (XO (XI (XO (XI (XI XH))))))))))) :: ((((Zpos (XO (XO (XI (XO (XI (XI
    (XO (XI (XI (XI (XI (XO (XO (XI (XO XH)))))))))))))))), (Zpos (XO (XO (XI
    (XO (XI (XI (XO (XI (XI (XI (XI (XO (XO (XI (XO XH))))))))))))))))),
    (Zpos XH)) :: ((((Zpos (XO (XI (XI (XO (XI (XI (XO (XI (XI (XI (XI (XO
    (XO (XI (XO XH)))))))))))))))), (Zpos (XO (XI (XI (XO (XI (XI (XO (XI (XI
    (XI (XI (XO (XO (XI (XO XH))))))))))))))))), (Zpos XH)) :: ((((Zpos (XO
    (XO (XO (XI (XI (XI (XO (XI (XI (XI (XI (XO (XO (XI (XO
    XH)))))))))))))))), (Zpos (XO (XO (XO (XI (XI (XI (XO (XI (XI (XI (XI (XO
    (XO (XI (XO XH))))))))))))))))), (Zpos XH)) :: ((((Zpos (XO (XI (XO (XI
    (XI (XI (XO (XI (XI (XI (XI (XO (XO (XI (XO XH)))))))))))))))), (Zpos (XO
    (XI (XO (XI (XI (XI (XO (XI (XI (XI (XI (XO (XO (XI (XO
    XH))))))))))))))))), (Zpos XH)) :: ((((Zpos (XO (XO (XI (XI (XI (XI (XO
    (XI (XI (XI (XI (XO (XO (XI (XO XH)))))))))))))))), (Zpos (XO (XO (XI (XI
    (XI (XI (XO (XI (XI (XI (XI (XO (XO (XI (XO XH))))))))))))))))), (Zpos
    XH)) :: ((((Zpos (XO (XI (XI (XI (XI (XI (XO (XI (XI (XI (XI (XO (XO (XI
    (XO XH)))))))))))))))), (Zpos (XO (XI (XI (XI (XI (XI (XO (XI (XI (XI (XI
    (XO (XO (XI (XO XH))))))))))))))))), (Zpos XH)) :: ((((Zpos (XO (XO (XO
    (XO (XO (XO (XI (XI (XI (XI (XI (XO (XO (XI (XO XH)))))))))))))))), (Zpos
    (XO (XO (XO (XO (XO (XO (XI (XI (XI (XI (XI (XO (XO (XI (XO
    XH))))))))))))))))), (Zpos XH)) :: ((((Zpos (XO (XI (XO (XO (XO (XO (XI
    (XI (XI (XI (XI (XO (XO (XI (XO XH)))))))))))))))), (Zpos (XO (XI (XO (XO
    (XO (XO (XI (XI (XI (XI (XI (XO (XO (XI (XO XH))))))))))))))))), (Zpos
    XH)) :: []))))))))))))))))))))))))) :: ((((Zpos (XO (XO (XI (XO (XO (XO
    (XI (XI (XI (XI (XI (XO (XO (XI (XO XH)))))))))))))))), (Zpos (XI (XO (XO
    (XO (XO (XI (XO (XO (XI (XO (XO (XI (XO (XI (XI (XI XH)))))))))))))))))),
    ((((Zpos (XO (XO (XI (XO (XO (XO (XI (XI (XI (XI (XI (XO (XO (XI (XO
    XH)))))))))))))))), (Zpos (XO (XO (XI (XO (XO (XO (XI (XI (XI (XI (XI (XO
    (XO (XI (XO XH))))))))))))))))), (Zneg (XO (XO (XO (XO (XI
    XH))))))) :: ((((Zpos (XI (XO (XI (XO (XO (XO (XI (XI (XI (XI (XI (XO (XO
    (XI (XO XH)))))))))))))))), (Zpos (XI (XO (XI (XO (XO (XO (XI (XI (XI (XI
    (XI (XO (XO (XI (XO XH))))))))))))))))), (Zneg (XI (XI (XO (XO (XO (XO
    (XI (XO (XI (XO (XI (XO (XO (XI (XO XH))))))))))))))))) :: ((((Zpos (XO
    (XI (XI (XO (XO (XO (XI (XI (XI (XI (XI (XO (XO (XI (XO
    XH)))))))))))))))), (Zpos (XO (XI (XI (XO (XO (XO (XI (XI (XI (XI (XI (XO
    (XO (XI (XO XH))))))))))))))))), (Zneg (XO (XO (XO (XI (XI (XI (XO (XO
    (XO (XI (XO (XI (XO (XO (XO XH))))))))))))))))) :: ((((Zpos (XI (XI (XI
    (XO (XO (XO (XI (XI (XI (XI (XI (XO (XO (XI (XO XH)))))))))))))))), (Zpos
    (XI (XI (XI (XO (XO (XO (XI (XI (XI (XI (XI (XO (XO (XI (XO
    XH))))))))))))))))), (Zpos XH)) :: ((((Zpos (XI (XO (XO (XI (XO (XO (XI
    (XI (XI (XI (XI (XO (XO (XI (XO XH)))))))))))))))), (Zpos (XI (XO (XO (XI
    (XO (XO (XI (XI (XI (XI (XI (XO (XO (XI (XO XH))))))))))))))))), (Zpos
    XH)) :: ((((Zpos (XO (XO (XO (XO (XI (XO (XI (XI (XI (XI (XI (XO (XO (XI
    (XO XH)))))))))))))))), (Zpos (XO (XO (XO (XO (XI (XO (XI (XI (XI (XI (XI
    (XO (XO (XI (XO XH))))))))))))))))), (Zpos XH)) :: ((((Zpos (XO (XI (XI
    (XO (XI (XO (XI (XI (XI (XI (XI (XO (XO (XI (XO XH)))))))))))))))), (Zpos
    (XO (XI (XI (XO (XI (XO (XI (XI (XI (XI (XI (XO (XO (XI (XO
    XH))))))))))))))))), (Zpos XH)) :: ((((Zpos (XO (XO (XO (XI (XI (XO (XI
    (XI (XI (XI (XI (XO (XO (XI (XO XH)))))))))))))))), (Zpos (XO (XO (XO (XI
    (XI (XO (XI (XI (XI (XI (XI (XO (XO (XI (XO XH))))))))))))))))), (Zpos
    XH)) :: ((((Zpos (XI (XO (XI (XO (XI (XI (XI (XI (XI (XI (XI (XO (XO (XI
    (XO XH)))))))))))))))), (Zpos (XI (XO (XI (XO (XI (XI (XI (XI (XI (XI (XI
    (XO (XO (XI (XO XH))))))))))))))))), (Zpos XH)) :: ((((Zpos (XI (XO (XO
    (XO (XO (XI (XO (XO (XI (XI (XI (XI (XI (XI (XI XH)))))))))))))))), (Zpos
    (XO (XI (XO (XI (XI (XI (XO (XO (XI (XI (XI (XI (XI (XI (XI
    XH))))))))))))))))), (Zpos (XO (XO (XO (XO (XO XH))))))) :: ((((Zpos (XO
    (XO (XO (XO (XO (XO (XO (XO (XO (XO (XI (XO (XO (XO (XO (XO
    XH))))))))))))))))), (Zpos (XI (XI (XI (XO (XO (XI (XO (XO (XO (XO (XI
    (XO (XO (XO (XO (XO XH)))))))))))))))))), (Zpos (XO (XO (XO (XI (XO
    XH))))))) :: ((((Zpos (XO (XO (XO (XO (XI (XI (XO (XI (XO (XO (XI (XO (XO
    (XO (XO (XO XH))))))))))))))))), (Zpos (XI (XI (XO (XO (XI (XO (XI (XI
    (XO (XO (XI (XO (XO (XO (XO (XO XH)))))))))))))))))), (Zpos (XO (XO (XO
    (XI (XO XH))))))) :: ((((Zpos (XO (XO (XO (XO (XI (XI (XI (XO (XI (XO (XI
    (XO (XO (XO (XO (XO XH))))))))))))))))), (Zpos (XO (XI (XO (XI (XI (XI
    (XI (XO (XI (XO (XI (XO (XO (XO (XO (XO XH)))))))))))))))))), (Zpos (XI
    (XI (XI (XO (XO XH))))))) :: ((((Zpos (XO (XO (XI (XI (XI (XI (XI (XO (XI
    (XO (XI (XO (XO (XO (XO (XO XH))))))))))))))))), (Zpos (XO (XI (XO (XI
    (XO (XO (XO (XI (XI (XO (XI (XO (XO (XO (XO (XO XH)))))))))))))))))),
    (Zpos (XI (XI (XI (XO (XO XH))))))) :: ((((Zpos (XO (XO (XI (XI (XO (XO
    (XO (XI (XI (XO (XI (XO (XO (XO (XO (XO XH))))))))))))))))), (Zpos (XO
    (XI (XO (XO (XI (XO (XO (XI (XI (XO (XI (XO (XO (XO (XO (XO
    XH)))))))))))))))))), (Zpos (XI (XI (XI (XO (XO XH))))))) :: ((((Zpos (XO
    (XO (XI (XO (XI (XO (XO (XI (XI (XO (XI (XO (XO (XO (XO (XO
    XH))))))))))))))))), (Zpos (XI (XO (XI (XO (XI (XO (XO (XI (XI (XO (XI
    (XO (XO (XO (XO (XO XH)))))))))))))))))), (Zpos (XI (XI (XI (XO (XO
    XH))))))) :: ((((Zpos (XO (XO (XO (XO (XO (XO (XO (XI (XO (XO (XI (XI (XO
    (XO (XO (XO XH))))))))))))))))), (Zpos (XO (XI (XO (XO (XI (XI (XO (XI
    (XO (XO (XI (XI (XO (XO (XO (XO XH)))))))))))))))))), (Zpos (XO (XO (XO
    (XO (XO (XO XH)))))))) :: ((((Zpos (XO (XO (XO (XO (XO (XI (XO (XI (XO
    (XO (XO (XI (XI (XO (XO (XO XH))))))))))))))))), (Zpos (XI (XI (XI (XI
    (XI (XI (XO (XI (XO (XO (XO (XI (XI (XO (XO (XO XH)))))))))))))))))),
    (Zpos (XO (XO (XO (XO (XO XH))))))) :: ((((Zpos (XO (XO (XO (XO (XO (XO
    (XI (XO (XO (XI (XI (XI (XO (XI (XI (XO XH))))))))))))))))), (Zpos (XI
    (XI (XI (XI (XI (XO (XI (XO (XO (XI (XI (XI (XO (XI (XI (XO
    XH)))))))))))))))))), (Zpos (XO (XO (XO (XO (XO XH))))))) :: ((((Zpos (XO
    (XO (XO (XO (XO (XO (XO (XO (XI (XO (XO (XI (XO (XI (XI (XI
    XH))))))))))))))))), (Zpos (XI (XO (XO (XO (XO (XI (XO (XO (XI (XO (XO
    (XI (XO (XI (XI (XI XH)))))))))))))))))), (Zpos (XO (XI (XO (XO (XO
    XH))))))) :: []))))))))))))))))))))) :: [])))))))))))))))))))))))))))

(** val in_ranges : z -> (z * z) list -> bool **)

let rec in_ranges c = function
| [] -> false
| p :: r ->
  let (lo, hi) = p in
  if Z.ltb c lo then false else if Z.leb c hi then true else in_ranges c r

(** val in_tab : z -> ((z * z) * (z * z) list) list -> bool **)

let rec in_tab c = function
| [] -> false
| p :: r ->
  let (p0, l) = p in
  let (lo, hi) = p0 in
  if Z.ltb c lo
  then false
  else if Z.leb c hi then in_ranges c l else in_tab c r

(** val delta_ranges : z -> ((z * z) * z) list -> z **)

let rec delta_ranges c = function
| [] -> Z0
| p :: r ->
  let (p0, d) = p in
  let (lo, hi) = p0 in
  if Z.ltb c lo then Z0 else if Z.leb c hi then d else delta_ranges c r

(** val delta_tab : z -> ((z * z) * ((z * z) * z) list) list -> z **)

let rec delta_tab c = function
| [] -> Z0
| p :: r ->
  let (p0, l) = p in
  let (lo, hi) = p0 in
  if Z.ltb c lo
  then Z0
  else if Z.leb c hi then delta_ranges c l else delta_tab c r

(** val xid_start0 : z -> bool **)

let xid_start0 c =
  in_tab c xid_start_tab

(** val xid_continue0 : z -> bool **)

let xid_continue0 c =
  in_tab c xid_continue_tab

(** val is_print0 : z -> bool **)

let is_print0 c =
  in_tab c is_print_tab

(** val to_lower0 : z -> z **)

let to_lower0 c =
  Z.add c (delta_tab c to_lower_tab)

type constk =
| CRoot
| CCurrent
| CLast
| CAnyArray
| CAnyKey
| CTrue
| CFalse
| CNull

type binop =
| BAnd
| BOr
| BEq
| BNe
| BLt
| BGt
| BLe
| BGe
| BStartsWith
| BAdd
| BSub
| BMul
| BDiv
| BMod

type unop =
| UExists
| UNot
| UIsUnknown
| UPlus
| UMinus
| UFilter

type dtop =
| DDateTime
| DDate
| DTime
| DTimeTZ
| DTimestamp
| DTimestampTZ

type meth =
| MAbs
| MSize
| MType
| MFloor
| MCeiling
| MDouble
| MKeyValue
| MBigInt
| MBoolean
| MInteger
| MNumber
| MString

type step =
| SConst of constk
| SStr of char list
| SInteger of z
| SNumeric of f64
| SVar of char list
| SKey of char list
| SBin of binop * step list * step list
| SUn of unop * step list
| SRegex of step list * char list * z
| SMeth of meth
| SDecimal of z option * z option
| SDt of dtop * char list option * z option
| SAny of z * z
| SIndex of (step list * step list option) list

type chain = step list

type path = { p_lax : bool; p_pred : bool; p_root : chain }

(** val reICase : z **)

let reICase =
  Zpos XH

(** val reDotAll : z **)

let reDotAll =
  Zpos (XO XH)

(** val reMLine : z **)

let reMLine =
  Zpos (XO (XO XH))

(** val reWSpace : z **)

let reWSpace =
  Zpos (XO (XO (XO XH)))

(** val reQuote : z **)

let reQuote =
  Zpos (XO (XO (XO (XO XH))))

type lex_err =
| EUtf8
| ENul
| ENumUnderscoreStart
| ENumJunk
| ENumExpMantissa
| ENumExpDigits
| ENumInvalidDigit
| ENumSep
| EComment
| EUnterminated
| EBackslashEnd
| ESurrogate
| EHex
| EUnicode
| EU0000
| EInvalidChar
| EOutOfFuel

type 'a lres =
| LOk of 'a
| LErr of lex_err

(** val lbind : 'a1 lres -> ('a1 -> 'a2 lres) -> 'a2 lres **)

let lbind x f =
  match x with
  | LOk a -> f a
  | LErr e -> LErr e

type kw =
| KTo
| KNull
| KTrue
| KFalse
| KIs
| KUnknown
| KExists
| KStrict
| KLax
| KLast
| KStarts
| KWith
| KLikeRegex
| KFlag
| KAbs
| KSize
| KType
| KFloor
| KDouble
| KCeiling
| KKeyvalue
| KDatetime
| KBigint
| KBoolean
| KDate
| KDecimal
| KInteger
| KNumber
| KStringfunc
| KTime
| KTimeTz
| KTimestamp
| KTimestampTz

type tkind =
| TChar of z
| TIdent
| TString
| TNumeric
| TInt
| TVariable
| TOr
| TAnd
| TNot
| TLess
| TLessEq
| TEqual
| TNotEqual
| TGreaterEq
| TGreater
| TAny
| TKw of kw
| TErr of lex_err

type token = { tk : tkind; ttext : char list }

(** val is_ws : z -> bool **)

let is_ws ch =
  (||)
    ((||)
      ((||) (Z.eqb ch (Zpos (XI (XO (XO XH)))))
        (Z.eqb ch (Zpos (XO (XI (XO XH))))))
      (Z.eqb ch (Zpos (XI (XO (XI XH))))))
    (Z.eqb ch (Zpos (XO (XO (XO (XO (XO XH)))))))

(** val lower : z -> z **)

let lower ch =
  Z.coq_lor (Zpos (XO (XO (XO (XO (XO XH)))))) ch

(** val is_decimal : z -> bool **)

let is_decimal ch =
  (&&) (Z.leb (Zpos (XO (XO (XO (XO (XI XH)))))) ch)
    (Z.leb ch (Zpos (XI (XO (XO (XI (XI XH)))))))

(** val is_hex : z -> bool **)

let is_hex ch =
  (||)
    ((&&) (Z.leb (Zpos (XO (XO (XO (XO (XI XH)))))) ch)
      (Z.leb ch (Zpos (XI (XO (XO (XI (XI XH))))))))
    ((&&) (Z.leb (Zpos (XI (XO (XO (XO (XO (XI XH))))))) (lower ch))
      (Z.leb (lower ch) (Zpos (XO (XI (XI (XO (XO (XI XH)))))))))

(** val hex_char : z -> z **)

let hex_char c =
  if (&&) (Z.leb (Zpos (XO (XO (XO (XO (XI XH)))))) c)
       (Z.leb c (Zpos (XI (XO (XO (XI (XI XH)))))))
  then Z.sub c (Zpos (XO (XO (XO (XO (XI XH))))))
  else if (&&) (Z.leb (Zpos (XI (XO (XO (XO (XO (XI XH))))))) c)
            (Z.leb c (Zpos (XO (XI (XI (XO (XO (XI XH))))))))
       then Z.add (Z.sub c (Zpos (XI (XO (XO (XO (XO (XI XH)))))))) (Zpos (XO
              (XI (XO XH))))
       else if (&&) (Z.leb (Zpos (XI (XO (XO (XO (XO (XO XH))))))) c)
                 (Z.leb c (Zpos (XO (XI (XI (XO (XO (XO XH))))))))
            then Z.add (Z.sub c (Zpos (XI (XO (XO (XO (XO (XO XH))))))))
                   (Zpos (XO (XI (XO XH))))
            else Zneg XH

(** val is_ident_rune : goLib -> z -> bool -> bool **)

let is_ident_rune l ch first =
  (||)
    ((||) (Z.eqb ch (Zpos (XI (XI (XI (XI (XI (XO XH))))))))
      (Z.eqb ch (Zpos (XO (XO (XI (XI (XI (XO XH)))))))))
    ((&&) (Z.leb Z0 ch) (if first then l.xid_start ch else l.xid_continue ch))

(** val is_variable_rune : goLib -> z -> bool **)

let is_variable_rune l ch =
  (&&) (Z.leb Z0 ch) (l.xid_continue ch)

(** val check : z -> unit lres **)

let check c =
  if Z.eqb c Z0 then LErr ENul else if Z.ltb c Z0 then LErr EUtf8 else LOk ()

(** val next : z list -> (z * z list) lres **)

let next = function
| [] -> LOk ((Zneg XH), [])
| c :: r -> lbind (check c) (fun _ -> LOk (c, r))

(** val skip_ws : z -> z list -> (z * z list) lres **)

let rec skip_ws ch rest =
  if is_ws ch
  then (match rest with
        | [] -> LOk ((Zneg XH), [])
        | c :: r -> lbind (check c) (fun _ -> skip_ws c r))
  else LOk (ch, rest)

(** val digits :
    z -> z -> z list -> z list -> z -> z -> ((((z * z list) * z
    list) * z) * z) lres **)

let rec digits base ch rest acc ds inv =
  if (||)
       (if Z.leb base (Zpos (XO (XI (XO XH))))
        then is_decimal ch
        else is_hex ch) (Z.eqb ch (Zpos (XI (XI (XI (XI (XI (XO XH))))))))
  then let ds' =
         Z.coq_lor ds
           (if Z.eqb ch (Zpos (XI (XI (XI (XI (XI (XO XH)))))))
            then Zpos (XO XH)
            else Zpos XH)
       in
       let inv' =
         if (&&)
              ((&&)
                ((&&) (Z.leb base (Zpos (XO (XI (XO XH)))))
                  (negb (Z.eqb ch (Zpos (XI (XI (XI (XI (XI (XO XH))))))))))
                (Z.leb (Z.add (Zpos (XO (XO (XO (XO (XI XH)))))) base) ch))
              (Z.eqb inv Z0)
         then ch
         else inv
       in
       (match rest with
        | [] -> LOk (((((Zneg XH), []), (app acc (ch :: []))), ds'), inv')
        | c :: r ->
          lbind (check c) (fun _ ->
            digits base c r (app acc (ch :: [])) ds' inv'))
  else LOk ((((ch, rest), acc), ds), inv)

(** val invalid_sep_loop : bool -> z -> z list -> bool **)

let rec invalid_sep_loop x1_is_x d = function
| [] -> Z.eqb d (Zpos (XI (XI (XI (XI (XI (XO XH)))))))
| c :: r ->
  if Z.eqb c (Zpos (XI (XI (XI (XI (XI (XO XH)))))))
  then if Z.eqb d (Zpos (XO (XO (XO (XO (XI XH))))))
       then invalid_sep_loop x1_is_x (Zpos (XI (XI (XI (XI (XI (XO XH))))))) r
       else true
  else if (||) (is_decimal c) ((&&) x1_is_x (is_hex c))
       then invalid_sep_loop x1_is_x (Zpos (XO (XO (XO (XO (XI XH)))))) r
       else if Z.eqb d (Zpos (XI (XI (XI (XI (XI (XO XH)))))))
            then true
            else invalid_sep_loop x1_is_x (Zpos (XO (XI (XI (XI (XO XH)))))) r

(** val invalid_sep : z list -> bool **)

let invalid_sep x = match x with
| [] -> invalid_sep_loop false (Zpos (XO (XI (XI (XI (XO XH)))))) x
| z0 :: l ->
  (match z0 with
   | Zpos p ->
     (match p with
      | XO p0 ->
        (match p0 with
         | XO p1 ->
           (match p1 with
            | XO p2 ->
              (match p2 with
               | XO p3 ->
                 (match p3 with
                  | XI p4 ->
                    (match p4 with
                     | XH ->
                       (match l with
                        | [] ->
                          invalid_sep_loop false (Zpos (XO (XI (XI (XI (XO
                            XH)))))) x
                        | c1 :: r ->
                          let x1 = lower c1 in
                          if (||)
                               ((||)
                                 (Z.eqb x1 (Zpos (XO (XO (XO (XI (XI (XI
                                   XH))))))))
                                 (Z.eqb x1 (Zpos (XI (XI (XI (XI (XO (XI
                                   XH)))))))))
                               (Z.eqb x1 (Zpos (XO (XI (XO (XO (XO (XI
                                 XH))))))))
                          then invalid_sep_loop
                                 (Z.eqb x1 (Zpos (XO (XO (XO (XI (XI (XI
                                   XH)))))))) (Zpos (XO (XO (XO (XO (XI
                                 XH)))))) r
                          else invalid_sep_loop false (Zpos (XO (XI (XI (XI
                                 (XO XH)))))) x)
                     | _ ->
                       invalid_sep_loop false (Zpos (XO (XI (XI (XI (XO
                         XH)))))) x)
                  | _ ->
                    invalid_sep_loop false (Zpos (XO (XI (XI (XI (XO XH))))))
                      x)
               | _ ->
                 invalid_sep_loop false (Zpos (XO (XI (XI (XI (XO XH)))))) x)
            | _ -> invalid_sep_loop false (Zpos (XO (XI (XI (XI (XO XH)))))) x)
         | _ -> invalid_sep_loop false (Zpos (XO (XI (XI (XI (XO XH)))))) x)
      | _ -> invalid_sep_loop false (Zpos (XO (XI (XI (XI (XO XH)))))) x)
   | _ -> invalid_sep_loop false (Zpos (XO (XI (XI (XI (XO XH)))))) x)

(** val scan_number_tail :
    goLib -> tkind -> z -> z -> z -> z list -> z list -> z -> z -> bool ->
    (((tkind * z list) * z) * z list) lres **)

let scan_number_tail l tok base prefix ch rest acc digSep inv seen_dot =
  lbind
    (if seen_dot
     then lbind (digits base ch rest acc Z0 inv) (fun pat ->
            let (p, inv0) = pat in
            let (p0, ds) = p in
            let (p1, acc0) = p0 in
            let (ch0, rest0) = p1 in
            LOk (((((TNumeric, ch0), rest0), acc0), (Z.coq_lor digSep ds)),
            inv0))
     else LOk (((((tok, ch), rest), acc), digSep), inv)) (fun pat ->
    let (p, inv0) = pat in
    let (p0, digSep0) = p in
    let (p1, acc0) = p0 in
    let (p2, rest0) = p1 in
    let (tok0, ch0) = p2 in
    let e = lower ch0 in
    lbind
      (if Z.eqb e (Zpos (XI (XO (XI (XO (XO (XI XH)))))))
       then if (&&) (negb (Z.eqb prefix Z0))
                 (negb (Z.eqb prefix (Zpos (XO (XO (XO (XO (XI XH))))))))
            then LErr ENumExpMantissa
            else lbind (next rest0) (fun pat0 ->
                   let (ch1, rest1) = pat0 in
                   let acc1 = app acc0 (ch0 :: []) in
                   lbind
                     (if (||) (Z.eqb ch1 (Zpos (XI (XI (XO (XI (XO XH)))))))
                           (Z.eqb ch1 (Zpos (XI (XO (XI (XI (XO XH)))))))
                      then lbind (next rest1) (fun pat1 ->
                             let (c, r) = pat1 in
                             LOk ((c, r), (app acc1 (ch1 :: []))))
                      else LOk ((ch1, rest1), acc1)) (fun pat1 ->
                     let (p3, acc2) = pat1 in
                     let (ch2, rest2) = p3 in
                     lbind
                       (digits (Zpos (XO (XI (XO XH)))) ch2 rest2 acc2 Z0 Z0)
                       (fun pat2 ->
                       let (p4, _) = pat2 in
                       let (p5, ds) = p4 in
                       let (p6, acc3) = p5 in
                       let (ch3, rest3) = p6 in
                       if Z.eqb (Z.coq_land ds (Zpos XH)) Z0
                       then LErr ENumExpDigits
                       else LOk ((((TNumeric, ch3), rest3), acc3),
                              (Z.coq_lor digSep0 ds)))))
       else if is_ident_rune l e true
            then LErr ENumJunk
            else LOk ((((tok0, ch0), rest0), acc0), digSep0)) (fun pat0 ->
      let (p3, digSep1) = pat0 in
      let (p4, acc1) = p3 in
      let (p5, rest1) = p4 in
      let (tok1, ch1) = p5 in
      if (&&) (match tok1 with
               | TInt -> true
               | _ -> false) (negb (Z.eqb inv0 Z0))
      then LErr ENumInvalidDigit
      else if (&&) (negb (Z.eqb (Z.coq_land digSep1 (Zpos (XO XH))) Z0))
                (invalid_sep acc1)
           then LErr ENumSep
           else if is_ident_rune l ch1 true
                then LErr ENumJunk
                else LOk (((tok1, acc1), ch1), rest1)))

(** val scan_number :
    goLib -> z -> z list -> bool -> (((tkind * z list) * z) * z list) lres **)

let scan_number l ch rest = function
| true ->
  scan_number_tail l TNumeric (Zpos (XO (XI (XO XH)))) Z0 ch rest ((Zpos (XO
    (XI (XI (XI (XO XH)))))) :: []) Z0 Z0 true
| false ->
  lbind
    (if Z.eqb ch (Zpos (XO (XO (XO (XO (XI XH))))))
     then lbind (next rest) (fun pat ->
            let (ch1, rest1) = pat in
            let acc1 = (Zpos (XO (XO (XO (XO (XI XH)))))) :: [] in
            let lc = lower ch1 in
            if Z.eqb lc (Zpos (XO (XO (XO (XI (XI (XI XH)))))))
            then lbind (next rest1) (fun pat0 ->
                   let (c, r) = pat0 in
                   LOk ((((((Zpos (XO (XO (XO (XO XH))))), (Zpos (XO (XO (XO
                   (XI (XI (XI XH)))))))), Z0), c), r),
                   (app acc1 (ch1 :: []))))
            else if Z.eqb lc (Zpos (XI (XI (XI (XI (XO (XI XH)))))))
                 then lbind (next rest1) (fun pat0 ->
                        let (c, r) = pat0 in
                        LOk ((((((Zpos (XO (XO (XO XH)))), (Zpos (XI (XI (XI
                        (XI (XO (XI XH)))))))), Z0), c), r),
                        (app acc1 (ch1 :: []))))
                 else if Z.eqb lc (Zpos (XO (XI (XO (XO (XO (XI XH)))))))
                      then lbind (next rest1) (fun pat0 ->
                             let (c, r) = pat0 in
                             LOk ((((((Zpos (XO XH)), (Zpos (XO (XI (XO (XO
                             (XO (XI XH)))))))), Z0), c), r),
                             (app acc1 (ch1 :: []))))
                      else if Z.eqb lc (Zpos (XO (XI (XI (XI (XO XH))))))
                           then LOk ((((((Zpos (XO (XO (XO XH)))), (Zpos (XO
                                  (XO (XO (XO (XI XH))))))), (Zpos XH)),
                                  ch1), rest1), acc1)
                           else if Z.eqb ch1 (Zpos (XI (XI (XI (XI (XI (XO
                                     XH)))))))
                                then LErr ENumUnderscoreStart
                                else if is_decimal ch1
                                     then LErr ENumJunk
                                     else LOk ((((((Zpos (XO (XO (XO XH)))),
                                            (Zpos (XO (XO (XO (XO (XI
                                            XH))))))), (Zpos XH)), ch1),
                                            rest1), acc1))
     else LOk ((((((Zpos (XO (XI (XO XH)))), Z0), Z0), ch), rest), []))
    (fun pat ->
    let (p, acc) = pat in
    let (p0, rest0) = p in
    let (p1, ch0) = p0 in
    let (p2, digSep) = p1 in
    let (base, prefix) = p2 in
    if Z.eqb ch0 (Zpos (XI (XI (XI (XI (XI (XO XH)))))))
    then LErr ENumUnderscoreStart
    else lbind (digits base ch0 rest0 acc Z0 Z0) (fun pat0 ->
           let (p3, inv) = pat0 in
           let (p4, ds) = p3 in
           let (p5, acc0) = p4 in
           let (ch1, rest1) = p5 in
           let digSep0 = Z.coq_lor digSep ds in
           if Z.eqb (Z.coq_land digSep0 (Zpos XH)) Z0
           then LErr ENumJunk
           else if Z.eqb ch1 (Zpos (XO (XI (XI (XI (XO XH))))))
                then if (&&) (negb (Z.eqb prefix Z0))
                          (negb
                            (Z.eqb prefix (Zpos (XO (XO (XO (XO (XI XH))))))))
                     then LOk (((TInt, acc0), (Zpos (XO (XI (XI (XI (XO
                            XH))))))), rest1)
                     else lbind (next rest1) (fun pat1 ->
                            let (ch2, rest2) = pat1 in
                            scan_number_tail l TInt base prefix ch2 rest2
                              (app acc0 ((Zpos (XO (XI (XI (XI (XO
                                XH)))))) :: [])) digSep0 inv true)
                else scan_number_tail l TInt base prefix ch1 rest1 acc0
                       digSep0 inv false))

(** val braces : nat -> z -> z -> z list -> (z * z list) lres **)

let rec braces n0 rr c rest =
  if Z.eqb c (Zpos (XI (XO (XI (XI (XI (XI XH)))))))
  then LOk (rr, rest)
  else (match n0 with
        | O -> LErr EUnicode
        | S n' ->
          let si = hex_char c in
          if Z.ltb si Z0
          then LErr EUnicode
          else lbind (next rest) (fun pat ->
                 let (c', r') = pat in
                 braces n'
                   (Z.add (Z.mul rr (Zpos (XO (XO (XO (XO XH)))))) si) c' r'))

(** val decode_unicode : z list -> (z * z list) lres **)

let decode_unicode rest =
  lbind (next rest) (fun pat ->
    let (ch, rest0) = pat in
    lbind
      (if Z.eqb ch (Zpos (XI (XI (XO (XI (XI (XI XH)))))))
       then lbind (next rest0) (fun pat0 ->
              let (c, rest1) = pat0 in
              lbind (braces (S (S (S (S (S (S O)))))) Z0 c rest1)
                (fun pat1 ->
                let (rr, rest2) = pat1 in
                if Z.ltb max_rune rr then LErr EUnicode else LOk (rr, rest2)))
       else let d1 = hex_char ch in
            if Z.ltb d1 Z0
            then LErr EUnicode
            else lbind (next rest0) (fun pat0 ->
                   let (c2, rest1) = pat0 in
                   let d2 = hex_char c2 in
                   if Z.ltb d2 Z0
                   then LErr EUnicode
                   else lbind (next rest1) (fun pat1 ->
                          let (c3, rest2) = pat1 in
                          let d3 = hex_char c3 in
                          if Z.ltb d3 Z0
                          then LErr EUnicode
                          else lbind (next rest2) (fun pat2 ->
                                 let (c4, rest3) = pat2 in
                                 let d4 = hex_char c4 in
                                 if Z.ltb d4 Z0
                                 then LErr EUnicode
                                 else LOk
                                        ((Z.add
                                           (Z.mul
                                             (Z.add
                                               (Z.mul
                                                 (Z.add
                                                   (Z.mul d1 (Zpos (XO (XO
                                                     (XO (XO XH)))))) d2)
                                                 (Zpos (XO (XO (XO (XO
                                                 XH)))))) d3) (Zpos (XO (XO
                                             (XO (XO XH)))))) d4), rest3)))))
      (fun pat0 ->
      let (rr, rest1) = pat0 in
      if Z.eqb rr Z0 then LErr EU0000 else LOk (rr, rest1)))

(** val utf16_pair : z -> z -> z option **)

let utf16_pair r1 r2 =
  if (&&)
       ((&&)
         ((&&)
           (Z.leb (Zpos (XO (XO (XO (XO (XO (XO (XO (XO (XO (XO (XO (XI (XI
             (XO (XI XH)))))))))))))))) r1)
           (Z.ltb r1 (Zpos (XO (XO (XO (XO (XO (XO (XO (XO (XO (XO (XI (XI
             (XI (XO (XI XH))))))))))))))))))
         (Z.leb (Zpos (XO (XO (XO (XO (XO (XO (XO (XO (XO (XO (XI (XI (XI (XO
           (XI XH)))))))))))))))) r2))
       (Z.ltb r2 (Zpos (XO (XO (XO (XO (XO (XO (XO (XO (XO (XO (XO (XO (XO
         (XI (XI XH)))))))))))))))))
  then Some
         (Z.add
           (Z.add
             (Z.mul
               (Z.sub r1 (Zpos (XO (XO (XO (XO (XO (XO (XO (XO (XO (XO (XO
                 (XI (XI (XO (XI XH))))))))))))))))) (Zpos (XO (XO (XO (XO
               (XO (XO (XO (XO (XO (XO XH))))))))))))
             (Z.sub r2 (Zpos (XO (XO (XO (XO (XO (XO (XO (XO (XO (XO (XI (XI
               (XI (XO (XI XH)))))))))))))))))) (Zpos (XO (XO (XO (XO (XO (XO
           (XO (XO (XO (XO (XO (XO (XO (XO (XO (XO XH))))))))))))))))))
  else None

(** val scan_unicode : z list -> z list -> ((z * z list) * z list) lres **)

let scan_unicode rest buf =
  lbind (decode_unicode rest) (fun pat ->
    let (rr, rest0) = pat in
    if is_surrogate rr
    then lbind (next rest0) (fun pat0 ->
           let (c1, rest1) = pat0 in
           if negb (Z.eqb c1 (Zpos (XO (XO (XI (XI (XI (XO XH))))))))
           then LErr ESurrogate
           else lbind (next rest1) (fun pat1 ->
                  let (c2, rest2) = pat1 in
                  if negb (Z.eqb c2 (Zpos (XI (XO (XI (XO (XI (XI XH))))))))
                  then LErr ESurrogate
                  else lbind (decode_unicode rest2) (fun pat2 ->
                         let (rr1, rest3) = pat2 in
                         (match utf16_pair rr rr1 with
                          | Some dec ->
                            lbind (next rest3) (fun pat3 ->
                              let (c, r) = pat3 in
                              LOk ((c, r), (app buf (dec :: []))))
                          | None -> LErr ESurrogate))))
    else lbind (next rest0) (fun pat0 ->
           let (c, r) = pat0 in LOk ((c, r), (app buf (rr :: [])))))

(** val scan_hex : z list -> z list -> ((z * z list) * z list) lres **)

let scan_hex rest buf =
  lbind (next rest) (fun pat ->
    let (a, rest0) = pat in
    let c1 = hex_char a in
    if Z.ltb c1 Z0
    then LErr EHex
    else lbind (next rest0) (fun pat0 ->
           let (b, rest1) = pat0 in
           let c2 = hex_char b in
           if Z.ltb c2 Z0
           then LErr EHex
           else let decoded =
                  Z.add (Z.mul c1 (Zpos (XO (XO (XO (XO XH)))))) c2
                in
                if Z.ltb Z0 decoded
                then lbind (next rest1) (fun pat1 ->
                       let (c, r) = pat1 in
                       LOk ((c, r), (app buf (decoded :: []))))
                else LErr EHex))

(** val scan_escape : z list -> z list -> ((z * z list) * z list) lres **)

let scan_escape rest buf =
  lbind (next rest) (fun pat ->
    let (ch, rest0) = pat in
    let lit = fun r ->
      lbind (next rest0) (fun pat0 ->
        let (c, r') = pat0 in LOk ((c, r'), (app buf (r :: []))))
    in
    if Z.eqb ch (Zpos (XO (XI (XO (XO (XO (XI XH)))))))
    then lit (Zpos (XO (XO (XO XH))))
    else if Z.eqb ch (Zpos (XO (XI (XI (XO (XO (XI XH)))))))
         then lit (Zpos (XO (XO (XI XH))))
         else if Z.eqb ch (Zpos (XO (XI (XI (XI (XO (XI XH)))))))
              then lit (Zpos (XO (XI (XO XH))))
              else if Z.eqb ch (Zpos (XO (XI (XO (XO (XI (XI XH)))))))
                   then lit (Zpos (XI (XO (XI XH))))
                   else if Z.eqb ch (Zpos (XO (XO (XI (XO (XI (XI XH)))))))
                        then lit (Zpos (XI (XO (XO XH))))
                        else if Z.eqb ch (Zpos (XO (XI (XI (XO (XI (XI
                                  XH)))))))
                             then lit (Zpos (XI (XI (XO XH))))
                             else if Z.eqb ch (Zpos (XO (XO (XO (XI (XI (XI
                                       XH)))))))
                                  then scan_hex rest0 buf
                                  else if Z.eqb ch (Zpos (XI (XO (XI (XO (XI
                                            (XI XH)))))))
                                       then scan_unicode rest0 buf
                                       else if Z.ltb ch Z0
                                            then LErr EBackslashEnd
                                            else lit ch)

(** val string_loop :
    nat -> z -> z list -> z list -> ((z * z list) * z list) lres **)

let rec string_loop fuel ch rest buf =
  match fuel with
  | O -> LErr EOutOfFuel
  | S f ->
    if Z.eqb ch (Zpos (XO (XI (XO (XO (XO XH))))))
    then lbind (next rest) (fun pat -> let (c, r) = pat in LOk ((c, r), buf))
    else if (||) (Z.eqb ch (Zpos (XO (XI (XO XH))))) (Z.ltb ch Z0)
         then LErr EUnterminated
         else if Z.eqb ch (Zpos (XO (XO (XI (XI (XI (XO XH)))))))
              then lbind (scan_escape rest buf) (fun pat ->
                     let (p, b) = pat in let (c, r) = p in string_loop f c r b)
              else lbind (next rest) (fun pat ->
                     let (c, r) = pat in
                     string_loop f c r (app buf (ch :: [])))

(** val scan_string : z list -> ((z * z list) * z list) lres **)

let scan_string rest =
  lbind (next rest) (fun pat ->
    let (ch, rest') = pat in string_loop (S (length rest)) ch rest' [])

(** val ident_loop :
    goLib -> nat -> z -> z list -> z list -> ((z * z list) * z list) lres **)

let rec ident_loop l fuel ch rest buf =
  match fuel with
  | O -> LErr EOutOfFuel
  | S f ->
    if is_ident_rune l ch false
    then if Z.eqb ch (Zpos (XO (XO (XI (XI (XI (XO XH)))))))
         then lbind (scan_escape rest buf) (fun pat ->
                let (p, b) = pat in let (c, r) = p in ident_loop l f c r b)
         else lbind (next rest) (fun pat ->
                let (c, r) = pat in ident_loop l f c r (app buf (ch :: [])))
    else LOk ((ch, rest), buf)

(** val kw_table : (char list * kw) list **)

let kw_table =
  (('i'::('s'::[])), KIs) :: ((('t'::('o'::[])),
    KTo) :: ((('a'::('b'::('s'::[]))), KAbs) :: ((('l'::('a'::('x'::[]))),
    KLax) :: ((('d'::('a'::('t'::('e'::[])))),
    KDate) :: ((('f'::('l'::('a'::('g'::[])))),
    KFlag) :: ((('l'::('a'::('s'::('t'::[])))),
    KLast) :: ((('s'::('i'::('z'::('e'::[])))),
    KSize) :: ((('t'::('i'::('m'::('e'::[])))),
    KTime) :: ((('t'::('y'::('p'::('e'::[])))),
    KType) :: ((('w'::('i'::('t'::('h'::[])))),
    KWith) :: ((('f'::('l'::('o'::('o'::('r'::[]))))),
    KFloor) :: ((('b'::('i'::('g'::('i'::('n'::('t'::[])))))),
    KBigint) :: ((('d'::('o'::('u'::('b'::('l'::('e'::[])))))),
    KDouble) :: ((('e'::('x'::('i'::('s'::('t'::('s'::[])))))),
    KExists) :: ((('n'::('u'::('m'::('b'::('e'::('r'::[])))))),
    KNumber) :: ((('s'::('t'::('a'::('r'::('t'::('s'::[])))))),
    KStarts) :: ((('s'::('t'::('r'::('i'::('c'::('t'::[])))))),
    KStrict) :: ((('s'::('t'::('r'::('i'::('n'::('g'::[])))))),
    KStringfunc) :: ((('b'::('o'::('o'::('l'::('e'::('a'::('n'::[]))))))),
    KBoolean) :: ((('c'::('e'::('i'::('l'::('i'::('n'::('g'::[]))))))),
    KCeiling) :: ((('d'::('e'::('c'::('i'::('m'::('a'::('l'::[]))))))),
    KDecimal) :: ((('i'::('n'::('t'::('e'::('g'::('e'::('r'::[]))))))),
    KInteger) :: ((('t'::('i'::('m'::('e'::('_'::('t'::('z'::[]))))))),
    KTimeTz) :: ((('u'::('n'::('k'::('n'::('o'::('w'::('n'::[]))))))),
    KUnknown) :: ((('d'::('a'::('t'::('e'::('t'::('i'::('m'::('e'::[])))))))),
    KDatetime) :: ((('k'::('e'::('y'::('v'::('a'::('l'::('u'::('e'::[])))))))),
    KKeyvalue) :: ((('t'::('i'::('m'::('e'::('s'::('t'::('a'::('m'::('p'::[]))))))))),
    KTimestamp) :: ((('l'::('i'::('k'::('e'::('_'::('r'::('e'::('g'::('e'::('x'::[])))))))))),
    KLikeRegex) :: ((('t'::('i'::('m'::('e'::('s'::('t'::('a'::('m'::('p'::('_'::('t'::('z'::[])))))))))))),
    KTimestampTz) :: [])))))))))))))))))))))))))))))

(** val assoc_str : char list -> (char list * 'a1) list -> 'a1 option **)

let rec assoc_str k = function
| [] -> None
| p :: r -> let (k', v) = p in if eqb0 k k' then Some v else assoc_str k r

(** val str_to_lower : goLib -> char list -> char list **)

let str_to_lower l s =
  string_of_runes (map l.to_lower (runes_of s))

(** val ident_token : goLib -> char list -> tkind **)

let ident_token l ident =
  if eqb0 ident ('n'::('u'::('l'::('l'::[]))))
  then TKw KNull
  else if eqb0 ident ('t'::('r'::('u'::('e'::[]))))
       then TKw KTrue
       else if eqb0 ident ('f'::('a'::('l'::('s'::('e'::[])))))
            then TKw KFalse
            else (match assoc_str (str_to_lower l ident) kw_table with
                  | Some k -> TKw k
                  | None -> TIdent)

(** val scan_ident : goLib -> z -> z list -> ((token * z) * z list) lres **)

let scan_ident l ch rest =
  lbind
    (if Z.eqb ch (Zpos (XO (XO (XI (XI (XI (XO XH)))))))
     then scan_escape rest []
     else lbind (next rest) (fun pat ->
            let (c, r) = pat in LOk ((c, r), (ch :: [])))) (fun pat ->
    let (p, b) = pat in
    let (c, r) = p in
    lbind (ident_loop l (S (S (length r))) c r b) (fun pat0 ->
      let (p0, b0) = pat0 in
      let (c0, r0) = p0 in
      let s = string_of_runes b0 in
      LOk (({ tk = (ident_token l s); ttext = s }, c0), r0)))

(** val var_loop :
    goLib -> z -> z list -> z list -> ((z * z list) * z list) lres **)

let rec var_loop l ch rest buf =
  if is_variable_rune l ch
  then (match rest with
        | [] -> LOk (((Zneg XH), []), (app buf (ch :: [])))
        | c :: r ->
          lbind (check c) (fun _ -> var_loop l c r (app buf (ch :: []))))
  else LOk ((ch, rest), buf)

(** val scan_variable : goLib -> z list -> ((token * z) * z list) lres **)

let scan_variable l rest =
  lbind (next rest) (fun pat ->
    let (ch, rest') = pat in
    if Z.eqb ch (Zpos (XO (XI (XO (XO (XO XH))))))
    then lbind (scan_string rest') (fun pat0 ->
           let (p, b) = pat0 in
           let (c, r) = p in
           LOk (({ tk = TVariable; ttext = (string_of_runes b) }, c), r))
    else if is_variable_rune l ch
         then lbind (var_loop l ch rest' []) (fun pat0 ->
                let (p, b) = pat0 in
                let (c, r) = p in
                LOk (({ tk = TVariable; ttext = (string_of_runes b) }, c), r))
         else LOk (({ tk = (TChar (Zpos (XO (XO (XI (XO (XO XH)))))));
                ttext = ('$'::[]) }, ch), rest'))

(** val comment_loop : z -> z list -> (z * z list) lres **)

let rec comment_loop ch rest =
  if Z.ltb ch Z0
  then LErr EComment
  else (match rest with
        | [] -> LErr EComment
        | c :: r ->
          lbind (check c) (fun _ ->
            if (&&) (Z.eqb ch (Zpos (XO (XI (XO (XI (XO XH)))))))
                 (Z.eqb c (Zpos (XI (XI (XI (XI (XO XH)))))))
            then next r
            else comment_loop c r))

(** val scan_comment : z list -> (z * z list) lres **)

let scan_comment rest =
  lbind (next rest) (fun pat ->
    let (ch, rest') = pat in comment_loop ch rest')

(** val scan_operator : z -> z list -> ((token * z) * z list) lres **)

let scan_operator ch rest =
  lbind (next rest) (fun pat ->
    let (nx, rest') = pat in
    let one0 = fun k -> LOk (({ tk = k; ttext =
      (string_of_runes (ch :: [])) }, nx), rest')
    in
    let two = fun k ->
      lbind (next rest') (fun pat0 ->
        let (c, r) = pat0 in
        LOk (({ tk = k; ttext = (string_of_runes (ch :: (nx :: []))) }, c), r))
    in
    if Z.eqb ch (Zpos (XI (XO (XI (XI (XI XH))))))
    then if Z.eqb nx (Zpos (XI (XO (XI (XI (XI XH))))))
         then two TEqual
         else one0 (TChar ch)
    else if Z.eqb ch (Zpos (XO (XI (XI (XI (XI XH))))))
         then if Z.eqb nx (Zpos (XI (XO (XI (XI (XI XH))))))
              then two TGreaterEq
              else one0 TGreater
         else if Z.eqb ch (Zpos (XO (XO (XI (XI (XI XH))))))
              then if Z.eqb nx (Zpos (XI (XO (XI (XI (XI XH))))))
                   then two TLessEq
                   else if Z.eqb nx (Zpos (XO (XI (XI (XI (XI XH))))))
                        then two TNotEqual
                        else one0 TLess
              else if Z.eqb ch (Zpos (XI (XO (XO (XO (XO XH))))))
                   then if Z.eqb nx (Zpos (XI (XO (XI (XI (XI XH))))))
                        then two TNotEqual
                        else one0 TNot
                   else if Z.eqb ch (Zpos (XO (XI (XI (XO (XO XH))))))
                        then if Z.eqb nx (Zpos (XO (XI (XI (XO (XO XH))))))
                             then two TAnd
                             else one0 (TChar ch)
                        else if Z.eqb ch (Zpos (XO (XO (XI (XI (XI (XI
                                  XH)))))))
                             then if Z.eqb nx (Zpos (XO (XO (XI (XI (XI (XI
                                       XH)))))))
                                  then two TOr
                                  else one0 (TChar ch)
                             else if Z.eqb ch (Zpos (XO (XI (XO (XI (XO
                                       XH))))))
                                  then if Z.eqb nx (Zpos (XO (XI (XO (XI (XO
                                            XH))))))
                                       then two TAny
                                       else one0 (TChar ch)
                                  else one0 (TChar ch))

(** val lex_tok :
    goLib -> nat -> z -> z list -> ((token option * z) * z list) lres **)

let rec lex_tok l fuel ch rest =
  match fuel with
  | O -> LErr EOutOfFuel
  | S f ->
    lbind (skip_ws ch rest) (fun pat ->
      let (ch0, rest0) = pat in
      if is_ident_rune l ch0 true
      then lbind (scan_ident l ch0 rest0) (fun pat0 ->
             let (p, r) = pat0 in let (t, c) = p in LOk (((Some t), c), r))
      else if is_decimal ch0
           then lbind (scan_number l ch0 rest0 false) (fun pat0 ->
                  let (p, r) = pat0 in
                  let (p0, c) = p in
                  let (k, txt) = p0 in
                  LOk (((Some { tk = k; ttext = (str_of_bytes txt) }), c), r))
           else if Z.ltb ch0 Z0
                then LOk ((None, ch0), rest0)
                else if Z.eqb ch0 (Zpos (XO (XI (XO (XO (XO XH))))))
                     then lbind (scan_string rest0) (fun pat0 ->
                            let (p, b) = pat0 in
                            let (c, r) = p in
                            LOk (((Some { tk = TString; ttext =
                            (string_of_runes b) }), c), r))
                     else if Z.eqb ch0 (Zpos (XO (XO (XI (XO (XO XH))))))
                          then lbind (scan_variable l rest0) (fun pat0 ->
                                 let (p, r) = pat0 in
                                 let (t, c) = p in LOk (((Some t), c), r))
                          else if Z.eqb ch0 (Zpos (XI (XI (XI (XI (XO XH))))))
                               then lbind (next rest0) (fun pat0 ->
                                      let (c, r) = pat0 in
                                      if Z.eqb c (Zpos (XO (XI (XO (XI (XO
                                           XH))))))
                                      then lbind (scan_comment r)
                                             (fun pat1 ->
                                             let (c', r') = pat1 in
                                             lex_tok l f c' r')
                                      else LOk (((Some { tk = (TChar (Zpos
                                             (XI (XI (XI (XI (XO XH)))))));
                                             ttext = ('/'::[]) }), c), r))
                               else if Z.eqb ch0 (Zpos (XO (XI (XI (XI (XO
                                         XH))))))
                                    then lbind (next rest0) (fun pat0 ->
                                           let (c, r) = pat0 in
                                           if is_decimal c
                                           then lbind
                                                  (scan_number l c r true)
                                                  (fun pat1 ->
                                                  let (p, r') = pat1 in
                                                  let (p0, c') = p in
                                                  let (k, txt) = p0 in
                                                  LOk (((Some { tk = k;
                                                  ttext =
                                                  (str_of_bytes txt) }), c'),
                                                  r'))
                                           else LOk (((Some { tk = (TChar
                                                  (Zpos (XO (XI (XI (XI (XO
                                                  XH))))))); ttext =
                                                  ('.'::[]) }), c), r))
                                    else if Z.leb (Zpos (XO (XO (XO (XO (XO
                                              (XO (XO (XO (XO (XO (XO (XO (XO
                                              (XI (XI XH)))))))))))))))) ch0
                                         then LErr EInvalidChar
                                         else lbind (scan_operator ch0 rest0)
                                                (fun pat0 ->
                                                let (p, r) = pat0 in
                                                let (t, c) = p in
                                                LOk (((Some t), c), r)))

(** val err_tok : lex_err -> token **)

let err_tok e =
  { tk = (TErr e); ttext = [] }

(** val lex_all : goLib -> nat -> z -> z list -> token list **)

let rec lex_all l fuel ch rest =
  match fuel with
  | O -> (err_tok EOutOfFuel) :: []
  | S f ->
    (match lex_tok l (S (length rest)) ch rest with
     | LOk a ->
       let (p, rest') = a in
       let (o, ch') = p in
       (match o with
        | Some t -> t :: (lex_all l f ch' rest')
        | None -> [])
     | LErr e -> (err_tok e) :: [])

(** val lex_runes : goLib -> z list -> token list **)

let lex_runes l l0 =
  match next l0 with
  | LOk a -> let (ch, rest) = a in lex_all l (S (S (length rest))) ch rest
  | LErr e -> (err_tok e) :: []

(** val lex : goLib -> char list -> token list **)

let lex l s =
  lex_runes l (lex_runes_of s)

type err_kind =
| ELex of lex_err
| ESyntax
| EIntParse
| EFloatParse
| EDecimalArgs
| ERegexFlag
| ERegexX
| ERegexPattern
| ECurrentRoot
| ELastSubscript
| EFuel

type parse_result =
| POk of path
| PErr of err_kind

type 'a pres =
| ROk of 'a
| RErr of err_kind

(** val rbind : 'a1 pres -> ('a1 -> 'a2 pres) -> 'a2 pres **)

let rbind x f =
  match x with
  | ROk a -> f a
  | RErr e -> RErr e

type sort =
| SE
| SP

(** val syn : token list -> 'a1 pres **)

let syn = function
| [] -> RErr ESyntax
| t :: _ ->
  let { tk = tk0; ttext = _ } = t in
  (match tk0 with
   | TErr e -> RErr (ELex e)
   | _ -> RErr ESyntax)

(** val new_integer : goLib -> char list -> z pres **)

let new_integer l text =
  match l.parse_int0 text with
  | Some z0 -> ROk z0
  | None -> RErr EIntParse

(** val new_numeric : goLib -> char list -> f64 pres **)

let new_numeric l text =
  match l.parse_float text with
  | Some p -> let (v, b) = p in if b then RErr EFloatParse else ROk v
  | None -> RErr EFloatParse

(** val new_unary_or_number : goLib -> unop -> chain -> chain **)

let new_unary_or_number l op c = match c with
| [] -> (SUn (op, c)) :: []
| s :: l0 ->
  (match s with
   | SInteger z0 ->
     (match l0 with
      | [] -> (match op with
               | UMinus -> (SInteger (Z.opp z0)) :: []
               | _ -> c)
      | _ :: _ -> (SUn (op, c)) :: [])
   | SNumeric f ->
     (match l0 with
      | [] ->
        (match op with
         | UMinus -> (SNumeric (l.f64_neg f)) :: []
         | _ -> c)
      | _ :: _ -> (SUn (op, c)) :: [])
   | _ -> (SUn (op, c)) :: [])

(** val any_bound : z -> z **)

let any_bound x =
  if (&&) (Z.leb Z0 x) (Z.ltb x max_uint32) then x else max_uint32

(** val new_any : z -> z -> step **)

let new_any first last =
  SAny ((any_bound first), (any_bound last))

(** val regex_flags_loop : z list -> z -> z option **)

let rec regex_flags_loop l mask =
  match l with
  | [] -> Some mask
  | c :: r ->
    if Z.eqb c (Zpos (XI (XO (XO (XI (XO (XI XH)))))))
    then regex_flags_loop r (Z.coq_lor mask reICase)
    else if Z.eqb c (Zpos (XI (XI (XO (XO (XI (XI XH)))))))
         then regex_flags_loop r (Z.coq_lor mask reDotAll)
         else if Z.eqb c (Zpos (XI (XO (XI (XI (XO (XI XH)))))))
              then regex_flags_loop r (Z.coq_lor mask reMLine)
              else if Z.eqb c (Zpos (XO (XO (XO (XI (XI (XI XH)))))))
                   then regex_flags_loop r (Z.coq_lor mask reWSpace)
                   else if Z.eqb c (Zpos (XI (XO (XO (XO (XI (XI XH)))))))
                        then regex_flags_loop r (Z.coq_lor mask reQuote)
                        else None

(** val new_regex : goLib -> chain -> char list -> char list -> step pres **)

let new_regex l a pat flags =
  match regex_flags_loop (bytes_of flags) Z0 with
  | Some m ->
    if (&&) (Z.eqb (Z.coq_land m reQuote) Z0)
         (negb (Z.eqb (Z.coq_land m reWSpace) Z0))
    then RErr ERegexX
    else if l.regex_ok pat m
         then ROk (SRegex (a, pat, m))
         else RErr ERegexPattern
  | None -> RErr ERegexFlag

(** val is_char : token -> z -> bool **)

let is_char t c =
  match t.tk with
  | TChar c' -> Z.eqb c' c
  | _ -> false

(** val meth_of_kw : kw -> meth option **)

let meth_of_kw = function
| KAbs -> Some MAbs
| KSize -> Some MSize
| KType -> Some MType
| KFloor -> Some MFloor
| KDouble -> Some MDouble
| KCeiling -> Some MCeiling
| KKeyvalue -> Some MKeyValue
| KBigint -> Some MBigInt
| KBoolean -> Some MBoolean
| KInteger -> Some MInteger
| KNumber -> Some MNumber
| KStringfunc -> Some MString
| _ -> None

(** val dtprec_of_kw : kw -> dtop option **)

let dtprec_of_kw = function
| KTime -> Some DTime
| KTimeTz -> Some DTimeTZ
| KTimestamp -> Some DTimestamp
| KTimestampTz -> Some DTimestampTZ
| _ -> None

(** val cmp_of_tok : tkind -> binop option **)

let cmp_of_tok = function
| TLess -> Some BLt
| TLessEq -> Some BLe
| TEqual -> Some BEq
| TNotEqual -> Some BNe
| TGreaterEq -> Some BGe
| TGreater -> Some BGt
| _ -> None

(** val arith_of_tok : tkind -> (binop * nat) option **)

let arith_of_tok = function
| TChar c ->
  (match c with
   | Zpos p ->
     (match p with
      | XI p0 ->
        (match p0 with
         | XI p1 ->
           (match p1 with
            | XI p2 ->
              (match p2 with
               | XI p3 ->
                 (match p3 with
                  | XO p4 ->
                    (match p4 with
                     | XH -> Some (BDiv, (S (S (S (S (S O))))))
                     | _ -> None)
                  | _ -> None)
               | _ -> None)
            | XO p2 ->
              (match p2 with
               | XI p3 ->
                 (match p3 with
                  | XO p4 ->
                    (match p4 with
                     | XH -> Some (BAdd, (S (S (S (S O)))))
                     | _ -> None)
                  | _ -> None)
               | _ -> None)
            | XH -> None)
         | XO p1 ->
           (match p1 with
            | XI p2 ->
              (match p2 with
               | XI p3 ->
                 (match p3 with
                  | XO p4 ->
                    (match p4 with
                     | XH -> Some (BSub, (S (S (S (S O)))))
                     | _ -> None)
                  | _ -> None)
               | XO p3 ->
                 (match p3 with
                  | XO p4 ->
                    (match p4 with
                     | XH -> Some (BMod, (S (S (S (S (S O))))))
                     | _ -> None)
                  | _ -> None)
               | XH -> None)
            | _ -> None)
         | XH -> None)
      | XO p0 ->
        (match p0 with
         | XI p1 ->
           (match p1 with
            | XO p2 ->
              (match p2 with
               | XI p3 ->
                 (match p3 with
                  | XO p4 ->
                    (match p4 with
                     | XH -> Some (BMul, (S (S (S (S (S O))))))
                     | _ -> None)
                  | _ -> None)
               | _ -> None)
            | _ -> None)
         | _ -> None)
      | XH -> None)
   | _ -> None)
| _ -> None

(** val p_any_level : goLib -> token list -> (z * token list) pres **)

let p_any_level l ts = match ts with
| [] -> syn ts
| t :: r ->
  let { tk = tk0; ttext = txt } = t in
  (match tk0 with
   | TInt ->
     ROk ((match l.parse_int0 txt with
           | Some z0 -> z0
           | None -> Zneg XH), r)
   | TKw k -> (match k with
               | KLast -> ROk ((Zneg XH), r)
               | _ -> syn ts)
   | _ -> syn ts)

(** val p_any : goLib -> token list -> (step * token list) pres **)

let p_any l ts = match ts with
| [] -> ROk ((new_any Z0 (Zneg XH)), ts)
| t :: r ->
  let { tk = tk0; ttext = _ } = t in
  (match tk0 with
   | TChar c ->
     (match c with
      | Zpos p ->
        (match p with
         | XI p0 ->
           (match p0 with
            | XI p1 ->
              (match p1 with
               | XO p2 ->
                 (match p2 with
                  | XI p3 ->
                    (match p3 with
                     | XI p4 ->
                       (match p4 with
                        | XI p5 ->
                          (match p5 with
                           | XH ->
                             rbind (p_any_level l r) (fun pat ->
                               let (a, r1) = pat in
                               (match r1 with
                                | [] -> syn r1
                                | t0 :: r2 ->
                                  let { tk = tk1; ttext = _ } = t0 in
                                  (match tk1 with
                                   | TChar c0 ->
                                     (match c0 with
                                      | Zpos p6 ->
                                        (match p6 with
                                         | XI p7 ->
                                           (match p7 with
                                            | XO p8 ->
                                              (match p8 with
                                               | XI p9 ->
                                                 (match p9 with
                                                  | XI p10 ->
                                                    (match p10 with
                                                     | XI p11 ->
                                                       (match p11 with
                                                        | XI p12 ->
                                                          (match p12 with
                                                           | XH ->
                                                             ROk
                                                               ((new_any a a),
                                                               r2)
                                                           | _ -> syn r1)
                                                        | _ -> syn r1)
                                                     | _ -> syn r1)
                                                  | _ -> syn r1)
                                               | _ -> syn r1)
                                            | _ -> syn r1)
                                         | _ -> syn r1)
                                      | _ -> syn r1)
                                   | TKw k ->
                                     (match k with
                                      | KTo ->
                                        rbind (p_any_level l r2) (fun pat0 ->
                                          let (b, r3) = pat0 in
                                          (match r3 with
                                           | [] -> syn r3
                                           | t1 :: r4 ->
                                             let { tk = tk2; ttext = _ } = t1
                                             in
                                             (match tk2 with
                                              | TChar c0 ->
                                                (match c0 with
                                                 | Zpos p6 ->
                                                   (match p6 with
                                                    | XI p7 ->
                                                      (match p7 with
                                                       | XO p8 ->
                                                         (match p8 with
                                                          | XI p9 ->
                                                            (match p9 with
                                                             | XI p10 ->
                                                               (match p10 with
                                                                | XI p11 ->
                                                                  (match p11 with
                                                                   | XI p12 ->
                                                                    (match p12 with
                                                                    | XH ->
                                                                    ROk
                                                                    ((new_any
                                                                    a b), r4)
                                                                    | _ ->
                                                                    syn r3)
                                                                   | _ ->
                                                                    syn r3)
                                                                | _ -> syn r3)
                                                             | _ -> syn r3)
                                                          | _ -> syn r3)
                                                       | _ -> syn r3)
                                                    | _ -> syn r3)
                                                 | _ -> syn r3)
                                              | _ -> syn r3)))
                                      | _ -> syn r1)
                                   | _ -> syn r1)))
                           | _ -> ROk ((new_any Z0 (Zneg XH)), ts))
                        | _ -> ROk ((new_any Z0 (Zneg XH)), ts))
                     | _ -> ROk ((new_any Z0 (Zneg XH)), ts))
                  | _ -> ROk ((new_any Z0 (Zneg XH)), ts))
               | _ -> ROk ((new_any Z0 (Zneg XH)), ts))
            | _ -> ROk ((new_any Z0 (Zneg XH)), ts))
         | _ -> ROk ((new_any Z0 (Zneg XH)), ts))
      | _ -> ROk ((new_any Z0 (Zneg XH)), ts))
   | _ -> ROk ((new_any Z0 (Zneg XH)), ts))

(** val p_csv_elem : goLib -> token list -> (z * token list) pres **)

let p_csv_elem l ts = match ts with
| [] -> syn ts
| t :: r ->
  let { tk = tk0; ttext = txt } = t in
  (match tk0 with
   | TChar c ->
     (match c with
      | Zpos p ->
        (match p with
         | XI p0 ->
           (match p0 with
            | XI p1 ->
              (match p1 with
               | XO p2 ->
                 (match p2 with
                  | XI p3 ->
                    (match p3 with
                     | XO p4 ->
                       (match p4 with
                        | XH ->
                          (match r with
                           | [] -> syn r
                           | t0 :: r0 ->
                             let { tk = tk1; ttext = txt0 } = t0 in
                             (match tk1 with
                              | TInt ->
                                rbind (new_integer l txt0) (fun z0 -> ROk
                                  (z0, r0))
                              | _ -> syn r))
                        | _ -> syn ts)
                     | _ -> syn ts)
                  | _ -> syn ts)
               | _ -> syn ts)
            | XO p1 ->
              (match p1 with
               | XI p2 ->
                 (match p2 with
                  | XI p3 ->
                    (match p3 with
                     | XO p4 ->
                       (match p4 with
                        | XH ->
                          (match r with
                           | [] -> syn r
                           | t0 :: r0 ->
                             let { tk = tk1; ttext = txt0 } = t0 in
                             (match tk1 with
                              | TInt ->
                                rbind (new_integer l txt0) (fun z0 -> ROk
                                  ((Z.opp z0), r0))
                              | _ -> syn r))
                        | _ -> syn ts)
                     | _ -> syn ts)
                  | _ -> syn ts)
               | _ -> syn ts)
            | XH -> syn ts)
         | _ -> syn ts)
      | _ -> syn ts)
   | TInt -> rbind (new_integer l txt) (fun z0 -> ROk (z0, r))
   | _ -> syn ts)

(** val p_csv_rest :
    goLib -> z list -> token list -> (z list * token list) pres **)

let rec p_csv_rest l acc ts = match ts with
| [] -> syn ts
| t :: r ->
  let { tk = tk0; ttext = _ } = t in
  (match tk0 with
   | TChar c ->
     (match c with
      | Zpos p ->
        (match p with
         | XI p0 ->
           (match p0 with
            | XO p1 ->
              (match p1 with
               | XO p2 ->
                 (match p2 with
                  | XI p3 ->
                    (match p3 with
                     | XO p4 ->
                       (match p4 with
                        | XH -> ROk (acc, r)
                        | _ -> syn ts)
                     | _ -> syn ts)
                  | _ -> syn ts)
               | _ -> syn ts)
            | _ -> syn ts)
         | XO p0 ->
           (match p0 with
            | XO p1 ->
              (match p1 with
               | XI p2 ->
                 (match p2 with
                  | XI p3 ->
                    (match p3 with
                     | XO p4 ->
                       (match p4 with
                        | XH ->
                          (match r with
                           | [] -> syn r
                           | t0 :: r1 ->
                             let { tk = tk1; ttext = txt } = t0 in
                             (match tk1 with
                              | TChar c0 ->
                                (match c0 with
                                 | Zpos p5 ->
                                   (match p5 with
                                    | XI p6 ->
                                      (match p6 with
                                       | XI p7 ->
                                         (match p7 with
                                          | XO p8 ->
                                            (match p8 with
                                             | XI p9 ->
                                               (match p9 with
                                                | XO p10 ->
                                                  (match p10 with
                                                   | XH ->
                                                     (match r1 with
                                                      | [] -> syn r1
                                                      | t1 :: r2 ->
                                                        let { tk = tk2;
                                                          ttext = txt0 } = t1
                                                        in
                                                        (match tk2 with
                                                         | TInt ->
                                                           rbind
                                                             (new_integer l
                                                               txt0)
                                                             (fun z0 ->
                                                             p_csv_rest l
                                                               (app acc
                                                                 (z0 :: []))
                                                               r2)
                                                         | _ -> syn r1))
                                                   | _ -> syn r)
                                                | _ -> syn r)
                                             | _ -> syn r)
                                          | _ -> syn r)
                                       | XO p7 ->
                                         (match p7 with
                                          | XI p8 ->
                                            (match p8 with
                                             | XI p9 ->
                                               (match p9 with
                                                | XO p10 ->
                                                  (match p10 with
                                                   | XH ->
                                                     (match r1 with
                                                      | [] -> syn r1
                                                      | t1 :: r2 ->
                                                        let { tk = tk2;
                                                          ttext = txt0 } = t1
                                                        in
                                                        (match tk2 with
                                                         | TInt ->
                                                           rbind
                                                             (new_integer l
                                                               txt0)
                                                             (fun z0 ->
                                                             p_csv_rest l
                                                               (app acc
                                                                 ((Z.opp z0) :: []))
                                                               r2)
                                                         | _ -> syn r1))
                                                   | _ -> syn r)
                                                | _ -> syn r)
                                             | _ -> syn r)
                                          | _ -> syn r)
                                       | XH -> syn r)
                                    | _ -> syn r)
                                 | _ -> syn r)
                              | TInt ->
                                rbind (new_integer l txt) (fun z0 ->
                                  p_csv_rest l (app acc (z0 :: [])) r1)
                              | _ -> syn r))
                        | _ -> syn ts)
                     | _ -> syn ts)
                  | _ -> syn ts)
               | _ -> syn ts)
            | _ -> syn ts)
         | XH -> syn ts)
      | _ -> syn ts)
   | _ -> syn ts)

(** val p_decimal_args : goLib -> token list -> (step * token list) pres **)

let p_decimal_args l ts =
  rbind
    (match ts with
     | [] ->
       rbind (p_csv_elem l ts) (fun pat ->
         let (z0, r1) = pat in p_csv_rest l (z0 :: []) r1)
     | t :: r ->
       let { tk = tk0; ttext = _ } = t in
       (match tk0 with
        | TChar c ->
          (match c with
           | Z0 ->
             rbind (p_csv_elem l ts) (fun pat ->
               let (z0, r1) = pat in p_csv_rest l (z0 :: []) r1)
           | Zpos p ->
             (match p with
              | XI p0 ->
                (match p0 with
                 | XI _ ->
                   rbind (p_csv_elem l ts) (fun pat ->
                     let (z0, r1) = pat in p_csv_rest l (z0 :: []) r1)
                 | XO p1 ->
                   (match p1 with
                    | XI _ ->
                      rbind (p_csv_elem l ts) (fun pat ->
                        let (z0, r1) = pat in p_csv_rest l (z0 :: []) r1)
                    | XO p2 ->
                      (match p2 with
                       | XI p3 ->
                         (match p3 with
                          | XI _ ->
                            rbind (p_csv_elem l ts) (fun pat ->
                              let (z0, r1) = pat in p_csv_rest l (z0 :: []) r1)
                          | XO p4 ->
                            (match p4 with
                             | XI _ ->
                               rbind (p_csv_elem l ts) (fun pat ->
                                 let (z0, r1) = pat in
                                 p_csv_rest l (z0 :: []) r1)
                             | XO _ ->
                               rbind (p_csv_elem l ts) (fun pat ->
                                 let (z0, r1) = pat in
                                 p_csv_rest l (z0 :: []) r1)
                             | XH -> ROk ([], r))
                          | XH ->
                            rbind (p_csv_elem l ts) (fun pat ->
                              let (z0, r1) = pat in p_csv_rest l (z0 :: []) r1))
                       | XO _ ->
                         rbind (p_csv_elem l ts) (fun pat ->
                           let (z0, r1) = pat in p_csv_rest l (z0 :: []) r1)
                       | XH ->
                         rbind (p_csv_elem l ts) (fun pat ->
                           let (z0, r1) = pat in p_csv_rest l (z0 :: []) r1))
                    | XH ->
                      rbind (p_csv_elem l ts) (fun pat ->
                        let (z0, r1) = pat in p_csv_rest l (z0 :: []) r1))
                 | XH ->
                   rbind (p_csv_elem l ts) (fun pat ->
                     let (z0, r1) = pat in p_csv_rest l (z0 :: []) r1))
              | XO _ ->
                rbind (p_csv_elem l ts) (fun pat ->
                  let (z0, r1) = pat in p_csv_rest l (z0 :: []) r1)
              | XH ->
                rbind (p_csv_elem l ts) (fun pat ->
                  let (z0, r1) = pat in p_csv_rest l (z0 :: []) r1))
           | Zneg _ ->
             rbind (p_csv_elem l ts) (fun pat ->
               let (z0, r1) = pat in p_csv_rest l (z0 :: []) r1))
        | TIdent ->
          rbind (p_csv_elem l ts) (fun pat ->
            let (z0, r1) = pat in p_csv_rest l (z0 :: []) r1)
        | TString ->
          rbind (p_csv_elem l ts) (fun pat ->
            let (z0, r1) = pat in p_csv_rest l (z0 :: []) r1)
        | TNumeric ->
          rbind (p_csv_elem l ts) (fun pat ->
            let (z0, r1) = pat in p_csv_rest l (z0 :: []) r1)
        | TInt ->
          rbind (p_csv_elem l ts) (fun pat ->
            let (z0, r1) = pat in p_csv_rest l (z0 :: []) r1)
        | TVariable ->
          rbind (p_csv_elem l ts) (fun pat ->
            let (z0, r1) = pat in p_csv_rest l (z0 :: []) r1)
        | TOr ->
          rbind (p_csv_elem l ts) (fun pat ->
            let (z0, r1) = pat in p_csv_rest l (z0 :: []) r1)
        | TAnd ->
          rbind (p_csv_elem l ts) (fun pat ->
            let (z0, r1) = pat in p_csv_rest l (z0 :: []) r1)
        | TNot ->
          rbind (p_csv_elem l ts) (fun pat ->
            let (z0, r1) = pat in p_csv_rest l (z0 :: []) r1)
        | TLess ->
          rbind (p_csv_elem l ts) (fun pat ->
            let (z0, r1) = pat in p_csv_rest l (z0 :: []) r1)
        | TLessEq ->
          rbind (p_csv_elem l ts) (fun pat ->
            let (z0, r1) = pat in p_csv_rest l (z0 :: []) r1)
        | TEqual ->
          rbind (p_csv_elem l ts) (fun pat ->
            let (z0, r1) = pat in p_csv_rest l (z0 :: []) r1)
        | TNotEqual ->
          rbind (p_csv_elem l ts) (fun pat ->
            let (z0, r1) = pat in p_csv_rest l (z0 :: []) r1)
        | TGreaterEq ->
          rbind (p_csv_elem l ts) (fun pat ->
            let (z0, r1) = pat in p_csv_rest l (z0 :: []) r1)
        | TGreater ->
          rbind (p_csv_elem l ts) (fun pat ->
            let (z0, r1) = pat in p_csv_rest l (z0 :: []) r1)
        | TAny ->
          rbind (p_csv_elem l ts) (fun pat ->
            let (z0, r1) = pat in p_csv_rest l (z0 :: []) r1)
        | TKw _ ->
          rbind (p_csv_elem l ts) (fun pat ->
            let (z0, r1) = pat in p_csv_rest l (z0 :: []) r1)
        | TErr _ ->
          rbind (p_csv_elem l ts) (fun pat ->
            let (z0, r1) = pat in p_csv_rest l (z0 :: []) r1))) (fun pat ->
    let (args, r) = pat in
    (match args with
     | [] -> ROk ((SDecimal (None, None)), r)
     | p :: l0 ->
       (match l0 with
        | [] -> ROk ((SDecimal ((Some p), None)), r)
        | s :: l1 ->
          (match l1 with
           | [] -> ROk ((SDecimal ((Some p), (Some s))), r)
           | _ :: _ -> RErr EDecimalArgs))))

(** val p_dot : goLib -> token list -> (step * token list) pres **)

let p_dot l ts = match ts with
| [] -> syn ts
| t :: r ->
  let { tk = tk0; ttext = txt } = t in
  (match tk0 with
   | TChar c ->
     (match c with
      | Zpos p ->
        (match p with
         | XO p0 ->
           (match p0 with
            | XI p1 ->
              (match p1 with
               | XO p2 ->
                 (match p2 with
                  | XI p3 ->
                    (match p3 with
                     | XO p4 ->
                       (match p4 with
                        | XH -> ROk ((SConst CAnyKey), r)
                        | _ -> syn ts)
                     | _ -> syn ts)
                  | _ -> syn ts)
               | _ -> syn ts)
            | _ -> syn ts)
         | _ -> syn ts)
      | _ -> syn ts)
   | TIdent -> ROk ((SKey txt), r)
   | TString -> ROk ((SKey txt), r)
   | TAny -> p_any l r
   | TKw k ->
     (match r with
      | [] -> ROk ((SKey txt), r)
      | t0 :: r1 ->
        let { tk = tk1; ttext = _ } = t0 in
        (match tk1 with
         | TChar c ->
           (match c with
            | Zpos p ->
              (match p with
               | XO p0 ->
                 (match p0 with
                  | XO p1 ->
                    (match p1 with
                     | XO p2 ->
                       (match p2 with
                        | XI p3 ->
                          (match p3 with
                           | XO p4 ->
                             (match p4 with
                              | XH ->
                                (match meth_of_kw k with
                                 | Some m ->
                                   (match r1 with
                                    | [] -> syn r1
                                    | t1 :: r2 ->
                                      let { tk = tk2; ttext = _ } = t1 in
                                      (match tk2 with
                                       | TChar c0 ->
                                         (match c0 with
                                          | Zpos p5 ->
                                            (match p5 with
                                             | XI p6 ->
                                               (match p6 with
                                                | XO p7 ->
                                                  (match p7 with
                                                   | XO p8 ->
                                                     (match p8 with
                                                      | XI p9 ->
                                                        (match p9 with
                                                         | XO p10 ->
                                                           (match p10 with
                                                            | XH ->
                                                              ROk ((SMeth m),
                                                                r2)
                                                            | _ -> syn r1)
                                                         | _ -> syn r1)
                                                      | _ -> syn r1)
                                                   | _ -> syn r1)
                                                | _ -> syn r1)
                                             | _ -> syn r1)
                                          | _ -> syn r1)
                                       | _ -> syn r1))
                                 | None ->
                                   (match k with
                                    | KDatetime ->
                                      (match r1 with
                                       | [] -> syn r1
                                       | t1 :: r2 ->
                                         let { tk = tk2; ttext = s } = t1 in
                                         (match tk2 with
                                          | TChar c0 ->
                                            (match c0 with
                                             | Zpos p5 ->
                                               (match p5 with
                                                | XI p6 ->
                                                  (match p6 with
                                                   | XO p7 ->
                                                     (match p7 with
                                                      | XO p8 ->
                                                        (match p8 with
                                                         | XI p9 ->
                                                           (match p9 with
                                                            | XO p10 ->
                                                              (match p10 with
                                                               | XH ->
                                                                 ROk ((SDt
                                                                   (DDateTime,
                                                                   None,
                                                                   None)), r2)
                                                               | _ -> syn r1)
                                                            | _ -> syn r1)
                                                         | _ -> syn r1)
                                                      | _ -> syn r1)
                                                   | _ -> syn r1)
                                                | _ -> syn r1)
                                             | _ -> syn r1)
                                          | TString ->
                                            (match r2 with
                                             | [] -> syn r2
                                             | t2 :: r3 ->
                                               let { tk = tk3; ttext = _ } =
                                                 t2
                                               in
                                               (match tk3 with
                                                | TChar c0 ->
                                                  (match c0 with
                                                   | Zpos p5 ->
                                                     (match p5 with
                                                      | XI p6 ->
                                                        (match p6 with
                                                         | XO p7 ->
                                                           (match p7 with
                                                            | XO p8 ->
                                                              (match p8 with
                                                               | XI p9 ->
                                                                 (match p9 with
                                                                  | XO p10 ->
                                                                    (match p10 with
                                                                    | XH ->
                                                                    ROk ((SDt
                                                                    (DDateTime,
                                                                    (Some s),
                                                                    None)),
                                                                    r3)
                                                                    | _ ->
                                                                    syn r2)
                                                                  | _ ->
                                                                    syn r2)
                                                               | _ -> syn r2)
                                                            | _ -> syn r2)
                                                         | _ -> syn r2)
                                                      | _ -> syn r2)
                                                   | _ -> syn r2)
                                                | _ -> syn r2))
                                          | _ -> syn r1))
                                    | KDate ->
                                      (match r1 with
                                       | [] -> syn r1
                                       | t1 :: r2 ->
                                         let { tk = tk2; ttext = _ } = t1 in
                                         (match tk2 with
                                          | TChar c0 ->
                                            (match c0 with
                                             | Zpos p5 ->
                                               (match p5 with
                                                | XI p6 ->
                                                  (match p6 with
                                                   | XO p7 ->
                                                     (match p7 with
                                                      | XO p8 ->
                                                        (match p8 with
                                                         | XI p9 ->
                                                           (match p9 with
                                                            | XO p10 ->
                                                              (match p10 with
                                                               | XH ->
                                                                 ROk ((SDt
                                                                   (DDate,
                                                                   None,
                                                                   None)), r2)
                                                               | _ -> syn r1)
                                                            | _ -> syn r1)
                                                         | _ -> syn r1)
                                                      | _ -> syn r1)
                                                   | _ -> syn r1)
                                                | _ -> syn r1)
                                             | _ -> syn r1)
                                          | _ -> syn r1))
                                    | KDecimal -> p_decimal_args l r1
                                    | _ ->
                                      (match dtprec_of_kw k with
                                       | Some op ->
                                         (match r1 with
                                          | [] -> syn r1
                                          | t1 :: r2 ->
                                            let { tk = tk2; ttext = s } = t1
                                            in
                                            (match tk2 with
                                             | TChar c0 ->
                                               (match c0 with
                                                | Zpos p5 ->
                                                  (match p5 with
                                                   | XI p6 ->
                                                     (match p6 with
                                                      | XO p7 ->
                                                        (match p7 with
                                                         | XO p8 ->
                                                           (match p8 with
                                                            | XI p9 ->
                                                              (match p9 with
                                                               | XO p10 ->
                                                                 (match p10 with
                                                                  | XH ->
                                                                    ROk ((SDt
                                                                    (op,
                                                                    None,
                                                                    None)),
                                                                    r2)
                                                                  | _ ->
                                                                    syn r1)
                                                               | _ -> syn r1)
                                                            | _ -> syn r1)
                                                         | _ -> syn r1)
                                                      | _ -> syn r1)
                                                   | _ -> syn r1)
                                                | _ -> syn r1)
                                             | TInt ->
                                               rbind (new_integer l s)
                                                 (fun z0 ->
                                                 match r2 with
                                                 | [] -> syn r2
                                                 | t2 :: r3 ->
                                                   let { tk = tk3; ttext =
                                                     _ } = t2
                                                   in
                                                   (match tk3 with
                                                    | TChar c0 ->
                                                      (match c0 with
                                                       | Zpos p5 ->
                                                         (match p5 with
                                                          | XI p6 ->
                                                            (match p6 with
                                                             | XO p7 ->
                                                               (match p7 with
                                                                | XO p8 ->
                                                                  (match p8 with
                                                                   | XI p9 ->
                                                                    (match p9 with
                                                                    | XO p10 ->
                                                                    (match p10 with
                                                                    | XH ->
                                                                    ROk ((SDt
                                                                    (op,
                                                                    None,
                                                                    (Some
                                                                    z0))), r3)
                                                                    | _ ->
                                                                    syn r2)
                                                                    | _ ->
                                                                    syn r2)
                                                                   | _ ->
                                                                    syn r2)
                                                                | _ -> syn r2)
                                                             | _ -> syn r2)
                                                          | _ -> syn r2)
                                                       | _ -> syn r2)
                                                    | _ -> syn r2))
                                             | _ -> syn r1))
                                       | None -> ROk ((SKey txt), r))))
                              | _ -> ROk ((SKey txt), r))
                           | _ -> ROk ((SKey txt), r))
                        | _ -> ROk ((SKey txt), r))
                     | _ -> ROk ((SKey txt), r))
                  | _ -> ROk ((SKey txt), r))
               | _ -> ROk ((SKey txt), r))
            | _ -> ROk ((SKey txt), r))
         | _ -> ROk ((SKey txt), r)))
   | _ -> syn ts)

(** val p_primary : goLib -> token list -> (step * token list) pres option **)

let p_primary l = function
| [] -> None
| t :: r ->
  let { tk = tk0; ttext = txt } = t in
  (match tk0 with
   | TChar c ->
     (match c with
      | Zpos p ->
        (match p with
         | XO p0 ->
           (match p0 with
            | XO p1 ->
              (match p1 with
               | XI p2 ->
                 (match p2 with
                  | XO p3 ->
                    (match p3 with
                     | XO p4 ->
                       (match p4 with
                        | XH -> Some (ROk ((SConst CRoot), r))
                        | _ -> None)
                     | _ -> None)
                  | _ -> None)
               | XO p2 ->
                 (match p2 with
                  | XO p3 ->
                    (match p3 with
                     | XO p4 ->
                       (match p4 with
                        | XO p5 ->
                          (match p5 with
                           | XH -> Some (ROk ((SConst CCurrent), r))
                           | _ -> None)
                        | _ -> None)
                     | _ -> None)
                  | _ -> None)
               | XH -> None)
            | _ -> None)
         | _ -> None)
      | _ -> None)
   | TString -> Some (ROk ((SStr txt), r))
   | TNumeric ->
     Some (rbind (new_numeric l txt) (fun v -> ROk ((SNumeric v), r)))
   | TInt ->
     Some (rbind (new_integer l txt) (fun z0 -> ROk ((SInteger z0), r)))
   | TVariable -> Some (ROk ((SVar txt), r))
   | TKw k ->
     (match k with
      | KNull -> Some (ROk ((SConst CNull), r))
      | KTrue -> Some (ROk ((SConst CTrue), r))
      | KFalse -> Some (ROk ((SConst CFalse), r))
      | KLast -> Some (ROk ((SConst CLast), r))
      | _ -> None)
   | _ -> None)

(** val starts_accessor : token list -> bool **)

let starts_accessor = function
| [] -> false
| t :: _ ->
  (||)
    ((||) (is_char t (Zpos (XO (XI (XI (XI (XO XH)))))))
      (is_char t (Zpos (XI (XI (XO (XI (XI (XO XH)))))))))
    (is_char t (Zpos (XI (XI (XI (XI (XI XH)))))))

(** val p_eop :
    goLib -> nat -> nat -> bool -> token list -> ((sort * chain) * token
    list) pres **)

let p_eop l =
  let rec p_eop0 fuel minp po ts =
    match fuel with
    | O -> RErr EFuel
    | S f ->
      rbind (p_unary f po ts) (fun pat ->
        let (p, r) = pat in let (s, c) = p in p_loop f minp s c r)
  and p_unary fuel po ts =
    match fuel with
    | O -> RErr EFuel
    | S f ->
      (match p_primary l ts with
       | Some res ->
         rbind res (fun pat ->
           let (st, r) = pat in
           rbind (p_accs f r) (fun pat0 ->
             let (accs, r1) = pat0 in ROk ((SE, (st :: accs)), r1)))
       | None ->
         (match ts with
          | [] -> syn ts
          | t :: r ->
            let { tk = tk0; ttext = _ } = t in
            (match tk0 with
             | TChar c ->
               (match c with
                | Zpos p ->
                  (match p with
                   | XI p0 ->
                     (match p0 with
                      | XI p1 ->
                        (match p1 with
                         | XO p2 ->
                           (match p2 with
                            | XI p3 ->
                              (match p3 with
                               | XO p4 ->
                                 (match p4 with
                                  | XH ->
                                    rbind (p_unary f false r) (fun pat ->
                                      let (p5, r1) = pat in
                                      let (_, c0) = p5 in
                                      ROk ((SE,
                                      (new_unary_or_number l UPlus c0)), r1))
                                  | _ -> syn ts)
                               | _ -> syn ts)
                            | _ -> syn ts)
                         | _ -> syn ts)
                      | XO p1 ->
                        (match p1 with
                         | XI p2 ->
                           (match p2 with
                            | XI p3 ->
                              (match p3 with
                               | XO p4 ->
                                 (match p4 with
                                  | XH ->
                                    rbind (p_unary f false r) (fun pat ->
                                      let (p5, r1) = pat in
                                      let (_, c0) = p5 in
                                      ROk ((SE,
                                      (new_unary_or_number l UMinus c0)), r1))
                                  | _ -> syn ts)
                               | _ -> syn ts)
                            | _ -> syn ts)
                         | _ -> syn ts)
                      | XH -> syn ts)
                   | XO p0 ->
                     (match p0 with
                      | XO p1 ->
                        (match p1 with
                         | XO p2 ->
                           (match p2 with
                            | XI p3 ->
                              (match p3 with
                               | XO p4 ->
                                 (match p4 with
                                  | XH ->
                                    rbind (p_eop0 f O true r) (fun pat ->
                                      let (p5, r1) = pat in
                                      let (s, c0) = p5 in
                                      (match r1 with
                                       | [] -> syn r1
                                       | t0 :: r2 ->
                                         let { tk = tk1; ttext = _ } = t0 in
                                         (match tk1 with
                                          | TChar c1 ->
                                            (match c1 with
                                             | Zpos p6 ->
                                               (match p6 with
                                                | XI p7 ->
                                                  (match p7 with
                                                   | XO p8 ->
                                                     (match p8 with
                                                      | XO p9 ->
                                                        (match p9 with
                                                         | XI p10 ->
                                                           (match p10 with
                                                            | XO p11 ->
                                                              (match p11 with
                                                               | XH ->
                                                                 if starts_accessor
                                                                    r2
                                                                 then 
                                                                   rbind
                                                                    (p_accs f
                                                                    r2)
                                                                    (fun pat0 ->
                                                                    let (
                                                                    accs, r3) =
                                                                    pat0
                                                                    in
                                                                    ROk ((SE,
                                                                    (app c0
                                                                    accs)),
                                                                    r3))
                                                                 else 
                                                                   (match s with
                                                                    | SE ->
                                                                    ROk ((SE,
                                                                    c0), r2)
                                                                    | SP ->
                                                                    (match r2 with
                                                                    | [] ->
                                                                    if po
                                                                    then 
                                                                    ROk ((SP,
                                                                    c0), r2)
                                                                    else 
                                                                    syn r2
                                                                    | t1 :: r3 ->
                                                                    let { tk =
                                                                    tk2;
                                                                    ttext =
                                                                    _ } = t1
                                                                    in
                                                                    (
                                                                    match tk2 with
                                                                    | TKw k ->
                                                                    (match k with
                                                                    | KIs ->
                                                                    if po
                                                                    then 
                                                                    (match r3 with
                                                                    | [] ->
                                                                    syn r3
                                                                    | t2 :: r4 ->
                                                                    let { tk =
                                                                    tk3;
                                                                    ttext =
                                                                    _ } = t2
                                                                    in
                                                                    (
                                                                    match tk3 with
                                                                    | TKw k0 ->
                                                                    (match k0 with
                                                                    | KUnknown ->
                                                                    ROk ((SP,
                                                                    ((SUn
                                                                    (UIsUnknown,
                                                                    c0)) :: [])),
                                                                    r4)
                                                                    | _ ->
                                                                    syn r3)
                                                                    | _ ->
                                                                    syn r3))
                                                                    else 
                                                                    syn r2
                                                                    | _ ->
                                                                    if po
                                                                    then 
                                                                    ROk ((SP,
                                                                    c0), r2)
                                                                    else 
                                                                    syn r2)
                                                                    | _ ->
                                                                    if po
                                                                    then 
                                                                    ROk ((SP,
                                                                    c0), r2)
                                                                    else 
                                                                    syn r2)))
                                                               | _ -> syn r1)
                                                            | _ -> syn r1)
                                                         | _ -> syn r1)
                                                      | _ -> syn r1)
                                                   | _ -> syn r1)
                                                | _ -> syn r1)
                                             | _ -> syn r1)
                                          | _ -> syn r1)))
                                  | _ -> syn ts)
                               | _ -> syn ts)
                            | _ -> syn ts)
                         | _ -> syn ts)
                      | _ -> syn ts)
                   | XH -> syn ts)
                | _ -> syn ts)
             | TNot ->
               if po
               then (match r with
                     | [] -> syn r
                     | t0 :: r1 ->
                       let { tk = tk1; ttext = _ } = t0 in
                       (match tk1 with
                        | TChar c ->
                          (match c with
                           | Zpos p ->
                             (match p with
                              | XO p0 ->
                                (match p0 with
                                 | XO p1 ->
                                   (match p1 with
                                    | XO p2 ->
                                      (match p2 with
                                       | XI p3 ->
                                         (match p3 with
                                          | XO p4 ->
                                            (match p4 with
                                             | XH ->
                                               rbind (p_eop0 f O true r1)
                                                 (fun pat ->
                                                 let (p5, r2) = pat in
                                                 let (s, c0) = p5 in
                                                 (match s with
                                                  | SE -> syn r2
                                                  | SP ->
                                                    (match r2 with
                                                     | [] -> syn r2
                                                     | t1 :: r3 ->
                                                       let { tk = tk2;
                                                         ttext = _ } = t1
                                                       in
                                                       (match tk2 with
                                                        | TChar c1 ->
                                                          (match c1 with
                                                           | Zpos p6 ->
                                                             (match p6 with
                                                              | XI p7 ->
                                                                (match p7 with
                                                                 | XO p8 ->
                                                                   (match p8 with
                                                                    | XO p9 ->
                                                                    (match p9 with
                                                                    | XI p10 ->
                                                                    (match p10 with
                                                                    | XO p11 ->
                                                                    (match p11 with
                                                                    | XH ->
                                                                    ROk ((SP,
                                                                    ((SUn
                                                                    (UNot,
                                                                    c0)) :: [])),
                                                                    r3)
                                                                    | _ ->
                                                                    syn r2)
                                                                    | _ ->
                                                                    syn r2)
                                                                    | _ ->
                                                                    syn r2)
                                                                    | _ ->
                                                                    syn r2)
                                                                 | _ -> syn r2)
                                                              | _ -> syn r2)
                                                           | _ -> syn r2)
                                                        | _ -> syn r2))))
                                             | _ -> syn r)
                                          | _ -> syn r)
                                       | _ -> syn r)
                                    | _ -> syn r)
                                 | _ -> syn r)
                              | _ -> syn r)
                           | _ -> syn r)
                        | TKw k ->
                          (match k with
                           | KExists ->
                             (match r1 with
                              | [] -> syn r1
                              | t1 :: r2 ->
                                let { tk = tk2; ttext = _ } = t1 in
                                (match tk2 with
                                 | TChar c ->
                                   (match c with
                                    | Zpos p ->
                                      (match p with
                                       | XO p0 ->
                                         (match p0 with
                                          | XO p1 ->
                                            (match p1 with
                                             | XO p2 ->
                                               (match p2 with
                                                | XI p3 ->
                                                  (match p3 with
                                                   | XO p4 ->
                                                     (match p4 with
                                                      | XH ->
                                                        rbind
                                                          (p_eop0 f (S (S (S
                                                            (S O)))) false r2)
                                                          (fun pat ->
                                                          let (p5, r3) = pat
                                                          in
                                                          let (_, c0) = p5 in
                                                          (match r3 with
                                                           | [] -> syn r3
                                                           | t2 :: r4 ->
                                                             let { tk = tk3;
                                                               ttext = _ } =
                                                               t2
                                                             in
                                                             (match tk3 with
                                                              | TChar c1 ->
                                                                (match c1 with
                                                                 | Zpos p6 ->
                                                                   (match p6 with
                                                                    | XI p7 ->
                                                                    (match p7 with
                                                                    | XO p8 ->
                                                                    (match p8 with
                                                                    | XO p9 ->
                                                                    (match p9 with
                                                                    | XI p10 ->
                                                                    (match p10 with
                                                                    | XO p11 ->
                                                                    (match p11 with
                                                                    | XH ->
                                                                    ROk ((SP,
                                                                    ((SUn
                                                                    (UNot,
                                                                    ((SUn
                                                                    (UExists,
                                                                    c0)) :: []))) :: [])),
                                                                    r4)
                                                                    | _ ->
                                                                    syn r3)
                                                                    | _ ->
                                                                    syn r3)
                                                                    | _ ->
                                                                    syn r3)
                                                                    | _ ->
                                                                    syn r3)
                                                                    | _ ->
                                                                    syn r3)
                                                                    | _ ->
                                                                    syn r3)
                                                                 | _ -> syn r3)
                                                              | _ -> syn r3)))
                                                      | _ -> syn r1)
                                                   | _ -> syn r1)
                                                | _ -> syn r1)
                                             | _ -> syn r1)
                                          | _ -> syn r1)
                                       | _ -> syn r1)
                                    | _ -> syn r1)
                                 | _ -> syn r1))
                           | _ -> syn r)
                        | _ -> syn r))
               else syn ts
             | TKw k ->
               (match k with
                | KExists ->
                  if po
                  then (match r with
                        | [] -> syn r
                        | t0 :: r1 ->
                          let { tk = tk1; ttext = _ } = t0 in
                          (match tk1 with
                           | TChar c ->
                             (match c with
                              | Zpos p ->
                                (match p with
                                 | XO p0 ->
                                   (match p0 with
                                    | XO p1 ->
                                      (match p1 with
                                       | XO p2 ->
                                         (match p2 with
                                          | XI p3 ->
                                            (match p3 with
                                             | XO p4 ->
                                               (match p4 with
                                                | XH ->
                                                  rbind
                                                    (p_eop0 f (S (S (S (S
                                                      O)))) false r1)
                                                    (fun pat ->
                                                    let (p5, r2) = pat in
                                                    let (_, c0) = p5 in
                                                    (match r2 with
                                                     | [] -> syn r2
                                                     | t1 :: r3 ->
                                                       let { tk = tk2;
                                                         ttext = _ } = t1
                                                       in
                                                       (match tk2 with
                                                        | TChar c1 ->
                                                          (match c1 with
                                                           | Zpos p6 ->
                                                             (match p6 with
                                                              | XI p7 ->
                                                                (match p7 with
                                                                 | XO p8 ->
                                                                   (match p8 with
                                                                    | XO p9 ->
                                                                    (match p9 with
                                                                    | XI p10 ->
                                                                    (match p10 with
                                                                    | XO p11 ->
                                                                    (match p11 with
                                                                    | XH ->
                                                                    ROk ((SP,
                                                                    ((SUn
                                                                    (UExists,
                                                                    c0)) :: [])),
                                                                    r3)
                                                                    | _ ->
                                                                    syn r2)
                                                                    | _ ->
                                                                    syn r2)
                                                                    | _ ->
                                                                    syn r2)
                                                                    | _ ->
                                                                    syn r2)
                                                                 | _ -> syn r2)
                                                              | _ -> syn r2)
                                                           | _ -> syn r2)
                                                        | _ -> syn r2)))
                                                | _ -> syn r)
                                             | _ -> syn r)
                                          | _ -> syn r)
                                       | _ -> syn r)
                                    | _ -> syn r)
                                 | _ -> syn r)
                              | _ -> syn r)
                           | _ -> syn r))
                  else syn ts
                | _ -> syn ts)
             | _ -> syn ts)))
  and p_loop fuel minp s lhs ts =
    match fuel with
    | O -> RErr EFuel
    | S f ->
      (match ts with
       | [] -> ROk ((s, lhs), ts)
       | t :: r ->
         (match arith_of_tok t.tk with
          | Some p ->
            let (op, q) = p in
            (match s with
             | SE ->
               if Nat.leb minp q
               then rbind (p_eop0 f (S q) false r) (fun pat ->
                      let (p0, r1) = pat in
                      let (_, rhs) = p0 in
                      p_loop f minp SE ((SBin (op, lhs, rhs)) :: []) r1)
               else ROk ((s, lhs), ts)
             | SP -> ROk ((s, lhs), ts))
          | None ->
            (match cmp_of_tok t.tk with
             | Some op ->
               if Nat.leb minp (S (S (S O)))
               then (match s with
                     | SE ->
                       rbind (p_eop0 f (S (S (S (S O)))) false r) (fun pat ->
                         let (p, r1) = pat in
                         let (_, rhs) = p in
                         p_loop f minp SP ((SBin (op, lhs, rhs)) :: []) r1)
                     | SP -> ROk ((s, lhs), ts))
               else ROk ((s, lhs), ts)
             | None ->
               (match t.tk with
                | TOr ->
                  if Nat.leb minp (S O)
                  then (match s with
                        | SE -> ROk ((s, lhs), ts)
                        | SP ->
                          rbind (p_eop0 f (S (S O)) true r) (fun pat ->
                            let (p, r1) = pat in
                            let (s2, rhs) = p in
                            (match s2 with
                             | SE -> syn r1
                             | SP ->
                               p_loop f minp SP ((SBin (BOr, lhs,
                                 rhs)) :: []) r1)))
                  else ROk ((s, lhs), ts)
                | TAnd ->
                  if Nat.leb minp (S (S O))
                  then (match s with
                        | SE -> ROk ((s, lhs), ts)
                        | SP ->
                          rbind (p_eop0 f (S (S (S O))) true r) (fun pat ->
                            let (p, r1) = pat in
                            let (s2, rhs) = p in
                            (match s2 with
                             | SE -> syn r1
                             | SP ->
                               p_loop f minp SP ((SBin (BAnd, lhs,
                                 rhs)) :: []) r1)))
                  else ROk ((s, lhs), ts)
                | TKw k ->
                  (match k with
                   | KStarts ->
                     if Nat.leb minp (S (S (S O)))
                     then (match s with
                           | SE ->
                             (match r with
                              | [] -> syn r
                              | t0 :: r1 ->
                                let { tk = tk0; ttext = _ } = t0 in
                                (match tk0 with
                                 | TKw k0 ->
                                   (match k0 with
                                    | KWith ->
                                      (match r1 with
                                       | [] -> syn r1
                                       | t1 :: r2 ->
                                         let { tk = tk1; ttext = txt } = t1 in
                                         (match tk1 with
                                          | TString ->
                                            p_loop f minp SP ((SBin
                                              (BStartsWith, lhs, ((SStr
                                              txt) :: []))) :: []) r2
                                          | TVariable ->
                                            p_loop f minp SP ((SBin
                                              (BStartsWith, lhs, ((SVar
                                              txt) :: []))) :: []) r2
                                          | _ -> syn r1))
                                    | _ -> syn r)
                                 | _ -> syn r))
                           | SP -> ROk ((s, lhs), ts))
                     else ROk ((s, lhs), ts)
                   | KLikeRegex ->
                     if Nat.leb minp (S (S (S O)))
                     then (match s with
                           | SE ->
                             (match r with
                              | [] -> syn r
                              | t0 :: r1 ->
                                let { tk = tk0; ttext = pat } = t0 in
                                (match tk0 with
                                 | TString ->
                                   (match r1 with
                                    | [] ->
                                      rbind (new_regex l lhs pat [])
                                        (fun st ->
                                        p_loop f minp SP (st :: []) r1)
                                    | t1 :: r2 ->
                                      let { tk = tk1; ttext = _ } = t1 in
                                      (match tk1 with
                                       | TChar _ ->
                                         rbind (new_regex l lhs pat [])
                                           (fun st ->
                                           p_loop f minp SP (st :: []) r1)
                                       | TIdent ->
                                         rbind (new_regex l lhs pat [])
                                           (fun st ->
                                           p_loop f minp SP (st :: []) r1)
                                       | TString ->
                                         rbind (new_regex l lhs pat [])
                                           (fun st ->
                                           p_loop f minp SP (st :: []) r1)
                                       | TNumeric ->
                                         rbind (new_regex l lhs pat [])
                                           (fun st ->
                                           p_loop f minp SP (st :: []) r1)
                                       | TInt ->
                                         rbind (new_regex l lhs pat [])
                                           (fun st ->
                                           p_loop f minp SP (st :: []) r1)
                                       | TVariable ->
                                         rbind (new_regex l lhs pat [])
                                           (fun st ->
                                           p_loop f minp SP (st :: []) r1)
                                       | TOr ->
                                         rbind (new_regex l lhs pat [])
                                           (fun st ->
                                           p_loop f minp SP (st :: []) r1)
                                       | TAnd ->
                                         rbind (new_regex l lhs pat [])
                                           (fun st ->
                                           p_loop f minp SP (st :: []) r1)
                                       | TNot ->
                                         rbind (new_regex l lhs pat [])
                                           (fun st ->
                                           p_loop f minp SP (st :: []) r1)
                                       | TLess ->
                                         rbind (new_regex l lhs pat [])
                                           (fun st ->
                                           p_loop f minp SP (st :: []) r1)
                                       | TLessEq ->
                                         rbind (new_regex l lhs pat [])
                                           (fun st ->
                                           p_loop f minp SP (st :: []) r1)
                                       | TEqual ->
                                         rbind (new_regex l lhs pat [])
                                           (fun st ->
                                           p_loop f minp SP (st :: []) r1)
                                       | TNotEqual ->
                                         rbind (new_regex l lhs pat [])
                                           (fun st ->
                                           p_loop f minp SP (st :: []) r1)
                                       | TGreaterEq ->
                                         rbind (new_regex l lhs pat [])
                                           (fun st ->
                                           p_loop f minp SP (st :: []) r1)
                                       | TGreater ->
                                         rbind (new_regex l lhs pat [])
                                           (fun st ->
                                           p_loop f minp SP (st :: []) r1)
                                       | TAny ->
                                         rbind (new_regex l lhs pat [])
                                           (fun st ->
                                           p_loop f minp SP (st :: []) r1)
                                       | TKw k0 ->
                                         (match k0 with
                                          | KTo ->
                                            rbind (new_regex l lhs pat [])
                                              (fun st ->
                                              p_loop f minp SP (st :: []) r1)
                                          | KNull ->
                                            rbind (new_regex l lhs pat [])
                                              (fun st ->
                                              p_loop f minp SP (st :: []) r1)
                                          | KTrue ->
                                            rbind (new_regex l lhs pat [])
                                              (fun st ->
                                              p_loop f minp SP (st :: []) r1)
                                          | KFalse ->
                                            rbind (new_regex l lhs pat [])
                                              (fun st ->
                                              p_loop f minp SP (st :: []) r1)
                                          | KIs ->
                                            rbind (new_regex l lhs pat [])
                                              (fun st ->
                                              p_loop f minp SP (st :: []) r1)
                                          | KUnknown ->
                                            rbind (new_regex l lhs pat [])
                                              (fun st ->
                                              p_loop f minp SP (st :: []) r1)
                                          | KExists ->
                                            rbind (new_regex l lhs pat [])
                                              (fun st ->
                                              p_loop f minp SP (st :: []) r1)
                                          | KStrict ->
                                            rbind (new_regex l lhs pat [])
                                              (fun st ->
                                              p_loop f minp SP (st :: []) r1)
                                          | KLax ->
                                            rbind (new_regex l lhs pat [])
                                              (fun st ->
                                              p_loop f minp SP (st :: []) r1)
                                          | KLast ->
                                            rbind (new_regex l lhs pat [])
                                              (fun st ->
                                              p_loop f minp SP (st :: []) r1)
                                          | KStarts ->
                                            rbind (new_regex l lhs pat [])
                                              (fun st ->
                                              p_loop f minp SP (st :: []) r1)
                                          | KWith ->
                                            rbind (new_regex l lhs pat [])
                                              (fun st ->
                                              p_loop f minp SP (st :: []) r1)
                                          | KLikeRegex ->
                                            rbind (new_regex l lhs pat [])
                                              (fun st ->
                                              p_loop f minp SP (st :: []) r1)
                                          | KFlag ->
                                            (match r2 with
                                             | [] -> syn r2
                                             | t2 :: r3 ->
                                               let { tk = tk2; ttext = fl } =
                                                 t2
                                               in
                                               (match tk2 with
                                                | TString ->
                                                  rbind
                                                    (new_regex l lhs pat fl)
                                                    (fun st ->
                                                    p_loop f minp SP
                                                      (st :: []) r3)
                                                | _ -> syn r2))
                                          | KAbs ->
                                            rbind (new_regex l lhs pat [])
                                              (fun st ->
                                              p_loop f minp SP (st :: []) r1)
                                          | KSize ->
                                            rbind (new_regex l lhs pat [])
                                              (fun st ->
                                              p_loop f minp SP (st :: []) r1)
                                          | KType ->
                                            rbind (new_regex l lhs pat [])
                                              (fun st ->
                                              p_loop f minp SP (st :: []) r1)
                                          | KFloor ->
                                            rbind (new_regex l lhs pat [])
                                              (fun st ->
                                              p_loop f minp SP (st :: []) r1)
                                          | KDouble ->
                                            rbind (new_regex l lhs pat [])
                                              (fun st ->
                                              p_loop f minp SP (st :: []) r1)
                                          | KCeiling ->
                                            rbind (new_regex l lhs pat [])
                                              (fun st ->
                                              p_loop f minp SP (st :: []) r1)
                                          | KKeyvalue ->
                                            rbind (new_regex l lhs pat [])
                                              (fun st ->
                                              p_loop f minp SP (st :: []) r1)
                                          | KDatetime ->
                                            rbind (new_regex l lhs pat [])
                                              (fun st ->
                                              p_loop f minp SP (st :: []) r1)
                                          | KBigint ->
                                            rbind (new_regex l lhs pat [])
                                              (fun st ->
                                              p_loop f minp SP (st :: []) r1)
                                          | KBoolean ->
                                            rbind (new_regex l lhs pat [])
                                              (fun st ->
                                              p_loop f minp SP (st :: []) r1)
                                          | KDate ->
                                            rbind (new_regex l lhs pat [])
                                              (fun st ->
                                              p_loop f minp SP (st :: []) r1)
                                          | KDecimal ->
                                            rbind (new_regex l lhs pat [])
                                              (fun st ->
                                              p_loop f minp SP (st :: []) r1)
                                          | KInteger ->
                                            rbind (new_regex l lhs pat [])
                                              (fun st ->
                                              p_loop f minp SP (st :: []) r1)
                                          | KNumber ->
                                            rbind (new_regex l lhs pat [])
                                              (fun st ->
                                              p_loop f minp SP (st :: []) r1)
                                          | KStringfunc ->
                                            rbind (new_regex l lhs pat [])
                                              (fun st ->
                                              p_loop f minp SP (st :: []) r1)
                                          | KTime ->
                                            rbind (new_regex l lhs pat [])
                                              (fun st ->
                                              p_loop f minp SP (st :: []) r1)
                                          | KTimeTz ->
                                            rbind (new_regex l lhs pat [])
                                              (fun st ->
                                              p_loop f minp SP (st :: []) r1)
                                          | KTimestamp ->
                                            rbind (new_regex l lhs pat [])
                                              (fun st ->
                                              p_loop f minp SP (st :: []) r1)
                                          | KTimestampTz ->
                                            rbind (new_regex l lhs pat [])
                                              (fun st ->
                                              p_loop f minp SP (st :: []) r1))
                                       | TErr e -> RErr (ELex e)))
                                 | _ -> syn r))
                           | SP -> ROk ((s, lhs), ts))
                     else ROk ((s, lhs), ts)
                   | _ -> ROk ((s, lhs), ts))
                | _ -> ROk ((s, lhs), ts)))))
  and p_accs fuel ts =
    match fuel with
    | O -> RErr EFuel
    | S f ->
      (match ts with
       | [] -> ROk ([], ts)
       | t :: r ->
         let { tk = tk0; ttext = _ } = t in
         (match tk0 with
          | TChar c ->
            (match c with
             | Zpos p ->
               (match p with
                | XI p0 ->
                  (match p0 with
                   | XI p1 ->
                     (match p1 with
                      | XI p2 ->
                        (match p2 with
                         | XI p3 ->
                           (match p3 with
                            | XI p4 ->
                              (match p4 with
                               | XH ->
                                 (match r with
                                  | [] -> syn r
                                  | t0 :: r0 ->
                                    let { tk = tk1; ttext = _ } = t0 in
                                    (match tk1 with
                                     | TChar c0 ->
                                       (match c0 with
                                        | Zpos p5 ->
                                          (match p5 with
                                           | XO p6 ->
                                             (match p6 with
                                              | XO p7 ->
                                                (match p7 with
                                                 | XO p8 ->
                                                   (match p8 with
                                                    | XI p9 ->
                                                      (match p9 with
                                                       | XO p10 ->
                                                         (match p10 with
                                                          | XH ->
                                                            rbind
                                                              (p_eop0 f O
                                                                true r0)
                                                              (fun pat ->
                                                              let (p11, r1) =
                                                                pat
                                                              in
                                                              let (s, c1) =
                                                                p11
                                                              in
                                                              (match s with
                                                               | SE -> syn r1
                                                               | SP ->
                                                                 (match r1 with
                                                                  | [] ->
                                                                    syn r1
                                                                  | t1 :: r2 ->
                                                                    let { tk =
                                                                    tk2;
                                                                    ttext =
                                                                    _ } = t1
                                                                    in
                                                                    (
                                                                    match tk2 with
                                                                    | TChar c2 ->
                                                                    (match c2 with
                                                                    | Zpos p12 ->
                                                                    (match p12 with
                                                                    | XI p13 ->
                                                                    (match p13 with
                                                                    | XO p14 ->
                                                                    (match p14 with
                                                                    | XO p15 ->
                                                                    (match p15 with
                                                                    | XI p16 ->
                                                                    (match p16 with
                                                                    | XO p17 ->
                                                                    (match p17 with
                                                                    | XH ->
                                                                    rbind
                                                                    (p_accs f
                                                                    r2)
                                                                    (fun pat0 ->
                                                                    let (
                                                                    more, r3) =
                                                                    pat0
                                                                    in
                                                                    ROk
                                                                    (((SUn
                                                                    (UFilter,
                                                                    c1)) :: more),
                                                                    r3))
                                                                    | _ ->
                                                                    syn r1)
                                                                    | _ ->
                                                                    syn r1)
                                                                    | _ ->
                                                                    syn r1)
                                                                    | _ ->
                                                                    syn r1)
                                                                    | _ ->
                                                                    syn r1)
                                                                    | _ ->
                                                                    syn r1)
                                                                    | _ ->
                                                                    syn r1)
                                                                    | _ ->
                                                                    syn r1))))
                                                          | _ -> syn r)
                                                       | _ -> syn r)
                                                    | _ -> syn r)
                                                 | _ -> syn r)
                                              | _ -> syn r)
                                           | _ -> syn r)
                                        | _ -> syn r)
                                     | _ -> syn r))
                               | _ -> ROk ([], ts))
                            | _ -> ROk ([], ts))
                         | _ -> ROk ([], ts))
                      | XO p2 ->
                        (match p2 with
                         | XI p3 ->
                           (match p3 with
                            | XI p4 ->
                              (match p4 with
                               | XO p5 ->
                                 (match p5 with
                                  | XH ->
                                    rbind
                                      (match r with
                                       | [] ->
                                         rbind (p_index f r) (fun pat ->
                                           let (subs, r1) = pat in
                                           ROk ((SIndex subs), r1))
                                       | t0 :: r0 ->
                                         let { tk = tk1; ttext = _ } = t0 in
                                         (match tk1 with
                                          | TChar c0 ->
                                            (match c0 with
                                             | Z0 ->
                                               rbind (p_index f r)
                                                 (fun pat ->
                                                 let (subs, r1) = pat in
                                                 ROk ((SIndex subs), r1))
                                             | Zpos p6 ->
                                               (match p6 with
                                                | XI _ ->
                                                  rbind (p_index f r)
                                                    (fun pat ->
                                                    let (subs, r1) = pat in
                                                    ROk ((SIndex subs), r1))
                                                | XO p7 ->
                                                  (match p7 with
                                                   | XI p8 ->
                                                     (match p8 with
                                                      | XI _ ->
                                                        rbind (p_index f r)
                                                          (fun pat ->
                                                          let (subs, r1) = pat
                                                          in
                                                          ROk ((SIndex subs),
                                                          r1))
                                                      | XO p9 ->
                                                        (match p9 with
                                                         | XI p10 ->
                                                           (match p10 with
                                                            | XI _ ->
                                                              rbind
                                                                (p_index f r)
                                                                (fun pat ->
                                                                let (
                                                                  subs, r1) =
                                                                  pat
                                                                in
                                                                ROk ((SIndex
                                                                subs), r1))
                                                            | XO p11 ->
                                                              (match p11 with
                                                               | XI _ ->
                                                                 rbind
                                                                   (p_index f
                                                                    r)
                                                                   (fun pat ->
                                                                   let (
                                                                    subs, r1) =
                                                                    pat
                                                                   in
                                                                   ROk
                                                                   ((SIndex
                                                                   subs), r1))
                                                               | XO _ ->
                                                                 rbind
                                                                   (p_index f
                                                                    r)
                                                                   (fun pat ->
                                                                   let (
                                                                    subs, r1) =
                                                                    pat
                                                                   in
                                                                   ROk
                                                                   ((SIndex
                                                                   subs), r1))
                                                               | XH ->
                                                                 (match r0 with
                                                                  | [] ->
                                                                    syn r0
                                                                  | t1 :: r1 ->
                                                                    let { tk =
                                                                    tk2;
                                                                    ttext =
                                                                    _ } = t1
                                                                    in
                                                                    (
                                                                    match tk2 with
                                                                    | TChar c1 ->
                                                                    (match c1 with
                                                                    | Zpos p12 ->
                                                                    (match p12 with
                                                                    | XI p13 ->
                                                                    (match p13 with
                                                                    | XO p14 ->
                                                                    (match p14 with
                                                                    | XI p15 ->
                                                                    (match p15 with
                                                                    | XI p16 ->
                                                                    (match p16 with
                                                                    | XI p17 ->
                                                                    (match p17 with
                                                                    | XO p18 ->
                                                                    (match p18 with
                                                                    | XH ->
                                                                    ROk
                                                                    ((SConst
                                                                    CAnyArray),
                                                                    r1)
                                                                    | _ ->
                                                                    syn r0)
                                                                    | _ ->
                                                                    syn r0)
                                                                    | _ ->
                                                                    syn r0)
                                                                    | _ ->
                                                                    syn r0)
                                                                    | _ ->
                                                                    syn r0)
                                                                    | _ ->
                                                                    syn r0)
                                                                    | _ ->
                                                                    syn r0)
                                                                    | _ ->
                                                                    syn r0)
                                                                    | _ ->
                                                                    syn r0)))
                                                            | XH ->
                                                              rbind
                                                                (p_index f r)
                                                                (fun pat ->
                                                                let (
                                                                  subs, r1) =
                                                                  pat
                                                                in
                                                                ROk ((SIndex
                                                                subs), r1)))
                                                         | XO _ ->
                                                           rbind
                                                             (p_index f r)
                                                             (fun pat ->
                                                             let (subs, r1) =
                                                               pat
                                                             in
                                                             ROk ((SIndex
                                                             subs), r1))
                                                         | XH ->
                                                           rbind
                                                             (p_index f r)
                                                             (fun pat ->
                                                             let (subs, r1) =
                                                               pat
                                                             in
                                                             ROk ((SIndex
                                                             subs), r1)))
                                                      | XH ->
                                                        rbind (p_index f r)
                                                          (fun pat ->
                                                          let (subs, r1) = pat
                                                          in
                                                          ROk ((SIndex subs),
                                                          r1)))
                                                   | XO _ ->
                                                     rbind (p_index f r)
                                                       (fun pat ->
                                                       let (subs, r1) = pat in
                                                       ROk ((SIndex subs), r1))
                                                   | XH ->
                                                     rbind (p_index f r)
                                                       (fun pat ->
                                                       let (subs, r1) = pat in
                                                       ROk ((SIndex subs), r1)))
                                                | XH ->
                                                  rbind (p_index f r)
                                                    (fun pat ->
                                                    let (subs, r1) = pat in
                                                    ROk ((SIndex subs), r1)))
                                             | Zneg _ ->
                                               rbind (p_index f r)
                                                 (fun pat ->
                                                 let (subs, r1) = pat in
                                                 ROk ((SIndex subs), r1)))
                                          | TIdent ->
                                            rbind (p_index f r) (fun pat ->
                                              let (subs, r1) = pat in
                                              ROk ((SIndex subs), r1))
                                          | TString ->
                                            rbind (p_index f r) (fun pat ->
                                              let (subs, r1) = pat in
                                              ROk ((SIndex subs), r1))
                                          | TNumeric ->
                                            rbind (p_index f r) (fun pat ->
                                              let (subs, r1) = pat in
                                              ROk ((SIndex subs), r1))
                                          | TInt ->
                                            rbind (p_index f r) (fun pat ->
                                              let (subs, r1) = pat in
                                              ROk ((SIndex subs), r1))
                                          | TVariable ->
                                            rbind (p_index f r) (fun pat ->
                                              let (subs, r1) = pat in
                                              ROk ((SIndex subs), r1))
                                          | TOr ->
                                            rbind (p_index f r) (fun pat ->
                                              let (subs, r1) = pat in
                                              ROk ((SIndex subs), r1))
                                          | TAnd ->
                                            rbind (p_index f r) (fun pat ->
                                              let (subs, r1) = pat in
                                              ROk ((SIndex subs), r1))
                                          | TNot ->
                                            rbind (p_index f r) (fun pat ->
                                              let (subs, r1) = pat in
                                              ROk ((SIndex subs), r1))
                                          | TLess ->
                                            rbind (p_index f r) (fun pat ->
                                              let (subs, r1) = pat in
                                              ROk ((SIndex subs), r1))
                                          | TLessEq ->
                                            rbind (p_index f r) (fun pat ->
                                              let (subs, r1) = pat in
                                              ROk ((SIndex subs), r1))
                                          | TEqual ->
                                            rbind (p_index f r) (fun pat ->
                                              let (subs, r1) = pat in
                                              ROk ((SIndex subs), r1))
                                          | TNotEqual ->
                                            rbind (p_index f r) (fun pat ->
                                              let (subs, r1) = pat in
                                              ROk ((SIndex subs), r1))
                                          | TGreaterEq ->
                                            rbind (p_index f r) (fun pat ->
                                              let (subs, r1) = pat in
                                              ROk ((SIndex subs), r1))
                                          | TGreater ->
                                            rbind (p_index f r) (fun pat ->
                                              let (subs, r1) = pat in
                                              ROk ((SIndex subs), r1))
                                          | TAny ->
                                            rbind (p_index f r) (fun pat ->
                                              let (subs, r1) = pat in
                                              ROk ((SIndex subs), r1))
                                          | TKw _ ->
                                            rbind (p_index f r) (fun pat ->
                                              let (subs, r1) = pat in
                                              ROk ((SIndex subs), r1))
                                          | TErr _ ->
                                            rbind (p_index f r) (fun pat ->
                                              let (subs, r1) = pat in
                                              ROk ((SIndex subs), r1))))
                                      (fun pat ->
                                      let (st, r1) = pat in
                                      rbind (p_accs f r1) (fun pat0 ->
                                        let (more, r2) = pat0 in
                                        ROk ((st :: more), r2)))
                                  | _ -> ROk ([], ts))
                               | _ -> ROk ([], ts))
                            | _ -> ROk ([], ts))
                         | _ -> ROk ([], ts))
                      | XH -> ROk ([], ts))
                   | _ -> ROk ([], ts))
                | XO p0 ->
                  (match p0 with
                   | XI p1 ->
                     (match p1 with
                      | XI p2 ->
                        (match p2 with
                         | XI p3 ->
                           (match p3 with
                            | XO p4 ->
                              (match p4 with
                               | XH ->
                                 rbind (p_dot l r) (fun pat ->
                                   let (st, r1) = pat in
                                   rbind (p_accs f r1) (fun pat0 ->
                                     let (more, r2) = pat0 in
                                     ROk ((st :: more), r2)))
                               | _ -> ROk ([], ts))
                            | _ -> ROk ([], ts))
                         | _ -> ROk ([], ts))
                      | _ -> ROk ([], ts))
                   | _ -> ROk ([], ts))
                | XH -> ROk ([], ts))
             | _ -> ROk ([], ts))
          | _ -> ROk ([], ts)))
  and p_index fuel ts =
    match fuel with
    | O -> RErr EFuel
    | S f ->
      rbind (p_eop0 f (S (S (S (S O)))) false ts) (fun pat ->
        let (p, r) = pat in
        let (_, a) = p in
        rbind
          (match r with
           | [] -> ROk (None, r)
           | t :: r0 ->
             let { tk = tk0; ttext = _ } = t in
             (match tk0 with
              | TKw k ->
                (match k with
                 | KTo ->
                   rbind (p_eop0 f (S (S (S (S O)))) false r0) (fun pat0 ->
                     let (p0, r1) = pat0 in
                     let (_, b) = p0 in ROk ((Some b), r1))
                 | _ -> ROk (None, r))
              | _ -> ROk (None, r))) (fun pat0 ->
          let (b, r1) = pat0 in
          (match r1 with
           | [] -> syn r1
           | t :: r2 ->
             let { tk = tk0; ttext = _ } = t in
             (match tk0 with
              | TChar c ->
                (match c with
                 | Zpos p0 ->
                   (match p0 with
                    | XI p1 ->
                      (match p1 with
                       | XO p2 ->
                         (match p2 with
                          | XI p3 ->
                            (match p3 with
                             | XI p4 ->
                               (match p4 with
                                | XI p5 ->
                                  (match p5 with
                                   | XO p6 ->
                                     (match p6 with
                                      | XH -> ROk (((a, b) :: []), r2)
                                      | _ -> syn r1)
                                   | _ -> syn r1)
                                | _ -> syn r1)
                             | _ -> syn r1)
                          | _ -> syn r1)
                       | _ -> syn r1)
                    | XO p1 ->
                      (match p1 with
                       | XO p2 ->
                         (match p2 with
                          | XI p3 ->
                            (match p3 with
                             | XI p4 ->
                               (match p4 with
                                | XO p5 ->
                                  (match p5 with
                                   | XH ->
                                     rbind (p_index f r2) (fun pat1 ->
                                       let (more, r3) = pat1 in
                                       ROk (((a, b) :: more), r3))
                                   | _ -> syn r1)
                                | _ -> syn r1)
                             | _ -> syn r1)
                          | _ -> syn r1)
                       | _ -> syn r1)
                    | XH -> syn r1)
                 | _ -> syn r1)
              | _ -> syn r1))))
  in p_eop0

(** val validate_step : step -> nat -> bool -> err_kind option **)

let rec validate_step s depth insub =
  let vchain =
    let rec vc c depth0 insub0 =
      match c with
      | [] -> None
      | x :: r ->
        (match validate_step x depth0 insub0 with
         | Some e -> Some e
         | None -> vc r depth0 insub0)
    in vc
  in
  (match s with
   | SConst k ->
     (match k with
      | CCurrent -> (match depth with
                     | O -> Some ECurrentRoot
                     | S _ -> None)
      | CLast -> if insub then None else Some ELastSubscript
      | _ -> None)
   | SBin (_, l, r) ->
     (match vchain l depth insub with
      | Some e -> Some e
      | None -> vchain r depth insub)
   | SUn (op, a) ->
     vchain a (match op with
               | UFilter -> S depth
               | _ -> depth) insub
   | SRegex (a, _, _) -> vchain a depth insub
   | SIndex subs ->
     let rec vs = function
     | [] -> None
     | p :: r ->
       let (a, b) = p in
       (match vchain a depth true with
        | Some e -> Some e
        | None ->
          (match match b with
                 | Some c -> vchain c depth true
                 | None -> None with
           | Some e -> Some e
           | None -> vs r))
     in vs subs
   | _ -> None)

(** val validate_chain : chain -> nat -> bool -> err_kind option **)

let rec validate_chain c depth insub =
  match c with
  | [] -> None
  | x :: r ->
    (match validate_step x depth insub with
     | Some e -> Some e
     | None -> validate_chain r depth insub)

(** val parser_fuel : token list -> nat **)

let parser_fuel ts =
  add (mul (S (S (S (S (S (S O)))))) (length ts)) (S (S (S (S (S (S (S (S
    O))))))))

(** val parse_tokens : goLib -> token list -> parse_result **)

let parse_tokens l ts = match ts with
| [] ->
  let lax = true in
  (match p_eop l (parser_fuel ts) O true ts with
   | ROk a ->
     let (p, r) = a in
     let (s, c) = p in
     (match r with
      | [] ->
        (match validate_chain c O false with
         | Some e -> PErr e
         | None ->
           POk { p_lax = lax; p_pred =
             (match s with
              | SE -> false
              | SP -> true); p_root = c })
      | t :: _ ->
        let { tk = tk0; ttext = _ } = t in
        (match tk0 with
         | TErr e -> PErr (ELex e)
         | _ ->
           (match validate_chain c O false with
            | Some e -> PErr e
            | None -> PErr ESyntax)))
   | RErr e -> PErr e)
| t :: r ->
  let { tk = tk0; ttext = _ } = t in
  (match tk0 with
   | TKw k ->
     (match k with
      | KStrict ->
        let lax = false in
        (match p_eop l (parser_fuel r) O true r with
         | ROk a ->
           let (p, r0) = a in
           let (s, c) = p in
           (match r0 with
            | [] ->
              (match validate_chain c O false with
               | Some e -> PErr e
               | None ->
                 POk { p_lax = lax; p_pred =
                   (match s with
                    | SE -> false
                    | SP -> true); p_root = c })
            | t0 :: _ ->
              let { tk = tk1; ttext = _ } = t0 in
              (match tk1 with
               | TErr e -> PErr (ELex e)
               | _ ->
                 (match validate_chain c O false with
                  | Some e -> PErr e
                  | None -> PErr ESyntax)))
         | RErr e -> PErr e)
      | KLax ->
        let lax = true in
        (match p_eop l (parser_fuel r) O true r with
         | ROk a ->
           let (p, r0) = a in
           let (s, c) = p in
           (match r0 with
            | [] ->
              (match validate_chain c O false with
               | Some e -> PErr e
               | None ->
                 POk { p_lax = lax; p_pred =
                   (match s with
                    | SE -> false
                    | SP -> true); p_root = c })
            | t0 :: _ ->
              let { tk = tk1; ttext = _ } = t0 in
              (match tk1 with
               | TErr e -> PErr (ELex e)
               | _ ->
                 (match validate_chain c O false with
                  | Some e -> PErr e
                  | None -> PErr ESyntax)))
         | RErr e -> PErr e)
      | _ ->
        let lax = true in
        (match p_eop l (parser_fuel ts) O true ts with
         | ROk a ->
           let (p, r0) = a in
           let (s, c) = p in
           (match r0 with
            | [] ->
              (match validate_chain c O false with
               | Some e -> PErr e
               | None ->
                 POk { p_lax = lax; p_pred =
                   (match s with
                    | SE -> false
                    | SP -> true); p_root = c })
            | t0 :: _ ->
              let { tk = tk1; ttext = _ } = t0 in
              (match tk1 with
               | TErr e -> PErr (ELex e)
               | _ ->
                 (match validate_chain c O false with
                  | Some e -> PErr e
                  | None -> PErr ESyntax)))
         | RErr e -> PErr e))
   | _ ->
     let lax = true in
     (match p_eop l (parser_fuel ts) O true ts with
      | ROk a ->
        let (p, r0) = a in
        let (s, c) = p in
        (match r0 with
         | [] ->
           (match validate_chain c O false with
            | Some e -> PErr e
            | None ->
              POk { p_lax = lax; p_pred =
                (match s with
                 | SE -> false
                 | SP -> true); p_root = c })
         | t0 :: _ ->
           let { tk = tk1; ttext = _ } = t0 in
           (match tk1 with
            | TErr e -> PErr (ELex e)
            | _ ->
              (match validate_chain c O false with
               | Some e -> PErr e
               | None -> PErr ESyntax)))
      | RErr e -> PErr e))

(** val parse : goLib -> char list -> parse_result **)

let parse l s =
  parse_tokens l (lex l s)

(** val is_accessor_step : step -> bool **)

let is_accessor_step = function
| SConst k -> (match k with
               | CAnyArray -> true
               | CAnyKey -> true
               | _ -> false)
| SStr _ -> false
| SInteger _ -> false
| SNumeric _ -> false
| SVar _ -> false
| SBin (_, _, _) -> false
| SUn (op, _) -> (match op with
                  | UFilter -> true
                  | _ -> false)
| SRegex (_, _, _) -> false
| _ -> true

(** val is_pred_step : step -> bool **)

let is_pred_step = function
| SBin (op, _, _) ->
  (match op with
   | BAdd -> false
   | BSub -> false
   | BMul -> false
   | BDiv -> false
   | BMod -> false
   | _ -> true)
| SUn (op, _) ->
  (match op with
   | UExists -> true
   | UNot -> true
   | UIsUnknown -> true
   | _ -> false)
| SRegex (_, _, _) -> true
| _ -> false

(** val is_pred_chain : chain -> bool **)

let is_pred_chain = function
| [] -> false
| s :: l -> (match l with
             | [] -> is_pred_step s
             | _ :: _ -> false)

(** val is_expr_chain : chain -> bool **)

let is_expr_chain c =
  negb (is_pred_chain c)

(** val chain_shape : chain -> bool **)

let chain_shape = function
| [] -> false
| h :: t -> (&&) (negb (is_accessor_step h)) (forallb is_accessor_step t)

(** val wf_text : char list -> bool **)

let wf_text s =
  let rs = runes_of s in
  (&&) (forallb (fun r -> (&&) (valid_rune r) (negb (Z.eqb r Z0))) rs)
    (eqb0 (string_of_runes rs) s)

(** val is_number_chain : chain -> bool **)

let is_number_chain = function
| [] -> false
| s :: l ->
  (match s with
   | SInteger _ -> (match l with
                    | [] -> true
                    | _ :: _ -> false)
   | SNumeric _ -> (match l with
                    | [] -> true
                    | _ :: _ -> false)
   | _ -> false)

(** val lit_int_ok : z -> bool **)

let lit_int_ok z0 =
  (&&) (Z.leb (Z.opp max_int64) z0) (Z.leb z0 max_int64)

(** val step_ok : goLib -> step -> bool **)

let step_ok l = function
| SStr t -> wf_text t
| SInteger z0 -> lit_int_ok z0
| SNumeric f -> f64_finite f
| SVar t -> wf_text t
| SKey t -> wf_text t
| SBin (op, l0, r) ->
  (match op with
   | BAnd -> (&&) (is_pred_chain l0) (is_pred_chain r)
   | BOr -> (&&) (is_pred_chain l0) (is_pred_chain r)
   | BStartsWith ->
     (&&) (is_expr_chain l0)
       (match r with
        | [] -> false
        | s0 :: l1 ->
          (match s0 with
           | SStr _ -> (match l1 with
                        | [] -> true
                        | _ :: _ -> false)
           | SVar _ -> (match l1 with
                        | [] -> true
                        | _ :: _ -> false)
           | _ -> false))
   | _ -> (&&) (is_expr_chain l0) (is_expr_chain r))
| SUn (op, a) ->
  (match op with
   | UExists -> is_expr_chain a
   | UPlus -> (&&) (is_expr_chain a) (negb (is_number_chain a))
   | UMinus -> (&&) (is_expr_chain a) (negb (is_number_chain a))
   | _ -> is_pred_chain a)
| SRegex (a, pat, fl) ->
  (&&)
    ((&&)
      ((&&) ((&&) ((&&) (is_expr_chain a) (wf_text pat)) (Z.leb Z0 fl))
        (Z.ltb fl (Zpos (XO (XO (XO (XO (XO XH))))))))
      ((||) (Z.eqb (Z.coq_land fl reWSpace) Z0)
        (negb (Z.eqb (Z.coq_land fl reQuote) Z0)))) (l.regex_ok pat fl)
| SDecimal (p, sc) ->
  (match p with
   | Some _ ->
     (&&) (match p with
           | Some z0 -> lit_int_ok z0
           | None -> true)
       (match sc with
        | Some z0 -> lit_int_ok z0
        | None -> true)
   | None ->
     (match sc with
      | Some _ -> false
      | None ->
        (&&) (match p with
              | Some z0 -> lit_int_ok z0
              | None -> true)
          (match sc with
           | Some z0 -> lit_int_ok z0
           | None -> true)))
| SDt (op, tmpl, prec) ->
  (match op with
   | DDateTime ->
     (match prec with
      | Some _ -> false
      | None -> (match tmpl with
                 | Some t -> wf_text t
                 | None -> true))
   | DDate ->
     (match tmpl with
      | Some _ -> false
      | None -> (match prec with
                 | Some _ -> false
                 | None -> true))
   | _ ->
     (match tmpl with
      | Some _ -> false
      | None ->
        (match prec with
         | Some z0 -> (&&) (Z.leb Z0 z0) (Z.leb z0 max_int64)
         | None -> true)))
| SAny (a, b) ->
  (&&) ((&&) ((&&) (Z.leb Z0 a) (Z.leb a max_uint32)) (Z.leb Z0 b))
    (Z.leb b max_uint32)
| SIndex subs ->
  (&&) (negb (match subs with
              | [] -> true
              | _ :: _ -> false))
    (forallb (fun ab ->
      (&&) (is_expr_chain (fst ab))
        (match snd ab with
         | Some c -> is_expr_chain c
         | None -> true)) subs)
| _ -> true

(** val st_all : (step -> bool) -> (step list -> bool) -> step -> bool **)

let rec st_all p q s =
  let ca =
    let rec ca = function
    | [] -> true
    | x :: r -> (&&) (st_all p q x) (ca r)
    in ca
  in
  (&&) (p s)
    (match s with
     | SBin (_, l, r) -> (&&) ((&&) (q l) (ca l)) ((&&) (q r) (ca r))
     | SUn (_, a) -> (&&) (q a) (ca a)
     | SRegex (a, _, _) -> (&&) (q a) (ca a)
     | SIndex subs ->
       let rec ss = function
       | [] -> true
       | p0 :: r ->
         let (a, b) = p0 in
         (&&)
           ((&&) ((&&) (q a) (ca a))
             (match b with
              | Some c -> (&&) (q c) (ca c)
              | None -> true)) (ss r)
       in ss subs
     | _ -> true)

(** val ch_all : (step -> bool) -> (step list -> bool) -> chain -> bool **)

let rec ch_all p q = function
| [] -> true
| x :: r -> (&&) (st_all p q x) (ch_all p q r)

(** val wf_chain : goLib -> chain -> bool **)

let wf_chain l c =
  (&&) (chain_shape c) (ch_all (step_ok l) chain_shape c)

(** val binop_name : binop -> char list **)

let binop_name = function
| BAnd -> '&'::('&'::[])
| BOr -> '|'::('|'::[])
| BEq -> '='::('='::[])
| BNe -> '!'::('='::[])
| BLt -> '<'::[]
| BGt -> '>'::[]
| BLe -> '<'::('='::[])
| BGe -> '>'::('='::[])
| BStartsWith ->
  's'::('t'::('a'::('r'::('t'::('s'::(' '::('w'::('i'::('t'::('h'::[]))))))))))
| BAdd -> '+'::[]
| BSub -> '-'::[]
| BMul -> '*'::[]
| BDiv -> '/'::[]
| BMod -> '%'::[]

(** val binop_prio : binop -> nat **)

let binop_prio = function
| BAnd -> S O
| BOr -> O
| BAdd -> S (S (S O))
| BSub -> S (S (S O))
| BMul -> S (S (S (S O)))
| BDiv -> S (S (S (S O)))
| BMod -> S (S (S (S O)))
| _ -> S (S O)

(** val const_name : constk -> char list **)

let const_name = function
| CRoot -> '$'::[]
| CCurrent -> '@'::[]
| CLast -> 'l'::('a'::('s'::('t'::[])))
| CAnyArray -> '['::('*'::(']'::[]))
| CAnyKey -> '*'::[]
| CTrue -> 't'::('r'::('u'::('e'::[])))
| CFalse -> 'f'::('a'::('l'::('s'::('e'::[]))))
| CNull -> 'n'::('u'::('l'::('l'::[])))

(** val meth_name : meth -> char list **)

let meth_name = function
| MAbs -> '.'::('a'::('b'::('s'::('('::(')'::[])))))
| MSize -> '.'::('s'::('i'::('z'::('e'::('('::(')'::[]))))))
| MType -> '.'::('t'::('y'::('p'::('e'::('('::(')'::[]))))))
| MFloor -> '.'::('f'::('l'::('o'::('o'::('r'::('('::(')'::[])))))))
| MCeiling ->
  '.'::('c'::('e'::('i'::('l'::('i'::('n'::('g'::('('::(')'::[])))))))))
| MDouble -> '.'::('d'::('o'::('u'::('b'::('l'::('e'::('('::(')'::[]))))))))
| MKeyValue ->
  '.'::('k'::('e'::('y'::('v'::('a'::('l'::('u'::('e'::('('::(')'::[]))))))))))
| MBigInt -> '.'::('b'::('i'::('g'::('i'::('n'::('t'::('('::(')'::[]))))))))
| MBoolean ->
  '.'::('b'::('o'::('o'::('l'::('e'::('a'::('n'::('('::(')'::[])))))))))
| MInteger ->
  '.'::('i'::('n'::('t'::('e'::('g'::('e'::('r'::('('::(')'::[])))))))))
| MNumber -> '.'::('n'::('u'::('m'::('b'::('e'::('r'::('('::(')'::[]))))))))
| MString -> '.'::('s'::('t'::('r'::('i'::('n'::('g'::('('::(')'::[]))))))))

(** val dtop_name : dtop -> char list **)

let dtop_name = function
| DDateTime -> '.'::('d'::('a'::('t'::('e'::('t'::('i'::('m'::('e'::[]))))))))
| DDate -> '.'::('d'::('a'::('t'::('e'::[]))))
| DTime -> '.'::('t'::('i'::('m'::('e'::[]))))
| DTimeTZ -> '.'::('t'::('i'::('m'::('e'::('_'::('t'::('z'::[])))))))
| DTimestamp ->
  '.'::('t'::('i'::('m'::('e'::('s'::('t'::('a'::('m'::('p'::[])))))))))
| DTimestampTZ ->
  '.'::('t'::('i'::('m'::('e'::('s'::('t'::('a'::('m'::('p'::('_'::('t'::('z'::[]))))))))))))

(** val step_prio : step -> nat **)

let step_prio = function
| SBin (op, _, _) -> binop_prio op
| SUn (op, _) ->
  (match op with
   | UPlus -> S (S (S (S (S O))))
   | UMinus -> S (S (S (S (S O))))
   | _ -> S (S (S (S (S (S O))))))
| _ -> S (S (S (S (S (S O)))))

(** val chain_prio : chain -> nat **)

let chain_prio = function
| [] -> S (S (S (S (S (S O)))))
| x :: _ -> step_prio x

(** val regex_flags_string : z -> char list **)

let regex_flags_string f =
  if Z.eqb f Z0
  then []
  else append (' '::('f'::('l'::('a'::('g'::(' '::('"'::[])))))))
         (append (if Z.ltb Z0 (Z.coq_land f reICase) then 'i'::[] else [])
           (append (if Z.ltb Z0 (Z.coq_land f reDotAll) then 's'::[] else [])
             (append
               (if Z.ltb Z0 (Z.coq_land f reMLine) then 'm'::[] else [])
               (append
                 (if Z.ltb Z0 (Z.coq_land f reWSpace) then 'x'::[] else [])
                 (append
                   (if Z.ltb Z0 (Z.coq_land f reQuote) then 'q'::[] else [])
                   ('"'::[]))))))

(** val hex_digit : z -> z **)

let hex_digit d =
  if Z.ltb d (Zpos (XO (XI (XO XH))))
  then Z.add (Zpos (XO (XO (XO (XO (XI XH)))))) d
  else Z.add (Zpos (XI (XI (XI (XO (XI (XO XH))))))) d

(** val hex_min56 : z -> z list **)

let hex_min56 r =
  app
    (if Z.ltb r (Zpos (XO (XO (XO (XO (XO (XO (XO (XO (XO (XO (XO (XO (XO (XO
          (XO (XO (XO (XO (XO (XO XH)))))))))))))))))))))
     then []
     else (hex_digit
            (Z.modulo
              (Z.div r (Zpos (XO (XO (XO (XO (XO (XO (XO (XO (XO (XO (XO (XO
                (XO (XO (XO (XO (XO (XO (XO (XO XH))))))))))))))))))))))
              (Zpos (XO (XO (XO (XO XH))))))) :: [])
    ((hex_digit
       (Z.modulo
         (Z.div r (Zpos (XO (XO (XO (XO (XO (XO (XO (XO (XO (XO (XO (XO (XO
           (XO (XO (XO XH)))))))))))))))))) (Zpos (XO (XO (XO (XO XH))))))) :: (
    (hex_digit
      (Z.modulo
        (Z.div r (Zpos (XO (XO (XO (XO (XO (XO (XO (XO (XO (XO (XO (XO
          XH)))))))))))))) (Zpos (XO (XO (XO (XO XH))))))) :: ((hex_digit
                                                                 (Z.modulo
                                                                   (Z.div r
                                                                    (Zpos (XO
                                                                    (XO (XO
                                                                    (XO (XO
                                                                    (XO (XO
                                                                    (XO
                                                                    XH))))))))))
                                                                   (Zpos (XO
                                                                   (XO (XO
                                                                   (XO
                                                                   XH))))))) :: (
    (hex_digit
      (Z.modulo (Z.div r (Zpos (XO (XO (XO (XO XH)))))) (Zpos (XO (XO (XO (XO
        XH))))))) :: ((hex_digit (Z.modulo r (Zpos (XO (XO (XO (XO XH))))))) :: [])))))

(** val quote_rune : goLib -> z -> z list **)

let quote_rune l r =
  if Z.eqb r (Zpos (XI (XI XH)))
  then (Zpos (XO (XO (XI (XI (XI (XO XH))))))) :: ((Zpos (XO (XO (XO (XI (XI
         (XI XH))))))) :: ((Zpos (XO (XO (XO (XO (XI XH)))))) :: ((Zpos (XI
         (XI (XI (XO (XI XH)))))) :: [])))
  else if (&&)
            (Z.ltb (Zpos (XI (XI (XI (XI (XI (XI (XI (XI (XI (XI (XI (XI (XI
              (XI (XI XH)))))))))))))))) r) (negb (l.is_print r))
       then app ((Zpos (XO (XO (XI (XI (XI (XO XH))))))) :: ((Zpos (XI (XO
              (XI (XO (XI (XI XH))))))) :: ((Zpos (XI (XI (XO (XI (XI (XI
              XH))))))) :: [])))
              (app (hex_min56 r) ((Zpos (XI (XO (XI (XI (XI (XI
                XH))))))) :: []))
       else if (||) (Z.eqb r (Zpos (XO (XI (XO (XO (XO XH)))))))
                 (Z.eqb r (Zpos (XO (XO (XI (XI (XI (XO XH))))))))
            then (Zpos (XO (XO (XI (XI (XI (XO XH))))))) :: (r :: [])
            else if l.is_print r
                 then encode_rune r
                 else if Z.eqb r (Zpos (XO (XO (XO XH))))
                      then (Zpos (XO (XO (XI (XI (XI (XO XH))))))) :: ((Zpos
                             (XO (XI (XO (XO (XO (XI XH))))))) :: [])
                      else if Z.eqb r (Zpos (XO (XO (XI XH))))
                           then (Zpos (XO (XO (XI (XI (XI (XO
                                  XH))))))) :: ((Zpos (XO (XI (XI (XO (XO (XI
                                  XH))))))) :: [])
                           else if Z.eqb r (Zpos (XO (XI (XO XH))))
                                then (Zpos (XO (XO (XI (XI (XI (XO
                                       XH))))))) :: ((Zpos (XO (XI (XI (XI
                                       (XO (XI XH))))))) :: [])
                                else if Z.eqb r (Zpos (XI (XO (XI XH))))
                                     then (Zpos (XO (XO (XI (XI (XI (XO
                                            XH))))))) :: ((Zpos (XO (XI (XO
                                            (XO (XI (XI XH))))))) :: [])
                                     else if Z.eqb r (Zpos (XI (XO (XO XH))))
                                          then (Zpos (XO (XO (XI (XI (XI (XO
                                                 XH))))))) :: ((Zpos (XO (XO
                                                 (XI (XO (XI (XI
                                                 XH))))))) :: [])
                                          else if Z.eqb r (Zpos (XI (XI (XO
                                                    XH))))
                                               then (Zpos (XO (XO (XI (XI (XI
                                                      (XO XH))))))) :: ((Zpos
                                                      (XO (XI (XI (XO (XI (XI
                                                      XH))))))) :: [])
                                               else if (||)
                                                         (Z.ltb r (Zpos (XO
                                                           (XO (XO (XO (XO
                                                           XH)))))))
                                                         (Z.eqb r (Zpos (XI
                                                           (XI (XI (XI (XI
                                                           (XI XH))))))))
                                                    then (Zpos (XO (XO (XI
                                                           (XI (XI (XO
                                                           XH))))))) :: ((Zpos
                                                           (XO (XO (XO (XI
                                                           (XI (XI
                                                           XH))))))) :: (
                                                           (hex_digit
                                                             (Z.div r (Zpos
                                                               (XO (XO (XO
                                                               (XO XH))))))) :: (
                                                           (hex_digit
                                                             (Z.modulo r
                                                               (Zpos (XO (XO
                                                               (XO (XO
                                                               XH))))))) :: [])))
                                                    else (Zpos (XO (XO (XI
                                                           (XI (XI (XO
                                                           XH))))))) :: ((Zpos
                                                           (XI (XO (XI (XO
                                                           (XI (XI
                                                           XH))))))) :: (
                                                           (hex_digit
                                                             (Z.modulo
                                                               (Z.div r (Zpos
                                                                 (XO (XO (XO
                                                                 (XO (XO (XO
                                                                 (XO (XO (XO
                                                                 (XO (XO (XO
                                                                 XH))))))))))))))
                                                               (Zpos (XO (XO
                                                               (XO (XO
                                                               XH))))))) :: (
                                                           (hex_digit
                                                             (Z.modulo
                                                               (Z.div r (Zpos
                                                                 (XO (XO (XO
                                                                 (XO (XO (XO
                                                                 (XO (XO
                                                                 XH))))))))))
                                                               (Zpos (XO (XO
                                                               (XO (XO
                                                               XH))))))) :: (
                                                           (hex_digit
                                                             (Z.modulo
                                                               (Z.div r (Zpos
                                                                 (XO (XO (XO
                                                                 (XO XH))))))
                                                               (Zpos (XO (XO
                                                               (XO (XO
                                                               XH))))))) :: (
                                                           (hex_digit
                                                             (Z.modulo r
                                                               (Zpos (XO (XO
                                                               (XO (XO
                                                               XH))))))) :: [])))))

(** val quote_bytes : goLib -> char list -> z list **)

let quote_bytes l s =
  (Zpos (XO (XI (XO (XO (XO
    XH)))))) :: (app (flat_map (quote_rune l) (runes_of s)) ((Zpos (XO (XI
                  (XO (XO (XO XH)))))) :: []))

(** val quote : goLib -> char list -> char list **)

let quote l s =
  str_of_bytes (quote_bytes l s)

(** val opt_int : goLib -> z option -> char list **)

let opt_int l = function
| Some z0 -> l.format_int z0
| None -> []

(** val print_any : goLib -> z -> z -> char list **)

let print_any l first last =
  if (&&) (Z.eqb first Z0) (Z.eqb last max_uint32)
  then '*'::('*'::[])
  else if Z.eqb first last
       then if Z.eqb first max_uint32
            then '*'::('*'::('{'::('l'::('a'::('s'::('t'::('}'::[])))))))
            else append ('*'::('*'::('{'::[])))
                   (append (l.format_int first) ('}'::[]))
       else if Z.eqb first max_uint32
            then append
                   ('*'::('*'::('{'::('l'::('a'::('s'::('t'::(' '::('t'::('o'::(' '::[])))))))))))
                   (append (l.format_int last) ('}'::[]))
            else if Z.eqb last max_uint32
                 then append ('*'::('*'::('{'::[])))
                        (append (l.format_int first)
                          (' '::('t'::('o'::(' '::('l'::('a'::('s'::('t'::('}'::[]))))))))))
                 else append ('*'::('*'::('{'::[])))
                        (append (l.format_int first)
                          (append (' '::('t'::('o'::(' '::[]))))
                            (append (l.format_int last) ('}'::[]))))

(** val paren : bool -> char list -> char list **)

let paren b s =
  if b then append ('('::[]) (append s (')'::[])) else s

(** val print_step : goLib -> step -> bool -> bool -> bool -> char list **)

let rec print_step l s has_next inKey withParens =
  let pc =
    let rec pc c inKey0 withParens0 =
      match c with
      | [] -> []
      | x :: r ->
        append
          (print_step l x (match r with
                           | [] -> false
                           | _ :: _ -> true) inKey0 withParens0)
          (pc r true true)
    in pc
  in
  (match s with
   | SConst k ->
     append (match k with
             | CAnyKey -> if inKey then '.'::[] else []
             | _ -> []) (const_name k)
   | SStr t -> quote l t
   | SInteger z0 -> paren has_next (l.format_int z0)
   | SNumeric f -> paren has_next (l.format_float_json f)
   | SVar t -> append ('$'::[]) (quote l t)
   | SKey t -> append (if inKey then '.'::[] else []) (quote l t)
   | SBin (op, l0, r) ->
     paren withParens
       (append (pc l0 false (Nat.leb (chain_prio l0) (binop_prio op)))
         (append (' '::[])
           (append (binop_name op)
             (append (' '::[])
               (pc r false (Nat.leb (chain_prio r) (binop_prio op)))))))
   | SUn (op, a) ->
     (match op with
      | UExists ->
        append ('e'::('x'::('i'::('s'::('t'::('s'::(' '::('('::[]))))))))
          (append (pc a false false) (')'::[]))
      | UNot -> append ('!'::('('::[])) (append (pc a false false) (')'::[]))
      | UIsUnknown ->
        append ('('::[])
          (append (pc a false false)
            (')'::(' '::('i'::('s'::(' '::('u'::('n'::('k'::('n'::('o'::('w'::('n'::[])))))))))))))
      | UPlus ->
        paren withParens
          (append ('+'::[])
            (pc a false (Nat.leb (chain_prio a) (S (S (S (S (S O))))))))
      | UMinus ->
        paren withParens
          (append ('-'::[])
            (pc a false (Nat.leb (chain_prio a) (S (S (S (S (S O))))))))
      | UFilter ->
        append ('?'::('('::[])) (append (pc a false false) (')'::[])))
   | SRegex (a, pat, fl) ->
     paren withParens
       (append
         (pc a false (Nat.leb (chain_prio a) (S (S (S (S (S (S O))))))))
         (append
           (' '::('l'::('i'::('k'::('e'::('_'::('r'::('e'::('g'::('e'::('x'::(' '::[]))))))))))))
           (append (quote l pat) (regex_flags_string fl))))
   | SMeth m -> meth_name m
   | SDecimal (p, sc) ->
     append ('.'::('d'::('e'::('c'::('i'::('m'::('a'::('l'::('('::[])))))))))
       (append (opt_int l p)
         (append
           (match sc with
            | Some z0 -> append (','::[]) (l.format_int z0)
            | None -> []) (')'::[])))
   | SDt (op, tmpl, prec) ->
     (match tmpl with
      | Some t ->
        append (dtop_name op)
          (append ('('::[]) (append (quote l t) (')'::[])))
      | None ->
        (match prec with
         | Some z0 ->
           append (dtop_name op)
             (append ('('::[]) (append (l.format_int z0) (')'::[])))
         | None -> append (dtop_name op) ('('::(')'::[]))))
   | SAny (first, last) ->
     append (if inKey then '.'::[] else []) (print_any l first last)
   | SIndex subs ->
     append ('['::[])
       (append
         (let rec ps l0 first =
            match l0 with
            | [] -> []
            | p :: r ->
              let (a, b) = p in
              append (if first then [] else ','::[])
                (append (pc a false false)
                  (append
                    (match b with
                     | Some c ->
                       append (' '::('t'::('o'::(' '::[]))))
                         (pc c false false)
                     | None -> []) (ps r false)))
          in ps subs true) (']'::[])))

(** val print_chain : goLib -> chain -> bool -> bool -> char list **)

let rec print_chain l c inKey withParens =
  match c with
  | [] -> []
  | x :: r ->
    append
      (print_step l x (match r with
                       | [] -> false
                       | _ :: _ -> true) inKey withParens)
      (print_chain l r true true)

(** val print_path : goLib -> path -> char list **)

let print_path l p =
  append
    (if p.p_lax then [] else 's'::('t'::('r'::('i'::('c'::('t'::(' '::[])))))))
    (print_chain l p.p_root false true)

type api_err =
| ApiPathParse of err_kind
| ApiScanParse of err_kind
| ApiScanType

type scan_src =
| SrcNil
| SrcString of char list
| SrcBytes of char list
| SrcOther

(** val parse_api : goLib -> char list -> (path, api_err) sum **)

let parse_api l s =
  match parse l s with
  | POk p -> Inl p
  | PErr k -> Inr (ApiPathParse k)

(** val must_parse : goLib -> char list -> path outcome **)

let must_parse l s =
  match parse l s with
  | POk p -> Ret p
  | PErr _ -> Panic ('p'::('a'::('r'::('s'::('e'::('r'::[]))))))

(** val scan :
    goLib -> path option -> scan_src -> (path option, api_err) sum **)

let scan l cur = function
| SrcNil -> Inl cur
| SrcString s ->
  (match s with
   | [] -> Inl cur
   | _::_ ->
     (match parse l s with
      | POk p -> Inl (Some p)
      | PErr k -> Inr (ApiScanParse k)))
| SrcBytes s ->
  (match s with
   | [] -> Inl cur
   | _::_ ->
     (match parse l s with
      | POk p -> Inl (Some p)
      | PErr k -> Inr (ApiScanParse k)))
| SrcOther -> Inr ApiScanType

(** val unmarshal_binary : goLib -> char list -> (path, api_err) sum **)

let unmarshal_binary l data =
  match parse l data with
  | POk p -> Inl p
  | PErr k -> Inr (ApiScanParse k)

(** val unmarshal_text : goLib -> char list -> (path, api_err) sum **)

let unmarshal_text =
  unmarshal_binary

(** val is_operator_step : step -> bool **)

let is_operator_step = function
| SBin (_, _, _) -> true
| SUn (op, _) -> (match op with
                  | UFilter -> false
                  | _ -> true)
| SRegex (_, _, _) -> true
| _ -> false

(** val op_with_tail : chain -> bool **)

let op_with_tail = function
| [] -> false
| h :: l -> (match l with
             | [] -> false
             | _ :: _ -> is_operator_step h)

(** val integral_numeric : step -> bool **)

let integral_numeric = function
| SNumeric f -> f64_integral f
| _ -> false

(** val excl_chain : chain -> bool **)

let excl_chain c =
  (||)
    (negb
      (ch_all (fun s -> negb (integral_numeric s)) (fun c0 ->
        negb (op_with_tail c0)) c)) (op_with_tail c)

(** val excl_C02 : path -> bool **)

let excl_C02 p =
  excl_chain p.p_root

(** val kw_beq : kw -> kw -> bool **)

let kw_beq x y =
  match x with
  | KTo -> (match y with
            | KTo -> true
            | _ -> false)
  | KNull -> (match y with
              | KNull -> true
              | _ -> false)
  | KTrue -> (match y with
              | KTrue -> true
              | _ -> false)
  | KFalse -> (match y with
               | KFalse -> true
               | _ -> false)
  | KIs -> (match y with
            | KIs -> true
            | _ -> false)
  | KUnknown -> (match y with
                 | KUnknown -> true
                 | _ -> false)
  | KExists -> (match y with
                | KExists -> true
                | _ -> false)
  | KStrict -> (match y with
                | KStrict -> true
                | _ -> false)
  | KLax -> (match y with
             | KLax -> true
             | _ -> false)
  | KLast -> (match y with
              | KLast -> true
              | _ -> false)
  | KStarts -> (match y with
                | KStarts -> true
                | _ -> false)
  | KWith -> (match y with
              | KWith -> true
              | _ -> false)
  | KLikeRegex -> (match y with
                   | KLikeRegex -> true
                   | _ -> false)
  | KFlag -> (match y with
              | KFlag -> true
              | _ -> false)
  | KAbs -> (match y with
             | KAbs -> true
             | _ -> false)
  | KSize -> (match y with
              | KSize -> true
              | _ -> false)
  | KType -> (match y with
              | KType -> true
              | _ -> false)
  | KFloor -> (match y with
               | KFloor -> true
               | _ -> false)
  | KDouble -> (match y with
                | KDouble -> true
                | _ -> false)
  | KCeiling -> (match y with
                 | KCeiling -> true
                 | _ -> false)
  | KKeyvalue -> (match y with
                  | KKeyvalue -> true
                  | _ -> false)
  | KDatetime -> (match y with
                  | KDatetime -> true
                  | _ -> false)
  | KBigint -> (match y with
                | KBigint -> true
                | _ -> false)
  | KBoolean -> (match y with
                 | KBoolean -> true
                 | _ -> false)
  | KDate -> (match y with
              | KDate -> true
              | _ -> false)
  | KDecimal -> (match y with
                 | KDecimal -> true
                 | _ -> false)
  | KInteger -> (match y with
                 | KInteger -> true
                 | _ -> false)
  | KNumber -> (match y with
                | KNumber -> true
                | _ -> false)
  | KStringfunc -> (match y with
                    | KStringfunc -> true
                    | _ -> false)
  | KTime -> (match y with
              | KTime -> true
              | _ -> false)
  | KTimeTz -> (match y with
                | KTimeTz -> true
                | _ -> false)
  | KTimestamp -> (match y with
                   | KTimestamp -> true
                   | _ -> false)
  | KTimestampTz -> (match y with
                     | KTimestampTz -> true
                     | _ -> false)

(** val ctok : z -> token **)

let ctok c =
  { tk = (TChar c); ttext = (string_of_runes (c :: [])) }

(** val kwt : kw -> char list -> token **)

let kwt k w =
  { tk = (TKw k); ttext = w }

(** val binop_toks : binop -> token list **)

let binop_toks = function
| BAnd -> { tk = TAnd; ttext = ('&'::('&'::[])) } :: []
| BOr -> { tk = TOr; ttext = ('|'::('|'::[])) } :: []
| BEq -> { tk = TEqual; ttext = ('='::('='::[])) } :: []
| BNe -> { tk = TNotEqual; ttext = ('!'::('='::[])) } :: []
| BLt -> { tk = TLess; ttext = ('<'::[]) } :: []
| BGt -> { tk = TGreater; ttext = ('>'::[]) } :: []
| BLe -> { tk = TLessEq; ttext = ('<'::('='::[])) } :: []
| BGe -> { tk = TGreaterEq; ttext = ('>'::('='::[])) } :: []
| BStartsWith ->
  (kwt KStarts ('s'::('t'::('a'::('r'::('t'::('s'::[]))))))) :: ((kwt KWith
                                                                   ('w'::('i'::('t'::('h'::[]))))) :: [])
| BAdd -> (ctok (Zpos (XI (XI (XO (XI (XO XH))))))) :: []
| BSub -> (ctok (Zpos (XI (XO (XI (XI (XO XH))))))) :: []
| BMul -> (ctok (Zpos (XO (XI (XO (XI (XO XH))))))) :: []
| BDiv -> (ctok (Zpos (XI (XI (XI (XI (XO XH))))))) :: []
| BMod -> (ctok (Zpos (XI (XO (XI (XO (XO XH))))))) :: []

(** val const_toks : constk -> bool -> token list **)

let const_toks k inKey =
  match k with
  | CRoot -> (ctok (Zpos (XO (XO (XI (XO (XO XH))))))) :: []
  | CCurrent -> (ctok (Zpos (XO (XO (XO (XO (XO (XO XH)))))))) :: []
  | CLast -> (kwt KLast ('l'::('a'::('s'::('t'::[]))))) :: []
  | CAnyArray ->
    (ctok (Zpos (XI (XI (XO (XI (XI (XO XH)))))))) :: ((ctok (Zpos (XO (XI
                                                         (XO (XI (XO XH))))))) :: (
      (ctok (Zpos (XI (XO (XI (XI (XI (XO XH)))))))) :: []))
  | CAnyKey ->
    app
      (if inKey then (ctok (Zpos (XO (XI (XI (XI (XO XH))))))) :: [] else [])
      ((ctok (Zpos (XO (XI (XO (XI (XO XH))))))) :: [])
  | CTrue -> (kwt KTrue ('t'::('r'::('u'::('e'::[]))))) :: []
  | CFalse -> (kwt KFalse ('f'::('a'::('l'::('s'::('e'::[])))))) :: []
  | CNull -> (kwt KNull ('n'::('u'::('l'::('l'::[]))))) :: []

(** val meth_kw : meth -> kw * char list **)

let meth_kw = function
| MAbs -> (KAbs, ('a'::('b'::('s'::[]))))
| MSize -> (KSize, ('s'::('i'::('z'::('e'::[])))))
| MType -> (KType, ('t'::('y'::('p'::('e'::[])))))
| MFloor -> (KFloor, ('f'::('l'::('o'::('o'::('r'::[]))))))
| MCeiling -> (KCeiling, ('c'::('e'::('i'::('l'::('i'::('n'::('g'::[]))))))))
| MDouble -> (KDouble, ('d'::('o'::('u'::('b'::('l'::('e'::[])))))))
| MKeyValue ->
  (KKeyvalue, ('k'::('e'::('y'::('v'::('a'::('l'::('u'::('e'::[])))))))))
| MBigInt -> (KBigint, ('b'::('i'::('g'::('i'::('n'::('t'::[])))))))
| MBoolean -> (KBoolean, ('b'::('o'::('o'::('l'::('e'::('a'::('n'::[]))))))))
| MInteger -> (KInteger, ('i'::('n'::('t'::('e'::('g'::('e'::('r'::[]))))))))
| MNumber -> (KNumber, ('n'::('u'::('m'::('b'::('e'::('r'::[])))))))
| MString -> (KStringfunc, ('s'::('t'::('r'::('i'::('n'::('g'::[])))))))

(** val dtop_kw : dtop -> kw * char list **)

let dtop_kw = function
| DDateTime ->
  (KDatetime, ('d'::('a'::('t'::('e'::('t'::('i'::('m'::('e'::[])))))))))
| DDate -> (KDate, ('d'::('a'::('t'::('e'::[])))))
| DTime -> (KTime, ('t'::('i'::('m'::('e'::[])))))
| DTimeTZ -> (KTimeTz, ('t'::('i'::('m'::('e'::('_'::('t'::('z'::[]))))))))
| DTimestamp ->
  (KTimestamp,
    ('t'::('i'::('m'::('e'::('s'::('t'::('a'::('m'::('p'::[]))))))))))
| DTimestampTZ ->
  (KTimestampTz,
    ('t'::('i'::('m'::('e'::('s'::('t'::('a'::('m'::('p'::('_'::('t'::('z'::[])))))))))))))

(** val tparen : bool -> token list -> token list **)

let tparen b l =
  if b
  then (ctok (Zpos (XO (XO (XO (XI (XO XH))))))) :: (app l
                                                      ((ctok (Zpos (XI (XO
                                                         (XO (XI (XO XH))))))) :: []))
  else l

(** val regex_flag_text : z -> char list **)

let regex_flag_text f =
  append (if Z.ltb Z0 (Z.coq_land f reICase) then 'i'::[] else [])
    (append (if Z.ltb Z0 (Z.coq_land f reDotAll) then 's'::[] else [])
      (append (if Z.ltb Z0 (Z.coq_land f reMLine) then 'm'::[] else [])
        (append (if Z.ltb Z0 (Z.coq_land f reWSpace) then 'x'::[] else [])
          (if Z.ltb Z0 (Z.coq_land f reQuote) then 'q'::[] else []))))

(** val int_toks : goLib -> z -> token list **)

let int_toks l z0 =
  if Z.ltb z0 Z0
  then (ctok (Zpos (XI (XO (XI (XI (XO XH))))))) :: ({ tk = TInt; ttext =
         (l.format_int (Z.opp z0)) } :: [])
  else { tk = TInt; ttext = (l.format_int z0) } :: []

(** val num_toks : goLib -> f64 -> token list **)

let num_toks l f =
  if f64_sign f
  then (ctok (Zpos (XI (XO (XI (XI (XO XH))))))) :: ({ tk = TNumeric; ttext =
         (l.format_float_json (l.f64_neg f)) } :: [])
  else { tk = TNumeric; ttext = (l.format_float_json f) } :: []

(** val level_toks : goLib -> z -> token list **)

let level_toks l x =
  if Z.eqb x max_uint32
  then (kwt KLast ('l'::('a'::('s'::('t'::[]))))) :: []
  else { tk = TInt; ttext = (l.format_int x) } :: []

(** val any_toks : goLib -> z -> z -> token list **)

let any_toks l first last =
  if (&&) (Z.eqb first Z0) (Z.eqb last max_uint32)
  then { tk = TAny; ttext = ('*'::('*'::[])) } :: []
  else if Z.eqb first last
       then app ({ tk = TAny; ttext =
              ('*'::('*'::[])) } :: ((ctok (Zpos (XI (XI (XO (XI (XI (XI
                                       XH)))))))) :: []))
              (app (level_toks l first)
                ((ctok (Zpos (XI (XO (XI (XI (XI (XI XH)))))))) :: []))
       else app ({ tk = TAny; ttext =
              ('*'::('*'::[])) } :: ((ctok (Zpos (XI (XI (XO (XI (XI (XI
                                       XH)))))))) :: []))
              (app (level_toks l first)
                (app ((kwt KTo ('t'::('o'::[]))) :: [])
                  (app (level_toks l last)
                    ((ctok (Zpos (XI (XO (XI (XI (XI (XI XH)))))))) :: []))))

(** val tok_step : goLib -> step -> bool -> bool -> bool -> token list **)

let rec tok_step l s has_next inKey withParens =
  let tc =
    let rec tc c inKey0 withParens0 =
      match c with
      | [] -> []
      | x :: r ->
        app
          (tok_step l x (match r with
                         | [] -> false
                         | _ :: _ -> true) inKey0 withParens0)
          (tc r true true)
    in tc
  in
  (match s with
   | SConst k -> const_toks k inKey
   | SStr t -> { tk = TString; ttext = t } :: []
   | SInteger z0 -> tparen has_next (int_toks l z0)
   | SNumeric f -> tparen has_next (num_toks l f)
   | SVar t -> { tk = TVariable; ttext = t } :: []
   | SKey t ->
     app
       (if inKey then (ctok (Zpos (XO (XI (XI (XI (XO XH))))))) :: [] else [])
       ({ tk = TString; ttext = t } :: [])
   | SBin (op, l0, r) ->
     tparen withParens
       (app (tc l0 false (Nat.leb (chain_prio l0) (binop_prio op)))
         (app (binop_toks op)
           (tc r false (Nat.leb (chain_prio r) (binop_prio op)))))
   | SUn (op, a) ->
     (match op with
      | UExists ->
        app
          ((kwt KExists ('e'::('x'::('i'::('s'::('t'::('s'::[]))))))) :: (
          (ctok (Zpos (XO (XO (XO (XI (XO XH))))))) :: []))
          (app (tc a false false)
            ((ctok (Zpos (XI (XO (XO (XI (XO XH))))))) :: []))
      | UNot ->
        app ({ tk = TNot; ttext =
          ('!'::[]) } :: ((ctok (Zpos (XO (XO (XO (XI (XO XH))))))) :: []))
          (app (tc a false false)
            ((ctok (Zpos (XI (XO (XO (XI (XO XH))))))) :: []))
      | UIsUnknown ->
        app ((ctok (Zpos (XO (XO (XO (XI (XO XH))))))) :: [])
          (app (tc a false false)
            ((ctok (Zpos (XI (XO (XO (XI (XO XH))))))) :: ((kwt KIs
                                                             ('i'::('s'::[]))) :: (
            (kwt KUnknown ('u'::('n'::('k'::('n'::('o'::('w'::('n'::[])))))))) :: []))))
      | UPlus ->
        tparen withParens
          ((ctok (Zpos (XI (XI (XO (XI (XO XH))))))) :: (tc a false
                                                          (Nat.leb
                                                            (chain_prio a) (S
                                                            (S (S (S (S
                                                            O))))))))
      | UMinus ->
        tparen withParens
          ((ctok (Zpos (XI (XO (XI (XI (XO XH))))))) :: (tc a false
                                                          (Nat.leb
                                                            (chain_prio a) (S
                                                            (S (S (S (S
                                                            O))))))))
      | UFilter ->
        app
          ((ctok (Zpos (XI (XI (XI (XI (XI XH))))))) :: ((ctok (Zpos (XO (XO
                                                           (XO (XI (XO
                                                           XH))))))) :: []))
          (app (tc a false false)
            ((ctok (Zpos (XI (XO (XO (XI (XO XH))))))) :: [])))
   | SRegex (a, pat, fl) ->
     tparen withParens
       (app (tc a false true)
         (app
           ((kwt KLikeRegex
              ('l'::('i'::('k'::('e'::('_'::('r'::('e'::('g'::('e'::('x'::[]))))))))))) :: ({ tk =
           TString; ttext = pat } :: []))
           (if Z.eqb fl Z0
            then []
            else (kwt KFlag ('f'::('l'::('a'::('g'::[]))))) :: ({ tk =
                   TString; ttext = (regex_flag_text fl) } :: []))))
   | SMeth m ->
     (ctok (Zpos (XO (XI (XI (XI (XO XH))))))) :: ((kwt (fst (meth_kw m))
                                                     (snd (meth_kw m))) :: (
       (ctok (Zpos (XO (XO (XO (XI (XO XH))))))) :: ((ctok (Zpos (XI (XO (XO
                                                       (XI (XO XH))))))) :: [])))
   | SDecimal (p, sc) ->
     app
       ((ctok (Zpos (XO (XI (XI (XI (XO XH))))))) :: ((kwt KDecimal
                                                        ('d'::('e'::('c'::('i'::('m'::('a'::('l'::[])))))))) :: (
       (ctok (Zpos (XO (XO (XO (XI (XO XH))))))) :: [])))
       (app (match p with
             | Some z0 -> int_toks l z0
             | None -> [])
         (app
           (match sc with
            | Some z0 ->
              (ctok (Zpos (XO (XO (XI (XI (XO XH))))))) :: (int_toks l z0)
            | None -> []) ((ctok (Zpos (XI (XO (XO (XI (XO XH))))))) :: [])))
   | SDt (op, tmpl, prec) ->
     app
       ((ctok (Zpos (XO (XI (XI (XI (XO XH))))))) :: ((kwt (fst (dtop_kw op))
                                                        (snd (dtop_kw op))) :: (
       (ctok (Zpos (XO (XO (XO (XI (XO XH))))))) :: [])))
       (app
         (match tmpl with
          | Some t -> { tk = TString; ttext = t } :: []
          | None -> (match prec with
                     | Some z0 -> int_toks l z0
                     | None -> []))
         ((ctok (Zpos (XI (XO (XO (XI (XO XH))))))) :: []))
   | SAny (first, last) ->
     app
       (if inKey then (ctok (Zpos (XO (XI (XI (XI (XO XH))))))) :: [] else [])
       (any_toks l first last)
   | SIndex subs ->
     app ((ctok (Zpos (XI (XI (XO (XI (XI (XO XH)))))))) :: [])
       (app
         (let rec ts l0 first =
            match l0 with
            | [] -> []
            | p :: r ->
              let (a, b) = p in
              app
                (if first
                 then []
                 else (ctok (Zpos (XO (XO (XI (XI (XO XH))))))) :: [])
                (app (tc a false false)
                  (app
                    (match b with
                     | Some c ->
                       (kwt KTo ('t'::('o'::[]))) :: (tc c false false)
                     | None -> []) (ts r false)))
          in ts subs true)
         ((ctok (Zpos (XI (XO (XI (XI (XI (XO XH)))))))) :: [])))

(** val tok_chain : goLib -> chain -> bool -> bool -> token list **)

let rec tok_chain l c inKey withParens =
  match c with
  | [] -> []
  | x :: r ->
    app
      (tok_step l x (match r with
                     | [] -> false
                     | _ :: _ -> true) inKey withParens)
      (tok_chain l r true true)

(** val tok_path : goLib -> path -> token list **)

let tok_path l p =
  app
    (if p.p_lax
     then []
     else (kwt KStrict ('s'::('t'::('r'::('i'::('c'::('t'::[]))))))) :: [])
    (tok_chain l p.p_root false true)

(** val mk_lib : (char list -> z -> bool) -> goLib **)

let mk_lib rx =
  { xid_start = xid_start0; xid_continue = xid_continue0; is_print =
    is_print0; to_lower = to_lower0; parse_int0 =
    (parse_int Z0 (Zpos (XO (XO (XO (XO (XO (XO XH)))))))); parse_float =
    parse_float0; format_int = format_int0; format_float_json =
    format_float_json0; f64_neg = f64_neg0; regex_ok = rx }

(** val hexd : z -> char **)

let hexd d =
  ascii_of_Z
    (if Z.ltb d (Zpos (XO (XI (XO XH))))
     then Z.add (Zpos (XO (XO (XO (XO (XI XH)))))) d
     else Z.add (Zpos (XI (XI (XI (XO (XI (XO XH))))))) d)

(** val hex_bytes : z list -> char list **)

let rec hex_bytes = function
| [] -> []
| b :: r ->
  (hexd (Z.div b (Zpos (XO (XO (XO (XO XH)))))))::((hexd
                                                     (Z.modulo b (Zpos (XO
                                                       (XO (XO (XO XH)))))))::
    (hex_bytes r))

(** val hx : char list -> char list **)

let hx s = match s with
| [] -> 'e'::[]
| _::_ -> append ('x'::[]) (hex_bytes (bytes_of s))

(** val hex_fixed : nat -> z -> char list -> char list **)

let rec hex_fixed n0 z0 acc =
  match n0 with
  | O -> acc
  | S k ->
    hex_fixed k (Z.div z0 (Zpos (XO (XO (XO (XO XH))))))
      ((hexd (Z.modulo z0 (Zpos (XO (XO (XO (XO XH)))))))::acc)

(** val const_dump : constk -> char list **)

let const_dump = function
| CRoot -> 'r'::('o'::('o'::('t'::[])))
| CCurrent -> 'c'::('u'::('r'::('r'::('e'::('n'::('t'::[]))))))
| CLast -> 'l'::('a'::('s'::('t'::[])))
| CAnyArray -> 'a'::('n'::('y'::('a'::('r'::('r'::('a'::('y'::[])))))))
| CAnyKey -> 'a'::('n'::('y'::('k'::('e'::('y'::[])))))
| CTrue -> 't'::('r'::('u'::('e'::[])))
| CFalse -> 'f'::('a'::('l'::('s'::('e'::[]))))
| CNull -> 'n'::('u'::('l'::('l'::[])))

(** val bin_dump : binop -> char list **)

let bin_dump = function
| BAnd -> 'a'::('n'::('d'::[]))
| BOr -> 'o'::('r'::[])
| BEq -> 'e'::('q'::[])
| BNe -> 'n'::('e'::[])
| BLt -> 'l'::('t'::[])
| BGt -> 'g'::('t'::[])
| BLe -> 'l'::('e'::[])
| BGe -> 'g'::('e'::[])
| BStartsWith ->
  's'::('t'::('a'::('r'::('t'::('s'::('w'::('i'::('t'::('h'::[])))))))))
| BAdd -> 'a'::('d'::('d'::[]))
| BSub -> 's'::('u'::('b'::[]))
| BMul -> 'm'::('u'::('l'::[]))
| BDiv -> 'd'::('i'::('v'::[]))
| BMod -> 'm'::('o'::('d'::[]))

(** val un_dump : unop -> char list **)

let un_dump = function
| UExists -> 'e'::('x'::('i'::('s'::('t'::('s'::[])))))
| UNot -> 'n'::('o'::('t'::[]))
| UIsUnknown ->
  'i'::('s'::('u'::('n'::('k'::('n'::('o'::('w'::('n'::[]))))))))
| UPlus -> 'p'::('l'::('u'::('s'::[])))
| UMinus -> 'm'::('i'::('n'::('u'::('s'::[]))))
| UFilter -> 'f'::('i'::('l'::('t'::('e'::('r'::[])))))

(** val dt_dump : dtop -> char list **)

let dt_dump = function
| DDateTime -> 'd'::('a'::('t'::('e'::('t'::('i'::('m'::('e'::[])))))))
| DDate -> 'd'::('a'::('t'::('e'::[])))
| DTime -> 't'::('i'::('m'::('e'::[])))
| DTimeTZ -> 't'::('i'::('m'::('e'::('_'::('t'::('z'::[]))))))
| DTimestamp ->
  't'::('i'::('m'::('e'::('s'::('t'::('a'::('m'::('p'::[]))))))))
| DTimestampTZ ->
  't'::('i'::('m'::('e'::('s'::('t'::('a'::('m'::('p'::('_'::('t'::('z'::[])))))))))))

(** val meth_dump : meth -> char list **)

let meth_dump = function
| MAbs -> 'a'::('b'::('s'::[]))
| MSize -> 's'::('i'::('z'::('e'::[])))
| MType -> 't'::('y'::('p'::('e'::[])))
| MFloor -> 'f'::('l'::('o'::('o'::('r'::[]))))
| MCeiling -> 'c'::('e'::('i'::('l'::('i'::('n'::('g'::[]))))))
| MDouble -> 'd'::('o'::('u'::('b'::('l'::('e'::[])))))
| MKeyValue -> 'k'::('e'::('y'::('v'::('a'::('l'::('u'::('e'::[])))))))
| MBigInt -> 'b'::('i'::('g'::('i'::('n'::('t'::[])))))
| MBoolean -> 'b'::('o'::('o'::('l'::('e'::('a'::('n'::[]))))))
| MInteger -> 'i'::('n'::('t'::('e'::('g'::('e'::('r'::[]))))))
| MNumber -> 'n'::('u'::('m'::('b'::('e'::('r'::[])))))
| MString -> 's'::('t'::('r'::('i'::('n'::('g'::[])))))

(** val fi : z -> char list **)

let fi =
  format_int0

(** val oint : z option -> char list **)

let oint = function
| Some z0 -> fi z0
| None -> '-'::[]

(** val dump_step : step -> char list **)

let rec dump_step s =
  let dc =
    let rec dc c first =
      match c with
      | [] -> []
      | x :: r ->
        append (if first then [] else ' '::[])
          (append (dump_step x) (dc r false))
    in dc
  in
  (match s with
   | SConst k ->
     append ('('::('c'::('o'::('n'::('s'::('t'::(' '::[])))))))
       (append (const_dump k) (')'::[]))
   | SStr t ->
     append ('('::('s'::('t'::('r'::(' '::[]))))) (append (hx t) (')'::[]))
   | SInteger z0 ->
     append ('('::('i'::('n'::('t'::(' '::[]))))) (append (fi z0) (')'::[]))
   | SNumeric f ->
     append ('('::('n'::('u'::('m'::(' '::[])))))
       (append
         (hex_fixed (S (S (S (S (S (S (S (S (S (S (S (S (S (S (S (S
           O)))))))))))))))) (f64_to_bits f) []) (')'::[]))
   | SVar t ->
     append ('('::('v'::('a'::('r'::(' '::[]))))) (append (hx t) (')'::[]))
   | SKey t ->
     append ('('::('k'::('e'::('y'::(' '::[]))))) (append (hx t) (')'::[]))
   | SBin (op, l, r) ->
     append ('('::('b'::('i'::('n'::(' '::[])))))
       (append (bin_dump op)
         (append (' '::('['::[]))
           (append (dc l true)
             (append (']'::(' '::('['::[])))
               (append (dc r true) (']'::(')'::[])))))))
   | SUn (op, a) ->
     append ('('::('u'::('n'::(' '::[]))))
       (append (un_dump op)
         (append (' '::('['::[])) (append (dc a true) (']'::(')'::[])))))
   | SRegex (a, p, f) ->
     append ('('::('r'::('e'::('g'::('e'::('x'::(' '::('['::[]))))))))
       (append (dc a true)
         (append (']'::(' '::[]))
           (append (hx p) (append (' '::[]) (append (fi f) (')'::[]))))))
   | SMeth m ->
     append ('('::('m'::('e'::('t'::('h'::(' '::[]))))))
       (append (meth_dump m) (')'::[]))
   | SDecimal (p, sc) ->
     append ('('::('d'::('e'::('c'::('i'::('m'::('a'::('l'::(' '::[])))))))))
       (append (oint p) (append (' '::[]) (append (oint sc) (')'::[]))))
   | SDt (op, t, p) ->
     append ('('::('d'::('t'::(' '::[]))))
       (append (dt_dump op)
         (append (' '::[])
           (append (match t with
                    | Some x -> hx x
                    | None -> '-'::[])
             (append (' '::[]) (append (oint p) (')'::[]))))))
   | SAny (a, b) ->
     append ('('::('a'::('n'::('y'::(' '::[])))))
       (append (fi a) (append (' '::[]) (append (fi b) (')'::[]))))
   | SIndex subs ->
     append ('('::('i'::('n'::('d'::('e'::('x'::[]))))))
       (append
         (let rec ds = function
          | [] -> []
          | p :: r ->
            let (a, b) = p in
            append (' '::('('::('['::[])))
              (append (dc a true)
                (append (']'::(' '::[]))
                  (append
                    (match b with
                     | Some c ->
                       append ('['::[]) (append (dc c true) (']'::[]))
                     | None -> '-'::[]) (append (')'::[]) (ds r)))))
          in ds subs) (')'::[])))

(** val dump_chain : chain -> bool -> char list **)

let rec dump_chain c first =
  match c with
  | [] -> []
  | x :: r ->
    append (if first then [] else ' '::[])
      (append (dump_step x) (dump_chain r false))

(** val dump_path : path -> char list **)

let dump_path p =
  append ('('::('p'::('a'::('t'::('h'::(' '::[]))))))
    (append
      (if p.p_lax
       then 'l'::('a'::('x'::(' '::[])))
       else 's'::('t'::('r'::('i'::('c'::('t'::(' '::[])))))))
      (append
        (if p.p_pred
         then 'p'::('r'::('e'::('d'::(' '::[]))))
         else 'n'::('o'::('p'::('r'::('e'::('d'::(' '::[])))))))
        (append ('['::[])
          (append (dump_chain p.p_root true) (']'::(')'::[]))))))

(** val lex_err_name : lex_err -> char list **)

let lex_err_name = function
| EUtf8 -> 'u'::('t'::('f'::('8'::[])))
| ENul -> 'n'::('u'::('l'::[]))
| ENumUnderscoreStart ->
  'n'::('u'::('m'::('_'::('u'::('n'::('d'::('e'::('r'::('s'::('c'::('o'::('r'::('e'::('_'::('s'::('t'::('a'::('r'::('t'::[])))))))))))))))))))
| ENumJunk -> 'n'::('u'::('m'::('_'::('j'::('u'::('n'::('k'::[])))))))
| ENumExpMantissa ->
  'n'::('u'::('m'::('_'::('e'::('x'::('p'::('_'::('m'::('a'::('n'::('t'::('i'::('s'::('s'::('a'::[])))))))))))))))
| ENumExpDigits ->
  'n'::('u'::('m'::('_'::('e'::('x'::('p'::('_'::('d'::('i'::('g'::('i'::('t'::('s'::[])))))))))))))
| ENumInvalidDigit ->
  'n'::('u'::('m'::('_'::('i'::('n'::('v'::('a'::('l'::('i'::('d'::('_'::('d'::('i'::('g'::('i'::('t'::[]))))))))))))))))
| ENumSep -> 'n'::('u'::('m'::('_'::('s'::('e'::('p'::[]))))))
| EComment -> 'c'::('o'::('m'::('m'::('e'::('n'::('t'::[]))))))
| EUnterminated ->
  'u'::('n'::('t'::('e'::('r'::('m'::('i'::('n'::('a'::('t'::('e'::('d'::[])))))))))))
| EBackslashEnd ->
  'b'::('a'::('c'::('k'::('s'::('l'::('a'::('s'::('h'::('_'::('e'::('n'::('d'::[]))))))))))))
| ESurrogate ->
  's'::('u'::('r'::('r'::('o'::('g'::('a'::('t'::('e'::[]))))))))
| EHex -> 'h'::('e'::('x'::[]))
| EUnicode -> 'u'::('n'::('i'::('c'::('o'::('d'::('e'::[]))))))
| EU0000 -> 'u'::('0'::('0'::('0'::('0'::[]))))
| EInvalidChar ->
  'i'::('n'::('v'::('a'::('l'::('i'::('d'::('_'::('c'::('h'::('a'::('r'::[])))))))))))
| EOutOfFuel ->
  'L'::('E'::('X'::('_'::('O'::('U'::('T'::('_'::('O'::('F'::('_'::('F'::('U'::('E'::('L'::[]))))))))))))))

(** val err_name : err_kind -> char list **)

let err_name = function
| ELex l -> lex_err_name l
| ESyntax -> 's'::('y'::('n'::('t'::('a'::('x'::[])))))
| EIntParse -> 'i'::('n'::('t'::('_'::('p'::('a'::('r'::('s'::('e'::[]))))))))
| EFloatParse ->
  'f'::('l'::('o'::('a'::('t'::('_'::('p'::('a'::('r'::('s'::('e'::[]))))))))))
| EDecimalArgs ->
  'd'::('e'::('c'::('i'::('m'::('a'::('l'::('_'::('a'::('r'::('g'::('s'::[])))))))))))
| ERegexFlag ->
  'r'::('e'::('g'::('e'::('x'::('_'::('f'::('l'::('a'::('g'::[])))))))))
| ERegexX -> 'r'::('e'::('g'::('e'::('x'::('_'::('x'::[]))))))
| ERegexPattern ->
  'r'::('e'::('g'::('e'::('x'::('_'::('p'::('a'::('t'::('t'::('e'::('r'::('n'::[]))))))))))))
| ECurrentRoot ->
  'c'::('u'::('r'::('r'::('e'::('n'::('t'::('_'::('r'::('o'::('o'::('t'::[])))))))))))
| ELastSubscript ->
  'l'::('a'::('s'::('t'::('_'::('s'::('u'::('b'::('s'::('c'::('r'::('i'::('p'::('t'::[])))))))))))))
| EFuel ->
  'P'::('A'::('R'::('S'::('E'::('_'::('O'::('U'::('T'::('_'::('O'::('F'::('_'::('F'::('U'::('E'::('L'::[]))))))))))))))))

(** val lex_err_beq : lex_err -> lex_err -> bool **)

let lex_err_beq x y =
  match x with
  | EUtf8 -> (match y with
              | EUtf8 -> true
              | _ -> false)
  | ENul -> (match y with
             | ENul -> true
             | _ -> false)
  | ENumUnderscoreStart ->
    (match y with
     | ENumUnderscoreStart -> true
     | _ -> false)
  | ENumJunk -> (match y with
                 | ENumJunk -> true
                 | _ -> false)
  | ENumExpMantissa -> (match y with
                        | ENumExpMantissa -> true
                        | _ -> false)
  | ENumExpDigits -> (match y with
                      | ENumExpDigits -> true
                      | _ -> false)
  | ENumInvalidDigit -> (match y with
                         | ENumInvalidDigit -> true
                         | _ -> false)
  | ENumSep -> (match y with
                | ENumSep -> true
                | _ -> false)
  | EComment -> (match y with
                 | EComment -> true
                 | _ -> false)
  | EUnterminated -> (match y with
                      | EUnterminated -> true
                      | _ -> false)
  | EBackslashEnd -> (match y with
                      | EBackslashEnd -> true
                      | _ -> false)
  | ESurrogate -> (match y with
                   | ESurrogate -> true
                   | _ -> false)
  | EHex -> (match y with
             | EHex -> true
             | _ -> false)
  | EUnicode -> (match y with
                 | EUnicode -> true
                 | _ -> false)
  | EU0000 -> (match y with
               | EU0000 -> true
               | _ -> false)
  | EInvalidChar -> (match y with
                     | EInvalidChar -> true
                     | _ -> false)
  | EOutOfFuel -> (match y with
                   | EOutOfFuel -> true
                   | _ -> false)

(** val internal_positive_beq : positive -> positive -> bool **)

let rec internal_positive_beq x y =
  match x with
  | XI x0 -> (match y with
              | XI x1 -> internal_positive_beq x0 x1
              | _ -> false)
  | XO x0 -> (match y with
              | XO x1 -> internal_positive_beq x0 x1
              | _ -> false)
  | XH -> (match y with
           | XH -> true
           | _ -> false)

(** val internal_Z_beq : z -> z -> bool **)

let internal_Z_beq x y =
  match x with
  | Z0 -> (match y with
           | Z0 -> true
           | _ -> false)
  | Zpos x0 ->
    (match y with
     | Zpos x1 -> internal_positive_beq x0 x1
     | _ -> false)
  | Zneg x0 ->
    (match y with
     | Zneg x1 -> internal_positive_beq x0 x1
     | _ -> false)

(** val tkind_beq : tkind -> tkind -> bool **)

let tkind_beq x y =
  match x with
  | TChar c -> (match y with
                | TChar c0 -> internal_Z_beq c c0
                | _ -> false)
  | TIdent -> (match y with
               | TIdent -> true
               | _ -> false)
  | TString -> (match y with
                | TString -> true
                | _ -> false)
  | TNumeric -> (match y with
                 | TNumeric -> true
                 | _ -> false)
  | TInt -> (match y with
             | TInt -> true
             | _ -> false)
  | TVariable -> (match y with
                  | TVariable -> true
                  | _ -> false)
  | TOr -> (match y with
            | TOr -> true
            | _ -> false)
  | TAnd -> (match y with
             | TAnd -> true
             | _ -> false)
  | TNot -> (match y with
             | TNot -> true
             | _ -> false)
  | TLess -> (match y with
              | TLess -> true
              | _ -> false)
  | TLessEq -> (match y with
                | TLessEq -> true
                | _ -> false)
  | TEqual -> (match y with
               | TEqual -> true
               | _ -> false)
  | TNotEqual -> (match y with
                  | TNotEqual -> true
                  | _ -> false)
  | TGreaterEq -> (match y with
                   | TGreaterEq -> true
                   | _ -> false)
  | TGreater -> (match y with
                 | TGreater -> true
                 | _ -> false)
  | TAny -> (match y with
             | TAny -> true
             | _ -> false)
  | TKw k -> (match y with
              | TKw k0 -> kw_beq k k0
              | _ -> false)
  | TErr e -> (match y with
               | TErr e0 -> lex_err_beq e e0
               | _ -> false)

(** val tok_eqb : token -> token -> bool **)

let tok_eqb a b =
  (&&) (tkind_beq a.tk b.tk) (eqb0 a.ttext b.ttext)

(** val toks_eqb : token list -> token list -> bool **)

let rec toks_eqb a b =
  match a with
  | [] -> (match b with
           | [] -> true
           | _ :: _ -> false)
  | x :: a' ->
    (match b with
     | [] -> false
     | y :: b' -> (&&) (tok_eqb x y) (toks_eqb a' b'))

(** val run_line : (char list -> z -> bool) -> char list -> char list **)

let run_line rx src =
  let l = mk_lib rx in
  (match parse l src with
   | POk p ->
     let wf =
       (&&) (wf_chain l p.p_root) (eqb p.p_pred (is_pred_chain p.p_root))
     in
     let rtok =
       match parse l (print_path l p) with
       | POk p' -> eqb0 (dump_path p') (dump_path p)
       | PErr _ -> false
     in
     let tokok = toks_eqb (lex l (print_path l p)) (tok_path l p) in
     append
       (if negb wf
        then 'O'::('K'::(' '::('N'::('O'::('T'::('W'::('F'::(' '::[]))))))))
        else if (&&) (negb (excl_C02 p)) (negb rtok)
             then 'O'::('K'::(' '::('C'::('0'::('2'::('F'::('A'::('I'::('L'::(' '::[]))))))))))
             else if (&&) (negb (excl_C02 p)) (negb tokok)
                  then 'O'::('K'::(' '::('T'::('O'::('K'::('F'::('A'::('I'::('L'::(' '::[]))))))))))
                  else 'O'::('K'::(' '::[])))
       (append (dump_path p) (append (' '::[]) (hx (print_path l p))))
   | PErr e -> append ('E'::('R'::('R'::(' '::[])))) (err_name e))

(** val api_line : (char list -> z -> bool) -> char list -> char list **)

let api_line rx src =
  let l = mk_lib rx in
  let m = fun b -> if b then '+'::[] else '-'::[] in
  append (m (match parse_api l src with
             | Inl _ -> true
             | Inr _ -> false))
    (append (m (match must_parse l src with
                | Ret _ -> true
                | _ -> false))
      (append
        (m
          (match scan l None (SrcString src) with
           | Inl _ -> true
           | Inr _ -> false))
        (append
          (m
            (match scan l None (SrcBytes src) with
             | Inl _ -> true
             | Inr _ -> false))
          (append
            (m
              (match unmarshal_binary l src with
               | Inl _ -> true
               | Inr _ -> false))
            (m
              (match unmarshal_text l src with
               | Inl _ -> true
               | Inr _ -> false))))))
