(* driver.ml — runs the extracted model on hex-encoded inputs.
   Usage: driver collect  < inputs.hex > regex_queries.txt
          driver run TABLE [-api] < inputs.hex > model.out *)
open Model

let rec pos_to_int = function XH -> 1 | XO p -> 2 * pos_to_int p | XI p -> 2 * pos_to_int p + 1
let z_to_int = function Z0 -> 0 | Zpos p -> pos_to_int p | Zneg p -> - (pos_to_int p)

let explode s = List.init (String.length s) (String.get s)
let implode l = String.of_seq (List.to_seq l)

let unhex line =
  let n = String.length line / 2 in
  String.init n (fun i -> Char.chr (int_of_string ("0x" ^ String.sub line (2 * i) 2)))

let hexs s =
  if s = "" then "e"
  else "x" ^ String.concat "" (List.map (fun c -> Printf.sprintf "%02x" (Char.code c)) (explode s))

let () =
  let mode = Sys.argv.(1) in
  let table : (string, bool) Hashtbl.t = Hashtbl.create 1024 in
  let seen : (string, unit) Hashtbl.t = Hashtbl.create 1024 in
  let api = Array.length Sys.argv > 3 && Sys.argv.(3) = "-api" in
  if mode = "run" then begin
    let ic = open_in Sys.argv.(2) in
    (try
       while true do
         let l = input_line ic in
         match String.split_on_char ' ' l with
         | [hp; mask; ok] -> Hashtbl.replace table (hp ^ " " ^ mask) (ok = "1")
         | _ -> ()
       done
     with End_of_file -> ());
    close_in ic
  end;
  let rx pat flags =
    let key = hexs (implode pat) ^ " " ^ string_of_int (z_to_int flags) in
    if mode = "collect" then begin
      if not (Hashtbl.mem seen key) then (Hashtbl.replace seen key (); print_endline key);
      true
    end else
      match Hashtbl.find_opt table key with
      | Some b -> b
      | None -> prerr_endline ("missing regex oracle answer: " ^ key); true
  in
  try
    while true do
      let line = String.trim (input_line stdin) in
      let src = explode (unhex line) in
      let r = implode (run_line rx src) in
      if mode = "run" then
        if api then print_endline (r ^ " " ^ implode (api_line rx src)) else print_endline r
    done
  with End_of_file -> ()
