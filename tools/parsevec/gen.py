#!/usr/bin/env python3
"""Input generator for the parser-side differential test.

usage: gen.py [--seed N] [--size N] [--no-sweeps]
Prints one hex-encoded input per line.  Every random choice comes from the one
PRNG `rnd`, seeded with --seed (VERIF_SEED); --size is the number of random
inputs (55% family A, 45% byte mutations), the systematic sweeps (families B,
C and the near-miss lists of D) are always produced.  Families:
  A  grammar-directed random paths (every node kind), rendered with random
     spelling alternatives: whitespace/comments, keyword case, bare / quoted /
     escaped keys, every escape form, every number form, != vs <>, redundant
     parentheses
  B  every operator pair and triple, with and without parentheses
  C  spelling sweeps: escapes (incl. upper-case hex, surrogate pairs, \\u{...}),
     number forms (good and bad), keyword case incl. U+212A / U+0130,
     private-use code points U+E000..U+E033 in every position
  D  malformed: byte mutations of valid paths, truncations, near-misses of each
     validity rule (@ outside filters, last outside subscripts, bad regex
     flags / patterns, .decimal() arity, int64 / float range), invalid UTF-8,
     NUL, unterminated strings / comments, bad escapes
"""
import random
import sys

rnd = random.Random(20260925)
out = []


def reseed(seed):
    rnd.seed(int(seed))


def emit(s):
    if isinstance(s, str):
        s = s.encode("utf-8", "surrogatepass")
    out.append(s)


KEYWORDS = ["is", "to", "abs", "lax", "date", "flag", "last", "size", "time", "type", "with",
            "floor", "bigint", "double", "exists", "number", "starts", "strict", "string",
            "boolean", "ceiling", "decimal", "integer", "time_tz", "unknown", "datetime",
            "keyvalue", "timestamp", "like_regex", "timestamp_tz", "null", "true", "false"]
METHODS = ["abs", "size", "type", "floor", "double", "ceiling", "keyvalue", "bigint", "boolean",
           "integer", "number", "string"]
ARITH = ["+", "-", "*", "/", "%"]
CMP = ["==", "!=", "<>", "<", "<=", ">", ">="]


def ws(p=0.5):
    """optional whitespace / comment between tokens"""
    r = rnd.random()
    if r > p:
        return ""
    c = rnd.random()
    if c < 0.55:
        return " "
    if c < 0.7:
        return rnd.choice(["\t", "\n", "\r\n", "  ", " \t "])
    if c < 0.9:
        return rnd.choice(["/**/", "/* c */", " /* a*b / c */ ", "/***/", "/* \n */"])
    return rnd.choice([" /*x*/ /*y*/ ", "/*é😀*/"])


def sp():
    """mandatory separator"""
    return rnd.choice([" ", "  ", "\t", "\n", " /**/ ", "/**/"]) if rnd.random() < 0.4 else " "


def kwcase(k):
    """a keyword in random letter case (true/false/null must stay lower)"""
    if k in ("true", "false", "null"):
        return k
    r = rnd.random()
    if r < 0.6:
        return k
    if r < 0.75:
        return k.upper()
    if r < 0.85:
        return k.capitalize()
    return "".join(c.upper() if rnd.random() < 0.5 else c for c in k)


# XID_Start / XID_Continue (checked against github.com/smasher164/xid): besides letters also letter numbers (Nl) and
# Other_ID_Start (U+2118, U+212E, U+1885); continue characters also Other_ID_Continue (U+00B7, U+0387, U+1369, U+19DA),
# non-ASCII digits and connector punctuation
IDENT_START = "abcdefghijklmnopqrstuvwxyzABCDEFGHIJKLMNOPQRSTUVWXYZ_" + "éßλжא中あ𝒜" + "\u2118\u212e\u2167\u3007\u1885\u16ee\u3021"
IDENT_CONT = IDENT_START + "0123456789" + "\u0301\u203f" + "\u00b7\u0387\u1369\u19da\u0660\uff3f"


def esc_char(ch, in_ident=False):
    """some spelling of the character ch inside a string or identifier"""
    o = ord(ch)
    forms = []
    if o < 0x10000 and o != 0:
        forms += ["\\u%04x" % o, "\\u%04X" % o]
    if o != 0:
        forms += ["\\u{%x}" % o, "\\u{%X}" % o, "\\u{%06x}" % o if o < 0x1000000 else "\\u{%x}" % o]
    if 0 < o < 0x100:
        forms += ["\\x%02x" % o, "\\x%02X" % o]
    if o >= 0x10000:
        v = o - 0x10000
        hi, lo = 0xD800 + (v >> 10), 0xDC00 + (v & 0x3FF)
        forms += ["\\u%04x\\u%04x" % (hi, lo), "\\u%04X\\u%04X" % (hi, lo),
                  "\\u{%x}\\u{%x}" % (hi, lo), "\\u%04x\\u{%x}" % (hi, lo)]
    table = {8: "\\b", 12: "\\f", 10: "\\n", 13: "\\r", 9: "\\t", 11: "\\v"}
    if o in table:
        forms.append(table[o])
    if ch not in "bfnrtvxu" and o > 0 and ch != "\n":
        forms.append("\\" + ch)
    return rnd.choice(forms)


def rand_text(maxlen=6):
    n = rnd.randint(0, maxlen)
    pool = "abcxyzABC019 _-.$@\"\\'/*?[](){}\t\n\r\b\f\v\a\x01\x1f\x7fé\u00a0\u200bλ中\ufeff\ufffd😀𝒜\U000e0001\U0010ffff"
    return "".join(rnd.choice(pool) for _ in range(n))


def quoted(text):
    """a double-quoted spelling of text"""
    o = ['"']
    for ch in text:
        r = rnd.random()
        if ch in '"\\' or ch == "\n" or ord(ch) == 0:
            o.append(esc_char(ch) if ch != '"' or rnd.random() < 0.5 else '\\"')
        elif r < 0.25:
            o.append(esc_char(ch))
        else:
            o.append(ch)
    o.append('"')
    return "".join(o)


def rand_ident():
    n = rnd.randint(1, 6)
    s = rnd.choice(IDENT_START) + "".join(rnd.choice(IDENT_CONT) for _ in range(n - 1))
    return s


def ident_spelling(name):
    """bare identifier spelling of name with random escapes"""
    o = []
    for i, ch in enumerate(name):
        if rnd.random() < 0.2:
            o.append(esc_char(ch, True))
        else:
            o.append(ch)
    return "".join(o)


def key_spelling():
    r = rnd.random()
    if r < 0.3:
        return ident_spelling(rand_ident())
    if r < 0.5:
        return kwcase(rnd.choice(KEYWORDS))
    if r < 0.6:
        # arbitrary text as an all-escaped identifier
        t = rand_text(4) or "a"
        return "".join(esc_char(c, True) if ord(c) else "a" for c in t)
    return quoted(rand_text())


def int_spelling():
    r = rnd.random()
    v = rnd.choice([0, 1, 2, 7, 10, 42, 255, 1000, 65535, 2147483647, 4294967295, 4294967296,
                    9223372036854775807, rnd.randint(0, 10 ** rnd.randint(1, 18))])
    if r < 0.5:
        s = str(v)
    elif r < 0.62:
        s = rnd.choice(["0x%x", "0X%X", "0x%X"]) % v
    elif r < 0.72:
        s = rnd.choice(["0o%o", "0O%o"]) % v
    elif r < 0.82:
        s = rnd.choice(["0b", "0B"]) + bin(v)[2:]
    else:
        s = str(v)
    if rnd.random() < 0.2 and len(s) > 3:
        # underscores between digits
        i = rnd.randint(3 if s[:2].lower() in ("0x", "0o", "0b") else 1, len(s) - 1)
        s = s[:i] + "_" + s[i:]
    return s


def num_spelling():
    r = rnd.random()
    a = str(rnd.randint(0, 10 ** rnd.randint(1, 6)))
    b = str(rnd.randint(0, 10 ** rnd.randint(1, 6)))
    e = rnd.choice(["e", "E"]) + rnd.choice(["", "+", "-"]) + str(rnd.randint(0, 30))
    forms = [a + "." + b, "." + b, a + ".", a + e, a + "." + b + e, "." + b + e, a + "." + e,
             "0." + b, "0" + e, a + "." + "0", a + ".0" + e, "1e20", "4.0", "0.1", "1e-7", "123456789012345678901.5",
             "5e-324", "1.7976931348623157e308", "0.000001", "1e21", "1e-400"]
    s = rnd.choice(forms)
    if rnd.random() < 0.15 and len(a) > 2:
        s = a[:1] + "_" + a[1:] + "." + b
    return s


def scalar():
    r = rnd.random()
    if r < 0.25:
        return int_spelling()
    if r < 0.45:
        return num_spelling()
    if r < 0.65:
        return quoted(rand_text())
    if r < 0.75:
        return rnd.choice(["true", "false", "null"])
    if r < 0.9:
        return "$" + (rand_ident() if rnd.random() < 0.6 else quoted(rand_text()))
    return "$" + rnd.choice(["a1", "_x", "9", "été"])


def regex_pattern():
    pats = ["^a", "a.*b", "[a-z]+", "(ab|cd)*", "\\\\d+", "a{2,3}", "^$", "", "x", "(", ")", "[a", "a**", "*a",
            "a{2,1}", "(?i)a", "(?P<n>a)", "\\\\", "\\\\p{L}", "[[:alpha:]]", "a\\\\.b", "é+", "(?z)", "a|", "+",
            "\\\\Q..\\\\E", "\\\\C", "(?s).", "x{1001}", "[^\\\\n]", "\\\\pN", "a++"]
    return '"' + rnd.choice(pats) + '"'


def regex_flags():
    r = rnd.random()
    if r < 0.5:
        return "".join(rnd.choice("ismq") for _ in range(rnd.randint(0, 4)))
    if r < 0.7:
        return "".join(rnd.choice("ismxq") for _ in range(rnd.randint(0, 5)))
    return rnd.choice(["x", "xq", "qx", "z", "I", "i z", "é", "iq", "ii", "smi", ""])


def accessor(depth, in_filter, in_sub):
    r = rnd.random()
    if r < 0.3:
        return ws(0.2) + "." + ws(0.2) + key_spelling()
    if r < 0.36:
        return ws(0.2) + "." + ws(0.2) + "*"
    if r < 0.42:
        return ws(0.2) + "[" + ws() + "*" + ws() + "]"
    if r < 0.55 and depth > 0:
        n = rnd.randint(1, 3)
        elems = []
        for _ in range(n):
            e = expr(depth - 1, in_filter, True)
            if rnd.random() < 0.4:
                e += sp() + kwcase("to") + sp() + expr(depth - 1, in_filter, True)
            elems.append(ws() + e + ws())
        return ws(0.2) + "[" + ",".join(elems) + "]"
    if r < 0.63:
        lv = lambda: rnd.choice([str(rnd.randint(0, 5)), kwcase("last"), "4294967295", "4294967294",
                                 "99999999999999999999", "0x10", "1_0", "007" if False else "7"])
        f = rnd.random()
        if f < 0.4:
            return ws(0.2) + "." + ws(0.1) + "**"
        if f < 0.7:
            return ws(0.2) + "." + "**" + ws() + "{" + ws() + lv() + ws() + "}"
        return ws(0.2) + ".**{" + ws() + lv() + sp() + kwcase("to") + sp() + lv() + ws() + "}"
    if r < 0.75:
        return ws(0.2) + "." + ws(0.2) + kwcase(rnd.choice(METHODS)) + ws() + "(" + ws() + ")"
    if r < 0.8:
        args = rnd.choice(["", "5", "5,2", "+5,-2", "- 5", "10 , 0", "1,2,3", "0x10,0b1", "1_0"])
        return ws(0.2) + "." + kwcase("decimal") + ws() + "(" + ws() + args + ws() + ")"
    if r < 0.86:
        m = rnd.choice(["date", "datetime", "time", "time_tz", "timestamp", "timestamp_tz"])
        if m == "date":
            arg = ""
        elif m == "datetime":
            arg = rnd.choice(["", quoted("HH24:MI"), quoted(rand_text())])
        else:
            arg = rnd.choice(["", str(rnd.randint(0, 9)), "0x6", "1_0"])
        return ws(0.2) + "." + kwcase(m) + ws() + "(" + ws() + arg + ws() + ")"
    if depth > 0:
        return ws() + "?" + ws() + "(" + ws() + pred(depth - 1, True, in_sub) + ws() + ")"
    return ws(0.2) + "." + key_spelling()


def primary(depth, in_filter, in_sub):
    r = rnd.random()
    if r < 0.35:
        return "$"
    if r < 0.55:
        return "@" if (in_filter or rnd.random() < 0.03) else "$"
    if r < 0.6:
        return kwcase("last") if (in_sub or rnd.random() < 0.03) else "$"
    return scalar()


def parens(s):
    return "(" + ws() + s + ws() + ")"


def expr(depth, in_filter=False, in_sub=False):
    r = rnd.random()
    if depth <= 0 or r < 0.45:
        p = primary(depth, in_filter, in_sub)
        scal = not (p in ("$", "@") or p.lower() == "last" or p.startswith('"') or p.startswith("$"))
        if scal and rnd.random() < 0.6:
            # a number followed by an accessor needs parentheses or white space
            if rnd.random() < 0.5:
                return p
            p = parens(p) if rnd.random() < 0.7 else p + " "
        n = rnd.choice([0, 0, 1, 1, 2, 3])
        return p + "".join(accessor(depth, in_filter, in_sub) for _ in range(n))
    if r < 0.6:
        op = rnd.choice(["-", "+"])
        return op + ws(0.3) + expr(depth - 1, in_filter, in_sub)
    if r < 0.85:
        op = rnd.choice(ARITH)
        return expr(depth - 1, in_filter, in_sub) + sp() + op + sp() + expr(depth - 1, in_filter, in_sub)
    inner = expr(depth - 1, in_filter, in_sub) if rnd.random() < 0.75 else pred(depth - 1, in_filter, in_sub)
    s = parens(inner)
    n = rnd.choice([0, 1, 1, 2])
    return s + "".join(accessor(depth, in_filter, in_sub) for _ in range(n))


def pred(depth, in_filter=False, in_sub=False):
    r = rnd.random()
    if depth <= 0 or r < 0.35:
        return expr(depth - 1, in_filter, in_sub) + sp() + rnd.choice(CMP) + sp() + expr(depth - 1, in_filter, in_sub)
    if r < 0.5:
        op = rnd.choice(["&&", "||"])
        return pred(depth - 1, in_filter, in_sub) + sp() + op + sp() + pred(depth - 1, in_filter, in_sub)
    if r < 0.58:
        return "!" + ws() + parens(pred(depth - 1, in_filter, in_sub))
    if r < 0.66:
        return kwcase("exists") + ws() + parens(expr(depth - 1, in_filter, in_sub))
    if r < 0.72:
        return "!" + ws() + kwcase("exists") + ws() + parens(expr(depth - 1, in_filter, in_sub))
    if r < 0.8:
        return parens(pred(depth - 1, in_filter, in_sub)) + sp() + kwcase("is") + sp() + kwcase("unknown")
    if r < 0.87:
        rhs = quoted(rand_text()) if rnd.random() < 0.6 else "$" + rand_ident()
        return expr(depth - 1, in_filter, in_sub) + sp() + kwcase("starts") + sp() + kwcase("with") + sp() + rhs
    if r < 0.95:
        s = expr(depth - 1, in_filter, in_sub) + sp() + kwcase("like_regex") + sp() + regex_pattern()
        if rnd.random() < 0.5:
            s += sp() + kwcase("flag") + sp() + '"' + regex_flags() + '"'
        return s
    return parens(pred(depth - 1, in_filter, in_sub))


def path(depth):
    mode = rnd.choice(["", "", "strict ", "lax ", "STRICT ", "Lax\t", "strict/**/"])
    body = expr(depth) if rnd.random() < 0.7 else pred(depth)
    return ws(0.2) + mode + body + ws(0.2)


# ---------------------------------------------------------------- family A
def family_a(n):
    for _ in range(n):
        emit(path(rnd.choice([1, 2, 2, 3, 3, 4])))


# ---------------------------------------------------------------- family B
OPS = ARITH + CMP + ["&&", "||", "starts with", "like_regex"]
ATOMS = ["$.a", "1", "2.5", "@", '"s"', "$v", "(1)", "($.a)", "-1", "- $.a", "(1 == 1)", "!(1 == 1)",
         "exists($.a)", "(1 == 1) is unknown", "true"]


def atom():
    return rnd.choice(ATOMS)


def family_b():
    for o1 in OPS:
        for o2 in OPS:
            emit("$ ? (%s %s %s %s %s)" % ("@.a", o1, '"b"' if o1 in ("starts with", "like_regex") else "@.b",
                                           o2, '"c"' if o2 in ("starts with", "like_regex") else "@.c"))
            emit("%s %s %s %s %s" % ("1", o1, '"b"' if o1 in ("starts with", "like_regex") else "2", o2,
                                     '"c"' if o2 in ("starts with", "like_regex") else "3"))
            for _ in range(2):
                emit("%s %s %s %s %s" % (atom(), o1, atom(), o2, atom()))
    for o1 in OPS:
        for o2 in OPS:
            for o3 in rnd.sample(OPS, 6):
                a = [atom() for _ in range(4)]
                emit("%s %s %s %s %s %s %s" % (a[0], o1, a[1], o2, a[2], o3, a[3]))
                emit("$ ? (%s %s (%s %s %s) %s %s)" % (a[0], o1, a[1], o2, a[2], o3, a[3]))
    for u in ["-", "+", "!", "- -", "+ -", "-+", "--", "! !"]:
        for o1 in OPS:
            emit("%s1 %s 2" % (u, o1))
            emit("%s(1 %s 2)" % (u, o1))
            emit("%s(1 %s 2).abs()" % (u, o1))
            emit("%s$.a %s $.b.c" % (u, o1))
            emit("1 %s %s2" % (o1, u))


# ---------------------------------------------------------------- family C
# escapes in identifiers and strings
SAMPLE_CHARS = "aZ0_$ \"\\/\b\f\n\r\t\v\x01\x7fé\u212a\u0130λ\ufffd😀\U0010ffff"
def family_c_chars():
    for ch in SAMPLE_CHARS:
        o = ord(ch)
        forms = ["\\u%04x" % o if o < 0x10000 else None, "\\u%04X" % o if o < 0x10000 else None,
                 "\\u{%x}" % o, "\\u{%X}" % o, "\\u{%06X}" % o, "\\u{0%x}" % o,
                 "\\x%02x" % o if o < 256 else None, "\\x%02X" % o if o < 256 else None, "\\" + ch]
        if o >= 0x10000:
            v = o - 0x10000
            hi, lo = 0xD800 + (v >> 10), 0xDC00 + (v & 0x3FF)
            forms += ["\\u%04x\\u%04x" % (hi, lo), "\\u%04X\\u%04X" % (hi, lo), "\\u{%x}\\u{%x}" % (hi, lo),
                      "\\u%04x" % hi, "\\u%04x" % lo, "\\u%04x\\u%04x" % (lo, hi), "\\u%04x\\n" % hi,
                      "\\u%04x\\x41" % hi, "\\u%04xA" % hi, "\\u%04x\\u0041" % hi]
        for f in forms:
            if f is None:
                continue
            for tmpl in ['$."%s"', '$.%s', '$.a%s', '$.%sb', '$.a%sb', '"%s"', '$"%s"', '$.a%s', '$ ? (@ == "%sx")',
                         '$.%s.b', '$.%s[0]', '$.%s ']:
                emit(tmpl % f)

ESCS = ["\\", "\\x", "\\x4", "\\x4g", "\\xg4", "\\x00", "\\u", "\\u0", "\\u00", "\\u004", "\\u004g", "\\u0000",
          "\\u{", "\\u{}", "\\u{0}", "\\u{000000}", "\\u{g}", "\\u{41", "\\u{0000041}", "\\u{110000}",
          "\\u{10ffff}", "\\u{ffffff}", "\\u{d800}", "\\u{dc00}\\u{d800}", "\\ud83d", "\\ud83d\\", "\\ud83d\\u",
          "\\ud83d\\ude", "\\ude00\\ud83d", "\\ud83d\\ud83d", "\\ud83d\\x41", "\\a", "\\0", "\\'", "\\\"", "\\/",
          "\\e", "\\U0001F600", "\\N", "\\\n", "\\é", "\\😀", "\\ ", "\\$", "\\_"]


def family_c_escapes():
    for e in ESCS:
        for tmpl in ['"%s"', '$.%s', '$.a%s', '$."%s"', '$"%s"', '"%sz"', '$.%sz', '$.a%s.b', '"a%s']:
            emit(tmpl % e)
    # numbers

NUMS = ["0", "00", "01", "0_1", "0x", "0x_1", "0x1_", "0x1__2", "0X1f", "0xg", "0o", "0o8", "0o17", "0O7", "0b", "0b2",
        "0b101", "0B1_0", "1_000", "1__0", "1_", "_1", "1e", "1e+", "1e5", "1E5", "1e+5", "1e-5", "1e5_0", "1e_5",
        "1_e5", "1.", "1.5", "1._5", "1_.5", "1.5_", ".5", ".5e1", "._5", "5.", "5.e1", "0.5", "0.e1", "0e1", "0e",
        "0x1e5", "0x1.8", "0x1p3", "0o7e1", "0b1e1", "0b1.5", "1a", "1.a", "1.5a", "1e5a", "1é", "1.é", "0é", "1_é",
        "09", "0.9", "0o9", "9223372036854775807", "9223372036854775808", "-9223372036854775808",
        "- 9223372036854775807", "0x7fffffffffffffff", "0x8000000000000000", "18446744073709551616",
        "1e308", "1e309", "1.7976931348623157e308", "1.7976931348623159e308", "4e-324", "5e-324", "2e-324", "1e-400",
        "1e400", "-1e400", "123456789.123456789e-5", "0.1e1", "1.0", "4.0", "1e20", "1e21", "100000000000000000000.0",
        "1.5e300", "1.e+5", "0x10", "0b11", "0o17", "1_0", "1_0.5", "0.0", "-0.0", "- -0.0", "-0", "+0", "+ +1",
        "+-1", "-+1", "- - -1", "-(1)", "-(1.5)", "-(-1)", "+(1)", "-(1).abs()", "- 1 .abs()", "-1 .abs()"]
def family_c_rest():
    for n in NUMS:
        for tmpl in ["%s", "$[%s]", "$.a == %s", "%s + 1", "1 - %s", "(%s).abs()", "%s.abs()", "%s .abs()", "$.**{%s}",
                     "$.decimal(%s)", "$.time(%s)", "%s)", "%s]", "%s,", "%s\"", "%s$", "%s_", "%s\\", "%s/**/", "%s é"]:
            emit(tmpl % n)
    # keyword case
    for k in KEYWORDS:
        variants = {k, k.upper(), k.capitalize(), k[:-1] + k[-1].upper(), k.replace("k", "\u212a"),
                    k.replace("i", "\u0130"), k.replace("s", "\u017f"), k.replace("i", "\u0131")}
        for v in sorted(variants):
            for tmpl in ["$.%s", "$.%s()", "$.%s(1)", "%s", "%s $", "$ %s $", "$[1 %s 2]", "$ ? (@ %s \"a\")",
                         "$ ? ((@ == 1) %s unknown)", "$.a ? (@ starts %s \"a\")", "$.**{%s}", "$.%s .x",
                         "$ ? (@ like_regex \"a\" %s \"i\")", "$[%s]", "$ ? (%s(@))", "$ ? (%s)"]:
                emit(tmpl % v)
    # private-use code points that collide with goyacc token numbers
    for cp in range(0xE000, 0xE034):
        c = chr(cp)
        for tmpl in ["%s", "$%s", "$.%s", "$ %s $", "$[1 %s 2]", "$[%s]", "$ ? (@ %s 1)", "%s $.a", "$ ? (@ %s \"a\")",
                     "$.a%s", "$.x%s()", "$.**{%s}", "1 %s 2", "%s%s", "$ == %s", "$.decimal(%s)", "$ ? (%s(@))",
                     "$ ? ((@ == 1) %s)", "\"%s\"", "$.\"%s\"", "/*%s*/$"]:
            emit(tmpl.replace("%s", c))


# ---------------------------------------------------------------- family D
NEAR = ["@", "@.a", "$ ? (@ == 1).b ? (@ > 1)", "$.a ? (@ == 1) == @", "last", "$[last]", "$[0 to last]",
        "$.a[last].b[$.c ? (@ == last)]", "$[1] + last", "$ ? (last == 1)", "$[$ ? (@ == last)]", "$[@]",
        "$ ? (@[last] == 1)", "$ ? (@ like_regex \"a\" flag \"x\")", "$ ? (@ like_regex \"a\" flag \"xq\")",
        "$ ? (@ like_regex \"a\" flag \"qx\")", "$ ? (@ like_regex \"(\" flag \"q\")", "$ ? (@ like_regex \"(\")",
        "$ ? (@ like_regex \"a\" flag \"z\")", "$ ? (@ like_regex \"a\" flag \"xz\")",
        "$ ? (@ like_regex \"a\" flag \"zx\")", "$ ? (@ like_regex \"(\" flag \"z\")",
        "$ ? (@ like_regex \"(\" flag \"x\")", "$ ? (@ like_regex \"a\" flag)", "$ ? (@ like_regex \"a\" \"i\")",
        "$ ? (@ like_regex a)", "$ ? (@ like_regex $a)", "$ ? (@ starts with 1)", "$ ? (@ starts with @)",
        "$ ? (@ starts \"a\")", "$.decimal()", "$.decimal(1)", "$.decimal(1,2)", "$.decimal(1,2,3)",
        "$.decimal(1,2,3,4)", "$.decimal(,)", "$.decimal(1,)", "$.decimal(1.5)", "$.decimal(- -1)",
        "$.decimal(99999999999999999999)", "$.decimal(1,2,99999999999999999999)", "$.decimal(1,2,3",
        "$.decimal(\"1\")", "$.decimal($a)", "$.decimal(+)", "$.decimal(-)", "$.decimal(1 2)",
        "$.time(99999999999999999999)", "$.time(-1)", "$.time(1.5)", "$.time(\"a\")", "$.date(1)", "$.date(\"a\")",
        "$.datetime(1)", "$.datetime(\"a\", \"b\")", "$.datetime($a)", "$.abs(1)", "$.abs(", "$.abs)", "$.abs ()",
        "$.abs( )", "$.foo()", "$.\"abs\"()", "$.**{", "$.**{}", "$.**{1", "$.**{1 to}", "$.**{to 1}", "$.**{-1}",
        "$.**{1.5}", "$.**{1,2}", "$.**{last to last}", "$.**{1 to 2 to 3}", "$**", "$.***", "$.** *", "$ .* .*",
        "$[*", "$[*,1]", "$[1,*]", "$[]", "$[,]", "$[1,]", "$[1 to]", "$[to 1]", "$[1 to 2 to 3]", "$[1 == 1]",
        "$[!(1==1)]", "$[exists($)]", "$[(1 == 1)]", "$[(1 == 1).a]", "$[-1]", "$[- 1 to + 2]", "$[1+2 to 3*4]",
        "exists($ == 1)", "exists(!(1 == 1))", "exists((1 == 1).a)", "exists()", "exists $", "exists", "!$", "!1 == 1",
        "!(1)", "!($.a)", "!(1 == 1) is unknown", "!(1 == 1).a", "!!(1 == 1)", "! exists($) is unknown",
        "(1 == 1) is", "(1 == 1) is known", "(1) is unknown", "1 is unknown", "((1 == 1)) is unknown",
        "((1 == 1) is unknown) is unknown", "(1 == 1) is unknown is unknown", "(1 == 1).a", "(1 == 1)[0]",
        "(1 == 1) ? (@ == true)", "(1 == 1) + 1", "1 + (1 == 1)", "1 + (1 == 1).a", "-(1 == 1)", "-(1 == 1).a",
        "1 == 1 == 1", "(1 == 1) == 1", "1 == (1 == 1)", "1 == (1 == 1).a", "1 && 2", "1 == 1 && 2", "1 && 1 == 2",
        "1 == 1 && 2 == 2 || 3 == 3", "1 == 1 || 2 == 2 && 3 == 3", "(1 == 1 || 2 == 2) && 3 == 3",
        "1 < 2 < 3", "1 + 2 * 3 - 4 / 5 % 6", "(1 + 2) * 3", "1 + (2 * 3)", "((1))", "(((1 + 2)))", "($)", "(($.a)).b",
        "($.a).b", "(($.a).b).c", "($.a.b).c.d", "(1).a", "(1.5).a", "(\"a\").a", "($a).a", "(true).a", "(-1).a",
        "(- $.a).b", "(-(1)).a", "(+1).a", "strict", "lax", "strict lax $", "strict strict $", "$ strict", "strict$",
        "strict($)", "laxly", "$.strict", "strict $.lax", "", " ", "\n", "/**/", "/*", "/* *", "/* * /", "/*/", "$ /*",
        "$ /* * / $", "$ / * 1", "$ // 1", "\"", "\"a", "\"a\n\"", "\"a\\\"", "$\"", "$\"a", "$.\"a", "$.a\"",
        "$a.b", "$a b", "$ a", "$$", "$ $", "$.$", "$.a$", "$.a.$b", "$..a", "$.", ".", ".a", "$.a.", "$.a..b", "$ .",
        "$[1", "$1", "$.1", "$.1a", "$.a1", "$. 1", "#", "$#", "$.a#", "&", "&&", "|", "=", "1 = 1", "1 === 1",
        "1 =! 1", "1 ! = 1", "1 < = 1", "1 <> 1", "1 >< 1", "1 => 1", "1 =< 1", "1 & & 1", "!", "!=", "~", "`", "'a'",
        "$['a']", "$[\"a\"]", "$.a[\"b\"]", "{", "}", "$.a{1}", ";", ":", "\\", "\\a", "_", "_a", "a", "a.b", "true",
        "TRUE", "True", "null", "NULL", "false", "$.true", "$.NULL", "true == TRUE", "$ == null", "$.a == Null"]

def family_d_near():
    for s in NEAR:
        emit(s)
        emit(" " + s + " ")
        emit("strict " + s)
        emit("$.x ? (" + s + ")")
        emit("(" + s + ")")

# invalid UTF-8 / NUL in every kind of position
BAD = [b"\x00", b"\x80", b"\xc0\x80", b"\xc3", b"\xe2\x82", b"\xed\xa0\x80", b"\xf4\x90\x80\x80", b"\xff",
       b"\xf8\x88\x80\x80\x80", b"\xef\xbf\xbd", b"\xc3\xa9", b"\xe0\x80\x80", b"\xf0\x80\x80\x80"]
CTX = [b"%s", b"$%s", b"$.%s", b"$.a%s", b"$.a%sb", b"\"%s\"", b"\"a%s", b"$\"%s\"", b"/*%s*/$", b"$ /*%s", b"1%s",
       b"1.%s", b"1e%s", b"0x%s", b"$ %s $", b"$%s.a", b"$.a %s", b"$.a\\%s", b"\"\\%s\"", b"\"\\u%s\"", b"\"\\x4%s\"",
       b"$ =%s", b"$ <%s", b"$ >%s 1", b"$ !%s", b"$ &%s", b"$ *%s", b"$.*%s", b"$ /%s", b"$ .%s", b"$a%s", b"$ $%s",
       b"$ ? (@ like_regex \"a\" %s", b"$ ? (@ like_regex \"(\" %s", b"9223372036854775808 %s", b"1e400%s",
       b"$.decimal(1,2,3) %s", b"1a %s 9223372036854775808", b"%s 9223372036854775808"]

def family_d_bad():
    for b in BAD:
        for c in CTX:
            emit(c.replace(b"%s", b))



def mutate(b):
    b = bytearray(b)
    n = rnd.choice([1, 1, 1, 2, 3])
    for _ in range(n):
        r = rnd.random()
        pos = rnd.randint(0, len(b)) if b else 0
        pool = b"$@.*[](){}?!<>=&|+-/%,\"\\ _0123456789abcdefxulastoiknwqszEX\n\t\x00\x80\xc3\xa9\xff"
        if r < 0.35 and b:
            b[min(pos, len(b) - 1)] = rnd.choice(pool)
        elif r < 0.6:
            b.insert(pos, rnd.choice(pool))
        elif r < 0.8 and b:
            del b[min(pos, len(b) - 1)]
        elif r < 0.9:
            b = b[:pos]
        else:
            j = rnd.randint(0, len(b))
            b = b[:pos] + b[min(pos, j):max(pos, j)] + b[pos:]
    return bytes(b)


def family_d_mut(n):
    if n <= 0:
        return
    seeds = [path(rnd.choice([1, 2, 3])).encode("utf-8", "surrogatepass") for _ in range(max(50, n // 10))]
    seeds += [s.encode() for s in NEAR if s]
    for _ in range(n):
        emit(mutate(rnd.choice(seeds)))


def dedup(items):
    seen = set()
    res = []
    for s in items:
        if s in seen:
            continue
        seen.add(s)
        res.append(s)
    return res


def generate(seed, size=16000, sweeps=True):
    """the inputs of the tie leg, as a list of distinct byte strings"""
    reseed(seed)
    del out[:]
    family_a(int(size * 0.55))
    if sweeps:
        family_b()
        family_c_chars()
        family_c_escapes()
        family_c_rest()
        family_d_near()
        family_d_bad()
    family_d_mut(size - int(size * 0.55))
    res = dedup(out)
    del out[:]
    return res


def collect(f, *args):
    """run one family function and return what it emitted"""
    del out[:]
    f(*args)
    res = list(out)
    del out[:]
    return res


if __name__ == "__main__":
    import argparse
    ap = argparse.ArgumentParser()
    ap.add_argument("--seed", type=int, default=1)
    ap.add_argument("--size", type=int, default=16000)
    ap.add_argument("--no-sweeps", action="store_true")
    a = ap.parse_args()
    for s in generate(a.seed, a.size, not a.no_sweeps):
        print(s.hex())
