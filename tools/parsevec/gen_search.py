#!/usr/bin/env python3
"""Generators of the search legs of the checks C02, C03, C04.

All random choices come from gen.rnd (the one PRNG, seeded with VERIF_SEED by
the caller through gen.reseed).  The central piece is an ABSTRACT path tree
(python tuples) with
  dump(tree)            the tree the grammar assigns, in the dump format of main.go
  render(tree, alt)     a concrete spelling: alt=False the canonical one, alt=True a
                        random one using the documented lexical / syntactic alternatives
so that a (tree, spelling) pair carries its own expected parse result.

Abstract syntax
  path  = ('path', mode, body)              mode in 'lax' | 'strict' | ''   body = expr | pred
  expr  = ('chain', head, [acc...])         head = prim | ('paren', expr|pred)  (paren only with accs)
        | ('un', '+'|'-', expr) | ('bin', op, expr, expr)           op in + - * / %
  pred  = ('cmp', op, expr, expr) | ('and', p, p) | ('or', p, p) | ('not', p) | ('exists', expr)
        | ('isunknown', p) | ('starts', expr, ('str', s)|('var', s)) | ('regex', expr, pattern, flags)
  prim  = ('root',) ('current',) ('last',) ('str', s) ('int', v) ('num', digits, exp10) ('true',) ('false',)
          ('null',) ('var', name)              num value = digits * 10**exp10
  acc   = ('key', s) ('anykey',) ('anyarray',) ('index', [(expr, expr|None)...]) ('any', first, last)
          ('meth', name) ('decimal', p|None, s|None) ('dt', op, arg|None) ('filter', pred)
          any bounds: None = absent (.**), 'last', or an int
"""
import struct
import sys
import os

sys.path.insert(0, os.path.dirname(os.path.abspath(__file__)))
import gen  # noqa: E402

rnd = gen.rnd
KEYWORDS = gen.KEYWORDS
METHODS = gen.METHODS
DTOPS = ["datetime", "date", "time", "time_tz", "timestamp", "timestamp_tz"]
ARITH = {"+": "add", "-": "sub", "*": "mul", "/": "div", "%": "mod"}
CMPS = {"==": "eq", "!=": "ne", "<": "lt", "<=": "le", ">": "gt", ">=": "ge"}
MAXU32 = 4294967295

# statistics of the spelling alternatives actually used (evidence histogram)
used = {}


def use(k):
    used[k] = used.get(k, 0) + 1


# ---------------------------------------------------------------------------
# dump (the format of tools/parsevec/main.go)
# ---------------------------------------------------------------------------

def hx(s):
    b = s.encode("utf-8")
    return "x" + b.hex() if b else "e"


def num_value(digits, exp10):
    return float("%se%d" % (digits, exp10))


def f64bits(f):
    return "%016x" % struct.unpack(">Q", struct.pack(">d", f))[0]


def lit_value(e):
    """the literal an expression folds to (sign folding of NewUnaryOrNumber), or None"""
    if e[0] == "chain" and not e[2]:
        h = e[1]
        if h[0] == "int":
            return ("int", h[1])
        if h[0] == "num":
            return ("num", num_value(h[1], h[2]))
        return None
    if e[0] == "un":
        v = lit_value(e[2])
        if v is None:
            return None
        if e[1] == "+":
            return v
        return (v[0], -v[1])
    return None


def d_lit(v):
    if v[0] == "int":
        return "(int %d)" % v[1]
    return "(num %s)" % f64bits(v[1])


def d_prim(p):
    k = p[0]
    if k in ("root", "current", "last", "true", "false", "null"):
        return "(const %s)" % k
    if k == "str":
        return "(str %s)" % hx(p[1])
    if k == "var":
        return "(var %s)" % hx(p[1])
    if k == "int":
        return "(int %d)" % p[1]
    if k == "num":
        return "(num %s)" % f64bits(num_value(p[1], p[2]))
    raise ValueError(p)


def any_bound(b):
    if b == "last" or b >= MAXU32:
        return MAXU32
    return b


def d_acc(a):
    k = a[0]
    if k == "key":
        return "(key %s)" % hx(a[1])
    if k == "anykey":
        return "(const anykey)"
    if k == "anyarray":
        return "(const anyarray)"
    if k == "index":
        return "(index" + "".join(" (%s %s)" % (d_chain(l), d_chain(r) if r is not None else "-") for l, r in a[1]) + ")"
    if k == "any":
        if a[1] is None:
            return "(any 0 %d)" % MAXU32
        return "(any %d %d)" % (any_bound(a[1]), any_bound(a[2] if a[2] is not None else a[1]))
    if k == "meth":
        return "(meth %s)" % a[1]
    if k == "decimal":
        return "(decimal %s %s)" % ("-" if a[1] is None else a[1], "-" if a[2] is None else a[2])
    if k == "dt":
        if a[2] is None:
            return "(dt %s - -)" % a[1]
        if a[1] == "datetime":
            return "(dt datetime %s -)" % hx(a[2])
        return "(dt %s - %d)" % (a[1], a[2])
    if k == "filter":
        return "(un filter %s)" % d_chain(a[1])
    raise ValueError(a)


def steps(e):
    k = e[0]
    if k == "chain":
        h = e[1]
        hs = steps(h[1]) if h[0] == "paren" else [d_prim(h)]
        return hs + [d_acc(a) for a in e[2]]
    if k == "un":
        v = lit_value(e)
        if v is not None:
            return [d_lit(v)]
        return ["(un %s %s)" % ("plus" if e[1] == "+" else "minus", d_chain(e[2]))]
    if k == "bin":
        return ["(bin %s %s %s)" % (ARITH[e[1]], d_chain(e[2]), d_chain(e[3]))]
    if k == "cmp":
        return ["(bin %s %s %s)" % (CMPS[e[1]], d_chain(e[2]), d_chain(e[3]))]
    if k in ("and", "or"):
        return ["(bin %s %s %s)" % (k, d_chain(e[1]), d_chain(e[2]))]
    if k == "not":
        return ["(un not %s)" % d_chain(e[1])]
    if k == "exists":
        return ["(un exists %s)" % d_chain(e[1])]
    if k == "isunknown":
        return ["(un isunknown %s)" % d_chain(e[1])]
    if k == "starts":
        return ["(bin startswith %s [%s])" % (d_chain(e[1]), d_prim(e[2]))]
    if k == "regex":
        mask = 0
        for c in e[3]:
            mask |= 1 << "ismxq".index(c)
        return ["(regex %s %s %d)" % (d_chain(e[1]), hx(e[2]), mask)]
    raise ValueError(e)


def d_chain(e):
    return "[" + " ".join(steps(e)) + "]"


PREDS = ("cmp", "and", "or", "not", "exists", "isunknown", "starts", "regex")


def is_pred(e):
    return e[0] in PREDS


def dump(p):
    return "(path %s %s %s)" % ("strict" if p[1] == "strict" else "lax", "pred" if is_pred(p[2]) else "nopred", d_chain(p[2]))


# ---------------------------------------------------------------------------
# token spellings
# ---------------------------------------------------------------------------

ID_START = "abcdefghijklmnopqrstuvwxyzABCDEFGHIJKLMNOPQRSTUVWXYZ_" + "éßλжא中あ𝒜" + "\u2118\u212e\u2167\u3007\u1885\u16ee\u3021"
ID_CONT = ID_START + "0123456789" + "\u0301\u203f" + "\u00b7\u0387\u1369\u19da\u0660\uff3f"
SIMPLE_ESC = {8: "\\b", 12: "\\f", 10: "\\n", 13: "\\r", 9: "\\t", 11: "\\v"}


def esc_forms(ch):
    """every escape spelling of one character (name, text)"""
    o = ord(ch)
    f = []
    if o < 0x10000:
        f += [("u4", "\\u%04x" % o), ("U4", "\\u%04X" % o)]
    f += [("u{}", "\\u{%x}" % o), ("U{}", "\\u{%X}" % o)]
    if o < 0x100000:
        f.append(("u{0}", "\\u{%06x}" % o if o > 0xfffff else "\\u{0%x}" % o if o < 0x10000 else "\\u{%x}" % o))
    if o < 0x100:
        f += [("x2", "\\x%02x" % o), ("X2", "\\x%02X" % o)]
    if o >= 0x10000:
        v = o - 0x10000
        hi, lo = 0xD800 + (v >> 10), 0xDC00 + (v & 0x3FF)
        f += [("pair", "\\u%04x\\u%04x" % (hi, lo)), ("PAIR", "\\u%04X\\u%04X" % (hi, lo)),
              ("pair{}", "\\u{%x}\\u{%x}" % (hi, lo)), ("pair-mixed", "\\u%04x\\u{%x}" % (hi, lo))]
    if o in SIMPLE_ESC:
        f.append(("simple", SIMPLE_ESC[o]))
    if ch not in "bfnrtvxu" and ch != "\n" and o >= 0x20:
        f.append(("literal", "\\" + ch))
    return f


def esc_char(ch):
    name, text = rnd.choice(esc_forms(ch))
    use("escape:" + name)
    return text


def raw_ok_in_string(ch):
    return ch not in '"\\\n' and ord(ch) != 0


def quoted(text, alt):
    o = ['"']
    for ch in text:
        if not raw_ok_in_string(ch):
            if not alt:
                o.append({'"': '\\"', "\\": "\\\\", "\n": "\\n"}[ch])
            else:
                o.append(esc_char(ch))
        elif alt and rnd.random() < 0.3:
            o.append(esc_char(ch))
        else:
            o.append(ch)
    o.append('"')
    return "".join(o)


def is_ident(text):
    return bool(text) and text[0] in ID_START and all(c in ID_CONT for c in text[1:])


def key_token(text, alt):
    """spelling of a key name after the dot"""
    if not alt:
        return text if is_ident(text) and text.lower() not in KEYWORDS else quoted(text, False)
    r = rnd.random()
    if is_ident(text) and r < 0.45:
        use("key:bare")
        out = "".join(esc_char(c) if rnd.random() < 0.2 else c for c in text)
        return out
    if text and r < 0.65 and "\x00" not in text:
        use("key:all-escaped")
        return "".join(esc_char(c) for c in text)
    use("key:quoted")
    return quoted(text, True)


def var_token(name, alt):
    bare = bool(name) and all(c in ID_CONT for c in name)
    if bare and (not alt or rnd.random() < 0.5):
        if alt:
            use("var:bare")
        return "$" + name
    if alt:
        use("var:quoted")
    return "$" + quoted(name, alt)


def kw(k, alt):
    if not alt or k in ("true", "false", "null"):
        return k
    r = rnd.random()
    if r < 0.4:
        return k
    use("keyword-case")
    if r < 0.6:
        return k.upper()
    if r < 0.75:
        return k.capitalize()
    return "".join(c.upper() if rnd.random() < 0.5 else c for c in k)


def underscores(digs):
    if len(digs) < 2 or rnd.random() < 0.7:
        return digs
    use("number:underscore")
    i = rnd.randint(1, len(digs) - 1)
    return digs[:i] + "_" + digs[i:]


def int_token(v, alt):
    """a non-negative integer literal"""
    if not alt:
        return str(v)
    r = rnd.random()
    if r < 0.4:
        return underscores(str(v))
    if r < 0.6:
        use("number:hex")
        d = "%x" % v
        d = d.upper() if rnd.random() < 0.4 else d
        return rnd.choice(["0x", "0X"]) + underscores(d)
    if r < 0.8:
        use("number:octal")
        return rnd.choice(["0o", "0O"]) + underscores("%o" % v)
    use("number:binary")
    return rnd.choice(["0b", "0B"]) + underscores(bin(v)[2:])


def num_token(digits, exp10, alt):
    """a NUMERIC literal of value digits * 10**exp10 (digits: decimal string without sign)"""
    digits = digits.lstrip("0") or "0"
    forms = []
    if exp10 >= 0 and len(digits) + exp10 <= 25:
        whole = (digits + "0" * exp10).lstrip("0") or "0"
        forms += [("I.0", whole + ".0"), ("I.", whole + "."), ("IeN", digits + "e" + str(exp10)), ("I.00", whole + ".00")]
    if exp10 < 0 and -exp10 <= 25:
        n = -exp10
        d = digits.rjust(n + 1, "0")
        ip, fp = d[:-n], d[-n:]
        forms.append(("I.F", ip + "." + fp))
        if ip == "0":
            forms.append((".F", "." + fp))
        forms.append(("I.F0", ip + "." + fp + "0"))
    e = rnd.choice(["e", "E"])
    forms += [("mEk", "%s%s%d" % (digits, e, exp10)), ("mE+k", "%s%s%s%d" % (digits, e, "+" if exp10 >= 0 else "", exp10)),
              ("m.Ek", "%s.%s%d" % (digits, e, exp10)), ("m.0Ek", "%s.0%s%d" % (digits, e, exp10)),
              (".mEk", ".%s%s%d" % (digits, e, exp10 + len(digits))), ("0.mEk", "0.%s%s%d" % (digits, e, exp10 + len(digits))),
              ]
    if digits != "0":
        forms.append(("m0Ek", "%s0%s%d" % (digits, e, exp10 - 1)))
    if not alt:
        return forms[0][1] if forms[0][0] in ("I.0", "I.F") else "%se%d" % (digits, exp10)
    name, s = rnd.choice(forms)
    use("number:" + name)
    if rnd.random() < 0.15:
        # underscores between digits of the integer part
        i = 0
        while i < len(s) and s[i].isdigit():
            i += 1
        if i >= 2:
            s = underscores(s[:i]) + s[i:]
    return s


# ---------------------------------------------------------------------------
# rendering: a token list, then separators
# ---------------------------------------------------------------------------

BIN_PRIO = {"or": 0, "and": 1, "cmp": 2, "starts": 2, "regex": 2, "+": 3, "-": 3, "*": 4, "/": 4, "%": 4}


def eprio(e):
    k = e[0]
    if k == "bin":
        return BIN_PRIO[e[1]]
    if k in BIN_PRIO:
        return BIN_PRIO[k]
    if k == "un":
        return 5
    return 6


class R:
    def __init__(self, alt):
        self.alt = alt
        self.t = []

    def tok(self, s):
        self.t.append(s)

    def paren(self, f, *a):
        self.tok("(")
        f(*a)
        self.tok(")")

    def maybe_paren(self, need, f, *a):
        """parentheses when needed; a redundant pair now and then in alternative spellings"""
        extra = 0
        if self.alt and rnd.random() < 0.12:
            extra = 1
            use("redundant-parens")
        n = (1 if need else 0) + extra
        for _ in range(n):
            self.tok("(")
        f(*a)
        for _ in range(n):
            self.tok(")")

    # ---- expressions
    def expr(self, e):
        k = e[0]
        if k == "chain":
            h = e[1]
            if h[0] == "paren":
                self.paren(self.any, h[1])
            else:
                self.prim(h, bool(e[2]))
            for a in e[2]:
                self.acc(a)
        elif k == "un":
            self.tok(e[1])
            a = e[2]
            self.maybe_paren(eprio(a) < 5, self.expr, a)
        elif k == "bin":
            p = BIN_PRIO[e[1]]
            self.maybe_paren(eprio(e[2]) < p, self.expr, e[2])
            self.tok(e[1])
            self.maybe_paren(eprio(e[3]) <= p, self.expr, e[3])
        else:
            raise ValueError(e)

    def any(self, e):
        if is_pred(e):
            self.pred(e)
        else:
            self.expr(e)

    def prim(self, p, has_acc):
        k = p[0]
        alt = self.alt
        if k == "root":
            self.tok("$")
        elif k == "current":
            self.tok("@")
        elif k == "last":
            self.tok(kw("last", alt))
        elif k in ("true", "false", "null"):
            self.tok(k)
        elif k == "str":
            self.tok(quoted(p[1], alt))
        elif k == "var":
            self.tok(var_token(p[1], alt))
        elif k in ("int", "num"):
            s = int_token(p[1], alt) if k == "int" else num_token(p[1], p[2], alt)
            if has_acc and (not alt or rnd.random() < 0.6):
                # a number followed by an accessor: parentheses, or (alternative) white space
                self.tok("(")
                self.tok(s)
                self.tok(")")
            else:
                if has_acc:
                    use("number-space-accessor")
                self.tok(s)
        else:
            raise ValueError(p)

    def csv_int(self, v):
        if v < 0:
            self.tok("-")
        elif self.alt and rnd.random() < 0.3:
            use("decimal:plus-sign")
            self.tok("+")
        self.tok(int_token(abs(v), self.alt))

    def level(self, b):
        self.tok(kw("last", self.alt) if b == "last" else int_token(b, self.alt))

    def acc(self, a):
        k = a[0]
        alt = self.alt
        if k == "key":
            self.tok(".")
            self.tok(key_token(a[1], alt))
        elif k == "anykey":
            self.tok(".")
            self.tok("*")
        elif k == "anyarray":
            self.tok("[")
            self.tok("*")
            self.tok("]")
        elif k == "index":
            self.tok("[")
            for i, (l, r) in enumerate(a[1]):
                if i:
                    self.tok(",")
                self.maybe_paren(False, self.expr, l)
                if r is not None:
                    self.tok(kw("to", alt))
                    self.maybe_paren(False, self.expr, r)
            self.tok("]")
        elif k == "any":
            self.tok(".")
            self.tok("**")
            if a[1] is not None:
                self.tok("{")
                self.level(a[1])
                if a[2] is not None:
                    self.tok(kw("to", alt))
                    self.level(a[2])
                self.tok("}")
        elif k == "meth":
            self.tok(".")
            self.tok(kw(a[1], alt))
            self.tok("(")
            self.tok(")")
        elif k == "decimal":
            self.tok(".")
            self.tok(kw("decimal", alt))
            self.tok("(")
            if a[1] is not None:
                self.csv_int(a[1])
                if a[2] is not None:
                    self.tok(",")
                    self.csv_int(a[2])
            self.tok(")")
        elif k == "dt":
            self.tok(".")
            self.tok(kw(a[1], alt))
            self.tok("(")
            if a[2] is not None:
                self.tok(quoted(a[2], alt) if a[1] == "datetime" else int_token(a[2], alt))
            self.tok(")")
        elif k == "filter":
            self.tok("?")
            self.tok("(")
            self.maybe_paren(False, self.pred, a[1])
            self.tok(")")
        else:
            raise ValueError(a)

    # ---- predicates
    def pred(self, e):
        k = e[0]
        alt = self.alt
        if k == "cmp":
            self.maybe_paren(False, self.expr, e[2])
            op = e[1]
            if op == "!=" and alt and rnd.random() < 0.5:
                use("ne:<>")
                op = "<>"
            self.tok(op)
            self.maybe_paren(False, self.expr, e[3])
        elif k in ("and", "or"):
            p = BIN_PRIO[k]
            self.maybe_paren(eprio(e[1]) < p, self.pred, e[1])
            self.tok("&&" if k == "and" else "||")
            self.maybe_paren(eprio(e[2]) <= p, self.pred, e[2])
        elif k == "not":
            self.tok("!")
            if e[1][0] == "exists" and (not alt or rnd.random() < 0.5):
                self.pred(e[1])
            else:
                self.paren(self.pred, e[1])
        elif k == "exists":
            self.tok(kw("exists", alt))
            self.paren(self.maybe_paren, False, self.expr, e[1])
        elif k == "isunknown":
            self.paren(self.maybe_paren, False, self.pred, e[1])
            self.tok(kw("is", alt))
            self.tok(kw("unknown", alt))
        elif k == "starts":
            self.maybe_paren(False, self.expr, e[1])
            self.tok(kw("starts", alt))
            self.tok(kw("with", alt))
            self.tok(quoted(e[2][1], alt) if e[2][0] == "str" else var_token(e[2][1], alt))
        elif k == "regex":
            self.maybe_paren(False, self.expr, e[1])
            self.tok(kw("like_regex", alt))
            self.tok(quoted(e[2], alt))
            if e[3] or (alt and rnd.random() < 0.2):
                self.tok(kw("flag", alt))
                self.tok('"' + e[3] + '"')
        else:
            raise ValueError(e)


def ident_like(c):
    return c in ID_CONT or c == "\\" or c.isalnum() or c == "_" or ord(c) > 127


def wordlike(a):
    """identifier, keyword, bare variable or number: a token that following identifier characters would extend"""
    if a[0] == '"' or a.startswith('$"'):
        return False
    if "\\" in a:
        return True
    return ident_like(a[-1]) or a[0].isdigit() or (a[0] == "." and len(a) > 1 and a[1].isdigit())


def numberlike(a):
    return a[0].isdigit() or (a[0] == "." and len(a) > 1 and a[1].isdigit())


def needs_sep(a, b):
    """must white space separate the adjacent tokens a b?"""
    y = b[0]
    if wordlike(a) and (ident_like(y) or y.isdigit()):
        return True
    if numberlike(a) and y == ".":
        return True
    if a == "$" and (ident_like(y) or y == '"'):
        return True
    if a == "*" and b in ("*", "**"):
        return True
    if a == "." and y.isdigit():
        return True
    if a == "/" and y == "*":
        return True
    return False


WS_ALTS = [" ", "  ", "\t", "\n", "\r\n", " \t ", "/**/", "/* c */", " /* a*b / c */ ", "/***/", "/* \n */", " /*x*/ /*y*/ ", "/*é😀*/", "/*/*/", "/*/ x */", "/* / * /* */", "/*\"*/", "/*//*/"]


def join(tokens, alt):
    out = []
    if alt and rnd.random() < 0.2:
        out.append(rnd.choice(WS_ALTS))
    for i, t in enumerate(tokens):
        if i:
            a = tokens[i - 1]
            # '$name' / '$"name"' and '**' are single tokens already
            if needs_sep(a, t):
                if alt and rnd.random() < 0.4:
                    w = rnd.choice(WS_ALTS)
                    use("ws:comment" if "/*" in w else "ws:other")
                    out.append(w)
                else:
                    out.append(" ")
            elif alt:
                r = rnd.random()
                if r < 0.3:
                    w = rnd.choice(WS_ALTS)
                    use("ws:comment" if "/*" in w else "ws:other")
                    out.append(w)
            elif a in BINTOK or t in BINTOK or a == ",":
                out.append(" ")
        out.append(t)
    if alt and rnd.random() < 0.2:
        out.append(rnd.choice(WS_ALTS))
    return "".join(out)


BINTOK = {"+", "-", "*", "/", "%", "==", "!=", "<>", "<", "<=", ">", ">=", "&&", "||"}


def render(p, alt):
    r = R(alt)
    if p[1]:
        r.tok(kw(p[1], alt))
    elif alt and not is_pred(p[2]) and rnd.random() < 0.15:
        use("explicit-lax")
        r.tok(kw("lax", alt))
    r.maybe_paren(False, r.any, p[2])
    toks = r.t
    # unary signs must not be glued by the canonical binary-operator spacing rule: handled in join
    return join(toks, alt)


# ---------------------------------------------------------------------------
# random abstract trees
# ---------------------------------------------------------------------------

TEXT_POOL = "abcxyzABC019 _-.$@\"\\'/*?[](){}%!#&+,:;<=>^`|~\t\n\r\b\f\v\a\x01\x1f\x7fé\u00a0\u200bλ中\ufeff\ufffd😀𝒜\U000e0001\U0010ffff\u2028\u0085\U000fd800\U0010dc00\U000edfff\U0001d7ff\U0002e000"
REGEX_OK = ["100%", "%d%s", "^[0-9]+%$", "%", "a%!b", "^a", "a.*b", "[a-z]+", "(ab|cd)*", "\\d+", "a{2,3}", "^$", "", "x", "(?i)a", "a\\.b", "é+", "[^\\n]", "\\s", "a|b",
            "(?s).", "[[:alpha:]]", "\\\\", "\\$", "\"q\"", "😀?"]


def rand_text(maxlen=5):
    return "".join(rnd.choice(TEXT_POOL) for _ in range(rnd.randint(0, maxlen)))


def rand_ident():
    n = rnd.randint(1, 5)
    return rnd.choice(ID_START) + "".join(rnd.choice(ID_CONT) for _ in range(n - 1))


def rand_key():
    r = rnd.random()
    if r < 0.45:
        return rand_ident()
    if r < 0.6:
        k = rnd.choice(KEYWORDS)
        return rnd.choice([k, k.upper(), k.capitalize()])
    return rand_text()


def rand_int():
    return rnd.choice([0, 1, 2, 7, 10, 42, 255, 1000, 65535, 2147483647, 4294967295, 4294967296, 9007199254740993,
                       9223372036854775807, rnd.randint(0, 10 ** rnd.randint(1, 18))])


def rand_num():
    while True:
        n = rand_num1()
        v = num_value(n[1], n[2])
        if v != float("inf"):
            return n


def rand_num1():
    r = rnd.random()
    if r < 0.3:
        return ("num", str(rnd.randint(0, 10 ** rnd.randint(1, 8))), rnd.randint(-8, 3))
    if r < 0.5:
        return ("num", str(rnd.randint(1, 99)), rnd.randint(-30, 30))
    if r < 0.6:
        return ("num", str(rnd.randint(1, 9)), rnd.choice([-324, -323, -308, -307, 307, 308, -400, 22, 23, 15, 16, 21, 20]))
    if r < 0.7:
        return ("num", rnd.choice(["17976931348623157", "22250738585072014", "49", "5", "4", "0", "100"]),
                rnd.choice([292, -324, -323, 0, 1, -1, 2]))
    return ("num", "".join(rnd.choice("0123456789") for _ in range(rnd.randint(1, 20))), rnd.randint(-25, 5))


def rand_prim(ctx):
    r = rnd.random()
    if r < 0.3:
        return ("root",)
    if r < 0.45 and ctx["filter"]:
        return ("current",)
    if r < 0.52 and ctx["sub"]:
        return ("last",)
    if r < 0.62:
        return ("int", rand_int())
    if r < 0.72:
        return rand_num()
    if r < 0.82:
        return ("str", rand_text())
    if r < 0.88:
        return (rnd.choice(["true", "false", "null"]),)
    if r < 0.97:
        return ("var", rand_ident() if rnd.random() < 0.6 else rnd.choice(["a1", "_x", "9", "été", "1a"]) if rnd.random() < 0.5 else (rand_text() or "v"))
    return ("root",)


def rand_level():
    return rnd.choice([0, 1, 2, 5, "last", 4294967294, 4294967295, 4294967296, 99999999999999999999, rnd.randint(0, 9)])


def rand_acc(depth, ctx):
    r = rnd.random()
    if r < 0.32:
        return ("key", rand_key())
    if r < 0.38:
        return ("anykey",)
    if r < 0.44:
        return ("anyarray",)
    if r < 0.56 and depth > 0:
        c2 = dict(ctx, sub=True)
        return ("index", [(rand_expr(depth - 1, c2), rand_expr(depth - 1, c2) if rnd.random() < 0.4 else None)
                          for _ in range(rnd.randint(1, 3))])
    if r < 0.64:
        f = rnd.random()
        if f < 0.3:
            return ("any", None, None)
        if f < 0.65:
            return ("any", rand_level(), None)
        return ("any", rand_level(), rand_level())
    if r < 0.76:
        return ("meth", rnd.choice(METHODS))
    if r < 0.81:
        f = rnd.random()
        sg = lambda: rnd.choice([1, 1, -1]) * rnd.choice([0, 1, 5, 10, 38, 1000, 2147483647])
        if f < 0.3:
            return ("decimal", None, None)
        if f < 0.6:
            return ("decimal", sg(), None)
        return ("decimal", sg(), sg())
    if r < 0.87:
        op = rnd.choice(DTOPS)
        if op == "date":
            return ("dt", op, None)
        if op == "datetime":
            return ("dt", op, rnd.choice([None, "HH24:MI", "YYYY-MM-DD", rand_text()]))
        return ("dt", op, rnd.choice([None, 0, 3, 6, 9, 10, 2147483647]))
    if depth > 0:
        return ("filter", rand_pred(depth - 1, dict(ctx, filter=True)))
    return ("key", rand_key())


def rand_expr(depth, ctx):
    r = rnd.random()
    if depth <= 0 or r < 0.45:
        n = rnd.choice([0, 0, 1, 1, 2, 3])
        return ("chain", rand_prim(ctx), [rand_acc(depth, ctx) for _ in range(n)])
    if r < 0.58:
        return ("un", rnd.choice("+-"), rand_expr(depth - 1, ctx))
    if r < 0.85:
        return ("bin", rnd.choice("+-*/%"), rand_expr(depth - 1, ctx), rand_expr(depth - 1, ctx))
    inner = rand_expr(depth - 1, ctx) if rnd.random() < 0.7 else rand_pred(depth - 1, ctx)
    return ("chain", ("paren", inner), [rand_acc(depth, ctx) for _ in range(rnd.choice([1, 1, 2]))])


def rand_flags():
    return "".join(rnd.choice("ismq") for _ in range(rnd.choice([0, 0, 1, 1, 2, 3])))


def rand_pred(depth, ctx):
    r = rnd.random()
    if depth <= 0 or r < 0.35:
        return ("cmp", rnd.choice(list(CMPS)), rand_expr(depth - 1, ctx), rand_expr(depth - 1, ctx))
    if r < 0.5:
        return (rnd.choice(["and", "or"]), rand_pred(depth - 1, ctx), rand_pred(depth - 1, ctx))
    if r < 0.6:
        return ("not", rand_pred(depth - 1, ctx))
    if r < 0.7:
        return ("exists", rand_expr(depth - 1, ctx))
    if r < 0.78:
        return ("isunknown", rand_pred(depth - 1, ctx))
    if r < 0.88:
        rhs = ("str", rand_text()) if rnd.random() < 0.6 else ("var", rand_ident())
        return ("starts", rand_expr(depth - 1, ctx), rhs)
    return ("regex", rand_expr(depth - 1, ctx), rnd.choice(REGEX_OK), rand_flags())


def rand_path(depth):
    mode = rnd.choice(["", "", "strict", "lax"])
    ctx = {"filter": False, "sub": False}
    body = rand_expr(depth, ctx) if rnd.random() < 0.65 else rand_pred(depth, ctx)
    return ("path", mode, body)


# ---------------------------------------------------------------------------
# helpers to build abstract trees by hand
# ---------------------------------------------------------------------------

def P(body, mode=""):
    return ("path", mode, body)


def ch(head, *accs):
    return ("chain", head, list(accs))


ROOT = ch(("root",))
CUR = ch(("current",))
ONE = ch(("int", 1))
KEYB = ("key", "b")


def I(v):
    return ch(("int", v))


def enc(s):
    return s.encode("utf-8", "surrogatepass") if isinstance(s, str) else s


def case(text, tree, tag, group=None, cls=None):
    """one C03 case: tree None = must be rejected"""
    return {"text": enc(text), "exp": dump(tree) if tree is not None else None, "tag": tag, "group": group, "cls": cls}


# ---------------------------------------------------------------------------
# C03: (abstract path, spelling) pairs and token-independence probes
# ---------------------------------------------------------------------------

# contexts for a token that is a complete expression x: (template, tree builder)
def expr_contexts(number=False, in_filter=False, in_sub=False):
    c = []
    if not in_filter and not in_sub:
        c += [("%s", lambda x: P(x)), ("%s ", lambda x: P(x)), ("%s\t", lambda x: P(x)), ("%s\n", lambda x: P(x)),
              ("%s\r\n", lambda x: P(x)), ("%s/**/", lambda x: P(x)), ("%s/* c */ ", lambda x: P(x)),
              ("(%s)", lambda x: P(x)), ("( %s )", lambda x: P(x)), ("strict %s", lambda x: P(x, "strict")),
              ("lax/**/%s", lambda x: P(x, "lax"))]
        for op in CMPS:
            c.append(("%s" + op + "1", lambda x, op=op: P(("cmp", op, x, ONE))))
            c.append(("1" + op + "%s", lambda x, op=op: P(("cmp", op, ONE, x))))
        c.append(("%s<>1", lambda x: P(("cmp", "!=", x, ONE))))
        c.append(("%s ==1", lambda x: P(("cmp", "==", x, ONE))))
        c.append(("%s/**/==1", lambda x: P(("cmp", "==", x, ONE))))
        for op in ARITH:
            c.append(("%s" + op + "1", lambda x, op=op: P(("bin", op, x, ONE))))
            c.append(("1" + op + "%s", lambda x, op=op: P(("bin", op, ONE, x))))
        c += [("%s&&1==1" if False else "1==%s&&1==1", lambda x: P(("and", ("cmp", "==", ONE, x), ("cmp", "==", ONE, ONE)))),
              ("1==%s||1==1", lambda x: P(("or", ("cmp", "==", ONE, x), ("cmp", "==", ONE, ONE)))),
              ("exists(%s)", lambda x: P(("exists", x))), ("!exists(%s)", lambda x: P(("not", ("exists", x)))),
              ("(%s==1)is unknown", lambda x: P(("isunknown", ("cmp", "==", x, ONE)))),
              ("(1==%s)is unknown", lambda x: P(("isunknown", ("cmp", "==", ONE, x)))),
              ("(%s).b", lambda x: P(ch(("paren", x), KEYB))), ("(%s)[0]", lambda x: P(ch(("paren", x), ("index", [(I(0), None)])))),
              ("$[%s]", lambda x: P(ch(("root",), ("index", [(x, None)])))),
              ("$[%s,1]", lambda x: P(ch(("root",), ("index", [(x, None), (ONE, None)])))),
              ("$[1,%s]", lambda x: P(ch(("root",), ("index", [(ONE, None), (x, None)])))),
              ("$[%s to 1]", lambda x: P(ch(("root",), ("index", [(x, ONE)])))),
              ("$[%s/**/to 1]", lambda x: P(ch(("root",), ("index", [(x, ONE)])))),
              ("$[1 to %s]", lambda x: P(ch(("root",), ("index", [(ONE, x)])))),
              ("$?(%s==1)", lambda x: P(ch(("root",), ("filter", ("cmp", "==", x, ONE))))),
              ("$?(1==%s)", lambda x: P(ch(("root",), ("filter", ("cmp", "==", ONE, x))))),
              ("%s like_regex\"a\"", lambda x: P(("regex", x, "a", ""))),
              ("%s starts with\"a\"", lambda x: P(("starts", x, ("str", "a")))),
              ("-%s", lambda x: P(("un", "-", x))), ("+ %s", lambda x: P(("un", "+", x))), ("- -%s", lambda x: P(("un", "-", ("un", "-", x))))]
    return c


def add_acc(x, *accs):
    """x followed by accessors (x is a chain)"""
    return ("chain", x[1], x[2] + list(accs))


# continuations by accessor: only for tokens that can be followed directly by an accessor
ACC_CONTEXTS = [
    ("%s.b", lambda x: P(add_acc(x, KEYB))), ("%s .b", lambda x: P(add_acc(x, KEYB))), ("%s[0]", lambda x: P(add_acc(x, ("index", [(I(0), None)])))),
    ("%s[*]", lambda x: P(add_acc(x, ("anyarray",)))), ("%s.*", lambda x: P(add_acc(x, ("anykey",)))),
    ("%s.**", lambda x: P(add_acc(x, ("any", None, None)))), ("%s.size()", lambda x: P(add_acc(x, ("meth", "size")))),
    ("%s?(1==1)", lambda x: P(add_acc(x, ("filter", ("cmp", "==", ONE, ONE))))),
    ("%s/**/.b", lambda x: P(add_acc(x, KEYB))), ("%s\n[0]", lambda x: P(add_acc(x, ("index", [(I(0), None)])))),
]

PROBE_CHARS = "aZ9_é中😀 \"\\/'\b\f\n\r\t\v\x01\x7f\u0085  ﻿�\U000e0001\U0010ffff$*)]}.,"


def c03_token_probes():
    out = []
    g = [0]

    def sweep(tag, spellings, tree_of, contexts):
        """spellings: list of (spelling, value); every spelling x every context"""
        for sp, val in spellings:
            g[0] += 1
            x = tree_of(val)
            for tmpl, build in contexts:
                out.append(case(tmpl.replace("%s", sp), build(x), tag, "probe%d" % g[0]))

    # keys whose LAST character is spelled in every escape form (and raw), followed by every continuation
    keys = []
    for c in PROBE_CHARS:
        text = "k" + c
        for name, f in esc_forms(c):
            keys.append(("$.k" + f, text))
        if c in ID_CONT:
            keys.append(("$.k" + c, text))
        if raw_ok_in_string(c):
            keys.append(('$."k' + c + '"', text))
        keys.append(('$."k' + esc_forms(c)[0][1] + '"', text))
    for k in ["a", "_", "é", "ab9"] + [k2 for k1 in KEYWORDS for k2 in (k1, k1.upper(), k1.capitalize())]:
        keys.append(("$." + k, k))
    cont_word = [c for c in expr_contexts() if not c[0].startswith("%s") or c[0] == "%s" or not ident_like(c[0][2])]
    sweep("token:key", keys, lambda t: ch(("root",), ("key", t)), cont_word + ACC_CONTEXTS)

    # numbers: every form, followed by every delimiter
    ints = [(s, v) for v in (0, 1, 7, 10, 255, 2147483648, 9223372036854775807)
            for s in sorted({str(v), "0x%x" % v, "0X%X" % v, "0o%o" % v, "0b" + bin(v)[2:], "0B" + bin(v)[2:]})]
    ints += [("1_000", 1000), ("0x1_F", 31), ("0b1_0", 2), ("0o1_7", 15), ("1_2_3", 123)]
    nums = [("1.5", ("15", -1)), (".5", ("5", -1)), ("5.", ("5", 0)), ("0.5", ("5", -1)), ("1e5", ("1", 5)), ("1E5", ("1", 5)), ("1e+5", ("1", 5)),
            ("1e-5", ("1", -5)), ("1.5e3", ("15", 2)), (".5e1", ("5", 0)), ("5.e1", ("5", 1)), ("0.0", ("0", 0)), ("0e0", ("0", 0)), ("1_0.5", ("105", -1)),
            ("1.5_5", ("155", -2)), ("1e1_0", ("1", 10)), ("4.0", ("4", 0)), ("1e20", ("1", 20)), ("5e-324", ("5", -324)),
            ("1.7976931348623157e308", ("17976931348623157", 292)), ("0.1", ("1", -1)), ("123456789012345678901.5", ("1234567890123456789015", -1))]
    numctx = [c for c in expr_contexts() if not (c[0].startswith("%s") and len(c[0]) > 2 and (ident_like(c[0][2]) or c[0][2] == "."))]
    numacc = [c for c in ACC_CONTEXTS if not c[0].startswith("%s.")]
    sweep("token:int", ints, lambda v: I(v), numctx + numacc)
    sweep("token:numeric", nums, lambda v: ch(("num", v[0], v[1])), numctx + numacc)
    # hex / octal / binary integers may be followed by an accessor dot directly
    sweep("token:int-dot", [(s, v) for s, v in ints if s[:2].lower() in ("0x", "0o", "0b")], lambda v: I(v),
          [("%s.b", lambda x: P(add_acc(x, KEYB))), ("%s.size()", lambda x: P(add_acc(x, ("meth", "size")))), ("%s.*", lambda x: P(add_acc(x, ("anykey",))))])

    # strings and variables
    strs = []
    for c in PROBE_CHARS:
        text = "s" + c
        for name, f in esc_forms(c):
            strs.append(('"s' + f + '"', text))
        if raw_ok_in_string(c):
            strs.append(('"s' + c + '"', text))
    strs += [('""', ""), ('"\\ud83d\\ude00"', "😀"), ('"\\uD83D\\uDE00x"', "😀x"), ('"\\u{1F600}"', "😀"), ('"\\u{00001f}"', "\x1f")]
    sweep("token:string", strs, lambda t: ch(("str", t)), expr_contexts() + ACC_CONTEXTS)
    vars_ = [("$x", "x"), ("$x1", "x1"), ("$_", "_"), ("$9", "9"), ("$é", "é"), ('$"x"', "x"), ('$""', ""), ('$"a b"', "a b"), ('$"\\u0041"', "A"),
             ('$"\\x41\\u{42}"', "AB")]
    sweep("token:variable", [v for v in vars_ if v[0][1] != '"'], lambda t: ch(("var", t)), cont_word + ACC_CONTEXTS)
    sweep("token:variable", [v for v in vars_ if v[0][1] == '"'], lambda t: ch(("var", t)), expr_contexts() + ACC_CONTEXTS)
    # constants
    sweep("token:const", [("$", "root")], lambda t: ROOT, [c for c in expr_contexts() if not (c[0].startswith("%s") and len(c[0]) > 2 and ident_like(c[0][2]))] + ACC_CONTEXTS)
    sweep("token:const", [("true", "true"), ("false", "false"), ("null", "null")], lambda t: ch((t,)), cont_word + ACC_CONTEXTS)
    # @ (inside a filter) and last (inside a subscript)
    fctx = [("$?(%s==1)", lambda x: P(ch(("root",), ("filter", ("cmp", "==", x, ONE))))), ("$?(1==%s)", lambda x: P(ch(("root",), ("filter", ("cmp", "==", ONE, x))))),
            ("$?(%s.b==1)", lambda x: P(ch(("root",), ("filter", ("cmp", "==", add_acc(x, KEYB), ONE))))),
            ("$?(exists(%s))", lambda x: P(ch(("root",), ("filter", ("exists", x))))), ("$?(%s>1&&%s<1)", lambda x: P(ch(("root",), ("filter", ("and", ("cmp", ">", x, ONE), ("cmp", "<", x, ONE)))))),
            ("$?(%s like_regex\"a\")", lambda x: P(ch(("root",), ("filter", ("regex", x, "a", ""))))), ("$?(%s starts with\"a\")", lambda x: P(ch(("root",), ("filter", ("starts", x, ("str", "a"))))))]
    sweep("token:current", [("@", None)], lambda t: CUR, fctx)
    LAST = ch(("last",))
    sctx = [("$[%s]", lambda x: P(ch(("root",), ("index", [(x, None)])))), ("$[%s,1]", lambda x: P(ch(("root",), ("index", [(x, None), (ONE, None)])))),
            ("$[0 to %s]", lambda x: P(ch(("root",), ("index", [(I(0), x)])))), ("$[%s to %s]", lambda x: P(ch(("root",), ("index", [(x, x)])))),
            ("$[%s-1]", lambda x: P(ch(("root",), ("index", [(("bin", "-", x, ONE), None)])))), ("$[%s/**/]", lambda x: P(ch(("root",), ("index", [(x, None)])))),
            ("$[%s\n]", lambda x: P(ch(("root",), ("index", [(x, None)])))), ("$[(%s)]", lambda x: P(ch(("root",), ("index", [(x, None)])))),
            ("$[%s.b]", lambda x: P(ch(("root",), ("index", [(add_acc(x, KEYB), None)])))), ("$[-%s]", lambda x: P(ch(("root",), ("index", [(("un", "-", x), None)]))))]
    sweep("token:last", [("last", None), ("LAST", None), ("Last", None), ("lasT", None)], lambda t: LAST, sctx)

    # integers in .**{ }, .decimal( ), .time( )
    g[0] += 1
    for s, v in ints:
        if v > 2147483647 and False:
            continue
        for tmpl, tree in [("$.**{%s}", ("any", v, None)), ("$.**{ %s }", ("any", v, None)), ("$.**{%s to 2}", ("any", v, 2)), ("$.**{%s/**/to 2}", ("any", v, 2)),
                           ("$.**{1 to %s}", ("any", 1, v)), ("$.**{last to %s}", ("any", "last", v)), ("$.**{%s to last}", ("any", v, "last")),
                           ("$.decimal(%s)", ("decimal", v, None)), ("$.decimal(%s,2)", ("decimal", v, 2)), ("$.decimal(1,%s)", ("decimal", 1, v)),
                           ("$.decimal(-%s, +%s)", ("decimal", -v, v)), ("$.decimal( %s , 2 )", ("decimal", v, 2)),
                           ("$.time(%s)", ("dt", "time", v)), ("$.timestamp_tz( %s )", ("dt", "timestamp_tz", v)), ("$.time_tz(%s/**/)", ("dt", "time_tz", v))]:
            out.append(case(tmpl.replace("%s", s), P(ch(("root",), tree)), "token:int-argument", "probe%d" % g[0]))

    # keywords followed by '(' / white space / other tokens
    g[0] += 1
    A = ch(("root",), ("key", "a"))
    E11 = ("cmp", "==", ONE, ONE)
    kwcases = []
    for m in METHODS:
        for sp in [".%s()", ".%s ()", ".%s( )", ".%s/**/()", ".%s\n(\n)", " . %s ( ) "]:
            for mm in (m, m.upper(), m.capitalize()):
                kwcases.append(("$" + sp % mm, P(ch(("root",), ("meth", m)))))
        kwcases.append(("$.%s" % m, P(ch(("root",), ("key", m)))))
        kwcases.append(("$.%s.b" % m.upper(), P(ch(("root",), ("key", m.upper()), KEYB))))
        kwcases.append(("$.%s[0]" % m, P(ch(("root",), ("key", m), ("index", [(I(0), None)])))))
    for sp in ["exists($)", "exists ($)", "EXISTS($)", "Exists/**/( $ )", "exists\n($)"]:
        kwcases.append((sp, P(("exists", ROOT))))
    for sp in ["(1==1)is unknown", "(1==1) is unknown", "(1==1)IS UNKNOWN", "(1==1)is/**/unknown", "(1==1) Is\nUnknown ", "((1==1))is unknown"]:
        kwcases.append((sp, P(("isunknown", E11))))
    for sp in ['$ starts with"a"', '$ starts with "a"', '$ STARTS WITH"a"', '$ starts/**/with/**/"a"', '$.a starts with$x', '$.a starts with $x ', '$.a Starts With $"x"']:
        rhs = ("str", "a") if '"a"' in sp else ("var", "x")
        kwcases.append((sp, P(("starts", A if ".a" in sp else ROOT, rhs))))
    for sp, fl in [('$ like_regex"a"', ""), ('$ like_regex "a"', ""), ('$ LIKE_REGEX"a"', ""), ('$ like_regex"a"flag"i"', "i"), ('$ like_regex "a" flag "i"', "i"),
                   ('$ like_regex "a" FLAG "si"', "si"), ('$ like_regex/**/"a"/**/flag/**/"q"', "q"), ('$ like_regex "a" flag ""', ""), ('$ like_regex "a" flag "imsq"', "imsq")]:
        kwcases.append((sp, P(("regex", ROOT, "a", fl))))
    for sp in ["$[1 to 2]", "$[1 TO 2]", "$[1 to(2)]", "$[(1)to 2]", "$[1/**/to/**/2]", "$[1\tTo\n2]"]:
        kwcases.append((sp, P(ch(("root",), ("index", [(ONE, I(2))])))))
    for sp, lax in [("strict $", False), ("strict$", False), ("STRICT $", False), ("strict/**/$", False), ("strict($)", False), ("Strict\n$", False),
                    ("lax $", True), ("lax$", True), ("LAX $", True), ("lax($)", True), ("$", True), (" $ ", True)]:
        kwcases.append((sp, P(ROOT, "lax" if lax else "strict")))
    for sp, md in [("strict 1==1", "strict"), ("lax 1==1", "lax"), ("strict(1==1)", "strict"), ("1==1", "")]:
        kwcases.append((sp, P(E11, md)))
    for sp in ["$.a.date()", "$.a.DATE ( )", "$.a.date(\n)"]:
        kwcases.append((sp, P(add_acc(A, ("dt", "date", None)))))
    for sp in ['$.a.datetime()', '$.a.datetime("HH24")', '$.a.DATETIME ( "HH24" )', '$.a.datetime(/**/"HH24"/**/)']:
        kwcases.append((sp, P(add_acc(A, ("dt", "datetime", "HH24" if "HH24" in sp else None)))))
    # != and <>, && ||, ! spellings
    for sp in ["1!=1", "1<>1", "1 != 1", "1 <> 1", "1!=(1)", "(1)<>1"]:
        kwcases.append((sp, P(("cmp", "!=", ONE, ONE))))
    for sp in ["!(1==1)", "! (1==1)", "!/**/(1==1)", "!((1==1))"]:
        kwcases.append((sp, P(("not", E11))))
    for sp, op in [("1==1&&1==1", "and"), ("1==1 && 1==1", "and"), ("(1==1)&&(1==1)", "and"), ("1==1||1==1", "or"), ("1==1/**/||/**/1==1", "or")]:
        kwcases.append((sp, P((op, E11, E11))))
    for text, tree in kwcases:
        out.append(case(text, tree, "token:keyword", "probe%d" % g[0]))

    # precedence and associativity: every operator pair, no parentheses
    g[0] += 1
    ops = list(ARITH)
    for o1 in ops:
        for o2 in ops:
            p1, p2 = BIN_PRIO[o1], BIN_PRIO[o2]
            a, b, c = I(1), I(2), I(3)
            tree = ("bin", o2, ("bin", o1, a, b), c) if p1 >= p2 else ("bin", o1, a, ("bin", o2, b, c))
            for sp in ["1%s2%s3", "1 %s 2 %s 3", "$?(1%s2%s3>0)"]:
                t = P(tree) if not sp.startswith("$?") else P(ch(("root",), ("filter", ("cmp", ">", tree, I(0)))))
                out.append(case(sp % (o1, o2), t, "precedence", "probe%d" % g[0]))
            # unary minus binds tighter than every binary operator
            out.append(case("-$.a%s2" % o1, P(("bin", o1, ("un", "-", A), I(2))), "precedence", "probe%d" % g[0]))
            for cmpop in CMPS:
                out.append(case("1%s2%s3%s4" % (o1, cmpop, o2), P(("cmp", cmpop, ("bin", o1, I(1), I(2)), ("bin", o2, I(3), I(4)))), "precedence", "probe%d" % g[0]))
    E = lambda n: ("cmp", "==", I(n), I(n))
    for sp, tree in [("1==1&&2==2||3==3", ("or", ("and", E(1), E(2)), E(3))), ("1==1||2==2&&3==3", ("or", E(1), ("and", E(2), E(3)))),
                     ("1==1&&2==2&&3==3", ("and", ("and", E(1), E(2)), E(3))), ("1==1||2==2||3==3", ("or", ("or", E(1), E(2)), E(3))),
                     ("1==1&&(2==2||3==3)", ("and", E(1), ("or", E(2), E(3)))), ("!(1==1)&&2==2", ("and", ("not", E(1)), E(2))),
                     ("!(1==1)||2==2", ("or", ("not", E(1)), E(2))), ("exists($)&&!exists($)", ("and", ("exists", ROOT), ("not", ("exists", ROOT)))),
                     ("(1==1)is unknown&&2==2", ("and", ("isunknown", E(1)), E(2))), ("1==1&&(2==2)is unknown", ("and", E(1), ("isunknown", E(2)))),
                     ("1+2 starts with\"a\"", ("starts", ("bin", "+", I(1), I(2)), ("str", "a"))), ("1*2 like_regex\"a\"", ("regex", ("bin", "*", I(1), I(2)), "a", "")),
                     ("-1 like_regex\"a\"&&1==1", ("and", ("regex", ("un", "-", I(1)), "a", ""), E(1)))]:
        out.append(case(sp, P(tree), "precedence", "probe%d" % g[0]))
    return out


def c03_keyword_unicode():
    """U+212A KELVIN SIGN / U+0130 / U+017F in keywords: not a documented spelling -> must not act as the keyword"""
    out = []
    for k in KEYWORDS:
        for a, b in (("k", "\u212a"), ("i", "\u0130"), ("s", "\u017f"), ("K", "\u212a")):
            for base in (k, k.upper()):
                if a not in base:
                    continue
                v = base.replace(a, b, 1)
                # as a key name the identifier keeps its own text whatever the lexer thinks of it
                out.append(case("$." + v, P(ch(("root",), ("key", v))), "keyword-unicode", None, "kwu"))
                if k in METHODS:
                    out.append(case("$.%s()" % v, None, "keyword-unicode", None, "kwu"))
                if k in ("strict", "lax"):
                    out.append(case(v + " $", None, "keyword-unicode", None, "kwu"))
                if k == "exists":
                    out.append(case(v + "($)", None, "keyword-unicode", None, "kwu"))
                if k == "like_regex":
                    out.append(case('$ %s "a"' % v, None, "keyword-unicode", None, "kwu"))
                if k in ("is", "unknown"):
                    out.append(case("(1==1) " + "is unknown".replace(k, v) if base == k else "(1==1) " + "IS UNKNOWN".replace(base, v), None, "keyword-unicode", None, "kwu"))
                if k in ("starts", "with"):
                    out.append(case('$ ' + ("starts with".replace(k, v) if base == k else "STARTS WITH".replace(base, v)) + ' "a"', None, "keyword-unicode", None, "kwu"))
                if k == "last":
                    out.append(case("$[%s]" % v, None, "keyword-unicode", None, "kwu"))
                if k == "to":
                    out.append(case("$[1 %s 2]" % v, None, "keyword-unicode", None, "kwu"))
                if k in DTOPS or k == "decimal":
                    out.append(case("$.%s()" % v, None, "keyword-unicode", None, "kwu"))
                if k == "flag":
                    out.append(case('$ like_regex "a" %s "i"' % v, None, "keyword-unicode", None, "kwu"))
    return out


def c03_cases(n_trees, n_alt=3):
    """random (tree, spelling) pairs + the systematic probes"""
    out = []
    for i in range(n_trees):
        p = rand_path(rnd.choice([1, 2, 2, 3, 3, 4]))
        out.append(case(render(p, False), p, "tree:canonical", "t%d" % i))
        for _ in range(n_alt):
            out.append(case(render(p, True), p, "tree:alternative", "t%d" % i))
    out += c03_token_probes()
    out += c03_keyword_unicode()
    return out


# ---------------------------------------------------------------------------
# C02: inputs whose printed form is re-parsed
# ---------------------------------------------------------------------------

C02_CHARS = ([chr(c) for c in range(1, 0x20)] + ["\x7f"] + [chr(c) for c in range(0x80, 0xa0)] +
             list("\"\\/' a\u00a0\u00ad\u0378\u0600\u061c\u200b\u200e\u2028\u2029\u202e\u2060\ufeff\ufff9\ufffd\ufffe\uffff\ue000\ud7ff"
                  "\U0001f600\U0001d49c\U00010000\U000e0001\U000e01ef\U0010ffff\U0001fffe\U000f0000\U0002fa1d\U00030000\U000e0100"))


def lit_string(text):
    """a spelling of text inside double quotes that is always accepted: printable ASCII raw, the rest as \\u{...}"""
    return '"' + "".join(c if 0x20 <= ord(c) < 0x7f and c not in '"\\' else "\\u{%x}" % ord(c) for c in text) + '"'


def c02_strings():
    out = []
    for c in C02_CHARS:
        for text in (c, "a" + c + "b", c + c):
            q = lit_string(text)
            out += ["%s" % q, "$.%s" % q, "$%s" % q, "$.a.%s.b" % q, '$ ? (@ like_regex %s flag "q")' % q, "$ ? (@ like_regex %s)" % q,
                    "$.datetime(%s)" % q, "$ ? (@ starts with %s)" % q, "$ ? (@ == %s)" % q, "%s.a" % q, "$[%s]" % q]
    return out


def c02_numbers(n_random):
    lits = []
    for v in [0, 1, 9, 10, 2 ** 31 - 1, 2 ** 31, 2 ** 32, 2 ** 53, 2 ** 53 + 1, 2 ** 63 - 1]:
        lits += [str(v), "0x%x" % v, "0o%o" % v, "0b" + bin(v)[2:]]
    mants = ["1", "4", "5", "10", "100", "15", "25", "125", "1234567", "9007199254740993", "17976931348623157", "22250738585072014", "49", "12345678901234567890", "0"]
    exps = list(range(-30, 31)) + [-400, -330, -325, -324, -323, -308, -307, 100, 292, 300, 307, 308]
    for m in mants:
        for e in exps:
            if num_value(m, e) == float("inf"):
                continue
            lits.append(num_token(m, e, False))
    lits += ["0.0", "1.0", "4.0", "4.", "-0.0", "1e0", "1e2", "1e20", "1e21", "1e22", "1e23", ".5", "5.", "0.1", "0.30000000000000004", "1e-7", "0.000001", "0.0000001",
             "123456789012345678901.5", "9007199254740992.0", "9007199254740993.0", "1.7976931348623157e308", "5e-324", "2.2250738585072014e-308", "1e-400",
             "100000000000000000000.0", "999999999999999999999.0", "1e21", "0.1e1", "1.5e300", "4e0", "40e-1", "0.4e1"]
    for _ in range(n_random):
        n = rand_num()
        lits.append(num_token(n[1], n[2], rnd.random() < 0.5))
    out = []
    for l in lits:
        out += [l, "$.a == " + l, l + " + 1", "-" + l, "- " + l + " * 2", "(" + l + ").abs()", "$[" + l + "]", "$ ? (@ > " + l + ")", "-(" + l + ")", "1 - -" + l]
    return out


def c02_any():
    L = ["0", "1", "2", "5", "4294967294", "4294967295", "4294967296", "99999999999999999999", "last", "0x10", "1_0"]
    forms = [".**"] + [".**{%s}" % a for a in L] + [".**{%s to %s}" % (a, b) for a in L for b in L]
    return [pre + f + suf for f in forms for pre in ("$", "$.a") for suf in ("", ".b", "[*]", ".**", " ? (@ == 1)", ".**{1}")]


def c02_regex_flags():
    fl = [""]
    for n in range(1, 5):
        fl += ["".join(t) for t in __import__("itertools").product("ismxq", repeat=n)]
    out = []
    for f in fl:
        out += ['$ ? (@ like_regex "a" flag "%s")' % f, '$ like_regex "a.b" flag "%s"' % f]
    out += ['$ ? (@ like_regex %s)' % lit_string(p) for p in REGEX_OK] + ['$ ? (@ like_regex %s flag "%s")' % (lit_string(p), f) for p in REGEX_OK for f in ("i", "s", "m", "q", "ism", "iq")]
    return out


def c02_operator_triples():
    """every (parent slot, child operator, trailing accessor chain) combination the grammar allows"""
    A, B = ch(("root",), ("key", "a")), ch(("int", 2))
    E1, E2 = ("cmp", "==", A, ONE), ("cmp", ">", B, ONE)
    echild = [("bin", o, A, B) for o in ARITH] + [("un", "-", A), ("un", "+", A), ("un", "-", ("bin", "*", A, B))]
    pchild = [("cmp", o, A, B) for o in CMPS] + [("and", E1, E2), ("or", E1, E2), ("not", E1), ("exists", A), ("isunknown", E1),
                                                 ("starts", A, ("str", "x")), ("regex", A, "^a", "i"), ("regex", A, "b", "")]
    atoms = [A, B, ch(("num", "25", -1)), ch(("str", "s")), ch(("var", "v")), ch(("null",)), ch(("num", "4", 0))]
    tails = [[KEYB], [("meth", "abs")], [("anyarray",)], [("index", [(I(0), None)])], [("filter", ("cmp", ">", CUR, ONE))], [("any", 1, 2)], [KEYB, ("meth", "size")],
             [("decimal", 5, 2)], [("dt", "datetime", None)], [("anykey",)]]
    tailed = [ch(("paren", c), *t) for c in echild + pchild for t in tails] + [ch(a[1], *(a[2] + t)) for a in atoms for t in tails[:3]]
    exprs = echild + atoms + tailed
    preds = pchild
    trees = []
    for x in exprs:
        for o in ARITH:
            trees += [("bin", o, x, B), ("bin", o, B, x)]
        for o in CMPS:
            trees += [("cmp", o, x, B), ("cmp", o, B, x)]
        trees += [("un", "-", x), ("un", "+", x), ("starts", x, ("str", "s")), ("regex", x, "a", ""), ("exists", x),
                  ch(("root",), ("index", [(x, None)])), ch(("root",), ("index", [(I(0), x)])), ch(("root",), ("index", [(x, I(3)), (x, None)])), x,
                  ch(("root",), ("filter", ("cmp", "==", x, ONE)))]
    for x in preds:
        trees += [("and", x, E2), ("and", E2, x), ("or", x, E2), ("or", E2, x), ("not", x), ("isunknown", x), ch(("root",), ("filter", x)), x,
                  ("and", ("or", x, E2), E2), ("or", E2, ("and", x, E2))]
    out = []
    for t in trees:
        out.append(render(P(t, rnd.choice(["", "", "strict"])), False))
    return out


def c02_cases(n_random, n_numbers):
    """texts (bytes) whose parse, if accepted, is put through the round trips"""
    out = []
    tags = []

    def add(tag, items):
        for s in items:
            out.append(enc(s))
            tags.append(tag)
    add("operator-triples", c02_operator_triples())
    add("strings", c02_strings())
    add("numbers", c02_numbers(n_numbers))
    add("any-bounds", c02_any())
    add("regex-flags", c02_regex_flags())
    trees = []
    for _ in range(n_random):
        p = rand_path(rnd.choice([1, 2, 2, 3, 3, 4]))
        trees.append(render(p, rnd.random() < 0.5))
    add("random-trees", trees)
    add("random-family-a", gen.collect(gen.family_a, n_random // 3))
    add("corpus", ["(1 * 2).abs() + 3", "4.0", "1e20", "(-$.a).b + 1", '"\\u0007"', '$."\\u{1f600}\\u{e0001}"', "$.**{2 to last}", "$.**{last}", "-(-1)", "- -1.5", "(!(1==1)).a",
                   "(exists($)).a == 1", "((1==1) is unknown).a", "($ like_regex \"a\").b", "$[(1+2).abs()]", "-(1).abs()", "- 1 .abs()", "(-1).abs()", "-$.a.b", "(-$.a).b",
                   "1 - (2 - 3)", "1 - 2 - 3", "(1 - 2) - 3", "1 / (2 * 3)", "-(1 + 2)", "(-1) * 2", "- (1 * 2)", "1 == 1 && (2 == 2 || 3 == 3)", "!(1 == 1 && 2 == 2)",
                   "strict $.a", "lax $.a", "$.a ? (@.b == 1).c", "$ ? (!(@ == 1))", "$ ? ((@ == 1) is unknown)"])
    return out, tags


# ---------------------------------------------------------------------------
# C04: byte streams
# ---------------------------------------------------------------------------

# curated forbidden inputs, by rule of the property text
FORBIDDEN = {
    "current-outside-filter": ["@", "@.a", "$ + @", "$[@]", "exists(@)", "@ == 1", "$.a ? (@ == 1) == @", "strict @", "(@)", "-@", "$ ? (@ == 1).b[@]"],
    "last-outside-subscript": ["last", "$ ? (@ == last)", "$.a + last", "$ ? (last == 1)", "$[1] + last", "last.a", "(last)", "exists(last)", "$.**{1}.a == last", "-last"],
    "malformed-number": ["1a", "0x", "0X", "0o", "0b", "1__0", "1_", "_1 + 1", "0x_1", "0o8", "0b2", "09", "00", "01", "1e", "1e+", "1e_5", "1_e5", "0x1p3", "0b1e1", "0o7e1", "1.5a", "1._5",
                         "1_.5", "1.5_", "0_1", "1e5a", "1é", ".e1", "1..", "1ee1", "1e1e1", "0xg", "$[1a]", "$.a == 1a", "$.**{1a}", "$.decimal(1a)", "1.e", "0b", "0b_1", "1_000_"],
    "number-out-of-range": ["9223372036854775808", "-9223372036854775809", "0x8000000000000000", "18446744073709551616", "1e400", "-1e400", "1e309", "1.7976931348623159e308",
                            "$[9223372036854775808]", "$.decimal(9223372036854775808)", "$.decimal(1,99999999999999999999)", "$.time(99999999999999999999)",
                            "$.a == 1e999", "- 9223372036854775808", "-(9223372036854775808)", "0b" + "1" * 64, "0o2000000000000000000000"],
    "malformed-escape": ['"\\u{110000}"', '"\\uD800"', '"\\ud800x"', '"\\udc00"', '"\\udc00\\ud800"', '"\\ud800\\ud800"', '"\\ud83d\\x41"', '"\\u{d800}"', '"\\x"', '"\\x4"', '"\\x4g"', '"\\xg4"',
                         '"\\x00"', '"\\u"', '"\\u0"', '"\\u00"', '"\\u004"', '"\\u004g"', '"\\u0000"', '"\\u{"', '"\\u{}"', '"\\u{0}"', '"\\u{g}"', '"\\u{41"', '"\\u{0000041}"',
                         '"\\u{ffffff}"', '"\\', '$.\\', '$.a\\x', '$.a\\u12', '$.\\u{110000}', '$.a\\ud800', '$"\\ud800"', '$.\\x00', '$.a\\u0000'],
    "malformed-string": ['"abc', '"', '"a\nb"', '$."a', '$"a', '"a\\"', '$.a"', "'a'", '"a" "b"', '$."a"b"'],
    "malformed-comment": ["/* x", "/*", "$ /*", "$ /* *", "$ /* * /", "/*/", "$ /* a */ /* b", "$.a /*", "1 + /* 2"],
    "nul": ["\x00", "$\x00", "$.\x00", "$.a\x00", '"\x00"', "$ \x00", "/*\x00*/$", "$.a\x00b", "1\x00", "$ ? (@ == \"a\x00\")"],
    "invalid-utf8": [b"\x80", b"$\x80", b"$.\xff", b"$.a\xc3", b'"\xc0\x80"', b'"\xed\xa0\x80"', b'"\xf4\x90\x80\x80"', b"/*\xff*/$", b"$.\xe2\x82", b"$ ? (@ == \"\xf8\x88\x80\x80\x80\")",
                     b"\xef\xbf\xbe\xff", b'$."\xc3"', b"$\xc3\xa9\xc3", b"1\x80", b"$.a \xfe"],
    "regex-flag-unknown": ['$ ? (@ like_regex "a" flag "z")', '$ ? (@ like_regex "a" flag "I")', '$ ? (@ like_regex "a" flag "iz")', '$ ? (@ like_regex "a" flag " ")',
                           '$ ? (@ like_regex "a" flag "é")', '$ like_regex "a" flag "S"', '$ like_regex "a" flag "i,s"', '$ like_regex "a" flag "\\u0069x"'],
    "regex-flag-unsupported": ['$ ? (@ like_regex "a" flag "x")', '$ ? (@ like_regex "a" flag "ix")', '$ ? (@ like_regex "a" flag "xs")', '$ like_regex "a" flag "smx"',
                               '$ ? (@ like_regex "(" flag "x")'],
    "regex-pattern": ['$ ? (@ like_regex "(")', '$ ? (@ like_regex ")")', '$ ? (@ like_regex "[a")', '$ ? (@ like_regex "a**")', '$ ? (@ like_regex "*a")', '$ ? (@ like_regex "a{2,1}")',
                      '$ ? (@ like_regex "(?z)")', '$ ? (@ like_regex "+")', '$ ? (@ like_regex "x{1001}")', '$ ? (@ like_regex "\\\\")', '$ ? (@ like_regex "(?P<n>")',
                      '$ ? (@ like_regex "\\\\8")', '$ ? (@ like_regex "[z-a]")', '$ ? (@ like_regex "(" flag "i")', '$ ? (@ like_regex "a{1000}{1000}")', '$ like_regex "(?i"',
                      '$ like_regex "\\\\Q"' if False else '$ like_regex "(?<n"', '$ like_regex "[[:foo:]]"', '$ like_regex "\\\\pX"'],
    "syntax": ["", " ", "$ $", "$.", "$..a", "$[", "$[]", "$[1,]", "$.a.", "1 +", "1 == 1 == 1", "!$", "$ ? ($)", "$ ? (1)", "exists()", "$.a()", "$.abs(1)", "$.decimal(1,2,3)",
               "$.decimal(1.5)", "$.date(1)", "$.time(\"a\")", "$.datetime(1)", "$.**{-1}", "$.**{1,2}", "$.**{}", "strict", "lax", "strict lax $", "$ strict", "a", "$a.b c",
               "1 && 2", "$ ? (@ starts with 1)", "$ like_regex a", "$ like_regex \"a\" flag", "(1 == 1) is known", "1 is unknown", "$[*,1]", "$[1 to]", "$.a ? @ == 1",
               "#", "$#", "1 = 1", "1 === 1", "1 & 1", "1 | 1", "~$", "$.a{1}", ";", "$ /", "TRUE", "True == 1", "NULL", "$.\"a\"()"],
}

REGEX_FRAGS = ["a", "b", ".", "*", "+", "?", "|", "(", ")", "[", "]", "{", "}", "^", "$", "\\\\", "\\\\d", "\\\\pL", "\\\\p{Greek}", "\\\\P{^L}", "(?i)", "(?s:", "(?P<n>", "(?<n>", "(?:", "[^a]", "[a-z]",
               "[[:alpha:]]", "{2}", "{2,}", "{2,3}", "{1000}", "{1001}", "\\\\b", "\\\\B", "\\\\A", "\\\\z", "\\\\Z", "\\\\C", "\\\\Q", "\\\\E", "\\\\1", "\\\\x41", "\\\\x{1F600}", "\\\\0", "\\\\07",
               "é", "😀", "\\u{e0001}", "\\n", " ", "-", "&&", "~", "(?U)", "(?-s)", "(?m)", "(?x)", "#", "\\\\", "\\\\/", "\\\\\\\\"]


def c04_cases(n_bytes, n_soup, n_mut, n_regex):
    """(inputs, tags, expect) : expect[i] = rule name if the input must be rejected, else None"""
    out, tags, expect = [], [], []

    def add(tag, items, rule=None):
        for s in items:
            out.append(enc(s))
            tags.append(tag)
            expect.append(rule)
    for rule, items in FORBIDDEN.items():
        add("forbidden", items, rule)
        add("forbidden", [enc(" ") + enc(s) + enc(" ") for s in items if rule not in ("syntax",) and not enc(s).endswith(b"\\")], rule)
    # Unicode look-alikes of keywords (known finding C03-unicode-keyword-lowercase)
    add("forbidden", [c["text"] for c in c03_keyword_unicode() if c["exp"] is None], "keyword-unicode")
    # arbitrary bytes
    rb = []
    for _ in range(n_bytes):
        n = rnd.choice([0, 1, 1, 2, 3, 4, 6, 8, 12, 16, 24, 40])
        r = rnd.random()
        if r < 0.4:
            rb.append(bytes(rnd.randrange(256) for _ in range(n)))
        elif r < 0.7:
            rb.append(bytes(rnd.choice(b"$@.*[](){}?!<>=&|+-/%,\"\\ _019aexobtulsn\n\t\x00\x80\xc3\xa9\xff\xe2\x80\xa8") for _ in range(n)))
        else:
            rb.append(bytes(rnd.randrange(0x20, 0x7f) for _ in range(n)))
    add("random-bytes", rb)
    # token soup
    TOK = ["$", "@", ".", "*", "**", "[", "]", "(", ")", "{", "}", "?", "!", "==", "!=", "<>", "<", "<=", ">", ">=", "&&", "||", "+", "-", "/", "%", ",", " ", " ", "\n", "/**/", "/*", "*/",
           "1", "0", "1.5", ".5", "5.", "1e5", "1e400", "0x1F", "0b1", "0o7", "1_0", "9223372036854775807", "9223372036854775808", "99999999999999999999", "\"a\"", "\"", "\"\\u0041\"", "\"\\ud800\"", "a", "_a",
           "$a", "$\"a\"", "\\x41", "\\u{41}", "\\", "é", "😀", "\u212a", "\x00", "\xff".encode("latin-1")] + KEYWORDS + [k.upper() for k in KEYWORDS[:8]]
    soup = []
    for _ in range(n_soup):
        n = rnd.choice([1, 2, 3, 3, 4, 5, 6, 8, 10, 14])
        soup.append(b"".join(enc(rnd.choice(TOK)) for _ in range(n)))
    add("token-soup", soup)
    # mutations of valid paths and near-miss sweeps of the tie generator
    add("mutation", gen.collect(gen.family_d_mut, n_mut))
    add("near-miss", gen.collect(gen.family_c_escapes) + gen.collect(gen.family_c_rest) + gen.collect(gen.family_d_near) + gen.collect(gen.family_d_bad))
    # numeric boundaries in every numeric position (constructors that panic by contract)
    B = ["9223372036854775806", "9223372036854775807", "9223372036854775808", "9223372036854775809", "18446744073709551615", "18446744073709551616", "99999999999999999999999999",
         "0x7fffffffffffffff", "0x8000000000000000", "0xffffffffffffffff", "0x10000000000000000", "0o777777777777777777777", "0o1000000000000000000000", "0b" + "1" * 63, "0b" + "1" * 64,
         "2147483647", "2147483648", "4294967295", "4294967296", "1e308", "1e309", "1.7976931348623157e308", "1.7976931348623158e308", "1.797693134862315809e308", "2e308", "1e400", "1e99999",
         "1e-400", "1e-99999", "0e99999", "0.0e400", "1_0e4_0_0", "9_223372036854775808", "1e1000000000000000000000"]
    bnd = []
    for b in B:
        for t in ["%s", "-%s", "- -%s", "-(%s)", "+%s", "-(-(%s))", "$[%s]", "$[-%s]", "$[%s to %s]", "$.**{%s}", "$.**{%s to %s}", "$.decimal(%s)", "$.decimal(-%s)", "$.decimal(1,%s)",
                  "$.decimal(+%s,-%s)", "$.time(%s)", "$.time_tz(%s)", "$.timestamp(%s)", "$.timestamp_tz(%s)", "$.a == %s", "%s + %s", "%s * -%s", "(%s).abs()", "$ ? (@ > %s)", "-%s.a" if False else "-(%s).a",
                  "- %s .abs()", "$.datetime(%s)"]:
            bnd.append(t.replace("%s", b))
    add("numeric-boundary", bnd)
    # like_regex: random patterns and flags; every accepted one must compile at execution time
    rx = []
    for _ in range(n_regex):
        pat = "".join(rnd.choice(REGEX_FRAGS) for _ in range(rnd.choice([1, 1, 2, 2, 3, 4, 5, 7])))
        fl = "".join(rnd.choice("ismqx" if rnd.random() < 0.2 else "ismq") for _ in range(rnd.choice([0, 0, 1, 1, 2, 3])))
        if rnd.random() < 0.5:
            rx.append('$ ? (@ like_regex "%s"%s)' % (pat, ' flag "%s"' % fl if fl or rnd.random() < 0.1 else ""))
        else:
            rx.append('%s like_regex "%s"%s' % (rnd.choice(["$", "$.a", '"abc"', "$[*]"]), pat, ' flag "%s"' % fl if fl else ""))
    add("regex", rx)
    add("regex", c02_regex_flags())
    return out, tags, expect
