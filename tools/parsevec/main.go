// parsevec: differential-test driver (Go side).
//
// Reads hex-encoded path strings, one per line, from stdin and prints one
// line per input:
//
//	OK <sexp> <hex(String())>
//	ERR <class> <hex(message)>
//
// Modes: (none) / -api  tie leg (compared with the extracted Coq model);
// -regex  oracle for the model's regex_ok; -c02 / -c03 / -c04  search legs of
// the checks C02, C03, C04 (search.go): the property evaluated on the
// implementation's own outputs.
//
// where <sexp> is a canonical dump of the tree obtained only through the
// exported accessors (plus reflection for the two unexported RegexNode fields)
// and <class> is a coarse error class derived from the message text.
package main

import (
	"bufio"
	"encoding/hex"
	"fmt"
	"math"
	"os"
	"reflect"
	"strings"
	"time"
	"unsafe"

	"github.com/theory/sqljson/path"
	"github.com/theory/sqljson/path/ast"
	"github.com/theory/sqljson/path/parser"
)

var constNames = map[ast.Constant]string{
	ast.ConstRoot: "root", ast.ConstCurrent: "current", ast.ConstLast: "last",
	ast.ConstAnyArray: "anyarray", ast.ConstAnyKey: "anykey",
	ast.ConstTrue: "true", ast.ConstFalse: "false", ast.ConstNull: "null",
}

var binNames = map[ast.BinaryOperator]string{
	ast.BinaryAnd: "and", ast.BinaryOr: "or", ast.BinaryEqual: "eq", ast.BinaryNotEqual: "ne",
	ast.BinaryLess: "lt", ast.BinaryGreater: "gt", ast.BinaryLessOrEqual: "le",
	ast.BinaryGreaterOrEqual: "ge", ast.BinaryStartsWith: "startswith",
	ast.BinaryAdd: "add", ast.BinarySub: "sub", ast.BinaryMul: "mul", ast.BinaryDiv: "div",
	ast.BinaryMod: "mod",
}

var unNames = map[ast.UnaryOperator]string{
	ast.UnaryExists: "exists", ast.UnaryNot: "not", ast.UnaryIsUnknown: "isunknown",
	ast.UnaryPlus: "plus", ast.UnaryMinus: "minus", ast.UnaryFilter: "filter",
}

var dtNames = map[ast.UnaryOperator]string{
	ast.UnaryDateTime: "datetime", ast.UnaryDate: "date", ast.UnaryTime: "time",
	ast.UnaryTimeTZ: "time_tz", ast.UnaryTimestamp: "timestamp", ast.UnaryTimestampTZ: "timestamp_tz",
}

var methNames = map[ast.MethodName]string{
	ast.MethodAbs: "abs", ast.MethodSize: "size", ast.MethodType: "type", ast.MethodFloor: "floor",
	ast.MethodCeiling: "ceiling", ast.MethodDouble: "double", ast.MethodKeyValue: "keyvalue",
	ast.MethodBigInt: "bigint", ast.MethodBoolean: "boolean", ast.MethodInteger: "integer",
	ast.MethodNumber: "number", ast.MethodString: "string",
}

func hx(s string) string {
	if s == "" {
		return "e" // empty marker so fields never vanish
	}
	return "x" + hex.EncodeToString([]byte(s))
}

func isNil(n ast.Node) bool {
	if n == nil {
		return true
	}
	v := reflect.ValueOf(n)
	return v.Kind() == reflect.Ptr && v.IsNil()
}

func chain(b *strings.Builder, n ast.Node) {
	b.WriteByte('[')
	first := true
	for !isNil(n) {
		if !first {
			b.WriteByte(' ')
		}
		first = false
		step(b, n)
		n = n.Next()
	}
	b.WriteByte(']')
}

func optInt(b *strings.Builder, n ast.Node) {
	if isNil(n) {
		b.WriteByte('-')
		return
	}
	if i, ok := n.(*ast.IntegerNode); ok && isNil(i.Next()) {
		fmt.Fprintf(b, "%d", i.Int())
		return
	}
	b.WriteString("?")
	chain(b, n)
}

func regexFields(n *ast.RegexNode) (string, uint16) {
	v := reflect.ValueOf(n).Elem()
	pf := v.FieldByName("pattern")
	ff := v.FieldByName("flags")
	pat := *(*string)(unsafe.Pointer(pf.UnsafeAddr()))
	fl := *(*uint16)(unsafe.Pointer(ff.UnsafeAddr()))
	return pat, fl
}

func step(b *strings.Builder, n ast.Node) {
	switch n := n.(type) {
	case *ast.ConstNode:
		fmt.Fprintf(b, "(const %s)", constNames[n.Const()])
	case *ast.StringNode:
		fmt.Fprintf(b, "(str %s)", hx(n.Text()))
	case *ast.VariableNode:
		fmt.Fprintf(b, "(var %s)", hx(n.Text()))
	case *ast.KeyNode:
		fmt.Fprintf(b, "(key %s)", hx(n.Text()))
	case *ast.IntegerNode:
		fmt.Fprintf(b, "(int %d)", n.Int())
	case *ast.NumericNode:
		fmt.Fprintf(b, "(num %016x)", math.Float64bits(n.Float()))
	case *ast.MethodNode:
		fmt.Fprintf(b, "(meth %s)", methNames[n.Name()])
	case *ast.AnyNode:
		fmt.Fprintf(b, "(any %d %d)", n.First(), n.Last())
	case *ast.BinaryNode:
		switch n.Operator() {
		case ast.BinaryDecimal:
			b.WriteString("(decimal ")
			optInt(b, n.Left())
			b.WriteByte(' ')
			optInt(b, n.Right())
			b.WriteByte(')')
		case ast.BinarySubscript:
			b.WriteString("(BADSUBSCRIPT)")
		default:
			fmt.Fprintf(b, "(bin %s ", binNames[n.Operator()])
			chain(b, n.Left())
			b.WriteByte(' ')
			chain(b, n.Right())
			b.WriteByte(')')
		}
	case *ast.UnaryNode:
		if name, ok := dtNames[n.Operator()]; ok {
			fmt.Fprintf(b, "(dt %s ", name)
			op := n.Operand()
			switch o := op.(type) {
			case *ast.StringNode:
				if isNil(o) {
					b.WriteString("- -")
				} else {
					b.WriteString(hx(o.Text()) + " -")
				}
			case *ast.IntegerNode:
				if isNil(o) {
					b.WriteString("- -")
				} else {
					fmt.Fprintf(b, "- %d", o.Int())
				}
			default:
				if isNil(op) {
					b.WriteString("- -")
				} else {
					b.WriteString("? ?")
				}
			}
			b.WriteByte(')')
			return
		}
		fmt.Fprintf(b, "(un %s ", unNames[n.Operator()])
		chain(b, n.Operand())
		b.WriteByte(')')
	case *ast.RegexNode:
		pat, fl := regexFields(n)
		b.WriteString("(regex ")
		chain(b, n.Operand())
		fmt.Fprintf(b, " %s %d)", hx(pat), fl)
	case *ast.ArrayIndexNode:
		b.WriteString("(index")
		for _, s := range n.Subscripts() {
			bn, ok := s.(*ast.BinaryNode)
			if !ok || bn.Operator() != ast.BinarySubscript {
				b.WriteString(" (BAD)")
				continue
			}
			b.WriteString(" (")
			chain(b, bn.Left())
			b.WriteByte(' ')
			if isNil(bn.Right()) {
				b.WriteByte('-')
			} else {
				chain(b, bn.Right())
			}
			b.WriteByte(')')
		}
		b.WriteByte(')')
	default:
		fmt.Fprintf(b, "(UNKNOWN %T)", n)
	}
}

// classify maps a parser error message to the model's error kind names.
func classify(msg string) string {
	m := strings.TrimPrefix(msg, "parser: ")
	has := func(s string) bool { return strings.Contains(m, s) }
	switch {
	case has("syntax error"):
		return "syntax"
	case has("invalid UTF-8 encoding"):
		return "utf8"
	case has("invalid character NULL"):
		return "nul"
	case has("invalid character"):
		return "invalid_char"
	case has("underscore disallowed at start"):
		return "num_underscore_start"
	case has("trailing junk after numeric literal"):
		return "num_junk"
	case has("exponent requires decimal mantissa"):
		return "num_exp_mantissa"
	case has("exponent has no digits"):
		return "num_exp_digits"
	case has("invalid digit"):
		return "num_invalid_digit"
	case has("'_' must separate successive digits"):
		return "num_sep"
	case has("unexpected end of comment"):
		return "comment"
	case has("literal not terminated"):
		return "unterminated"
	case has("unexpected end after backslash"):
		return "backslash_end"
	case has("Unicode low surrogate must follow a high surrogate"):
		return "surrogate"
	case has("invalid hexadecimal character sequence"):
		return "hex"
	case has("invalid Unicode escape sequence"):
		return "unicode"
	case has(`\u0000 cannot be converted to text`):
		return "u0000"
	case has(".decimal() can only have an optional precision"):
		return "decimal_args"
	case has("Unrecognized flag character"):
		return "regex_flag"
	case has(`XQuery "x" flag`):
		return "regex_x"
	case has("error parsing regexp"):
		return "regex_pattern"
	case has("@ is not allowed in root expressions"):
		return "current_root"
	case has("LAST is allowed only in array subscripts"):
		return "last_subscript"
	case has("strconv.ParseInt"):
		return "int_parse"
	case has("strconv.ParseFloat"):
		return "float_parse"
	}
	return "other"
}

// dumpAST is the canonical dump of a parsed path: mode, predicate flag and the
// tree as seen through the exported accessors.
func dumpAST(tree *ast.AST) string {
	var b strings.Builder
	if tree.IsLax() {
		b.WriteString("(path lax ")
	} else {
		b.WriteString("(path strict ")
	}
	if tree.IsPredicate() {
		b.WriteString("pred ")
	} else {
		b.WriteString("nopred ")
	}
	chain(&b, tree.Root())
	b.WriteByte(')')
	return b.String()
}

type result struct {
	ok   bool
	line string
}

func run(src string) (res result) {
	defer func() {
		if r := recover(); r != nil {
			res = result{false, fmt.Sprintf("PANIC %s", hx(fmt.Sprint(r)))}
		}
	}()
	tree, err := parser.Parse(src)
	if (tree == nil) == (err == nil) {
		return result{false, "BOTH_OR_NEITHER"}
	}
	if err != nil {
		return result{false, fmt.Sprintf("ERR %s %s", classify(err.Error()), hx(err.Error()))}
	}
	return result{true, fmt.Sprintf("OK %s %s", dumpAST(tree), hx(tree.String()))}
}

// api exercises the path.go wrappers on the same input and reports a compact
// summary: P(arse) M(ustParse) S(can string) B(scan []byte) U(nmarshalBinary)
// T(UnmarshalText), each '+' (ok) or '-' (error / panic).
func api(src string) string {
	var sb strings.Builder
	// each wrapper under recover: '+' ok, '-' error (for MustParse: panic), '!' unexpected panic
	call := func(f func() bool) {
		defer func() {
			if r := recover(); r != nil {
				sb.WriteByte('!')
			}
		}()
		if f() {
			sb.WriteByte('+')
		} else {
			sb.WriteByte('-')
		}
	}
	call(func() bool { _, err := path.Parse(src); return err == nil })
	func() {
		defer func() {
			if r := recover(); r != nil {
				sb.WriteByte('-')
			}
		}()
		_ = path.MustParse(src)
		sb.WriteByte('+')
	}()
	call(func() bool { var p path.Path; return p.Scan(src) == nil })
	call(func() bool { var p path.Path; return p.Scan([]byte(src)) == nil })
	call(func() bool { var p path.Path; return p.UnmarshalBinary([]byte(src)) == nil })
	call(func() bool { var p path.Path; return p.UnmarshalText([]byte(src)) == nil })
	return sb.String()
}

// regexOracle answers the model's regex_ok queries with the real code:
// lines "hexpattern mask" -> "hexpattern mask 0|1".
func regexOracle() {
	in := bufio.NewScanner(os.Stdin)
	in.Buffer(make([]byte, 1<<20), 1<<26)
	out := bufio.NewWriter(os.Stdout)
	defer out.Flush()
	for in.Scan() {
		var hp string
		var mask int
		if _, err := fmt.Sscanf(in.Text(), "%s %d", &hp, &mask); err != nil {
			continue
		}
		pat := ""
		if hp != "e" {
			raw, err := hex.DecodeString(strings.TrimPrefix(hp, "x"))
			if err != nil {
				continue
			}
			pat = string(raw)
		}
		flags := ""
		for i, c := range "ismxq" {
			if mask&(1<<i) != 0 {
				flags += string(c)
			}
		}
		_, err := ast.NewRegex(ast.NewConst(ast.ConstRoot), pat, flags)
		ok := 0
		if err == nil {
			ok = 1
		}
		fmt.Fprintf(out, "%s %d %d\n", hp, mask, ok)
	}
}

func main() {
	mode := ""
	if len(os.Args) > 1 {
		mode = os.Args[1]
	}
	switch mode {
	case "-regex":
		regexOracle()
		return
	case "-c02":
		searchMain(c02Line)
		return
	case "-c03":
		searchMain(c03Line)
		return
	case "-c04":
		fmt.Println(c04Preamble())
		searchMain(c04Line)
		return
	}
	withAPI := mode == "-api"
	hangs := 0
	in := bufio.NewScanner(os.Stdin)
	in.Buffer(make([]byte, 1<<20), 1<<26)
	out := bufio.NewWriter(os.Stdout)
	defer out.Flush()
	for in.Scan() {
		line := strings.TrimSpace(in.Text())
		raw, err := hex.DecodeString(line)
		if err != nil {
			fmt.Fprintln(out, "BADHEX")
			continue
		}
		// Parse must not hang: each input runs under a watchdog (the spinning goroutine of a hung Parse is
		// abandoned; after a number of hangs the remaining inputs are not tried any more)
		var r result
		if hangs >= 40 {
			r = result{false, "HANG"}
		} else {
			done := make(chan result, 1)
			go func(src string) { done <- run(src) }(string(raw))
			select {
			case r = <-done:
			case <-time.After(watchdog):
				hangs++
				r = result{false, "HANG"}
			}
		}
		if r.line == "HANG" {
			fmt.Fprintln(out, "HANG")
			continue
		}
		if withAPI {
			fmt.Fprintf(out, "%s %s\n", r.line, api(string(raw)))
		} else {
			fmt.Fprintln(out, r.line)
		}
	}
}
