#!/bin/sh
# tools/coverage.sh [N] — statement coverage of /repo's packages reached by the executor harness families
# (the inputs of the T/S/THM legs).  Builds the harness INSIDE a scratch worktree of /repo (packages of the
# main module are instrumented by `go build -cover`), runs every family with N cases (default 3000) plus the
# corpus, prints the per-package percentages and the uncovered blocks of path/exec, removes the scratch files.
# Not part of any check: a measurement used to find what the generators do not reach.
set -e
N=${1:-3000}
export GOFLAGS=-mod=mod GOPROXY=off GOSUMDB=off GOTOOLCHAIN=local
WT=/var/tmp/verif-cov-wt; D=/var/tmp/verif-cov
rm -rf "$D"; mkdir -p "$D/data"
git -C /repo worktree remove --force "$WT" 2>/dev/null || true
git -C /repo worktree add --detach "$WT" HEAD >/dev/null 2>&1
trap 'git -C /repo worktree remove --force "$WT" 2>/dev/null; git -C /repo worktree prune; rm -rf "$D"' EXIT
mkdir -p "$WT/cmd/sjh" && cp /verif/harness/*.go "$WT/cmd/sjh/"
(cd "$WT" && go build -cover -o "$D/sjh" ./cmd/sjh)
export GOCOVERDIR="$D/data"
for fam in rand sub desc cmp math meth cancel kleene filter struct compose group9 group10 group11 pg ctx dt kv; do
  n=$N; [ $fam = cancel ] && n=60
  "$D/sjh" gen -family $fam -n $n -seed "${VERIF_SEED:-1}" -out "$D/out.sexp" 2>/dev/null
done
for f in /verif/corpus/C*.jsonl; do "$D/sjh" gen -family "file:$f" -out "$D/out.sexp" 2>/dev/null || true; done
cd "$WT"
go tool covdata percent -i="$D/data"
go tool covdata textfmt -i="$D/data" -o "$D/cov.txt"
echo "uncovered blocks of path/exec:"
grep "path/exec/" "$D/cov.txt" | awk '$NF==0' | sed 's#github.com/theory/sqljson/##' | sort -t: -k1,1 -k2,2n
